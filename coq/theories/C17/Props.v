(* C17 — property theorems only.  Every theorem is closed by [exact] of a lemma proved in
   Proofs*.v (the refuted ones by computation on their witness) and followed by
   [Print Assumptions].

   Vocabulary.  [doc]: the abstract document (null / bool / int / float literal / string /
   list / map).  [shape rf f d]: the Go value tree that format [f]'s parser plus go-zero's
   normaliser hand to LoadFromJsonBytes ([rf]: how the YAML / TOML paths re-render a float
   literal).  [conf_load T j]: buildFieldsInfo + toLowerCaseKeyMap + C08's unmarshaller with
   canonical keys.  [gsim]: deep equality of decoded values, floats compared by value;
   [rsim gsim r r']: same verdict and, on success, deeply equal values.

   THE PARSERS ARE ORACLES.  encoding/json, yaml.v2, go-toml/v2 and os.ExpandEnv are not
   modelled: inside [Section Oracles] they are the variables [parse], [render], [expand_text]
   with the hypotheses [parse_render] / [expand_render] ("parsing the rendering of d yields
   shape rf f d").  After the section closes these are explicit premises of the theorems.
   What is assumed of the number re-rendering is the per-document boolean [leaves_ok rf d].
   The harness evaluates both on every case (Check.v: [mids_ok], [rf_ok_doc rf_go]). *)
From Coq Require Import List ZArith Bool String Ascii.
From GZ Require Import C08.Model C08.Spec C17.Model C17.Hyps C17.Shapes C17.Proofs C17.ProofsB C17.ProofsC C17.ProofsD C17.ProofsF.
Import ListNotations.
Open Scope Z_scope.
Open Scope string_scope.

Section Oracles.
Variable parse : fmt -> string -> option jv.
Variable render : fmt -> doc -> string.
Variable expand_text : list (string * string) -> string -> string.
Variable rf : fmt -> string -> string.
Hypothesis parse_render : forall f d, rep_top d = true -> parse f (render f d) = Some (shape rf f d).
Hypothesis expand_render : forall f env d,
  rep_top d = true -> rep_top (expand_doc env d) = true ->
  parse f (expand_text env (render f d)) = Some (shape rf f (expand_doc env d)).

(* Format independence: for every type of the family (14 scalar kinds, pointers, slices, maps,
   nested and embedded structs incl. optional and pointer ones, optional / optional=dep /
   default / range / options on every field; no "string" option, no options= on float fields)
   and every document representable in all three formats whose float literals sit only where
   their text cannot matter (not: integral AND within the kind's range at an integer position = F8a; not at all at a
   string / bool slice-or-map element = F8c), YAML, TOML and JSON give the same verdict and,
   on success, deeply equal values. *)
Theorem format_independent : forall T d,
  fam_fields T = true -> rep_top d = true -> leaves_ok rf d = true -> float_positions_ok T d = true ->
  rsim gsim (load_text parse T FYaml (render FYaml d)) (load_text parse T FJson (render FJson d)) /\
  rsim gsim (load_text parse T FToml (render FToml d)) (load_text parse T FJson (render FJson d)).
Proof. exact (format_independent_lemma parse render rf parse_render). Qed.

(* Keys are matched case-insensitively: a document whose keys are re-cased wherever the loader
   lower-cases them (struct-field keys; map keys are data and stay) loads to the same result,
   in every format.  (Two keys of one object that collide after lower-casing are outside the
   model: Go's map iteration order picks the survivor.) *)
Theorem case_insensitive_keys : forall T f d d',
  rep_top d = true -> rep_top d' = true ->
  match info_fields T fi_empty with Some i => recase_doc d d' i = true | None => True end ->
  load_text parse T f (render f d) = load_text parse T f (render f d').
Proof. exact (case_insensitive_lemma parse render rf parse_render). Qed.

(* The same, with the re-casing described BY THE TYPE (repaired buildFieldsInfo): for every struct
   type whose fields have distinct canonical keys at every level, re-casing any key that addresses
   a struct field — at any depth, through pointers, slices, maps and maps of maps — leaves the
   result unchanged, in every format; map keys must be identical ([tr_val]: they are data). *)
Theorem case_insensitive_keys_typed : forall T f d d',
  rep_top d = true -> rep_top d' = true -> keys_distinct T = true -> tr_top T d d' = true ->
  load_text parse T f (render f d) = load_text parse T f (render f d').
Proof. exact (case_insensitive_typed_lemma parse render rf parse_render). Qed.

(* conf.Load without conf.UseEnv() never looks at the environment ... *)
Theorem env_only_when_requested : forall T f env d,
  load_file_text parse expand_text T f false env (render f d) = load_text parse T f (render f d).
Proof. exact (env_not_requested_lemma parse render expand_text). Qed.

(* ... with it, the result is that of the document with ${NAME} / $NAME expanded in its strings
   AND IN ITS KEYS (os.ExpandEnv works on the text of the file; the expanded document must still
   have distinct keys), and the three formats still agree *)
Theorem env_expanded_when_requested : forall T f env d, rep_top d = true -> rep_top (expand_doc env d) = true ->
  load_file_text parse expand_text T f true env (render f d) = load_doc rf T f (expand_doc env d).
Proof. exact (env_requested_lemma parse render expand_text rf expand_render). Qed.

Theorem env_format_independent : forall T env d,
  fam_fields T = true -> rep_top d = true -> rep_top (expand_doc env d) = true -> leaves_ok rf (expand_doc env d) = true ->
  float_positions_ok T (expand_doc env d) = true ->
  rsim gsim (load_file_text parse expand_text T FYaml true env (render FYaml d))
            (load_file_text parse expand_text T FJson true env (render FJson d)) /\
  rsim gsim (load_file_text parse expand_text T FToml true env (render FToml d))
            (load_file_text parse expand_text T FJson true env (render FJson d)).
Proof. exact (env_format_independent_lemma parse render expand_text rf expand_render). Qed.
End Oracles.

Print Assumptions format_independent.
Print Assumptions case_insensitive_keys.
Print Assumptions case_insensitive_keys_typed.

(* map keys are data: lower-casing a map-typed position keeps every key as written *)
Theorem map_keys_left_alone : forall e fi m, info_any (TMap e) = Some fi -> dkeys (lc_dmap m fi) = dkeys m.
Proof. exact map_keys_kept. Qed.
Print Assumptions map_keys_left_alone.

(* what buildStructFieldsInfo builds for a struct with distinct canonical keys: one child per field
   (embedded structs flattened), keyed by the canonical key, holding the info of the field's type *)
Theorem field_info_characterised : forall fs,
  nodupb (lowerkeys fs) = true ->
  info_fields fs fi_empty = option_map (fun es => FI es None) (entries fs) /\
  forall es lk, entries fs = Some es ->
    lookup lk es = match ftype_of lk fs with Some t => info_any t | None => None end.
Proof.
  intros fs H. split.
  - exact (info_fields_entries fs fi_empty H (fun k _ => eq_refl)).
  - intros es lk He. rewrite (lookup_entries fs es lk He). destruct (ftype_of lk fs); auto using info_named_any.
Qed.
Print Assumptions field_info_characterised.
Print Assumptions env_only_when_requested.
Print Assumptions env_expanded_when_requested.
Print Assumptions env_format_independent.

(* ---------------------------------------------------------------- arbitrary type shapes (Shapes.v) *)

(* Keys are matched case-insensitively for EVERY type shape conf can be given: pointers and
   pointers to pointers, slices, arrays, maps, structs, embedded structs and pointers to them,
   anonymous fields of declared slice / map / scalar types, declared scalar types and aliases,
   time.Duration, json.Number, interface{}, []byte — nested to any depth.  For every such type
   whose structs have distinct canonical keys, two documents that differ only in the case of keys
   addressing struct fields (map keys, and everything below an interface{} position, must be
   identical: [xtr_top]) are turned by toLowerCaseKeyMap into THE SAME map, in every format; so
   whatever function [um] of that map the unmarshaller is — no model of mapping is involved —
   the two loads are the same. *)
Theorem case_insensitive_keys_shapes : forall (R : Type) (um : jv -> R) rf f T d d' info,
  xkeys_distinct T = true -> xtr_top T d d' = true -> xinfo T = Some info ->
  um (lc_val (shape rf f d) info) = um (lc_val (shape rf f d') info).
Proof. exact case_insensitive_shapes_lemma. Qed.
Print Assumptions case_insensitive_keys_shapes.

(* what buildFieldsInfo makes of each shape: pointers, slices and arrays are transparent, a map
   adds a layer under which keys are left alone, every scalar-like type (incl. Duration,
   json.Number, interface{}, []byte, declared scalars) is a leaf, a struct is [xinfo] *)
Theorem field_info_by_shape :
  (forall t, info_any (skel (XPtr t)) = info_any (skel t)) /\
  (forall t, info_any (skel (XSlice t)) = info_any (skel t)) /\
  (forall n t, info_any (skel (XArr n t)) = info_any (skel t)) /\
  (forall t, info_any (skel (XMap t)) = option_map (fun ei => FI [] (Some ei)) (info_any (skel t))) /\
  (forall k, info_any (skel (XPrim k)) = Some fi_empty) /\
  info_any (skel XDur) = Some fi_empty /\ info_any (skel XNum) = Some fi_empty /\
  info_any (skel XAny) = Some fi_empty /\ info_any (skel XBytes) = Some fi_empty /\
  (forall fs, info_any (skel (XStruct fs)) = xinfo fs).
Proof. exact shape_info_lemma. Qed.
Print Assumptions field_info_by_shape.

(* below a leaf position no key is touched, at any depth *)
Theorem leaf_positions_keep_keys : forall d, akeys (lc_doc d fi_empty) = akeys d.
Proof. exact (proj1 lc_leaf_keeps_keys). Qed.
Print Assumptions leaf_positions_keep_keys.

(* ---------------------------------------------------------------- histories of conf.Load calls *)

(* "environment variables expanded only when requested", over a whole history of calls on one
   process: every call's result is that of the call alone — what an earlier call asked for
   (conf.UseEnv() or not) is irrelevant; in particular a call without UseEnv gives the same
   result under any two environments, wherever it stands in the history *)
Theorem env_only_when_requested_history : forall rf T f env calls on,
  load_history false rf T f env on calls = map (fun c => load_file rf T f (fst c) env (snd c)) calls.
Proof. exact load_history_independent. Qed.
Print Assumptions env_only_when_requested_history.

(* conf keeps nothing between loads: in a history of loads of arbitrary (also different) configuration types, formats
   and documents in one process, every load gives what the same (type, format, document) gives alone — whatever was
   loaded before it, successfully or not.  ([conf_history true]: the kept-field-info variant of seeded change C17-10,
   refuted in Pinned.v; tied by the executor, which loads every type several times per process, in every format order,
   and types sharing section types after one another, and compares repeated loads.) *)
Theorem load_independent_of_earlier_loads : forall rf h kept,
  conf_history false rf kept h = map (fun r => load_doc rf (fst (fst r)) (snd (fst r)) (snd r)) h.
Proof. exact conf_history_independent. Qed.
Print Assumptions load_independent_of_earlier_loads.

(* conf.UseEnv() matters only where a '$' stands: a document without '$' in any key or string value
   loads the same with and without the option, under every environment *)
Theorem use_env_irrelevant_without_dollar : forall rf T f env d use_env,
  doc_has_dollar d = false -> load_file rf T f use_env env d = load_doc rf T f d.
Proof. exact ProofsF.use_env_irrelevant_without_dollar. Qed.
Print Assumptions use_env_irrelevant_without_dollar.

Theorem env_off_call_ignores_environment : forall rf T f env env' before d after on,
  nth_error (load_history false rf T f env on (before ++ (false, d) :: after)) (List.length before)
  = nth_error (load_history false rf T f env' on (before ++ (false, d) :: after)) (List.length before).
Proof. exact env_off_after_any_history. Qed.
Print Assumptions env_off_call_ignores_environment.

(* the same, on the trees (no oracle involved) *)
Theorem format_independent_on_trees : forall rf f T d,
  f <> FJson -> fam_fields T = true -> leaves_ok rf d = true -> float_positions_ok T d = true ->
  rsim gsim (load_doc rf T f d) (load_doc rf T FJson d).
Proof. exact load_sim. Qed.
Print Assumptions format_independent_on_trees.

(* ... and with the model of go-zero's own number re-rendering ([rf_go]: lang.Repr on the YAML path,
   encoding/json's float encoder on the TOML path): for EVERY type of the family and EVERY document
   satisfying the two boolean family predicates, the three model pipelines
   (yaml.v2 + toStringKeyMap + JSON | go-toml + JSON | JSON) give the same verdict and deeply equal values *)
Theorem three_model_pipelines_agree : forall T d,
  fam_fields T = true -> leaves_ok rf_go d = true -> float_positions_ok T d = true ->
  rsim gsim (load_doc rf_go T FYaml d) (load_doc rf_go T FJson d) /\
  rsim gsim (load_doc rf_go T FToml d) (load_doc rf_go T FJson d).
Proof. exact three_pipelines_lemma. Qed.
Print Assumptions three_model_pipelines_agree.

(* mapping's own front ends — mapping.UnmarshalYamlBytes / UnmarshalTomlBytes (and the Reader
   variants, which read everything and delegate) against mapping.UnmarshalJsonBytes: the same
   converters, then the unmarshaller with EXACT keys and no conf layer.  [flok_fields T m]: the
   float literals of the document sit where their text cannot matter, along exactly-spelled keys. *)
Theorem mapping_format_independent : forall rf f T m,
  f <> FJson -> fam_fields T = true -> leaves_ok_map rf m = true -> flok_fields T m = true ->
  rsim gsim (unmarshal fixed jcfg T (Some (shape rf f (DMap m)))) (unmarshal fixed jcfg T (Some (shape rf FJson (DMap m)))).
Proof. exact mapping_sim. Qed.
Print Assumptions mapping_format_independent.

(* Agreement with encoding/json: for types with plain json name tags only (numbers, strings,
   booleans, nested structs, slices, maps, pointers), on decoded JSON objects with distinct keys,
   no key that is a case variant of a field name (F8b), no absent map / pointer field (F8d) and
   no array consisting of nulls only (F8e): whenever mapping.UnmarshalJsonBytes and the
   reference model of encoding/json both accept, the decoded values are EQUAL. *)
Theorem agrees_with_stdjson : forall fs d v w,
  plain_fields fs = true -> std_ok fs d = true ->
  unmarshal fixed jcfg fs d = Ok v -> stdjson_decode fs d = Ok w -> v = w.
Proof. exact agrees_with_stdjson_lemma. Qed.
Print Assumptions agrees_with_stdjson.

(* ---------------------------------------------------------------- refuted: known findings *)

Definition t_int : fields := FCons "a" None (TPrim (KInt W0)) FNil.

(* F8a: a float-typed literal with integral value into an integer field: JSON rejects it,
   YAML and TOML accept it as 1 *)
Theorem float_into_int_refuted : exists T d,
  fam_fields T = true /\ rep_top d = true /\ leaves_ok rf_go d = true /\
  load_doc rf_go T FJson d = Err EConv /\
  load_doc rf_go T FYaml d = Ok (VStruct [VInt 1]) /\
  load_doc rf_go T FToml d = Ok (VStruct [VInt 1]).
Proof. exists t_int, (DMap (DMcons "a" (DFloat "1.0") DMnil)). vm_compute. repeat split. Qed.

(* F8c: a float literal as element of []string: each format stores ITS text of the number;
   as element of []bool: JSON rejects 1.0, YAML / TOML read true *)
Theorem float_into_string_element_refuted : exists T d,
  fam_fields T = true /\ rep_top d = true /\ leaves_ok rf_go d = true /\
  load_doc rf_go T FJson d = Ok (VStruct [VSlice [VStr "1e21"]]) /\
  load_doc rf_go T FYaml d = Ok (VStruct [VSlice [VStr "1000000000000000000000"]]) /\
  load_doc rf_go T FToml d = Ok (VStruct [VSlice [VStr "1e+21"]]).
Proof.
  exists (FCons "a" None (TSlice (TPrim KStr)) FNil), (DMap (DMcons "a" (DList (DLcons (DFloat "1e21") DLnil)) DMnil)).
  vm_compute. repeat split.
Qed.

Theorem float_into_bool_element_refuted : exists T d,
  fam_fields T = true /\ rep_top d = true /\ leaves_ok rf_go d = true /\
  load_doc rf_go T FJson d = Err EConv /\
  load_doc rf_go T FYaml d = Ok (VStruct [VSlice [VBool true]]) /\
  load_doc rf_go T FToml d = Ok (VStruct [VSlice [VBool true]]).
Proof.
  exists (FCons "a" None (TSlice (TPrim KBool)) FNil), (DMap (DMcons "a" (DList (DLcons (DFloat "1.0") DLnil)) DMnil)).
  vm_compute. repeat split.
Qed.

(* outside the quantifier (TOML has no null), recorded: YAML null becomes the string "" *)
Theorem yaml_null_refuted : exists T d,
  load_doc rf_go T FJson d = Ok (VStruct [VInt 0]) /\ load_doc rf_go T FYaml d = Err EType.
Proof.
  exists (FCons "a" (Some (mkOpts true None None None [] false)) (TPrim (KInt W0)) FNil),
         (DMap (DMcons "a" DNull DMnil)).
  vm_compute. split; reflexivity.
Qed.

(* F8b: an embedded struct with a json name tag is flattened by mapping, nested by encoding/json *)
Theorem embedded_tag_refuted : exists T d v w,
  um_top T d = Ok v /\ std_top T d = Ok w /\ v <> w /\
  v = VStruct [VStruct [VInt 2]; VInt 2] /\ w = VStruct [VStruct [VInt 1]; VInt 2].
Proof.
  exists (CEmbed (Some "inner") (CNamed "a" None (TPrim (KInt W0)) CNil) (CNamed "a" None (TPrim (KInt W0)) CNil)),
         (Some (JObj [("inner", JObj [("a", JNum "1")]); ("a", JNum "2")])).
  eexists. eexists. vm_compute. repeat split. discriminate.
Qed.

(* F8b: two keys differing only in case: mapping takes the exact one, encoding/json the last *)
Theorem case_dup_refuted : exists d v w,
  plain_fields t_int = true /\
  unmarshal fixed jcfg t_int d = Ok v /\ stdjson_decode t_int d = Ok w /\ v <> w /\
  v = VStruct [VInt 2] /\ w = VStruct [VInt 1].
Proof.
  exists (Some (JObj [("a", JNum "2"); ("A", JNum "1")])). eexists. eexists. vm_compute. repeat split. discriminate.
Qed.

(* F8d: an absent map field: empty map (mapping) vs nil (encoding/json) *)
Theorem absent_map_refuted : exists fs d v w,
  plain_fields fs = true /\ unmarshal fixed jcfg fs d = Ok v /\ stdjson_decode fs d = Ok w /\ v <> w /\
  v = VStruct [VMap []] /\ w = VStruct [VNil].
Proof.
  exists (FCons "m" None (TMap (TPrim (KInt W0))) FNil), (Some (JObj [])). eexists. eexists.
  vm_compute. repeat split. discriminate.
Qed.

(* F8e: an array of nulls only: nil slice (mapping) vs zero elements (encoding/json) *)
Theorem all_null_slice_refuted : exists fs d v w,
  plain_fields fs = true /\ unmarshal fixed jcfg fs d = Ok v /\ stdjson_decode fs d = Ok w /\ v <> w /\
  v = VStruct [VNil] /\ w = VStruct [VSlice [VInt 0; VInt 0]].
Proof.
  exists (FCons "a" None (TSlice (TPrim (KInt W0))) FNil), (Some (JObj [("a", JArr [JNull; JNull])])). eexists. eexists.
  vm_compute. repeat split. discriminate.
Qed.

(* the remaining exclusion of [std_ok] ([absent_neutral] of a pointer): an absent pointer field whose
   target needs nothing is allocated by mapping and left nil by encoding/json — the same
   "materialised empty value" as F8d, here for the degenerate target struct{} (a pointer to a
   struct with a member is "not set" for mapping, so nothing is compared there) *)
Theorem absent_pointer_refuted : exists fs d v w,
  plain_fields fs = true /\ unmarshal fixed jcfg fs d = Ok v /\ stdjson_decode fs d = Ok w /\ v <> w /\
  v = VStruct [VPtr (VStruct [])] /\ w = VStruct [VNil].
Proof.
  exists (FCons "p" None (TPtr (TStruct FNil)) FNil), (Some (JObj [])). eexists. eexists.
  vm_compute. repeat split. discriminate.
Qed.

(* every exclusion made by the family predicate [plain_fields fs && std_ok fs d] is witnessed *)
Theorem std_family_exclusions_witnessed :
  (exists fs d, plain_fields fs = true /\ std_ok fs d = false /\           (* case-variant key: F8b *)
     exists v w, unmarshal fixed jcfg fs d = Ok v /\ stdjson_decode fs d = Ok w /\ v <> w) /\
  (exists fs, plain_fields fs = true /\ std_ok fs (Some (JObj [])) = false /\   (* absent map: F8d *)
     exists v w, unmarshal fixed jcfg fs (Some (JObj [])) = Ok v /\ stdjson_decode fs (Some (JObj [])) = Ok w /\ v <> w /\
                 v = VStruct [VMap []]) /\
  (exists fs, plain_fields fs = true /\ std_ok fs (Some (JObj [])) = false /\   (* absent pointer *)
     exists v w, unmarshal fixed jcfg fs (Some (JObj [])) = Ok v /\ stdjson_decode fs (Some (JObj [])) = Ok w /\ v <> w /\
                 v = VStruct [VPtr (VStruct [])]) /\
  (exists fs d, plain_fields fs = true /\ std_ok fs d = false /\           (* array of nulls only: F8e *)
     exists v w, unmarshal fixed jcfg fs d = Ok v /\ stdjson_decode fs d = Ok w /\ v <> w /\ v = VStruct [VNil]).
Proof.
  repeat split.
  - exists t_int, (Some (JObj [("a", JNum "2"); ("A", JNum "1")])). vm_compute. repeat split.
    eexists. eexists. repeat split. discriminate.
  - exists (FCons "m" None (TMap (TPrim (KInt W0))) FNil). vm_compute. repeat split.
    eexists. eexists. repeat split. discriminate.
  - exists (FCons "p" None (TPtr (TStruct FNil)) FNil). vm_compute. repeat split.
    eexists. eexists. repeat split. discriminate.
  - exists (FCons "a" None (TSlice (TPrim (KInt W0))) FNil), (Some (JObj [("a", JArr [JNull; JNull])])). vm_compute. repeat split.
    eexists. eexists. repeat split. discriminate.
Qed.
Print Assumptions std_family_exclusions_witnessed.

Print Assumptions float_into_int_refuted.
Print Assumptions embedded_tag_refuted.
Print Assumptions case_dup_refuted.

(* ---------------------------------------------------------------- non-vacuity *)

Definition ex_T : fields :=
  FCons "Name" None (TPrim KStr)
 (FCons "Port" (Some (mkOpts false None (Some "80") (Some (mkRange true (Some (mkDec 1 0)) (Some (mkDec 65535 0)) true)) [] false))
        (TPrim (KInt W0))
 (FEmbed false false (FCons "Rate" None (TPrim KF64) (FCons "Tags" (Some (mkOpts true None None None [] false)) (TSlice (TPrim KStr)) FNil))
 (FCons "Limits" None (TMap (TStruct (FCons "Max" None (TPrim KF32) FNil))) FNil))).

Definition ex_d : doc :=
  DMap (DMcons "name" (DStr "svc") (DMcons "RATE" (DFloat "1.50")
       (DMcons "limits" (DMap (DMcons "Gold" (DMap (DMcons "MAX" (DFloat "2.5e3") DMnil)) DMnil)) DMnil))).
Definition ex_d' : doc :=
  DMap (DMcons "NAME" (DStr "svc") (DMcons "rate" (DFloat "1.50")
       (DMcons "Limits" (DMap (DMcons "Gold" (DMap (DMcons "max" (DFloat "2.5e3") DMnil)) DMnil)) DMnil))).

(* the hypotheses of format_independent hold of a non-trivial (type, document), with the
   concrete Go re-rendering; the three loads succeed; JSON keeps "1.50", YAML / TOML see "1.5" *)
Example ex_hyps :
  fam_fields ex_T = true /\ rep_top ex_d = true /\ leaves_ok rf_go ex_d = true /\ float_positions_ok ex_T ex_d = true /\
  load_doc rf_go ex_T FJson ex_d =
    Ok (VStruct [VStr "svc"; VInt 80; VStruct [VFloat (FDec (mkDec 150 (-2))); VNil];
                 VMap [("Gold", VStruct [VFloat (FDec (mkDec 25 2))])]]) /\
  load_doc rf_go ex_T FYaml ex_d =
    Ok (VStruct [VStr "svc"; VInt 80; VStruct [VFloat (FDec (mkDec 15 (-1))); VNil];
                 VMap [("Gold", VStruct [VFloat (FDec (mkDec 2500 0))])]]) /\
  shape rf_go FToml ex_d <> shape rf_go FJson ex_d.
Proof. vm_compute. repeat split; discriminate. Qed.

Example ex_recase :
  match info_fields ex_T fi_empty with Some i => recase_doc ex_d ex_d' i = true | None => True end /\
  rep_top ex_d' = true /\ load_doc rf_go ex_T FJson ex_d' = load_doc rf_go ex_T FJson ex_d.
Proof. vm_compute. repeat split. Qed.

Example ex_recase_typed : keys_distinct ex_T = true /\ tr_top ex_T ex_d ex_d' = true.
Proof. vm_compute. split; reflexivity. Qed.

Example ex_env :
  expand_doc [("HOST", "db1")] (DMap (DMcons "dsn" (DStr "tcp://${HOST}:$PORT/x") DMnil))
  = DMap (DMcons "dsn" (DStr "tcp://db1:/x") DMnil) /\
  expand_str [("A", "v")] "a$$b|${}|$1x|$?|${A}|$-|$A.|${A|50%$" = "ab||x||v||v.|A|50%$".
Proof. vm_compute. split; reflexivity. Qed.

(* the hypotheses of agrees_with_stdjson hold of a document both decoders accept *)
Definition ex_plain : fields :=
  FCons "a" None (TPrim (KInt W8))
 (FCons "p" None (TPtr (TPrim KStr))
 (FCons "l" None (TSlice (TStruct (FCons "x" None (TPrim KF64) FNil)))
 (FCons "m" None (TMap (TSlice (TPrim KBool))) FNil))).
Definition ex_json : option jv :=
  Some (JObj [("a", JNum "-7"); ("p", JStr "s"); ("l", JArr [JObj [("x", JNum "1.5")]; JNull]);
              ("m", JObj [("k", JArr [JBool true])]); ("other", JNull)]).
Example ex_std :
  plain_fields ex_plain = true /\ std_ok ex_plain ex_json = true /\
  unmarshal fixed jcfg ex_plain ex_json = stdjson_decode ex_plain ex_json /\
  exists v, stdjson_decode ex_plain ex_json = Ok v.
Proof. vm_compute. repeat split. eexists. reflexivity. Qed.

(* the hypotheses of case_insensitive_keys_shapes hold of a non-trivial shape: an array of pointers
   to pointers to a declared struct, a map of slices of pointers to maps of it, an interface{}
   member; the two spellings get the same lower-cased map, and it is not the document itself *)
Definition ex_node : xtype :=
  XStruct (XCons "Host" None (XPrim KStr) (XCons "maxConn" None (XPrim (KInt W0)) (XCons "Meta" None (XMap XAny) XNil))).
Definition ex_X : xfields :=
  XCons "Peers" None (XArr 2 (XPtr (XPtr ex_node)))
 (XCons "ByZone" None (XMap (XSlice (XPtr (XMap ex_node))))
 (XEmbed false true (XCons "Timeout" None XDur XNil) XNil)).
Definition ex_xnode (h c k : string) : doc :=
  DMap (DMcons h (DStr "h1") (DMcons c (DInt 3) (DMcons k (DMap (DMcons "InnerKey" (DInt 1) DMnil)) DMnil))).
Definition ex_xd : doc :=
  DMap (DMcons "Peers" (DList (DLcons (ex_xnode "Host" "maxConn" "Meta") DLnil))
       (DMcons "ByZone" (DMap (DMcons "Host" (DList (DLcons (DMap (DMcons "maxConn" (ex_xnode "Host" "maxConn" "Meta") DMnil)) DLnil)) DMnil))
       (DMcons "Timeout" (DStr "1s") DMnil))).
Definition ex_xd' : doc :=
  DMap (DMcons "PEERS" (DList (DLcons (ex_xnode "hOST" "MAXCONN" "meta") DLnil))
       (DMcons "byzone" (DMap (DMcons "Host" (DList (DLcons (DMap (DMcons "maxConn" (ex_xnode "HOST" "maxconn" "META") DMnil)) DLnil)) DMnil))
       (DMcons "TimeOut" (DStr "1s") DMnil))).
Example ex_shapes :
  xkeys_distinct ex_X = true /\ xtr_top ex_X ex_xd ex_xd' = true /\
  (exists info, xinfo ex_X = Some info /\ lc_val (shape rf_go FYaml ex_xd) info = lc_val (shape rf_go FYaml ex_xd') info
                /\ lc_val (shape rf_go FYaml ex_xd) info <> shape rf_go FYaml ex_xd).
Proof. vm_compute. repeat split. eexists. repeat split. discriminate. Qed.

Example ex_history :
  load_history false rf_go (FCons "dsn" None (TPrim KStr) FNil) FJson [("C17_A", "secret")] false
    [(true, DMap (DMcons "dsn" (DStr "$C17_A") DMnil)); (false, DMap (DMcons "dsn" (DStr "$C17_A") DMnil))]
  = [Ok (VStruct [VStr "secret"]); Ok (VStruct [VStr "$C17_A"])].
Proof. vm_compute. reflexivity. Qed.

(* the F8a exclusion is about integral float literals that FIT the integer kind only: one that does not fit is
   inside the family ([float_positions_ok], [leaves_ok]) and every format rejects it; one that fits is outside *)
Example ex_float_out_of_range_inside :
  let T := FCons "a" None (TPrim (KInt W8)) FNil in
  let d := DMap (DMcons "a" (DFloat "256.0") DMnil) in
  fam_fields T = true /\ leaves_ok rf_go d = true /\ float_positions_ok T d = true /\
  (forall f, load_doc rf_go T f d = Err EConv) /\
  float_positions_ok T (DMap (DMcons "a" (DFloat "127.0") DMnil)) = false.
Proof. vm_compute. repeat split. intro f; destruct f; reflexivity. Qed.
