(* C17 — proofs, part F: case-insensitive matching for arbitrary type shapes (Shapes.v), at the
   level of the map that conf hands to the unmarshaller — hence independent of any model of
   mapping —, and conf.Load's options over a whole history of calls. *)
From Coq Require Import List ZArith Bool String Ascii Lia.
From GZ Require Import C08.Model C17.Model C17.Hyps C17.Shapes C17.Proofs C17.ProofsB C17.ProofsD.
Import ListNotations.
Open Scope Z_scope.

(* ------------------------------------------------------------------ the lower-cased map of a re-cased document *)

Lemma lower_recased_typed : forall rf f T d d' info,
  keys_distinct T = true -> tr_top T d d' = true -> info_fields T fi_empty = Some info ->
  lc_val (shape rf f d) info = lc_val (shape rf f d') info.
Proof.
  intros rf f T d d' info Hd H Ei. unfold keys_distinct in Hd.
  destruct recase_typed_mutual as [Rt _].
  assert (E : lc_doc d info = lc_doc d' info) by (apply (Rt (TStruct T)); auto).
  destruct (lc_commute rf f) as [C _]. rewrite !C, E. reflexivity.
Qed.

(* For every configuration type shape — pointers, slices, ARRAYS, maps, structs, embedded structs,
   anonymous fields of declared non-struct types, declared scalar types, time.Duration,
   json.Number, interface{}, []byte, nested to any depth — whose structs have distinct canonical
   keys: two documents that differ only in the case of keys addressing struct fields are turned by
   toLowerCaseKeyMap into THE SAME map, in every format.  Whatever the unmarshaller [um] does with
   that map, it does the same for both documents. *)
Lemma case_insensitive_shapes_lemma : forall (R : Type) (um : jv -> R) rf f T d d' info,
  xkeys_distinct T = true -> xtr_top T d d' = true -> xinfo T = Some info ->
  um (lc_val (shape rf f d) info) = um (lc_val (shape rf f d') info).
Proof.
  intros R um rf f T d d' info Hd H Ei. f_equal.
  apply (lower_recased_typed rf f (skel_fields T) d d' info Hd H Ei).
Qed.

(* what buildFieldsInfo computes, shape by shape *)
Lemma shape_info_lemma :
  (forall t, info_any (skel (XPtr t)) = info_any (skel t)) /\
  (forall t, info_any (skel (XSlice t)) = info_any (skel t)) /\
  (forall n t, info_any (skel (XArr n t)) = info_any (skel t)) /\
  (forall t, info_any (skel (XMap t)) = option_map (fun ei => FI [] (Some ei)) (info_any (skel t))) /\
  (forall k, info_any (skel (XPrim k)) = Some fi_empty) /\
  info_any (skel XDur) = Some fi_empty /\ info_any (skel XNum) = Some fi_empty /\
  info_any (skel XAny) = Some fi_empty /\ info_any (skel XBytes) = Some fi_empty /\
  (forall fs, info_any (skel (XStruct fs)) = xinfo fs).
Proof. repeat split; reflexivity. Qed.

(* every key of a document, at any depth, in document order *)
Fixpoint akeys (d : doc) : list string :=
  match d with DList l => akeys_l l | DMap m => akeys_m m | _ => [] end
with akeys_l (l : docs) : list string :=
  match l with DLnil => [] | DLcons x r => akeys x ++ akeys_l r end
with akeys_m (m : dmap) : list string :=
  match m with DMnil => [] | DMcons k x r => k :: akeys x ++ akeys_m r end.

(* an any / Duration / json.Number / []byte / scalar position has no children and no map layer:
   below it NO key is touched, at any depth (the keys inside an interface{} value are data) *)
Lemma lc_leaf_keeps_keys :
  (forall d, akeys (lc_doc d fi_empty) = akeys d) /\
  (forall l, akeys_l (lc_docs l fi_empty) = akeys_l l) /\
  (forall m, akeys_m (lc_dmap m fi_empty) = akeys_m m).
Proof.
  apply doc_docs_dmap_ind; try reflexivity.
  - intros l IH. destruct l as [|x r]; [reflexivity|]. exact IH.
  - intros m IH. exact IH.
  - intros d IHd l IHl. cbn [lc_docs akeys_l]. rewrite IHd, IHl. reflexivity.
  - intros k d IHd m IHm. cbn [lc_dmap fi_children fi_mapf fi_empty lookup akeys_m]. rewrite IHm.
    destruct d; try reflexivity. rewrite IHd. reflexivity.
Qed.

(* ------------------------------------------------------------------ a history of conf.Load calls *)

(* one call: (conf.UseEnv() given?, the document in the file).  [sticky = false] is the code:
   the options struct is a fresh local of every call.  [sticky = true] is the pinned variant in
   which the option set is shared between calls (seeded change C17-1): once some call asked for
   the environment, every later call expands too. *)
Fixpoint load_history (sticky : bool) (rf : fmt -> string -> string) (T : fields) (f : fmt)
         (env : list (string * string)) (on : bool) (calls : list (bool * doc)) : list (result gval) :=
  match calls with
  | [] => []
  | (use_env, d) :: rest =>
    load_file rf T f (use_env || (sticky && on)) env d
    :: load_history sticky rf T f env (on || use_env) rest
  end.

Lemma load_history_independent : forall rf T f env calls on,
  load_history false rf T f env on calls = map (fun c => load_file rf T f (fst c) env (snd c)) calls.
Proof.
  intros rf T f env calls. induction calls as [|[u d] rest IH]; intro on; [reflexivity|].
  cbn [load_history map fst snd]. rewrite orb_false_r, IH. reflexivity.
Qed.

(* hence a call without UseEnv never sees the environment, whatever was loaded before it *)
Lemma env_off_after_any_history : forall rf T f env env' before d after on,
  nth_error (load_history false rf T f env on (before ++ (false, d) :: after)) (List.length before)
  = nth_error (load_history false rf T f env' on (before ++ (false, d) :: after)) (List.length before).
Proof.
  intros. rewrite !load_history_independent, !map_app. cbn [map fst snd].
  rewrite !nth_error_app2 by (rewrite map_length; lia). rewrite !map_length, Nat.sub_diag. reflexivity.
Qed.

(* ------------------------------------------------------------------ mapping's own format front ends *)

(* mapping.UnmarshalYamlBytes / UnmarshalTomlBytes (= encoding.YamlToJson / TomlToJson, then the
   unmarshaller with EXACT keys, no conf layer) against mapping.UnmarshalJsonBytes, on the trees *)
Lemma mapping_sim : forall rf f T m,
  f <> FJson -> fam_fields T = true -> leaves_ok_map rf m = true -> flok_fields T m = true ->
  rsim gsim (unmarshal fixed jcfg T (Some (shape rf f (DMap m)))) (unmarshal fixed jcfg T (Some (shape rf FJson (DMap m)))).
Proof.
  intros rf f T m Hf Hfam Hl Hpos.
  change (shape rf f (DMap m)) with (JObj (shape_map rf f m)).
  change (shape rf FJson (DMap m)) with (JObj (shape_map rf FJson m)).
  unfold unmarshal. apply rsim_rmap with (R := Forall2 gsim).
  - destruct (main_mutual_cfg rf f Hf false) as [_ HP]. apply (HP T); assumption.
  - intros a b Hab. constructor. exact Hab.
Qed.

(* the three MODEL pipelines, with the concrete re-rendering of go-zero's YAML and TOML paths *)
Lemma three_pipelines_lemma : forall T d,
  fam_fields T = true -> leaves_ok rf_go d = true -> float_positions_ok T d = true ->
  rsim gsim (load_doc rf_go T FYaml d) (load_doc rf_go T FJson d) /\
  rsim gsim (load_doc rf_go T FToml d) (load_doc rf_go T FJson d).
Proof. intros T d Hf Hl Hp. split; apply load_sim; auto; discriminate. Qed.

(* ------------------------------------------------------------------ expansion touches only '$' *)

Fixpoint has_dollar (s : string) : bool :=
  match s with
  | EmptyString => false
  | String c r => Ascii.eqb c "$"%char || has_dollar r
  end.

Lemma expand_no_dollar : forall fuel env s, has_dollar s = false -> expand fuel env s = s.
Proof.
  induction fuel as [|n IH]; intros env s H; [reflexivity|].
  destruct s as [|c r]; [reflexivity|].
  cbn [has_dollar] in H. apply orb_false_iff in H. destruct H as [Hc Hr].
  destruct c as [[] [] [] [] [] [] [] []]; try discriminate Hc; cbn [expand]; rewrite (IH env r Hr); reflexivity.
Qed.

Fixpoint doc_has_dollar (d : doc) : bool :=
  match d with
  | DStr s => has_dollar s
  | DList l => docs_has_dollar l
  | DMap m => dmap_has_dollar m
  | _ => false
  end
with docs_has_dollar (l : docs) : bool :=
  match l with DLnil => false | DLcons d r => doc_has_dollar d || docs_has_dollar r end
with dmap_has_dollar (m : dmap) : bool :=
  match m with DMnil => false | DMcons k d r => has_dollar k || doc_has_dollar d || dmap_has_dollar r end.

(* a document without a '$' in any key or string value is its own expansion, whatever the
   environment: for such documents conf.UseEnv() changes nothing *)
Lemma expand_doc_no_dollar :
  (forall d env, doc_has_dollar d = false -> expand_doc env d = d) /\
  (forall l env, docs_has_dollar l = false -> expand_list env l = l) /\
  (forall m env, dmap_has_dollar m = false -> expand_map env m = m).
Proof.
  apply doc_docs_dmap_ind; try reflexivity.
  - intros s env H. cbn [expand_doc]. unfold expand_str. rewrite expand_no_dollar; auto.
  - intros l IH env H. cbn [expand_doc]. rewrite IH; auto.
  - intros m IH env H. cbn [expand_doc]. rewrite IH; auto.
  - intros d IHd l IHl env H. cbn [docs_has_dollar] in H. apply orb_false_iff in H. destruct H as [H1 H2].
    cbn [expand_list]. rewrite IHd, IHl; auto.
  - intros k d IHd m IHm env H. cbn [dmap_has_dollar] in H. apply orb_false_iff in H. destruct H as [H H3].
    apply orb_false_iff in H. destruct H as [H1 H2].
    cbn [expand_map]. unfold expand_str. rewrite expand_no_dollar, IHd, IHm; auto.
Qed.

Lemma use_env_irrelevant_without_dollar : forall rf T f env d use_env,
  doc_has_dollar d = false -> load_file rf T f use_env env d = load_doc rf T f d.
Proof.
  intros rf T f env d use_env H. unfold load_file. destruct use_env; [|reflexivity].
  destruct expand_doc_no_dollar as [E _]. rewrite E; auto.
Qed.

(* ------------------------------------------------------------------ a history of loads of (possibly different)
   configuration types in one process.  [keep = true] is seeded change C17-10: conf keeps field infos between
   loads ([kept]: the info each key of a struct ended with, standing for the per-type table) and starts the info
   of a NAMED field from the kept one — which an earlier merge with an embedded struct's section has extended in
   place.  The code: [keep = false], nothing a load builds outlives it. *)
Fixpoint add_all_infos (acc : finfo) (l : list (string * finfo)) : option finfo :=
  match l with
  | [] => Some acc
  | (k, v) :: r => obnd (add_or_merge acc k v) (fun acc' => add_all_infos acc' r)
  end.

Fixpoint info_top (kept : list (string * finfo)) (fs : fields) (acc : finfo) : option finfo :=
  match fs with
  | FNil => Some acc
  | FCons key _ t rest =>
    obnd (match lookup (lower key) kept with Some k => Some k | None => info_named t end)
         (fun fi => obnd (add_or_merge acc (lower key) fi) (fun acc' => info_top kept rest acc'))
  | FEmbed _ _ inner rest =>
    obnd (info_fields inner fi_empty)
         (fun si => obnd (add_all_infos acc (fi_children si)) (fun acc' => info_top kept rest acc'))
  end.

Definition conf_load_info (oi : option finfo) (T : fields) (j : option jv) : result gval :=
  match oi with
  | None => Err ETag
  | Some info =>
    match j with
    | Some (JObj o) => unmarshal fixed ccfg (lower_fields T) (Some (JObj (lc_obj info o)))
    | _ => Err EDoc
    end
  end.

Fixpoint conf_history (keep : bool) (rf : fmt -> string -> string) (kept : list (string * finfo))
         (h : list (fields * fmt * doc)) : list (result gval) :=
  match h with
  | [] => []
  | (T, f, d) :: rest =>
    let oi := info_top (if keep then kept else []) T fi_empty in
    conf_load_info oi T (Some (shape rf f d))
    :: conf_history keep rf (match oi with Some i => fi_children i ++ kept | None => kept end) rest
  end.

Lemma info_top_nil : forall fs acc, info_top [] fs acc = info_fields fs acc.
Proof.
  induction fs as [|key o t rest IH|opt ptr inner IHi rest IH]; intro acc.
  - reflexivity.
  - cbn [info_top lookup]. unfold info_fields, info_named in *. cbn [info_fields_v].
    destruct (info_named_v true t) as [fi|]; [|reflexivity]. cbn [obnd].
    destruct (add_or_merge acc (lower key) fi) as [acc'|]; [|reflexivity]. cbn [obnd]. apply IH.
  - cbn [info_top]. unfold info_fields in *. cbn [info_fields_v].
    destruct (info_fields_v true inner fi_empty) as [si|]; [|reflexivity]. cbn [obnd].
    assert (E : forall l a,
               (fix add_all (acc0 : finfo) (l0 : list (string * finfo)) {struct l0} : option finfo :=
                  match l0 with
                  | [] => Some acc0
                  | (k, v) :: r => obnd (add_or_merge acc0 k v) (fun acc' => add_all acc' r)
                  end) a l = add_all_infos a l).
    { induction l as [|[k v] r IHl]; intro a; [reflexivity|]. cbn [add_all_infos].
      destruct (add_or_merge a k v); [|reflexivity]. cbn [obnd]. apply IHl. }
    change (obnd (add_all_infos acc (fi_children si)) (fun acc' => info_top [] rest acc') =
            obnd (add_all_infos acc (fi_children si)) (fun acc' => info_fields_v true rest acc')).
    destruct (add_all_infos acc (fi_children si)) as [acc'|]; [|reflexivity]. cbn [obnd]. apply IH.
Qed.

(* every load of a history gives what the same (type, format, document) gives alone, whatever was loaded
   before it — other types, the same type, failed loads *)
Lemma conf_history_independent : forall rf h kept,
  conf_history false rf kept h = map (fun r => load_doc rf (fst (fst r)) (snd (fst r)) (snd r)) h.
Proof.
  intros rf h. induction h as [|[[T f] d] rest IH]; intro kept; [reflexivity|].
  cbn [conf_history map fst snd]. rewrite IH. f_equal.
  rewrite info_top_nil. unfold load_doc, conf_load, conf_load_info. reflexivity.
Qed.
