(* C17 — correspondence / property evaluation on what the implementation returned.
   Executable only. *)
From Coq Require Import List ZArith Bool String Ascii.
From GZ Require Export C17.Model C17.Hyps C17.Shapes.
From GZ Require Import C08.Check.
Import ListNotations.
Open Scope Z_scope.

(* one observed result: nil error + canonical dump / error / recovered panic *)
Inductive ob := OOk (v : gval) | OErr | OPanic
              | OShared.   (* accepted, but two positions of the decoded value share one cell (pointer / map / slice) *)
Record ob3 := mkOb3 { oj : ob; oy : ob; ot : ob }.

(* the tree a front end handed to LoadFromJsonBytes (None: the front end rejected the text) *)
Record mid3 := mkMid3 { mj : option jv; my : option jv; mt : option jv }.

(* conf.Load by file extension, conf.MustLoad (where Load succeeded), conf.FillDefault, the
   deprecated LoadConfig* wrappers, conf.LoadProperties with / without UseEnv, and the white-box
   view of LoadFromJsonBytes (harness/overlay/conf): buildFieldsInfo's tree and the map that
   toLowerCaseKeyMap hands to the unmarshaller, for the document and for its twin *)
Record extra := mkExtra { x_byext : list (string * ob); x_must : list (string * ob); x_fill : ob;
                          x_envref : option ob3 (* LoadFrom*Bytes of the expanded texts *);
                          x_envmust : option ob3 (* MustLoad / LoadConfig with UseEnv, where Load succeeded *);
                          x_depr : list (string * ob);
                          x_props : list (string * string * option string * option string)
                                    (* key, value as written, GetString without / with UseEnv *);
                          x_plain : list ob
                                    (* mapping.UnmarshalJsonBytes (exact keys) on the same type, before / after the conf loads *);
                          x_retained : bool
                                    (* the bytes RETURNED by YamlToJson / TomlToJson were still intact after the later conversions *);
                          x_inter : list (ob * ob)
                                    (* LoadFromYaml/TomlBytes as it is, and with a complete other load between its two steps *);
                          x_info : option (option finfo);
                          x_lc : option jv; x_lc2 : option jv }.

(* a decoded value of a type outside C08's model: its canonical dump, compared as text *)
Inductive obx := XOk (dump : string) | XErr | XPanic | XShared.
Record obx3 := mkObx3 { xj : obx; xy : obx; xt : obx }.

Inductive case :=
| CaseLoad (T : fields) (d : doc)
           (d2 : option doc)                          (* the same document with re-cased keys *)
           (env : option (list (string * string)))    (* environment of the conf.Load runs *)
           (mid : mid3) (mid2 : option mid3) (midenv : option mid3)
           (load : ob3) (load2 : option ob3) (envon envoff : option ob3) (ex : option extra)
| CaseStd (T : cfields) (d : doc) (mp st : ob)        (* mapping.UnmarshalJsonBytes, encoding/json *)
| CaseShape (T : xfields) (d : doc) (d2 : option doc)
            (info : option (option finfo))             (* white-box: buildFieldsInfo (inner None: error) *)
            (lc lc2 : option jv)                       (* white-box: toLowerCaseKeyMap of the JSON rendering *)
            (load load2 : option obx3)                 (* the three loaders, when the shape is loaded at all *)
| CaseBad (T : fields) (load : ob3)                    (* three malformed texts *)
| CaseMFmt (T : fields) (d : doc) (bytes readers : ob3)    (* mapping.Unmarshal{Json,Yaml,Toml}{Bytes,Reader} *)
           (canon rcanon : ob3)                            (* the same six with WithCanonicalKeyFunc(strings.ToLower) *)
| CaseNull (T : fields) (d : doc) (lj ly : ob).            (* a document WITH nulls: conf.LoadFromJsonBytes / LoadFromYamlBytes
                                                             (TOML has no null: outside the property's quantifier; the model's
                                                             account of it, Props.yaml_null_refuted, is tied here) *)

Definition ob_of (r : result gval) : ob :=
  match r with Ok v => OOk v | Err _ => OErr | Panic => OPanic end.

Definition ob_eqb (a b : ob) : bool :=
  match a, b with
  | OOk v, OOk w => gval_eqb v w
  | OErr, OErr | OPanic, OPanic | OShared, OShared => true
  | _, _ => false
  end.

(* neither an error nor a proper value: a panic, or a value with ALIASED positions (a decoder owes
   every position its own cell; the model's values are trees) *)
Definition ob_panics (a : ob) : bool := match a with OPanic | OShared => true | _ => false end.

Fixpoint jv_eqb (a b : jv) {struct a} : bool :=
  match a, b with
  | JNull, JNull => true
  | JBool x, JBool y => Bool.eqb x y
  | JNum x, JNum y => String.eqb x y
  | JStr x, JStr y => String.eqb x y
  | JNat k x, JNat k' y => kind_eqb k k' && String.eqb x y
  | JArr l1, JArr l2 =>
    (fix go (l1 l2 : list jv) : bool :=
       match l1, l2 with
       | [], [] => true
       | x :: l1', y :: l2' => jv_eqb x y && go l1' l2'
       | _, _ => false
       end) l1 l2
  | JObj o1, JObj o2 =>
    (Z.of_nat (List.length o1) =? Z.of_nat (List.length o2)) &&
    (fix go (o : list (string * jv)) : bool :=
       match o with
       | [] => true
       | (k, x) :: o' => match lookup k o2 with Some y => jv_eqb x y | None => false end && go o'
       end) o1
  | _, _ => false
  end.

Definition mid_ok (m : option jv) (expect : jv) : bool :=
  match m with Some j => jv_eqb expect j | None => false end.

Definition mids_ok (m : mid3) (d : doc) : bool :=
  mid_ok (mj m) (shape rf_go FJson d) && mid_ok (my m) (shape rf_go FYaml d) && mid_ok (mt m) (shape rf_go FToml d).

Definition model3 (T : fields) (d : doc) : ob3 :=
  mkOb3 (ob_of (load_doc rf_go T FJson d)) (ob_of (load_doc rf_go T FYaml d)) (ob_of (load_doc rf_go T FToml d)).

Definition ob3_eqb (a b : ob3) : bool :=
  ob_eqb (oj a) (oj b) && ob_eqb (oy a) (oy b) && ob_eqb (ot a) (ot b).

Definition opt_all {A} (o : option A) (f : A -> bool) : bool := match o with Some a => f a | None => true end.

Definition obx_eqb (a b : obx) : bool :=
  match a, b with
  | XOk v, XOk w => String.eqb v w
  | XErr, XErr | XPanic, XPanic | XShared, XShared => true
  | _, _ => false
  end.
Definition obx_panics (a : obx) : bool := match a with XPanic | XShared => true | _ => false end.
Definition obx3_eqb (a b : obx3) : bool := obx_eqb (xj a) (xj b) && obx_eqb (xy a) (xy b) && obx_eqb (xt a) (xt b).
Definition obx3_same (a : obx3) : bool := obx_eqb (xj a) (xy a) && obx_eqb (xj a) (xt a).
Definition obx3_nopanic (a : obx3) : bool := negb (obx_panics (xj a) || obx_panics (xy a) || obx_panics (xt a)).

Definition ostr_eqb (a b : option string) : bool :=
  match a, b with Some x, Some y => String.eqb x y | None, None => true | _, _ => false end.

Definition dmap_of (d : doc) : dmap := match d with DMap m => m | _ => DMnil end.

(* the white-box view agrees with the model of buildFieldsInfo / toLowerCaseKeyMap *)
Definition lc_model (i : option finfo) (d : doc) : option jv :=
  option_map (fun i' => JObj (lc_obj i' (shape_map rf_go FJson (dmap_of d)))) i.

Definition lc_agrees (i : option finfo) (d : doc) (seen : option jv) : bool :=
  match seen, lc_model i d with
  | Some j, Some j' => jv_eqb j' j
  | Some _, None => false
  | None, _ => true
  end.

(* documents with nulls: keys distinct, integers in int64 *)
Fixpoint repn (d : doc) : bool :=
  match d with
  | DNilArr => false
  | DInt z => int64_ok z
  | DList l => repn_list l
  | DMap m => nodupb (dkeys m) && repn_map m
  | _ => true
  end
with repn_list (l : docs) : bool :=
  match l with DLnil => true | DLcons d r => repn d && repn_list r end
with repn_map (m : dmap) : bool :=
  match m with DMnil => true | DMcons _ d r => repn d && repn_map r end.

(* the generator only emits documents representable in all three formats *)
Definition in_scope (c : case) : bool :=
  match c with
  | CaseLoad T d d2 env _ _ _ _ _ _ _ _ => rep_top d && opt_all d2 rep_top
  | CaseStd T d _ _ => match d with DMap _ => true | _ => false end
  | CaseShape T d d2 _ _ _ _ _ => rep_top d && opt_all d2 rep_top
  | CaseBad _ _ => true
  | CaseMFmt T d _ _ _ _ => rep_top d
  | CaseNull T d _ _ => match d with DMap _ => repn d | _ => false end
  end.

(* the model (with the concrete re-rendering [rf_go]) reproduces what the implementation did:
   the intermediate trees of the three front ends (the parser hypotheses of Props.v, instance
   by instance), the re-rendering hypotheses on every float literal of the document, and every
   verdict / decoded value *)
Definition agrees (c : case) : bool :=
  if in_scope c then
    match c with
    | CaseLoad T d d2 env mid mid2 midenv load load2 envon envoff ex =>
      mids_ok mid d && rf_ok_doc rf_go d
      && ob3_eqb (model3 T d) load
      && match d2, mid2, load2 with
         | Some d', Some m', Some l' =>
           mids_ok m' d' && ob3_eqb (model3 T d') l'
           && (negb (keys_distinct T) || tr_top T d d')     (* the twin is a type-directed re-casing *)
         | None, None, None => true
         | _, _, _ => false
         end
      && match env with
         | Some e =>
           opt_all midenv (fun m => mids_ok m (expand_doc e d))
           && opt_all envon (fun l => ob3_eqb (model3 T (expand_doc e d)) l)
           && opt_all envoff (fun l => ob3_eqb (model3 T d) l)
         | None => true
         end
      && opt_all ex (fun x =>
           forallb (fun er => ob_eqb (ob_of (load_path rf_go T (fst er) d)) (snd er)) (x_byext x)
           && ob_eqb (ob_of (fill_default T)) (x_fill x)
           && forallb (fun er => ob_eqb (ob_of (load_path rf_go T (fst er) d)) (snd er)) (x_depr x)
           && forallb (fun p => let '(_, raw, _, on) := p in
                                match env with
                                | Some e => ostr_eqb on (Some (expand_str e raw))
                                | None => true
                                end) (x_props x)
           && forallb (fun o => ob_eqb (ob_of (unmarshal fixed jcfg T (Some (shape rf_go FJson d)))) o) (x_plain x)
           && match x_inter x with
              | [py; pt] => ob_eqb (fst py) (oy (model3 T d)) && ob_eqb (fst pt) (ot (model3 T d))
              | [] => true
              | _ => false
              end
           && opt_all (x_info x) (fun i => oinfo_eqb i (info_fields T fi_empty))
           && lc_agrees (info_fields T fi_empty) d (x_lc x)
           && match d2 with Some d' => lc_agrees (info_fields T fi_empty) d' (x_lc2 x) | None => true end)
    | CaseStd T d mp st =>
      ob_eqb (ob_of (um_top T (Some (shape rf_go FJson d)))) mp
      && ob_eqb (ob_of (std_top T (Some (shape rf_go FJson d)))) st
    | CaseShape T d d2 info lc lc2 load load2 =>
      opt_all info (fun i => oinfo_eqb i (xinfo T))
      && lc_agrees (xinfo T) d lc
      && match d2 with Some d' => lc_agrees (xinfo T) d' lc2 && (negb (xkeys_distinct T) || xtr_top T d d') | None => true end
    | CaseBad T load =>
      (* a malformed text: the front end (or jsonx) fails, [conf_load T None] *)
      ob3_eqb load (let r := ob_of (conf_load T None) in mkOb3 r r r)
    | CaseMFmt T d bytes readers canon rcanon =>
      let um := fun f => ob_of (unmarshal fixed jcfg T (Some (shape rf_go f d))) in
      let m := mkOb3 (um FJson) (um FYaml) (um FToml) in
      let umc := fun f => ob_of (unmarshal fixed ccfg (lower_fields T) (Some (shape rf_go f d))) in
      let mc := mkOb3 (umc FJson) (umc FYaml) (umc FToml) in
      rf_ok_doc rf_go d && ob3_eqb m bytes && ob3_eqb m readers && ob3_eqb mc canon && ob3_eqb mc rcanon
    | CaseNull T d lj ly =>
      ob_eqb (ob_of (load_doc rf_go T FJson d)) lj && ob_eqb (ob_of (load_doc rf_go T FYaml d)) ly
    end
  else true.

(* map keys are data: every key of a decoded map occurs literally as a key of the document *)
Fixpoint doc_allkeys (d : doc) : list string :=
  match d with
  | DList l => (fix go (l : docs) : list string := match l with DLnil => [] | DLcons x r => (doc_allkeys x ++ go r)%list end) l
  | DMap m => (fix go (m : dmap) : list string :=
                 match m with DMnil => [] | DMcons k x r => (k :: doc_allkeys x ++ go r)%list end) m
  | _ => []
  end.

Fixpoint gval_mapkeys (v : gval) : list string :=
  match v with
  | VPtr x => gval_mapkeys x
  | VSlice l | VStruct l => flat_map gval_mapkeys l
  | VMap m => flat_map (fun kv => fst kv :: gval_mapkeys (snd kv)) m
  | _ => []
  end.

Definition mapkeys_kept (d : doc) (o : ob) : bool :=
  match o with
  | OOk v => let ks := doc_allkeys d in forallb (fun k => str_in k ks) (gval_mapkeys v)
  | _ => true
  end.

Definition ob3_same (a : ob3) : bool := ob_eqb (oj a) (oy a) && ob_eqb (oj a) (ot a).
Definition ob3_nopanic (a : ob3) : bool := negb (ob_panics (oj a) || ob_panics (oy a) || ob_panics (ot a)).

(* the property, evaluated directly on the observed results (no model involved):
   - the three formats give the same verdict and deeply equal values (format independence);
   - the re-cased document gives, per format, the same result (case-insensitive keys);
   - conf.Load without UseEnv gives the same result as loading the bytes, whatever the
     environment; with UseEnv the three formats still agree;
   - when mapping.UnmarshalJsonBytes and encoding/json both accept, the values are equal;
   - nothing panics. *)
Definition prop_gen (same3 : ob3 -> bool) (c : case) : bool :=
  if in_scope c then
    match c with
    | CaseLoad T d d2 env mid mid2 midenv load load2 envon envoff ex =>
      ob3_nopanic load && same3 load && mapkeys_kept d (oj load)
      && opt_all load2 (fun l => ob3_nopanic l && ob3_eqb load l)
      && opt_all envoff (fun l => ob3_eqb load l)
      && opt_all envon (fun l => ob3_nopanic l && same3 l)
      && opt_all ex (fun x =>
           (* the loader is chosen by the lower-cased extension; an unknown extension is an error;
              MustLoad agrees with Load; FillDefault does not panic *)
           forallb (fun er =>
                      ob_eqb (snd er)
                             (match fmt_of_ext (fst er) with
                              | Some FJson => oj load | Some FYaml => oy load | Some FToml => ot load
                              | None => OErr
                              end)) (x_byext x)
           && forallb (fun er => match lookup (fst er) (x_byext x) with Some r => ob_eqb r (snd er) | None => false end)
                      (x_must x)
           && negb (ob_panics (x_fill x))
           (* Load(.., UseEnv()) = expanding the file's text, then loading it *)
           && match envon, x_envref x with Some l, Some r => ob3_eqb l r | _, _ => true end
           && match envon, x_envmust x with Some l, Some r => ob3_eqb l r | _, _ => true end
           (* what a loader or converter returned belongs to the caller: a later (or concurrent) load must
              neither write into returned bytes nor change the outcome of a load that is between its steps *)
           && x_retained x
           (* one type, several unmarshalers (exact keys / canonical keys / fill-default), any order *)
           && match x_plain x with
              | a :: rest => negb (ob_panics a) && forallb (ob_eqb a) rest
              | [] => true
              end
           && forallb (fun p => negb (ob_panics (snd p)) && ob_eqb (fst p) (snd p)) (x_inter x)
           (* the deprecated wrappers behave like the functions they wrap *)
           && forallb (fun er =>
                         ob_eqb (snd er)
                                (match fmt_of_ext (fst er) with
                                 | Some FJson => oj load | Some FYaml => oy load | Some FToml => ot load
                                 | None => OErr
                                 end)) (x_depr x)
           (* LoadProperties without UseEnv returns every value as written, whatever the
              environment and whatever was loaded with UseEnv before *)
           && forallb (fun p => let '(_, raw, off, _) := p in ostr_eqb off (Some raw)) (x_props x)
           (* the conf layer itself is case-insensitive: the unmarshaller is handed the SAME map
              for the document and for its re-cased twin *)
           && match x_lc x, x_lc2 x with Some a, Some b => jv_eqb a b | _, _ => true end)
    | CaseStd T d mp st =>
      negb (ob_panics mp || ob_panics st)
      && match mp, st with
         | OOk v, OOk w => gval_eqb v w
         | _, _ => true
         end
    | CaseShape T d d2 info lc lc2 load load2 =>
      opt_all load (fun l => obx3_nopanic l && obx3_same l)
      && match load, load2 with Some l, Some l' => obx3_nopanic l' && obx3_eqb l l' | _, _ => true end
      && match lc, lc2 with Some a, Some b => jv_eqb a b | _, _ => true end
    | CaseBad T load =>
      (* the verdict for a text that is not a document at all is an error, never a panic or a success *)
      ob3_eqb load (mkOb3 OErr OErr OErr)
    | CaseMFmt T d bytes readers canon rcanon =>
      (* mapping's own YAML / TOML / JSON entry points: same verdict, equal values, and the Reader
         variants behave like the Bytes ones; the same when the caller passes an option *)
      ob3_nopanic bytes && same3 bytes && ob3_nopanic readers && ob3_eqb bytes readers
      && ob3_nopanic canon && same3 canon && ob3_eqb canon rcanon
    | CaseNull T d lj ly =>
      (* nothing is demanded between the formats (the document has no TOML rendering); no panic *)
      negb (ob_panics lj || ob_panics ly)
    end
  else true.

Definition prop_ok : case -> bool := prop_gen ob3_same.

Definition model_obs (c : case) :=
  match c with
  | CaseLoad T d d2 env _ _ _ _ _ _ _ _ =>
    (model3 T d, option_map (model3 T) d2,
     option_map (fun e => model3 T (expand_doc e d)) env,
     (shape rf_go FYaml d, shape rf_go FToml d))
  | CaseStd T d _ _ =>
    (mkOb3 (ob_of (um_top T (Some (shape rf_go FJson d)))) (ob_of (std_top T (Some (shape rf_go FJson d)))) OErr,
     None, None, (JNull, JNull))
  | CaseShape T d d2 _ _ _ _ _ =>
    (mkOb3 OErr OErr OErr, None, None,
     (match lc_model (xinfo T) d with Some j => j | None => JNull end,
      match d2 with Some d' => match lc_model (xinfo T) d' with Some j => j | None => JNull end | None => JNull end))
  | CaseBad T _ => (let r := ob_of (conf_load T None) in mkOb3 r r r, None, None, (JNull, JNull))
  | CaseMFmt T d _ _ _ _ =>
    (let um := fun f => ob_of (unmarshal fixed jcfg T (Some (shape rf_go f d))) in mkOb3 (um FJson) (um FYaml) (um FToml),
     None, None, (JNull, JNull))
  | CaseNull T d _ _ =>
    (mkOb3 (ob_of (load_doc rf_go T FJson d)) (ob_of (load_doc rf_go T FYaml d)) OErr, None, None, (JNull, JNull))
  end.
