(* C17 — the side conditions of the theorems, as executable booleans (no proofs here):
   what is assumed of the number re-rendering ([rf_ok_lit], [leaves_ok]), the generated type
   family ([fam_fields]), the float-literal positions excluded from format independence
   ([float_positions_ok], known findings F8a / F8c), key re-casing ([recase_doc]), and the
   fragment on which mapping and encoding/json are compared ([std_ok]). *)
From Coq Require Import List ZArith Bool String Ascii.
From GZ Require Import C17.Model.
Import ListNotations.
Open Scope Z_scope.

(* ------------------------------------------------------------------ number literals *)

(* a float-typed literal of the common JSON / YAML / TOML syntax: a number with a fraction
   or an exponent *)
Definition float_lit (s : string) : bool :=
  match scan_num s with Some y => negb (syn_is_int y) | None => false end.

Definition is_integral (d : dec) : bool :=
  (0 <=? de d) || (dm d mod 10 ^ (- de d) =? 0).

Definition integral_lit (s : string) : bool :=
  match lit_dec s with Some d => is_integral d | None => false end.

(* the text is an integer literal for strconv.ParseInt / ParseUint *)
Definition int_text (s : string) : bool :=
  match classify s with LNum y => syn_is_int y | _ => false end.

(* the integer an INTEGRAL float literal denotes, and what strconv.ParseInt / ParseUint make of a text *)
Definition lit_value (s : string) : Z :=
  match lit_dec s with
  | Some d => if 0 <=? de d then dm d * 10 ^ de d else dm d / 10 ^ (- de d)
  | None => 0
  end.
Definition conv_int (k : kind) (t : string) : option Z :=
  match k with KInt w => parse_int (bits w) t | KUint w => parse_uint (bits w) t | _ => None end.
Definition int_fits (k : kind) (v : Z) : bool :=
  match k with
  | KInt w => (- 2 ^ (bits w - 1) <=? v) && (v <? 2 ^ (bits w - 1))
  | KUint w => (0 <=? v) && (v <? 2 ^ bits w)
  | _ => false
  end.
(* what a faithful re-rendering of the float literal [s] converts to at an integer position of kind [k]:
   the integer it denotes if it is integral and fits the kind, nothing otherwise *)
Definition int_of_lit (k : kind) (s : string) : option Z :=
  if integral_lit s && int_fits k (lit_value s) then Some (lit_value s) else None.
Definition int_kinds : list kind :=
  [KInt W0; KInt W8; KInt W16; KInt W32; KInt W64; KUint W0; KUint W8; KUint W16; KUint W32; KUint W64].
Definition oz_eqb (a b : option Z) : bool :=
  match a, b with Some x, Some y => x =? y | None, None => true | _, _ => false end.

Definition fopt_sim (a b : option fval) : bool :=
  match a, b with
  | Some x, Some y => fval_eqb x y
  | None, None => true
  | _, _ => false
  end.

(* float32 field: ParseFloat(.., 64) followed by the overflow check *)
Definition pf32_field (s : string) : option fval :=
  match parse_float false s with
  | Some f => if overflow32 f then None else Some f
  | None => None
  end.

(* what the theorems need of a re-rendered float literal [s'] of [s]: the same float64 /
   float32 value (or the same failure) through every conversion the unmarshaller applies, and
   an integer text only if the value is integral *)
Definition rf_ok_lit (s s' : string) : bool :=
  float_lit s
  && fopt_sim (parse_float false s') (parse_float false s)
  && fopt_sim (parse_float true s') (parse_float true s)
  && fopt_sim (pf32_field s') (pf32_field s)
  && (integral_lit s || negb (int_text s'))
  (* at an integer position the re-rendered text converts to the integer the literal denotes, exactly when
     that integer fits the kind *)
  && forallb (fun k => oz_eqb (conv_int k s') (int_of_lit k s)) int_kinds.

Section Leaves.
Variable rf : fmt -> string -> string.

(* no null, and every float literal is re-rendered faithfully by the YAML and TOML paths
   (and not at all by the JSON path) *)
Fixpoint leaves_ok (d : doc) : bool :=
  match d with
  | DNull => false
  | DFloat s => String.eqb (rf FJson s) s && rf_ok_lit s (rf FYaml s) && rf_ok_lit s (rf FToml s)
  | DList l => leaves_ok_list l
  | DMap m => leaves_ok_map m
  | _ => true
  end
with leaves_ok_list (l : docs) : bool :=
  match l with DLnil => true | DLcons d r => leaves_ok d && leaves_ok_list r end
with leaves_ok_map (m : dmap) : bool :=
  match m with DMnil => true | DMcons _ d r => leaves_ok d && leaves_ok_map r end.
End Leaves.

Definition rf_ok_doc := leaves_ok.

(* ------------------------------------------------------------------ lower-casing, on documents *)

(* [lc_val] transported to documents: lc_val (shape f d) i = shape f (lc_doc d i) (Proofs.v) *)
Fixpoint lc_doc (d : doc) (i : finfo) {struct d} : doc :=
  match d with
  | DMap m => DMap (lc_dmap m i)
  | DList DLnil => DNilArr
  | DList l => DList (lc_docs l i)
  | _ => d
  end
with lc_docs (l : docs) (i : finfo) {struct l} : docs :=
  match l with DLnil => DLnil | DLcons d r => DLcons (lc_doc d i) (lc_docs r i) end
with lc_dmap (m : dmap) (i : finfo) {struct m} : dmap :=
  match m with
  | DMnil => DMnil
  | DMcons k x r =>
    let lk := lower k in
    match lookup lk (fi_children i) with
    | Some ti => DMcons lk (lc_doc x ti) (lc_dmap r i)
    | None =>
      match fi_mapf i with
      | Some mi => DMcons k (lc_doc x mi) (lc_dmap r i)
      | None => DMcons k (match x with DMap _ => lc_doc x i | _ => x end) (lc_dmap r i)
      end
    end
  end.

Fixpoint dlookup (k : string) (m : dmap) : option doc :=
  match m with
  | DMnil => None
  | DMcons k' d r => if String.eqb k k' then Some d else dlookup k r
  end.

(* ------------------------------------------------------------------ the generated type family *)

Fixpoint is_float_deref (t : ftype) : bool :=
  match t with TPrim KF32 | TPrim KF64 => true | TPtr t' => is_float_deref t' | _ => false end.

(* no "string" option (values are never read from strings in configuration files), and no
   options= on float fields (options are compared with the literal's TEXT, which the YAML and
   TOML paths re-render); range= is allowed everywhere (ProofsE.v: a range cannot tell two
   representations of one value apart) *)
Definition fam_opts (t : ftype) (o : option fopts) : bool :=
  match o with
  | None => true
  | Some o' =>
    negb (o_string o') &&
    (if is_float_deref t
     then match o_options o' with [] => true | _ => false end
     else true)
  end.

Fixpoint fam_type (t : ftype) : bool :=
  match t with
  | TPrim _ => true
  | TPtr t' | TSlice t' | TMap t' => fam_type t'
  | TStruct fs => fam_fields fs
  end
with fam_fields (fs : fields) : bool :=
  match fs with
  | FNil => true
  | FCons _ o t rest => fam_opts t o && fam_type t && fam_fields rest
  | FEmbed _ _ inner rest => fam_fields inner && fam_fields rest   (* embedded structs: plain, optional, pointer *)
  end.

(* ------------------------------------------------------------------ float literals and the kind of their position *)

(* a float-typed value may sit: at a float field or element; at an integer field or element
   unless it is integral AND the integer fits the kind (otherwise every format rejects it; an
   integral literal in range is accepted by YAML / TOML and rejected by JSON: known finding F8a);
   at a bool / string FIELD (every format rejects it); never at a bool / string slice or map
   ELEMENT (the re-rendered text leaks into the value: known finding F8c) *)
Definition float_at_field (k : kind) (s : string) : bool :=
  match k with
  | KInt _ | KUint _ => match int_of_lit k s with None => true | Some _ => false end
  | _ => true
  end.
Definition float_at_elem (k : kind) (s : string) : bool :=
  match k with
  | KF32 | KF64 => true
  | KInt _ | KUint _ => match int_of_lit k s with None => true | Some _ => false end
  | KBool | KStr => false
  end.

Fixpoint flok_present (t : ftype) (d : doc) {struct t} : bool :=
  match t with
  | TPrim k => match d with DFloat s => float_at_field k s | _ => true end
  | TPtr t' => flok_present t' d
  | TStruct fs => match d with DMap m => flok_fields fs m | _ => true end
  | TSlice e =>
    match d with
    | DList l => (fix go (l : docs) : bool :=
                    match l with DLnil => true | DLcons x r => flok_elem e x && go r end) l
    | _ => true
    end
  | TMap e =>
    match d with
    | DMap m => (fix go (m : dmap) : bool :=
                   match m with DMnil => true | DMcons _ x r => flok_elem e x && go r end) m
    | _ => true
    end
  end
with flok_elem (t : ftype) (d : doc) {struct t} : bool :=
  match t with
  | TPrim k => match d with DFloat s => float_at_elem k s | _ => true end
  | TPtr t' => flok_elem t' d
  | TStruct fs => match d with DMap m => flok_fields fs m | _ => true end
  | TSlice e =>
    match d with
    | DList l => (fix go (l : docs) : bool :=
                    match l with DLnil => true | DLcons x r => flok_elem e x && go r end) l
    | _ => true
    end
  | TMap e =>
    match d with
    | DMap m => (fix go (m : dmap) : bool :=
                   match m with DMnil => true | DMcons _ x r => flok_elem e x && go r end) m
    | _ => true
    end
  end
with flok_fields (fs : fields) (m : dmap) {struct fs} : bool :=
  match fs with
  | FNil => true
  | FCons key _ t rest =>
    match dlookup key m with Some x => flok_present t x | None => true end && flok_fields rest m
  | FEmbed _ _ inner rest => flok_fields inner m && flok_fields rest m
  end.

(* the positions are those the loader itself addresses: canonical (lower-case) field keys
   against the lower-cased document *)
Definition float_positions_ok (T : fields) (d : doc) : bool :=
  match info_fields T fi_empty, d with
  | Some i, DMap m => flok_fields (lower_fields T) (lc_dmap m i)
  | _, _ => true
  end.

(* ------------------------------------------------------------------ re-casing of keys *)

(* [d'] is [d] with keys re-cased: same shape, same leaves, keys equal up to ASCII case
   wherever the loader lower-cases them anyway and identical elsewhere (map keys are data).
   Checked along the loader's own traversal. *)
Fixpoint recase_doc (d d' : doc) (i : finfo) {struct d} : bool :=
  match d, d' with
  | DMap m, DMap m' => recase_map m m' i
  | DList l, DList l' => recase_list l l' i
  | DNull, DNull | DNilArr, DNilArr => true
  | DBool a, DBool b => Bool.eqb a b
  | DInt a, DInt b => a =? b
  | DFloat a, DFloat b | DStr a, DStr b => String.eqb a b
  | _, _ => false
  end
with recase_list (l l' : docs) (i : finfo) {struct l} : bool :=
  match l, l' with
  | DLnil, DLnil => true
  | DLcons x r, DLcons x' r' => recase_doc x x' i && recase_list r r' i
  | _, _ => false
  end
with recase_map (m m' : dmap) (i : finfo) {struct m} : bool :=
  match m, m' with
  | DMnil, DMnil => true
  | DMcons k x r, DMcons k' x' r' =>
    (let lk := lower k in
     match lookup lk (fi_children i) with
     | Some ti => String.eqb lk (lower k') && recase_doc x x' ti
     | None =>
       String.eqb k k' &&
       match fi_mapf i with
       | Some mi => recase_doc x x' mi
       | None => match x with DMap _ => recase_doc x x' i | _ => recase_doc x x' fi_empty end
       end
     end) && recase_map r r' i
  | _, _ => false
  end.

(* ------------------------------------------------------------------ mapping vs encoding/json: the compared fragment *)

(* plain json name tags only: no option on any field, no embedded struct *)
Fixpoint plain_type (t : ftype) : bool :=
  match t with
  | TPrim _ => true
  | TPtr t' | TSlice t' | TMap t' => plain_type t'
  | TStruct fs => plain_fields fs
  end
with plain_fields (fs : fields) : bool :=
  match fs with
  | FNil => true
  | FCons _ o t rest => match o with None => true | Some _ => false end && plain_type t && plain_fields rest
  | FEmbed _ _ _ _ => false
  end.

(* a field of this type may be absent without the two decoders disagreeing: mapping turns an
   absent map into an empty map (encoding/json: nil; known finding F8d) and allocates an absent
   pointer whose target needs nothing *)
Fixpoint absent_neutral (t : ftype) : bool :=
  match t with
  | TPrim _ | TSlice _ => true
  | TMap _ | TPtr _ => false
  | TStruct fs => absent_neutral_fields fs
  end
with absent_neutral_fields (fs : fields) : bool :=
  match fs with
  | FNil => true
  | FCons _ _ t r => absent_neutral t && absent_neutral_fields r
  | FEmbed _ _ inner r => absent_neutral_fields inner && absent_neutral_fields r
  end.

(* no key of the object is a case variant of a field name (known finding F8b) *)
Definition no_variant (keys : list string) (o : list (string * jv)) : bool :=
  forallb (fun kv => forallb (fun fk => negb (String.eqb (lower (fst kv)) (lower fk)) || String.eqb (fst kv) fk) keys) o.

(* objects have distinct keys (a decoded JSON object), no case-variant keys, absent fields only
   where that is neutral, and no non-empty array consists of nulls only (mapping leaves the
   slice nil, encoding/json makes zero elements: known finding F8e) *)
Fixpoint std_ok_val (t : ftype) (v : jv) {struct t} : bool :=
  match t with
  | TPrim _ => true
  | TPtr t' => std_ok_val t' v
  | TStruct fs =>
    match v with
    | JObj o => nodupb (map fst o) && no_variant (field_keys fs) o && std_ok_fields fs o
    | _ => true
    end
  | TSlice e =>
    match v with
    | JArr l => match l with [] => true | _ => negb (forallb is_null l) end
                && forallb (fun x => is_null x || std_ok_val e x) l
    | _ => true
    end
  | TMap e => match v with JObj o => forallb (fun kv => std_ok_val e (snd kv)) o | _ => true end
  end
with std_ok_fields (fs : fields) (o : list (string * jv)) {struct fs} : bool :=
  match fs with
  | FNil => true
  | FCons key _ t rest =>
    match lookup key o with None => absent_neutral t | Some v => is_null v || std_ok_val t v end
    && std_ok_fields rest o
  | FEmbed _ _ _ _ => false
  end.

Definition std_ok (fs : fields) (d : option jv) : bool :=
  match d with
  | Some (JObj o) => nodupb (map fst o) && no_variant (field_keys fs) o && std_ok_fields fs o
  | _ => true
  end.

(* ------------------------------------------------------------------ type-directed re-casing *)

(* canonical keys of the fields a struct reads from its object (embedded structs flattened) *)
Fixpoint lowerkeys (fs : fields) : list string :=
  match fs with
  | FNil => []
  | FCons key _ _ rest => lower key :: lowerkeys rest
  | FEmbed _ _ inner rest => lowerkeys inner ++ lowerkeys rest
  end.

(* the type of the field a canonical key addresses *)
Fixpoint ftype_of (lk : string) (fs : fields) : option ftype :=
  match fs with
  | FNil => None
  | FCons key _ t rest => if String.eqb lk (lower key) then Some t else ftype_of lk rest
  | FEmbed _ _ inner rest => match ftype_of lk inner with Some t => Some t | None => ftype_of lk rest end
  end.

(* no two fields of one struct share a canonical key (otherwise conf reports a conflict or merges) *)
Fixpoint keys_distinct_t (t : ftype) : bool :=
  match t with
  | TPrim _ => true
  | TPtr t' | TSlice t' | TMap t' => keys_distinct_t t'
  | TStruct fs => nodupb (lowerkeys fs) && keys_distinct_fs fs
  end
with keys_distinct_fs (fs : fields) : bool :=
  match fs with
  | FNil => true
  | FCons _ _ t rest => keys_distinct_t t && keys_distinct_fs rest
  | FEmbed _ _ inner rest => keys_distinct_fs inner && keys_distinct_fs rest
  end.
Definition keys_distinct (fs : fields) : bool := nodupb (lowerkeys fs) && keys_distinct_fs fs.

Definition doc_eqb (d d' : doc) : bool := recase_doc d d' fi_empty.

(* [d'] is [d] with struct-field keys re-cased, ACCORDING TO THE TYPE: at a struct, an entry
   whose key addresses a field (case-insensitively) may change the case of its key and is
   compared at the field's type; every other entry is unchanged; through slices elementwise;
   through maps with IDENTICAL keys (map keys are data); anything else unchanged. *)
Fixpoint tr_val (t : ftype) (d d' : doc) {struct t} : bool :=
  match t with
  | TPrim _ => doc_eqb d d'
  | TPtr t' => tr_val t' d d'
  | TSlice e =>
    match d, d' with
    | DList l, DList l' =>
      (fix go (l l' : docs) : bool :=
         match l, l' with
         | DLnil, DLnil => true
         | DLcons x r, DLcons x' r' => tr_val e x x' && go r r'
         | _, _ => false
         end) l l'
    | _, _ => doc_eqb d d'
    end
  | TMap e =>
    match d, d' with
    | DMap m, DMap m' =>
      (fix go (m m' : dmap) : bool :=
         match m, m' with
         | DMnil, DMnil => true
         | DMcons k x r, DMcons k' x' r' => String.eqb k k' && tr_val e x x' && go r r'
         | _, _ => false
         end) m m'
    | _, _ => doc_eqb d d'
    end
  | TStruct fs =>
    match d, d' with
    | DMap m, DMap m' =>
      (fix go (m m' : dmap) : bool :=
         match m, m' with
         | DMnil, DMnil => true
         | DMcons k x r, DMcons k' x' r' =>
           match tr_entry fs k x k' x' with
           | Some b => b
           | None => String.eqb k k' && doc_eqb x x'
           end && go r r'
         | _, _ => false
         end) m m'
    | _, _ => doc_eqb d d'
    end
  end
with tr_entry (fs : fields) (k : string) (x : doc) (k' : string) (x' : doc) {struct fs} : option bool :=
  match fs with
  | FNil => None
  | FCons key _ t rest =>
    if String.eqb (lower k) (lower key) then Some (String.eqb (lower k) (lower k') && tr_val t x x')
    else tr_entry rest k x k' x'
  | FEmbed _ _ inner rest =>
    match tr_entry inner k x k' x' with Some b => Some b | None => tr_entry rest k x k' x' end
  end.

Definition tr_top (T : fields) (d d' : doc) : bool := tr_val (TStruct T) d d'.
