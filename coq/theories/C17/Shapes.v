(* C17 — the configuration TYPE SHAPES that conf.buildFieldsInfo is exposed to, beyond the
   fragment C08's unmarshaller model speaks for: arrays, declared (named) types, time.Duration,
   json.Number, interface{} and []byte, anonymous fields of a declared non-struct type.
   Executable definitions only (proofs: ProofsF.v).

   buildFieldsInfo looks at reflect.Kind only:
     Ptr          -> dereferenced                     Struct -> one child per exported field
     Array, Slice -> the (dereferenced) element       Map    -> a mapField layer over the element
     anything else (all scalars, Interface, and so Duration / json.Number / a declared MyInt) -> leaf
   so every shape has a SKELETON in C08's [ftype] with the same field info ([skel]); the field
   info and the key lower-casing of a wide type are, by definition, those of its skeleton, and
   the white-box executor (harness/overlay/conf) compares exactly that with the real
   buildFieldsInfo / toLowerCaseKeyMap on every generated shape. *)
From Coq Require Import List ZArith Bool String Ascii.
From GZ Require Import C17.Model C17.Hyps.
Import ListNotations.
Open Scope Z_scope.

Inductive xtype :=
| XPrim (k : kind)        (* also every declared type of that kind (type MyInt int) and aliases *)
| XDur                    (* time.Duration *)
| XNum                    (* json.Number *)
| XAny                    (* interface{} *)
| XBytes                  (* []byte *)
| XPtr (t : xtype)
| XSlice (t : xtype)
| XArr (n : N) (t : xtype)
| XMap (t : xtype)
| XStruct (fs : xfields)
with xfields :=
| XNil
| XCons (key : string) (o : option fopts) (t : xtype) (rest : xfields)
| XEmbed (optional ptr : bool) (inner : xfields) (rest : xfields)   (* anonymous struct / pointer to struct *)
| XEmbedT (name : string) (t : xtype) (rest : xfields).
(* [XEmbedT name t]: an anonymous field of a declared NON-struct type (type Nodes []*Node;
   struct{ Nodes }), untagged: mapping and conf treat it as the field named [name]. *)

(* [anon_slice = true]: the current code (an anonymous slice / array field gets the info of its
   element, like a named one); [false]: the pinned code, where it was a leaf (Pinned.v). *)
Fixpoint skel_v (anon_slice : bool) (t : xtype) : ftype :=
  match t with
  | XPrim k => TPrim k
  | XDur => TPrim (KInt W64)
  | XNum | XAny | XBytes => TPrim KStr
  | XPtr t' => TPtr (skel_v anon_slice t')
  | XSlice e | XArr _ e => TSlice (skel_v anon_slice e)
  | XMap e => TMap (skel_v anon_slice e)
  | XStruct fs => TStruct (skel_fields_v anon_slice fs)
  end
with skel_fields_v (anon_slice : bool) (fs : xfields) : fields :=
  match fs with
  | XNil => FNil
  | XCons key o t rest => FCons key o (skel_v anon_slice t) (skel_fields_v anon_slice rest)
  | XEmbed opt ptr inner rest => FEmbed opt ptr (skel_fields_v anon_slice inner) (skel_fields_v anon_slice rest)
  | XEmbedT name t rest =>
    FCons name None
          (if anon_slice then skel_v anon_slice t
           else match t with XSlice _ | XArr _ _ => TPrim KStr | _ => skel_v anon_slice t end)
          (skel_fields_v anon_slice rest)
  end.

Definition skel := skel_v true.
Definition skel_fields := skel_fields_v true.

(* buildFieldsInfo(reflect.TypeOf(v)) for a configuration struct of that shape *)
Definition xinfo (T : xfields) : option finfo := info_fields (skel_fields T) fi_empty.

(* toLowerCaseKeyMap(m, info) on the decoded JSON object [o] *)
Definition xlower (T : xfields) (o : list (string * jv)) : option (list (string * jv)) :=
  option_map (fun i => lc_obj i o) (xinfo T).

(* the type-directed re-casing relation of Hyps.v, on shapes: through arrays like through
   slices (elementwise); an any / Duration / json.Number / []byte position must be unchanged *)
Definition xtr_top (T : xfields) (d d' : doc) : bool := tr_top (skel_fields T) d d'.
Definition xkeys_distinct (T : xfields) : bool := keys_distinct (skel_fields T).

(* ---- the shapes of the generated family, as a predicate (what item the generator promises):
   nesting of pointer / slice / array / map constructors over a struct, to any depth *)
Fixpoint xdepth (t : xtype) : nat :=
  match t with
  | XPtr t' | XSlice t' | XArr _ t' | XMap t' => S (xdepth t')
  | _ => O
  end.

(* ---- comparison of field-info trees (children are maps: order is irrelevant) *)
Fixpoint finfo_eqb (a b : finfo) {struct a} : bool :=
  match a, b with
  | FI ca ma, FI cb mb =>
    (Z.of_nat (List.length ca) =? Z.of_nat (List.length cb))
    && (fix go (l : list (string * finfo)) : bool :=
          match l with
          | [] => true
          | (k, x) :: r => match lookup k cb with Some y => finfo_eqb x y | None => false end && go r
          end) ca
    && match ma, mb with
       | Some x, Some y => finfo_eqb x y
       | None, None => true
       | _, _ => false
       end
  end.

Definition oinfo_eqb (a b : option finfo) : bool :=
  match a, b with
  | Some x, Some y => finfo_eqb x y
  | None, None => true
  | _, _ => false
  end.
