(* C17 — proofs, part C: mapping.UnmarshalJsonBytes agrees with the reference model of
   encoding/json wherever both accept, on the plain-tag fragment [plain_fields] / [std_ok]. *)
From Coq Require Import List ZArith Bool String Ascii Lia.
From GZ Require Import C08.Model C08.Spec C08.Proofs C08.ProofsB C17.Model C17.Hyps C17.Proofs.
Import ListNotations.
Open Scope Z_scope.

Lemma parse_float_same : forall b b' s f f', parse_float b s = Some f -> parse_float b' s = Some f' -> f = f'.
Proof.
  intros b b' s f f'. unfold parse_float. destruct (classify s) as [y| |n|]; try congruence.
  destruct (mag_ge _ _); try discriminate. destruct (mag_ge _ _); try discriminate. congruence.
Qed.

Lemma decode_prim_std : forall k v a b,
  decode_prim false k v = Some a -> std_prim k v = Ok b -> a = b.
Proof.
  intros k v a b Hd Hs. destruct v; simpl in *; try discriminate.
  - destruct (kind_eqb k KBool); congruence.
  - destruct k; simpl in *; try discriminate.
    + destruct (parse_int _ _); simpl in *; congruence.
    + destruct (parse_uint _ _); simpl in *; congruence.
    + destruct (parse_float false s) as [f|] eqn:E1; simpl in Hd; try discriminate.
      destruct (overflow32 f); try discriminate.
      destruct (parse_float true s) as [f'|] eqn:E2; simpl in Hs; try discriminate.
      rewrite (parse_float_same _ _ _ _ _ E1 E2) in Hd. congruence.
    + destruct (parse_float false s); simpl in *; congruence.
  - destruct (kind_eqb k KStr); congruence.
Qed.

Lemma decode_elem_prim_std : forall inmap k v a b,
  decode_elem_prim inmap k v = Some a -> std_prim k v = Ok b -> a = b.
Proof.
  intros inmap k v a b Hd Hs. destruct v; simpl in *; try discriminate.
  - destruct (kind_eqb k KBool); congruence.
  - destruct k; simpl in *; try discriminate.
    + destruct (parse_int _ _); simpl in *; congruence.
    + destruct (parse_uint _ _); simpl in *; congruence.
    + destruct (parse_float true s); simpl in *; congruence.
    + destruct (parse_float false s); simpl in *; congruence.
  - destruct (kind_eqb k KStr) eqn:E; try discriminate.
    destruct k; simpl in E; try discriminate. destruct inmap; simpl in Hd; congruence.
Qed.

Lemma std_val_nonnull : forall t v, is_null v = false ->
  std_val t v =
  match t with
  | TPrim k => std_prim k v
  | TPtr t' => rmap VPtr (std_val t' v)
  | TSlice e => match v with JArr l => rmap VSlice (mapM (std_val e) l) | _ => Err EType end
  | TMap e =>
    match v with
    | JObj o => rmap VMap (mapM (fun kv => x <- std_val e (snd kv) ;; Ok (fst kv, x)) o)
    | _ => Err EType
    end
  | TStruct fs =>
    match v with
    | JObj o => rmap VStruct (std_fields fs (field_keys fs) o)
    | _ => Err EType
    end
  end.
Proof. intros t v H. destruct t; simpl; rewrite H; reflexivity. Qed.

Lemma std_val_null : forall t, std_val t JNull = Ok (zero t).
Proof. destruct t; reflexivity. Qed.

Lemma lookup_none_notin : forall {A} k (o : list (string * A)), str_in k (map fst o) = false -> lookup k o = None.
Proof.
  intros A k o. induction o as [|[k' v] r IH]; simpl; auto.
  unfold str_in in *. simpl. destruct (String.eqb k k'); simpl; [discriminate | auto].
Qed.

(* under distinct keys and no case variants the decoder's pick is the plain look-up *)
Lemma pick_lookup : forall keys key o cur,
  In key keys -> nodupb (map fst o) = true -> no_variant keys o = true ->
  std_pick keys key o cur = match lookup key o with Some v => Some v | None => cur end.
Proof.
  intros keys key o. induction o as [|[k v] r IH]; intros cur Hin Hnd Hnv; simpl; auto.
  simpl in Hnd. apply andb_prop in Hnd. destruct Hnd as [Hk Hnd].
  simpl in Hnv. apply andb_prop in Hnv. destruct Hnv as [Hv Hnv].
  assert (Hm : fold_match keys key k = String.eqb key k).
  { unfold fold_match. rewrite (String.eqb_sym k key). destruct (String.eqb key k) eqn:E; auto. simpl.
    rewrite forallb_forall in Hv. specialize (Hv key Hin). simpl in Hv.
    destruct (String.eqb (lower k) (lower key)); simpl in Hv.
    - rewrite String.eqb_sym in Hv. congruence.
    - apply andb_false_r. }
  rewrite Hm. rewrite IH by assumption.
  destruct (String.eqb key k) eqn:E.
  - apply String.eqb_eq in E. subst k. apply negb_true_iff in Hk. rewrite (lookup_none_notin key r Hk). reflexivity.
  - reflexivity.
Qed.

Lemma field_input_jcfg : forall t key obj, field_input jcfg t key obj = lookup key obj.
Proof. intros. unfold field_input, from_array. simpl. destruct (lookup key obj); reflexivity. Qed.

Lemma decode_present_null : forall cfg t, decode_present cfg false t JNull = None.
Proof. intros cfg t. induction t; simpl; auto. rewrite IHt. reflexivity. Qed.

Lemma decode_elem_null : forall cfg inmap t, decode_elem cfg inmap t JNull = None.
Proof. intros cfg inmap t. induction t; simpl; auto. rewrite IHt. reflexivity. Qed.

Definition Q_type (t : ftype) : Prop :=
  plain_type t = true ->
  (forall v a b, std_ok_val t v = true -> decode_present jcfg false t v = Some a -> std_val t v = Ok b -> a = b) /\
  (forall inmap v a b, std_ok_val t v = true -> decode_elem jcfg inmap t v = Some a -> std_val t v = Ok b -> a = b) /\
  (forall a, absent_neutral t = true -> decode_absent jcfg t = Some a -> a = zero t).

Definition Q_fields (fs : fields) : Prop :=
  plain_fields fs = true ->
  (forall keys o xs ys,
     (forall k, In k (field_keys fs) -> In k keys) ->
     nodupb (map fst o) = true -> no_variant keys o = true -> std_ok_fields fs o = true ->
     decode_fields jcfg fs o = Some xs -> std_fields fs keys o = Ok ys -> xs = ys) /\
  (forall xs, absent_neutral_fields fs = true -> decode_fields jcfg fs [] = Some xs -> xs = zero_fields fs).

Lemma slice_std : forall e (F : jv -> option gval),
  (forall v a b, std_ok_val e v = true -> F v = Some a -> std_val e v = Ok b -> a = b) ->
  forall l a b,
    match l with [] => true | _ => negb (forallb is_null l) end = true ->
    forallb (fun x => is_null x || std_ok_val e x) l = true ->
    decode_slice F (zero e) l = Some a -> rmap VSlice (mapM (std_val e) l) = Ok b -> a = b.
Proof.
  intros e F HF l a b Hnn Hok Hd Hs.
  assert (Hm : forall l xs ys, forallb (fun x => is_null x || std_ok_val e x) l = true ->
             omapM (fun v => match v with JNull => Some (zero e) | _ => F v end) l = Some xs ->
             mapM (std_val e) l = Ok ys -> xs = ys).
  { clear Hnn Hok Hd Hs. clear l a b. intros l. induction l as [|v r IH]; intros xs ys Hok Hx Hy; simpl in *.
    - congruence.
    - apply andb_prop in Hok. destruct Hok as [Hv Hr].
      apply obind_some in Hx. destruct Hx as [x [Hx1 Hx2]]. apply obind_some in Hx2. destruct Hx2 as [xs' [Hx2 Hx3]].
      apply bind_ok in Hy. destruct Hy as [y [Hy1 Hy2]]. apply bind_ok in Hy2. destruct Hy2 as [ys' [Hy2 Hy3]].
      inversion Hx3. inversion Hy3. subst. f_equal; [|eapply IH; eauto].
      destruct (is_null v) eqn:En.
      + destruct v; simpl in En; try discriminate. rewrite std_val_null in Hy1. congruence.
      + simpl in Hv. apply (HF v); auto. destruct v; simpl in En; try discriminate; exact Hx1. }
  unfold decode_slice in Hd. apply rmap_ok in Hs. destruct Hs as [ys [Hs1 Hs2]]. subst b.
  destruct l as [|v r].
  - simpl in Hs1. inversion Hd. inversion Hs1. reflexivity.
  - apply obind_some in Hd. destruct Hd as [xs [Hd1 Hd2]].
    apply negb_true_iff in Hnn. rewrite Hnn in Hd2. inversion Hd2. f_equal.
    eapply Hm; eauto.
Qed.

Lemma map_std : forall e (F : jv -> option gval),
  (forall v a b, std_ok_val e v = true -> F v = Some a -> std_val e v = Ok b -> a = b) ->
  forall (o : list (string * jv)) a b,
    forallb (fun kv => std_ok_val e (snd kv)) o = true ->
    decode_map F o = Some a ->
    rmap VMap (mapM (fun kv => x <- std_val e (snd kv) ;; Ok (fst kv, x)) o) = Ok b -> a = b.
Proof.
  intros e F HF o a b Hok Hd Hs. unfold decode_map in Hd.
  apply obind_some in Hd. destruct Hd as [xs [Hd1 Hd2]]. inversion Hd2. subst a. clear Hd2.
  apply rmap_ok in Hs. destruct Hs as [ys [Hs1 Hs2]]. subst b. f_equal.
  revert xs ys Hok Hd1 Hs1. induction o as [|[k v] r IH]; intros xs ys Hok Hx Hy; simpl in *.
  - congruence.
  - apply andb_prop in Hok. destruct Hok as [Hv Hr].
    apply obind_some in Hx. destruct Hx as [x [Hx1 Hx2]]. apply obind_some in Hx2. destruct Hx2 as [xs' [Hx2 Hx3]].
    apply obind_some in Hx1. destruct Hx1 as [x0 [Hx0 Hx1]].
    apply bind_ok in Hy. destruct Hy as [y [Hy1 Hy2]]. apply bind_ok in Hy2. destruct Hy2 as [ys' [Hy2 Hy3]].
    apply bind_ok in Hy1. destruct Hy1 as [y0 [Hy0 Hy1]].
    inversion Hx3. inversion Hy3. inversion Hx1. inversion Hy1. subst.
    f_equal; [|eapply IH; eauto]. f_equal. eapply HF; eauto.
Qed.

Lemma std_mutual : (forall t, Q_type t) /\ (forall fs, Q_fields fs).
Proof.
  apply ftype_fields_ind17.
  - (* TPrim *)
    intros k _. split; [|split].
    + intros v a b _ Hd Hs. simpl in Hd. destruct (is_null v) eqn:En.
      * destruct v; simpl in En; try discriminate; try (simpl in Hd; discriminate).
      * rewrite std_val_nonnull in Hs by exact En. eapply decode_prim_std; eauto.
    + intros inmap v a b _ Hd Hs. simpl in Hd. destruct (is_null v) eqn:En.
      * destruct v; simpl in En; try discriminate; try (simpl in Hd; discriminate).
      * rewrite std_val_nonnull in Hs by exact En. eapply decode_elem_prim_std; eauto.
    + intros a _ H. inversion H. reflexivity.
  - (* TPtr *)
    intros t IH Hp. simpl in Hp. destruct (IH Hp) as [IHp [IHe _]]. split; [|split].
    + intros v a b Hok Hd Hs. destruct (is_null v) eqn:En.
      * destruct v; simpl in En; try discriminate; try (rewrite decode_present_null in Hd; discriminate).
      * rewrite std_val_nonnull in Hs by exact En. simpl in Hd.
        apply omap_some in Hd. destruct Hd as [a' [Hd1 Hd2]]. apply rmap_ok in Hs. destruct Hs as [b' [Hs1 Hs2]].
        subst. f_equal. eapply IHp; eauto.
    + intros inmap v a b Hok Hd Hs. destruct (is_null v) eqn:En.
      * destruct v; simpl in En; try discriminate; try (rewrite decode_elem_null in Hd; discriminate).
      * rewrite std_val_nonnull in Hs by exact En. simpl in Hd.
        apply omap_some in Hd. destruct Hd as [a' [Hd1 Hd2]]. apply rmap_ok in Hs. destruct Hs as [b' [Hs1 Hs2]].
        subst. f_equal. eapply IHe; eauto.
    + intros a H. simpl in H. discriminate.
  - (* TSlice *)
    intros e IH Hp. simpl in Hp. destruct (IH Hp) as [_ [IHe _]]. split; [|split].
    + intros v a b Hok Hd Hs. destruct v; simpl in Hd; try discriminate.
      rewrite std_val_nonnull in Hs by reflexivity. simpl in Hok. apply andb_prop in Hok. destruct Hok as [H1 H2].
      eapply slice_std with (F := decode_elem jcfg false e); eauto.
    + intros inmap v a b Hok Hd Hs. destruct v; simpl in Hd; try discriminate.
      rewrite std_val_nonnull in Hs by reflexivity. simpl in Hok. apply andb_prop in Hok. destruct Hok as [H1 H2].
      eapply slice_std with (F := decode_elem jcfg false e); eauto.
    + intros a _ H. inversion H. reflexivity.
  - (* TMap *)
    intros e IH Hp. simpl in Hp. destruct (IH Hp) as [_ [IHe _]]. split; [|split].
    + intros v a b Hok Hd Hs. destruct v; simpl in Hd; try discriminate.
      rewrite std_val_nonnull in Hs by reflexivity. simpl in Hok.
      eapply map_std with (F := decode_elem jcfg true e); eauto.
    + intros inmap v a b Hok Hd Hs. destruct v; simpl in Hd; try discriminate.
      rewrite std_val_nonnull in Hs by reflexivity. simpl in Hok.
      eapply map_std with (F := decode_elem jcfg true e); eauto.
    + intros a H. simpl in H. discriminate.
  - (* TStruct *)
    intros fs IH Hp. simpl in Hp. destruct (IH Hp) as [IHf IHa]. split; [|split].
    + intros v a b Hok Hd Hs. destruct v; simpl in Hd; try discriminate.
      rewrite std_val_nonnull in Hs by reflexivity. simpl in Hok.
      apply andb_prop in Hok. destruct Hok as [Hok H3]. apply andb_prop in Hok. destruct Hok as [H1 H2].
      apply omap_some in Hd. destruct Hd as [a' [Hd1 Hd2]]. apply rmap_ok in Hs. destruct Hs as [b' [Hs1 Hs2]].
      subst. f_equal. eapply IHf; eauto.
    + intros inmap v a b Hok Hd Hs. destruct v; simpl in Hd; try discriminate.
      rewrite std_val_nonnull in Hs by reflexivity. simpl in Hok.
      apply andb_prop in Hok. destruct Hok as [Hok H3]. apply andb_prop in Hok. destruct Hok as [H1 H2].
      apply omap_some in Hd. destruct Hd as [a' [Hd1 Hd2]]. apply rmap_ok in Hs. destruct Hs as [b' [Hs1 Hs2]].
      subst. f_equal. eapply IHf; eauto.
    + intros a Hn H. simpl in H, Hn. apply omap_some in H. destruct H as [a' [H1 H2]]. subst. simpl. f_equal.
      apply IHa; auto.
  - (* FNil *)
    intros _. split.
    + intros keys o xs ys _ _ _ _ Hd Hs. simpl in *. congruence.
    + intros xs _ H. simpl in H. inversion H. reflexivity.
  - (* FCons *)
    intros key o t IHt rest IHr Hp. simpl in Hp.
    apply andb_prop in Hp. destruct Hp as [Hp Hpr]. apply andb_prop in Hp. destruct Hp as [Ho Hpt].
    destruct o as [o'|]; try discriminate.
    destruct (IHt Hpt) as [IHp [_ IHa]]. destruct (IHr Hpr) as [IHf IHfa]. split.
    + intros keys obj xs ys Hincl Hnd Hnv Hok Hd Hs.
      simpl in Hok. apply andb_prop in Hok. destruct Hok as [Hok1 Hok2].
      simpl in Hd. rewrite field_input_jcfg in Hd. simpl in Hs.
      rewrite pick_lookup in Hs; auto; [|apply Hincl; simpl; auto].
      apply obind_some in Hd. destruct Hd as [x [Hx Hd]]. apply obind_some in Hd. destruct Hd as [xs' [Hxs Hd]].
      apply bind_ok in Hs. destruct Hs as [y [Hy Hs]]. apply bind_ok in Hs. destruct Hs as [ys' [Hys Hs]].
      inversion Hd. inversion Hs. subst. f_equal.
      * destruct (lookup key obj) as [v|] eqn:El; simpl in Hy, Hx, Hok1.
        -- destruct (is_null v) eqn:En.
           ++ destruct v; simpl in En; try discriminate. rewrite std_val_null in Hy. congruence.
           ++ simpl in Hok1. apply (IHp v); auto. destruct v; simpl in En; try discriminate; exact Hx.
        -- inversion Hy. subst. apply IHa; auto.
      * apply (IHf keys obj xs' ys'); auto. intros k Hk. apply Hincl. simpl. auto.
    + intros xs Hn H. simpl in Hn. apply andb_prop in Hn. destruct Hn as [Hn1 Hn2].
      simpl in H. apply obind_some in H. destruct H as [x [Hx H]]. apply obind_some in H. destruct H as [xs' [Hxs H]].
      inversion H. subst. simpl. f_equal; auto.
  - (* FEmbed *)
    intros opt ptr inner _ rest _ Hp. simpl in Hp. discriminate.
Qed.

Lemma decode_std_agree : forall fs d v w,
  plain_fields fs = true -> std_ok fs d = true ->
  decode jcfg fs d = Some v -> stdjson_decode fs d = Ok w -> v = w.
Proof.
  intros fs d v w Hp Hok Hd Hs. destruct d as [[| | | | |o|]|]; simpl in Hd; try discriminate.
  simpl in Hs, Hok. apply andb_prop in Hok. destruct Hok as [Hok H3]. apply andb_prop in Hok. destruct Hok as [H1 H2].
  apply omap_some in Hd. destruct Hd as [a [Hd1 Hd2]]. apply rmap_ok in Hs. destruct Hs as [b [Hs1 Hs2]].
  subst. f_equal. destruct std_mutual as [_ Hf]. destruct (Hf fs Hp) as [H _]. eapply H; eauto.
Qed.

Lemma agrees_with_stdjson_lemma : forall fs d v w,
  plain_fields fs = true -> std_ok fs d = true ->
  unmarshal fixed jcfg fs d = Ok v -> stdjson_decode fs d = Ok w -> v = w.
Proof.
  intros fs d v w Hp Hok Hu Hs. apply accept_exact_lemma in Hu. eapply decode_std_agree; eauto.
Qed.
