(* C17 — executable model of configuration loading (core/conf/config.go,
   internal/encoding/encoding.go, core/mapping/{json,yaml,toml}unmarshaler.go, core/jsonx)
   on top of C08's model of the unmarshaller.  No proofs here.

   Go control flow                                   model
   -----------------------------------------------   ------------------------------------
   yaml.Unmarshal + toStringKeyMap + encodeToJSON
     + jsonx.Unmarshal (UseNumber)                   [shape rf FYaml d]
   toml Decode + encodeToJSON + jsonx.Unmarshal      [shape rf FToml d]
   jsonx.Unmarshal (UseNumber)                       [shape rf FJson d]
   lang.Repr(float64) / encoding/json float encoder  [rf] (concrete: [rf_go] = [fmt_f] / [fmt_j])
   buildFieldsInfo, buildNamedFieldInfo,
     buildAnonymousFieldInfo, addOrMergeFields,
     mergeFields (conflict detection)                [info_fields], [info_named], [info_any],
                                                     [add_or_merge], [merge_fields]
   toLowerCaseKeyMap / toLowerCaseInterface          [lc_obj] / [lc_val]
   mapping.UnmarshalJsonMap(.., WithCanonicalKeyFunc(toLowerCase))
                                                     C08's [unmarshal fixed ccfg (lower_fields T)]
   LoadFromJsonBytes                                 [conf_load]
   Load(file, UseEnv()) = os.ExpandEnv on the text   [expand] on the string leaves ([expand_doc])
   encoding/json.Unmarshal (reference decoder)       [std_val] / [std_fields] / [std_c]

   The third-party parsers and printers (encoding/json, yaml.v2, go-toml/v2) are NOT modelled:
   Props.v takes "parsing the rendering of d yields [shape rf fmt d]" as Section hypotheses, and
   the harness dumps the tree the real parsers + go-zero's normalisers produce on every case. *)
From Coq Require Import List ZArith Bool String Ascii.
From Coq Require Import Decimal DecimalString.
From GZ Require Export C08.Model.
Import ListNotations.
Open Scope Z_scope.

(* ------------------------------------------------------------------ documents *)

(* the abstract document: what a configuration file denotes, independently of its syntax.
   A float leaf carries its literal (the common JSON / YAML / TOML float syntax); an integer
   leaf its value. *)
Inductive doc :=
| DNull
| DBool (b : bool)
| DInt (z : Z)
| DFloat (s : string)
| DStr (s : string)
| DList (l : docs)
| DMap (m : dmap)
| DNilArr      (* not a document value: Go's nil []any, which toLowerCaseInterface makes of an empty
                  array (see [lc_val]); only produced by [lc_doc] in Hyps.v *)
with docs := DLnil | DLcons (d : doc) (l : docs)
with dmap := DMnil | DMcons (k : string) (d : doc) (m : dmap).

Inductive fmt := FJson | FYaml | FToml.

(* ---- integers are printed in decimal by all three paths ---- *)

Definition zstr (z : Z) : string := NilZero.string_of_int (Z.to_int z).
Definition ustr (z : Z) : string := NilZero.string_of_uint (N.to_uint (Z.to_N z)).

(* ---- float64 re-rendering (exact for literals of <= 15 significant digits) ---- *)

Fixpoint strip_zeros (fuel : nat) (m e : Z) : Z * Z :=
  match fuel with
  | O => (m, e)
  | S n => if (m =? 0) then (0, 0) else if (m mod 10 =? 0) then strip_zeros n (m / 10) (e + 1) else (m, e)
  end.

Definition norm_dec (d : dec) : Z * Z :=
  strip_zeros (Z.to_nat (Z.log2 (Z.abs (dm d) + 1)) + 1) (Z.abs (dm d)) (de d).

Fixpoint zeros (n : nat) : string := match n with O => EmptyString | S k => String "0" (zeros k) end.

Fixpoint str_take (n : nat) (s : string) : string :=
  match n, s with S k, String c r => String c (str_take k r) | _, _ => EmptyString end.
Fixpoint str_drop (n : nat) (s : string) : string :=
  match n, s with S k, String _ r => str_drop k r | _, _ => s end.

Definition sign_str (neg : bool) : string := if neg then "-"%string else EmptyString.

(* strconv.FormatFloat(x, 'f', -1, 64): shortest digits, positional notation *)
Definition fmt_pos (m e : Z) : string :=
  let ds := ustr m in
  let n := Z.of_nat (String.length ds) in
  if 0 <=? e then (ds ++ zeros (Z.to_nat e))%string
  else if 0 <? n + e then (str_take (Z.to_nat (n + e)) ds ++ "." ++ str_drop (Z.to_nat (n + e)) ds)%string
  else ("0." ++ zeros (Z.to_nat (- (n + e))) ++ ds)%string.

(* lang.Repr(float64) *)
Definition fmt_f (d : dec) : string :=
  let '(m, e) := norm_dec d in
  let neg := dm d <? 0 in
  if m =? 0 then "0"%string else (sign_str neg ++ fmt_pos m e)%string.

(* strconv 'e' format with shortest digits and encoding/json's exponent clean-up *)
Definition fmt_exp (m e : Z) : string :=
  let ds := ustr m in
  let n := Z.of_nat (String.length ds) in
  let x := n + e - 1 in
  let one := n =? 1 in
  let xneg := x <? 0 in
  let mant := (str_take 1 ds ++ (if one then "" else "." ++ str_drop 1 ds))%string in
  (* strconv pads the exponent to two digits ("e-07"); encoding/json removes that zero again *)
  (mant ++ "e" ++ (if xneg then "-" else "+") ++ ustr (Z.abs x))%string.

(* encoding/json floatEncoder (64 bit): 'f' unless |x| < 1e-6 or |x| >= 1e21 *)
Definition fmt_j (d : dec) : string :=
  let '(m, e) := norm_dec d in
  if m =? 0 then "0"%string
  else
    let n := Z.of_nat (String.length (ustr m)) in
    let x := n + e - 1 in                       (* decimal exponent of the leading digit *)
    let neg := dm d <? 0 in
    let sci := (x <? -6) || (21 <=? x) in
    (sign_str neg ++ (if sci then fmt_exp m e else fmt_pos m e))%string.

Definition lit_dec (s : string) : option dec :=
  match scan_num s with Some y => Some (syn_dec y) | None => None end.

(* the concrete number re-rendering of go-zero's YAML and TOML paths *)
Definition rf_go (f : fmt) (s : string) : string :=
  match f with
  | FJson => s
  | FYaml => match lit_dec s with Some d => fmt_f d | None => s end
  | FToml => match lit_dec s with Some d => fmt_j d | None => s end
  end.

(* ---- the Go value tree each front end hands to the unmarshaller ---- *)

Section Shape.
Variable rf : fmt -> string -> string.

Fixpoint shape (f : fmt) (d : doc) : jv :=
  match d with
  | DNull => match f with FYaml => JStr "" (* toStringKeyMap: lang.Repr(nil) *) | _ => JNull end
  | DBool b => JBool b
  | DInt z => JNum (zstr z)
  | DFloat s => JNum (rf f s)
  | DStr s => JStr s
  | DList l => JArr (shape_list f l)
  | DMap m => JObj (shape_map f m)
  | DNilArr => JArr [JNull]
  end
with shape_list (f : fmt) (l : docs) : list jv :=
  match l with DLnil => [] | DLcons d r => shape f d :: shape_list f r end
with shape_map (f : fmt) (m : dmap) : list (string * jv) :=
  match m with DMnil => [] | DMcons k d r => (k, shape f d) :: shape_map f r end.
End Shape.

(* ---- documents representable in all three formats ---- *)

Fixpoint dkeys (m : dmap) : list string :=
  match m with DMnil => [] | DMcons k _ r => k :: dkeys r end.

Fixpoint nodupb (l : list string) : bool :=
  match l with [] => true | x :: r => negb (str_in x r) && nodupb r end.

Definition int64_ok (z : Z) : bool := (- 2 ^ 63 <=? z) && (z <? 2 ^ 63).

(* no null (TOML has none), integers in TOML's int64, object keys distinct *)
Fixpoint rep (d : doc) : bool :=
  match d with
  | DNull | DNilArr => false
  | DInt z => int64_ok z
  | DList l => rep_list l
  | DMap m => nodupb (dkeys m) && rep_map m
  | _ => true
  end
with rep_list (l : docs) : bool :=
  match l with DLnil => true | DLcons d r => rep d && rep_list r end
with rep_map (m : dmap) : bool :=
  match m with DMnil => true | DMcons _ d r => rep d && rep_map r end.

Definition rep_top (d : doc) : bool := match d with DMap _ => rep d | _ => false end.

(* ------------------------------------------------------------------ conf: field info *)

Inductive finfo := FI (children : list (string * finfo)) (mapf : option finfo).
Definition fi_children (i : finfo) := match i with FI c _ => c end.
Definition fi_mapf (i : finfo) := match i with FI _ m => m end.
Definition fi_empty : finfo := FI [] None.

Definition obnd {A B} (o : option A) (f : A -> option B) : option B :=
  match o with Some a => f a | None => None end.

(* mergeFields *)
Fixpoint merge_children (prev add : list (string * finfo)) : option (list (string * finfo)) :=
  match add with
  | [] => Some prev
  | (k, v) :: r => if has k prev then None else merge_children (prev ++ [(k, v)]) r
  end.
Definition merge_fields (prev : finfo) (add : list (string * finfo)) : option finfo :=
  match fi_children prev, add with
  | [], _ | _, [] => None
  | _, _ => option_map (fun c => FI c (fi_mapf prev)) (merge_children (fi_children prev) add)
  end.

Fixpoint replace_child (k : string) (v : finfo) (l : list (string * finfo)) : list (string * finfo) :=
  match l with
  | [] => []
  | (k', v') :: r => if String.eqb k k' then (k', v) :: r else (k', v') :: replace_child k v r
  end.

(* addOrMergeFields; None = conflictKeyError *)
Definition add_or_merge (info : finfo) (key : string) (child : finfo) : option finfo :=
  match lookup key (fi_children info) with
  | Some prev =>
    match fi_mapf child with
    | Some _ => None
    | None => option_map (fun p => FI (replace_child key p (fi_children info)) (fi_mapf info))
                         (merge_fields prev (fi_children child))
    end
  | None => Some (FI (fi_children info ++ [(key, child)]) (fi_mapf info))
  end.

(* buildFieldsInfo (any type) / buildNamedFieldInfo (type of a named field) / buildStructFieldsInfo.
   [fx = true] is the current code: a map nested inside another container keeps its own layer
   (mapField).  [fx = false] is the pinned code (Pinned.v only), where buildFieldsInfo went
   straight through a nested map to its element type. *)
Fixpoint info_any_v (fx : bool) (t : ftype) : option finfo :=
  match t with
  | TPrim _ => Some fi_empty
  | TPtr t' => info_any_v fx t'
  | TSlice e => info_any_v fx e
  | TMap e => if fx then option_map (fun ei => FI [] (Some ei)) (info_any_v fx e) else info_any_v fx e
  | TStruct fs => info_fields_v fx fs fi_empty
  end
with info_named_v (fx : bool) (t : ftype) : option finfo :=
  match t with
  | TPrim _ => Some fi_empty
  | TPtr t' => info_named_v fx t'
  | TStruct fs => info_fields_v fx fs fi_empty
  | TSlice e => info_any_v fx e
  | TMap e => option_map (fun ei => FI [] (Some ei)) (info_any_v fx e)
  end
with info_fields_v (fx : bool) (fs : fields) (acc : finfo) : option finfo :=
  match fs with
  | FNil => Some acc
  | FCons key _ t rest =>
    obnd (info_named_v fx t)
         (fun fi => obnd (add_or_merge acc (lower key) fi) (fun acc' => info_fields_v fx rest acc'))
  | FEmbed _ _ inner rest =>
    (* buildAnonymousFieldInfo: the members' infos are merged into the enclosing struct's *)
    obnd (info_fields_v fx inner fi_empty)
         (fun si => obnd ((fix add_all (acc : finfo) (l : list (string * finfo)) : option finfo :=
                             match l with
                             | [] => Some acc
                             | (k, v) :: r => obnd (add_or_merge acc k v) (fun acc' => add_all acc' r)
                             end) acc (fi_children si))
                         (fun acc' => info_fields_v fx rest acc'))
  end.

Definition info_any := info_any_v true.
Definition info_named := info_named_v true.
Definition info_fields := info_fields_v true.

(* a struct with NAME-TAGGED embedded fields, for the comparison with encoding/json only
   (mapping and conf ignore the name of an anonymous struct field): named fields and embedded (anonymous) structs *)
Inductive cfields :=
| CNil
| CNamed (key : string) (o : option fopts) (t : ftype) (rest : cfields)
| CEmbed (tag : option string) (sub : cfields) (rest : cfields).   (* non-optional anonymous struct field *)

Fixpoint fields_of_c (T : cfields) : fields :=
  match T with
  | CNil => FNil
  | CNamed k o t r => FCons k o t (fields_of_c r)
  | CEmbed _ sub r => FEmbed false false (fields_of_c sub) (fields_of_c r)
  end.

(* ------------------------------------------------------------------ conf: key lower-casing *)

(* toLowerCaseInterface / toLowerCaseKeyMap.  children keys are lower case, so Go's exact
   look-up before the lower-cased one never finds anything the second would not.
   Go builds the converted array with append on a nil slice: an EMPTY array becomes a nil
   []any, which fillSlice leaves untouched (nil target).  C08's tree has no nil-slice node;
   [JArr [JNull]] is unmarshalled to exactly that (all-null array => nil target) and is
   rejected wherever an empty array is, so it is used as its encoding. *)
Fixpoint lc_val (v : jv) (i : finfo) {struct v} : jv :=
  match v with
  | JObj o =>
    JObj ((fix go (o : list (string * jv)) : list (string * jv) :=
             match o with
             | [] => []
             | (k, x) :: r =>
               (let lk := lower k in
                match lookup lk (fi_children i) with
                | Some ti => (lk, lc_val x ti)
                | None =>
                  match fi_mapf i with
                  | Some mi => (k, lc_val x mi)
                  | None => (k, match x with JObj _ => lc_val x i | _ => x end)
                  end
                end) :: go r
             end) o)
  | JArr [] => JArr [JNull]
  | JArr l => JArr (map (fun x => lc_val x i) l)
  | _ => v
  end.

Definition lc_entry (i : finfo) (kx : string * jv) : string * jv :=
  let '(k, x) := kx in
  let lk := lower k in
  match lookup lk (fi_children i) with
  | Some ti => (lk, lc_val x ti)
  | None =>
    match fi_mapf i with
    | Some mi => (k, lc_val x mi)
    | None => (k, match x with JObj _ => lc_val x i | _ => x end)
    end
  end.

Definition lc_obj (i : finfo) (o : list (string * jv)) : list (string * jv) := map (lc_entry i) o.

(* Go writes the converted entries into a map: two entries with the same converted key
   collide and the survivor depends on map iteration order.  The model is only claimed
   for documents without such collisions ([lc_nocollide]). *)
Definition lc_nocollide (i : finfo) (o : list (string * jv)) : bool := nodupb (map fst (lc_obj i o)).

(* ------------------------------------------------------------------ canonical (lower-case) keys in the type *)

Definition lower_opts (o : option fopts) : option fopts :=
  match o with
  | None => None
  | Some o' =>
    Some (mkOpts (o_optional o')
                 (match o_dep o' with Some (neg, dep) => Some (neg, lower dep) | None => None end)
                 (o_default o') (o_range o') (o_options o') (o_string o'))
  end.

Fixpoint lower_type (t : ftype) : ftype :=
  match t with
  | TPrim k => TPrim k
  | TPtr t' => TPtr (lower_type t')
  | TSlice e => TSlice (lower_type e)
  | TMap e => TMap (lower_type e)
  | TStruct fs => TStruct (lower_fields fs)
  end
with lower_fields (fs : fields) : fields :=
  match fs with
  | FNil => FNil
  | FCons key o t rest => FCons (lower key) (lower_opts o) (lower_type t) (lower_fields rest)
  | FEmbed opt ptr inner rest => FEmbed opt ptr (lower_fields inner) (lower_fields rest)
  end.

(* ------------------------------------------------------------------ loading *)

Definition jcfg : ucfg := mkCfg false false false.     (* mapping.UnmarshalJsonBytes *)
Definition ccfg : ucfg := mkCfg false false true.      (* conf: WithCanonicalKeyFunc(toLowerCase) *)

(* mapping.UnmarshalJsonBytes into a struct with embedded fields *)
Definition um_top (T : cfields) (d : option jv) : result gval := unmarshal fixed jcfg (fields_of_c T) d.

(* conf.LoadFromJsonBytes on a decoded document ([None]: the decoder rejected the text) *)
Definition conf_load (T : fields) (j : option jv) : result gval :=
  match info_fields T fi_empty with
  | None => Err ETag                            (* conflict key ..., pay attention to anonymous fields *)
  | Some info =>
    match j with
    | Some (JObj o) => unmarshal fixed ccfg (lower_fields T) (Some (JObj (lc_obj info o)))
    | _ => Err EDoc
    end
  end.

Definition load_doc (rf : fmt -> string -> string) (T : fields) (f : fmt) (d : doc) : result gval :=
  conf_load T (Some (shape rf f d)).

(* ------------------------------------------------------------------ environment expansion *)

Definition is_alnum_ (c : ascii) : bool :=
  let n := N_of_ascii c in
  ((48 <=? n) && (n <=? 57) || (65 <=? n) && (n <=? 90) || (97 <=? n) && (n <=? 122) || (n =? 95))%N.

Fixpoint take_name (s : string) : string * string :=
  match s with
  | String c r => if is_alnum_ c then let '(a, b) := take_name r in (String c a, b) else (EmptyString, s)
  | EmptyString => (EmptyString, EmptyString)
  end.

Fixpoint take_brace (s : string) : option (string * string) :=
  match s with
  | String "}"%char r => Some (EmptyString, r)
  | String c r => match take_brace r with Some (a, b) => Some (String c a, b) | None => None end
  | EmptyString => None
  end.

Definition env_get (env : list (string * string)) (k : string) : string :=
  match lookup k env with Some v => v | None => EmptyString end.

(* os.Expand.  After a '$': "{name}" up to the next '}' ("${}" and an unterminated "${" are bad
   syntax and are eaten); one of the shell's special variables * # $ @ ! ? - 0..9 (a ONE-character
   name: "$$" and "$1" are references, to variables that are not set); a name of letters, digits
   and '_'; anything else, or nothing: the '$' stays.  On a single string value this is exact; an
   unterminated "${" inside a FILE swallows text up to the next '}' of the file, which is outside
   the model (Hyps / notes: generated documents contain it only where nothing is expanded). *)
Definition is_special (c : ascii) : bool :=
  let n := N_of_ascii c in
  ((48 <=? n) && (n <=? 57) || (n =? 42) || (n =? 35) || (n =? 36) || (n =? 64) || (n =? 33) || (n =? 63) || (n =? 45))%N.

Fixpoint expand (fuel : nat) (env : list (string * string)) (s : string) : string :=
  match fuel with
  | O => s
  | S n =>
    match s with
    | EmptyString => EmptyString
    | String "$"%char r =>
      match r with
      | EmptyString => s                                   (* a trailing '$' *)
      | String "{"%char r2 =>
        match take_brace r2 with
        | Some (nm, r3) => (env_get env nm ++ expand n env r3)%string
        | None => expand n env r2                       (* "${" without "}": eaten *)
        end
      | String c r2 =>
        if is_special c then (env_get env (String c EmptyString) ++ expand n env r2)%string
        else
          let '(nm, r3) := take_name r in
          match nm with
          | EmptyString => String "$"%char (expand n env r)
          | _ => (env_get env nm ++ expand n env r3)%string
          end
      end
    | String c r => String c (expand n env r)
    end
  end.

Definition expand_str env s := expand (S (String.length s)) env s.

Fixpoint expand_doc (env : list (string * string)) (d : doc) : doc :=
  match d with
  | DStr s => DStr (expand_str env s)
  | DList l => DList (expand_list env l)
  | DMap m => DMap (expand_map env m)
  | _ => d
  end
with expand_list env (l : docs) : docs :=
  match l with DLnil => DLnil | DLcons d r => DLcons (expand_doc env d) (expand_list env r) end
with expand_map env (m : dmap) : dmap :=
  match m with DMnil => DMnil | DMcons k d r => DMcons (expand_str env k) (expand_doc env d) (expand_map env r) end.
(* os.ExpandEnv works on the TEXT of the file: with conf.UseEnv() a reference in a KEY is expanded
   like one in a string value (numbers, booleans and punctuation contain no '$') *)

(* conf.Load(file, opts...) on the document: the text is expanded only with conf.UseEnv() *)
Definition load_file (rf : fmt -> string -> string) (T : fields) (f : fmt) (use_env : bool)
           (env : list (string * string)) (d : doc) : result gval :=
  load_doc rf T f (if use_env then expand_doc env d else d).

(* conf.Load picks the loader by the lower-cased file extension *)
Definition fmt_of_ext (e : string) : option fmt :=
  let l := lower e in
  if String.eqb l ".json" then Some FJson
  else if String.eqb l ".yaml" || String.eqb l ".yml" then Some FYaml
  else if String.eqb l ".toml" then Some FToml
  else None.                                         (* "unrecognized file type" *)

Definition load_path (rf : fmt -> string -> string) (T : fields) (ext : string) (d : doc) : result gval :=
  match fmt_of_ext ext with
  | Some f => load_doc rf T f d                      (* the file holds the document rendered in that format *)
  | None => Err EDoc
  end.

(* conf.FillDefault: Unmarshal(map[string]any{}, v) with mapping.WithDefault(): declared defaults are
   set, non-pointer struct fields are filled recursively, everything else stays zero *)
Fixpoint fill_type (t : ftype) : result gval :=
  match t with
  | TStruct fs => rmap VStruct (fill_fields fs)
  | _ => Ok (zero t)
  end
with fill_fields (fs : fields) : result (list gval) :=
  match fs with
  | FNil => Ok []
  | FCons key o t rest =>
    x <- (_ <- guard (opts_ok o) ETag ;;
          match o with
          | Some o' => match o_default o' with Some d => um_default t d | None => fill_type t end
          | None => fill_type t
          end) ;;
    xs <- fill_fields rest ;;
    Ok (x :: xs)
  | FEmbed opt ptr inner rest =>
    x <- (if opt then Ok (if ptr then VNil else VStruct (zero_fields inner))
          else xs <- fill_fields inner ;; Ok (if ptr then VPtr (VStruct xs) else VStruct xs)) ;;
    ys <- fill_fields rest ;;
    Ok (x :: ys)
  end.

Definition fill_default (T : fields) : result gval := rmap VStruct (fill_fields T).

(* ------------------------------------------------------------------ reference decoder: encoding/json *)

Fixpoint field_keys (fs : fields) : list string :=
  match fs with
  | FNil => []
  | FCons k _ _ r => k :: field_keys r
  | FEmbed _ _ inner r => field_keys inner ++ field_keys r      (* promoted fields *)
  end.

(* which field a document key addresses: the exactly named one, else (when no field has
   exactly that name) the one equal under case folding *)
Definition fold_match (keys : list string) (fk k : string) : bool :=
  String.eqb k fk || (negb (str_in k keys) && String.eqb (lower k) (lower fk)).

(* the decoder walks the object in order: the last entry addressing the field wins *)
Fixpoint std_pick (keys : list string) (fk : string) (o : list (string * jv)) (cur : option jv) : option jv :=
  match o with
  | [] => cur
  | (k, v) :: r => std_pick keys fk r (if fold_match keys fk k then Some v else cur)
  end.

Definition std_prim (k : kind) (v : jv) : result gval :=
  match v with
  | JNum s =>
    match k with
    | KInt _ | KUint _ => of_opt (conv_string k s) EConv
    | KF32 => of_opt (option_map VFloat (parse_float true s)) EConv
    | KF64 => of_opt (option_map VFloat (parse_float false s)) EConv
    | KBool | KStr => Err EType
    end
  | JStr s => if kind_eqb k KStr then Ok (VStr s) else Err EType
  | JBool b => if kind_eqb k KBool then Ok (VBool b) else Err EType
  | _ => Err EType
  end.

(* null leaves the (zero) target untouched *)
Fixpoint std_val (t : ftype) (v : jv) {struct t} : result gval :=
  if is_null v then Ok (zero t) else
  match t with
  | TPrim k => std_prim k v
  | TPtr t' => rmap VPtr (std_val t' v)
  | TSlice e => match v with JArr l => rmap VSlice (mapM (std_val e) l) | _ => Err EType end
  | TMap e =>
    match v with
    | JObj o => rmap VMap (mapM (fun kv => x <- std_val e (snd kv) ;; Ok (fst kv, x)) o)
    | _ => Err EType
    end
  | TStruct fs =>
    match v with
    | JObj o => rmap VStruct (std_fields fs (field_keys fs) o)
    | _ => Err EType
    end
  end
with std_fields (fs : fields) (keys : list string) (o : list (string * jv)) {struct fs} : result (list gval) :=
  match fs with
  | FNil => Ok []
  | FCons key _ t rest =>
    x <- match std_pick keys key o None with None => Ok (zero t) | Some v => std_val t v end ;;
    xs <- std_fields rest keys o ;;
    Ok (x :: xs)
  | FEmbed _ ptr inner rest =>
    (* an untagged embedded struct: its fields are promoted (no shadowing is modelled: valid when
       the promoted names are distinct); an embedded pointer is allocated as soon as a key
       addresses one of the members *)
    x <- std_fields inner keys o ;;
    xs <- std_fields rest keys o ;;
    Ok ((if ptr
         then if existsb (fun kv => existsb (fun fk => fold_match keys fk (fst kv)) (field_keys inner)) o
              then VPtr (VStruct x) else VNil
         else VStruct x) :: xs)
  end.

Definition stdjson_decode (fs : fields) (d : option jv) : result gval :=
  match d with
  | Some (JObj o) => rmap VStruct (std_fields fs (field_keys fs) o)
  | Some JNull => Ok (VStruct (zero_fields fs))
  | _ => Err EDoc
  end.

(* with embedded structs: an untagged one is flattened, a name-tagged one is an ordinary
   nested field (valid when the flattened names are distinct: no shadowing is modelled) *)
Fixpoint c_keys (T : cfields) : list string :=
  match T with
  | CNil => []
  | CNamed k _ _ r => k :: c_keys r
  | CEmbed (Some tag) _ r => tag :: c_keys r
  | CEmbed None sub r => c_keys sub ++ c_keys r
  end.

Fixpoint zero_c (T : cfields) : list gval :=
  match T with
  | CNil => []
  | CNamed _ _ t r => zero t :: zero_c r
  | CEmbed _ sub r => VStruct (zero_c sub) :: zero_c r
  end.

Fixpoint std_c (T : cfields) (keys : list string) (o : list (string * jv)) : result (list gval) :=
  match T with
  | CNil => Ok []
  | CNamed key _ t rest =>
    x <- match std_pick keys key o None with None => Ok (zero t) | Some v => std_val t v end ;;
    xs <- std_c rest keys o ;; Ok (x :: xs)
  | CEmbed None sub rest =>
    x <- std_c sub keys o ;; xs <- std_c rest keys o ;; Ok (VStruct x :: xs)
  | CEmbed (Some tag) sub rest =>
    x <- match std_pick keys tag o None with
         | None | Some JNull => Ok (zero_c sub)
         | Some (JObj o') => std_c sub (c_keys sub) o'
         | Some _ => Err EType
         end ;;
    xs <- std_c rest keys o ;; Ok (VStruct x :: xs)
  end.

Definition std_top (T : cfields) (d : option jv) : result gval :=
  match d with
  | Some (JObj o) => rmap VStruct (std_c T (c_keys T) o)
  | _ => Err EDoc
  end.

