(* C17 — proofs, part B: case-insensitive keys. *)
From Coq Require Import List ZArith Bool String Ascii Lia.
From GZ Require Import C08.Model C17.Model C17.Hyps C17.Proofs.
Import ListNotations.
Open Scope Z_scope.

(* against the empty info nothing may be re-cased: the documents are equal *)
Lemma recase_empty_eq :
  (forall d d', recase_doc d d' fi_empty = true -> d = d') /\
  (forall l l', recase_list l l' fi_empty = true -> l = l') /\
  (forall m m', recase_map m m' fi_empty = true -> m = m').
Proof.
  apply doc_docs_dmap_ind.
  - intros d' H. destruct d'; simpl in H; try discriminate; reflexivity.
  - intros b d' H. destruct d'; simpl in H; try discriminate. apply Bool.eqb_prop in H. subst. reflexivity.
  - intros z d' H. destruct d'; simpl in H; try discriminate. apply Z.eqb_eq in H. subst. reflexivity.
  - intros s d' H. destruct d'; simpl in H; try discriminate. apply String.eqb_eq in H. subst. reflexivity.
  - intros s d' H. destruct d'; simpl in H; try discriminate. apply String.eqb_eq in H. subst. reflexivity.
  - intros l IH d' H. destruct d'; simpl in H; try discriminate. f_equal. apply IH. exact H.
  - intros m IH d' H. destruct d'; simpl in H; try discriminate. f_equal. apply IH. exact H.
  - intros d' H. destruct d'; simpl in H; try discriminate; reflexivity.
  - intros l' H. destruct l'; simpl in H; try discriminate; reflexivity.
  - intros d IHd l IHl l' H. destruct l' as [|d' r']; simpl in H; try discriminate.
    apply andb_prop in H. destruct H as [H1 H2]. f_equal; auto.
  - intros m' H. destruct m'; simpl in H; try discriminate; reflexivity.
  - intros k d IHd m IHm m' H. destruct m' as [|k' d' r']; simpl in H; try discriminate.
    apply andb_prop in H. destruct H as [H H3]. apply andb_prop in H. destruct H as [H1 H2].
    apply String.eqb_eq in H1. subst k'.
    assert (recase_doc d d' fi_empty = true) by (destruct d; exact H2).
    f_equal; auto.
Qed.

(* re-cased documents are lower-cased to the same document *)
Lemma recase_lc :
  (forall d d' i, recase_doc d d' i = true -> lc_doc d i = lc_doc d' i) /\
  (forall l l' i, recase_list l l' i = true -> lc_docs l i = lc_docs l' i) /\
  (forall m m' i, recase_map m m' i = true -> lc_dmap m i = lc_dmap m' i).
Proof.
  apply doc_docs_dmap_ind.
  - intros d' i H. destruct d'; simpl in H; try discriminate; reflexivity.
  - intros b d' i H. destruct d'; simpl in H; try discriminate. apply Bool.eqb_prop in H. subst. reflexivity.
  - intros z d' i H. destruct d'; simpl in H; try discriminate. apply Z.eqb_eq in H. subst. reflexivity.
  - intros s d' i H. destruct d'; simpl in H; try discriminate. apply String.eqb_eq in H. subst. reflexivity.
  - intros s d' i H. destruct d'; simpl in H; try discriminate. apply String.eqb_eq in H. subst. reflexivity.
  - intros l IH d' i H. destruct d' as [| | | | |l'| |]; simpl in H; try discriminate.
    pose proof (IH l' i H) as E.
    destruct l as [|x r], l' as [|x' r']; simpl in H; try discriminate; try reflexivity.
    change (lc_doc (DList (DLcons x r)) i) with (DList (lc_docs (DLcons x r) i)).
    change (lc_doc (DList (DLcons x' r')) i) with (DList (lc_docs (DLcons x' r') i)).
    rewrite E. reflexivity.
  - intros m IH d' i H. destruct d' as [| | | | | |m'|]; simpl in H; try discriminate.
    change (lc_doc (DMap m) i) with (DMap (lc_dmap m i)). change (lc_doc (DMap m') i) with (DMap (lc_dmap m' i)).
    rewrite (IH m' i H). reflexivity.
  - intros d' i H. destruct d'; simpl in H; try discriminate; reflexivity.
  - intros l' i H. destruct l'; simpl in H; try discriminate; reflexivity.
  - intros d IHd l IHl l' i H. destruct l' as [|d' r']; simpl in H; try discriminate.
    apply andb_prop in H. destruct H as [H1 H2]. cbn [lc_docs]. rewrite (IHd d' i H1), (IHl r' i H2). reflexivity.
  - intros m' i H. destruct m'; simpl in H; try discriminate; reflexivity.
  - intros k d IHd m IHm m' i H. destruct m' as [|k' d' r']; simpl in H; try discriminate.
    apply andb_prop in H. destruct H as [H H3]. cbn [lc_dmap]. rewrite (IHm r' i H3).
    destruct (lookup (lower k) (fi_children i)) as [ti|] eqn:Hlk.
    + apply andb_prop in H. destruct H as [H1 H2]. apply String.eqb_eq in H1. rewrite <- H1, Hlk.
      rewrite (IHd d' ti H2). reflexivity.
    + apply andb_prop in H. destruct H as [H1 H2]. apply String.eqb_eq in H1. subst k'. rewrite Hlk.
      destruct (fi_mapf i) as [mi|].
      * rewrite (IHd d' mi H2). reflexivity.
      * destruct d as [| | | | | |mm|].
        all: try (destruct recase_empty_eq as [E _]; rewrite <- (E _ d' H2); reflexivity).
        destruct d' as [| | | | | |mm'|]; try (simpl in H2; discriminate).
        rewrite (IHd (DMap mm') i H2). reflexivity.
Qed.

Lemma load_recased : forall rf T f d d',
  match info_fields T fi_empty with Some i => recase_doc d d' i = true | None => True end ->
  load_doc rf T f d = load_doc rf T f d'.
Proof.
  intros rf T f d d' H. unfold load_doc, conf_load.
  destruct (info_fields T fi_empty) as [info|]; [|reflexivity].
  destruct d as [| | | | | |m|], d' as [| | | | | |m'|]; simpl in H; try discriminate; try reflexivity.
  - change (shape rf f (DMap m)) with (JObj (shape_map rf f m)).
    change (shape rf f (DMap m')) with (JObj (shape_map rf f m')).
    destruct (lc_commute rf f) as [_ [_ C]]. rewrite !C.
    destruct recase_lc as [_ [_ E]]. rewrite (E m m' info H). reflexivity.
Qed.

(* ------------------------------------------------------------------ with the parsers as oracles *)

Section Oracles.
(* third-party parser + go-zero's normaliser, per format; the printer that wrote the document down;
   os.ExpandEnv *)
Variable parse : fmt -> string -> option jv.
Variable render : fmt -> doc -> string.
Variable expand_text : list (string * string) -> string -> string.
Variable rf : fmt -> string -> string.

Definition load_text (T : fields) (f : fmt) (txt : string) : result gval := conf_load T (parse f txt).

(* conf.Load(file, opts...) *)
Definition load_file_text (T : fields) (f : fmt) (use_env : bool) (env : list (string * string)) (txt : string) :=
  load_text T f (if use_env then expand_text env txt else txt).

Hypothesis parse_render : forall f d, rep_top d = true -> parse f (render f d) = Some (shape rf f d).

Lemma format_independent_lemma : forall T d,
  fam_fields T = true -> rep_top d = true -> leaves_ok rf d = true -> float_positions_ok T d = true ->
  rsim gsim (load_text T FYaml (render FYaml d)) (load_text T FJson (render FJson d)) /\
  rsim gsim (load_text T FToml (render FToml d)) (load_text T FJson (render FJson d)).
Proof.
  intros T d Hfam Hrep Hl Hpos. unfold load_text. rewrite !parse_render by exact Hrep.
  split; apply load_sim; auto; discriminate.
Qed.

Lemma case_insensitive_lemma : forall T f d d',
  rep_top d = true -> rep_top d' = true ->
  match info_fields T fi_empty with Some i => recase_doc d d' i = true | None => True end ->
  load_text T f (render f d) = load_text T f (render f d').
Proof.
  intros T f d d' Hr Hr' H. unfold load_text. rewrite !parse_render by assumption.
  apply (load_recased rf T f d d' H).
Qed.

(* (the expanded document must still be one: two keys of an object may become equal by expansion) *)
Hypothesis expand_render : forall f env d,
  rep_top d = true -> rep_top (expand_doc env d) = true ->
  parse f (expand_text env (render f d)) = Some (shape rf f (expand_doc env d)).

Lemma env_requested_lemma : forall T f env d, rep_top d = true -> rep_top (expand_doc env d) = true ->
  load_file_text T f true env (render f d) = load_doc rf T f (expand_doc env d).
Proof. intros. unfold load_file_text, load_text, load_doc. rewrite expand_render by assumption. reflexivity. Qed.

Lemma env_not_requested_lemma : forall T f env d,
  load_file_text T f false env (render f d) = load_text T f (render f d).
Proof. reflexivity. Qed.

Lemma env_format_independent_lemma : forall T env d,
  fam_fields T = true -> rep_top d = true -> rep_top (expand_doc env d) = true -> leaves_ok rf (expand_doc env d) = true ->
  float_positions_ok T (expand_doc env d) = true ->
  rsim gsim (load_file_text T FYaml true env (render FYaml d)) (load_file_text T FJson true env (render FJson d)) /\
  rsim gsim (load_file_text T FToml true env (render FToml d)) (load_file_text T FJson true env (render FJson d)).
Proof.
  intros T env d Hfam Hrep Hrep' Hl Hpos. rewrite !env_requested_lemma by assumption.
  split; apply load_sim; auto; discriminate.
Qed.
End Oracles.
