(* C17 — proofs, part D: type-directed case-insensitivity for the repaired buildFieldsInfo.
   The field info built from a type with distinct canonical keys is exactly "one child per
   field, keyed by the canonical key, holding the info of the field's type" ([entries]), a map
   keeps a layer of its own, and therefore lower-casing touches exactly the keys that address
   struct fields according to the type ([tr_val]); map keys are never touched. *)
From Coq Require Import List ZArith Bool String Ascii Lia.
From GZ Require Import C08.Model C17.Model C17.Hyps C17.Proofs C17.ProofsB C17.ProofsC.
Import ListNotations.
Open Scope Z_scope.

(* ------------------------------------------------------------------ lists of keys *)

Lemma str_in_In : forall k l, str_in k l = true <-> In k l.
Proof.
  intros k l. unfold str_in. rewrite existsb_exists. split.
  - intros [x [H1 H2]]. apply String.eqb_eq in H2. subst. exact H1.
  - intro H. exists k. split; auto. apply String.eqb_refl.
Qed.

Lemma str_in_false : forall k l, str_in k l = false <-> ~ In k l.
Proof.
  intros k l. rewrite <- str_in_In. destruct (str_in k l); split; intro H; try congruence; try (exfalso; apply H; reflexivity).
Qed.

Lemma nodupb_app : forall a b, nodupb (a ++ b) = true ->
  nodupb a = true /\ nodupb b = true /\ (forall k, In k a -> ~ In k b).
Proof.
  induction a as [|x a IH]; intros b H; simpl in *.
  - repeat split; auto.
  - apply andb_prop in H. destruct H as [H1 H2]. apply negb_true_iff in H1. apply str_in_false in H1.
    destruct (IH b H2) as [Ha [Hb Hd]]. repeat split; auto.
    + apply andb_true_intro. split; auto. apply negb_true_iff. apply str_in_false. intro Hi. apply H1. apply in_or_app. auto.
    + intros k [E|Hi] Hb'. * subst. apply H1. apply in_or_app. auto. * eapply Hd; eauto.
Qed.

Lemma lookup_app : forall {A} k (l l' : list (string * A)),
  lookup k (l ++ l') = match lookup k l with Some v => Some v | None => lookup k l' end.
Proof. intros A k l l'. induction l as [|[k' v] r IH]; simpl; auto. destruct (String.eqb k k'); auto. Qed.

Lemma lookup_notin : forall {A} k (l : list (string * A)), ~ In k (map fst l) -> lookup k l = None.
Proof. intros A k l H. apply lookup_none_notin. apply str_in_false. exact H. Qed.

(* ------------------------------------------------------------------ what buildStructFieldsInfo builds *)

Fixpoint entries (fs : fields) : option (list (string * finfo)) :=
  match fs with
  | FNil => Some []
  | FCons key _ t rest =>
    obnd (info_named t) (fun fi => obnd (entries rest) (fun es => Some ((lower key, fi) :: es)))
  | FEmbed _ _ inner rest =>
    obnd (entries inner) (fun ei => obnd (entries rest) (fun er => Some (ei ++ er)))
  end.

Definition add_all :=
  fix add_all (acc : finfo) (l : list (string * finfo)) : option finfo :=
    match l with
    | [] => Some acc
    | (k, v) :: r => obnd (add_or_merge acc k v) (fun acc' => add_all acc' r)
    end.

Lemma add_or_merge_fresh : forall acc key child, lookup key (fi_children acc) = None ->
  add_or_merge acc key child = Some (FI (fi_children acc ++ [(key, child)]) (fi_mapf acc)).
Proof. intros acc key child H. unfold add_or_merge. rewrite H. reflexivity. Qed.

Lemma add_all_fresh : forall l acc,
  nodupb (map fst l) = true -> (forall k, In k (map fst l) -> lookup k (fi_children acc) = None) ->
  add_all acc l = Some (FI (fi_children acc ++ l) (fi_mapf acc)).
Proof.
  induction l as [|[k v] r IH]; intros acc Hnd Hfr; simpl.
  - rewrite app_nil_r. destruct acc; reflexivity.
  - simpl in Hnd. apply andb_prop in Hnd. destruct Hnd as [Hk Hnd]. apply negb_true_iff in Hk. apply str_in_false in Hk.
    rewrite add_or_merge_fresh by (apply Hfr; simpl; auto). simpl.
    rewrite IH; auto.
    + simpl. rewrite <- app_assoc. reflexivity.
    + intros k' Hin. simpl. rewrite lookup_app. rewrite (Hfr k') by (simpl; auto). simpl.
      destruct (String.eqb k' k) eqn:E; auto. apply String.eqb_eq in E. subst. contradiction.
Qed.

Lemma entries_keys : forall fs es, entries fs = Some es -> map fst es = lowerkeys fs.
Proof.
  induction fs as [|key o t rest IH|opt ptr inner IHi rest IHr]; intros es H; simpl in *.
  - inversion H. reflexivity.
  - destruct (info_named t); simpl in H; try discriminate. destruct (entries rest) as [es'|]; simpl in H; try discriminate.
    inversion H. subst. simpl. f_equal. apply IH. reflexivity.
  - destruct (entries inner) as [ei|]; simpl in H; try discriminate.
    destruct (entries rest) as [er|]; simpl in H; try discriminate. inversion H. subst.
    rewrite map_app. f_equal; [apply IHi | apply IHr]; reflexivity.
Qed.

Lemma info_fields_entries : forall fs acc,
  nodupb (lowerkeys fs) = true -> (forall k, In k (lowerkeys fs) -> lookup k (fi_children acc) = None) ->
  info_fields fs acc = option_map (fun es => FI (fi_children acc ++ es) (fi_mapf acc)) (entries fs).
Proof.
  unfold info_fields.
  induction fs as [|key o t rest IH|opt ptr inner IHi rest IHr]; intros acc Hnd Hfr.
  - simpl. rewrite app_nil_r. destruct acc; reflexivity.
  - simpl in Hnd. apply andb_prop in Hnd. destruct Hnd as [Hk Hnd]. apply negb_true_iff in Hk. apply str_in_false in Hk.
    cbn [info_fields_v entries]. fold info_named. destruct (info_named t) as [fi|]; [|reflexivity]. cbn [obnd].
    rewrite add_or_merge_fresh by (apply Hfr; simpl; auto). cbn [obnd].
    rewrite IH; auto.
    + cbn [fi_children fi_mapf]. destruct (entries rest) as [es|]; [|reflexivity]. simpl. rewrite <- app_assoc. reflexivity.
    + intros k Hin. cbn [fi_children]. rewrite lookup_app. rewrite (Hfr k) by (simpl; auto). simpl.
      destruct (String.eqb k (lower key)) eqn:E; auto. apply String.eqb_eq in E. subst. contradiction.
  - simpl in Hnd. apply nodupb_app in Hnd. destruct Hnd as [Hni [Hnr Hdis]].
    change (info_fields_v true (FEmbed opt ptr inner rest) acc) with
      (obnd (info_fields_v true inner fi_empty)
            (fun si => obnd (add_all acc (fi_children si)) (fun acc' => info_fields_v true rest acc'))).
    rewrite (IHi fi_empty Hni) by (intros; reflexivity).
    cbn [entries]. destruct (entries inner) as [ei|] eqn:Ei; [|reflexivity]. cbn [option_map obnd fi_children app].
    pose proof (entries_keys inner ei Ei) as Hk.
    rewrite add_all_fresh.
    + cbn [obnd]. rewrite IHr; auto.
      * cbn [fi_children fi_mapf]. destruct (entries rest) as [er|]; [|reflexivity]. simpl. rewrite <- app_assoc. reflexivity.
      * intros k Hin. cbn [fi_children]. rewrite lookup_app. rewrite (Hfr k) by (simpl; apply in_or_app; auto).
        cbv iota. simpl. apply lookup_notin. rewrite Hk. intro Hi. eapply Hdis; eauto.
    + simpl. rewrite Hk. exact Hni.
    + intros k Hin. simpl in Hin. rewrite Hk in Hin. apply Hfr. simpl. apply in_or_app. auto.
Qed.

Lemma entries_some_named : forall fs es lk t, entries fs = Some es -> ftype_of lk fs = Some t ->
  exists fi, info_named t = Some fi.
Proof.
  induction fs as [|key o t0 rest IH|opt ptr inner IHi rest IHr]; intros es lk t He Hf; simpl in *; try discriminate.
  - destruct (info_named t0) as [fi|] eqn:En; simpl in He; try discriminate.
    destruct (entries rest) as [es'|] eqn:Er; simpl in He; try discriminate.
    destruct (String.eqb lk (lower key)). + inversion Hf. subst. eauto. + eapply IH; eauto.
  - destruct (entries inner) as [ei|] eqn:Ei; simpl in He; try discriminate.
    destruct (entries rest) as [er|] eqn:Er; simpl in He; try discriminate.
    destruct (ftype_of lk inner) as [t'|] eqn:Ef. + inversion Hf. subst. eapply IHi; eauto. + eapply IHr; eauto.
Qed.

Lemma lookup_entries : forall fs es lk, entries fs = Some es ->
  lookup lk es = match ftype_of lk fs with Some t => info_named t | None => None end.
Proof.
  induction fs as [|key o t0 rest IH|opt ptr inner IHi rest IHr]; intros es lk He; simpl in *.
  - inversion He. reflexivity.
  - destruct (info_named t0) as [fi|] eqn:En; simpl in He; try discriminate.
    destruct (entries rest) as [es'|] eqn:Er; simpl in He; try discriminate. inversion He. simpl.
    destruct (String.eqb lk (lower key)); auto.
  - destruct (entries inner) as [ei|] eqn:Ei; simpl in He; try discriminate.
    destruct (entries rest) as [er|] eqn:Er; simpl in He; try discriminate. inversion He.
    rewrite lookup_app, (IHi ei lk eq_refl), (IHr er lk eq_refl).
    destruct (ftype_of lk inner) as [t'|] eqn:Ef; auto.
    destruct (entries_some_named inner ei lk t' Ei Ef) as [fi Hfi]. rewrite Hfi. reflexivity.
Qed.

(* after the repair, a named field and any other position get the same info *)
Lemma info_named_any : forall t, info_named t = info_any t.
Proof. unfold info_named, info_any. induction t; simpl; auto. Qed.

(* ------------------------------------------------------------------ lower-casing follows the type *)

Lemma doc_eqb_eq : forall d d', doc_eqb d d' = true -> d = d'.
Proof. intros d d' H. destruct recase_empty_eq as [E _]. apply E. exact H. Qed.

Definition R_type (t : ftype) : Prop :=
  keys_distinct_t t = true ->
  forall fi, info_any t = Some fi -> forall x x', tr_val t x x' = true -> lc_doc x fi = lc_doc x' fi.

Definition R_fields (fs : fields) : Prop :=
  keys_distinct_fs fs = true ->
  forall k x k' x',
    (tr_entry fs k x k' x' = None -> ftype_of (lower k) fs = None) /\
    (tr_entry fs k x k' x' = Some true ->
     exists t, ftype_of (lower k) fs = Some t /\ lower k = lower k' /\
               forall fi, info_any t = Some fi -> lc_doc x fi = lc_doc x' fi).

Lemma recase_typed_mutual : (forall t, R_type t) /\ (forall fs, R_fields fs).
Proof.
  apply ftype_fields_ind17.
  - (* TPrim *) intros k _ fi _ x x' H. simpl in H. rewrite (doc_eqb_eq _ _ H). reflexivity.
  - (* TPtr *) intros t IH Hd fi Hi x x' H. apply IH; auto.
  - (* TSlice *)
    intros e IH Hd fi Hi x x' H. simpl in Hd. change (info_any (TSlice e)) with (info_any e) in Hi.
    destruct x as [| | | | |l| |]; try (simpl in H; rewrite (doc_eqb_eq _ _ H); reflexivity).
    destruct x' as [| | | | |l'| |]; try (simpl in H; rewrite (doc_eqb_eq _ _ H); reflexivity).
    assert (E : lc_docs l fi = lc_docs l' fi /\ (l = DLnil <-> l' = DLnil)).
    { simpl in H. revert l' H. induction l as [|a r IHl]; intros l' H; destruct l' as [|a' r']; try discriminate.
      - split; [reflexivity | tauto].
      - apply andb_prop in H. destruct H as [H1 H2]. cbn [lc_docs].
        rewrite (IH Hd fi Hi a a' H1). destruct (IHl r' H2) as [E _]. rewrite E. split; [reflexivity|]. split; discriminate. }
    destruct E as [E Hn]. destruct l as [|a r], l' as [|a' r']; try reflexivity.
    + destruct Hn as [Hn _]. specialize (Hn eq_refl). discriminate.
    + destruct Hn as [_ Hn]. specialize (Hn eq_refl). discriminate.
    + change (lc_doc (DList (DLcons a r)) fi) with (DList (lc_docs (DLcons a r) fi)).
      change (lc_doc (DList (DLcons a' r')) fi) with (DList (lc_docs (DLcons a' r') fi)). rewrite E. reflexivity.
  - (* TMap *)
    intros e IH Hd fi Hi x x' H. simpl in Hd.
    change (info_any (TMap e)) with (option_map (fun ei => FI [] (Some ei)) (info_any e)) in Hi.
    destruct (info_any e) as [ei|] eqn:Ee; simpl in Hi; try discriminate. inversion Hi. subst fi.
    destruct x as [| | | | | |m|]; try (simpl in H; rewrite (doc_eqb_eq _ _ H); reflexivity).
    destruct x' as [| | | | | |m'|]; try (simpl in H; rewrite (doc_eqb_eq _ _ H); reflexivity).
    change (lc_doc (DMap m) (FI [] (Some ei))) with (DMap (lc_dmap m (FI [] (Some ei)))).
    change (lc_doc (DMap m') (FI [] (Some ei))) with (DMap (lc_dmap m' (FI [] (Some ei)))). f_equal.
    simpl in H. revert m' H. induction m as [|k a r IHm]; intros m' H; destruct m' as [|k' a' r']; try discriminate; auto.
    apply andb_prop in H. destruct H as [H H3]. apply andb_prop in H. destruct H as [H1 H2].
    apply String.eqb_eq in H1. subst k'. cbn [lc_dmap fi_children fi_mapf lookup].
    rewrite (IH Hd ei Ee a a' H2), (IHm r' H3). reflexivity.
  - (* TStruct *)
    intros fs IH Hd fi Hi x x' H. simpl in Hd. apply andb_prop in Hd. destruct Hd as [Hnd Hd].
    change (info_any (TStruct fs)) with (info_fields fs fi_empty) in Hi.
    rewrite info_fields_entries in Hi by (auto; intros; reflexivity).
    destruct (entries fs) as [es|] eqn:Ees; simpl in Hi; try discriminate. inversion Hi. subst fi.
    destruct x as [| | | | | |m|]; try (simpl in H; rewrite (doc_eqb_eq _ _ H); reflexivity).
    destruct x' as [| | | | | |m'|]; try (simpl in H; rewrite (doc_eqb_eq _ _ H); reflexivity).
    change (lc_doc (DMap m) (FI es None)) with (DMap (lc_dmap m (FI es None))).
    change (lc_doc (DMap m') (FI es None)) with (DMap (lc_dmap m' (FI es None))). f_equal.
    simpl in H. revert m' H. induction m as [|k a r IHm]; intros m' H; destruct m' as [|k' a' r']; try discriminate; auto.
    apply andb_prop in H. destruct H as [H1 H2]. cbn [lc_dmap fi_children fi_mapf].
    rewrite (IHm r' H2). rewrite !(lookup_entries fs es _ Ees).
    destruct (IH Hd k a k' a') as [Hnone Hsome].
    destruct (tr_entry fs k a k' a') as [b|] eqn:Et.
    + subst b. destruct (Hsome eq_refl) as [t [Hf [Hl Hlc]]]. rewrite <- Hl, Hf.
      destruct (entries_some_named fs es _ t Ees Hf) as [ti Hti]. rewrite Hti.
      rewrite (Hlc ti) by (rewrite <- info_named_any; exact Hti). reflexivity.
    + apply andb_prop in H1. destruct H1 as [Hk Hx]. apply String.eqb_eq in Hk. subst k'.
      rewrite (doc_eqb_eq _ _ Hx). reflexivity.
  - (* FNil *) intros _ k x k' x'. simpl. split; [reflexivity | discriminate].
  - (* FCons *)
    intros key o t IHt rest IHr Hd k x k' x'. simpl in Hd. apply andb_prop in Hd. destruct Hd as [Hdt Hdr].
    simpl. destruct (String.eqb (lower k) (lower key)) eqn:E.
    + split; [discriminate|]. intro H. inversion H as [H']. apply andb_prop in H'. destruct H' as [H1 H2].
      apply String.eqb_eq in H1. exists t. repeat split; auto; try (intros fi Hfi; apply (IHt Hdt fi Hfi x x' H2)).
    + apply (IHr Hdr).
  - (* FEmbed *)
    intros opt ptr inner IHi rest IHr Hd k x k' x'. simpl in Hd. apply andb_prop in Hd. destruct Hd as [Hdi Hdr].
    simpl. destruct (IHi Hdi k x k' x') as [Hin His]. destruct (IHr Hdr k x k' x') as [Hrn Hrs].
    destruct (tr_entry inner k x k' x') as [b|] eqn:Et.
    + split; [discriminate|]. intro H. inversion H. subst b. destruct (His eq_refl) as [t [Hf R]]. exists t. rewrite Hf. auto.
    + rewrite (Hin eq_refl). split; auto.
Qed.

Lemma load_recased_typed : forall rf T f d d',
  keys_distinct T = true -> tr_top T d d' = true -> load_doc rf T f d = load_doc rf T f d'.
Proof.
  intros rf T f d d' Hd H. unfold load_doc, conf_load.
  destruct (info_fields T fi_empty) as [info|] eqn:Ei; [|reflexivity].
  unfold keys_distinct in Hd.
  destruct recase_typed_mutual as [Rt _].
  assert (E : lc_doc d info = lc_doc d' info).
  { apply (Rt (TStruct T)); auto. }
  destruct d as [| | | | | |m|]; try (unfold tr_top in H; simpl in H; rewrite (doc_eqb_eq _ _ H); reflexivity).
  destruct d' as [| | | | | |m'|]; try (unfold tr_top in H; simpl in H; rewrite (doc_eqb_eq _ _ H); reflexivity).
  change (shape rf f (DMap m)) with (JObj (shape_map rf f m)).
  change (shape rf f (DMap m')) with (JObj (shape_map rf f m')).
  destruct (lc_commute rf f) as [_ [_ C]]. rewrite !C.
  change (lc_doc (DMap m) info) with (DMap (lc_dmap m info)) in E.
  change (lc_doc (DMap m') info) with (DMap (lc_dmap m' info)) in E. inversion E as [E']. rewrite E'. reflexivity.
Qed.

(* map keys are data: the lower-casing of a map-typed position keeps every key *)
Lemma map_keys_kept : forall e fi m, info_any (TMap e) = Some fi -> dkeys (lc_dmap m fi) = dkeys m.
Proof.
  intros e fi m Hi. change (info_any (TMap e)) with (option_map (fun ei => FI [] (Some ei)) (info_any e)) in Hi.
  destruct (info_any e) as [ei|]; simpl in Hi; try discriminate. inversion Hi. subst fi.
  induction m as [|k a r IH]; simpl; auto. rewrite IH. reflexivity.
Qed.

Section OraclesD.
Variable parse : fmt -> string -> option jv.
Variable render : fmt -> doc -> string.
Variable rf : fmt -> string -> string.
Hypothesis parse_render : forall f d, rep_top d = true -> parse f (render f d) = Some (shape rf f d).

Lemma case_insensitive_typed_lemma : forall T f d d',
  rep_top d = true -> rep_top d' = true -> keys_distinct T = true -> tr_top T d d' = true ->
  load_text parse T f (render f d) = load_text parse T f (render f d').
Proof.
  intros T f d d' Hr Hr' Hd H. unfold load_text. rewrite !parse_render by assumption.
  apply (load_recased_typed rf T f d d' Hd H).
Qed.
End OraclesD.
