(* C17 — the pinned conf.buildFieldsInfo (before pending/C17-nested-map-field-info.diff): it went
   straight through a map nested inside another container, so the field info had no layer for
   that map.  Refuted on the pinned variant (witnesses by computation; both replayed on the
   real code by the thorough tier / notes/C17.md):
   - keys of structs below "map, then slice" were matched case-SENSITIVELY;
   - a map key spelled like a field of the element struct was taken for that field. *)
From Coq Require Import List ZArith Bool String Ascii.
From GZ Require Import C08.Model C17.Model C17.Hyps.
Import ListNotations.
Open Scope Z_scope.
Open Scope string_scope.

Definition conf_load_pinned (T : fields) (j : option jv) : result gval :=
  match info_fields_v false T fi_empty with
  | None => Err ETag
  | Some info =>
    match j with
    | Some (JObj o) => unmarshal fixed ccfg (lower_fields T) (Some (JObj (lc_obj info o)))
    | _ => Err EDoc
    end
  end.

Definition load_pinned (T : fields) (f : fmt) (d : doc) : result gval := conf_load_pinned T (Some (shape rf_go f d)).

(* K map[string]map[string][]struct{ LogLevel float32 } *)
Definition t_mms : fields :=
  FCons "K" None (TMap (TMap (TSlice (TStruct (FCons "LogLevel" None (TPrim KF32) FNil))))) FNil.
Definition d_mms (k1 k2 : string) : doc :=
  DMap (DMcons k1 (DMap (DMcons "1" (DMap (DMcons "Y"
       (DList (DLcons (DMap (DMcons k2 (DFloat "0.5") DMnil)) DLnil)) DMnil)) DMnil)) DMnil).

(* the same document with two spellings of its struct keys: one rejected, one accepted *)
Theorem case_insensitive_nested_refuted : forall f,
  load_pinned t_mms f (d_mms "K" "LogLevel") = Err ENotSet /\
  load_pinned t_mms f (d_mms "k" "loglevel") =
    Ok (VStruct [VMap [("1", VMap [("Y", VSlice [VStruct [VFloat (FDec (mkDec 5 (-1)))]])])]]).
Proof. intro f. destruct f; vm_compute; split; reflexivity. Qed.

(* the current code accepts both, with equal results *)
Theorem case_insensitive_nested_fixed : forall f,
  load_doc rf_go t_mms f (d_mms "K" "LogLevel") = load_doc rf_go t_mms f (d_mms "k" "loglevel") /\
  exists v, load_doc rf_go t_mms f (d_mms "K" "LogLevel") = Ok v.
Proof. intro f. destruct f; vm_compute; split; try reflexivity; eexists; reflexivity. Qed.

(* Value map[string]map[string]struct{ User string }: the inner map key "User" *)
Definition t_mm : fields :=
  FCons "Value" None (TMap (TMap (TStruct (FCons "User" None (TPrim KStr) FNil)))) FNil.
Definition d_mm : doc :=
  DMap (DMcons "Value" (DMap (DMcons "first" (DMap (DMcons "User" (DMap (DMcons "User" (DStr "u") DMnil)) DMnil)) DMnil)) DMnil).

Theorem map_key_taken_for_field_refuted : forall f,
  load_pinned t_mm f d_mm = Err ENotSet /\
  load_doc rf_go t_mm f d_mm = Ok (VStruct [VMap [("first", VMap [("User", VStruct [VStr "u"])])]]).
Proof. intro f. destruct f; vm_compute; split; reflexivity. Qed.

Print Assumptions case_insensitive_nested_refuted.
Print Assumptions map_key_taken_for_field_refuted.
