(* C17 — the pinned conf.buildFieldsInfo (before pending/C17-nested-map-field-info.diff): it went
   straight through a map nested inside another container, so the field info had no layer for
   that map.  Refuted on the pinned variant (witnesses by computation; both replayed on the
   real code by the thorough tier / notes/C17.md):
   - keys of structs below "map, then slice" were matched case-SENSITIVELY;
   - a map key spelled like a field of the element struct was taken for that field. *)
From Coq Require Import List ZArith Bool String Ascii.
From GZ Require Import C08.Model C17.Model C17.Hyps.
Import ListNotations.
Open Scope Z_scope.
Open Scope string_scope.

Definition conf_load_pinned (T : fields) (j : option jv) : result gval :=
  match info_fields_v false T fi_empty with
  | None => Err ETag
  | Some info =>
    match j with
    | Some (JObj o) => unmarshal fixed ccfg (lower_fields T) (Some (JObj (lc_obj info o)))
    | _ => Err EDoc
    end
  end.

Definition load_pinned (T : fields) (f : fmt) (d : doc) : result gval := conf_load_pinned T (Some (shape rf_go f d)).

(* K map[string]map[string][]struct{ LogLevel float32 } *)
Definition t_mms : fields :=
  FCons "K" None (TMap (TMap (TSlice (TStruct (FCons "LogLevel" None (TPrim KF32) FNil))))) FNil.
Definition d_mms (k1 k2 : string) : doc :=
  DMap (DMcons k1 (DMap (DMcons "1" (DMap (DMcons "Y"
       (DList (DLcons (DMap (DMcons k2 (DFloat "0.5") DMnil)) DLnil)) DMnil)) DMnil)) DMnil).

(* the same document with two spellings of its struct keys: one rejected, one accepted *)
Theorem case_insensitive_nested_refuted : forall f,
  load_pinned t_mms f (d_mms "K" "LogLevel") = Err ENotSet /\
  load_pinned t_mms f (d_mms "k" "loglevel") =
    Ok (VStruct [VMap [("1", VMap [("Y", VSlice [VStruct [VFloat (FDec (mkDec 5 (-1)))]])])]]).
Proof. intro f. destruct f; vm_compute; split; reflexivity. Qed.

(* the current code accepts both, with equal results *)
Theorem case_insensitive_nested_fixed : forall f,
  load_doc rf_go t_mms f (d_mms "K" "LogLevel") = load_doc rf_go t_mms f (d_mms "k" "loglevel") /\
  exists v, load_doc rf_go t_mms f (d_mms "K" "LogLevel") = Ok v.
Proof. intro f. destruct f; vm_compute; split; try reflexivity; eexists; reflexivity. Qed.

(* Value map[string]map[string]struct{ User string }: the inner map key "User" *)
Definition t_mm : fields :=
  FCons "Value" None (TMap (TMap (TStruct (FCons "User" None (TPrim KStr) FNil)))) FNil.
Definition d_mm : doc :=
  DMap (DMcons "Value" (DMap (DMcons "first" (DMap (DMcons "User" (DMap (DMcons "User" (DStr "u") DMnil)) DMnil)) DMnil)) DMnil).

Theorem map_key_taken_for_field_refuted : forall f,
  load_pinned t_mm f d_mm = Err ENotSet /\
  load_doc rf_go t_mm f d_mm = Ok (VStruct [VMap [("first", VMap [("User", VStruct [VStr "u"])])]]).
Proof. intro f. destruct f; vm_compute; split; reflexivity. Qed.

Print Assumptions case_insensitive_nested_refuted.
Print Assumptions map_key_taken_for_field_refuted.

(* ------------------------------------------------------------------ seeded change C17-3:
   buildFieldsInfo no longer dereferences its argument; every call site passes a dereferenced
   type except the slice / array case of buildNamedFieldInfo, which passes the raw element type.
   So a NAMED field of type []*T gets a leaf info, and the keys inside its elements are no
   longer lower-cased.  [pin3_fields T] is the type whose current field info is the pinned one
   of T. *)
Fixpoint pin3_named (t : ftype) : ftype :=
  match t with
  | TPrim k => TPrim k
  | TPtr t' => pin3_named t'                       (* the caller dereferenced the field type *)
  | TSlice (TPtr _) => TPrim KStr                  (* Kind Ptr: default branch, a leaf *)
  | TSlice e => TSlice (pin3_any e)
  | TMap e => TMap (pin3_any e)
  | TStruct fs => TStruct (pin3_fields fs)
  end
with pin3_any (t : ftype) : ftype :=
  match t with
  | TPrim k => TPrim k
  | TPtr t' => TPtr (pin3_any t')
  | TSlice e => TSlice (pin3_any e)
  | TMap e => TMap (pin3_any e)
  | TStruct fs => TStruct (pin3_fields fs)
  end
with pin3_fields (fs : fields) : fields :=
  match fs with
  | FNil => FNil
  | FCons key o t rest => FCons key o (pin3_named t) (pin3_fields rest)
  | FEmbed opt ptr inner rest => FEmbed opt ptr (pin3_fields inner) (pin3_fields rest)
  end.

Definition load_pin3 (T : fields) (f : fmt) (d : doc) : result gval :=
  match info_fields (pin3_fields T) fi_empty, shape rf_go f d with
  | Some info, JObj o => unmarshal fixed ccfg (lower_fields T) (Some (JObj (lc_obj info o)))
  | None, _ => Err ETag
  | _, _ => Err EDoc
  end.

(* Nodes []*struct{ Host string; MaxConn int } *)
Definition t_nodes : fields :=
  FCons "Nodes" None (TSlice (TPtr (TStruct (FCons "Host" None (TPrim KStr) (FCons "maxConn" None (TPrim (KInt W0)) FNil))))) FNil.
Definition d_nodes (k h c : string) : doc :=
  DMap (DMcons k (DList (DLcons (DMap (DMcons h (DStr "h1") (DMcons c (DInt 3) DMnil))) DLnil)) DMnil).

Theorem slice_of_pointers_refuted : forall f,
  tr_top t_nodes (d_nodes "Nodes" "Host" "maxConn") (d_nodes "nodes" "host" "maxconn") = true /\
  load_pin3 t_nodes f (d_nodes "Nodes" "Host" "maxConn") = Err ENotSet /\
  load_pin3 t_nodes f (d_nodes "nodes" "host" "maxconn") = Ok (VStruct [VSlice [VPtr (VStruct [VStr "h1"; VInt 3])]]).
Proof. intro f. destruct f; vm_compute; repeat split. Qed.

Theorem slice_of_pointers_fixed : forall f,
  load_doc rf_go t_nodes f (d_nodes "Nodes" "Host" "maxConn") = load_doc rf_go t_nodes f (d_nodes "nodes" "host" "maxconn") /\
  load_doc rf_go t_nodes f (d_nodes "NODES" "HOST" "MaxConn") = Ok (VStruct [VSlice [VPtr (VStruct [VStr "h1"; VInt 3])]]).
Proof. intro f. destruct f; vm_compute; split; reflexivity. Qed.

(* ------------------------------------------------------------------ repaired defect F20: an
   anonymous field of a declared slice type (type Nodes []*Node; struct{ Nodes }) was a leaf in
   buildAnonymousFieldInfo ([skel_fields_v false]): the map handed to the unmarshaller differs for
   a document and its re-cased twin, i.e. the element keys were matched case-sensitively *)
From GZ Require Import C17.Shapes.

Definition x_anon : xfields :=
  XEmbedT "C17Nodes" (XSlice (XPtr (XStruct (XCons "Host" None (XPrim KStr) (XCons "maxConn" None (XPrim (KInt W0)) XNil))))) XNil.

Definition xlower_v (anon_slice : bool) (T : xfields) (d : doc) : option jv :=
  option_map (fun i => lc_val (shape rf_go FJson d) i) (info_fields (skel_fields_v anon_slice T) fi_empty).

Theorem anonymous_slice_refuted :
  xkeys_distinct x_anon = true /\
  xtr_top x_anon (d_nodes "C17Nodes" "Host" "maxConn") (d_nodes "c17nodes" "host" "maxconn") = true /\
  xlower_v false x_anon (d_nodes "C17Nodes" "Host" "maxConn") <> xlower_v false x_anon (d_nodes "c17nodes" "host" "maxconn") /\
  xlower_v true x_anon (d_nodes "C17Nodes" "Host" "maxConn") = xlower_v true x_anon (d_nodes "c17nodes" "host" "maxconn").
Proof. vm_compute. repeat split. discriminate. Qed.

(* ------------------------------------------------------------------ seeded change C17-2: the YAML
   path formats a float64 with the digits of a float32.  [leaves_ok] is exactly the hypothesis it
   breaks, and without it format independence fails *)
Definition rf_f32 (f : fmt) (s : string) : string :=
  match f with
  | FYaml => if String.eqb s "3.141592653589793" then "3.1415927" else rf_go f s
  | _ => rf_go f s
  end.

Theorem yaml_float32_digits_refuted : exists T d,
  fam_fields T = true /\ rep_top d = true /\ float_positions_ok T d = true /\
  leaves_ok rf_go d = true /\ leaves_ok rf_f32 d = false /\
  load_doc rf_f32 T FJson d = Ok (VStruct [VFloat (FDec (mkDec 3141592653589793 (-15)))]) /\
  load_doc rf_f32 T FYaml d = Ok (VStruct [VFloat (FDec (mkDec 31415927 (-7)))]) /\
  load_doc rf_go T FYaml d = load_doc rf_go T FJson d.
Proof.
  exists (FCons "pi" None (TPrim KF64) FNil), (DMap (DMcons "pi" (DFloat "3.141592653589793") DMnil)).
  vm_compute. repeat split.
Qed.

(* ------------------------------------------------------------------ seeded change C17-1: the
   option set shared between calls ([load_history true], ProofsF.v): a call WITHOUT conf.UseEnv()
   after one with it expands the environment *)
From GZ Require Import C17.ProofsF.

Theorem sticky_options_refuted : exists T env calls,
  nth_error (load_history true rf_go T FJson env false calls) 1 = Some (Ok (VStruct [VStr "secret"])) /\
  nth_error (load_history false rf_go T FJson env false calls) 1 = Some (Ok (VStruct [VStr "$C17_A"])).
Proof.
  exists (FCons "dsn" None (TPrim KStr) FNil), [("C17_A", "secret")],
         [(true, DMap (DMcons "dsn" (DStr "x") DMnil)); (false, DMap (DMcons "dsn" (DStr "$C17_A") DMnil))].
  vm_compute. split; reflexivity.
Qed.

(* ------------------------------------------------------------------ seeded change C17-4: ALIASING.
   generateMap parses every number element of a map[string]*number into ONE scratch cell, and
   every entry ends up pointing at it: after decoding, all entries show the value written last.
   The model's values are trees (no sharing is expressible), so the pinned decode is the
   post-processing [share_cells]: in a map all of whose entries are pointers to numbers, every
   entry gets the last value (the real order is Go's map iteration order; any order refutes). *)
Definition is_num_ptr (v : gval) : bool :=
  match v with VPtr (VInt _) | VPtr (VFloat _) => true | _ => false end.

Fixpoint share_cells (v : gval) : gval :=
  match v with
  | VPtr x => VPtr (share_cells x)
  | VSlice l => VSlice (map share_cells l)
  | VStruct l => VStruct (map share_cells l)
  | VMap m =>
    let m' := map (fun kv => (fst kv, share_cells (snd kv))) m in
    if forallb (fun kv => is_num_ptr (snd kv)) m'
    then VMap (match rev m' with
               | (_, lastv) :: _ => map (fun kv => (fst kv, lastv)) m'
               | [] => m'
               end)
    else VMap m'
  | _ => v
  end.

Definition unmarshal_pin4 (fs : fields) (d : option jv) : result gval := rmap share_cells (unmarshal fixed jcfg fs d).

Definition t_limits : fields := FCons "limits" None (TMap (TPtr (TPrim (KInt W0)))) FNil.
Definition j_limits : option jv := Some (JObj [("limits", JObj [("a", JNum "1"); ("b", JNum "2")])]).

(* inside the plain-tag family, both accept, values differ: the "agrees with encoding/json" half fails ... *)
Theorem shared_cell_refuted :
  plain_fields t_limits = true /\ std_ok t_limits j_limits = true /\
  unmarshal_pin4 t_limits j_limits = Ok (VStruct [VMap [("a", VPtr (VInt 2)); ("b", VPtr (VInt 2))]]) /\
  stdjson_decode t_limits j_limits = Ok (VStruct [VMap [("a", VPtr (VInt 1)); ("b", VPtr (VInt 2))]]) /\
  unmarshal fixed jcfg t_limits j_limits = stdjson_decode t_limits j_limits.
Proof. vm_compute. repeat split. Qed.

(* ... and with Go's map order deciding which value survives, so does format independence: the same
   document, entries visited in the other order *)
Theorem shared_cell_order_refuted :
  unmarshal_pin4 t_limits (Some (JObj [("limits", JObj [("b", JNum "2"); ("a", JNum "1")])]))
  = Ok (VStruct [VMap [("b", VPtr (VInt 1)); ("a", VPtr (VInt 1))]]).
Proof. vm_compute. reflexivity. Qed.

Print Assumptions shared_cell_refuted.
(* ------------------------------------------------------------------ seeded change C17-8: the
   converters encode into a POOLED buffer and return its bytes; a conversion that runs between a
   loader's two steps (convert; LoadFromJsonBytes) overwrites them.  [two_step pooled]: loader A's
   two steps with a complete conversion of document B in between; with the pooled buffer, step two
   reads what B left there.  (The code: [pooled = false]; tied by the executors, which keep every
   returned byte slice across later conversions, interleave the steps, and load concurrently.) *)
Definition two_step (pooled : bool) (T : fields) (f : fmt) (dA dB : doc) : result gval :=
  let bytesA := shape rf_go f dA in
  let bytesB := shape rf_go f dB in
  conf_load T (Some (if pooled then match f with FJson => bytesA | _ => bytesB end else bytesA)).

Theorem two_step_is_load : forall T f dA dB, two_step false T f dA dB = load_doc rf_go T f dA.
Proof. reflexivity. Qed.

Theorem pooled_buffer_refuted : exists T dA dB,
  two_step true T FJson dA dB = Ok (VStruct [VStr "A"]) /\
  two_step true T FYaml dA dB = Ok (VStruct [VStr "B"]) /\
  two_step true T FToml dA dB = Ok (VStruct [VStr "B"]) /\
  load_doc rf_go T FYaml dA = Ok (VStruct [VStr "A"]).
Proof.
  exists (FCons "name" None (TPrim KStr) FNil), (DMap (DMcons "name" (DStr "A") DMnil)), (DMap (DMcons "name" (DStr "B") DMnil)).
  vm_compute. repeat split.
Qed.
Print Assumptions pooled_buffer_refuted.

Print Assumptions slice_of_pointers_refuted.
Print Assumptions anonymous_slice_refuted.
Print Assumptions yaml_float32_digits_refuted.
Print Assumptions sticky_options_refuted.

(* ------------------------------------------------------------------ seeded change C17-9: LoadFromJsonBytes
   skips toLowerCaseKeyMap when the text has no upper-case ASCII letter and no non-ASCII byte.  But the pass
   is not the identity on a lower-case document (an empty list becomes a nil []any, see [lc_val]), so the
   lower-case spelling of a document and its mixed-case spelling load differently, and so do the JSON and the
   YAML / TOML renderings of a document whose only capital letter is a float exponent.  [conf_load_pin9] looks
   at the DECODED tree (keys, strings, number texts); the second manifestation of the seed (a JSON key written
   with escapes has no capital letter in the raw text) is below the model's parser hypotheses and is tied by
   the hand-written texts of the corpus only. *)
Definition is_upper_or_wide (c : ascii) : bool :=
  let n := N_of_ascii c in ((65 <=? n) && (n <=? 90) || (128 <=? n))%N.
Fixpoint str_has_upper (s : string) : bool :=
  match s with EmptyString => false | String c r => is_upper_or_wide c || str_has_upper r end.
Fixpoint jv_has_upper (v : jv) {struct v} : bool :=
  match v with
  | JStr s | JNum s | JNat _ s => str_has_upper s
  | JArr l => existsb jv_has_upper l
  | JObj o =>
    (fix go (o : list (string * jv)) : bool :=
       match o with [] => false | (k, x) :: r => str_has_upper k || jv_has_upper x || go r end) o
  | _ => false
  end.

Definition conf_load_pin9 (T : fields) (j : option jv) : result gval :=
  match info_fields T fi_empty with
  | None => Err ETag
  | Some info =>
    match j with
    | Some (JObj o) =>
      unmarshal fixed ccfg (lower_fields T) (Some (JObj (if jv_has_upper (JObj o) then lc_obj info o else o)))
    | _ => Err EDoc
    end
  end.
Definition load_pin9 (T : fields) (f : fmt) (d : doc) : result gval := conf_load_pin9 T (Some (shape rf_go f d)).

Definition t_hosts : fields :=
  FCons "Hosts" None (TSlice (TPrim KStr)) (FCons "Rate" (Some (mkOpts true None None None [] false)) (TPrim KF64) FNil).
Definition d_hosts (k : string) : doc := DMap (DMcons k (DList DLnil) DMnil).
Definition d_hosts_rate (e : string) : doc := DMap (DMcons "hosts" (DList DLnil) (DMcons "rate" (DFloat e) DMnil)).

(* the unmodified loader: both spellings, every format, the same value *)
Theorem lower_case_spelling_fixed : forall f,
  load_doc rf_go t_hosts f (d_hosts "hosts") = load_doc rf_go t_hosts f (d_hosts "hOSTs") /\
  exists x, load_doc rf_go t_hosts f (d_hosts_rate "1E5") = Ok (VStruct [VNil; VFloat x]).
Proof. intro f. destruct f; vm_compute; split; try reflexivity; eexists; reflexivity. Qed.

(* "keys matched case-insensitively" fails: the twin is a type-directed re-casing, and loads differently *)
Theorem skipped_canonicalisation_refuted : forall f,
  keys_distinct t_hosts = true /\ tr_top t_hosts (d_hosts "hosts") (d_hosts "hOSTs") = true /\
  load_pin9 t_hosts f (d_hosts "hosts") <> load_pin9 t_hosts f (d_hosts "hOSTs").
Proof. intro f. destruct f; vm_compute; repeat split; discriminate. Qed.

(* format independence fails: JSON keeps the exponent as written, YAML and TOML re-render the number *)
Theorem skipped_canonicalisation_formats_refuted :
  load_pin9 t_hosts FJson (d_hosts_rate "1E5") <> load_pin9 t_hosts FYaml (d_hosts_rate "1E5") /\
  load_pin9 t_hosts FJson (d_hosts_rate "1E5") <> load_pin9 t_hosts FToml (d_hosts_rate "1E5").
Proof. vm_compute. split; discriminate. Qed.
Print Assumptions skipped_canonicalisation_refuted.
Print Assumptions skipped_canonicalisation_formats_refuted.

(* ------------------------------------------------------------------ seeded change C17-6: toLowerCaseInterface
   returns a list as it is when the field info has no children ("nothing to convert") — but a MAP layer has no
   children either, and struct keys below it stay as written. *)
Fixpoint lc_val_pin6 (v : jv) (i : finfo) {struct v} : jv :=
  match v with
  | JObj o =>
    JObj ((fix go (o : list (string * jv)) : list (string * jv) :=
             match o with
             | [] => []
             | (k, x) :: r =>
               (let lk := lower k in
                match lookup lk (fi_children i) with
                | Some ti => (lk, lc_val_pin6 x ti)
                | None =>
                  match fi_mapf i with
                  | Some mi => (k, lc_val_pin6 x mi)
                  | None => (k, match x with JObj _ => lc_val_pin6 x i | _ => x end)
                  end
                end) :: go r
             end) o)
  | JArr [] => match fi_children i with [] => v | _ => JArr [JNull] end
  | JArr l => match fi_children i with [] => v | _ => JArr (map (fun x => lc_val_pin6 x i) l) end
  | _ => v
  end.

Definition conf_load_pin6 (T : fields) (j : option jv) : result gval :=
  match info_fields T fi_empty with
  | None => Err ETag
  | Some info =>
    match j with
    | Some (JObj o) =>
      unmarshal fixed ccfg (lower_fields T)
                (Some (match lc_val_pin6 (JObj o) info with JObj o' => JObj o' | x => x end))
    | _ => Err EDoc
    end
  end.
Definition load_pin6 (T : fields) (f : fmt) (d : doc) : result gval := conf_load_pin6 T (Some (shape rf_go f d)).

(* Groups []map[string]struct{ Host string } *)
Definition t_groups : fields :=
  FCons "Groups" None (TSlice (TMap (TStruct (FCons "Host" None (TPrim KStr) FNil)))) FNil.
Definition d_groups (h : string) : doc :=
  DMap (DMcons "Groups" (DList (DLcons (DMap (DMcons "Primary" (DMap (DMcons h (DStr "h1") DMnil)) DMnil)) DLnil)) DMnil).

Theorem list_shortcut_refuted : forall f,
  tr_top t_groups (d_groups "host") (d_groups "Host") = true /\
  load_pin6 t_groups f (d_groups "host") = Ok (VStruct [VSlice [VMap [("Primary", VStruct [VStr "h1"])]]]) /\
  load_pin6 t_groups f (d_groups "Host") = Err ENotSet /\
  load_doc rf_go t_groups f (d_groups "Host") = load_doc rf_go t_groups f (d_groups "host").
Proof. intro f. destruct f; vm_compute; repeat split. Qed.

(* ------------------------------------------------------------------ seeded change C17-5: float FIELDS refuse a
   number text with a '+' (the exponent sign encoding/json always writes from 1e21 on): TOML's re-rendering of
   2.5e22 is refused, JSON's own text and YAML's positional digits are accepted.  Pinned at the level of the
   tree handed to the loader (every number text with a '+' is refused). *)
Fixpoint str_has_plus (s : string) : bool :=
  match s with EmptyString => false | String c r => (N_of_ascii c =? 43)%N || str_has_plus r end.
Fixpoint jv_has_plus (v : jv) {struct v} : bool :=
  match v with
  | JNum s => str_has_plus s
  | JArr l => existsb jv_has_plus l
  | JObj o => (fix go (o : list (string * jv)) : bool := match o with [] => false | (_, x) :: r => jv_has_plus x || go r end) o
  | _ => false
  end.
Definition load_pin5 (T : fields) (f : fmt) (d : doc) : result gval :=
  let j := shape rf_go f d in if jv_has_plus j then Err EConv else conf_load T (Some j).

Definition t_limit : fields := FCons "Limit" None (TPrim KF64) FNil.
Definition d_limit : doc := DMap (DMcons "Limit" (DFloat "2.5e22") DMnil).

Theorem exponent_sign_refuted :
  leaves_ok rf_go d_limit = true /\ float_positions_ok t_limit d_limit = true /\
  load_pin5 t_limit FToml d_limit = Err EConv /\
  load_pin5 t_limit FJson d_limit = load_doc rf_go t_limit FJson d_limit /\
  load_pin5 t_limit FYaml d_limit = load_doc rf_go t_limit FYaml d_limit /\
  (exists x, load_doc rf_go t_limit FToml d_limit = Ok (VStruct [VFloat x])).
Proof. vm_compute. repeat split. eexists. reflexivity. Qed.

(* ------------------------------------------------------------------ seeded change C17-7: the JSON path accepts an
   integral float literal for an integer field through float64 with a range test whose upper bound rounds UP to
   2^63: a literal denoting 2^63 is accepted and wraps to -2^63, while YAML / TOML hand over the digits and
   ParseInt reports the range error.  Pinned as a re-rendering of the JSON path ([leaves_ok] fails for it). *)
Definition rf_pin7 (f : fmt) (s : string) : string :=
  match f with
  | FJson => if integral_lit s && (lit_value s =? 2 ^ 63) then "-9223372036854775808" else s
  | _ => rf_go f s
  end.
Definition t_big : fields := FCons "n" None (TPrim (KInt W64)) FNil.
Definition d_big : doc := DMap (DMcons "n" (DFloat "9223372036854775808.0") DMnil).

Theorem float_range_bound_refuted :
  float_positions_ok t_big d_big = true /\ leaves_ok rf_go d_big = true /\ leaves_ok rf_pin7 d_big = false /\
  load_doc rf_pin7 t_big FJson d_big = Ok (VStruct [VInt (- 2 ^ 63)]) /\
  load_doc rf_pin7 t_big FYaml d_big = Err EConv /\ load_doc rf_pin7 t_big FToml d_big = Err EConv /\
  load_doc rf_go t_big FJson d_big = Err EConv.
Proof. vm_compute. repeat split. Qed.
Print Assumptions list_shortcut_refuted.
Print Assumptions exponent_sign_refuted.
Print Assumptions float_range_bound_refuted.

(* ------------------------------------------------------------------ seeded change C17-10: the field info of a
   struct type is kept between loads, and the merge of an embedded struct's section into a NAMED field's info
   extends the kept info in place ([ProofsF.conf_history true]).  Config { Name; Server Limits; Network } with
   Network { Server Listen }: the first load succeeds, every later load of the same type — any format, the same
   document — reports a conflict; without the kept infos all loads agree. *)
From GZ Require Import C17.ProofsF.
Definition t_merged : fields :=
  FCons "Name" None (TPrim KStr)
 (FCons "Server" None (TStruct (FCons "MaxConns" None (TPrim (KInt W0)) FNil))
 (FEmbed false false (FCons "Server" None (TStruct (FCons "Host" None (TPrim KStr) FNil)) FNil) FNil)).
Definition d_merged : doc :=
  DMap (DMcons "Name" (DStr "svc") (DMcons "Server" (DMap (DMcons "Host" (DStr "h") (DMcons "MaxConns" (DInt 100) DMnil))) DMnil)).

Theorem kept_field_info_refuted :
  let v := Ok (VStruct [VStr "svc"; VStruct [VInt 100]; VStruct [VStruct [VStr "h"]]]) in
  conf_history true rf_go [] [(t_merged, FJson, d_merged); (t_merged, FYaml, d_merged); (t_merged, FToml, d_merged)]
    = [v; Err ETag; Err ETag] /\
  conf_history false rf_go [] [(t_merged, FJson, d_merged); (t_merged, FYaml, d_merged); (t_merged, FToml, d_merged)]
    = [v; v; v].
Proof. vm_compute. split; reflexivity. Qed.
Print Assumptions kept_field_info_refuted.
