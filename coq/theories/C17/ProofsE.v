(* C17 — proofs, part E: decimal arithmetic.  Comparison of exact decimals does not depend on
   the representation (mantissa / exponent) of its arguments, so range checks cannot tell a
   float literal from its re-rendering; trailing-zero stripping preserves the value. *)
From Coq Require Import List ZArith Bool String Ascii Lia.
From GZ Require Import C08.Model C17.Model C17.Hyps.
Import ListNotations.
Open Scope Z_scope.

Lemma pow10_pos : forall n, 0 <= n -> 0 < 10 ^ n.
Proof. intros n H. apply Z.pow_pos_nonneg; lia. Qed.

(* scaling both sides to any common exponent below both *)
Lemma dec_cmp_scale : forall a b e0, e0 <= de a -> e0 <= de b ->
  dec_cmp a b = Z.compare (dm a * 10 ^ (de a - e0)) (dm b * 10 ^ (de b - e0)).
Proof.
  intros a b e0 Ha Hb. unfold dec_cmp. set (e := Z.min (de a) (de b)).
  assert (He : e0 <= e) by (unfold e; lia).
  assert (Ea : de a - e0 = (de a - e) + (e - e0)) by lia.
  assert (Eb : de b - e0 = (de b - e) + (e - e0)) by lia.
  rewrite Ea, Eb. rewrite !Z.pow_add_r by (unfold e; lia). rewrite !Z.mul_assoc.
  apply Zmult_compare_compat_r. pose proof (pow10_pos (e - e0)). lia.
Qed.

Lemma dec_eqb_scaled : forall a a' e0, e0 <= de a -> e0 <= de a' -> dec_eqb a a' = true ->
  dm a * 10 ^ (de a - e0) = dm a' * 10 ^ (de a' - e0).
Proof.
  intros a a' e0 H H' E. unfold dec_eqb in E. rewrite (dec_cmp_scale a a' e0 H H') in E.
  destruct (Z.compare _ _) eqn:C; try discriminate. apply Z.compare_eq in C. exact C.
Qed.

Lemma dec_cmp_eq_l : forall a a' b, dec_eqb a a' = true -> dec_cmp a b = dec_cmp a' b.
Proof.
  intros a a' b E. set (e0 := Z.min (de a) (Z.min (de a') (de b))).
  rewrite (dec_cmp_scale a b e0), (dec_cmp_scale a' b e0) by (unfold e0; lia).
  rewrite (dec_eqb_scaled a a' e0) by (auto; unfold e0; lia). reflexivity.
Qed.

Lemma dec_cmp_eq_r : forall a a' b, dec_eqb a a' = true -> dec_cmp b a = dec_cmp b a'.
Proof.
  intros a a' b E. set (e0 := Z.min (de a) (Z.min (de a') (de b))).
  rewrite (dec_cmp_scale b a e0), (dec_cmp_scale b a' e0) by (unfold e0; lia).
  rewrite (dec_eqb_scaled a a' e0) by (auto; unfold e0; lia). reflexivity.
Qed.

(* a range cannot distinguish two representations of one value *)
Lemma in_range_eq : forall r d d', dec_eqb d d' = true -> in_range r d = in_range r d'.
Proof.
  intros r d d' E. unfold in_range, dec_leb, dec_ltb.
  destruct (r_l r) as [l|], (r_r r) as [h|];
    try rewrite (dec_cmp_eq_r d d' l E); try rewrite (dec_cmp_eq_l d d' h E); reflexivity.
Qed.

Lemma check_range_eq : forall vr r f f', fval_eqb f f' = true -> check_range vr r f = check_range vr r f'.
Proof.
  intros vr r f f' E. destruct f, f'; simpl in *; try discriminate; auto. apply in_range_eq. exact E.
Qed.

(* stripping trailing zeros keeps the value m * 10^e *)
Lemma strip_zeros_value : forall n m e m' e', strip_zeros n m e = (m', e') ->
  (m = 0 /\ m' = 0) \/ (e <= e' /\ m = m' * 10 ^ (e' - e)).
Proof.
  induction n as [|n IH]; intros m e m' e' H; simpl in H.
  - inversion H. subst. right. split; [lia|]. rewrite Z.sub_diag. simpl. lia.
  - destruct (m =? 0) eqn:E0.
    + apply Z.eqb_eq in E0. inversion H. subst. left. auto.
    + destruct (m mod 10 =? 0) eqn:E1.
      * apply Z.eqb_eq in E1. apply IH in H. destruct H as [[H1 H2]|[H1 H2]].
        -- exfalso. apply Z.eqb_neq in E0. apply E0. rewrite (Z.div_mod m 10) by lia. lia.
        -- right. split; [lia|].
           replace (e' - e) with (1 + (e' - (e + 1))) by lia. rewrite Z.pow_add_r by lia.
           rewrite (Z.div_mod m 10) at 1 by lia. rewrite E1, H2. simpl (10 ^ 1). lia.
      * inversion H. subst. right. split; [lia|]. rewrite Z.sub_diag. simpl. lia.
Qed.
