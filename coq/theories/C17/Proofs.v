(* C17 — proofs, part A: format independence.
   The unmarshaller gives similar results on the trees the three front ends produce for one
   document, provided the re-rendered float literals behave like the originals ([leaves_ok])
   and no float literal sits at a position where its TEXT matters ([flok_*]). *)
From Coq Require Import List ZArith Bool String Ascii Lia.
From GZ Require Import C08.Model C17.Model C17.Hyps C17.ProofsE.
Import ListNotations.
Open Scope Z_scope.

Scheme ftype_mind17 := Induction for ftype Sort Prop
  with fields_mind17 := Induction for fields Sort Prop.
Combined Scheme ftype_fields_ind17 from ftype_mind17, fields_mind17.

Scheme doc_mind := Induction for doc Sort Prop
  with docs_mind := Induction for docs Sort Prop
  with dmap_mind := Induction for dmap Sort Prop.
Combined Scheme doc_docs_dmap_ind from doc_mind, docs_mind, dmap_mind.

(* ------------------------------------------------------------------ deep equality of decoded values *)

(* deeply equal, floats compared by value (the literal "1.50" and its re-rendering "1.5"
   denote the same float64) *)
Inductive gsim : gval -> gval -> Prop :=
| gs_bool b : gsim (VBool b) (VBool b)
| gs_int z : gsim (VInt z) (VInt z)
| gs_float f g : fval_eqb f g = true -> gsim (VFloat f) (VFloat g)
| gs_str s : gsim (VStr s) (VStr s)
| gs_nil : gsim VNil VNil
| gs_ptr v w : gsim v w -> gsim (VPtr v) (VPtr w)
| gs_slice l l' : Forall2 gsim l l' -> gsim (VSlice l) (VSlice l')
| gs_map m m' : Forall2 (fun a b => fst a = fst b /\ gsim (snd a) (snd b)) m m' -> gsim (VMap m) (VMap m')
| gs_struct l l' : Forall2 gsim l l' -> gsim (VStruct l) (VStruct l').

(* same verdict and, on success, related values *)
Definition rsim {A} (R : A -> A -> Prop) (r r' : result A) : Prop :=
  match r, r' with
  | Ok a, Ok b => R a b
  | Err _, Err _ => True
  | Panic, Panic => True
  | _, _ => False
  end.

Lemma dec_eqb_refl : forall d, dec_eqb d d = true.
Proof. intro d. unfold dec_eqb, dec_cmp. rewrite Z.compare_refl. reflexivity. Qed.

Lemma fval_eqb_refl : forall f, fval_eqb f f = true.
Proof. destruct f; simpl; auto using dec_eqb_refl. destruct neg; reflexivity. Qed.

Fixpoint gsim_refl (v : gval) : gsim v v :=
  match v with
  | VBool b => gs_bool b
  | VInt z => gs_int z
  | VFloat f => gs_float f f (fval_eqb_refl f)
  | VStr s => gs_str s
  | VNil => gs_nil
  | VPtr x => gs_ptr x x (gsim_refl x)
  | VSlice l =>
    gs_slice l l ((fix go (l : list gval) : Forall2 gsim l l :=
                     match l with [] => Forall2_nil _ | x :: r => Forall2_cons x x (gsim_refl x) (go r) end) l)
  | VMap m =>
    gs_map m m ((fix go (m : list (string * gval)) : Forall2 (fun a b => fst a = fst b /\ gsim (snd a) (snd b)) m m :=
                   match m with
                   | [] => Forall2_nil _
                   | x :: r => Forall2_cons x x (conj eq_refl (gsim_refl (snd x))) (go r)
                   end) m)
  | VStruct l =>
    gs_struct l l ((fix go (l : list gval) : Forall2 gsim l l :=
                      match l with [] => Forall2_nil _ | x :: r => Forall2_cons x x (gsim_refl x) (go r) end) l)
  end.

Lemma Forall2_gsim_refl : forall l, Forall2 gsim l l.
Proof. induction l; constructor; auto using gsim_refl. Qed.

Lemma rsim_refl : forall (r : result gval), rsim gsim r r.
Proof. destruct r; simpl; auto using gsim_refl. Qed.

Lemma rsim_refl_list : forall (r : result (list gval)), rsim (Forall2 gsim) r r.
Proof. destruct r; simpl; auto using Forall2_gsim_refl. Qed.

Lemma rsim_bind : forall {A B} (R : A -> A -> Prop) (S : B -> B -> Prop) r r' (k k' : A -> result B),
  rsim R r r' -> (forall a b, R a b -> rsim S (k a) (k' b)) -> rsim S (bind r k) (bind r' k').
Proof.
  intros A B R S r r' k k' H Hk. destruct r, r'; simpl in *; try contradiction; auto.
Qed.

Lemma rsim_rmap : forall {A B} (R : A -> A -> Prop) (S : B -> B -> Prop) (g : A -> B) r r',
  rsim R r r' -> (forall a b, R a b -> S (g a) (g b)) -> rsim S (rmap g r) (rmap g r').
Proof.
  intros A B R S g r r' H Hg. unfold rmap. apply (rsim_bind R S r r' _ _ H). intros a b Hab. simpl. auto.
Qed.

(* a computation that never succeeds and never panics is an error *)
Definition fails {A} (r : result A) : Prop := exists e, r = Err e.

Lemma rsim_fails : forall {A} (R : A -> A -> Prop) (r r' : result A), fails r -> fails r' -> rsim R r r'.
Proof. intros A R r r' [e H] [e' H']. subst. simpl. exact I. Qed.

Lemma fails_bind_l : forall {A B} (r : result A) (k : A -> result B), fails r -> fails (bind r k).
Proof. intros A B r k [e H]. subst. simpl. exists e. reflexivity. Qed.

Lemma fails_bind_unit : forall {B} (r : result unit) (k : unit -> result B),
  r <> Panic -> fails (k tt) -> fails (bind r k).
Proof.
  intros B r k Hp Hk. destruct r as [[]|e|]; simpl; auto. - exists e. reflexivity. - contradiction.
Qed.

Lemma guard_no_panic : forall b e, guard b e <> Panic.
Proof. destruct b; simpl; discriminate. Qed.

Lemma json_number_range_no_panic : forall vr ro s, json_number_range vr ro s <> Panic.
Proof.
  intros vr ro s. unfold json_number_range. destruct (ro_range ro); try discriminate.
  destruct (parse_float false s); simpl; try discriminate. apply guard_no_panic.
Qed.

(* ------------------------------------------------------------------ one float literal, two renderings *)

Lemma rf_ok_lit_inv : forall s s', rf_ok_lit s s' = true ->
  float_lit s = true /\
  fopt_sim (parse_float false s') (parse_float false s) = true /\
  fopt_sim (parse_float true s') (parse_float true s) = true /\
  fopt_sim (pf32_field s') (pf32_field s) = true /\
  (integral_lit s = false -> int_text s' = false) /\
  (forall k, In k int_kinds -> conv_int k s' = int_of_lit k s).
Proof.
  intros s s' H. unfold rf_ok_lit in H.
  apply andb_prop in H. destruct H as [H H6].
  apply andb_prop in H. destruct H as [H H5]. apply andb_prop in H. destruct H as [H H4].
  apply andb_prop in H. destruct H as [H H3]. apply andb_prop in H. destruct H as [H1 H2].
  repeat split; auto.
  - intro Hi. rewrite Hi in H5. simpl in H5. destruct (int_text s'); simpl in H5; congruence.
  - intros k Hk. rewrite forallb_forall in H6. specialize (H6 k Hk). unfold oz_eqb in H6.
    destruct (conv_int k s') as [x|], (int_of_lit k s) as [y|]; try discriminate; auto.
    apply Z.eqb_eq in H6. congruence.
Qed.

Lemma int_kinds_all : forall k, match k with KInt _ | KUint _ => In k int_kinds | _ => True end.
Proof. intros [|w|w| | |]; try exact I; destruct w; simpl; tauto. Qed.

(* an integer position that the side condition lets through: the re-rendered text does not convert *)
Lemma lit_conv_none : forall k s s', rf_ok_lit s s' = true ->
  match k with KInt _ | KUint _ => int_of_lit k s = None -> conv_string k s' = None | _ => True end.
Proof.
  intros k s s' Hok. pose proof (rf_ok_lit_inv s s' Hok) as [_ [_ [_ [_ [_ H]]]]].
  pose proof (int_kinds_all k) as Hk.
  destruct k as [|w|w| | |]; auto; intro Hn; specialize (H _ Hk); rewrite Hn in H; simpl in H; simpl; rewrite H; reflexivity.
Qed.

Lemma lit_float : forall s s', rf_ok_lit s s' = true -> float_lit s = true.
Proof. intros s s' H. apply rf_ok_lit_inv in H. tauto. Qed.
Lemma lit_pf64 : forall s s', rf_ok_lit s s' = true -> fopt_sim (parse_float false s') (parse_float false s) = true.
Proof. intros s s' H. apply rf_ok_lit_inv in H. tauto. Qed.
Lemma lit_pf32 : forall s s', rf_ok_lit s s' = true -> fopt_sim (parse_float true s') (parse_float true s) = true.
Proof. intros s s' H. apply rf_ok_lit_inv in H. tauto. Qed.
Lemma lit_pf32f : forall s s', rf_ok_lit s s' = true -> fopt_sim (pf32_field s') (pf32_field s) = true.
Proof. intros s s' H. apply rf_ok_lit_inv in H. tauto. Qed.
Lemma lit_int : forall s s', rf_ok_lit s s' = true -> integral_lit s = false -> int_text s' = false.
Proof. intros s s' H. apply rf_ok_lit_inv in H. tauto. Qed.

(* a float literal is not an integer text *)
Lemma float_lit_not_int : forall s s', rf_ok_lit s s' = true -> int_text s = false.
Proof.
  intros s s' Hok. pose proof (lit_float s s' Hok) as H. unfold float_lit in H. unfold int_text, classify.
  destruct (scan_num s) as [y|]; try discriminate. destruct (syn_is_int y); simpl in *; congruence.
Qed.

Lemma int_text_conv_none : forall k t, int_text t = false ->
  match k with KInt _ | KUint _ => conv_string k t = None | _ => True end.
Proof.
  intros k t H. unfold int_text in H. destruct k; auto; simpl; unfold parse_int, parse_uint;
    destruct (classify t) as [y| | |]; auto; rewrite H; reflexivity.
Qed.

Lemma fopt_sim_rsim : forall a b, fopt_sim a b = true ->
  rsim gsim (of_opt (option_map VFloat a) EConv) (of_opt (option_map VFloat b) EConv).
Proof.
  intros [x|] [y|] H; simpl in *; try discriminate; auto. constructor. exact H.
Qed.

(* validateJsonNumberRange gives the same verdict on a literal and on its re-rendering *)
Lemma range_sim : forall ro s s', rf_ok_lit s s' = true ->
  rsim (fun _ _ : unit => True) (json_number_range fixed ro s') (json_number_range fixed ro s).
Proof.
  intros ro s s' Hok. unfold json_number_range. destruct (ro_range ro) as [r|]; [|simpl; exact I].
  pose proof (lit_pf64 s s' Hok) as H.
  destruct (parse_float false s') as [x|], (parse_float false s) as [y|]; simpl in *; try discriminate; auto.
  rewrite (check_range_eq fixed r x y H). destruct (check_range fixed r y); simpl; exact I.
Qed.

(* field position: processFieldPrimitiveWithJSONNumber *)
Lemma prim_json_number_sim : forall k ro s s',
  rf_ok_lit s s' = true -> float_at_field k s = true ->
  (match k with KF32 | KF64 => ro_options ro = [] | _ => True end) ->
  rsim gsim (prim_json_number fixed k ro s') (prim_json_number fixed k ro s).
Proof.
  intros k ro s s' Hok Hat Hro. unfold prim_json_number.
  destruct k as [|w|w| | |].
  - (* bool *) apply rsim_fails;
      (apply fails_bind_unit; [apply json_number_range_no_panic|];
       apply fails_bind_unit; [apply guard_no_panic|]; exists EType; reflexivity).
  - (* int *)
    simpl in Hat.
    assert (H1 : conv_string (KInt w) s' = None)
      by (apply (lit_conv_none (KInt w) s s' Hok); destruct (int_of_lit (KInt w) s); [discriminate | reflexivity]).
    pose proof (int_text_conv_none (KInt w) s (float_lit_not_int s s' Hok)) as H2.
    cbv beta iota in H1, H2.
    apply rsim_fails;
      (apply fails_bind_unit; [apply json_number_range_no_panic|];
       apply fails_bind_unit; [apply guard_no_panic|]).
    + rewrite H1. exists EConv. reflexivity.
    + rewrite H2. exists EConv. reflexivity.
  - (* uint *)
    simpl in Hat.
    assert (H1 : conv_string (KUint w) s' = None)
      by (apply (lit_conv_none (KUint w) s s' Hok); destruct (int_of_lit (KUint w) s); [discriminate | reflexivity]).
    pose proof (int_text_conv_none (KUint w) s (float_lit_not_int s s' Hok)) as H2.
    cbv beta iota in H1, H2.
    apply rsim_fails;
      (apply fails_bind_unit; [apply json_number_range_no_panic|];
       apply fails_bind_unit; [apply guard_no_panic|]).
    + rewrite H1. exists EConv. reflexivity.
    + rewrite H2. exists EConv. reflexivity.
  - (* float32 *)
    eapply rsim_bind with (R := fun _ _ : unit => True); [apply (range_sim ro s s' Hok)|].
    intros [] [] _. unfold chk_options. rewrite Hro. simpl.
    pose proof (lit_pf32f s s' Hok) as H. unfold pf32_field in H.
    destruct (parse_float false s') as [x|], (parse_float false s) as [y|]; simpl in *;
      try (destruct (overflow32 x)); try (destruct (overflow32 y)); simpl in *; try discriminate; auto.
    constructor. exact H.
  - (* float64 *)
    eapply rsim_bind with (R := fun _ _ : unit => True); [apply (range_sim ro s s' Hok)|].
    intros [] [] _. unfold chk_options. rewrite Hro. simpl.
    pose proof (lit_pf64 s s' Hok) as H.
    destruct (parse_float false s') as [x|], (parse_float false s) as [y|]; simpl in *; try discriminate; auto.
    constructor. exact H.
  - (* string *) apply rsim_fails;
      (apply fails_bind_unit; [apply json_number_range_no_panic|];
       apply fails_bind_unit; [apply guard_no_panic|]; exists EType; reflexivity).
Qed.

(* element position: fillSliceValue / generateMap *)
Lemma prim_elem_sim : forall inmap k s s',
  rf_ok_lit s s' = true -> float_at_elem k s = true ->
  rsim gsim (prim_elem inmap k (JNum s')) (prim_elem inmap k (JNum s)).
Proof.
  intros inmap k s s' Hok Hat. unfold prim_elem.
  destruct k as [|w|w| | |]; simpl in Hat; try discriminate.
  - assert (H1 : conv_string (KInt w) s' = None)
      by (apply (lit_conv_none (KInt w) s s' Hok); destruct (int_of_lit (KInt w) s); [discriminate | reflexivity]).
    pose proof (int_text_conv_none (KInt w) s (float_lit_not_int s s' Hok)) as H2.
    cbv beta iota in H1, H2. rewrite H1, H2. simpl. exact I.
  - assert (H1 : conv_string (KUint w) s' = None)
      by (apply (lit_conv_none (KUint w) s s' Hok); destruct (int_of_lit (KUint w) s); [discriminate | reflexivity]).
    pose proof (int_text_conv_none (KUint w) s (float_lit_not_int s s' Hok)) as H2.
    cbv beta iota in H1, H2. rewrite H1, H2. simpl. exact I.
  - simpl. apply fopt_sim_rsim. apply (lit_pf32 s s' Hok).
  - simpl. apply fopt_sim_rsim. apply (lit_pf64 s s' Hok).
Qed.

(* ------------------------------------------------------------------ shapes of one document *)

Section Shapes.
Variable rf : fmt -> string -> string.

Lemma has_shape : forall g k m,
  has k (shape_map rf g m) = match dlookup k m with Some _ => true | None => false end.
Proof.
  intros g k m. unfold has. induction m as [|k' d r IH]; simpl; auto.
  destruct (String.eqb k k'); auto.
Qed.

Lemma lookup_shape : forall g k m,
  lookup k (shape_map rf g m) = option_map (shape rf g) (dlookup k m).
Proof.
  intros g k m. induction m as [|k' d r IH]; simpl; auto.
  destruct (String.eqb k k'); auto.
Qed.

Lemma resolve_shape : forall vr c key o g g' m,
  resolve vr c key o (shape_map rf g m) = resolve vr c key o (shape_map rf g' m).
Proof.
  intros. unfold resolve. destruct o as [o'|]; auto. destruct (o_optional o'); auto.
  destruct (o_dep o') as [[neg dep]|]; auto. rewrite !(has_shape g), !(has_shape g'). reflexivity.
Qed.

Lemma leaves_lookup : forall k m x,
  leaves_ok_map rf m = true -> dlookup k m = Some x -> leaves_ok rf x = true.
Proof.
  intros k m x. induction m as [|k' d r IH]; simpl; try discriminate.
  intros H. apply andb_prop in H. destruct H as [H1 H2].
  destruct (String.eqb k k'); intro E; [inversion E; subst; auto | auto].
Qed.

Lemma shape_not_null : forall g d, leaves_ok rf d = true -> is_null (shape rf g d) = false.
Proof. intros g d H. destruct d; simpl in *; try discriminate; reflexivity. Qed.

Lemma shape_list_cons : forall g d r, shape_list rf g (DLcons d r) = shape rf g d :: shape_list rf g r.
Proof. reflexivity. Qed.
Lemma shape_map_cons : forall g k d r, shape_map rf g (DMcons k d r) = (k, shape rf g d) :: shape_map rf g r.
Proof. reflexivity. Qed.
Lemma leaves_list_cons : forall d r, leaves_ok_list rf (DLcons d r) = leaves_ok rf d && leaves_ok_list rf r.
Proof. reflexivity. Qed.
Lemma leaves_map_cons : forall k d r, leaves_ok_map rf (DMcons k d r) = leaves_ok rf d && leaves_ok_map rf r.
Proof. reflexivity. Qed.

Lemma nonnull_match : forall {A} (v : jv) (a : A) (F : jv -> A),
  is_null v = false -> match v with JNull => a | _ => F v end = F v.
Proof. intros A v a F H. destruct v; simpl in H; try discriminate; reflexivity. Qed.

Lemma field_input_ccfg : forall t key obj, field_input ccfg t key obj = lookup key obj.
Proof. intros. unfold field_input, from_array. simpl. destruct (lookup key obj); reflexivity. Qed.

(* the two unmarshaller configurations of interest: conf's (canonical keys) and
   mapping.UnmarshalJsonBytes' (exact keys); [ccfg = kcfg true] and [jcfg = kcfg false] by computation *)
Definition kcfg (canon : bool) : ucfg := mkCfg false false canon.

Lemma field_input_kcfg : forall canon t key obj, field_input (kcfg canon) t key obj = lookup key obj.
Proof. intros. unfold field_input, from_array. simpl. destruct (lookup key obj); reflexivity. Qed.

End Shapes.

Definition ro_fam (t : ftype) (ro : ropts) : Prop :=
  ro_string ro = false /\ (is_float_deref t = true -> ro_options ro = []).

Lemma resolve_fam : forall {A} c key o (obj : list (string * A)) ro t,
  resolve fixed c key o obj = Ok ro -> fam_opts t o = true -> ro_fam t ro.
Proof.
  intros A c key o obj ro t H Hf. unfold resolve in H. destruct o as [o'|].
  - assert (Hw : forall b, ro_fam t (with_optional fixed o' b)).
    { intro b. unfold ro_fam, with_optional. simpl. simpl in Hf. apply andb_prop in Hf. destruct Hf as [Hs Hfl].
      split. - apply negb_true_iff in Hs. exact Hs.
      - intro Hd. rewrite Hd in Hfl. destruct (o_options o'); try discriminate. auto. }
    destruct (o_optional o').
    + destruct (o_dep o') as [[neg dep]|].
      * destruct (String.eqb dep "").
        -- destruct neg; inversion H; subst; apply Hw.
        -- destruct neg.
           ++ destruct (Bool.eqb _ _); inversion H; subst; apply Hw.
           ++ destruct (Bool.eqb _ _); inversion H; subst; apply Hw.
      * inversion H; subst; apply Hw.
    + inversion H; subst; apply Hw.
  - inversion H; subst. unfold ro_fam, no_ropts. simpl. auto.
Qed.

(* ------------------------------------------------------------------ the unmarshaller on two renderings *)

Section Main.
Variable rf : fmt -> string -> string.
Variable f : fmt.
Hypothesis Hf : f <> FJson.

Lemma leaf_lit : forall s, leaves_ok rf (DFloat s) = true ->
  rf FJson s = s /\ rf_ok_lit s (rf f s) = true.
Proof.
  intros s H. simpl in H. apply andb_prop in H. destruct H as [H H3]. apply andb_prop in H. destruct H as [H1 H2].
  apply String.eqb_eq in H1. split; auto. clear H1. revert H2 H3 Hf. generalize f. intros g H2 H3 Hg.
  destruct g; auto; exfalso; apply Hg; reflexivity.
Qed.

Notation S := (shape rf f).
Notation J := (shape rf FJson).

Definition P_type (canon : bool) (t : ftype) : Prop :=
  fam_type t = true ->
  (forall ro d, ro_fam t ro -> leaves_ok rf d = true -> flok_present t d = true ->
     rsim gsim (um_present fixed (kcfg canon) t ro (S d)) (um_present fixed (kcfg canon) t ro (J d))) /\
  (forall inmap d, leaves_ok rf d = true -> flok_elem t d = true ->
     rsim gsim (um_elem fixed (kcfg canon) inmap t (S d)) (um_elem fixed (kcfg canon) inmap t (J d))).

Definition psim (a b : list gval * bool) : Prop := Forall2 gsim (fst a) (fst b) /\ snd a = snd b.

Definition P_fields (canon : bool) (fs : fields) : Prop :=
  fam_fields fs = true ->
  forall m, leaves_ok_map rf m = true -> flok_fields fs m = true ->
    rsim (Forall2 gsim) (um_fields fixed (kcfg canon) fs (shape_map rf f m)) (um_fields fixed (kcfg canon) fs (shape_map rf FJson m)) /\
    forall filled,
      rsim psim (um_opt_members fixed (kcfg canon) fs (shape_map rf f m) filled)
                (um_opt_members fixed (kcfg canon) fs (shape_map rf FJson m) filled).

Lemma any_present_shape : forall fs g g' m,
  any_present fs (shape_map rf g m) = any_present fs (shape_map rf g' m).
Proof.
  induction fs as [|key o t rest IH|opt ptr inner IHi rest IHr]; intros g g' m; simpl; auto.
  rewrite (has_shape rf g), (has_shape rf g'), (IH g g' m). reflexivity.
Qed.

(* slices *)
Lemma slice_sim : forall (F : jv -> result gval) (ok : doc -> bool) z,
  (forall d, leaves_ok rf d = true -> ok d = true -> rsim gsim (F (S d)) (F (J d))) ->
  forall l, leaves_ok_list rf l = true ->
    (fix go (l : docs) : bool := match l with DLnil => true | DLcons x r => ok x && go r end) l = true ->
    rsim gsim (slice_with F z (shape_list rf f l)) (slice_with F z (shape_list rf FJson l)).
Proof.
  intros F ok z HF l Hl Hgo.
  assert (Hm : rsim (Forall2 gsim)
                 (mapM (fun v => match v with JNull => Ok z | _ => F v end) (shape_list rf f l))
                 (mapM (fun v => match v with JNull => Ok z | _ => F v end) (shape_list rf FJson l))).
  { induction l as [|d r IH].
    - simpl. constructor.
    - rewrite leaves_list_cons in Hl. apply andb_prop in Hl. destruct Hl as [Hd Hr].
      apply andb_prop in Hgo. destruct Hgo as [Hod Hor].
      rewrite !shape_list_cons. cbn [mapM].
      rewrite (nonnull_match (S d) (Ok z) F (shape_not_null rf f d Hd)).
      rewrite (nonnull_match (J d) (Ok z) F (shape_not_null rf FJson d Hd)).
      eapply rsim_bind with (R := gsim).
      + apply HF; auto.
      + intros a b Hab. eapply rsim_bind with (R := Forall2 gsim). * apply IH; auto.
        * intros xs ys Hxy. simpl. constructor; auto. }
  destruct l as [|d r].
  - simpl. constructor. constructor.
  - rewrite leaves_list_cons in Hl. apply andb_prop in Hl. destruct Hl as [Hd Hr].
    rewrite !shape_list_cons in *. unfold slice_with.
    eapply rsim_bind with (R := Forall2 gsim). + exact Hm.
    + intros xs ys Hxy. cbn [forallb].
      rewrite (shape_not_null rf f d Hd), (shape_not_null rf FJson d Hd). simpl. constructor. exact Hxy.
Qed.

(* maps *)
Lemma map_sim : forall (F : jv -> result gval) (ok : doc -> bool),
  (forall d, leaves_ok rf d = true -> ok d = true -> rsim gsim (F (S d)) (F (J d))) ->
  forall m, leaves_ok_map rf m = true ->
    (fix go (m : dmap) : bool := match m with DMnil => true | DMcons _ x r => ok x && go r end) m = true ->
    rsim gsim (map_with F (shape_map rf f m)) (map_with F (shape_map rf FJson m)).
Proof.
  intros F ok HF m Hl Hgo. unfold map_with.
  eapply rsim_bind with (R := Forall2 (fun a b : string * gval => fst a = fst b /\ gsim (snd a) (snd b))).
  - induction m as [|k d r IH].
    + simpl. constructor.
    + rewrite leaves_map_cons in Hl. apply andb_prop in Hl. destruct Hl as [Hd Hr].
      apply andb_prop in Hgo. destruct Hgo as [Hod Hor].
      rewrite !shape_map_cons. cbn [mapM fst snd].
      eapply rsim_bind with (R := fun a b : string * gval => fst a = fst b /\ gsim (snd a) (snd b)).
      * eapply rsim_bind with (R := gsim). -- apply HF; auto. -- intros a b Hab. simpl. auto.
      * intros a b Hab. eapply rsim_bind. -- apply IH; auto. -- intros xs ys Hxy. simpl. constructor; auto.
  - intros xs ys Hxy. simpl. constructor. exact Hxy.
Qed.

Lemma main_mutual_cfg : forall canon, (forall t, P_type canon t) /\ (forall fs, P_fields canon fs).
Proof.
  intro canon. apply ftype_fields_ind17.
  - (* TPrim *)
    intros k _. split.
    + intros ro d [Hs Hfl] Hl Hat. simpl. unfold prim_present. rewrite Hs. simpl.
      destruct d; simpl in *; try discriminate; try apply rsim_refl; try exact I; try apply gsim_refl.
      destruct (leaf_lit s Hl) as [E Hok]. rewrite E. unfold prim_plain.
      apply prim_json_number_sim; auto.
      destruct k; auto; apply Hfl; reflexivity.
    + intros inmap d Hl Hat. simpl.
      destruct d; simpl in *; try discriminate; try apply rsim_refl; try exact I; try apply gsim_refl.
      destruct (leaf_lit s Hl) as [E Hok]. rewrite E. apply (prim_elem_sim inmap k s (rf f s)); auto.
  - (* TPtr *)
    intros t IH Hfam. simpl in Hfam. destruct (IH Hfam) as [IHp IHe]. split.
    + intros ro d Hro Hl Hat. simpl. apply rsim_rmap with (R := gsim).
      * apply IHp; auto.
      * intros a b Hab. constructor. exact Hab.
    + intros inmap d Hl Hat. simpl. eapply rsim_bind with (R := gsim).
      * apply IHe; auto.
      * intros a b Hab. simpl. rewrite andb_false_r. simpl. constructor. exact Hab.
  - (* TSlice *)
    intros e IH Hfam. simpl in Hfam. destruct (IH Hfam) as [_ IHe]. split.
    + intros ro d _ Hl Hat. simpl.
      destruct d; simpl in *; try discriminate; try apply rsim_refl; try exact I; try apply gsim_refl.
      eapply slice_sim with (ok := flok_elem e); eauto.
    + intros inmap d Hl Hat. simpl.
      destruct d; simpl in *; try discriminate; try apply rsim_refl; try exact I; try apply gsim_refl.
      eapply slice_sim with (ok := flok_elem e); eauto.
  - (* TMap *)
    intros e IH Hfam. simpl in Hfam. destruct (IH Hfam) as [_ IHe]. split.
    + intros ro d _ Hl Hat. simpl.
      destruct d; simpl in *; try discriminate; try apply rsim_refl; try exact I; try apply gsim_refl.
      eapply map_sim with (ok := flok_elem e); eauto.
    + intros inmap d Hl Hat. simpl.
      destruct d; simpl in *; try discriminate; try apply rsim_refl; try exact I; try apply gsim_refl.
      eapply map_sim with (ok := flok_elem e); eauto.
  - (* TStruct *)
    intros fs IH Hfam. simpl in Hfam. specialize (IH Hfam). split.
    + intros ro d _ Hl Hat. simpl.
      destruct d; simpl in *; try discriminate; try apply rsim_refl; try exact I; try apply gsim_refl.
      apply rsim_rmap with (R := Forall2 gsim). * apply (IH m); auto. * intros a b Hab. constructor. exact Hab.
    + intros inmap d Hl Hat. simpl.
      destruct d; simpl in *; try discriminate; try apply rsim_refl; try exact I; try apply gsim_refl.
      apply rsim_rmap with (R := Forall2 gsim). * apply (IH m); auto. * intros a b Hab. constructor. exact Hab.
  - (* FNil *)
    intros _ m _ _. split; [simpl; constructor|]. intro filled. simpl. split; [constructor | reflexivity].
  - (* FCons *)
    intros key o t IHt rest IHr Hfam m Hl Hat.
    simpl in Hfam. apply andb_prop in Hfam. destruct Hfam as [Hfam Hfr]. apply andb_prop in Hfam. destruct Hfam as [Hfo Hft].
    simpl in Hat. apply andb_prop in Hat. destruct Hat as [Hat1 Hat2].
    destruct (IHt Hft) as [IHp _]. destruct (IHr Hfr m Hl Hat2) as [IHr1 IHr2].
    split.
    + simpl um_fields. eapply rsim_bind with (R := gsim).
      * rewrite !field_input_kcfg, !lookup_shape, (resolve_shape rf fixed canon key o f FJson m).
        destruct (opts_ok o); simpl; [|exact I].
        destruct (resolve fixed canon key o (shape_map rf FJson m)) as [ro|e|] eqn:Hres; simpl; try exact I.
        pose proof (resolve_fam _ _ _ _ _ t Hres Hfo) as Hro.
        destruct (dlookup key m) as [x|] eqn:Hlk; simpl.
        -- pose proof (leaves_lookup rf key m x Hl Hlk) as Hlx.
           destruct x; simpl in Hlx; try discriminate; simpl;
             try apply rsim_refl.
           ++ apply (IHp ro (DFloat s) Hro Hlx Hat1).
           ++ apply (IHp ro (DList l) Hro Hlx Hat1).
           ++ apply (IHp ro (DMap m0) Hro Hlx Hat1).
        -- apply rsim_refl.
      * intros a b Hab. eapply rsim_bind with (R := Forall2 gsim).
        -- exact IHr1.
        -- intros xs ys Hxy. simpl. constructor; auto.
    + intro filled. simpl um_opt_members.
      eapply rsim_bind with (R := fun a b : gval * bool => gsim (fst a) (fst b) /\ snd a = snd b).
      * rewrite !field_input_kcfg, !lookup_shape, (resolve_shape rf fixed canon key o f FJson m), !(has_shape rf).
        destruct (opts_ok o); simpl; [|exact I].
        destruct (resolve fixed canon key o (shape_map rf FJson m)) as [ro|e|] eqn:Hres; simpl; try exact I.
        pose proof (resolve_fam _ _ _ _ _ t Hres Hfo) as Hro.
        eapply rsim_bind with (R := gsim).
        -- destruct (dlookup key m) as [x|] eqn:Hlk; simpl.
           ++ pose proof (leaves_lookup rf key m x Hl Hlk) as Hlx.
              destruct x; simpl in Hlx; try discriminate; simpl;
                try apply rsim_refl.
              ** apply (IHp ro (DFloat s) Hro Hlx Hat1).
              ** apply (IHp ro (DList l) Hro Hlx Hat1).
              ** apply (IHp ro (DMap m0) Hro Hlx Hat1).
           ++ apply rsim_refl.
        -- intros a b Hab. simpl. split; auto.
      * intros a b [Hab1 Hab2]. eapply rsim_bind with (R := psim).
        -- apply IHr2.
        -- intros xs ys [Hxy1 Hxy2]. unfold psim. simpl. split; [constructor; auto | rewrite Hab2, Hxy2; reflexivity].
  - (* FEmbed *)
    intros opt ptr inner IHi rest IHr Hfam m Hl Hat.
    simpl in Hfam. apply andb_prop in Hfam. destruct Hfam as [Hfi Hfr].
    simpl in Hat. apply andb_prop in Hat. destruct Hat as [Hat1 Hat2].
    destruct (IHi Hfi m Hl Hat1) as [IHi1 IHi2]. destruct (IHr Hfr m Hl Hat2) as [IHr1 IHr2].
    split.
    + simpl um_fields. eapply rsim_bind with (R := gsim).
      * destruct opt.
        -- rewrite (any_present_shape inner f FJson m).
           eapply rsim_bind with (R := psim). ++ apply IHi2.
           ++ intros a b [Hab1 Hab2]. rewrite Hab2.
              destruct (negb (any_present inner (shape_map rf FJson m)) || snd b); simpl; [|exact I].
              destruct ptr; [destruct (any_present inner (shape_map rf FJson m))|]; repeat constructor; exact Hab1.
        -- eapply rsim_bind with (R := Forall2 gsim). ++ exact IHi1.
           ++ intros xs ys Hxy. simpl. destruct ptr; repeat constructor; exact Hxy.
      * intros a b Hab. eapply rsim_bind with (R := Forall2 gsim).
        -- exact IHr1.
        -- intros xs ys Hxy. simpl. constructor; auto.
    + intro filled. simpl um_opt_members. eapply rsim_bind with (R := psim).
      * apply IHr2.
      * intros xs ys [Hxy1 Hxy2]. unfold psim. simpl. split; [constructor; auto using gsim_refl | rewrite Hxy2; reflexivity].
Qed.

Lemma main_mutual : (forall t, P_type true t) /\ (forall fs, P_fields true fs).
Proof. exact (main_mutual_cfg true). Qed.

End Main.

(* ------------------------------------------------------------------ lower-casing commutes with the front ends *)

Lemma lc_val_obj : forall o i, lc_val (JObj o) i = JObj (lc_obj i o).
Proof.
  intros o i. unfold lc_obj. induction o as [|[k x] r IH]; [reflexivity|].
  simpl in *. inversion IH as [IH']. rewrite IH'. reflexivity.
Qed.

Section Commute.
Variable rf : fmt -> string -> string.
Variable g : fmt.

Lemma lc_commute :
  (forall d i, lc_val (shape rf g d) i = shape rf g (lc_doc d i)) /\
  (forall l i, map (fun x => lc_val x i) (shape_list rf g l) = shape_list rf g (lc_docs l i)) /\
  (forall m i, lc_obj i (shape_map rf g m) = shape_map rf g (lc_dmap m i)).
Proof.
  apply doc_docs_dmap_ind.
  - intro i. destruct g; reflexivity.
  - reflexivity.
  - reflexivity.
  - reflexivity.
  - reflexivity.
  - (* DList *)
    intros l IH i. destruct l as [|d r]; [reflexivity|].
    specialize (IH i). rewrite shape_list_cons in IH.
    change (shape rf g (DList (DLcons d r))) with (JArr (shape rf g d :: shape_list rf g r)).
    change (lc_doc (DList (DLcons d r)) i) with (DList (lc_docs (DLcons d r) i)).
    change (shape rf g (DList (lc_docs (DLcons d r) i))) with (JArr (shape_list rf g (lc_docs (DLcons d r) i))).
    rewrite <- IH. reflexivity.
  - (* DMap *)
    intros m IH i.
    change (shape rf g (DMap m)) with (JObj (shape_map rf g m)).
    rewrite lc_val_obj, IH. reflexivity.
  - reflexivity.
  - reflexivity.
  - (* DLcons *)
    intros d IHd l IHl i. rewrite shape_list_cons. cbn [map]. rewrite IHd, IHl. reflexivity.
  - reflexivity.
  - (* DMcons *)
    intros k d IHd m IHm i. rewrite shape_map_cons. unfold lc_obj in *. cbn [map]. rewrite IHm.
    unfold lc_entry. cbn [lc_dmap].
    destruct (lookup (lower k) (fi_children i)) as [ti|].
    + rewrite IHd. reflexivity.
    + destruct (fi_mapf i) as [mi|].
      * rewrite IHd. reflexivity.
      * destruct d as [| | | | | |mm|]; try reflexivity; try (destruct g; reflexivity).
        rewrite shape_map_cons. rewrite <- (IHd i). reflexivity.
Qed.

Lemma leaves_lc :
  (forall d i, leaves_ok rf d = true -> leaves_ok rf (lc_doc d i) = true) /\
  (forall l i, leaves_ok_list rf l = true -> leaves_ok_list rf (lc_docs l i) = true) /\
  (forall m i, leaves_ok_map rf m = true -> leaves_ok_map rf (lc_dmap m i) = true).
Proof.
  apply doc_docs_dmap_ind; try (intros; assumption); try reflexivity.
  - intros l IH i H. destruct l as [|d r]; [reflexivity|]. apply (IH i). exact H.
  - intros m IH i H. apply (IH i). exact H.
  - intros d IHd l IHl i H. rewrite leaves_list_cons in H. apply andb_prop in H. destruct H as [H1 H2].
    cbn [lc_docs]. rewrite leaves_list_cons. rewrite (IHd i H1), (IHl i H2). reflexivity.
  - intros k d IHd m IHm i H. rewrite leaves_map_cons in H. apply andb_prop in H. destruct H as [H1 H2].
    cbn [lc_dmap].
    destruct (lookup (lower k) (fi_children i)) as [ti|]; [|destruct (fi_mapf i) as [mi|]];
      rewrite leaves_map_cons; rewrite (IHm i H2).
    + rewrite (IHd ti H1). reflexivity.
    + rewrite (IHd mi H1). reflexivity.
    + destruct d; try (rewrite H1; reflexivity). rewrite (IHd i H1). reflexivity.
Qed.
End Commute.

(* canonicalising the keys of the type stays inside the family *)
Lemma float_deref_lower : forall t, is_float_deref (lower_type t) = is_float_deref t.
Proof. induction t; simpl; auto. Qed.

Lemma fam_opts_lower : forall t o, fam_opts (lower_type t) (lower_opts o) = fam_opts t o.
Proof. intros t [o'|]; simpl; auto. rewrite float_deref_lower. reflexivity. Qed.

Lemma fam_lower : (forall t, fam_type (lower_type t) = fam_type t) /\ (forall fs, fam_fields (lower_fields fs) = fam_fields fs).
Proof.
  apply ftype_fields_ind17; simpl; auto.
  - intros key o t IHt rest IHr. rewrite fam_opts_lower, IHt, IHr. reflexivity.
  - intros opt ptr inner IHi rest IHr. rewrite IHi, IHr. reflexivity.
Qed.

(* ------------------------------------------------------------------ format independence *)

Lemma load_sim : forall rf f T d,
  f <> FJson -> fam_fields T = true -> leaves_ok rf d = true -> float_positions_ok T d = true ->
  rsim gsim (load_doc rf T f d) (load_doc rf T FJson d).
Proof.
  intros rf f T d Hf Hfam Hl Hpos. unfold load_doc, conf_load. unfold float_positions_ok in Hpos.
  destruct (info_fields T fi_empty) as [info|]; [|exact I].
  destruct d; simpl in Hl; try discriminate; try exact I.
  - (* DMap *)
    change (shape rf f (DMap m)) with (JObj (shape_map rf f m)).
    change (shape rf FJson (DMap m)) with (JObj (shape_map rf FJson m)).
    destruct (lc_commute rf f) as [_ [_ Cf]]. destruct (lc_commute rf FJson) as [_ [_ Cj]].
    rewrite Cf, Cj. unfold unmarshal.
    apply rsim_rmap with (R := Forall2 gsim).
    + destruct (main_mutual rf f Hf) as [_ HP]. apply (HP (lower_fields T)).
      * destruct fam_lower as [_ H]. rewrite H. exact Hfam.
      * destruct (leaves_lc rf) as [_ [_ H]]. apply H. exact Hl.
      * exact Hpos.
    + intros a b Hab. constructor. exact Hab.
Qed.
