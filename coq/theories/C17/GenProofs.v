(* C17 — obligations about the constants regenerated from the source at every run
   (coq/gen/C17Consts.v, written by tools/props/c17.py): the model's choice of the loader by file
   extension IS conf's [loaders] table, the struct tag key is "json", and every number type that
   yaml.v2 produces for an untyped document (int, int64, uint64, float64) is among the types
   toStringKeyMap turns into a json.Number (anything else would reach LoadFromJsonBytes as a
   string, and [shape FYaml] would be wrong).  A changed table breaks these proofs. *)
From Coq Require Import List ZArith Bool String Ascii.
From GZ Require Import C08.Model C17.Model.
From GZgen Require Import C17Consts.
Import ListNotations.
Open Scope string_scope.

Definition loader_fmt (name : string) : option fmt :=
  if String.eqb name "LoadFromJsonBytes" then Some FJson
  else if String.eqb name "LoadFromYamlBytes" then Some FYaml
  else if String.eqb name "LoadFromTomlBytes" then Some FToml
  else None.

Definition table_fmt (e : string) : option fmt :=
  match lookup (lower e) gen_loaders with Some n => loader_fmt n | None => None end.

Theorem loaders_table_is_model : forall e, fmt_of_ext e = table_fmt e.
Proof.
  intro e. unfold fmt_of_ext, table_fmt, gen_loaders. cbn [lookup]. set (l := lower e).
  destruct (String.eqb l ".json") eqn:E1; destruct (String.eqb l ".toml") eqn:E2;
    destruct (String.eqb l ".yaml") eqn:E3; destruct (String.eqb l ".yml") eqn:E4; cbn; try reflexivity;
    repeat match goal with H : String.eqb l _ = true |- _ => apply String.eqb_eq in H end; congruence.
Qed.

Theorem tag_key_is_json : gen_tag_key = "json".
Proof. reflexivity. Qed.

Theorem yaml_numbers_become_json_numbers :
  forallb (fun k => str_in k gen_yaml_number_kinds) ["int"; "int64"; "uint64"; "float64"] = true.
Proof. reflexivity. Qed.

Print Assumptions loaders_table_is_model.
