(* C17 — when is an observed property failure EXACTLY a registered known finding (F8a..F8e)?
   Evaluated by tools/props/c17.py for every case that has the shape of a registered finding; the
   runner suppresses the failure only if both components are true:

     [agrees c]  (Check.v)  the model reproduces every observation of the case.  The model HAS the
                 registered deviations (Props.v: float_into_int_refuted, ..., all_null_slice_refuted), so
                 a deviation that got wider, narrower or different in any observable way is a
                 disagreement here, and the failure is reported as a VIOLATION;
     [prop_ok c] (this file) everything the property demands BESIDES the one comparison the finding is
                 about still holds: for F8a / F8c (load cases) only the comparison between the three
                 formats is waived — re-cased twin, env off = bytes, by-extension loading, MustLoad,
                 deprecated wrappers, LoadProperties, map keys kept, conf-layer case-insensitivity and
                 "no panic" are all still required; for F8b / F8d / F8e (mapping vs encoding/json) the
                 value comparison is waived, a panic is not.
   Executable only. *)
From GZ Require Export C17.Check.

Definition agrees : case -> bool := C17.Check.agrees.

Definition prop_ok (c : case) : bool :=
  match c with
  | CaseLoad _ _ _ _ _ _ _ _ _ _ _ _ => prop_gen (fun _ => true) c
  | CaseStd _ _ mp st => negb (ob_panics mp || ob_panics st)
  | _ => false
  end.
