(* C12 — the pointer-level model (Concrete.v) refines the flat model (Model.v):
   under the representation invariant J, every operation commutes with the
   abstraction function [cabs] and runs the same callbacks (as a multiset). *)
From Coq Require Import List ZArith Bool Lia Permutation.
From GZ Require Import C12.Model C12.Concrete C12.Proofs.
Import ListNotations.
Open Scope Z_scope.

(* ------------------------------------------------------------------ *)
(* generic list lemmas                                                  *)

Lemma upd_nth_length {A} i (f : A -> A) l : length (upd_nth i f l) = length l.
Proof. revert i. induction l as [|x l IH]; intros [|i]; cbn; auto. Qed.

Lemma nth_upd_nth_eq {A} i (f : A -> A) l d :
  (i < length l)%nat -> nth i (upd_nth i f l) d = f (nth i l d).
Proof. revert i. induction l as [|x l IH]; intros [|i] H; cbn in *; try lia; auto. apply IH. lia. Qed.

Lemma nth_upd_nth_neq {A} i j (f : A -> A) l d :
  i <> j -> nth j (upd_nth i f l) d = nth j l d.
Proof.
  revert i j. induction l as [|x l IH]; intros [|i] [|j] H; cbn; auto; try congruence.
Qed.

Lemma hget_app_old h c id : (id < length h)%nat -> hget (h ++ [c]) id = hget h id.
Proof. intros H. unfold hget. apply app_nth1. exact H. Qed.

Lemma hget_app_new h c : hget (h ++ [c]) (length h) = c.
Proof. unfold hget. rewrite app_nth2 by lia. rewrite Nat.sub_diag. reflexivity. Qed.

Lemma hget_upd_eq h id f : (id < length h)%nat -> hget (upd_nth id f h) id = f (hget h id).
Proof. intros H. unfold hget. apply nth_upd_nth_eq. exact H. Qed.

Lemma hget_upd_neq h id id' f : id <> id' -> hget (upd_nth id f h) id' = hget h id'.
Proof. intros H. unfold hget. apply nth_upd_nth_neq. exact H. Qed.

Lemma in_concat_nth {A} (sl : list (list A)) q x :
  (q < length sl)%nat -> In x (nth q sl []) -> In x (concat sl).
Proof.
  intros Hq Hx. apply in_concat. exists (nth q sl []). split; [apply nth_In; exact Hq|exact Hx].
Qed.

Lemma in_concat_inv {A} (sl : list (list A)) x :
  In x (concat sl) -> exists q, (q < length sl)%nat /\ In x (nth q sl []).
Proof.
  intros H. apply in_concat in H. destruct H as (l & Hl & Hx).
  destruct (In_nth _ _ [] Hl) as (q & Hq & E). exists q. rewrite E. auto.
Qed.

Lemma nodup_app_inv {A} (l l' : list A) :
  NoDup (l ++ l') -> NoDup l /\ NoDup l' /\ (forall x, In x l -> ~ In x l').
Proof.
  induction l as [|a l IH]; cbn; intros H.
  - split; [constructor|]. split; [exact H|tauto].
  - inversion H as [|? ? Ha Hl]; subst. destruct (IH Hl) as (H1 & H2 & H3).
    split; [|split; [exact H2|]].
    + constructor; [|exact H1]. intros Hin. apply Ha, in_or_app. auto.
    + intros x [->|Hx]; [|apply H3, Hx]. intros Hin. apply Ha, in_or_app. auto.
Qed.

Lemma nodup_app_intro {A} (l l' : list A) :
  NoDup l -> NoDup l' -> (forall x, In x l -> ~ In x l') -> NoDup (l ++ l').
Proof.
  induction l as [|a l IH]; cbn; intros H1 H2 H3; [exact H2|].
  inversion H1 as [|? ? Ha Hl]; subst. constructor.
  - intros Hin. apply in_app_or in Hin. destruct Hin as [Hin|Hin]; [tauto|].
    apply (H3 a); auto.
  - apply IH; auto.
Qed.

(* an element of a duplicate-free concatenation lives in one sublist only *)
Lemma nodup_concat_unique {A} (sl : list (list A)) q q' x :
  NoDup (concat sl) -> (q < length sl)%nat -> (q' < length sl)%nat ->
  In x (nth q sl []) -> In x (nth q' sl []) -> q = q'.
Proof.
  revert q q'. induction sl as [|l sl IH]; intros q q' Hnd Hq Hq' Hx Hx'; cbn in *; [lia|].
  destruct (nodup_app_inv _ _ Hnd) as (Hnd1 & Hnd2 & Hdis).
  destruct q as [|q], q' as [|q']; auto.
  - exfalso. apply (Hdis x Hx). apply (in_concat_nth sl q'); [lia|exact Hx'].
  - exfalso. apply (Hdis x Hx'). apply (in_concat_nth sl q); [lia|exact Hx].
  - f_equal. apply IH; auto; lia.
Qed.

Lemma nodup_concat_nth {A} (sl : list (list A)) q :
  NoDup (concat sl) -> NoDup (nth q sl []).
Proof.
  revert q. induction sl as [|l sl IH]; intros q H; cbn in *.
  - destruct q; constructor.
  - destruct (nodup_app_inv _ _ H) as (H1 & H2 & _). destruct q; [exact H1|apply IH, H2].
Qed.

Lemma concat_upd_nth_in {A} (sl : list (list A)) q (f : list A -> list A) x :
  In x (concat (upd_nth q f sl)) ->
  (exists q', q' <> q /\ (q' < length sl)%nat /\ In x (nth q' sl [])) \/
  ((q < length sl)%nat /\ In x (f (nth q sl []))).
Proof.
  intros H. apply in_concat_inv in H. destruct H as (q' & Hq' & Hx).
  rewrite upd_nth_length in Hq'.
  destruct (Nat.eq_dec q q') as [->|Hne].
  - right. rewrite nth_upd_nth_eq in Hx by exact Hq'. auto.
  - left. rewrite nth_upd_nth_neq in Hx by exact Hne. exists q'. auto.
Qed.

(* replacing one sublist by a duplicate-free list of elements that occur nowhere else *)
Lemma nodup_concat_upd {A} (sl : list (list A)) q (f : list A -> list A) :
  NoDup (concat sl) -> (q < length sl)%nat -> NoDup (f (nth q sl [])) ->
  (forall x, In x (f (nth q sl [])) ->
     forall q', q' <> q -> (q' < length sl)%nat -> ~ In x (nth q' sl [])) ->
  NoDup (concat (upd_nth q f sl)).
Proof.
  revert q. induction sl as [|l sl IH]; intros q Hnd Hq Hf Hfresh; cbn in *; [lia|].
  destruct (nodup_app_inv _ _ Hnd) as (Hnd1 & Hnd2 & Hdis).
  destruct q as [|q]; cbn in *.
  - apply nodup_app_intro; auto. intros x Hx Hc.
    apply in_concat_inv in Hc. destruct Hc as (q' & Hq' & Hin).
    apply (Hfresh x Hx (S q')); [lia|lia|exact Hin].
  - apply nodup_app_intro; auto.
    + apply IH; auto; [lia|].
      intros x Hx q' Hne Hq'. apply (Hfresh x Hx (S q')); lia.
    + intros x Hx Hc. apply concat_upd_nth_in in Hc.
      destruct Hc as [(q' & _ & Hq' & Hin)|(_ & Hin)].
      * apply (Hdis x Hx). apply (in_concat_nth sl q'); assumption.
      * apply (Hfresh x Hin 0%nat); [lia|lia|exact Hx].
Qed.

(* ------------------------------------------------------------------ *)
(* the timers map                                                       *)

Definition tmap := list (Z * (Z * nat)).

Lemma tget_in k (t : tmap) pi : tget k t = Some pi -> In (k, pi) t.
Proof.
  unfold tget. destruct (find _ t) as [kv|] eqn:E; [|discriminate]. intros [= <-].
  apply find_some in E. destruct E as [E1 E2]. apply Z.eqb_eq in E2.
  destruct kv; cbn in *; subst; exact E1.
Qed.

Lemma tget_none k (t : tmap) : tget k t = None -> ~ In k (map fst t).
Proof.
  unfold tget. destruct (find _ t) as [kv|] eqn:E; [discriminate|]. intros _ Hin.
  apply in_map_iff in Hin. destruct Hin as (kv & Hk & Hkv).
  pose proof (find_none _ _ E kv Hkv) as H. cbn in H. rewrite Hk, Z.eqb_refl in H. discriminate.
Qed.

Lemma tmap_unique (t : tmap) k pi pi' :
  NoDup (map fst t) -> In (k, pi) t -> In (k, pi') t -> pi = pi'.
Proof.
  induction t as [|a t IH]; cbn; intros Hnd H1 H2; [contradiction|].
  inversion Hnd as [|? ? Hna Hnd']; subst.
  destruct H1 as [->|H1], H2 as [H2|H2].
  - congruence.
  - exfalso. apply Hna. cbn. apply (in_map fst) in H2. exact H2.
  - subst a. exfalso. apply Hna. cbn. apply (in_map fst) in H1. exact H1.
  - apply IH; auto.
Qed.

Lemma tget_iff (t : tmap) k pi : NoDup (map fst t) -> (tget k t = Some pi <-> In (k, pi) t).
Proof.
  intros Hnd. split; [apply tget_in|]. intros Hin.
  destruct (tget k t) as [pi'|] eqn:E.
  - f_equal. apply tget_in in E. eapply tmap_unique; eauto.
  - exfalso. apply (tget_none _ _ E). apply (in_map fst) in Hin. exact Hin.
Qed.

Lemma tput_keys k pi (t : tmap) :
  map fst (tput k pi t) = match tget k t with Some _ => map fst t | None => map fst t ++ [k] end.
Proof.
  unfold tput. destruct (tget k t).
  - rewrite map_map. apply map_ext. intros a. destruct (Z.eqb_spec (fst a) k); cbn; congruence.
  - rewrite map_app. reflexivity.
Qed.

Lemma tput_in k pi (t : tmap) kv :
  In kv (tput k pi t) -> kv = (k, pi) \/ (In kv t /\ fst kv <> k).
Proof.
  unfold tput. destruct (tget k t) eqn:E.
  - intros H. apply in_map_iff in H. destruct H as (a & <- & Ha).
    destruct (Z.eqb_spec (fst a) k); [left; reflexivity|right; auto].
  - intros H. apply in_app_or in H. destruct H as [H|[<-|[]]]; [|left; reflexivity].
    right. split; [exact H|]. intros Hk. apply (tget_none _ _ E).
    rewrite <- Hk. apply in_map. exact H.
Qed.

Lemma tput_in_new k pi (t : tmap) : In (k, pi) (tput k pi t).
Proof.
  unfold tput. destruct (tget k t) eqn:E.
  - apply tget_in in E. apply in_map_iff. exists (k, p). cbn. rewrite Z.eqb_refl. auto.
  - apply in_or_app. right. left. reflexivity.
Qed.

Lemma tput_in_old k pi (t : tmap) kv : In kv t -> fst kv <> k -> In kv (tput k pi t).
Proof.
  intros H Hk. unfold tput. destruct (tget k t).
  - apply in_map_iff. exists kv. destruct (Z.eqb_spec (fst kv) k); [contradiction|auto].
  - apply in_or_app. auto.
Qed.

Lemma tput_nodup k pi (t : tmap) : NoDup (map fst t) -> NoDup (map fst (tput k pi t)).
Proof.
  intros H. rewrite tput_keys. destruct (tget k t) eqn:E; [exact H|].
  apply NoDup_app_one; [exact H|apply tget_none, E].
Qed.

Lemma tdel_in k (t : tmap) kv : In kv (tdel k t) <-> In kv t /\ fst kv <> k.
Proof.
  unfold tdel. rewrite filter_In. rewrite negb_true_iff, Z.eqb_neq. tauto.
Qed.

Lemma tdel_nodup k (t : tmap) : NoDup (map fst t) -> NoDup (map fst (tdel k t)).
Proof. apply NoDup_map_filter. Qed.

(* ------------------------------------------------------------------ *)
(* abstraction                                                          *)

Definition E (h : list cell) (kv : Z * (Z * nat)) : entry :=
  let c := hget h (snd (snd kv)) in
  mkEntry (fst kv) (cval c) (fst (snd kv)) (ccircle c) (cdiff c).

Definition absl (h : list cell) (t : tmap) : list entry := map (E h) t.

Lemma cabs_eq s : cabs s = mkState (cn s) (cint s) (cpos s) (absl (cheap s) (ctimers s)).
Proof. reflexivity. Qed.

Lemma lookup_absl h (t : tmap) k :
  lookup k (absl h t) = option_map (fun pi => E h (k, pi)) (tget k t).
Proof.
  unfold lookup, tget, absl. induction t as [|a t IH]; cbn; [reflexivity|].
  destruct (Z.eqb_spec (fst a) k) as [Ea|Ea]; cbn.
  - destruct a as [k' pi]; cbn in *; subst. reflexivity.
  - exact IH.
Qed.

Lemma absl_keys h t : map ekey (absl h t) = map fst t.
Proof. unfold absl. rewrite map_map. reflexivity. Qed.

(* ------------------------------------------------------------------ *)
(* representation invariant                                             *)

Record J (s : cstate) : Prop := mkJ
  { J_n : 1 <= cn s;
    J_i : 1 <= cint s;
    J_pos : 0 <= cpos s < cn s;
    J_len : length (cslots s) = Z.to_nat (cn s);
    J_keys : NoDup (map fst (ctimers s));
    J_tim : forall k p id, In (k, (p, id)) (ctimers s) ->
              0 <= p < cn s /\ (id < length (cheap s))%nat /\
              ckey (hget (cheap s) id) = k /\ cremoved (hget (cheap s) id) = false /\
              In id (nth (Z.to_nat p) (cslots s) []);
    J_slot : forall q id, (q < length (cslots s))%nat -> In id (nth q (cslots s) []) ->
              (id < length (cheap s))%nat /\
              (cremoved (hget (cheap s) id) = false ->
               In (ckey (hget (cheap s) id), (Z.of_nat q, id)) (ctimers s));
    J_nodup : NoDup (concat (cslots s)) }.

Lemma J_init n i : 1 <= n -> 1 <= i -> J (cinit n i).
Proof.
  intros Hn Hi. constructor; cbn; try lia.
  - apply repeat_length.
  - constructor.
  - intros q id _ H. exfalso. revert q H. generalize (Z.to_nat n) as m.
    induction m as [|m IH]; intros [|q]; cbn; auto. apply IH.
  - generalize (Z.to_nat n) as m. induction m as [|m IH]; cbn; [constructor|exact IH].
Qed.

Lemma cabs_init n i : cabs (cinit n i) = init n i.
Proof. reflexivity. Qed.

(* two map entries with the same pointer are the same entry *)
Lemma J_id_key s k p id k' p' :
  J s -> In (k, (p, id)) (ctimers s) -> In (k', (p', id)) (ctimers s) -> k = k' /\ p = p'.
Proof.
  intros HJ H1 H2. destruct (J_tim s HJ _ _ _ H1) as (_ & _ & K1 & _).
  destruct (J_tim s HJ _ _ _ H2) as (_ & _ & K2 & _).
  assert (Hk : k = k') by (rewrite <- K1, <- K2; reflexivity).
  split; [exact Hk|]. rewrite <- Hk in H2.
  pose proof (tmap_unique _ _ _ _ (J_keys s HJ) H1 H2) as E0. congruence.
Qed.

Lemma pos_nat_lt s p : J s -> 0 <= p < cn s -> (Z.to_nat p < length (cslots s))%nat.
Proof. intros HJ Hp. rewrite (J_len s HJ). lia. Qed.

(* ------------------------------------------------------------------ *)
(* primitive mutations preserve J                                       *)

(* ids stored in slots are allocated *)
Lemma J_slot_lt s q id : J s -> (q < length (cslots s))%nat -> In id (nth q (cslots s) []) ->
  (id < length (cheap s))%nat.
Proof. intros HJ Hq Hin. apply (J_slot s HJ q id Hq Hin). Qed.

Lemma J_fresh s : J s -> ~ In (length (cheap s)) (concat (cslots s)).
Proof.
  intros HJ Hin. apply in_concat_inv in Hin. destruct Hin as (q & Hq & Hin).
  pose proof (J_slot_lt s q _ HJ Hq Hin). lia.
Qed.

(* (P1) changing value / circle / diff of one cell *)
Lemma J_field_update s id f :
  J s -> (forall c, ckey (f c) = ckey c /\ cremoved (f c) = cremoved c) ->
  J (mkC (cn s) (cint s) (cpos s) (upd_nth id f (cheap s)) (cslots s) (ctimers s)).
Proof.
  intros HJ Hf.
  assert (Hk : forall id', ckey (hget (upd_nth id f (cheap s)) id') = ckey (hget (cheap s) id') /\
                           cremoved (hget (upd_nth id f (cheap s)) id') = cremoved (hget (cheap s) id')).
  { intros id'. destruct (Nat.eq_dec id id') as [->|Hne].
    - destruct (Nat.lt_ge_cases id' (length (cheap s))) as [Hlt|Hge].
      + rewrite hget_upd_eq by exact Hlt. apply Hf.
      + unfold hget. rewrite !nth_overflow; [auto| |]; rewrite ?upd_nth_length; lia.
    - rewrite hget_upd_neq by exact Hne. auto. }
  destruct HJ as [H1 H2 H3 H4 H5 H6 H7 H8]. constructor; cbn [cheap cslots ctimers cn cint cpos]; auto.
  - intros k p id' Hin. destruct (H6 k p id' Hin) as (A & B & C & D & F).
    rewrite upd_nth_length. destruct (Hk id') as [K1 K2]. rewrite K1, K2. auto.
  - intros q id' Hq Hin. destruct (H7 q id' Hq Hin) as (A & B).
    rewrite upd_nth_length. destruct (Hk id') as [K1 K2]. rewrite K1, K2. auto.
Qed.

(* (P3) allocating a new live cell for a key that is not in the map *)
Lemma J_insert s k v c d np :
  J s -> tget k (ctimers s) = None -> 0 <= np < cn s ->
  J (mkC (cn s) (cint s) (cpos s)
         (cheap s ++ [mkCell k v c d false])
         (push np (length (cheap s)) (cslots s))
         (tput k (np, length (cheap s)) (ctimers s))).
Proof.
  intros HJ Hk Hnp. pose proof (pos_nat_lt s np HJ Hnp) as Hq0.
  pose proof (J_fresh s HJ) as Hfresh.
  destruct HJ as [H1 H2 H3 H4 H5 H6 H7 H8].
  assert (Hkn : forall kv, In kv (ctimers s) -> fst kv <> k).
  { intros kv Hin E0. apply (tget_none _ _ Hk). rewrite <- E0. apply in_map. exact Hin. }
  constructor; cbn [cheap cslots ctimers cn cint cpos]; auto.
  - unfold push. rewrite upd_nth_length. exact H4.
  - apply tput_nodup. exact H5.
  - intros k' p id Hin. rewrite app_length; cbn. apply tput_in in Hin.
    destruct Hin as [[= -> -> ->]|[Hin _]].
    + rewrite hget_app_new; cbn. repeat split; try lia.
      unfold push. rewrite nth_upd_nth_eq by exact Hq0. apply in_or_app. right. left. reflexivity.
    + destruct (H6 k' p id Hin) as (A & B & C & D & F).
      rewrite hget_app_old by exact B. repeat split; try lia; auto.
      unfold push. destruct (Nat.eq_dec (Z.to_nat np) (Z.to_nat p)) as [E0|E0].
      * rewrite E0. rewrite nth_upd_nth_eq by (rewrite <- E0; exact Hq0).
        apply in_or_app. left. exact F.
      * rewrite nth_upd_nth_neq by exact E0. exact F.
  - intros q id Hq Hin. unfold push in *. rewrite upd_nth_length in Hq.
    rewrite app_length; cbn.
    assert (Hold : In id (nth q (cslots s) []) ->
      (id < length (cheap s) + 1)%nat /\
      (cremoved (hget (cheap s ++ [mkCell k v c d false]) id) = false ->
       In (ckey (hget (cheap s ++ [mkCell k v c d false]) id), (Z.of_nat q, id))
          (tput k (np, length (cheap s)) (ctimers s)))).
    { intros Hin0. destruct (H7 q id Hq Hin0) as (A & B).
      rewrite hget_app_old by exact A. split; [lia|]. intros Hl.
      specialize (B Hl). apply tput_in_old; [exact B|]. apply (Hkn _ B). }
    destruct (Nat.eq_dec (Z.to_nat np) q) as [E0|E0].
    + subst q. rewrite nth_upd_nth_eq in Hin by exact Hq.
      apply in_app_or in Hin. destruct Hin as [Hin|[<-|[]]]; [apply Hold, Hin|].
      rewrite hget_app_new; cbn. split; [lia|]. intros _.
      rewrite Z2Nat.id by lia. apply tput_in_new.
    + rewrite nth_upd_nth_neq in Hin by exact E0. apply Hold, Hin.
  - unfold push. apply nodup_concat_upd; auto.
    + apply nodup_app_intro.
      * apply nodup_concat_nth, H8.
      * constructor; [intros []|constructor].
      * intros x Hx [<-|[]]. apply Hfresh. apply (in_concat_nth _ (Z.to_nat np)); assumption.
    + intros x Hx q' Hne Hq' Hin'. apply in_app_or in Hx. destruct Hx as [Hx|[<-|[]]].
      * apply Hne. symmetry. eapply nodup_concat_unique; eauto.
      * apply Hfresh. apply (in_concat_nth _ q'); assumption.
Qed.

(* J does not depend on the order of the timers map *)
Lemma J_timers_equiv s t' :
  J s -> NoDup (map fst t') -> (forall kv, In kv t' <-> In kv (ctimers s)) ->
  J (mkC (cn s) (cint s) (cpos s) (cheap s) (cslots s) t').
Proof.
  intros [H1 H2 H3 H4 H5 H6 H7 H8] Hnd Heq.
  constructor; cbn [cheap cslots ctimers cn cint cpos]; auto.
  - intros k p id Hin. apply H6. apply Heq. exact Hin.
  - intros q id Hq Hin. destruct (H7 q id Hq Hin) as (A & B). split; [exact A|].
    intros Hl. apply Heq. apply B. exact Hl.
Qed.

(* (P2) flag a mapped cell removed and forget its key *)
Lemma J_remove s k p id :
  J s -> In (k, (p, id)) (ctimers s) ->
  J (mkC (cn s) (cint s) (cpos s)
         (upd_nth id (fun c => mkCell (ckey c) (cval c) (ccircle c) (cdiff c) true) (cheap s))
         (cslots s) (tdel k (ctimers s))).
Proof.
  intros HJ Hin. pose proof HJ as [H1 H2 H3 H4 H5 H6 H7 H8].
  destruct (H6 k p id Hin) as (Hp & Hid & Hkey & Hlive & Hslot).
  constructor; cbn [cheap cslots ctimers cn cint cpos]; auto.
  - apply tdel_nodup. exact H5.
  - intros k' p' id' Hin'. apply tdel_in in Hin'. destruct Hin' as [Hin' Hne]. cbn in Hne.
    destruct (H6 k' p' id' Hin') as (A & B & C & D & F).
    assert (id <> id').
    { intros ->. destruct (J_id_key s k p id' k' p' HJ Hin Hin'). congruence. }
    rewrite upd_nth_length. rewrite hget_upd_neq by assumption. auto.
  - intros q id' Hq Hin'. destruct (H7 q id' Hq Hin') as (A & B).
    rewrite upd_nth_length. split; [exact A|].
    destruct (Nat.eq_dec id id') as [->|Hne].
    + rewrite hget_upd_eq by exact A. cbn. discriminate.
    + rewrite hget_upd_neq by exact Hne. intros Hl. specialize (B Hl).
      apply tdel_in. split; [exact B|]. cbn. intros Hk.
      rewrite Hk in B. pose proof (tmap_unique _ _ _ _ H5 Hin B) as E0. congruence.
Qed.

(* (P2') flag the mapped cell removed and map the key to a fresh live cell *)
Lemma J_reinsert s k p id v c d np :
  J s -> In (k, (p, id)) (ctimers s) -> 0 <= np < cn s ->
  J (mkC (cn s) (cint s) (cpos s)
         (upd_nth id (fun c => mkCell (ckey c) (cval c) (ccircle c) (cdiff c) true) (cheap s)
          ++ [mkCell k v c d false])
         (push np (length (cheap s)) (cslots s))
         (tput k (np, length (cheap s)) (ctimers s))).
Proof.
  intros HJ Hin Hnp.
  pose proof (J_remove s k p id HJ Hin) as HJ1.
  set (s1 := mkC _ _ _ _ _ _) in HJ1.
  assert (Hnone : tget k (ctimers s1) = None).
  { destruct (tget k (ctimers s1)) as [pi|] eqn:E0; [|reflexivity].
    apply tget_in in E0. cbn in E0. apply tdel_in in E0. cbn in E0. tauto. }
  pose proof (J_insert s1 k v c d np HJ1 Hnone Hnp) as HJ2.
  cbn [cheap cslots ctimers cn cint cpos s1] in HJ2. rewrite upd_nth_length in HJ2.
  set (s2 := mkC _ _ _ _ _ _) in HJ2.
  apply (J_timers_equiv s2 (tput k (np, length (cheap s)) (ctimers s))) in HJ2.
  - exact HJ2.
  - apply tput_nodup. apply (J_keys s HJ).
  - intros kv. cbn [ctimers s2]. split; intros H.
    + apply tput_in in H. destruct H as [->|[H Hne]]; [apply tput_in_new|].
      apply tput_in_old; [|exact Hne]. apply tdel_in. auto.
    + apply tput_in in H. destruct H as [->|[H Hne]]; [apply tput_in_new|].
      apply tdel_in in H. apply tput_in_old; tauto.
Qed.

(* ------------------------------------------------------------------ *)
(* abstraction equalities                                               *)

Lemma upd_absl h (t : tmap) k f :
  upd k f (absl h t) = map (fun kv => if fst kv =? k then f (E h kv) else E h kv) t.
Proof. unfold upd, absl. rewrite map_map. reflexivity. Qed.

Lemma absl_update s k p id g f :
  J s -> In (k, (p, id)) (ctimers s) ->
  E (upd_nth id g (cheap s)) (k, (p, id)) = f (E (cheap s) (k, (p, id))) ->
  absl (upd_nth id g (cheap s)) (ctimers s) = upd k f (absl (cheap s) (ctimers s)).
Proof.
  intros HJ Hin Hf. rewrite upd_absl. unfold absl. apply map_ext_in.
  intros [k' [p' id']] Hin'. cbn [fst].
  destruct (Z.eqb_spec k' k) as [->|Hne].
  - pose proof (tmap_unique _ _ _ _ (J_keys s HJ) Hin Hin') as E0. inversion E0; subst. exact Hf.
  - unfold E; cbn [fst snd]. rewrite hget_upd_neq; [reflexivity|].
    intros ->. destruct (J_id_key s k p id' k' p' HJ Hin Hin'). congruence.
Qed.

Lemma absl_retarget s k p id np :
  J s -> In (k, (p, id)) (ctimers s) ->
  absl (upd_nth id (fun c => mkCell (ckey c) (cval c) (ccircle c) (cdiff c) true) (cheap s)
          ++ [mkCell k (cval (hget (cheap s) id)) 0 0 false])
       (tput k (np, length (cheap s)) (ctimers s))
  = upd k (fun e' => mkEntry (ekey e') (evalue e') np 0 0) (absl (cheap s) (ctimers s)).
Proof.
  intros HJ Hin. rewrite upd_absl. unfold tput.
  rewrite (proj2 (tget_iff _ _ _ (J_keys s HJ)) Hin). unfold absl. rewrite map_map.
  apply map_ext_in. intros [k' [p' id']] Hin'. cbn [fst].
  destruct (Z.eqb_spec k' k) as [->|Hne].
  - pose proof (tmap_unique _ _ _ _ (J_keys s HJ) Hin Hin') as E0. inversion E0; subst.
    assert (Hnew : forall h' c, length h' = length (cheap s) ->
              hget (h' ++ [c]) (length (cheap s)) = c)
      by (intros h' c <-; apply hget_app_new).
    unfold E; cbn [fst snd ekey evalue].
    rewrite Hnew by apply upd_nth_length. reflexivity.
  - unfold E; cbn [fst snd]. destruct (J_tim s HJ _ _ _ Hin') as (_ & Hlt & _).
    rewrite hget_app_old by (rewrite upd_nth_length; exact Hlt).
    rewrite hget_upd_neq; [reflexivity|].
    intros ->. destruct (J_id_key s k p id' k' p' HJ Hin Hin'). congruence.
Qed.

Lemma absl_insert s k v c d np :
  J s -> tget k (ctimers s) = None ->
  absl (cheap s ++ [mkCell k v c d false]) (tput k (np, length (cheap s)) (ctimers s))
  = absl (cheap s) (ctimers s) ++ [mkEntry k v np c d].
Proof.
  intros HJ Hk. unfold tput. rewrite Hk. unfold absl. rewrite map_app. cbn [map]. f_equal.
  - apply map_ext_in. intros [k' [p' id']] Hin'. unfold E; cbn [fst snd].
    destruct (J_tim s HJ _ _ _ Hin') as (_ & Hlt & _). rewrite hget_app_old by exact Hlt. reflexivity.
  - unfold E; cbn [fst snd]. rewrite hget_app_new. reflexivity.
Qed.

Lemma absl_remove s k p id :
  J s -> In (k, (p, id)) (ctimers s) ->
  absl (upd_nth id (fun c => mkCell (ckey c) (cval c) (ccircle c) (cdiff c) true) (cheap s))
       (tdel k (ctimers s))
  = drop k (absl (cheap s) (ctimers s)).
Proof.
  intros HJ Hin. unfold drop, absl, tdel.
  pose proof (J_keys s HJ) as Hnd.
  assert (Hall : forall kv, In kv (ctimers s) -> fst kv <> k ->
            E (upd_nth id (fun c => mkCell (ckey c) (cval c) (ccircle c) (cdiff c) true) (cheap s)) kv
            = E (cheap s) kv).
  { intros [k' [p' id']] Hin' Hne. cbn in Hne. unfold E; cbn [fst snd].
    rewrite hget_upd_neq; [reflexivity|].
    intros ->. destruct (J_id_key s k p id' k' p' HJ Hin Hin'). congruence. }
  clear Hin Hnd. induction (ctimers s) as [|a t IH]; cbn; [reflexivity|].
  destruct (Z.eqb_spec (fst a) k) as [Ea|Ea]; cbn.
  - apply IH. intros kv Hkv. apply Hall. right. exact Hkv.
  - rewrite Hall by (auto; left; reflexivity). f_equal.
    apply IH. intros kv Hkv. apply Hall. right. exact Hkv.
Qed.

(* ------------------------------------------------------------------ *)
(* Set / Move / Remove                                                  *)

Lemma cmove_far_ok s k p id d :
  J s -> In (k, (p, id)) (ctimers s) ->
  J (cmove_far s k p id d) /\
  cabs (cmove_far s k p id d) = move_far (cabs s) (E (cheap s) (k, (p, id))) d.
Proof.
  intros HJ Hin. destruct (J_tim s HJ _ _ _ Hin) as (Hp & Hid & Hkey & Hlive & Hslot).
  unfold cmove_far, move_far. cbn [cabs sn sint spos sents E fst snd epos ekey evalue].
  destruct (wait (cn s) (cpos s) p <=? d / cint s).
  - split.
    + apply J_field_update; [exact HJ|]. intros c. cbn. auto.
    + unfold cabs; cbn [cn cint cpos cheap ctimers]. f_equal.
      apply (absl_update s k p id); auto.
      unfold E; cbn [fst snd]. rewrite hget_upd_eq by exact Hid. reflexivity.
  - assert (Hnp : 0 <= (cpos s + d / cint s) mod cn s < cn s).
    { apply Z.mod_pos_bound. pose proof (J_n s HJ). lia. }
    split.
    + apply (J_reinsert s k p id); auto.
    + unfold cabs; cbn [cn cint cpos cheap ctimers]. f_equal.
      refine (eq_trans (absl_retarget s k p id _ HJ Hin) _).
      unfold upd, pos_of; cbn [sn spos]. apply map_ext. intros e.
      destruct (ekey e =? k); reflexivity.
Qed.

Lemma drop_absent k l : lookup k l = None -> drop k l = l.
Proof.
  unfold lookup, drop. induction l as [|a l IH]; cbn; [reflexivity|].
  destruct (ekey a =? k); [discriminate|]. intros H. cbn. f_equal. apply IH, H.
Qed.

Lemma lookup_cabs s k :
  lookup k (sents (cabs s)) = option_map (fun pi => E (cheap s) (k, pi)) (tget k (ctimers s)).
Proof. rewrite cabs_eq. cbn [sents]. apply lookup_absl. Qed.

Lemma cstep_set s k v d :
  J s -> J (cset_task s k v d) /\ cabs (cset_task s k v d) = set_task (cabs s) k v d.
Proof.
  intros HJ. unfold cset_task, set_task. rewrite lookup_cabs.
  destruct (tget k (ctimers s)) as [[p id]|] eqn:Hk; cbn [option_map].
  - apply tget_in in Hk. destruct (J_tim s HJ _ _ _ Hk) as (Hp & Hid & Hkey & Hlive & Hslot).
    set (s1 := mkC (cn s) (cint s) (cpos s) (upd_nth id _ (cheap s)) (cslots s) (ctimers s)).
    assert (HJ1 : J s1) by (apply J_field_update; [exact HJ|intros c; cbn; auto]).
    destruct (cmove_far_ok s1 k p id (Z.max d (cint s)) HJ1 Hk) as [HJ2 Habs].
    split; [exact HJ2|]. rewrite Habs. cbn [cabs sint cint].
    f_equal.
    + unfold cabs, s1; cbn [cn cint cpos cheap ctimers sn sint spos sents]. f_equal.
      apply (absl_update s k p id); auto.
      unfold E; cbn [fst snd]. rewrite hget_upd_eq by exact Hid. reflexivity.
    + unfold s1, E; cbn [cheap fst snd ekey evalue epos ecircle ediff].
      rewrite hget_upd_eq by exact Hid. reflexivity.
  - assert (Hnp : 0 <= (cpos s + Z.max d (cint s) / cint s) mod cn s < cn s).
    { apply Z.mod_pos_bound. pose proof (J_n s HJ). lia. }
    split.
    + apply J_insert; auto.
    + unfold cabs; cbn [cn cint cpos cheap ctimers sn sint spos sents]. f_equal.
      refine (eq_trans (absl_insert s k v _ _ _ HJ Hk) _). reflexivity.
Qed.

Lemma cstep_move s k d :
  J s -> J (fst (cmove_task s k d)) /\
         cabs (fst (cmove_task s k d)) = fst (move_task (cabs s) k d) /\
         snd (cmove_task s k d) = snd (move_task (cabs s) k d).
Proof.
  intros HJ. unfold cmove_task, move_task. rewrite lookup_cabs.
  destruct (tget k (ctimers s)) as [[p id]|] eqn:Hk; cbn [option_map].
  - apply tget_in in Hk. destruct (J_tim s HJ _ _ _ Hk) as (Hp & Hid & Hkey & Hlive & Hslot).
    cbn [cabs sint]. destruct (d <? cint s); cbn [fst snd].
    + split; [exact HJ|]. split; [reflexivity|].
      unfold E; cbn [evalue fst snd]. rewrite Hkey. reflexivity.
    + destruct (cmove_far_ok s k p id d HJ Hk) as [HJ2 Habs]. auto.
  - cbn [fst snd]. auto.
Qed.

Lemma cstep_remove s k :
  J s -> J (cremove_task s k) /\ cabs (cremove_task s k) = remove_task (cabs s) k.
Proof.
  intros HJ. unfold cremove_task, remove_task.
  destruct (tget k (ctimers s)) as [[p id]|] eqn:Hk.
  - apply tget_in in Hk. split; [apply (J_remove s k p id); auto|].
    unfold cabs; cbn [cn cint cpos cheap ctimers sn sint spos sents]. f_equal.
    apply (absl_remove s k p id); auto.
  - split; [exact HJ|]. rewrite drop_absent; [destruct s; reflexivity|].
    rewrite lookup_cabs, Hk. reflexivity.
Qed.

(* ------------------------------------------------------------------ *)
(* Drain                                                                *)

Lemma fold_tdel_in (h : list cell) ids (t : tmap) kv :
  In kv (fold_left (fun t id => tdel (ckey (hget h id)) t) ids t) <->
  In kv t /\ forall id, In id ids -> fst kv <> ckey (hget h id).
Proof.
  revert t. induction ids as [|id ids IH]; intros t; cbn [fold_left].
  - split; [intros H; split; [exact H|intros id []]|tauto].
  - rewrite IH. rewrite tdel_in. split.
    + intros [[H1 H2] H3]. split; [exact H1|]. intros id' [<-|Hin]; auto.
    + intros [H1 H2]. split; [split; [exact H1|apply H2; left; reflexivity]|].
      intros id' Hin. apply H2. right. exact Hin.
Qed.

Lemma nil_if_no_member {A} (l : list A) : (forall x, ~ In x l) -> l = [].
Proof. destruct l as [|a l]; [reflexivity|]. intros H. exfalso. apply (H a). left. reflexivity. Qed.

Lemma live_ids_nodup s :
  J s ->
  NoDup (map (fun id => (ckey (hget (cheap s) id), cval (hget (cheap s) id)))
             (filter (fun id => negb (cremoved (hget (cheap s) id))) (concat (cslots s)))).
Proof.
  intros HJ. pose proof (J_nodup s HJ) as Hnd.
  assert (Hinj : forall id id', In id (concat (cslots s)) -> In id' (concat (cslots s)) ->
            cremoved (hget (cheap s) id) = false -> cremoved (hget (cheap s) id') = false ->
            ckey (hget (cheap s) id) = ckey (hget (cheap s) id') -> id = id').
  { intros id id' Hi Hi' Hl Hl' Hk.
    apply in_concat_inv in Hi. destruct Hi as (q & Hq & Hi).
    apply in_concat_inv in Hi'. destruct Hi' as (q' & Hq' & Hi').
    destruct (J_slot s HJ q id Hq Hi) as (_ & B). destruct (J_slot s HJ q' id' Hq' Hi') as (_ & B').
    specialize (B Hl). specialize (B' Hl'). rewrite Hk in B.
    pose proof (tmap_unique _ _ _ _ (J_keys s HJ) B B') as E0. congruence. }
  induction (concat (cslots s)) as [|a l IH]; cbn; [constructor|].
  inversion Hnd as [|? ? Ha Hl]; subst.
  destruct (cremoved (hget (cheap s) a)) eqn:Hr; cbn.
  - apply IH; auto. intros; apply Hinj; auto; right; assumption.
  - constructor.
    + intros Hin. apply in_map_iff in Hin. destruct Hin as (x & Hx & Hxl).
      apply filter_In in Hxl. destruct Hxl as [Hxl Hxr]. apply negb_true_iff in Hxr.
      assert (x = a).
      { apply Hinj; auto; [right; exact Hxl|left; reflexivity|congruence]. }
      subst x. contradiction.
    + apply IH; auto. intros; apply Hinj; auto; right; assumption.
Qed.

Lemma nth_map_nil {A} (l : list (list A)) q : nth q (map (fun _ => @nil A) l) [] = [].
Proof. revert q. induction l as [|a l IH]; intros [|q]; cbn; auto. Qed.

Lemma cstep_drain s :
  J s -> J (fst (cdrain s)) /\ cabs (fst (cdrain s)) = fst (drain_all (cabs s)) /\
         Permutation (snd (cdrain s)) (snd (drain_all (cabs s))).
Proof.
  intros HJ. unfold cdrain, drain_all; cbn [fst snd].
  set (live := filter _ (concat (cslots s))).
  assert (Ht : fold_left (fun t id => tdel (ckey (hget (cheap s) id)) t) live (ctimers s) = []).
  { apply nil_if_no_member. intros [k [p id]] Hin. apply fold_tdel_in in Hin.
    destruct Hin as [Hin Hno]. destruct (J_tim s HJ _ _ _ Hin) as (Hp & Hid & Hkey & Hlive & Hslot).
    apply (Hno id); [|cbn; congruence].
    apply filter_In. split; [|rewrite Hlive; reflexivity].
    apply (in_concat_nth _ (Z.to_nat p)); [apply pos_nat_lt; assumption|exact Hslot]. }
  rewrite Ht. split; [|split].
  - pose proof HJ as [H1 H2 H3 H4 H5 H6 H7 H8].
    assert (Hemp : forall q, nth q (map (fun _ : list nat => @nil nat) (cslots s)) [] = [])
      by (intros q; apply nth_map_nil).
    constructor; cbn [cheap cslots ctimers cn cint cpos].
    + exact H1.
    + exact H2.
    + exact H3.
    + rewrite map_length. exact H4.
    + constructor.
    + intros k p id [].
    + intros q id _ Hin. rewrite Hemp in Hin. destruct Hin.
    + clear. induction (cslots s) as [|a l IH]; cbn; [constructor|exact IH].
  - reflexivity.
  - cbn [cabs sents]. rewrite map_map. cbn [ekey evalue].
    apply NoDup_Permutation.
    + apply live_ids_nodup. exact HJ.
    + pose proof (J_keys s HJ) as Hnd. revert Hnd. clear.
      induction (ctimers s) as [|a t IH]; cbn; intros H; [constructor|].
      inversion H as [|? ? Ha Hl]; subst. constructor; [|apply IH, Hl].
      intros Hin. apply Ha. apply in_map_iff in Hin. destruct Hin as (x & Hx & Hxl).
      apply in_map_iff. exists x. split; [congruence|exact Hxl].
    + intros [k v]. split; intros Hin; apply in_map_iff in Hin; apply in_map_iff.
      * destruct Hin as (id & [= Hk Hv] & Hid). apply filter_In in Hid.
        destruct Hid as [Hid Hl]. apply negb_true_iff in Hl.
        apply in_concat_inv in Hid. destruct Hid as (q & Hq & Hid).
        destruct (J_slot s HJ q id Hq Hid) as (_ & B). specialize (B Hl).
        exists (ckey (hget (cheap s) id), (Z.of_nat q, id)). cbn [fst snd]. split; [congruence|exact B].
      * destruct Hin as ([k' [p id]] & [= Hk Hv] & Hin). cbn [fst snd] in *.
        destruct (J_tim s HJ _ _ _ Hin) as (Hp & Hid & Hkey & Hlive & Hslot).
        exists id. split; [congruence|].
        apply filter_In. split; [|rewrite Hlive; reflexivity].
        apply (in_concat_nth _ (Z.to_nat p)); [apply pos_nat_lt; assumption|exact Hslot].
Qed.

(* ------------------------------------------------------------------ *)
(* Tick: the flat scan, key by key                                      *)

Definition otl {A} (o : option A) : list A := match o with Some x => [x] | None => [] end.

Definition scan_key (n p k : Z) (l : list entry) : list entry :=
  flat_map (fun e => if ekey e =? k then otl (scan_entry n p e) else [e]) l.

Definition mem (k : Z) (ks : list Z) : bool := existsb (Z.eqb k) ks.

Lemma mem_in k ks : mem k ks = true <-> In k ks.
Proof.
  unfold mem. rewrite existsb_exists. split.
  - intros (x & Hx & E0). apply Z.eqb_eq in E0. subst. exact Hx.
  - intros H. exists k. split; [exact H|apply Z.eqb_refl].
Qed.

Lemma flat_map_ext_in {A B} (f g : A -> list B) l :
  (forall a, In a l -> f a = g a) -> flat_map f l = flat_map g l.
Proof.
  induction l as [|a l IH]; cbn; intros H; [reflexivity|].
  rewrite H by (left; reflexivity). f_equal. apply IH. intros b Hb. apply H. right. exact Hb.
Qed.

Lemma flat_map_flat_map {A B C} (f : A -> list B) (g : B -> list C) l :
  flat_map g (flat_map f l) = flat_map (fun a => flat_map g (f a)) l.
Proof.
  induction l as [|a l IH]; cbn; [reflexivity|]. rewrite flat_map_app. f_equal. exact IH.
Qed.

Lemma map_as_flat_map {A B} (f : A -> B) l : map f l = flat_map (fun a => [f a]) l.
Proof. induction l as [|a l IH]; cbn; [reflexivity|f_equal; exact IH]. Qed.

Lemma map_filter_as_flat_map {A B} (f : A -> B) (q : A -> bool) l :
  map f (filter q l) = flat_map (fun a => if q a then [f a] else []) l.
Proof. induction l as [|a l IH]; cbn; [reflexivity|]. destruct (q a); cbn; [f_equal|]; exact IH. Qed.

Lemma scan_fst n p l : fst (scan n p l) = flat_map (fun e => otl (scan_entry n p e)) l.
Proof.
  induction l as [|e l IH]; cbn [scan flat_map]; [reflexivity|].
  destruct (scan n p l) as [keep f]. cbn [fst] in IH.
  destruct (scan_entry n p e); cbn [fst otl app]; [f_equal|]; exact IH.
Qed.

Lemma scan_snd n p l :
  snd (scan n p l) =
  flat_map (fun e => match scan_entry n p e with None => [(ekey e, evalue e)] | Some _ => [] end) l.
Proof.
  induction l as [|e l IH]; cbn [scan flat_map]; [reflexivity|].
  destruct (scan n p l) as [keep f]. cbn [snd] in IH.
  destruct (scan_entry n p e); cbn [snd app]; [|f_equal]; exact IH.
Qed.

Lemma fold_scan_key n p ks l :
  NoDup ks ->
  fold_left (fun l k => scan_key n p k l) ks l =
  flat_map (fun e => if mem (ekey e) ks then otl (scan_entry n p e) else [e]) l.
Proof.
  revert l. induction ks as [|k ks IH]; intros l Hnd; cbn [fold_left].
  - cbn. induction l as [|a l IHl]; cbn; [reflexivity|]. f_equal. exact IHl.
  - inversion Hnd as [|? ? Hk Hnd']; subst. rewrite IH by exact Hnd'.
    unfold scan_key. rewrite flat_map_flat_map. apply flat_map_ext_in. intros e _.
    unfold mem at 2; cbn [existsb]. fold (mem (ekey e) ks).
    destruct (Z.eqb_spec (ekey e) k) as [Ek|Ek]; cbn [orb].
    + destruct (scan_entry n p e) as [e'|] eqn:Es; cbn [otl flat_map]; [|reflexivity].
      rewrite (scan_entry_key _ _ _ _ Es), Ek.
      destruct (mem k ks) eqn:Em; [apply mem_in in Em; contradiction|]. reflexivity.
    + cbn [flat_map]. rewrite app_nil_r. reflexivity.
Qed.

Lemma scan_is_fold n p ks l :
  NoDup ks ->
  (forall e, In e l -> epos e = p -> In (ekey e) ks) ->
  fst (scan n p l) = fold_left (fun l k => scan_key n p k l) ks l.
Proof.
  intros Hnd Hcov. rewrite fold_scan_key by exact Hnd. rewrite scan_fst.
  apply flat_map_ext_in. intros e He.
  destruct (mem (ekey e) ks) eqn:Em; [reflexivity|].
  unfold scan_entry. destruct (Z.eqb_spec (epos e) p) as [Ep|Ep]; [|reflexivity].
  exfalso. specialize (Hcov e He Ep). apply mem_in in Hcov. congruence.
Qed.

Lemma scan_entry_ewf n p e e' :
  0 < n -> ewf n e -> scan_entry n p e = Some e' -> ewf n e'.
Proof.
  intros Hn (Hp & Hc & Hd). unfold scan_entry. destruct (epos e =? p); [|intros [= <-]; unfold ewf; lia].
  destruct (Z.ltb_spec 0 (ecircle e)); [intros [= <-]; unfold ewf; cbn; repeat split; lia|].
  destruct (Z.ltb_spec 0 (ediff e)); [|discriminate]. intros [= <-]. unfold ewf; cbn.
  pose proof (Z.mod_pos_bound (p + ediff e) n Hn). repeat split; lia.
Qed.

Lemma scan_key_ewf n p k l : 0 < n -> Forall (ewf n) l -> Forall (ewf n) (scan_key n p k l).
Proof.
  intros Hn H. unfold scan_key. apply Forall_forall. intros x Hx. apply in_flat_map in Hx.
  destruct Hx as (e & He & Hx). rewrite Forall_forall in H. specialize (H e He).
  destruct (ekey e =? k); [|destruct Hx as [<-|[]]; exact H].
  destruct (scan_entry n p e) as [e'|] eqn:Es; cbn in Hx; [|contradiction].
  destruct Hx as [<-|[]]. eapply scan_entry_ewf; eauto.
Qed.

Lemma mod_shift_ne n p d : 0 < n -> 0 <= p < n -> 0 < d < n -> (p + d) mod n <> p.
Proof.
  intros Hn Hp Hd E0.
  destruct (Z.lt_ge_cases (p + d) n) as [Hlt|Hge].
  - rewrite Z.mod_small in E0 by lia. lia.
  - assert ((p + d) mod n = p + d - n).
    { symmetry. apply (Z.mod_unique_pos _ _ 1); lia. }
    lia.
Qed.

(* ------------------------------------------------------------------ *)
(* Tick: slot surgery preserves J                                       *)

Lemma drop_id_in p id sl q x :
  In x (nth q (drop_id p id sl) []) -> In x (nth q sl []) /\ (q = Z.to_nat p -> x <> id).
Proof.
  unfold drop_id. intros H. destruct (Nat.eq_dec (Z.to_nat p) q) as [E0|E0].
  - subst q. destruct (Nat.lt_ge_cases (Z.to_nat p) (length sl)) as [Hlt|Hge].
    + rewrite nth_upd_nth_eq in H by exact Hlt. apply filter_In in H. destruct H as [H1 H2].
      split; [exact H1|]. intros _ ->. rewrite Nat.eqb_refl in H2. discriminate.
    + rewrite nth_overflow in H by (rewrite upd_nth_length; lia). destruct H.
  - rewrite nth_upd_nth_neq in H by exact E0. split; [exact H|]. intros ->. contradiction.
Qed.

Lemma drop_id_keep p id sl q x :
  In x (nth q sl []) -> x <> id -> In x (nth q (drop_id p id sl) []).
Proof.
  unfold drop_id. intros H Hne. destruct (Nat.eq_dec (Z.to_nat p) q) as [E0|E0].
  - subst q. destruct (Nat.lt_ge_cases (Z.to_nat p) (length sl)) as [Hlt|Hge].
    + rewrite nth_upd_nth_eq by exact Hlt. apply filter_In. split; [exact H|].
      apply negb_true_iff, Nat.eqb_neq. exact Hne.
    + rewrite nth_overflow in H by lia. destruct H.
  - rewrite nth_upd_nth_neq by exact E0. exact H.
Qed.

Lemma drop_id_nodup p id sl : NoDup (concat sl) -> NoDup (concat (drop_id p id sl)).
Proof.
  intros Hnd. unfold drop_id.
  destruct (Nat.lt_ge_cases (Z.to_nat p) (length sl)) as [Hlt|Hge].
  - apply nodup_concat_upd; auto.
    + apply NoDup_filter. apply nodup_concat_nth. exact Hnd.
    + intros x Hx q' Hne Hq' Hin'. apply filter_In in Hx. destruct Hx as [Hx _].
      apply Hne. symmetry. eapply nodup_concat_unique; eauto.
  - replace (upd_nth (Z.to_nat p) _ sl) with sl; [exact Hnd|].
    clear Hnd. revert Hge. generalize (Z.to_nat p) as i. induction sl as [|a l IH]; intros [|i] H; cbn in *; auto; try lia.
    f_equal. apply IH. lia.
Qed.

(* drop a pointer that the map no longer (or never) refers to *)
Lemma J_drop s p id t' :
  J s -> NoDup (map fst t') ->
  (forall kv, In kv t' -> In kv (ctimers s) /\ snd (snd kv) <> id) ->
  (forall kv, In kv (ctimers s) -> snd (snd kv) <> id -> In kv t') ->
  In id (nth (Z.to_nat p) (cslots s) []) -> (Z.to_nat p < length (cslots s))%nat ->
  J (mkC (cn s) (cint s) (cpos s) (cheap s) (drop_id p id (cslots s)) t').
Proof.
  intros HJ Hnd Hsub Hsup Hid Hq0. pose proof HJ as [H1 H2 H3 H4 H5 H6 H7 H8].
  constructor; cbn [cheap cslots ctimers cn cint cpos]; auto.
  - unfold drop_id. rewrite upd_nth_length. exact H4.
  - intros k p' id' Hin. destruct (Hsub _ Hin) as [Hin0 Hne]. cbn in Hne.
    destruct (H6 k p' id' Hin0) as (A & B & C & D & F).
    split; [exact A|]. split; [exact B|]. split; [exact C|]. split; [exact D|].
    apply drop_id_keep; assumption.
  - intros q id' Hq Hin. unfold drop_id in Hq. rewrite upd_nth_length in Hq.
    apply drop_id_in in Hin. destruct Hin as [Hin Hne].
    destruct (H7 q id' Hq Hin) as (A & B). split; [exact A|]. intros Hl.
    apply Hsup; [apply B, Hl|]. cbn.
    destruct (Nat.eq_dec q (Z.to_nat p)) as [E0|E0]; [apply Hne, E0|].
    intros ->. apply E0. eapply nodup_concat_unique; eauto.
  - apply drop_id_nodup. exact H8.
Qed.

(* hang an allocated, live, unmapped and unlinked cell into slot np under its key *)
Lemma J_attach s k np id :
  J s -> (id < length (cheap s))%nat -> ~ In id (concat (cslots s)) ->
  cremoved (hget (cheap s) id) = false -> ckey (hget (cheap s) id) = k ->
  tget k (ctimers s) = None -> 0 <= np < cn s ->
  J (mkC (cn s) (cint s) (cpos s) (cheap s) (push np id (cslots s)) (tput k (np, id) (ctimers s))).
Proof.
  intros HJ Hid Hfresh Hlive Hkey Hk Hnp. pose proof (pos_nat_lt s np HJ Hnp) as Hq0.
  destruct HJ as [H1 H2 H3 H4 H5 H6 H7 H8].
  assert (Hkn : forall kv, In kv (ctimers s) -> fst kv <> k).
  { intros kv Hin E0. apply (tget_none _ _ Hk). rewrite <- E0. apply in_map. exact Hin. }
  constructor; cbn [cheap cslots ctimers cn cint cpos]; auto.
  - unfold push. rewrite upd_nth_length. exact H4.
  - apply tput_nodup. exact H5.
  - intros k' p id' Hin. apply tput_in in Hin.
    destruct Hin as [[= -> -> ->]|[Hin _]].
    + repeat split; try lia; auto.
      unfold push. rewrite nth_upd_nth_eq by exact Hq0. apply in_or_app. right. left. reflexivity.
    + destruct (H6 k' p id' Hin) as (A & B & C & D & F).
      split; [exact A|]. split; [exact B|]. split; [exact C|]. split; [exact D|].
      unfold push. destruct (Nat.eq_dec (Z.to_nat np) (Z.to_nat p)) as [E0|E0].
      * rewrite E0. rewrite nth_upd_nth_eq by (rewrite <- E0; exact Hq0).
        apply in_or_app. left. exact F.
      * rewrite nth_upd_nth_neq by exact E0. exact F.
  - intros q id' Hq Hin. unfold push in *. rewrite upd_nth_length in Hq.
    assert (Hold : In id' (nth q (cslots s) []) ->
      (id' < length (cheap s))%nat /\
      (cremoved (hget (cheap s) id') = false ->
       In (ckey (hget (cheap s) id'), (Z.of_nat q, id')) (tput k (np, id) (ctimers s)))).
    { intros Hin0. destruct (H7 q id' Hq Hin0) as (A & B). split; [exact A|]. intros Hl.
      specialize (B Hl). apply tput_in_old; [exact B|]. apply (Hkn _ B). }
    destruct (Nat.eq_dec (Z.to_nat np) q) as [E0|E0].
    + subst q. rewrite nth_upd_nth_eq in Hin by exact Hq.
      apply in_app_or in Hin. destruct Hin as [Hin|[<-|[]]]; [apply Hold, Hin|].
      split; [exact Hid|]. intros _. rewrite Hkey. rewrite Z2Nat.id by lia. apply tput_in_new.
    + rewrite nth_upd_nth_neq in Hin by exact E0. apply Hold, Hin.
  - unfold push. apply nodup_concat_upd; auto.
    + apply nodup_app_intro.
      * apply nodup_concat_nth, H8.
      * constructor; [intros []|constructor].
      * intros x Hx [<-|[]]. apply Hfresh. apply (in_concat_nth _ (Z.to_nat np)); assumption.
    + intros x Hx q' Hne Hq' Hin'. apply in_app_or in Hx. destruct Hx as [Hx|[<-|[]]].
      * apply Hne. symmetry. eapply nodup_concat_unique; eauto.
      * apply Hfresh. apply (in_concat_nth _ q'); assumption.
Qed.

(* ------------------------------------------------------------------ *)
(* Tick: one iteration of the walk                                      *)

Definition fires (c : cell) : bool :=
  negb (cremoved c) && negb (0 <? ccircle c) && negb (0 <? cdiff c).

Lemma flat_map_map {A B C} (g : A -> B) (f : B -> list C) l :
  flat_map f (map g l) = flat_map (fun a => f (g a)) l.
Proof. induction l as [|a l IH]; cbn; [reflexivity|]. f_equal. exact IH. Qed.

Lemma scan_key_absl n p k h (t : tmap) :
  scan_key n p k (absl h t) =
  flat_map (fun kv => if fst kv =? k then otl (scan_entry n p (E h kv)) else [E h kv]) t.
Proof. unfold scan_key, absl. rewrite flat_map_map. reflexivity. Qed.

Lemma cscan1_ok p s f id :
  J s -> cpos s = p -> In id (nth (Z.to_nat p) (cslots s) []) ->
  let c := hget (cheap s) id in
  let s' := fst (cscan1 p (s, f) id) in
  J s' /\ cn s' = cn s /\ cint s' = cint s /\ cpos s' = cpos s /\
  absl (cheap s') (ctimers s') =
    (if cremoved c then absl (cheap s) (ctimers s)
     else scan_key (cn s) p (ckey c) (absl (cheap s) (ctimers s))) /\
  (forall id', id' <> id -> hget (cheap s') id' = hget (cheap s) id') /\
  (forall id', id' <> id -> In id' (nth (Z.to_nat p) (cslots s) []) ->
               In id' (nth (Z.to_nat p) (cslots s') [])) /\
  snd (cscan1 p (s, f) id) = f ++ (if fires c then [(ckey c, cval c)] else []).
Proof.
  intros HJ Hpos Hin c s'.
  assert (Hp : 0 <= p < cn s) by (rewrite <- Hpos; apply (J_pos s HJ)).
  pose proof (pos_nat_lt s p HJ Hp) as Hq0.
  destruct (J_slot s HJ _ _ Hq0 Hin) as (Hid & Hmap0).
  rewrite Z2Nat.id in Hmap0 by lia. fold c in Hmap0.
  unfold s', cscan1, fires. fold c.
  destruct (cremoved c) eqn:Hrem; cbn [negb andb fst snd cn cint cpos cheap cslots ctimers].
  - (* an entry flagged removed is unlinked *)
    split; [|repeat split; auto using app_nil_r].
    + apply (J_drop s p id (ctimers s)); auto.
      * apply (J_keys s HJ).
      * intros [k [p' id']] Hkv. split; [exact Hkv|]. cbn. intros ->.
        destruct (J_tim s HJ _ _ _ Hkv) as (_ & _ & _ & D & _). fold c in D. congruence.
    + intros id' Hne Hin'. apply drop_id_keep; assumption.
    + rewrite app_nil_r. reflexivity.
  - specialize (Hmap0 eq_refl). set (k := ckey c) in *.
    assert (Huniq : forall kv, In kv (ctimers s) -> fst kv = k -> kv = (k, (p, id))).
    { intros [k' [p' id']] Hkv Hk. cbn in Hk. subst k'.
      pose proof (tmap_unique _ _ _ _ (J_keys s HJ) Hkv Hmap0) as E0. congruence. }
    assert (Hother : forall kv, In kv (ctimers s) -> fst kv <> k -> snd (snd kv) <> id).
    { intros [k' [p' id']] Hkv Hk. cbn in *. intros ->.
      destruct (J_id_key s k p id k' p' HJ Hmap0 Hkv). congruence. }
    destruct (0 <? ccircle c) eqn:Hcirc; cbn [negb andb fst snd cn cint cpos cheap cslots ctimers].
    + (* one more revolution to wait *)
      split; [apply J_field_update; [exact HJ|intros c0; cbn; auto]|].
      split; [reflexivity|]. split; [reflexivity|]. split; [reflexivity|].
      split; [|split; [|split]].
      * rewrite scan_key_absl. unfold absl. rewrite map_as_flat_map.
        apply flat_map_ext_in. intros kv Hkv.
        destruct (Z.eqb_spec (fst kv) k) as [Ek|Ek].
        -- rewrite (Huniq kv Hkv Ek). unfold scan_entry, E; cbn [fst snd epos ecircle ediff ekey evalue].
           rewrite hget_upd_eq by exact Hid. fold c. rewrite Z.eqb_refl, Hcirc. reflexivity.
        -- unfold E. rewrite hget_upd_neq by (apply not_eq_sym, Hother; assumption). reflexivity.
      * intros id' Hne. apply hget_upd_neq. auto.
      * auto.
      * rewrite app_nil_r. reflexivity.
    + destruct (0 <? cdiff c) eqn:Hdiff; cbn [negb andb fst snd cn cint cpos cheap cslots ctimers].
      * (* relocated for the rest of its delay *)
        set (np := (p + cdiff c) mod cn s).
        assert (Hnp : 0 <= np < cn s) by (apply Z.mod_pos_bound; lia).
        set (h1 := upd_nth id _ (cheap s)).
        set (s1 := mkC (cn s) (cint s) (cpos s) h1 (cslots s) (ctimers s)).
        assert (HJ1 : J s1) by (apply J_field_update; [exact HJ|intros c0; cbn; auto]).
        assert (Hc1 : ckey (hget h1 id) = k /\ cremoved (hget h1 id) = false).
        { unfold h1. rewrite hget_upd_eq by exact Hid. fold c. cbn. auto. }
        set (s2 := mkC (cn s) (cint s) (cpos s) h1 (drop_id p id (cslots s)) (tdel k (ctimers s))).
        assert (HJ2 : J s2).
        { apply (J_drop s1 p id (tdel k (ctimers s))); auto.
          - apply tdel_nodup, (J_keys s HJ).
          - intros kv Hkv. apply tdel_in in Hkv. destruct Hkv as [Hkv Hk]. split; [exact Hkv|].
            apply Hother; assumption.
          - intros kv Hkv Hne. apply tdel_in. split; [exact Hkv|]. intros Hk.
            apply Hne. rewrite (Huniq kv Hkv Hk). reflexivity. }
        assert (HJ3 : J (mkC (cn s) (cint s) (cpos s) h1 (push np id (drop_id p id (cslots s)))
                             (tput k (np, id) (tdel k (ctimers s))))).
        { assert (A1 : (id < length (cheap s2))%nat)
            by (cbn [cheap s2]; unfold h1; rewrite upd_nth_length; exact Hid).
          assert (A2 : ~ In id (concat (cslots s2))).
          { cbn [cslots s2]. intros Hc. apply in_concat_inv in Hc. destruct Hc as (q & Hq & Hc).
            apply drop_id_in in Hc. destruct Hc as [Hc Hne].
            unfold drop_id in Hq. rewrite upd_nth_length in Hq.
            assert (q = Z.to_nat p) by (eapply nodup_concat_unique; eauto; apply (J_nodup s HJ)).
            apply (Hne H). reflexivity. }
          assert (A3 : tget k (ctimers s2) = None).
          { destruct (tget k (ctimers s2)) as [pi|] eqn:E0; [|reflexivity].
            apply tget_in in E0. cbn in E0. apply tdel_in in E0. cbn in E0. tauto. }
          exact (J_attach s2 k np id HJ2 A1 A2 (proj2 Hc1) (proj1 Hc1) A3 Hnp). }
        split.
        { set (s3 := mkC _ _ _ _ _ _) in HJ3.
          apply (J_timers_equiv s3 (tput k (np, id) (ctimers s))) in HJ3; [exact HJ3| |].
          - apply tput_nodup, (J_keys s HJ).
          - intros kv. cbn [ctimers s3]. split; intros H.
            + apply tput_in in H. destruct H as [->|[H Hne]]; [apply tput_in_new|].
              apply tput_in_old; [|exact Hne]. apply tdel_in. auto.
            + apply tput_in in H. destruct H as [->|[H Hne]]; [apply tput_in_new|].
              apply tdel_in in H. apply tput_in_old; tauto. }
        split; [reflexivity|]. split; [reflexivity|]. split; [reflexivity|].
        split; [|split; [|split]].
        -- rewrite scan_key_absl. unfold tput.
           rewrite (proj2 (tget_iff _ _ _ (J_keys s HJ)) Hmap0).
           unfold absl. rewrite map_map, map_as_flat_map.
           apply flat_map_ext_in. intros kv Hkv.
           destruct (Z.eqb_spec (fst kv) k) as [Ek|Ek].
           ++ rewrite (Huniq kv Hkv Ek). unfold scan_entry, E; cbn [fst snd epos ecircle ediff ekey evalue].
              fold h1. unfold h1 at 1 2 3. rewrite hget_upd_eq by exact Hid. fold c.
              rewrite Z.eqb_refl, Hcirc, Hdiff. reflexivity.
           ++ unfold E. fold h1. unfold h1.
              rewrite hget_upd_neq by (apply not_eq_sym, Hother; assumption). reflexivity.
        -- intros id' Hne. apply hget_upd_neq. auto.
        -- intros id' Hne Hin'. unfold push.
           destruct (Nat.eq_dec (Z.to_nat np) (Z.to_nat p)) as [E0|E0].
           ++ rewrite E0. rewrite nth_upd_nth_eq by (unfold drop_id; rewrite upd_nth_length; exact Hq0).
              apply in_or_app. left. apply drop_id_keep; assumption.
           ++ rewrite nth_upd_nth_neq by exact E0. apply drop_id_keep; assumption.
        -- rewrite app_nil_r. reflexivity.
      * (* due: it fires and is forgotten *)
        split.
        { apply (J_drop s p id (tdel k (ctimers s))); auto.
          - apply tdel_nodup, (J_keys s HJ).
          - intros kv Hkv. apply tdel_in in Hkv. destruct Hkv as [Hkv Hk]. split; [exact Hkv|].
            apply Hother; assumption.
          - intros kv Hkv Hne. apply tdel_in. split; [exact Hkv|]. intros Hk.
            apply Hne. rewrite (Huniq kv Hkv Hk). reflexivity. }
        split; [reflexivity|]. split; [reflexivity|]. split; [reflexivity|].
        split; [|split; [|split]].
        -- rewrite scan_key_absl. unfold absl, tdel. rewrite map_filter_as_flat_map.
           apply flat_map_ext_in. intros kv Hkv.
           destruct (Z.eqb_spec (fst kv) k) as [Ek|Ek]; cbn [negb]; [|reflexivity].
           rewrite (Huniq kv Hkv Ek). unfold scan_entry, E; cbn [fst snd epos ecircle ediff ekey evalue].
           fold c. rewrite Z.eqb_refl, Hcirc, Hdiff. reflexivity.
        -- reflexivity.
        -- intros id' Hne Hin'. apply drop_id_keep; assumption.
        -- reflexivity.
Qed.

(* ------------------------------------------------------------------ *)
(* Tick: the whole walk                                                 *)

Definition live_keys (h : list cell) (ids : list nat) : list Z :=
  map (fun id => ckey (hget h id)) (filter (fun id => negb (cremoved (hget h id))) ids).

Definition fire_of (h : list cell) (id : nat) : fired :=
  let c := hget h id in if fires c then [(ckey c, cval c)] else [].

Lemma cscan_fold p ids : forall s f ks l0,
  J s -> cpos s = p -> NoDup ids ->
  (forall id, In id ids -> In id (nth (Z.to_nat p) (cslots s) [])) ->
  absl (cheap s) (ctimers s) = fold_left (fun l k => scan_key (cn s) p k l) ks l0 ->
  let r := fold_left (cscan1 p) ids (s, f) in
  J (fst r) /\ cn (fst r) = cn s /\ cint (fst r) = cint s /\ cpos (fst r) = cpos s /\
  absl (cheap (fst r)) (ctimers (fst r)) =
    fold_left (fun l k => scan_key (cn s) p k l) (ks ++ live_keys (cheap s) ids) l0 /\
  snd r = f ++ flat_map (fire_of (cheap s)) ids.
Proof.
  induction ids as [|id ids IH]; intros s f ks l0 HJ Hpos Hnd Hin Habs; cbn [fold_left].
  - unfold live_keys; cbn. rewrite !app_nil_r.
    split; [exact HJ|]. split; [reflexivity|]. split; [reflexivity|]. split; [reflexivity|].
    split; [exact Habs|reflexivity].
  - inversion Hnd as [|? ? Hnotin Hnd']; subst.
    pose proof (cscan1_ok (cpos s) s f id HJ eq_refl (Hin id (or_introl eq_refl))) as Hstep.
    cbv zeta in Hstep. destruct Hstep as (HJ1 & Hn1 & Hi1 & Hp1 & Habs1 & Hheap & Hslots & Hf1).
    destruct (cscan1 (cpos s) (s, f) id) as [s1 f1] eqn:Es1. cbn [fst snd] in *.
    set (c := hget (cheap s) id) in *.
    set (ks1 := if cremoved c then ks else ks ++ [ckey c]).
    assert (Hsame : forall id', In id' ids -> hget (cheap s1) id' = hget (cheap s) id').
    { intros id' Hin'. apply Hheap. intros ->. contradiction. }
    assert (Habs1' : absl (cheap s1) (ctimers s1) =
                     fold_left (fun l k => scan_key (cn s1) (cpos s) k l) ks1 l0).
    { rewrite Habs1, Hn1. unfold ks1. destruct (cremoved c); [exact Habs|].
      rewrite fold_left_app. cbn [fold_left]. rewrite Habs. reflexivity. }
    assert (Hin1 : forall id', In id' ids -> In id' (nth (Z.to_nat (cpos s)) (cslots s1) [])).
    { intros id' Hin'. apply Hslots; [intros ->; contradiction|]. apply Hin. right. exact Hin'. }
    specialize (IH s1 f1 ks1 l0 HJ1 Hp1 Hnd' Hin1 Habs1').
    cbv zeta in IH. destruct IH as (HJr & Hnr & Hir & Hpr & Habsr & Hfr).
    split; [exact HJr|]. split; [congruence|]. split; [congruence|]. split; [congruence|]. split.
    + rewrite Habsr, Hn1. f_equal.
      assert (Hlk : live_keys (cheap s1) ids = live_keys (cheap s) ids).
      { unfold live_keys. clear -Hsame. induction ids as [|a l IHl]; cbn; [reflexivity|].
        rewrite (Hsame a (or_introl eq_refl)).
        assert (IH' := IHl (fun x Hx => Hsame x (or_intror Hx))).
        destruct (cremoved (hget (cheap s) a)); cbn [negb map]; [exact IH'|].
        rewrite (Hsame a (or_introl eq_refl)). f_equal. exact IH'. }
      rewrite Hlk. unfold ks1, live_keys; cbn [filter]. fold c.
      destruct (cremoved c); cbn [negb map]; [reflexivity|]. rewrite <- app_assoc. reflexivity.
    + rewrite Hfr, Hf1. cbn [flat_map]. unfold fire_of at 2. fold c. rewrite <- app_assoc. f_equal. f_equal.
      apply flat_map_ext_in. intros id' Hin'. unfold fire_of. rewrite (Hsame id' Hin'). reflexivity.
Qed.

Lemma J_set_pos s p : J s -> 0 <= p < cn s ->
  J (mkC (cn s) (cint s) p (cheap s) (cslots s) (ctimers s)).
Proof. intros [H1 H2 H3 H4 H5 H6 H7 H8] Hp. constructor; cbn [cheap cslots ctimers cn cint cpos]; auto. Qed.

Lemma nodup_map_inj_on {A B} (h : A -> B) l :
  NoDup l -> (forall x y, In x l -> In y l -> h x = h y -> x = y) -> NoDup (map h l).
Proof.
  induction l as [|a l IH]; cbn; intros Hnd Hinj; [constructor|].
  inversion Hnd as [|? ? Ha Hl]; subst. constructor.
  - intros Hin. apply in_map_iff in Hin. destruct Hin as (x & Hx & Hxl).
    assert (x = a) by (apply Hinj; auto). subst. contradiction.
  - apply IH; auto.
Qed.

Lemma scan_snd_keys_nodup n p l : NoDup (map ekey l) -> NoDup (map fst (snd (scan n p l))).
Proof.
  induction l as [|e l IH]; cbn [scan map]; intros H; [constructor|].
  inversion H as [|? ? Ha Hl]; subst. specialize (IH Hl).
  assert (Hsub : forall k, In k (map fst (snd (scan n p l))) -> In k (map ekey l)).
  { clear. induction l as [|a l IHl]; cbn [scan]; [auto|].
    destruct (scan n p l) as [keep f]. cbn [snd] in *.
    destruct (scan_entry n p a); cbn [snd map]; intros k Hk.
    - right. apply IHl, Hk.
    - destruct Hk as [<-|Hk]; [left; reflexivity|right; apply IHl, Hk]. }
  destruct (scan n p l) as [keep f]. cbn [snd] in *.
  destruct (scan_entry n p e); cbn [snd map]; [exact IH|].
  constructor; [|exact IH]. intros Hin. apply Ha. apply Hsub. exact Hin.
Qed.

Lemma cstep_tick s :
  J s -> J (fst (con_tick s)) /\ cabs (fst (con_tick s)) = fst (on_tick (cabs s)) /\
         Permutation (snd (con_tick s)) (snd (on_tick (cabs s))).
Proof.
  intros HJ. unfold con_tick, on_tick. cbv zeta. cbn [cabs sn spos sents].
  set (p := (cpos s + 1) mod cn s).
  assert (Hp : 0 <= p < cn s) by (apply Z.mod_pos_bound; pose proof (J_n s HJ); lia).
  set (s0 := mkC (cn s) (cint s) p (cheap s) (cslots s) (ctimers s)).
  pose proof (J_set_pos s p HJ Hp) as HJ0. fold s0 in HJ0.
  set (ids := nth (Z.to_nat p) (cslots s) []).
  set (l0 := absl (cheap s) (ctimers s)).
  pose proof (pos_nat_lt s p HJ Hp) as Hq0.
  assert (Hndids : NoDup ids) by (apply nodup_concat_nth, (J_nodup s HJ)).
  destruct (cscan_fold p ids s0 [] [] l0 HJ0 eq_refl Hndids (fun id H => H) eq_refl)
    as (HJr & Hnr & Hir & Hpr & Habsr & Hfr).
  cbn [app cn cint cpos cheap s0] in *.
  (* facts relating the ticked slot and the map *)
  assert (Hslotmap : forall id, In id ids -> cremoved (hget (cheap s) id) = false ->
                      In (ckey (hget (cheap s) id), (p, id)) (ctimers s)).
  { intros id Hid Hl. destruct (J_slot s HJ _ _ Hq0 Hid) as (_ & B). specialize (B Hl).
    rewrite Z2Nat.id in B by lia. exact B. }
  assert (Hinj : forall x y, In x ids -> In y ids ->
            cremoved (hget (cheap s) x) = false -> cremoved (hget (cheap s) y) = false ->
            ckey (hget (cheap s) x) = ckey (hget (cheap s) y) -> x = y).
  { intros x y Hx Hy Lx Ly Hk. pose proof (Hslotmap x Hx Lx) as A. pose proof (Hslotmap y Hy Ly) as B.
    rewrite Hk in A. pose proof (tmap_unique _ _ _ _ (J_keys s HJ) A B) as E0. congruence. }
  assert (Hscan : fst (scan (cn s) p l0) =
                  fold_left (fun l k => scan_key (cn s) p k l) (live_keys (cheap s) ids) l0).
  { apply scan_is_fold.
    - unfold live_keys. apply nodup_map_inj_on; [apply NoDup_filter, Hndids|].
      intros x y Hx Hy Hk. apply filter_In in Hx. apply filter_In in Hy.
      destruct Hx as [Hx Lx], Hy as [Hy Ly]. apply negb_true_iff in Lx. apply negb_true_iff in Ly.
      apply Hinj; auto.
    - intros e He Hpos. unfold l0, absl in He. apply in_map_iff in He.
      destruct He as ([k [p' id]] & <- & Hkv). cbn [E epos ekey fst snd] in *. subst p'.
      destruct (J_tim s HJ _ _ _ Hkv) as (_ & _ & Hkey & Hlive & Hslot).
      unfold live_keys. apply in_map_iff. exists id. split; [exact Hkey|].
      apply filter_In. split; [exact Hslot|]. rewrite Hlive. reflexivity. }
  set (R := fold_left (cscan1 p) ids (s0, [])).
  assert (HJr' : J (fst R)) by exact HJr.
  assert (Hnr' : cn (fst R) = cn s) by exact Hnr.
  assert (Hir' : cint (fst R) = cint s) by exact Hir.
  assert (Hpr' : cpos (fst R) = p) by exact Hpr.
  assert (Habsr' : absl (cheap (fst R)) (ctimers (fst R)) =
                   fold_left (fun l k => scan_key (cn s) p k l) (live_keys (cheap s) ids) l0) by exact Habsr.
  assert (Hfr' : snd R = flat_map (fire_of (cheap s)) ids) by exact Hfr.
  clear HJr Hnr Hir Hpr Habsr Hfr.
  change (J (fst R) /\
          cabs (fst R) = fst (let '(keep, f) := scan (cn s) p l0 in
                              (mkState (cn s) (cint s) p keep, f)) /\
          Permutation (snd R) (snd (let '(keep, f) := scan (cn s) p l0 in
                                    (mkState (cn s) (cint s) p keep, f)))).
  destruct (scan (cn s) p l0) as [keep ff] eqn:Esc. cbn [fst snd] in *.
  split; [exact HJr'|]. split.
  - rewrite cabs_eq. rewrite Hnr', Hir', Hpr', Habsr', <- Hscan. reflexivity.
  - rewrite Hfr'.
    assert (Hff : ff = snd (scan (cn s) p l0)) by (rewrite Esc; reflexivity).
    rewrite Hff. apply NoDup_Permutation.
    + (* concrete callbacks: distinct keys *)
      assert (Hform : flat_map (fire_of (cheap s)) ids =
                      map (fun id => (ckey (hget (cheap s) id), cval (hget (cheap s) id)))
                          (filter (fun id => fires (hget (cheap s) id)) ids)).
      { clear. induction ids as [|a l IH]; cbn; [reflexivity|]. unfold fire_of at 1.
        destruct (fires (hget (cheap s) a)); cbn; [f_equal|]; exact IH. }
      rewrite Hform. apply nodup_map_inj_on; [apply NoDup_filter, Hndids|].
      intros x y Hx Hy Hk. apply filter_In in Hx. apply filter_In in Hy.
      destruct Hx as [Hx Fx], Hy as [Hy Fy]. unfold fires in Fx, Fy.
      apply andb_true_iff in Fx. destruct Fx as [Fx _]. apply andb_true_iff in Fx. destruct Fx as [Lx _].
      apply andb_true_iff in Fy. destruct Fy as [Fy _]. apply andb_true_iff in Fy. destruct Fy as [Ly _].
      apply negb_true_iff in Lx. apply negb_true_iff in Ly. apply Hinj; auto. congruence.
    + (* flat callbacks: distinct keys, hence distinct pairs *)
      assert (Hk : NoDup (map fst (snd (scan (cn s) p l0)))).
      { apply scan_snd_keys_nodup. unfold l0. rewrite absl_keys. apply (J_keys s HJ). }
      revert Hk. generalize (snd (scan (cn s) p l0)). clear.
      intros l. induction l as [|a l IH]; cbn; intros H; [constructor|].
      inversion H as [|? ? Ha Hl]; subst. constructor; [|apply IH, Hl].
      intros Hin. apply Ha. apply in_map. exact Hin.
    + intros [k v]. rewrite scan_snd. rewrite !in_flat_map. split.
      * intros (id & Hid & Hkv). unfold fire_of in Hkv.
        destruct (fires (hget (cheap s) id)) eqn:Fi; [|destruct Hkv].
        destruct Hkv as [[= <- <-]|[]]. unfold fires in Fi.
        apply andb_true_iff in Fi. destruct Fi as [Fi Fd]. apply andb_true_iff in Fi. destruct Fi as [Fl Fc].
        apply negb_true_iff in Fl, Fc, Fd.
        exists (E (cheap s) (ckey (hget (cheap s) id), (p, id))). split.
        -- unfold l0, absl. apply in_map. apply Hslotmap; assumption.
        -- unfold scan_entry, E; cbn [fst snd epos ecircle ediff ekey evalue].
           rewrite Z.eqb_refl, Fc, Fd. left. reflexivity.
      * intros (e & He & Hkv). unfold l0, absl in He. apply in_map_iff in He.
        destruct He as ([k' [p' id]] & <- & Hkvt).
        unfold scan_entry, E in Hkv; cbn [fst snd epos ecircle ediff ekey evalue] in Hkv.
        destruct (Z.eqb_spec p' p) as [->|Hne]; [|destruct Hkv].
        destruct (0 <? ccircle (hget (cheap s) id)) eqn:Fc; [destruct Hkv|].
        destruct (0 <? cdiff (hget (cheap s) id)) eqn:Fd; [destruct Hkv|].
        destruct Hkv as [[= <- <-]|[]].
        destruct (J_tim s HJ _ _ _ Hkvt) as (_ & _ & Hkey & Hlive & Hslot).
        exists id. split; [exact Hslot|]. unfold fire_of, fires. rewrite Hlive, Fc, Fd. cbn.
        left. rewrite Hkey. reflexivity.
Qed.

(* ------------------------------------------------------------------ *)
(* the refinement                                                       *)

Theorem cstep_refines s o :
  J s ->
  J (fst (cstep s o)) /\ cabs (fst (cstep s o)) = fst (step (cabs s) o) /\
  Permutation (snd (cstep s o)) (snd (step (cabs s) o)).
Proof.
  intros HJ. destruct o as [k v d|k d|k| |]; cbn [cstep step fst snd].
  - destruct (cstep_set s k v d HJ) as [A B]. auto.
  - destruct (cstep_move s k d HJ) as (A & B & C). rewrite C. auto.
  - destruct (cstep_remove s k HJ) as [A B]. auto.
  - apply cstep_tick, HJ.
  - apply cstep_drain, HJ.
Qed.

Lemma crun_refines s ops :
  J s -> Forall2 (@Permutation (Z * Z)) (crun s ops) (run (cabs s) ops).
Proof.
  revert s. induction ops as [|o ops IH]; intros s HJ; cbn [crun run]; [constructor|].
  destruct (cstep_refines s o HJ) as (HJ' & Habs & Hperm).
  destruct (cstep s o) as [s' f]. destruct (step (cabs s) o) as [t g]. cbn [fst snd] in *.
  constructor; [exact Hperm|]. rewrite <- Habs. apply IH, HJ'.
Qed.

Theorem concrete_refines_flat n i ops :
  1 <= n -> 1 <= i ->
  Forall2 (@Permutation (Z * Z)) (crun (cinit n i) ops) (run (init n i) ops).
Proof.
  intros Hn Hi. rewrite <- cabs_init. apply crun_refines, J_init; assumption.
Qed.

(* hence the pointer-level wheel runs, at every operation, the callbacks of the
   "key |-> remaining ticks" specification (up to order inside one operation) *)
Theorem concrete_refines_due_map n i ops :
  1 <= n -> 1 <= i ->
  Forall2 (@Permutation (Z * Z)) (crun (cinit n i) ops) (sp_run i [] ops).
Proof.
  intros Hn Hi. rewrite <- (wheel_refines_spec n i ops Hn Hi).
  apply concrete_refines_flat; assumption.
Qed.
