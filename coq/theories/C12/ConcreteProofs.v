(* C12 — the pointer-level model (Concrete.v) refines the flat model (Model.v):
   under the representation invariant J, every operation commutes with the
   abstraction function [cabs] and runs the same callbacks (as a multiset). *)
From Coq Require Import List ZArith Bool Lia Permutation.
From GZ Require Import C12.Model C12.Concrete C12.Proofs.
Import ListNotations.
Open Scope Z_scope.

(* ------------------------------------------------------------------ *)
(* generic list lemmas                                                  *)

Lemma upd_nth_length {A} i (f : A -> A) l : length (upd_nth i f l) = length l.
Proof. revert i. induction l as [|x l IH]; intros [|i]; cbn; auto. Qed.

Lemma nth_upd_nth_eq {A} i (f : A -> A) l d :
  (i < length l)%nat -> nth i (upd_nth i f l) d = f (nth i l d).
Proof. revert i. induction l as [|x l IH]; intros [|i] H; cbn in *; try lia; auto. apply IH. lia. Qed.

Lemma nth_upd_nth_neq {A} i j (f : A -> A) l d :
  i <> j -> nth j (upd_nth i f l) d = nth j l d.
Proof.
  revert i j. induction l as [|x l IH]; intros [|i] [|j] H; cbn; auto; try congruence.
Qed.

Lemma hget_app_old h c id : (id < length h)%nat -> hget (h ++ [c]) id = hget h id.
Proof. intros H. unfold hget. apply app_nth1. exact H. Qed.

Lemma hget_app_new h c : hget (h ++ [c]) (length h) = c.
Proof. unfold hget. rewrite app_nth2 by lia. rewrite Nat.sub_diag. reflexivity. Qed.

Lemma hget_upd_eq h id f : (id < length h)%nat -> hget (upd_nth id f h) id = f (hget h id).
Proof. intros H. unfold hget. apply nth_upd_nth_eq. exact H. Qed.

Lemma hget_upd_neq h id id' f : id <> id' -> hget (upd_nth id f h) id' = hget h id'.
Proof. intros H. unfold hget. apply nth_upd_nth_neq. exact H. Qed.

Lemma in_concat_nth {A} (sl : list (list A)) q x :
  (q < length sl)%nat -> In x (nth q sl []) -> In x (concat sl).
Proof.
  intros Hq Hx. apply in_concat. exists (nth q sl []). split; [apply nth_In; exact Hq|exact Hx].
Qed.

Lemma in_concat_inv {A} (sl : list (list A)) x :
  In x (concat sl) -> exists q, (q < length sl)%nat /\ In x (nth q sl []).
Proof.
  intros H. apply in_concat in H. destruct H as (l & Hl & Hx).
  destruct (In_nth _ _ [] Hl) as (q & Hq & E). exists q. rewrite E. auto.
Qed.

Lemma nodup_app_inv {A} (l l' : list A) :
  NoDup (l ++ l') -> NoDup l /\ NoDup l' /\ (forall x, In x l -> ~ In x l').
Proof.
  induction l as [|a l IH]; cbn; intros H.
  - split; [constructor|]. split; [exact H|tauto].
  - inversion H as [|? ? Ha Hl]; subst. destruct (IH Hl) as (H1 & H2 & H3).
    split; [|split; [exact H2|]].
    + constructor; [|exact H1]. intros Hin. apply Ha, in_or_app. auto.
    + intros x [->|Hx]; [|apply H3, Hx]. intros Hin. apply Ha, in_or_app. auto.
Qed.

Lemma nodup_app_intro {A} (l l' : list A) :
  NoDup l -> NoDup l' -> (forall x, In x l -> ~ In x l') -> NoDup (l ++ l').
Proof.
  induction l as [|a l IH]; cbn; intros H1 H2 H3; [exact H2|].
  inversion H1 as [|? ? Ha Hl]; subst. constructor.
  - intros Hin. apply in_app_or in Hin. destruct Hin as [Hin|Hin]; [tauto|].
    apply (H3 a); auto.
  - apply IH; auto.
Qed.

(* an element of a duplicate-free concatenation lives in one sublist only *)
Lemma nodup_concat_unique {A} (sl : list (list A)) q q' x :
  NoDup (concat sl) -> (q < length sl)%nat -> (q' < length sl)%nat ->
  In x (nth q sl []) -> In x (nth q' sl []) -> q = q'.
Proof.
  revert q q'. induction sl as [|l sl IH]; intros q q' Hnd Hq Hq' Hx Hx'; cbn in *; [lia|].
  destruct (nodup_app_inv _ _ Hnd) as (Hnd1 & Hnd2 & Hdis).
  destruct q as [|q], q' as [|q']; auto.
  - exfalso. apply (Hdis x Hx). apply (in_concat_nth sl q'); [lia|exact Hx'].
  - exfalso. apply (Hdis x Hx'). apply (in_concat_nth sl q); [lia|exact Hx].
  - f_equal. apply IH; auto; lia.
Qed.

Lemma nodup_concat_nth {A} (sl : list (list A)) q :
  NoDup (concat sl) -> NoDup (nth q sl []).
Proof.
  revert q. induction sl as [|l sl IH]; intros q H; cbn in *.
  - destruct q; constructor.
  - destruct (nodup_app_inv _ _ H) as (H1 & H2 & _). destruct q; [exact H1|apply IH, H2].
Qed.

Lemma concat_upd_nth_in {A} (sl : list (list A)) q (f : list A -> list A) x :
  In x (concat (upd_nth q f sl)) ->
  (exists q', q' <> q /\ (q' < length sl)%nat /\ In x (nth q' sl [])) \/
  ((q < length sl)%nat /\ In x (f (nth q sl []))).
Proof.
  intros H. apply in_concat_inv in H. destruct H as (q' & Hq' & Hx).
  rewrite upd_nth_length in Hq'.
  destruct (Nat.eq_dec q q') as [->|Hne].
  - right. rewrite nth_upd_nth_eq in Hx by exact Hq'. auto.
  - left. rewrite nth_upd_nth_neq in Hx by exact Hne. exists q'. auto.
Qed.

(* replacing one sublist by a duplicate-free list of elements that occur nowhere else *)
Lemma nodup_concat_upd {A} (sl : list (list A)) q (f : list A -> list A) :
  NoDup (concat sl) -> (q < length sl)%nat -> NoDup (f (nth q sl [])) ->
  (forall x, In x (f (nth q sl [])) ->
     forall q', q' <> q -> (q' < length sl)%nat -> ~ In x (nth q' sl [])) ->
  NoDup (concat (upd_nth q f sl)).
Proof.
  revert q. induction sl as [|l sl IH]; intros q Hnd Hq Hf Hfresh; cbn in *; [lia|].
  destruct (nodup_app_inv _ _ Hnd) as (Hnd1 & Hnd2 & Hdis).
  destruct q as [|q]; cbn in *.
  - apply nodup_app_intro; auto. intros x Hx Hc.
    apply in_concat_inv in Hc. destruct Hc as (q' & Hq' & Hin).
    apply (Hfresh x Hx (S q')); [lia|lia|exact Hin].
  - apply nodup_app_intro; auto.
    + apply IH; auto; [lia|].
      intros x Hx q' Hne Hq'. apply (Hfresh x Hx (S q')); lia.
    + intros x Hx Hc. apply concat_upd_nth_in in Hc.
      destruct Hc as [(q' & _ & Hq' & Hin)|(_ & Hin)].
      * apply (Hdis x Hx). apply (in_concat_nth sl q'); assumption.
      * apply (Hfresh x Hin 0%nat); [lia|lia|exact Hx].
Qed.

(* ------------------------------------------------------------------ *)
(* the timers map                                                       *)

Definition tmap := list (Z * (Z * nat)).

Lemma tget_in k (t : tmap) pi : tget k t = Some pi -> In (k, pi) t.
Proof.
  unfold tget. destruct (find _ t) as [kv|] eqn:E; [|discriminate]. intros [= <-].
  apply find_some in E. destruct E as [E1 E2]. apply Z.eqb_eq in E2.
  destruct kv; cbn in *; subst; exact E1.
Qed.

Lemma tget_none k (t : tmap) : tget k t = None -> ~ In k (map fst t).
Proof.
  unfold tget. destruct (find _ t) as [kv|] eqn:E; [discriminate|]. intros _ Hin.
  apply in_map_iff in Hin. destruct Hin as (kv & Hk & Hkv).
  pose proof (find_none _ _ E kv Hkv) as H. cbn in H. rewrite Hk, Z.eqb_refl in H. discriminate.
Qed.

Lemma tmap_unique (t : tmap) k pi pi' :
  NoDup (map fst t) -> In (k, pi) t -> In (k, pi') t -> pi = pi'.
Proof.
  induction t as [|a t IH]; cbn; intros Hnd H1 H2; [contradiction|].
  inversion Hnd as [|? ? Hna Hnd']; subst.
  destruct H1 as [->|H1], H2 as [H2|H2].
  - congruence.
  - exfalso. apply Hna. cbn. apply (in_map fst) in H2. exact H2.
  - subst a. exfalso. apply Hna. cbn. apply (in_map fst) in H1. exact H1.
  - apply IH; auto.
Qed.

Lemma tget_iff (t : tmap) k pi : NoDup (map fst t) -> (tget k t = Some pi <-> In (k, pi) t).
Proof.
  intros Hnd. split; [apply tget_in|]. intros Hin.
  destruct (tget k t) as [pi'|] eqn:E.
  - f_equal. apply tget_in in E. eapply tmap_unique; eauto.
  - exfalso. apply (tget_none _ _ E). apply (in_map fst) in Hin. exact Hin.
Qed.

Lemma tput_keys k pi (t : tmap) :
  map fst (tput k pi t) = match tget k t with Some _ => map fst t | None => map fst t ++ [k] end.
Proof.
  unfold tput. destruct (tget k t).
  - rewrite map_map. apply map_ext. intros a. destruct (Z.eqb_spec (fst a) k); cbn; congruence.
  - rewrite map_app. reflexivity.
Qed.

Lemma tput_in k pi (t : tmap) kv :
  In kv (tput k pi t) -> kv = (k, pi) \/ (In kv t /\ fst kv <> k).
Proof.
  unfold tput. destruct (tget k t) eqn:E.
  - intros H. apply in_map_iff in H. destruct H as (a & <- & Ha).
    destruct (Z.eqb_spec (fst a) k); [left; reflexivity|right; auto].
  - intros H. apply in_app_or in H. destruct H as [H|[<-|[]]]; [|left; reflexivity].
    right. split; [exact H|]. intros Hk. apply (tget_none _ _ E).
    rewrite <- Hk. apply in_map. exact H.
Qed.

Lemma tput_in_new k pi (t : tmap) : In (k, pi) (tput k pi t).
Proof.
  unfold tput. destruct (tget k t) eqn:E.
  - apply tget_in in E. apply in_map_iff. exists (k, p). cbn. rewrite Z.eqb_refl. auto.
  - apply in_or_app. right. left. reflexivity.
Qed.

Lemma tput_in_old k pi (t : tmap) kv : In kv t -> fst kv <> k -> In kv (tput k pi t).
Proof.
  intros H Hk. unfold tput. destruct (tget k t).
  - apply in_map_iff. exists kv. destruct (Z.eqb_spec (fst kv) k); [contradiction|auto].
  - apply in_or_app. auto.
Qed.

Lemma tput_nodup k pi (t : tmap) : NoDup (map fst t) -> NoDup (map fst (tput k pi t)).
Proof.
  intros H. rewrite tput_keys. destruct (tget k t) eqn:E; [exact H|].
  apply NoDup_app_one; [exact H|apply tget_none, E].
Qed.

Lemma tdel_in k (t : tmap) kv : In kv (tdel k t) <-> In kv t /\ fst kv <> k.
Proof.
  unfold tdel. rewrite filter_In. rewrite negb_true_iff, Z.eqb_neq. tauto.
Qed.

Lemma tdel_nodup k (t : tmap) : NoDup (map fst t) -> NoDup (map fst (tdel k t)).
Proof. apply NoDup_map_filter. Qed.

(* ------------------------------------------------------------------ *)
(* abstraction                                                          *)

Definition E (h : list cell) (kv : Z * (Z * nat)) : entry :=
  let c := hget h (snd (snd kv)) in
  mkEntry (fst kv) (cval c) (fst (snd kv)) (ccircle c) (cdiff c).

Definition absl (h : list cell) (t : tmap) : list entry := map (E h) t.

Lemma cabs_eq s : cabs s = mkState (cn s) (cint s) (cpos s) (absl (cheap s) (ctimers s)).
Proof. reflexivity. Qed.

Lemma lookup_absl h (t : tmap) k :
  lookup k (absl h t) = option_map (fun pi => E h (k, pi)) (tget k t).
Proof.
  unfold lookup, tget, absl. induction t as [|a t IH]; cbn; [reflexivity|].
  destruct (Z.eqb_spec (fst a) k) as [Ea|Ea]; cbn.
  - destruct a as [k' pi]; cbn in *; subst. reflexivity.
  - exact IH.
Qed.

Lemma absl_keys h t : map ekey (absl h t) = map fst t.
Proof. unfold absl. rewrite map_map. reflexivity. Qed.

(* ------------------------------------------------------------------ *)
(* representation invariant                                             *)

Record J (s : cstate) : Prop := mkJ
  { J_n : 1 <= cn s;
    J_i : 1 <= cint s;
    J_pos : 0 <= cpos s < cn s;
    J_len : length (cslots s) = Z.to_nat (cn s);
    J_keys : NoDup (map fst (ctimers s));
    J_tim : forall k p id, In (k, (p, id)) (ctimers s) ->
              0 <= p < cn s /\ (id < length (cheap s))%nat /\
              ckey (hget (cheap s) id) = k /\ cremoved (hget (cheap s) id) = false /\
              In id (nth (Z.to_nat p) (cslots s) []);
    J_slot : forall q id, (q < length (cslots s))%nat -> In id (nth q (cslots s) []) ->
              (id < length (cheap s))%nat /\
              (cremoved (hget (cheap s) id) = false ->
               In (ckey (hget (cheap s) id), (Z.of_nat q, id)) (ctimers s));
    J_nodup : NoDup (concat (cslots s)) }.

Lemma J_init n i : 1 <= n -> 1 <= i -> J (cinit n i).
Proof.
  intros Hn Hi. constructor; cbn; try lia.
  - apply repeat_length.
  - constructor.
  - intros q id _ H. exfalso. revert q H. generalize (Z.to_nat n) as m.
    induction m as [|m IH]; intros [|q]; cbn; auto. apply IH.
  - generalize (Z.to_nat n) as m. induction m as [|m IH]; cbn; [constructor|exact IH].
Qed.

Lemma cabs_init n i : cabs (cinit n i) = init n i.
Proof. reflexivity. Qed.

(* two map entries with the same pointer are the same entry *)
Lemma J_id_key s k p id k' p' :
  J s -> In (k, (p, id)) (ctimers s) -> In (k', (p', id)) (ctimers s) -> k = k' /\ p = p'.
Proof.
  intros HJ H1 H2. destruct (J_tim s HJ _ _ _ H1) as (_ & _ & K1 & _).
  destruct (J_tim s HJ _ _ _ H2) as (_ & _ & K2 & _).
  assert (Hk : k = k') by (rewrite <- K1, <- K2; reflexivity).
  split; [exact Hk|]. rewrite <- Hk in H2.
  pose proof (tmap_unique _ _ _ _ (J_keys s HJ) H1 H2) as E0. congruence.
Qed.

Lemma pos_nat_lt s p : J s -> 0 <= p < cn s -> (Z.to_nat p < length (cslots s))%nat.
Proof. intros HJ Hp. rewrite (J_len s HJ). lia. Qed.

(* ------------------------------------------------------------------ *)
(* primitive mutations preserve J                                       *)

(* ids stored in slots are allocated *)
Lemma J_slot_lt s q id : J s -> (q < length (cslots s))%nat -> In id (nth q (cslots s) []) ->
  (id < length (cheap s))%nat.
Proof. intros HJ Hq Hin. apply (J_slot s HJ q id Hq Hin). Qed.

Lemma J_fresh s : J s -> ~ In (length (cheap s)) (concat (cslots s)).
Proof.
  intros HJ Hin. apply in_concat_inv in Hin. destruct Hin as (q & Hq & Hin).
  pose proof (J_slot_lt s q _ HJ Hq Hin). lia.
Qed.

(* (P1) changing value / circle / diff of one cell *)
Lemma J_field_update s id f :
  J s -> (forall c, ckey (f c) = ckey c /\ cremoved (f c) = cremoved c) ->
  J (mkC (cn s) (cint s) (cpos s) (upd_nth id f (cheap s)) (cslots s) (ctimers s)).
Proof.
  intros HJ Hf.
  assert (Hk : forall id', ckey (hget (upd_nth id f (cheap s)) id') = ckey (hget (cheap s) id') /\
                           cremoved (hget (upd_nth id f (cheap s)) id') = cremoved (hget (cheap s) id')).
  { intros id'. destruct (Nat.eq_dec id id') as [->|Hne].
    - destruct (Nat.lt_ge_cases id' (length (cheap s))) as [Hlt|Hge].
      + rewrite hget_upd_eq by exact Hlt. apply Hf.
      + unfold hget. rewrite !nth_overflow; [auto| |]; rewrite ?upd_nth_length; lia.
    - rewrite hget_upd_neq by exact Hne. auto. }
  destruct HJ as [H1 H2 H3 H4 H5 H6 H7 H8]. constructor; cbn [cheap cslots ctimers cn cint cpos]; auto.
  - intros k p id' Hin. destruct (H6 k p id' Hin) as (A & B & C & D & F).
    rewrite upd_nth_length. destruct (Hk id') as [K1 K2]. rewrite K1, K2. auto.
  - intros q id' Hq Hin. destruct (H7 q id' Hq Hin) as (A & B).
    rewrite upd_nth_length. destruct (Hk id') as [K1 K2]. rewrite K1, K2. auto.
Qed.

(* (P3) allocating a new live cell for a key that is not in the map *)
Lemma J_insert s k v c d np :
  J s -> tget k (ctimers s) = None -> 0 <= np < cn s ->
  J (mkC (cn s) (cint s) (cpos s)
         (cheap s ++ [mkCell k v c d false])
         (push np (length (cheap s)) (cslots s))
         (tput k (np, length (cheap s)) (ctimers s))).
Proof.
  intros HJ Hk Hnp. pose proof (pos_nat_lt s np HJ Hnp) as Hq0.
  pose proof (J_fresh s HJ) as Hfresh.
  destruct HJ as [H1 H2 H3 H4 H5 H6 H7 H8].
  assert (Hkn : forall kv, In kv (ctimers s) -> fst kv <> k).
  { intros kv Hin E0. apply (tget_none _ _ Hk). rewrite <- E0. apply in_map. exact Hin. }
  constructor; cbn [cheap cslots ctimers cn cint cpos]; auto.
  - unfold push. rewrite upd_nth_length. exact H4.
  - apply tput_nodup. exact H5.
  - intros k' p id Hin. rewrite app_length; cbn. apply tput_in in Hin.
    destruct Hin as [[= -> -> ->]|[Hin _]].
    + rewrite hget_app_new; cbn. repeat split; try lia.
      unfold push. rewrite nth_upd_nth_eq by exact Hq0. apply in_or_app. right. left. reflexivity.
    + destruct (H6 k' p id Hin) as (A & B & C & D & F).
      rewrite hget_app_old by exact B. repeat split; try lia; auto.
      unfold push. destruct (Nat.eq_dec (Z.to_nat np) (Z.to_nat p)) as [E0|E0].
      * rewrite E0. rewrite nth_upd_nth_eq by (rewrite <- E0; exact Hq0).
        apply in_or_app. left. exact F.
      * rewrite nth_upd_nth_neq by exact E0. exact F.
  - intros q id Hq Hin. unfold push in *. rewrite upd_nth_length in Hq.
    rewrite app_length; cbn.
    assert (Hold : In id (nth q (cslots s) []) ->
      (id < length (cheap s) + 1)%nat /\
      (cremoved (hget (cheap s ++ [mkCell k v c d false]) id) = false ->
       In (ckey (hget (cheap s ++ [mkCell k v c d false]) id), (Z.of_nat q, id))
          (tput k (np, length (cheap s)) (ctimers s)))).
    { intros Hin0. destruct (H7 q id Hq Hin0) as (A & B).
      rewrite hget_app_old by exact A. split; [lia|]. intros Hl.
      specialize (B Hl). apply tput_in_old; [exact B|]. apply (Hkn _ B). }
    destruct (Nat.eq_dec (Z.to_nat np) q) as [E0|E0].
    + subst q. rewrite nth_upd_nth_eq in Hin by exact Hq.
      apply in_app_or in Hin. destruct Hin as [Hin|[<-|[]]]; [apply Hold, Hin|].
      rewrite hget_app_new; cbn. split; [lia|]. intros _.
      rewrite Z2Nat.id by lia. apply tput_in_new.
    + rewrite nth_upd_nth_neq in Hin by exact E0. apply Hold, Hin.
  - unfold push. apply nodup_concat_upd; auto.
    + apply nodup_app_intro.
      * apply nodup_concat_nth, H8.
      * constructor; [intros []|constructor].
      * intros x Hx [<-|[]]. apply Hfresh. apply (in_concat_nth _ (Z.to_nat np)); assumption.
    + intros x Hx q' Hne Hq' Hin'. apply in_app_or in Hx. destruct Hx as [Hx|[<-|[]]].
      * apply Hne. symmetry. eapply nodup_concat_unique; eauto.
      * apply Hfresh. apply (in_concat_nth _ q'); assumption.
Qed.
