(* C12 — core/timex/ticker.go and the way the wheel's run loop consumes it.
   Executable definitions only, no proofs (TickerProofs.v).

   1. Stamped ticks.  A timex.Ticker delivers VALUES (time.Time) on its channel; the run
      loop of timingwheel.go does `case <-tw.ticker.Chan(): tw.onTick()`: the value is
      dropped, one received value = one position of the wheel.  [sop] is the API history
      with the value carried by every tick made explicit; [erase] is what the run loop
      does with it.  (A custom ticker handed to NewTimingWheelWithTicker may send the zero
      time, equal stamps, stamps that go backwards or jump by many intervals, wall-clock
      times without monotonic reading: all of that is a [Z] here.)

   2. The tickers of ticker.go as channel machines.
      fakeTicker = { c : chan time.Time (buffer 1); done : chan (buffer 1) }:
        Tick()  = c <- time.Now()   (blocks while the buffer is full; panics once c is closed)
        Chan()  = c                 (a receive blocks while c is empty and open; on the closed,
                                     empty channel it returns the zero value at once)
        Stop()  = close(c)          (a second Stop panics; blocked receivers get the zero value,
                                     blocked senders panic; a buffered tick stays receivable)
        Done()  = done <- _         (blocks while done is full)
        Wait(d) = nil if done holds a value (taken), errTimeout after d otherwise
      realTicker = time.Ticker: buffer 1, the runtime DROPS a tick when the buffer is full,
        Stop() ends the delivery and does not close the channel.

      Every operation is started on a goroutine of its own (identified by its index in the
      history); the machine says which of the started operations have completed after each
      step, and how. *)
From Coq Require Import List ZArith Bool.
From GZ Require Import Lib.CheckLib C12.Model C12.Api.
Import ListNotations.
Open Scope Z_scope.

(* ------------------------------------------------------------------ *)
(* 1. stamped histories *)

Inductive sop :=
| SCall (o : aop)        (* a call of the API (or a tick whose stamp is not recorded) *)
| STick (stamp : Z).     (* the ticker's channel delivers the value [stamp] *)

(* `case <-tw.ticker.Chan(): tw.onTick()` *)
Definition erase (o : sop) : aop :=
  match o with SCall a => a | STick _ => ATick end.

Definition sstep (a : astate) (o : sop) : astate * fired * res := astep a (erase o).

Fixpoint srun (a : astate) (ops : list sop) : list (fired * res) :=
  match ops with
  | [] => []
  | o :: ops' => let '(a', f, r) := sstep a o in (f, r) :: srun a' ops'
  end.

Fixpoint sfinal (a : astate) (ops : list sop) : astate :=
  match ops with
  | [] => a
  | o :: ops' => sfinal (fst (fst (sstep a o))) ops'
  end.

Definition is_stick (o : sop) : bool := match o with STick _ => true | SCall ATick => true | _ => false end.
Definition sticks (ops : list sop) : Z := Z.of_nat (length (filter is_stick ops)).

(* the same history with other values on the ticker's channel *)
Fixpoint restamp (f : nat -> Z -> Z) (j : nat) (ops : list sop) : list sop :=
  match ops with
  | [] => []
  | STick s :: ops' => STick (f j s) :: restamp f (S j) ops'
  | o :: ops' => o :: restamp f (S j) ops'
  end.

(* ------------------------------------------------------------------ *)
(* 2. the fake ticker *)

Inductive tkop := TkTick | TkRecv | TkStop | TkDone | TkWait.

(* how a started operation ended *)
Inductive fout :=
| FSent                   (* Tick returned: the channel accepted the value *)
| FReturned               (* Stop / Done returned *)
| FPanicked               (* send on / close of the closed channel *)
| FGot (tick : Z)         (* a receive returned the value sent by operation [tick] *)
| FClosed                 (* a receive on the closed, empty channel: zero value *)
| FNil                    (* Wait returned nil *)
| FTimeout.               (* Wait returned errTimeout *)

Record fstate := mkF
  { fbuf : list Z;        (* c's buffer: at most one tick (the index of the Tick that sent it) *)
    fsendq : list Z;      (* Ticks blocked in the send, oldest first *)
    frecvq : list Z;      (* receives blocked on the empty channel, oldest first *)
    fclosed : bool;
    fdone : bool;         (* done's buffer holds a value *)
    fdoneq : list Z }.    (* Done calls blocked, oldest first *)

Definition finit : fstate := mkF [] [] [] false false [].

(* operation number [j] is started; result: the operations that complete now *)
Definition fstep (s : fstate) (j : Z) (o : tkop) : fstate * list (Z * fout) :=
  match o with
  | TkTick =>
    if fclosed s then (s, [(j, FPanicked)])
    else match frecvq s with
         | r :: rq => (* handed directly to the oldest blocked receiver *)
           (mkF (fbuf s) (fsendq s) rq false (fdone s) (fdoneq s), [(r, FGot j); (j, FSent)])
         | [] =>
           match fbuf s with
           | [] => (mkF [j] (fsendq s) [] false (fdone s) (fdoneq s), [(j, FSent)])
           | _ => (mkF (fbuf s) (fsendq s ++ [j]) [] false (fdone s) (fdoneq s), [])
           end
         end
  | TkRecv =>
    match fbuf s with
    | t :: _ =>
      match fsendq s with
      | t' :: sq => (* the oldest blocked sender's value moves into the buffer *)
        (mkF [t'] sq (frecvq s) (fclosed s) (fdone s) (fdoneq s), [(j, FGot t); (t', FSent)])
      | [] => (mkF [] [] (frecvq s) (fclosed s) (fdone s) (fdoneq s), [(j, FGot t)])
      end
    | [] =>
      if fclosed s then (s, [(j, FClosed)])
      else (mkF [] (fsendq s) (frecvq s ++ [j]) false (fdone s) (fdoneq s), [])
    end
  | TkStop =>
    if fclosed s then (s, [(j, FPanicked)])
    else (mkF (fbuf s) [] [] true (fdone s) (fdoneq s),
          map (fun r => (r, FClosed)) (frecvq s) ++ map (fun t => (t, FPanicked)) (fsendq s) ++ [(j, FReturned)])
  | TkDone =>
    if fdone s then (mkF (fbuf s) (fsendq s) (frecvq s) (fclosed s) true (fdoneq s ++ [j]), [])
    else (mkF (fbuf s) (fsendq s) (frecvq s) (fclosed s) true (fdoneq s), [(j, FReturned)])
  | TkWait =>
    if fdone s then
      match fdoneq s with
      | d :: dq => (mkF (fbuf s) (fsendq s) (frecvq s) (fclosed s) true dq, [(j, FNil); (d, FReturned)])
      | [] => (mkF (fbuf s) (fsendq s) (frecvq s) (fclosed s) false [], [(j, FNil)])
      end
    else (s, [(j, FTimeout)])
  end.

Fixpoint frun (s : fstate) (j : Z) (ops : list tkop) : list (list (Z * fout)) :=
  match ops with
  | [] => []
  | o :: ops' => let '(s', d) := fstep s j o in d :: frun s' (j + 1) ops'
  end.

Fixpoint ffinal (s : fstate) (j : Z) (ops : list tkop) : fstate :=
  match ops with
  | [] => s
  | o :: ops' => ffinal (fst (fstep s j o)) (j + 1) ops'
  end.

(* the ticks that were accepted by the channel (Tick returned), in the order of their
   acceptance, and the ticks that were received, in the order of the receives *)
Definition accepted_of (d : list (Z * fout)) : list Z :=
  flat_map (fun x => match snd x with FSent => [fst x] | _ => [] end) d.
Definition received_of (d : list (Z * fout)) : list Z :=
  flat_map (fun x => match snd x with FGot t => [t] | _ => [] end) d.

Definition fout_eqb (a b : fout) : bool :=
  match a, b with
  | FSent, FSent | FReturned, FReturned | FPanicked, FPanicked | FClosed, FClosed | FNil, FNil | FTimeout, FTimeout => true
  | FGot x, FGot y => x =? y
  | _, _ => false
  end.

Definition done_eqb (a b : Z * fout) : bool := (fst a =? fst b) && fout_eqb (snd a) (snd b).

Fixpoint insert_done (x : Z * fout) (l : list (Z * fout)) : list (Z * fout) :=
  match l with
  | [] => [x]
  | y :: l' => if fst x <=? fst y then x :: l else y :: insert_done x l'
  end.
Definition sort_done (l : list (Z * fout)) : list (Z * fout) := fold_right insert_done [] l.

(* The property the wheel's harness relies on, judged on OBSERVED completions only: the values
   received are values sent by Ticks started before, each at most once and in the order of the
   Ticks (strictly increasing indices), and at every moment the number of Ticks that returned
   exceeds the number of received values by at most the one buffered tick. *)
Fixpoint nth_is_tick (ops : list tkop) (j : Z) : bool :=
  match ops with
  | [] => false
  | o :: ops' => if j =? 0 then match o with TkTick => true | _ => false end else nth_is_tick ops' (j - 1)
  end.

(* the received tick indices continue strictly increasing from [last], each the index of a
   Tick started no later than operation [j] *)
Fixpoint incr_from (ops : list tkop) (j last : Z) (l : list Z) : option Z :=
  match l with
  | [] => Some last
  | t :: l' => if (last <? t) && (t <=? j) && nth_is_tick ops t then incr_from ops j t l' else None
  end.

Fixpoint ticker_ok_from (ops : list tkop) (j last ret got : Z) (obs : list (list (Z * fout))) : bool :=
  match obs with
  | [] => true
  | d :: obs' =>
    let rs := received_of d in
    match incr_from ops j last rs with
    | None => false
    | Some last' =>
      let ret' := ret + Z.of_nat (length (accepted_of d)) in
      let got' := got + Z.of_nat (length rs) in
      (got' <=? ret') && (ret' <=? got' + 1) && ticker_ok_from ops (j + 1) last' ret' got' obs'
    end
  end.

Definition ticker_ok (ops : list tkop) (obs : list (list (Z * fout))) : bool :=
  ticker_ok_from ops 0 (-1) 0 0 obs.

(* ------------------------------------------------------------------ *)
(* the real ticker: the runtime fires, the channel keeps one tick and drops the rest *)

Inductive rop := RFire (stamp : Z) | RRecv | RStop.

Record rstate := mkR { rbuf : list Z; rstopped : bool }.

Definition rstep (s : rstate) (o : rop) : rstate * option Z :=
  match o with
  | RFire t =>
    if rstopped s then (s, None)
    else match rbuf s with
         | [] => (mkR [t] false, None)
         | _ => (s, None)              (* dropped *)
         end
  | RRecv =>
    match rbuf s with
    | t :: _ => (mkR [] (rstopped s), Some t)
    | [] => (s, None)                  (* nothing to receive now *)
    end
  | RStop => (mkR (rbuf s) true, None) (* idempotent, the buffered tick stays *)
  end.

Fixpoint rrecvd (s : rstate) (ops : list rop) : list Z :=
  match ops with
  | [] => []
  | o :: ops' => let '(s', r) := rstep s o in
                 match r with Some t => t :: rrecvd s' ops' | None => rrecvd s' ops' end
  end.

Fixpoint rfinal (s : rstate) (ops : list rop) : rstate :=
  match ops with
  | [] => s
  | o :: ops' => rfinal (fst (rstep s o)) ops'
  end.

Definition rfired (ops : list rop) : list Z :=
  flat_map (fun o => match o with RFire t => [t] | _ => [] end) ops.

