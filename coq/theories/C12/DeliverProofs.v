(* C12 — the delivery layer (Deliver.v): whatever the wheel underneath fires, whatever
   callbacks the controller holds open and for how long, however ticks, calls and releases
   interleave: every fired timer is delivered at most once, never before it fired, and
   once every gate is open exactly once. *)
From Coq Require Import List ZArith Bool Lia Permutation.
From GZ Require Import Lib.CheckLib C12.Model C12.Proofs C12.Api C12.ApiProofs C12.Deliver.
Import ListNotations.
Open Scope Z_scope.

Section DeliverProofs.
Context {W : Type}.
Variable stepf : W -> aop -> W * fired * res.
Variable hold : list Z.

Notation dstate := (@dstate W).
Notation gstep := (gstep stepf hold).
Notation grun := (grun stepf hold).
Notation gfinal := (gfinal stepf hold).
Notation run_batch := (run_batch hold).
Notation held := (held hold).

Definition rest_tl (r : option fired) : fired := match r with Some l => tl l | None => [] end.

Lemma run_batch_split rel b :
  b = fst (run_batch rel b) ++ rest_tl (snd (run_batch rel b)).
Proof.
  induction b as [|x b IH]; [reflexivity|]. cbn [Deliver.run_batch].
  destruct (held rel (snd x)); [reflexivity|].
  destruct (run_batch rel b) as [d r]. cbn [fst snd] in *. rewrite IH at 1. reflexivity.
Qed.

Definition blocked (rel : list Z) (b : fired) : Prop :=
  exists x t, b = x :: t /\ held rel (snd x) = true.

Lemma run_batch_blocked rel b l : snd (run_batch rel b) = Some l -> blocked rel l.
Proof.
  induction b as [|x b IH]; [discriminate|]. cbn [Deliver.run_batch].
  destruct (held rel (snd x)) eqn:E.
  - cbn. intros [= <-]. exists x, b. auto.
  - destruct (run_batch rel b) as [d r]. cbn [snd] in *. exact IH.
Qed.

(* the fired list of one step of the layer's wheel *)
Definition step_fired (s : dstate) (o : gop) : fired :=
  match o with
  | GCall a => snd (fst (stepf (dwheel s) a))
  | GRelease _ => []
  end.

Lemma concat_split {A B} (f g : A -> list B) (l : list A) :
  Permutation (concat (map (fun b => f b ++ g b) l)) (concat (map f l) ++ concat (map g l)).
Proof.
  induction l as [|a l IH]; [constructor|]. cbn [map concat].
  rewrite <- !app_assoc. apply Permutation_app_head.
  eapply Permutation_trans; [apply Permutation_app_head, IH|].
  apply Permutation_app_swap_app.
Qed.

Lemma resume_split rel v b :
  tl b = fst (resume hold rel v b) ++ rest_tl (snd (resume hold rel v b)).
Proof.
  destruct b as [|x b]; [reflexivity|]. cbn [resume tl].
  destruct (snd x =? v); [apply run_batch_split|reflexivity].
Qed.

Lemma und_flat (rs : list (fired * option fired)) :
  concat (map (@tl (Z * Z)) (flat_map (fun dr => opt_list (snd dr)) rs)) =
  concat (map (fun dr => rest_tl (snd dr)) rs).
Proof.
  induction rs as [|[d [l|]] rs IH]; cbn; [reflexivity| |exact IH]. rewrite IH. reflexivity.
Qed.

Lemma singles_tl (l : fired) : concat (map (@tl (Z * Z)) (map (fun x => [x]) l)) = [].
Proof. induction l as [|x l IH]; [reflexivity|exact IH]. Qed.

(* one step: what was waiting plus what the wheel fired = what was delivered plus what waits *)
Lemma gstep_conserves s o :
  Permutation (snd (fst (gstep s o)) ++ undelivered (fst (fst (gstep s o))))
              (undelivered s ++ step_fired s o).
Proof.
  destruct o as [a|v]; cbn [Deliver.gstep step_fired].
  - destruct (stepf (dwheel s) a) as [[w' f] r] eqn:Es. cbn [fst snd].
    assert (Hgen : let '(d, rest) := run_batch (dreleased s) f in
                   Permutation (d ++ undelivered (mkD w' (dflight s ++ opt_list rest) (dreleased s)))
                               (undelivered s ++ f)).
    { pose proof (run_batch_split (dreleased s) f) as Hsp.
      destruct (run_batch (dreleased s) f) as [d rest]. cbn [fst snd] in Hsp.
      unfold undelivered. cbn [dflight]. rewrite map_app, concat_app.
      destruct rest as [l|]; cbn [opt_list map concat rest_tl] in *.
      - rewrite app_nil_r, Hsp. apply Permutation_app_swap_app.
      - rewrite !app_nil_r in *. rewrite Hsp. apply Permutation_app_comm. }
    destruct a; try (destruct (run_batch (dreleased s) f) as [dd rest]; cbn [fst snd]; exact Hgen).
    cbn [fst snd]. unfold undelivered. cbn [dflight]. rewrite map_app, concat_app, singles_tl, app_nil_r.
    apply Permutation_app_comm.
  - cbn [fst snd]. rewrite app_nil_r. unfold undelivered. cbn [dflight].
    rewrite und_flat. rewrite !map_map.
    set (R := resume hold (v :: dreleased s) v).
    rewrite (map_ext (@tl (Z * Z)) (fun b => fst (R b) ++ rest_tl (snd (R b))))
      by (intros b; apply resume_split).
    apply Permutation_sym.
    apply (concat_split (fun b => fst (R b)) (fun b => rest_tl (snd (R b)))).
Qed.

Lemma gfired_cons w o ops :
  gfired stepf w (o :: ops) =
  match o with
  | GCall a => snd (fst (stepf w a)) :: gfired stepf (fst (fst (stepf w a))) ops
  | GRelease _ => [] :: gfired stepf w ops
  end.
Proof. destruct o as [a|v]; cbn [gfired]; [destruct (stepf w a) as [[w' f] r]|]; reflexivity. Qed.

Lemma gstep_wheel s o :
  dwheel (fst (fst (gstep s o))) =
  match o with GCall a => fst (fst (stepf (dwheel s) a)) | GRelease _ => dwheel s end.
Proof.
  destruct o as [a|v]; cbn [Deliver.gstep]; [|reflexivity].
  destruct (stepf (dwheel s) a) as [[w' f] r]. cbn [fst].
  destruct a; try (destruct (run_batch (dreleased s) f)); reflexivity.
Qed.

(* whole histories *)
Theorem delivery_conserves ops : forall s,
  Permutation (concat (map fst (grun s ops)) ++ undelivered (gfinal s ops))
              (undelivered s ++ concat (gfired stepf (dwheel s) ops)).
Proof.
  induction ops as [|o ops IH]; intros s.
  - cbn. rewrite app_nil_r. apply Permutation_refl.
  - cbn [Deliver.grun Deliver.gfinal]. pose proof (gstep_conserves s o) as Hc.
    pose proof (gstep_wheel s o) as Hw. specialize (IH (fst (fst (gstep s o)))).
    assert (Hf : concat (gfired stepf (dwheel s) (o :: ops)) =
                 step_fired s o ++ concat (gfired stepf (dwheel (fst (fst (gstep s o)))) ops)).
    { rewrite gfired_cons, Hw. destruct o; reflexivity. }
    rewrite Hf. destruct (gstep s o) as [[s' d] r]. cbn [fst snd map concat] in *.
    rewrite <- app_assoc.
    eapply Permutation_trans; [apply Permutation_app_head, IH|].
    rewrite !app_assoc. apply Permutation_app_tail. exact Hc.
Qed.

(* every batch in flight is blocked on a value that is held and not released *)
Definition flight_ok (s : dstate) : Prop := Forall (blocked (dreleased s)) (dflight s).

Lemma held_cons rel v x : held (v :: rel) x = true -> held rel x = true.
Proof.
  unfold Deliver.held. intros H. apply andb_true_iff in H. destruct H as [H1 H2].
  rewrite H1. cbn [zmem existsb] in H2. apply negb_true_iff, orb_false_iff in H2.
  destruct H2 as [_ H2]. unfold zmem. rewrite H2. reflexivity.
Qed.

Lemma held_cons_other rel v x : held rel x = true -> x <> v -> held (v :: rel) x = true.
Proof.
  unfold Deliver.held. intros H Hne. apply andb_true_iff in H. destruct H as [H1 H2].
  rewrite H1. cbn [zmem existsb andb]. apply negb_true_iff in H2. unfold zmem in H2. rewrite H2.
  destruct (Z.eqb_spec x v); [contradiction|reflexivity].
Qed.

Lemma gstep_flight_ok s o : flight_ok s -> flight_ok (fst (fst (gstep s o))).
Proof.
  intros Hs. destruct o as [a|v]; cbn [Deliver.gstep].
  - destruct (stepf (dwheel s) a) as [[w' f] r].
    assert (Hgen : let '(d, rest) := run_batch (dreleased s) f in
                   flight_ok (mkD w' (dflight s ++ opt_list rest) (dreleased s))).
    { pose proof (run_batch_blocked (dreleased s) f) as Hb.
      destruct (run_batch (dreleased s) f) as [d rest]. cbn [snd] in Hb.
      unfold flight_ok. cbn [dflight dreleased]. apply Forall_app. split; [exact Hs|].
      destruct rest as [l|]; cbn; [constructor; [apply Hb; reflexivity|constructor]|constructor]. }
    destruct a; try (destruct (run_batch (dreleased s) f); exact Hgen).
    unfold flight_ok. cbn [fst dflight dreleased]. apply Forall_app. split; [exact Hs|].
    apply Forall_forall. intros b Hb. apply in_map_iff in Hb. destruct Hb as (x & <- & Hx).
    apply filter_In in Hx. exists x, []. split; [reflexivity|apply Hx].
  - cbn [fst]. unfold flight_ok in *. cbn [dflight dreleased].
    induction (dflight s) as [|b bs IH]; [constructor|].
    inversion Hs as [|? ? Hb Hbs]; subst. cbn [map flat_map]. apply Forall_app. split; [|apply IH, Hbs].
    destruct Hb as (x & t & -> & Hx). cbn [resume].
    destruct (Z.eqb_spec (snd x) v) as [E|E].
    + pose proof (run_batch_blocked (v :: dreleased s) t) as Hb.
      destruct (run_batch (v :: dreleased s) t) as [d [l|]]; cbn; [|constructor].
      constructor; [apply Hb; reflexivity|constructor].
    + cbn. constructor; [|constructor]. exists x, t. split; [reflexivity|].
      apply held_cons_other; assumption.
Qed.

Lemma gfinal_flight_ok ops : forall s, flight_ok s -> flight_ok (gfinal s ops).
Proof.
  induction ops as [|o ops IH]; intros s Hs; [exact Hs|]. cbn. apply IH, gstep_flight_ok, Hs.
Qed.

Lemma gfinal_app a b s : gfinal s (a ++ b) = gfinal (gfinal s a) b.
Proof. revert s. induction a as [|o a IH]; intros s; cbn; [reflexivity|apply IH]. Qed.

Lemma released_after l : forall s v,
  In v l \/ In v (dreleased s) -> In v (dreleased (gfinal s (map GRelease l))).
Proof.
  induction l as [|x l IH]; intros s v H; cbn.
  - destruct H as [[]|H]; exact H.
  - apply IH. cbn [Deliver.gstep fst dreleased]. destruct H as [[->|H]|H]; cbn; auto.
Qed.

Lemma all_released_no_flight s :
  flight_ok s -> (forall v, In v hold -> In v (dreleased s)) -> dflight s = [].
Proof.
  intros Hs Hall. destruct (dflight s) as [|b bs] eqn:E; [reflexivity|]. exfalso.
  unfold flight_ok in Hs. rewrite E in Hs. inversion Hs as [|? ? Hb _]; subst.
  destruct Hb as (x & t & _ & Hx). unfold Deliver.held in Hx.
  apply andb_true_iff in Hx. destruct Hx as [H1 H2].
  unfold zmem in H1. apply existsb_exists in H1. destruct H1 as (y & Hy & Ey).
  apply Z.eqb_eq in Ey. subst y. apply Hall in Hy.
  apply negb_true_iff in H2. unfold zmem in H2.
  assert (existsb (Z.eqb (snd x)) (dreleased s) = true).
  { apply existsb_exists. exists (snd x). split; [exact Hy|apply Z.eqb_refl]. }
  congruence.
Qed.

(* once every gate has been opened: delivered = fired, as multisets *)
Theorem delivered_exactly_once w ops :
  let h := ops ++ map GRelease hold in
  Permutation (concat (map fst (grun (mkD w [] []) h))) (concat (gfired stepf w h)).
Proof.
  intros h. pose proof (delivery_conserves h (mkD w [] [])) as Hc.
  assert (Hfl : dflight (gfinal (mkD w [] []) h) = []).
  { apply all_released_no_flight.
    - apply gfinal_flight_ok. constructor.
    - intros v Hv. unfold h. rewrite gfinal_app. apply released_after. left. exact Hv. }
  unfold undelivered in Hc. rewrite Hfl in Hc. cbn in Hc. rewrite app_nil_r in Hc. exact Hc.
Qed.

(* at any moment: what has been delivered is part of what fired *)
Theorem delivered_at_most_once w ops :
  exists waiting,
    Permutation (concat (map fst (grun (mkD w [] []) ops)) ++ waiting) (concat (gfired stepf w ops)).
Proof.
  exists (undelivered (gfinal (mkD w [] []) ops)).
  pose proof (delivery_conserves ops (mkD w [] [])) as Hc. exact Hc.
Qed.

(* ---- re-entrancy: callbacks that call back into the wheel ---- *)
Variable react : Z * Z -> option aop.
Notation react_all := (react_all stepf hold react).
Notation rstep := (rstep stepf hold react).
Notation rrun := (rrun stepf hold react).
Notation effective := (effective stepf hold react).

Lemma grun_app a b s : grun s (a ++ b) = grun s a ++ grun (gfinal s a) b.
Proof.
  revert s. induction a as [|o a IH]; intros s; [reflexivity|].
  cbn [app Deliver.grun Deliver.gfinal]. destruct (gstep s o) as [[s' d] r]. cbn [fst]. rewrite IH. reflexivity.
Qed.

Lemma react_all_grun d : forall s,
  gfinal s (map GCall (snd (react_all s d))) = fst (fst (react_all s d)) /\
  concat (map fst (grun s (map GCall (snd (react_all s d))))) = snd (fst (react_all s d)).
Proof.
  induction d as [|x d IH]; intros s; [split; reflexivity|].
  cbn [Deliver.react_all]. destruct (react x) as [a|]; [|apply IH].
  destruct (gstep s (GCall a)) as [[s1 d1] r1] eqn:E1.
  specialize (IH s1). destruct (react_all s1 d) as [[s2 d2] e]. cbn [fst snd] in *.
  cbn [map Deliver.gfinal Deliver.grun]. rewrite E1. cbn [fst snd map concat].
  destruct IH as [I1 I2]. split; [exact I1|]. rewrite I2. reflexivity.
Qed.

Lemma rstep_grun s o :
  gfinal s (o :: map GCall (snd (rstep s o))) = fst (fst (fst (rstep s o))) /\
  concat (map fst (grun s (o :: map GCall (snd (rstep s o))))) = snd (fst (fst (rstep s o))).
Proof.
  unfold Deliver.rstep. cbn [Deliver.gfinal Deliver.grun].
  destruct (gstep s o) as [[s1 d] r]. cbn [fst snd].
  destruct (is_drain o).
  - cbn. rewrite app_nil_r. split; reflexivity.
  - pose proof (react_all_grun d s1) as [H1 H2].
    destruct (react_all s1 d) as [[s2 d2] e]. cbn [fst snd map concat] in *.
    split; [exact H1|]. rewrite H2. reflexivity.
Qed.

Theorem rrun_is_grun_of_effective ops : forall s,
  concat (map (fun x => fst (fst x)) (rrun s ops)) = concat (map fst (grun s (effective s ops))).
Proof.
  induction ops as [|o ops IH]; intros s; [reflexivity|].
  cbn [Deliver.rrun Deliver.effective]. pose proof (rstep_grun s o) as [H1 H2].
  destruct (rstep s o) as [[[s' d] r] e]. cbn [fst snd map concat] in *.
  change (o :: map GCall e ++ effective s' ops) with ((o :: map GCall e) ++ effective s' ops).
  rewrite grun_app, map_app, concat_app, H1, H2, IH. reflexivity.
Qed.

(* with callbacks calling back into the wheel: still nothing lost, nothing doubled *)
Theorem reentrant_conserves ops s :
  Permutation (concat (map (fun x => fst (fst x)) (rrun s ops)) ++ undelivered (gfinal s (effective s ops)))
              (undelivered s ++ concat (gfired stepf (dwheel s) (effective s ops))).
Proof. rewrite rrun_is_grun_of_effective. apply delivery_conserves. Qed.

End DeliverProofs.

(* the wheel model under the layer fires what the due-map fires *)
Lemma gfired_refines ops : forall a,
  Inv (ast a) ->
  gfired astep a ops = gfired (asp_step (sint (ast a))) (aclosed a, abs (ast a)) ops.
Proof.
  induction ops as [|o ops IH]; intros a HI; [reflexivity|].
  destruct o as [x|v]; cbn [gfired].
  - destruct (astep_refines a x HI) as (HI' & Hi & Hst). rewrite Hst.
    destruct (astep a x) as [[a' f] r]. cbn [fst snd] in *. rewrite (IH a' HI'), Hi. reflexivity.
  - rewrite (IH a HI). reflexivity.
Qed.

Theorem gated_exactly_once n i hold ops :
  1 <= n -> 1 <= i ->
  let h := ops ++ map GRelease hold in
  Permutation (concat (map fst (grun astep hold (mkD (ainit n i) [] []) h)))
              (concat (gfired (asp_step i) (false, []) h)).
Proof.
  intros Hn Hi h.
  pose proof (delivered_exactly_once astep hold (ainit n i) ops) as H. cbv zeta in H. fold h in H.
  rewrite (gfired_refines h (ainit n i)) in H by (apply inv_init; assumption). exact H.
Qed.

Theorem gated_at_most_once n i hold ops :
  1 <= n -> 1 <= i ->
  exists waiting,
    Permutation (concat (map fst (grun astep hold (mkD (ainit n i) [] []) ops)) ++ waiting)
                (concat (gfired (asp_step i) (false, []) ops)).
Proof.
  intros Hn Hi.
  destruct (delivered_at_most_once astep hold (ainit n i) ops) as (wt & H). exists wt.
  rewrite (gfired_refines ops (ainit n i)) in H by (apply inv_init; assumption). exact H.
Qed.

Theorem reentrant_gated_conserves n i hold react ops :
  1 <= n -> 1 <= i ->
  let s0 := mkD (ainit n i) [] [] in
  let eff := effective astep hold react s0 ops in
  Permutation (concat (map (fun x => fst (fst x)) (rrun astep hold react s0 ops))
               ++ undelivered (gfinal astep hold s0 eff))
              (concat (gfired (asp_step i) (false, []) eff)).
Proof.
  intros Hn Hi s0 eff.
  pose proof (reentrant_conserves astep hold react ops s0) as H. fold eff in H.
  change (undelivered s0) with (@nil (Z * Z)) in H. change (dwheel s0) with (ainit n i) in H.
  cbn [app] in H.
  rewrite (gfired_refines eff (ainit n i)) in H by (apply inv_init; assumption). exact H.
Qed.
