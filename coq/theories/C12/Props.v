(* C12 — property theorems only.  Every theorem is closed by [exact] of a lemma
   proved in Proofs.v and followed by [Print Assumptions]. *)
From Coq Require Import List ZArith Bool.
From GZ Require Import C12.Model C12.Proofs.
Import ListNotations.
Open Scope Z_scope.

(* The wheel (any size n >= 1, any interval >= 1) behaves, on every history of
   Set / Move / Remove / Tick / Drain operations, exactly as the map
   "key |-> (ticks remaining, value)": same callbacks at every operation. *)
Theorem wheel_refines_due_map : forall n i ops,
  1 <= n -> 1 <= i -> run (init n i) ops = sp_run i [] ops.
Proof. exact wheel_refines_spec. Qed.
Print Assumptions wheel_refines_due_map.

(* A timer set with delay d >= interval, and not touched afterwards, fires at an
   operation o iff o is the floor(d/interval)-th tick after the set, and then with
   the value that was set (whatever happened before, wherever the wheel stands). *)
Theorem fires_exactly_at_due_tick : forall n i pre k v d a o v',
  1 <= n -> 1 <= i -> i <= d ->
  forallb (fun o => negb (touches k o)) a = true -> touches k o = false ->
  In (k, v') (snd (step (final (init n i) (pre ++ OSet k v d :: a)) o)) <->
  (o = OTick /\ ticks a + 1 = d / i /\ v' = v).
Proof. exact set_fires_at_due. Qed.
Print Assumptions fires_exactly_at_due_tick.

(* The same for a pending timer moved to a new delay: it fires at the
   floor(d/interval)-th tick after the move with the most recently set value. *)
Theorem moved_fires_exactly_at_new_due_tick : forall n i pre k v d a o v',
  1 <= n -> 1 <= i -> i <= d ->
  pending (final (init n i) pre) k = Some v ->
  forallb (fun o => negb (touches k o)) a = true -> touches k o = false ->
  In (k, v') (snd (step (final (init n i) (pre ++ OMove k d :: a)) o)) <->
  (o = OTick /\ ticks a + 1 = d / i /\ v' = v).
Proof. exact move_fires_at_due. Qed.
Print Assumptions moved_fires_exactly_at_new_due_tick.

(* at most one callback per key and operation *)
Theorem fires_at_most_once_per_operation : forall n i ops o,
  1 <= n -> 1 <= i -> NoDup (map fst (snd (step (final (init n i) ops) o))).
Proof. exact fired_keys_nodup. Qed.
Print Assumptions fires_at_most_once_per_operation.

(* A removed timer never fires (until the key is set again). *)
Theorem removed_never_fires : forall n i pre k a o v,
  1 <= n -> 1 <= i ->
  forallb (fun o => negb (sets k o)) a = true -> sets k o = false ->
  ~ In (k, v) (snd (step (final (init n i) (pre ++ ORemove k :: a)) o)).
Proof. exact remove_never_fires. Qed.
Print Assumptions removed_never_fires.

Theorem never_set_never_fires : forall n i a o k v,
  1 <= n -> 1 <= i ->
  forallb (fun o => negb (sets k o)) a = true -> sets k o = false ->
  ~ In (k, v) (snd (step (final (init n i) a) o)).
Proof. exact unset_never_fires. Qed.
Print Assumptions never_set_never_fires.

(* Drain delivers exactly the pending timers, each once, and leaves none. *)
Theorem drain_exactly_once : forall n i ops,
  1 <= n -> 1 <= i ->
  let s := final (init n i) ops in
  (forall k v, In (k, v) (snd (step s ODrain)) <-> pending s k = Some v) /\
  NoDup (map fst (snd (step s ODrain))) /\
  (forall k, pending (fst (step s ODrain)) k = None).
Proof. exact drain_delivers_pending. Qed.
Print Assumptions drain_exactly_once.

(* non-vacuity: a 10-slot wheel that has wrapped (6 ticks), a timer set behind the
   position, moved to 25 intervals (more than two revolutions): the hypotheses of the
   theorems hold and the timer fires at the 25th tick after the move, not before. *)
Definition ex_pre : list op := repeat OTick 6 ++ [OSet 7 70 6000].
Example ex_pending : pending (final (init 10 1000) ex_pre) 7 = Some 70.
Proof. vm_compute. reflexivity. Qed.
Example ex_fires_at_25 :
  In (7, 70) (snd (step (final (init 10 1000) (ex_pre ++ OMove 7 25500 :: repeat OTick 24)) OTick))
  /\ forallb (fun o => negb (touches 7 o)) (repeat OTick 24) = true
  /\ ticks (repeat OTick 24) + 1 = 25500 / 1000.
Proof. vm_compute. repeat split. left. reflexivity. Qed.
Example ex_not_before :
  snd (step (final (init 10 1000) (ex_pre ++ OMove 7 25500 :: repeat OTick 23)) OTick) = [].
Proof. vm_compute. reflexivity. Qed.

(* The pointer-level model (heap of entries with removed flags, per-slot pointer
   lists, key -> (slot, pointer) map: the data structures of timingwheel.go) runs, at
   every operation of every history, the same callbacks as the due-map specification,
   up to the order of the callbacks of one operation. *)
From GZ Require Import C12.Concrete C12.ConcreteProofs.
From Coq Require Import Permutation.
Theorem pointer_level_wheel_refines_due_map : forall n i ops,
  1 <= n -> 1 <= i ->
  Forall2 (@Permutation (Z * Z)) (crun (cinit n i) ops) (sp_run i [] ops).
Proof. exact concrete_refines_due_map. Qed.
Print Assumptions pointer_level_wheel_refines_due_map.

(* ------------------------------------------------------------------ *)
(* Counting forms over whole histories: how often, and with what, the callback runs
   for a key during ANY continuation [a] that does not touch the key (any wheel size,
   any interval, any prefix, continuation of any length: before, at and after the due
   tick).  "Exactly once, at the floor(d/interval)-th tick, with the last value". *)
From GZ Require Import C12.Api C12.ApiProofs.

Theorem set_timer_fires_exactly_once : forall n i pre k v d a,
  1 <= n -> 1 <= i -> i <= d ->
  forallb (fun o => negb (touches k o)) a = true ->
  kfilter k (concat (run (final (init n i) (pre ++ [OSet k v d])) a)) =
  if d / i <=? ticks a then [(k, v)] else [].
Proof. exact set_fires_once. Qed.
Print Assumptions set_timer_fires_exactly_once.

Theorem moved_timer_fires_exactly_once : forall n i pre k v d a,
  1 <= n -> 1 <= i -> i <= d ->
  pending (final (init n i) pre) k = Some v ->
  forallb (fun o => negb (touches k o)) a = true ->
  kfilter k (concat (run (final (init n i) (pre ++ [OMove k d])) a)) =
  if d / i <=? ticks a then [(k, v)] else [].
Proof. exact move_fires_once. Qed.
Print Assumptions moved_timer_fires_exactly_once.

(* SetTimer on a LIVE key (several clients of one wheel using the same key, or one client
   re-using a key) replaces the pending timer: afterwards the key carries the new value and
   is due floor(d/i) ticks after THIS call; the value stored before (for the cache cleaner:
   the closure to retry, with its delay) is never delivered.  The callback that runs is the
   wheel's one execute function; the per-timer payload is the value. *)
Theorem set_timer_on_live_key_replaces : forall n i pre k v0 v d a,
  1 <= n -> 1 <= i -> i <= d ->
  pending (final (init n i) pre) k = Some v0 ->
  forallb (fun o => negb (touches k o)) a = true ->
  pending (final (init n i) (pre ++ [OSet k v d])) k = Some v /\
  kfilter k (concat (run (final (init n i) (pre ++ [OSet k v d])) a)) =
  (if d / i <=? ticks a then [(k, v)] else []).
Proof. exact set_on_live_key. Qed.
Print Assumptions set_timer_on_live_key_replaces.

Theorem removed_timer_fires_zero_times : forall n i pre k a,
  1 <= n -> 1 <= i ->
  forallb (fun o => negb (sets k o)) a = true ->
  kfilter k (concat (run (final (init n i) (pre ++ [ORemove k])) a)) = [].
Proof. exact removed_fires_zero_times. Qed.
Print Assumptions removed_timer_fires_zero_times.

(* after Drain (which delivered it, drain_exactly_once) a timer does not fire again *)
Theorem drained_timer_fires_zero_times : forall n i pre k a,
  1 <= n -> 1 <= i ->
  forallb (fun o => negb (sets k o)) a = true ->
  kfilter k (concat (run (final (init n i) (pre ++ [ODrain])) a)) = [].
Proof. exact drained_fires_zero_times. Qed.
Print Assumptions drained_timer_fires_zero_times.

(* The hypothesis "a delay of at least one interval" of the property text cannot be
   dropped for MoveTimer: a pending timer moved with 0 < d < interval runs at once and
   stays pending, i.e. runs twice (moveTask, `task.delay < tw.interval`). *)
Theorem move_below_one_interval_fires_twice :
  exists n i pre k v d a,
    1 <= n /\ 1 <= i /\ 0 < d < i /\
    pending (final (init n i) pre) k = Some v /\
    forallb (fun o => negb (touches k o)) a = true /\
    kfilter k (concat (run (final (init n i) pre) (OMove k d :: a))) = [(k, v); (k, v)].
Proof. exact sub_interval_move_fires_twice. Qed.
Print Assumptions move_below_one_interval_fires_twice.

(* ------------------------------------------------------------------ *)
(* The public API: argument validation and Stop (Api.v). *)

(* every history of calls (valid, rejected, before and after Stop): same callbacks and
   same results as the API over the due-map *)
Theorem api_refines_due_map : forall n i ops,
  1 <= n -> 1 <= i -> arun (ainit n i) ops = asp_run i (false, []) ops.
Proof. exact api_refines_spec. Qed.
Print Assumptions api_refines_due_map.

(* the wheel's state only depends on the calls that passed the argument check before
   the first Stop: rejected calls (nil key, delay <= 0) change nothing *)
Theorem rejected_calls_change_nothing : forall n i ops,
  ast (afinal (ainit n i) ops) = final (init n i) (requests ops) /\
  aclosed (afinal (ainit n i) ops) = has_stop ops.
Proof. exact api_state_is_run_of_requests. Qed.
Print Assumptions rejected_calls_change_nothing.

(* hence the exactness theorem for histories of API calls, rejected ones included *)
Theorem api_fires_exactly_at_due_tick : forall n i pre k v d a o v',
  1 <= n -> 1 <= i -> i <= d ->
  has_stop (pre ++ ASet (Some k) v d :: a) = false ->
  forallb (fun o => negb (atouches k o)) a = true -> atouches k o = false ->
  In (k, v') (snd (fst (astep (afinal (ainit n i) (pre ++ ASet (Some k) v d :: a)) o))) <->
  (o = ATick /\ aticks a + 1 = d / i /\ v' = v).
Proof. exact api_set_fires_at_due. Qed.
Print Assumptions api_fires_exactly_at_due_tick.

(* after Stop: no callback runs, no call succeeds, nothing changes *)
Theorem stopped_wheel_is_inert : forall n i pre post o,
  let a := afinal (ainit n i) (pre ++ AStop :: post) in
  snd (fst (astep a o)) = [] /\ snd (astep a o) <> ROk /\ fst (fst (astep a o)) = a.
Proof. exact closed_wheel_is_inert. Qed.
Print Assumptions stopped_wheel_is_inert.

(* NewTimingWheel accepts exactly the configurations the theorems above speak about *)
Theorem constructor_accepts_exactly_the_hypotheses : forall n i e,
  new_accepts n i e = true <-> (1 <= n /\ 1 <= i /\ e = true).
Proof. exact new_accepts_iff. Qed.
Print Assumptions constructor_accepts_exactly_the_hypotheses.

(* non-vacuity: a history with rejected calls around a Set, the timer fires at tick 3;
   a Stop before the due tick and nothing fires *)
Example ex_api_rejected_calls_harmless :
  map fst (arun (ainit 3 10)
    [ASet (Some 1) 5 30; ASet None 6 30; ASet (Some 1) 7 0; AMove (Some 1) (-10); ATick; ATick; ATick]) =
  [[]; []; []; []; []; []; [(1, 5)]].
Proof. vm_compute. reflexivity. Qed.
Example ex_api_stop :
  arun (ainit 3 10) [ASet (Some 1) 5 20; ATick; AStop; ATick; ADrain; AStop] =
  [([], ROk); ([], ROk); ([], ROk); ([], RErrClosed); ([], RErrClosed); ([], RPanic)].
Proof. vm_compute. reflexivity. Qed.
Example ex_once :
  kfilter 7 (concat (run (final (init 10 1000) (ex_pre ++ [OMove 7 25500])) (repeat OTick 60))) = [(7, 70)].
Proof. vm_compute. reflexivity. Qed.

(* ------------------------------------------------------------------ *)
(* The wheel through its client collection.Cache (composed model C16/ModelW.v =
   cache + LRU + this wheel, SetWithExpire refreshing with SetTimer). *)
From GZ Require Import C12.Client C12.ClientProofs.

(* for every limit, wheel size, interval and history of Set / Get / Del / Take / Tick:
   the wheel holds a timer for a key iff the cache holds an entry for it *)
Theorem cache_has_one_timer_per_entry : forall limit n i ops x,
  1 <= n -> 1 <= i ->
  let s := reach (CW.cw_new limit n i false) ops in
  CM.alookup x (CM.cdata (CW.cwc s)) <> None <-> pending (CW.cww s) x <> None.
Proof. exact one_timer_per_cache_entry. Qed.
Print Assumptions cache_has_one_timer_per_entry.

(* the executable client-level judge used by prop_ok accepts what the composed model
   does (its requests to the wheel, the callbacks, the keys it holds) on every history *)
Theorem client_judge_accepts_composed_model : forall limit n i ops,
  1 <= n -> 1 <= i ->
  client_ok i [] [] (observe (CW.cw_new limit n i false) ops) = true.
Proof. exact client_judge_accepts_model. Qed.
Print Assumptions client_judge_accepts_composed_model.

(* non-vacuity: a limit-2 cache, Del then Set of the same key, an eviction, expiry *)
Definition ex_cache_history : list CW.xop :=
  [CW.XSet 1 10 2500; CW.XDel 1; CW.XSet 1 11 2500; CW.XSet 2 20 3500; CW.XSet 3 30 1500;
   CW.XTick; CW.XGet 2; CW.XTick; CW.XTake 4 (Some 40) 2500; CW.XTick; CW.XTick].
Example ex_cache_observed :
  map (fun ob => (otrace (snd ob), ofired (snd ob), okeys (snd ob))) (observe (CW.cw_new 2 300 1000 false) ex_cache_history) =
  [([OSet 1 10 2500], [], [1]); ([ORemove 1], [], []); ([OSet 1 11 2500], [], [1]);
   ([OSet 2 20 3500], [], [2; 1]); ([ORemove 1; OSet 3 30 1500], [], [3; 2]);
   ([OTick; ORemove 3], [(3, 30)], [2]); ([], [], [2]); ([OTick], [], [2]);
   ([OSet 4 40 2500], [], [4; 2]); ([OTick; ORemove 2], [(2, 20)], [4]); ([OTick; ORemove 4], [(4, 40)], [])].
Proof. vm_compute. reflexivity. Qed.
(* and the judge rejects the history of the seeded change C12-3: the timer set by the
   second Set is removed by the deferred RemoveTimer *)
Example ex_judge_rejects_deferred_removal :
  client_ok 1000 [] []
    [(KSet 1 10 2500, mkKobs [OSet 1 10 2500] [] [1] RetNone);
     (KDel 1, mkKobs [ORemove 1] [] [] RetNone);
     (KSet 1 11 2500, mkKobs [OSet 1 11 2500; ORemove 1] [] [1] RetNone)] = false.
Proof. vm_compute. reflexivity. Qed.

(* ------------------------------------------------------------------ *)
(* The delivery layer (runTasks): callbacks that do not return before later ticks.
   [hold] = the values whose callbacks the controller keeps open until [GRelease v];
   histories interleave calls, ticks and releases arbitrarily (Deliver.v). *)
From GZ Require Import C12.Deliver C12.DeliverProofs.

(* generic in the wheel underneath: what has been delivered plus what still waits
   behind a blocked callback is, as a multiset, what the wheel fired *)
Theorem delivery_layer_conserves : forall (W : Type) (stepf : W -> aop -> W * fired * res) hold ops s,
  Permutation (concat (map fst (grun stepf hold s ops)) ++ undelivered (gfinal stepf hold s ops))
              (undelivered s ++ concat (gfired stepf (dwheel s) ops)).
Proof. intros W stepf hold ops s. exact (delivery_conserves stepf hold ops s). Qed.
Print Assumptions delivery_layer_conserves.

(* every wheel size, interval, hold set and history: once every gate has been opened,
   the callbacks that ran are exactly (as a multiset: none lost, none doubled) the
   timers the due-map fired *)
Theorem gated_delivery_exactly_once : forall n i hold ops,
  1 <= n -> 1 <= i ->
  let h := ops ++ map GRelease hold in
  Permutation (concat (map fst (grun astep hold (mkD (ainit n i) [] []) h)))
              (concat (gfired (asp_step i) (false, []) h)).
Proof. exact gated_exactly_once. Qed.
Print Assumptions gated_delivery_exactly_once.

(* and at every moment of every history nothing has run twice or before it fired *)
Theorem gated_delivery_at_most_once : forall n i hold ops,
  1 <= n -> 1 <= i ->
  exists waiting,
    Permutation (concat (map fst (grun astep hold (mkD (ainit n i) [] []) ops)) ++ waiting)
                (concat (gfired (asp_step i) (false, []) ops)).
Proof. exact gated_at_most_once. Qed.
Print Assumptions gated_delivery_at_most_once.

(* non-vacuity: a, b due at tick 1 (a held), c, d due at tick 2; b runs when a is released *)
Example ex_gated :
  map fst (grun astep [900] (mkD (ainit 8 10) [] [])
    [GCall (ASet (Some 1) 900 10); GCall (ASet (Some 2) 2 10); GCall (ASet (Some 3) 3 20);
     GCall (ASet (Some 4) 4 20); GCall ATick; GCall ATick; GRelease 900]) =
  [[]; []; []; []; [(1, 900)]; [(3, 3); (4, 4)]; [(2, 2)]].
Proof. vm_compute. reflexivity. Qed.

(* callbacks that call back into the wheel (re-arm their own key, move / remove another key,
   Drain) while other callbacks are held open: the run is the run of the EFFECTIVE history
   (every operation followed by the calls its callbacks made), so again nothing is lost and
   nothing doubled: delivered + waiting behind a blocked callback = fired by the due-map *)
Theorem reentrant_delivery_conserves : forall n i hold react ops,
  1 <= n -> 1 <= i ->
  let s0 := mkD (ainit n i) [] [] in
  let eff := effective astep hold react s0 ops in
  Permutation (concat (map (fun x => fst (fst x)) (rrun astep hold react s0 ops))
               ++ undelivered (gfinal astep hold s0 eff))
              (concat (gfired (asp_step i) (false, []) eff)).
Proof. exact reentrant_gated_conserves. Qed.
Print Assumptions reentrant_delivery_conserves.

(* ------------------------------------------------------------------ *)
(* The ticker (core/timex/ticker.go) and the values it delivers (Ticker.v). *)
From GZ Require Import C12.Ticker C12.TickerProofs.

(* The run loop drops the value it receives from ticker.Chan(): two histories that differ only
   in the VALUES delivered by the ticker (the zero time, equal stamps, stamps going backwards or
   jumping by thousands of intervals, wall-clock-only times: any Z) run the same callbacks at
   every operation, return the same results and end in the same state - from every state. *)
Theorem tick_stamp_irrelevant : forall a h1 h2,
  map erase h1 = map erase h2 -> srun a h1 = srun a h2 /\ sfinal a h1 = sfinal a h2.
Proof. exact stamps_irrelevant. Qed.
Print Assumptions tick_stamp_irrelevant.

(* in particular under every re-stamping of the ticks of a history *)
Theorem restamped_history_runs_the_same : forall a f ops,
  srun a (restamp f 0 ops) = srun a ops /\ sfinal a (restamp f 0 ops) = sfinal a ops.
Proof. exact restamp_irrelevant. Qed.
Print Assumptions restamped_history_runs_the_same.

Theorem stamped_wheel_refines_due_map : forall n i ops,
  1 <= n -> 1 <= i -> srun (ainit n i) ops = asp_run i (false, []) (map erase ops).
Proof. exact stamped_refines_spec. Qed.
Print Assumptions stamped_wheel_refines_due_map.

(* "at the floor(d/interval)-th tick" counts the values RECEIVED from the ticker, whatever they are *)
Theorem stamped_fires_exactly_at_due_tick : forall n i pre k v d a o v',
  1 <= n -> 1 <= i -> i <= d ->
  has_stop (map erase (pre ++ SCall (ASet (Some k) v d) :: a)) = false ->
  forallb (fun o => negb (atouches k (erase o))) a = true -> atouches k (erase o) = false ->
  In (k, v') (snd (fst (sstep (sfinal (ainit n i) (pre ++ SCall (ASet (Some k) v d) :: a)) o))) <->
  (erase o = ATick /\ aticks (map erase a) + 1 = d / i /\ v' = v).
Proof. exact stamped_set_fires_at_due. Qed.
Print Assumptions stamped_fires_exactly_at_due_tick.

(* non-vacuity: the history of seed C12-10 (one tick stamped five intervals late, then stamps one
   interval apart, a zero stamp, a stamp in the past): the timer fires at the third received value *)
Example ex_stamped :
  map fst (srun (ainit 4 1000) [SCall (ASet (Some 1) 5 3000); STick 5000; STick 0; STick (-7000); STick 7000]) =
  [[]; []; []; [(1, 5)]; []].
Proof. vm_compute. reflexivity. Qed.

(* timex.NewFakeTicker as a channel machine (buffer of one tick, Ticks blocked in the send,
   blocked receivers, Stop = close, Done / Wait), every operation on a goroutine of its own, every
   history: the ticks the channel accepted (Tick returned) are, in the same order, the ticks that
   were received plus the at most one still buffered - none lost, none doubled, none invented. *)
Theorem fake_ticker_delivers_exactly_once : forall ops,
  let d := concat (frun finit 0 ops) in
  accepted_of d = received_of d ++ fbuf (ffinal finit 0 ops) /\
  (length (fbuf (ffinal finit 0 ops)) <= 1)%nat.
Proof. exact fake_ticker_exactly_once. Qed.
Print Assumptions fake_ticker_delivers_exactly_once.

(* a real ticker (time.Ticker: one tick buffered, the rest dropped while the receiver is slow)
   may lose ticks - the wheel is then late in wall-clock time, which the property does not speak
   about - but what is received is a subsequence of what the runtime fired *)
Theorem real_ticker_never_invents_ticks : forall ops,
  subseq (rrecvd (mkR [] false) ops) (rfired ops).
Proof. exact real_ticker_never_invents. Qed.
Print Assumptions real_ticker_never_invents_ticks.

(* the executable judge used by prop_ok for the ticker kind accepts the channel machine on every
   history: like client_ok it is not an unproved oracle *)
Theorem ticker_judge_accepts_channel_machine : forall ops, ticker_ok ops (frun finit 0 ops) = true.
Proof. exact ticker_judge_accepts_model. Qed.
Print Assumptions ticker_judge_accepts_channel_machine.

Example ex_fake_ticker :
  frun finit 0 [TkTick; TkTick; TkRecv; TkRecv; TkRecv; TkTick; TkStop; TkRecv; TkTick] =
  [[(0, FSent)]; []; [(2, FGot 0); (1, FSent)]; [(3, FGot 1)]; []; [(4, FGot 5); (5, FSent)];
   [(6, FReturned)]; [(7, FClosed)]; [(8, FPanicked)]].
Proof. vm_compute. reflexivity. Qed.
Example ex_real_ticker_drops :
  rrecvd (mkR [] false) [RFire 1; RFire 2; RFire 3; RRecv; RRecv; RFire 4; RStop; RFire 5; RRecv; RRecv] = [1; 4].
Proof. vm_compute. reflexivity. Qed.
