(* C12 — correspondence / property evaluation on histories observed on the
   implementation.  Executable only. *)
From Coq Require Import List ZArith Bool.
From GZ Require Export Lib.CheckLib C12.Model C12.Concrete C12.Api C12.Client C12.Lin C12.Deliver C12.Ticker.
From GZ Require C16.ModelW.
Import ListNotations.
Open Scope Z_scope.

Module CW := GZ.C16.ModelW.
Module CM := GZ.C16.Model.

Inductive case :=
(* the wheel through its public API: per call, the callbacks that ran and the result *)
| CWheel (n i : Z) (ops : list aop) (obs : list (fired * res))
(* NewTimingWheel(i, n, execute?) accepted?; then SetTimer, Stop, SetTimer *)
| CNew (n i : Z) (has_execute accepted : bool) (r1 r2 : res)
(* collection.Cache(limit) on its wheel (n slots, interval i): per cache operation,
   what the wheel was asked, what it ran, what the cache holds *)
| CCache (limit n i : Z) (h : list (kop * kobs))
(* another client (the cache cleaner): requests and callbacks per driver step, and the
   ids of the tasks the cleaner invoked during the step *)
| CTrace (n i : Z) (segs : list (list op * fired * list Z)) (adds : list bool)
(* the wheel with execute callbacks held open by the controller across later operations:
   per operation, the callbacks that STARTED during it and the result *)
| CGated (n i : Z) (hold : list Z) (ops : list gop) (obs : list (fired * res))
(* the same with callbacks that call back into the wheel: [rc] value |-> the call made; per
   operation also the calls the callbacks made, in order *)
| CReact (n i : Z) (hold : list Z) (rc : list (Z * aop)) (ops : list gop) (obs : list (fired * res * list aop))
(* free-running goroutines: stamped calls (all accepted) and ticks with their callbacks *)
| CFree (n i : Z) (ops : list ev) (ticks : list tk)
(* two wheels side by side: each one's history, the other's operations replaced by a no-op *)
| CBoth (a b : case)
(* the wheel through its public API with the VALUE delivered by every tick made explicit *)
| CStamped (n i : Z) (ops : list sop) (obs : list (fired * res))
(* timex.NewFakeTicker: per started operation, the operations that completed and how *)
| CTicker (ops : list tkop) (obs : list (list (Z * fout)))
(* timex.NewTicker: ticks received before Stop, stamps increasing, ticks received after Stop,
   did a second Stop panic *)
| CRealTicker (got : Z) (increasing : bool) (after_stop : Z) (panicked : bool)
(* the implementation did not complete the history: a call into the wheel did not return (the run
   loop no longer takes requests) or its callbacks never came to rest; [c] = the history with the
   observations of the operations completed before *)
| CStuck (c : case).

Definition canon (fs : list fired) : list fired := map sort_pairs fs.

Definition res_eqb (a b : res) : bool :=
  match a, b with
  | ROk, ROk | RErrArgument, RErrArgument | RErrClosed, RErrClosed | RPanic, RPanic => true
  | _, _ => false
  end.

Definition fr_eqb (a b : fired * res) : bool :=
  pairs_eqb (sort_pairs (fst a)) (sort_pairs (fst b)) && res_eqb (snd a) (snd b).

(* the observations of the calls that reached the run loop *)
Fixpoint reached (ops : list aop) (obs : list (fired * res)) : list fired :=
  match ops, obs with
  | AStop :: _, _ => []
  | o :: ops', fr :: obs' =>
    match request o with
    | Some _ => fst fr :: reached ops' obs'
    | None => reached ops' obs'
    end
  | _, _ => []
  end.

(* ---- the cache on the composed model of C16/ModelW.v ---- *)

Definition kret_of (r : CM.obs) : kret :=
  match r with
  | CM.OOpt o => RetGet o
  | CM.OTake v l => RetTake v l
  | _ => RetNone
  end.

Definition kret_eqb (a b : kret) : bool :=
  match a, b with
  | RetNone, RetNone => true
  | RetGet x, RetGet y => opt_eqb Z.eqb x y
  | RetTake x l, RetTake y l' => opt_eqb Z.eqb x y && Bool.eqb l l'
  | _, _ => false
  end.

Definition set_delay (k : Z) (b : kobs) : Z :=
  match last_set k (otrace b) None with Some (_, d') => d' | None => 0 end.

Definition xop_of (o : kop) (b : kobs) : option CW.xop :=
  match o with
  | KSet k v _ => Some (CW.XSet k v (set_delay k b))
  | KGet k => Some (CW.XGet k)
  | KDel k => Some (CW.XDel k)
  | KTake k f _ => Some (CW.XTake k f (set_delay k b))
  | KTick => Some CW.XTick
  | KDrain => None
  end.

(* s : composed model; w, c : flat and pointer-level wheel models fed with the observed requests *)
Fixpoint cache_agrees (s : CW.cachew) (w : state) (c : cstate) (h : list (kop * kobs)) : bool :=
  match h with
  | [] => true
  | (o, b) :: h' =>
    let fw := concat (run w (otrace b)) in
    let fc := concat (crun c (otrace b)) in
    let w1 := final w (otrace b) in
    let c1 := fold_left (fun c o => fst (cstep c o)) (otrace b) c in
    pairs_eqb (sort_pairs fw) (sort_pairs (ofired b))
    && pairs_eqb (sort_pairs fc) (sort_pairs (ofired b))
    && match xop_of o b with
       | Some x =>
         let '(s1, r, ex) := CW.cw_step s x in
         kret_eqb (kret_of r) (oret b)
         && zs_eqb (sort_z ex) (sort_z (map fst (ofired b)))
         && zs_eqb (sort_z (map fst (CM.cdata (CW.cwc s1)))) (sort_z (okeys b))
         && spec_eqb (pending_map (CW.cww s1)) (pending_map w1)
         && cache_agrees s1 w1 c1 h'
       | None =>
         (* Drain: everything the composed model's wheel still holds *)
         pairs_eqb (sort_pairs (snd (drain_all (CW.cww s)))) (sort_pairs (ofired b))
       end
  end.


(* ---- callbacks calling back into the wheel ---- *)
Definition optz_eqb := opt_eqb Z.eqb.
Definition aop_eqb (a b : aop) : bool :=
  match a, b with
  | ASet k v d, ASet k' v' d' => optz_eqb k k' && (v =? v') && (d =? d')
  | AMove k d, AMove k' d' => optz_eqb k k' && (d =? d')
  | ARemove k, ARemove k' => optz_eqb k k'
  | ATick, ATick | ADrain, ADrain | AStop, AStop => true
  | _, _ => false
  end.

Definition react_of (rc : list (Z * aop)) (x : Z * Z) : option aop :=
  match find (fun p => fst p =? snd x) rc with Some p => Some (snd p) | None => None end.

Fixpoint remove_one (a : aop) (l : list aop) : option (list aop) :=
  match l with
  | [] => None
  | b :: l' => if aop_eqb a b then Some l'
               else match remove_one a l' with Some r => Some (b :: r) | None => None end
  end.
Fixpoint perm_aops (l1 l2 : list aop) : bool :=
  match l1 with
  | [] => match l2 with [] => true | _ => false end
  | a :: l1' => match remove_one a l2 with Some r => perm_aops l1' r | None => false end
  end.

Fixpoint sub_aops (l1 l2 : list aop) : bool :=
  match l1 with
  | [] => true
  | a :: l1' => match remove_one a l2 with Some r => sub_aops l1' r | None => false end
  end.

Definition reacts_of (rc : list (Z * aop)) (d : fired) : list aop :=
  flat_map (fun x => match react_of rc x with Some a => [a] | None => [] end) d.

Definition fre_eqb (a b : fired * res * list aop) : bool :=
  fr_eqb (fst a) (fst b) && list_eqb aop_eqb (snd a) (snd b).

(* what the due-map fires during each operation, the calls made by its callbacks included *)
Fixpoint fired_steps (i : Z) (c : bool * spec) (steps : list (gop * list aop)) : list (fired * res) :=
  match steps with
  | [] => []
  | (o, e) :: steps' =>
    let sub := o :: map GCall e in
    let fs := concat (gfired (asp_step i) c sub) in
    let c' := dwheel (gfinal (asp_step i) [] (mkD c [] []) sub) in
    let r := match o with GCall a => snd (asp_step i c a) | GRelease _ => ROk end in
    (fs, r) :: fired_steps i c' steps'
  end.

(* Drain runs its callbacks concurrently (a bounded runner): the order in which THEIR calls reach
   the wheel is the scheduler's choice.  It is an oracle taken from the observation and checked to
   be a permutation of the calls the drained callbacks make; all other steps are as in [rstep]. *)
Section ReactOracle.
Context {W : Type}.
Variable stepf : W -> aop -> W * fired * res.
Variable hold : list Z.
Variable rc : list (Z * aop).

Fixpoint react_calls (s : dstate) (es : list aop) : @dstate W * fired :=
  match es with
  | [] => (s, [])
  | a :: es' =>
    let '(s1, d1, _) := gstep stepf hold s (GCall a) in
    let '(s2, d2) := react_calls s1 es' in (s2, d1 ++ d2)
  end.

Definition rstep_o (s : dstate) (o : gop) (eobs : list aop) : @dstate W * fired * res * list aop :=
  let '(s1, d, r) := gstep stepf hold s o in
  let all := reacts_of rc d in
  let es := if is_drain o then (if perm_aops all eobs then eobs else all) else all in
  let '(s2, d2) := react_calls s1 es in (s2, d ++ d2, r, es).

Fixpoint rrun_o (s : dstate) (ops : list gop) (eobs : list (list aop)) : list (fired * res * list aop) :=
  match ops with
  | [] => []
  | o :: ops' =>
    let '(s', d, r, e) := rstep_o s o (hd [] eobs) in (d, r, e) :: rrun_o s' ops' (tl eobs)
  end.
End ReactOracle.

Definition aop_in_scope (i : Z) (o : aop) : bool :=
  match o with
  | ASet _ _ d | AMove _ d => (d <=? 0) || (i <=? d)
  | _ => true
  end.

Definition segs_in_scope (i : Z) (segs : list (list op * fired * list Z)) : bool :=
  forallb (fun s => trace_in_scope i (fst (fst s))) segs.

(* the model reproduces exactly what the implementation did *)
Fixpoint agrees (c : case) : bool :=
  match c with
  | CWheel n i ops obs =>
    list_eqb fr_eqb (arun (ainit n i) ops) obs
    && list_eqb pairs_eqb (canon (crun (cinit n i) (requests ops))) (canon (reached ops obs))
  | CNew n i e acc r1 r2 =>
    Bool.eqb (new_accepts n i e) acc
    && (negb acc || (res_eqb r1 ROk && res_eqb r2 RErrClosed))
  | CCache limit n i h =>
    cache_agrees (CW.cw_new limit n i false) (init n i) (cinit n i) h
  | CTrace n i segs adds =>
    let t := concat (map (fun s => fst (fst s)) segs) in
    list_eqb pairs_eqb (canon (run (init n i) t)) (canon (crun (cinit n i) t))
    && trace_ok i [] (map fst segs)
  | CFree n i ops ticks => free_ok i ops ticks
  | CGated n i hold ops obs =>
    (* the pointer-level model gives the order of the callbacks inside a batch *)
    list_eqb fr_eqb (grun acstep hold (mkD (acinit n i) [] []) ops) obs
  | CReact n i hold rc ops obs =>
    list_eqb fre_eqb (rrun_o acstep hold rc (mkD (acinit n i) [] []) ops (map snd obs)) obs
  | CBoth a b => agrees a && agrees b
  | CStamped n i ops obs =>
    list_eqb fr_eqb (srun (ainit n i) ops) obs
    && list_eqb pairs_eqb (canon (crun (cinit n i) (requests (map erase ops)))) (canon (reached (map erase ops) obs))
  | CTicker ops obs =>
    list_eqb (list_eqb done_eqb) (map sort_done (frun finit 0 ops)) (map sort_done obs)
  | CRealTicker got incr after panicked => (got =? 3) && incr && (after <=? 1) && negb panicked
  | CStuck _ => false    (* every operation of the model returns *)
  end.

(* the history lies inside the property's quantifier (delays of at least one interval, or rejected) *)
Fixpoint in_scope (c : case) : bool :=
  match c with
  | CWheel n i ops _ => forallb (aop_in_scope i) ops
  | CCache _ n i h => history_in_scope i h
  | CTrace n i segs _ => segs_in_scope i segs
  | CFree n i ops _ => free_in_scope i ops
  | CGated n i _ ops _ => forallb (aop_in_scope i) (calls ops)
  | CReact n i _ rc ops _ =>
    forallb (aop_in_scope i) (calls ops) && forallb (fun p => aop_in_scope i (snd p)) rc
  | CBoth a b => in_scope a && in_scope b
  | CStamped n i ops _ => forallb (aop_in_scope i) (map erase ops)
  | CStuck c => in_scope c
  | _ => true
  end.

(* the property, on the implementation's own observations *)
Fixpoint prop_ok (c : case) : bool :=
  match c with
  | CWheel n i ops obs =>
    (* delays of at least one interval (or rejected): the calls return what the API over
       the due-map returns and run its callbacks *)
    if forallb (aop_in_scope i) ops
    then list_eqb fr_eqb (asp_run i (false, []) ops) obs
    else true
  | CNew n i e acc r1 r2 =>
    (* the constructor accepts exactly the configurations the theorems speak about *)
    Bool.eqb ((1 <=? n) && (1 <=? i) && e) acc
    && (negb acc || (res_eqb r1 ROk && res_eqb r2 RErrClosed))
  | CCache limit n i h =>
    if history_in_scope i h then (1 <=? n) && (1 <=? i) && client_ok i [] [] h else true
  | CTrace n i segs adds =>
    if segs_in_scope i segs
    then trace_ok i [] (map fst segs)
         (* every callback of the wheel is one invocation of a clean task, and vice versa *)
         && forallb (fun s => (length (snd (fst s)) =? length (snd s))%nat) segs
         (* the client registers every task under a key that is not pending *)
         && fresh_ok i [] (map fst segs) adds
    else true
  | CFree n i ops ticks =>
    if free_in_scope i ops then (1 <=? n) && (1 <=? i) && free_ok i ops ticks else true
  | CGated n i hold ops obs =>
    if forallb (aop_in_scope i) (calls ops) then
      let fs := gfired (asp_step i) (false, []) ops in
      let ds := map fst obs in
      (* results as over the due-map; no callback before its timer fired; once every gate is
         open, every fired timer has been delivered exactly once (none lost, none doubled) *)
      list_eqb res_eqb (map snd (grun (asp_step i) hold (mkD (false, []) [] []) ops)) (map snd obs)
      && never_early [] [] ds fs
      && (if released_all hold ops
          then pairs_eqb (sort_pairs (concat ds)) (sort_pairs (concat fs)) else true)
    else true
  | CReact n i hold rc ops obs =>
    if forallb (aop_in_scope i) (calls ops) && forallb (fun p => aop_in_scope i (snd p)) rc then
      let steps := combine ops (map snd obs) in
      let sp := fired_steps i (false, []) steps in
      let ds := map (fun x => fst (fst x)) obs in
      (length ops =? length obs)%nat
      && list_eqb res_eqb (map snd sp) (map (fun x => snd (fst x)) obs)
      && never_early [] [] ds (map fst sp)
      && (if released_all hold ops
          then pairs_eqb (sort_pairs (concat ds)) (sort_pairs (concat (map fst sp))) else true)
      (* the calls made during an operation are those of the callbacks that ran during it *)
      && forallb (fun oe => let '(o, (d, _, e)) := oe in
                            let all := reacts_of rc d in
                            if existsb (aop_eqb ADrain) e
                            then sub_aops e all      (* callbacks run by a Drain called from a callback do not call back *)
                            else perm_aops all e)
                 (combine ops obs)
    else true
  | CBoth a b => prop_ok a && prop_ok b
  | CStamped n i ops obs =>
    (* whatever the ticker's channel delivered *)
    if forallb (aop_in_scope i) (map erase ops)
    then list_eqb fr_eqb (asp_run i (false, []) (map erase ops)) obs
    else true
  | CTicker ops obs => ticker_ok ops obs
  | CRealTicker got incr after panicked => (got =? 3) && incr && (after <=? 1) && negb panicked
  | CStuck c =>
    (* a wheel that no longer takes ticks or calls cannot fire its timers at their due ticks *)
    negb (in_scope c)
  end.

Fixpoint model_obs (c : case) : list fired :=
  match c with
  | CWheel n i ops _ => canon (map fst (arun (ainit n i) ops))
  | CNew _ _ _ _ _ _ => []
  | CCache limit n i h => canon (run (init n i) (concat (map (fun ob => otrace (snd ob)) h)))
  | CTrace n i segs adds => canon (run (init n i) (concat (map (fun s => fst (fst s)) segs)))
  | CFree n i ops ticks =>
    canon (run (init n i) (flat_map (fun x => match ev_op x with FReq o => [o] | _ => [] end) ops))
  | CGated n i hold ops _ => canon (map fst (grun astep hold (mkD (ainit n i) [] []) ops))
  | CReact n i hold rc ops _ =>
    canon (map (fun x => fst (fst x)) (rrun_o astep hold rc (mkD (ainit n i) [] []) ops []))
  | CBoth a b => model_obs a ++ model_obs b
  | CStamped n i ops _ => canon (map fst (srun (ainit n i) ops))
  | CTicker _ _ => []
  | CRealTicker _ _ _ _ => []
  | CStuck c => model_obs c
  end.
