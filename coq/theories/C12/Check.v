(* C12 — correspondence / property evaluation on histories observed on the
   implementation.  Executable only. *)
From Coq Require Import List ZArith Bool.
From GZ Require Export Lib.CheckLib C12.Model C12.Concrete.
Import ListNotations.
Open Scope Z_scope.

Record case := mkCase
  { kn : Z; kint : Z; cops : list op;
    cobs : list fired  (* per operation: callbacks observed on the implementation *) }.

Definition canon (fs : list fired) : list fired := map sort_pairs fs.

(* the model reproduces exactly what the implementation did *)
Definition agrees (c : case) : bool :=
  list_eqb pairs_eqb (canon (run (init (kn c) (kint c)) (cops c))) (canon (cobs c))
  && list_eqb pairs_eqb (canon (crun (cinit (kn c) (kint c)) (cops c))) (canon (cobs c)).

(* the property's quantifier: delays of at least one interval *)
Definition op_in_scope (i : Z) (o : op) : bool :=
  match o with
  | OSet _ _ d | OMove _ d => i <=? d
  | _ => true
  end.

(* the property, on the implementation's own observations: they are the firings
   of the "key |-> remaining ticks" specification *)
Definition prop_ok (c : case) : bool :=
  if forallb (op_in_scope (kint c)) (cops c) then
    list_eqb pairs_eqb (canon (sp_run (kint c) [] (cops c))) (canon (cobs c))
  else true.

Definition model_obs (c : case) : list fired := canon (run (init (kn c) (kint c)) (cops c)).
