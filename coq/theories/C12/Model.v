(* C12 — timing wheel: executable model of core/collection/timingwheel.go
   (setTask / moveTask / removeTask / onTick / scanAndRunTasks / drainAll).
   No proofs in this file, so that the model still runs when a proof breaks.

   Data refinement w.r.t. the Go code (checked by the correspondence run, see
   DESIGN.md §6/C12):
   - the [numSlots] linked lists are one flat list of entries, each carrying the
     slot it sits in ([epos]); the flat list is kept in order of first insertion
     of the key (the order inside a slot only decides the order in which the
     callbacks of one tick run, which is not part of the property and is
     canonicalised away by sorting in the correspondence check);
   - the [timers] SafeMap (key -> positionEntry{pos,item}) is "the entry with
     that key" in the flat list;
   - entries flagged [removed] are dropped at once (the Go code only ever skips
     and later unlinks them);
   - durations are integers (nanoseconds), keys and values are integers. *)
From Coq Require Import List ZArith Bool.
Import ListNotations.
Open Scope Z_scope.

Record entry := mkEntry
  { ekey : Z; evalue : Z; epos : Z; ecircle : Z; ediff : Z }.

Record state := mkState
  { sn : Z;             (* numSlots *)
    sint : Z;           (* interval *)
    spos : Z;           (* tickedPos *)
    sents : list entry  (* all live entries, in insertion order *) }.

Inductive op :=
| OSet (k v d : Z)      (* SetTimer(k, v, d) *)
| OMove (k d : Z)       (* MoveTimer(k, d) *)
| ORemove (k : Z)       (* RemoveTimer(k) *)
| OTick                 (* one tick of the ticker *)
| ODrain.               (* Drain(fn) *)

(* what the execute / drain callback is called with during one operation *)
Definition fired := list (Z * Z).

Definition init (n interval : Z) : state := mkState n interval (n - 1) [].

Definition lookup (k : Z) (l : list entry) : option entry :=
  find (fun e => ekey e =? k) l.

Definition drop (k : Z) (l : list entry) : list entry :=
  filter (fun e => negb (ekey e =? k)) l.

Definition upd (k : Z) (f : entry -> entry) (l : list entry) : list entry :=
  map (fun e => if ekey e =? k then f e else e) l.

(* ticks until slot [q] is scanned next when the wheel stands at [p]: in [1,n] *)
Definition wait (n p q : Z) : Z := (q - p - 1) mod n + 1.

(* getPositionAndCircle *)
Definition pos_of (s : state) (steps : Z) : Z := (spos s + steps) mod sn s.
Definition circle_of (s : state) (steps : Z) : Z := (steps - 1) / sn s.

(* moveTask, for a delay that is at least one interval *)
Definition move_far (s : state) (e : entry) (d : Z) : state :=
  let steps := d / sint s in
  let w := wait (sn s) (spos s) (epos e) in
  if w <=? steps then
    mkState (sn s) (sint s) (spos s)
      (upd (ekey e)
           (fun e' => mkEntry (ekey e') (evalue e') (epos e')
                              ((steps - w) / sn s) ((steps - w) mod sn s))
           (sents s))
  else
    (* the old item is flagged removed and a fresh one is pushed to the slot
       [pos_of s steps]; in the flat list this is an update in place *)
    mkState (sn s) (sint s) (spos s)
      (upd (ekey e)
           (fun e' => mkEntry (ekey e') (evalue e') (pos_of s steps) 0 0)
           (sents s)).

Definition move_task (s : state) (k d : Z) : state * fired :=
  match lookup k (sents s) with
  | None => (s, [])
  | Some e =>
    if d <? sint s then (s, [(k, evalue e)])   (* runs at once, timer stays *)
    else (move_far s e d, [])
  end.

Definition set_task (s : state) (k v d : Z) : state :=
  let d := Z.max d (sint s) in
  match lookup k (sents s) with
  | Some e =>
    let s1 := mkState (sn s) (sint s) (spos s)
                (upd k (fun e' => mkEntry (ekey e') v (epos e') (ecircle e') (ediff e'))
                     (sents s)) in
    move_far s1 (mkEntry (ekey e) v (epos e) (ecircle e) (ediff e)) d
  | None =>
    let steps := d / sint s in
    mkState (sn s) (sint s) (spos s)
      (sents s ++ [mkEntry k v (pos_of s steps) (circle_of s steps) 0])
  end.

Definition remove_task (s : state) (k : Z) : state :=
  mkState (sn s) (sint s) (spos s) (drop k (sents s)).

(* scanAndRunTasks on one entry: None = it fires *)
Definition scan_entry (n p : Z) (e : entry) : option entry :=
  if epos e =? p then
    if 0 <? ecircle e then
      Some (mkEntry (ekey e) (evalue e) (epos e) (ecircle e - 1) (ediff e))
    else if 0 <? ediff e then
      Some (mkEntry (ekey e) (evalue e) ((p + ediff e) mod n) (ecircle e) 0)
    else None
  else Some e.

Fixpoint scan (n p : Z) (l : list entry) : list entry * fired :=
  match l with
  | [] => ([], [])
  | e :: l' =>
    let '(keep, f) := scan n p l' in
    match scan_entry n p e with
    | Some e' => (e' :: keep, f)
    | None => (keep, (ekey e, evalue e) :: f)
    end
  end.

Definition on_tick (s : state) : state * fired :=
  let p := (spos s + 1) mod sn s in
  let '(keep, f) := scan (sn s) p (sents s) in
  (mkState (sn s) (sint s) p keep, f).

Definition drain_all (s : state) : state * fired :=
  (mkState (sn s) (sint s) (spos s) [],
   map (fun e => (ekey e, evalue e)) (sents s)).

Definition step (s : state) (o : op) : state * fired :=
  match o with
  | OSet k v d => (set_task s k v d, [])
  | OMove k d => move_task s k d
  | ORemove k => (remove_task s k, [])
  | OTick => on_tick s
  | ODrain => drain_all s
  end.

(* history semantics: the list of per-operation firings *)
Fixpoint run (s : state) (ops : list op) : list fired :=
  match ops with
  | [] => []
  | o :: ops' => let '(s', f) := step s o in f :: run s' ops'
  end.

Fixpoint final (s : state) (ops : list op) : state :=
  match ops with
  | [] => s
  | o :: ops' => final (fst (step s o)) ops'
  end.

(* ------------------------------------------------------------------ *)
(* The abstract specification: key |-> (remaining ticks, value).       *)

Definition spec := list (Z * (Z * Z)).   (* association list, unique keys *)

Definition sp_lookup (k : Z) (m : spec) : option (Z * Z) :=
  match find (fun kv => fst kv =? k) m with
  | Some kv => Some (snd kv)
  | None => None
  end.

Definition sp_drop (k : Z) (m : spec) : spec :=
  filter (fun kv => negb (fst kv =? k)) m.

(* update in place when present, append otherwise *)
Definition sp_put (k : Z) (rv : Z * Z) (m : spec) : spec :=
  match sp_lookup k m with
  | Some _ => map (fun kv => if fst kv =? k then (k, rv) else kv) m
  | None => m ++ [(k, rv)]
  end.

Definition sp_step (interval : Z) (m : spec) (o : op) : spec * fired :=
  match o with
  | OSet k v d => (sp_put k (Z.max d interval / interval, v) m, [])
  | OMove k d =>
    match sp_lookup k m with
    | None => (m, [])
    | Some (_, v) =>
      if d <? interval then (m, [(k, v)])
      else (sp_put k (d / interval, v) m, [])
    end
  | ORemove k => (sp_drop k m, [])
  | OTick =>
    (map (fun kv => (fst kv, (fst (snd kv) - 1, snd (snd kv))))
         (filter (fun kv => negb (fst (snd kv) =? 1)) m),
     map (fun kv => (fst kv, snd (snd kv)))
         (filter (fun kv => fst (snd kv) =? 1) m))
  | ODrain => ([], map (fun kv => (fst kv, snd (snd kv))) m)
  end.

Fixpoint sp_run (interval : Z) (m : spec) (ops : list op) : list fired :=
  match ops with
  | [] => []
  | o :: ops' => let '(m', f) := sp_step interval m o in f :: sp_run interval m' ops'
  end.
