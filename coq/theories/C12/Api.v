(* C12 — the public API of the timing wheel around the run loop of Model.v
   (NewTimingWheel, SetTimer, MoveTimer, RemoveTimer, Drain, Stop of
   core/collection/timingwheel.go).  Executable definitions only, no proofs.

   - SetTimer / MoveTimer reject delay <= 0 and a nil key with ErrArgument BEFORE they
     look at the channels; RemoveTimer rejects a nil key.  A rejected call never
     reaches the run loop.
   - Stop closes stopChannel: the run loop returns, and every later call that passes
     the argument check returns ErrClosed (the select finds no receiver on the request
     channel and the closed stopChannel ready).  Ticks are no longer received.
     A second Stop panics (close of a closed channel).
   - NewTimingWheel rejects interval <= 0, numSlots <= 0 and a nil callback.

   The model assumes what the Go code arranges: all requests are handled one at a
   time by the single goroutine of [run], in the order in which its select receives
   them (atomic operations in channel order). *)
From Coq Require Import List ZArith Bool.
From GZ Require Import C12.Model.
Import ListNotations.
Open Scope Z_scope.

Inductive res := ROk | RErrArgument | RErrClosed | RPanic.

Inductive aop :=
| ASet (k : option Z) (v d : Z)   (* SetTimer(key, value, delay); None = nil key *)
| AMove (k : option Z) (d : Z)    (* MoveTimer(key, delay) *)
| ARemove (k : option Z)          (* RemoveTimer(key) *)
| ATick                           (* the ticker offers one tick *)
| ADrain                          (* Drain(fn) *)
| AStop.                          (* Stop() *)

(* what the run loop receives for a call that passes the argument check *)
Definition request (o : aop) : option op :=
  match o with
  | ASet (Some k) v d => if 0 <? d then Some (OSet k v d) else None
  | AMove (Some k) d => if 0 <? d then Some (OMove k d) else None
  | ARemove (Some k) => Some (ORemove k)
  | ATick => Some OTick
  | ADrain => Some ODrain
  | _ => None
  end.

Record astate := mkA { aclosed : bool; ast : state }.

Definition ainit (n interval : Z) : astate := mkA false (init n interval).

(* NewTimingWheel's argument check *)
Definition new_accepts (n interval : Z) (has_execute : bool) : bool :=
  (0 <? interval) && (0 <? n) && has_execute.

Definition astep (a : astate) (o : aop) : astate * fired * res :=
  match o with
  | AStop => if aclosed a then (a, [], RPanic) else (mkA true (ast a), [], ROk)
  | _ =>
    match request o with
    | None => (a, [], RErrArgument)
    | Some r =>
      if aclosed a then (a, [], RErrClosed)   (* for ATick: the tick is not received *)
      else let '(s', f) := step (ast a) r in (mkA false s', f, ROk)
    end
  end.

Fixpoint arun (a : astate) (ops : list aop) : list (fired * res) :=
  match ops with
  | [] => []
  | o :: ops' => let '(a', f, r) := astep a o in (f, r) :: arun a' ops'
  end.

Fixpoint afinal (a : astate) (ops : list aop) : astate :=
  match ops with
  | [] => a
  | o :: ops' => afinal (fst (fst (astep a o))) ops'
  end.

(* the same API over the due-map specification *)
Definition asp_step (i : Z) (c : bool * spec) (o : aop) : (bool * spec) * fired * res :=
  match o with
  | AStop => if fst c then (c, [], RPanic) else ((true, snd c), [], ROk)
  | _ =>
    match request o with
    | None => (c, [], RErrArgument)
    | Some r =>
      if fst c then (c, [], RErrClosed)
      else let '(m', f) := sp_step i (snd c) r in ((false, m'), f, ROk)
    end
  end.

Fixpoint asp_run (i : Z) (c : bool * spec) (ops : list aop) : list (fired * res) :=
  match ops with
  | [] => []
  | o :: ops' => let '(c', f, r) := asp_step i c o in (f, r) :: asp_run i c' ops'
  end.

(* the requests that reach the run loop during a history: the calls that pass the
   argument check, up to the first Stop *)
Fixpoint requests (ops : list aop) : list op :=
  match ops with
  | [] => []
  | AStop :: _ => []
  | o :: ops' =>
    match request o with
    | Some r => r :: requests ops'
    | None => requests ops'
    end
  end.

Fixpoint has_stop (ops : list aop) : bool :=
  match ops with
  | [] => false
  | AStop :: _ => true
  | _ :: ops' => has_stop ops'
  end.

(* ------------------------------------------------------------------ *)
(* remaining ticks of every pending timer (executable form of the abstraction
   function of Proofs.v; equality proved in ApiProofs.v) *)

Definition remaining (n p : Z) (e : entry) : Z :=
  wait n p (epos e) + n * ecircle e + ediff e.

Definition pending_map (s : state) : spec :=
  map (fun e => (ekey e, (remaining (sn s) (spos s) e, evalue e))) (sents s).
