(* C12 — proofs about the API layer (Api.v) and history-level counting forms of the
   property theorems. *)
From Coq Require Import List ZArith Bool Lia.
From GZ Require Import C12.Model C12.Proofs C12.Api.
Import ListNotations.
Open Scope Z_scope.

(* ------------------------------------------------------------------ *)
(* pending_map is the abstraction function                              *)

Lemma pending_map_abs s : pending_map s = abs s.
Proof. reflexivity. Qed.

(* ------------------------------------------------------------------ *)
(* the API layer refines the API over the due-map                       *)

Lemma astep_refines a o :
  Inv (ast a) ->
  Inv (ast (fst (fst (astep a o)))) /\
  sint (ast (fst (fst (astep a o)))) = sint (ast a) /\
  asp_step (sint (ast a)) (aclosed a, abs (ast a)) o =
    ((aclosed (fst (fst (astep a o))), abs (ast (fst (fst (astep a o))))),
     snd (fst (astep a o)), snd (astep a o)).
Proof.
  intros HI. unfold astep, asp_step. cbn [fst snd].
  destruct o as [k v d|k d|k| | |];
    try (destruct (request _) as [r|] eqn:Er;
         [destruct (aclosed a) eqn:Ec;
          [cbn [fst snd]; rewrite Ec; auto
          |destruct (step_refines (ast a) r HI) as (HI' & Hst & Hi);
           rewrite Hst; destruct (step (ast a) r) as [s' f]; cbn [fst snd ast aclosed] in *; auto]
         |cbn [fst snd]; auto]).
  destruct (aclosed a) eqn:Ec; cbn [fst snd ast aclosed]; rewrite ?Ec; auto.
Qed.

Lemma arun_refines a ops :
  Inv (ast a) -> arun a ops = asp_run (sint (ast a)) (aclosed a, abs (ast a)) ops.
Proof.
  revert a. induction ops as [|o ops IH]; intros a HI; [reflexivity|].
  cbn [arun asp_run]. destruct (astep_refines a o HI) as (HI' & Hi & Hst).
  rewrite Hst. destruct (astep a o) as [[a' f] r]. cbn [fst snd] in *.
  rewrite (IH a' HI'), Hi. reflexivity.
Qed.

Theorem api_refines_spec n i ops :
  1 <= n -> 1 <= i -> arun (ainit n i) ops = asp_run i (false, []) ops.
Proof.
  intros Hn Hi. rewrite arun_refines by (apply inv_init; assumption). reflexivity.
Qed.

(* ------------------------------------------------------------------ *)
(* the state after a history is the state after the requests that reached the loop *)

Lemma astep_open a o r :
  aclosed a = false -> request o = Some r ->
  astep a o = (mkA false (fst (step (ast a) r)), snd (step (ast a) r), ROk).
Proof.
  intros Hc Hr. unfold astep. destruct o; cbn [request] in *; try discriminate;
    rewrite ?Hr, ?Hc; try (inversion Hr; subst r); rewrite ?Hc;
    destruct (step (ast a) _); reflexivity.
Qed.

Lemma astep_rejected a o :
  request o = None -> o <> AStop -> astep a o = (a, [], RErrArgument).
Proof.
  intros Hr Ho. unfold astep. destruct o; try contradiction; cbn [request] in *;
    try discriminate; rewrite ?Hr; reflexivity.
Qed.

Lemma astep_closed a o :
  aclosed a = true ->
  fst (fst (astep a o)) = a /\ snd (fst (astep a o)) = [] /\ snd (astep a o) <> ROk.
Proof.
  intros Hc. unfold astep.
  destruct o; try (destruct (request _)); rewrite ?Hc; cbn; repeat split; discriminate.
Qed.

Lemma closed_stays a ops :
  aclosed a = true ->
  afinal a ops = a /\ Forall (fun fr => fst fr = [] /\ snd fr <> ROk) (arun a ops).
Proof.
  intros Hc. induction ops as [|o ops IH]; [split; [reflexivity|constructor]|].
  cbn [afinal arun]. destruct (astep_closed a o Hc) as (H1 & H2 & H3).
  destruct (astep a o) as [[a' f] r]. cbn [fst snd] in *. subst a' f.
  destruct IH as [IH1 IH2]. split; [exact IH1|]. constructor; [split; [reflexivity|exact H3]|exact IH2].
Qed.

Lemma afinal_app a x y : afinal a (x ++ y) = afinal (afinal a x) y.
Proof. revert a. induction x as [|o x IH]; intros a; cbn; [reflexivity|apply IH]. Qed.

Lemma afinal_requests a ops :
  aclosed a = false ->
  ast (afinal a ops) = final (ast a) (requests ops) /\
  aclosed (afinal a ops) = has_stop ops.
Proof.
  revert a. induction ops as [|o ops IH]; intros a Hc; [split; [reflexivity|exact Hc]|].
  cbn [afinal].
  destruct (request o) as [r|] eqn:Er.
  - assert (Ho : o <> AStop) by (intros ->; discriminate).
    rewrite (astep_open a o r Hc Er). cbn [fst].
    destruct (IH (mkA false (fst (step (ast a) r))) eq_refl) as [I1 I2].
    cbn [ast] in I1. rewrite I1, I2.
    destruct o; try contradiction; cbn [requests has_stop]; rewrite Er;
      cbn [final]; split; reflexivity.
  - destruct o as [k v d|k d|k| | |]; try discriminate.
    + rewrite astep_rejected by (auto; discriminate). cbn [fst requests has_stop]. rewrite Er. apply IH, Hc.
    + rewrite astep_rejected by (auto; discriminate). cbn [fst requests has_stop]. rewrite Er. apply IH, Hc.
    + rewrite astep_rejected by (auto; discriminate). cbn [fst requests has_stop]. rewrite Er. apply IH, Hc.
    + unfold astep. rewrite Hc. cbn [fst requests has_stop final].
      destruct (closed_stays (mkA true (ast a)) ops eq_refl) as [H _]. rewrite H. split; reflexivity.
Qed.

Theorem api_state_is_run_of_requests n i ops :
  ast (afinal (ainit n i) ops) = final (init n i) (requests ops) /\
  aclosed (afinal (ainit n i) ops) = has_stop ops.
Proof. apply afinal_requests. reflexivity. Qed.

Lemma has_stop_app x y : has_stop (x ++ y) = has_stop x || has_stop y.
Proof. induction x as [|o x IH]; [reflexivity|]. destruct o; cbn [app has_stop]; auto. Qed.

Lemma requests_app x y : has_stop x = false -> requests (x ++ y) = requests x ++ requests y.
Proof.
  induction x as [|o x IH]; intros H; [reflexivity|].
  destruct o; cbn [app requests has_stop] in *; try discriminate;
    try destruct (request _); cbn [app]; rewrite ?IH by exact H; reflexivity.
Qed.

(* after Stop no callback ever runs and no call succeeds *)
Theorem closed_wheel_is_inert n i pre post o :
  let a := afinal (ainit n i) (pre ++ AStop :: post) in
  snd (fst (astep a o)) = [] /\ snd (astep a o) <> ROk /\ fst (fst (astep a o)) = a.
Proof.
  intros a.
  assert (Hc : aclosed a = true).
  { unfold a. rewrite afinal_app. cbn [afinal].
    set (b := afinal (ainit n i) pre).
    assert (Hb : aclosed (fst (fst (astep b AStop))) = true).
    { unfold astep. destruct (aclosed b) eqn:E; cbn; [exact E|reflexivity]. }
    destruct (closed_stays _ post Hb) as [H _]. rewrite H. exact Hb. }
  destruct (astep_closed a o Hc) as (H1 & H2 & H3). auto.
Qed.

Theorem new_accepts_iff n i e :
  new_accepts n i e = true <-> (1 <= n /\ 1 <= i /\ e = true).
Proof.
  unfold new_accepts. rewrite !andb_true_iff, !Z.ltb_lt. intuition lia.
Qed.

(* ------------------------------------------------------------------ *)
(* the property theorems at the API level                               *)

Definition atouches (k : Z) (o : aop) : bool :=
  match request o with Some r => touches k r | None => false end.

Definition aticks (ops : list aop) : Z := ticks (requests ops).

Lemma forallb_requests (p : op -> bool) (a : list aop) :
  forallb (fun o => match request o with Some r => p r | None => true end) a = true ->
  forallb p (requests a) = true.
Proof.
  induction a as [|o a IH]; [reflexivity|]. cbn [forallb]. intros H.
  apply andb_true_iff in H. destruct H as [H1 H2].
  destruct o; cbn [requests]; try reflexivity;
    destruct (request _); cbn [forallb]; rewrite ?H1; auto.
Qed.

Theorem api_set_fires_at_due n i pre k v d a o v' :
  1 <= n -> 1 <= i -> i <= d ->
  has_stop (pre ++ ASet (Some k) v d :: a) = false ->
  forallb (fun o => negb (atouches k o)) a = true -> atouches k o = false ->
  In (k, v') (snd (fst (astep (afinal (ainit n i) (pre ++ ASet (Some k) v d :: a)) o))) <->
  (o = ATick /\ aticks a + 1 = d / i /\ v' = v).
Proof.
  intros Hn Hi Hd Hs Ha Ho.
  rewrite has_stop_app in Hs. apply orb_false_iff in Hs. destruct Hs as [Hs1 Hs2].
  cbn [has_stop] in Hs2.
  set (h := pre ++ ASet (Some k) v d :: a).
  destruct (api_state_is_run_of_requests n i h) as [Hst Hcl].
  assert (Hc : aclosed (afinal (ainit n i) h) = false).
  { rewrite Hcl. unfold h. rewrite has_stop_app. cbn [has_stop]. rewrite Hs1, Hs2. reflexivity. }
  assert (Hreq : requests h = requests pre ++ OSet k v d :: requests a).
  { unfold h. rewrite requests_app by exact Hs1. cbn [requests request].
    destruct (Z.ltb_spec 0 d); [reflexivity|lia]. }
  assert (Ha' : forallb (fun o => negb (touches k o)) (requests a) = true).
  { apply forallb_requests. rewrite forallb_forall in Ha. apply forallb_forall. intros x Hx.
    specialize (Ha x Hx). unfold atouches in Ha. destruct (request x); auto. }
  destruct (request o) as [r|] eqn:Er.
  - rewrite (astep_open _ o r Hc Er). cbn [fst snd]. rewrite Hst, Hreq.
    unfold atouches in Ho. rewrite Er in Ho.
    rewrite (set_fires_at_due n i (requests pre) k v d (requests a) r v' Hn Hi Hd Ha' Ho).
    unfold aticks.
    assert (r = OTick <-> o = ATick).
    { destruct o as [[k0|] v0 d0|[k0|] d0|[k0|]| | |]; cbn [request] in Er;
        try destruct (0 <? d0); try discriminate; inversion Er; subst;
        split; intros; try discriminate; reflexivity. }
    tauto.
  - assert (Hf : snd (fst (astep (afinal (ainit n i) h) o)) = []).
    { destruct o as [k0 v0 d0|k0 d0|k0| | |]; try discriminate;
        try (rewrite astep_rejected by (auto; discriminate); reflexivity).
      unfold astep. rewrite Hc. reflexivity. }
    rewrite Hf. split; [intros []|]. intros (-> & _). discriminate.
Qed.

(* ------------------------------------------------------------------ *)
(* counting forms: over a whole history, how often the callback runs for a key *)

Definition kfilter (k : Z) (f : fired) : fired := filter (fun kv => fst kv =? k) f.

Lemma kfilter_app k f g : kfilter k (f ++ g) = kfilter k f ++ kfilter k g.
Proof. apply filter_app. Qed.

Lemma kfilter_none k f : (forall v, ~ In (k, v) f) -> kfilter k f = [].
Proof.
  induction f as [|[k0 v0] f IH]; intros H; [reflexivity|]. cbn.
  destruct (Z.eqb_spec k0 k).
  - subst. exfalso. apply (H v0). left. reflexivity.
  - apply IH. intros v Hin. apply (H v). right. exact Hin.
Qed.

Lemma sp_absent_count i m k a :
  1 <= i -> spwf m -> sp_lookup k m = None ->
  forallb (fun o => negb (sets k o)) a = true ->
  kfilter k (concat (sp_run i m a)) = [].
Proof.
  intros Hi. revert m. induction a as [|o a IH]; intros m Hm Hk Ha; [reflexivity|].
  cbn in Ha. apply andb_true_iff in Ha. destruct Ha as [Ho Ha]. apply negb_true_iff in Ho.
  cbn [sp_run]. pose proof (sp_absent_step i m k o Hm Hk Ho) as [H1 H2].
  pose proof (sp_step_spwf i m o Hi Hm) as Hm'.
  destruct (sp_step i m o) as [m' f]. cbn [fst snd concat] in *.
  rewrite kfilter_app, (kfilter_none k f H2), (IH m' Hm' H1 Ha). reflexivity.
Qed.

Lemma kfilter_tick_absent k (m : spec) :
  ~ In k (map fst m) -> kfilter k (sp_tick_fire m) = [].
Proof.
  intros H. apply kfilter_none. intros v Hin. apply H.
  unfold sp_tick_fire in Hin. apply in_map_iff in Hin. destruct Hin as (x & Hx & Hxl).
  apply filter_In in Hxl. apply in_map_iff. exists x. inversion Hx. tauto.
Qed.

Lemma kfilter_tick k (m : spec) r v :
  NoDup (map fst m) -> sp_lookup k m = Some (r, v) ->
  kfilter k (sp_tick_fire m) = if r =? 1 then [(k, v)] else [].
Proof.
  induction m as [|[ka [ra va]] m IH]; intros Hnd Hk; [discriminate|].
  inversion Hnd as [|? ? Hna Hnd']; subst. cbn in Hna.
  unfold sp_lookup in Hk. cbn [find fst] in Hk.
  unfold sp_tick_fire. cbn [filter fst snd].
  destruct (Z.eqb_spec ka k) as [E|E].
  - subst ka. cbn in Hk. inversion Hk; subst ra va.
    destruct (r =? 1); cbn [map fst snd].
    + unfold kfilter at 1. cbn [filter fst]. rewrite Z.eqb_refl. f_equal.
      apply (kfilter_tick_absent k m Hna).
    + apply (kfilter_tick_absent k m Hna).
  - fold (sp_lookup k m) in Hk.
    destruct (ra =? 1); cbn [map fst snd].
    + unfold kfilter at 1. cbn [filter fst]. destruct (Z.eqb_spec ka k); [contradiction|].
      apply IH; assumption.
    + apply IH; assumption.
Qed.

Lemma sets_of_touches k a :
  forallb (fun o => negb (touches k o)) a = true ->
  forallb (fun o => negb (sets k o)) a = true.
Proof.
  induction a as [|x a IH]; cbn; [reflexivity|]. intros H.
  apply andb_true_iff in H. destruct H as [Hx Ha]. rewrite IH by exact Ha.
  rewrite andb_true_r. destruct x; cbn in *; auto.
Qed.

Lemma sp_pending_count i m k r v a :
  1 <= i -> spwf m -> sp_lookup k m = Some (r, v) ->
  forallb (fun o => negb (touches k o)) a = true ->
  kfilter k (concat (sp_run i m a)) = if r <=? ticks a then [(k, v)] else [].
Proof.
  intros Hi. revert m r. induction a as [|o a IH]; intros m r Hm Hk Ha.
  - cbn [sp_run concat ticks kfilter filter].
    assert (1 <= r).
    { destruct Hm as [_ Hr]. apply sp_lookup_in in Hk. rewrite Forall_forall in Hr. apply (Hr _ Hk). }
    destruct (Z.leb_spec r 0); [lia|reflexivity].
  - cbn in Ha. apply andb_true_iff in Ha. destruct Ha as [Ho Ha]. apply negb_true_iff in Ho.
    pose proof (sp_step_spwf i m o Hi Hm) as Hm'.
    pose proof Hm as [Hnd Hr].
    cbn [sp_run].
    destruct o as [k' v0 d|k' d|k'| |]; cbn [touches] in Ho; try discriminate.
    + apply Z.eqb_neq in Ho. cbn [sp_step] in *. cbn [fst snd concat ticks app] in *.
      apply IH; [exact Hm'| |exact Ha]. rewrite sp_put_lookup_other by exact Ho. exact Hk.
    + apply Z.eqb_neq in Ho. cbn [sp_step] in *.
      destruct (sp_lookup k' m) as [[r0 v1]|] eqn:E.
      * destruct (d <? i); cbn [fst snd concat ticks] in *.
        -- rewrite kfilter_app. unfold kfilter at 1. cbn [filter fst].
           destruct (Z.eqb_spec k' k); [contradiction|]. cbn [app].
           apply IH; assumption.
        -- cbn [app]. apply IH; [exact Hm'| |exact Ha].
           rewrite sp_put_lookup_other by exact Ho. exact Hk.
      * cbn [fst snd concat ticks app] in *. apply IH; assumption.
    + apply Z.eqb_neq in Ho. cbn [sp_step] in *. cbn [fst snd concat ticks app] in *.
      apply IH; [exact Hm'| |exact Ha]. rewrite sp_drop_lookup.
      destruct (Z.eqb_spec k' k); [contradiction|exact Hk].
    + cbn [sp_step] in *. fold (sp_tick_keep m) in *. fold (sp_tick_fire m) in *.
      cbn [fst snd concat ticks] in *.
      rewrite kfilter_app, (kfilter_tick k m r v Hnd Hk).
      assert (Hr1 : 1 <= r).
      { apply sp_lookup_in in Hk. rewrite Forall_forall in Hr. apply (Hr _ Hk). }
      pose proof (ticks_nonneg a) as Hta.
      destruct (Z.eqb_spec r 1) as [E|E].
      * rewrite (sp_absent_count i (sp_tick_keep m) k a Hi Hm').
        -- destruct (Z.leb_spec r (1 + ticks a)); [reflexivity|lia].
        -- rewrite sp_tick_keep_lookup by exact Hnd. rewrite Hk, E. reflexivity.
        -- apply sets_of_touches, Ha.
      * cbn [app]. rewrite (IH (sp_tick_keep m) (r - 1) Hm').
        -- destruct (Z.leb_spec (r - 1) (ticks a)), (Z.leb_spec r (1 + ticks a)); try lia; reflexivity.
        -- rewrite sp_tick_keep_lookup by exact Hnd. rewrite Hk.
           destruct (Z.eqb_spec r 1); [contradiction|reflexivity].
        -- exact Ha.
Qed.

Lemma run_from_reach n i h a :
  1 <= n -> 1 <= i -> run (final (init n i) h) a = sp_run i (sp_final i [] h) a.
Proof.
  intros Hn Hi. rewrite run_refines by (apply reach_inv; assumption).
  rewrite reach_sint, reach_abs by assumption. reflexivity.
Qed.

Theorem set_fires_once n i pre k v d a :
  1 <= n -> 1 <= i -> i <= d ->
  forallb (fun o => negb (touches k o)) a = true ->
  kfilter k (concat (run (final (init n i) (pre ++ [OSet k v d])) a)) =
  if d / i <=? ticks a then [(k, v)] else [].
Proof.
  intros Hn Hi Hd Ha. rewrite run_from_reach by assumption.
  rewrite sp_final_app. cbn [sp_final].
  apply sp_pending_count; auto.
  - apply sp_step_spwf; [exact Hi|]. apply sp_final_spwf; [exact Hi|apply spwf_nil].
  - cbn [sp_step fst]. rewrite sp_lookup_put. rewrite Z.max_l by lia. reflexivity.
Qed.

(* SetTimer on a key that is pending REPLACES: the stored value becomes the new one, the
   due tick is counted from this call, the old value and the old due tick are forgotten *)
Theorem set_on_live_key n i pre k v0 v d a :
  1 <= n -> 1 <= i -> i <= d ->
  pending (final (init n i) pre) k = Some v0 ->
  forallb (fun o => negb (touches k o)) a = true ->
  pending (final (init n i) (pre ++ [OSet k v d])) k = Some v /\
  kfilter k (concat (run (final (init n i) (pre ++ [OSet k v d])) a)) =
  (if d / i <=? ticks a then [(k, v)] else []).
Proof.
  intros Hn Hi Hd _ Ha. split; [|apply set_fires_once; assumption].
  apply pending_abs. exists (Z.max d i / i). rewrite reach_abs by assumption.
  rewrite sp_final_app. cbn [sp_final sp_step fst]. apply sp_lookup_put.
Qed.

Theorem move_fires_once n i pre k v d a :
  1 <= n -> 1 <= i -> i <= d ->
  pending (final (init n i) pre) k = Some v ->
  forallb (fun o => negb (touches k o)) a = true ->
  kfilter k (concat (run (final (init n i) (pre ++ [OMove k d])) a)) =
  if d / i <=? ticks a then [(k, v)] else [].
Proof.
  intros Hn Hi Hd Hp Ha.
  apply pending_abs in Hp. destruct Hp as [r Hp]. rewrite reach_abs in Hp by assumption.
  rewrite run_from_reach by assumption.
  rewrite sp_final_app. cbn [sp_final].
  apply sp_pending_count; auto.
  - apply sp_step_spwf; [exact Hi|]. apply sp_final_spwf; [exact Hi|apply spwf_nil].
  - cbn [sp_step fst]. rewrite Hp.
    destruct (Z.ltb_spec d i); [lia|]. cbn [fst]. apply sp_lookup_put.
Qed.

Theorem removed_fires_zero_times n i pre k a :
  1 <= n -> 1 <= i ->
  forallb (fun o => negb (sets k o)) a = true ->
  kfilter k (concat (run (final (init n i) (pre ++ [ORemove k])) a)) = [].
Proof.
  intros Hn Hi Ha. rewrite run_from_reach by assumption.
  rewrite sp_final_app. cbn [sp_final].
  apply sp_absent_count; auto.
  - apply sp_step_spwf; [exact Hi|]. apply sp_final_spwf; [exact Hi|apply spwf_nil].
  - cbn [sp_step fst]. rewrite sp_drop_lookup, Z.eqb_refl. reflexivity.
Qed.

Theorem drained_fires_zero_times n i pre k a :
  1 <= n -> 1 <= i ->
  forallb (fun o => negb (sets k o)) a = true ->
  kfilter k (concat (run (final (init n i) (pre ++ [ODrain])) a)) = [].
Proof.
  intros Hn Hi Ha. rewrite run_from_reach by assumption.
  rewrite sp_final_app. cbn [sp_final].
  apply sp_absent_count; [exact Hi| |reflexivity|exact Ha].
  apply sp_step_spwf; [exact Hi|]. apply sp_final_spwf; [exact Hi|apply spwf_nil].
Qed.

(* the hypothesis "delay of at least one interval" is needed: a pending timer moved
   with a shorter delay runs at once AND stays pending, so it runs twice *)
Theorem sub_interval_move_fires_twice :
  exists n i pre k v d a,
    1 <= n /\ 1 <= i /\ 0 < d < i /\
    pending (final (init n i) pre) k = Some v /\
    forallb (fun o => negb (touches k o)) a = true /\
    kfilter k (concat (run (final (init n i) pre) (OMove k d :: a))) = [(k, v); (k, v)].
Proof.
  exists 4, 10, [OSet 1 7 20], 1, 7, 5, [OTick; OTick; OTick].
  vm_compute. repeat split; try reflexivity; discriminate.
Qed.
