(* C12 — the algorithms as they were at the pinned commit, kept to document the two
   defects repaired by `fix:` commits (DESIGN.md §5, F1 and F12).  Each is refuted by
   a concrete history evaluated with vm_compute. *)
From Coq Require Import List ZArith Bool.
From GZ Require Import C12.Model.
Import ListNotations.
Open Scope Z_scope.

(* F1: moveTask compared absolute slot numbers *)
Definition pinned_move_far (s : state) (e : entry) (d : Z) : state :=
  let steps := d / sint s in
  let pos := pos_of s steps in
  let circle := circle_of s steps in
  if epos e <=? pos then
    mkState (sn s) (sint s) (spos s)
      (upd (ekey e) (fun e' => mkEntry (ekey e') (evalue e') (epos e') circle (pos - epos e')) (sents s))
  else if 0 <? circle then
    mkState (sn s) (sint s) (spos s)
      (upd (ekey e) (fun e' => mkEntry (ekey e') (evalue e') (epos e') (circle - 1)
                                       (sn s + pos - epos e')) (sents s))
  else
    mkState (sn s) (sint s) (spos s)
      (upd (ekey e) (fun e' => mkEntry (ekey e') (evalue e') pos 0 0) (sents s)).

Definition pinned_step (s : state) (o : op) : state * fired :=
  match o with
  | OMove k d =>
    match lookup k (sents s) with
    | None => (s, [])
    | Some e => if d <? sint s then (s, [(k, evalue e)]) else (pinned_move_far s e d, [])
    end
  | _ => step s o
  end.

Fixpoint pinned_run (s : state) (ops : list op) : list fired :=
  match ops with
  | [] => []
  | o :: ops' => let '(s', f) := pinned_step s o in f :: pinned_run s' ops'
  end.

(* 10 slots, six ticks, a timer set behind the wheel position and moved to 2
   intervals: the pinned algorithm fires it one revolution late (12th tick). *)
Definition f1_history : list op :=
  repeat OTick 6 ++ [OSet 7 70 6000; OMove 7 2000] ++ repeat OTick 12.

Theorem move_wrap_refuted :
  exists ops, pinned_run (init 10 1000) ops <> sp_run 1000 [] ops.
Proof. exists f1_history. vm_compute. discriminate. Qed.

Example f1_late :
  nth 19 (pinned_run (init 10 1000) f1_history) [] = [(7, 70)] /\
  nth 9 (sp_run 1000 [] f1_history) [] = [(7, 70)].
Proof. vm_compute. split; reflexivity. Qed.

(* ------------------------------------------------------------------ *)
(* Seeded change C12-1 (seeded/C12-1): in moveTask, when the new delay is shorter than
   the wait for the entry's current slot, the re-slotted entry is a struct copy of the
   old one, so it keeps the old circle / diff instead of starting with 0 / 0. *)

Definition seed1_move_far (s : state) (e : entry) (d : Z) : state :=
  let steps := d / sint s in
  let w := wait (sn s) (spos s) (epos e) in
  if w <=? steps then move_far s e d
  else
    mkState (sn s) (sint s) (spos s)
      (upd (ekey e)
           (fun e' => mkEntry (ekey e') (evalue e') (pos_of s steps) (ecircle e') (ediff e'))
           (sents s)).

Definition seed1_step (s : state) (o : op) : state * fired :=
  match o with
  | OMove k d =>
    match lookup k (sents s) with
    | None => (s, [])
    | Some e => if d <? sint s then (s, [(k, evalue e)]) else (seed1_move_far s e d, [])
    end
  | OSet k v d =>
    match lookup k (sents s) with
    | Some e =>
      let s1 := mkState (sn s) (sint s) (spos s)
                  (upd k (fun e' => mkEntry (ekey e') v (epos e') (ecircle e') (ediff e')) (sents s)) in
      (seed1_move_far s1 (mkEntry (ekey e) v (epos e) (ecircle e) (ediff e)) (Z.max d (sint s)), [])
    | None => step s o
    end
  | _ => step s o
  end.

Fixpoint seed1_run (s : state) (ops : list op) : list fired :=
  match ops with
  | [] => []
  | o :: ops' => let '(s', f) := seed1_step s o in f :: seed1_run s' ops'
  end.

(* 5 slots: a timer set 12 intervals ahead (circle 2) and moved to 1 interval is not
   fired at the next tick: the copy still carries circle 2 *)
Definition seed1_history : list op := [OSet 1 5 120; OMove 1 10; OTick].

Theorem seed_c12_1_refuted :
  exists ops, seed1_run (init 5 10) ops <> sp_run 10 [] ops.
Proof. exists seed1_history. vm_compute. discriminate. Qed.

Example seed1_missing :
  nth 2 (seed1_run (init 5 10) seed1_history) [] = [] /\
  nth 2 (sp_run 10 [] seed1_history) [] = [(1, 5)].
Proof. vm_compute. split; reflexivity. Qed.

(* ------------------------------------------------------------------ *)
(* Seeded change C12-2 (seeded/C12-2): scanAndRunTasks relocates a moved entry (diff > 0)
   to its final slot without telling the timers map (setTimerPosition dropped), so the
   map keeps the old slot number and a later MoveTimer computes the wait from it.
   Expressed in the pointer-level model of Concrete.v. *)
From GZ Require Import C12.Concrete.
From Coq Require Import Permutation.

Definition seed2_scan1 (p : Z) (sf : cstate * fired) (id : nat) : cstate * fired :=
  let '(s, f) := sf in
  let c := hget (cheap s) id in
  if cremoved c then
    (Concrete.mkC (cn s) (cint s) (cpos s) (cheap s) (drop_id p id (cslots s)) (ctimers s), f)
  else if 0 <? ccircle c then
    (Concrete.mkC (cn s) (cint s) (cpos s)
         (upd_nth id (fun c => mkCell (ckey c) (cval c) (ccircle c - 1) (cdiff c) (cremoved c)) (cheap s))
         (cslots s) (ctimers s), f)
  else if 0 <? cdiff c then
    let np := (p + cdiff c) mod cn s in
    (Concrete.mkC (cn s) (cint s) (cpos s)
         (upd_nth id (fun c => mkCell (ckey c) (cval c) (ccircle c) 0 (cremoved c)) (cheap s))
         (push np id (drop_id p id (cslots s)))
         (ctimers s) (* <- the map is not updated *), f)
  else
    (Concrete.mkC (cn s) (cint s) (cpos s) (cheap s) (drop_id p id (cslots s)) (tdel (ckey c) (ctimers s)),
     f ++ [(ckey c, cval c)]).

Definition seed2_step (s : cstate) (o : op) : cstate * fired :=
  match o with
  | OTick =>
    let p := (cpos s + 1) mod cn s in
    let s0 := Concrete.mkC (cn s) (cint s) p (cheap s) (cslots s) (ctimers s) in
    fold_left (seed2_scan1 p) (nth (Z.to_nat p) (cslots s) []) (s0, [])
  | _ => cstep s o
  end.

Fixpoint seed2_run (s : cstate) (ops : list op) : list fired :=
  match ops with
  | [] => []
  | o :: ops' => let '(s', f) := seed2_step s o in f :: seed2_run s' ops'
  end.

(* 4 slots: set 2 intervals, moved to 5 (diff 3), relocated at the second tick; a move to
   4 intervals then measures the wait from the old slot: the callback runs a tick early *)
Definition seed2_history : list op :=
  [OSet 1 5 20; OMove 1 50; OTick; OTick; OMove 1 40; OTick; OTick; OTick; OTick].

Theorem seed_c12_2_refuted :
  exists ops, ~ Forall2 (@Permutation (Z * Z)) (seed2_run (cinit 4 10) ops) (sp_run 10 [] ops).
Proof.
  exists seed2_history. vm_compute. intros H.
  repeat (match goal with H : Forall2 _ (_ :: _) (_ :: _) |- _ => inversion H; clear H; subst end).
  match goal with H : Permutation [(1, 5)] [] |- _ => apply Permutation_sym, Permutation_nil in H; discriminate end.
Qed.

Example seed2_early :
  nth 7 (seed2_run (cinit 4 10) seed2_history) [] = [(1, 5)] /\
  nth 8 (sp_run 10 [] seed2_history) [] = [(1, 5)].
Proof. vm_compute. split; reflexivity. Qed.

(* ------------------------------------------------------------------ *)
(* Seeded change C12-3 (seeded/C12-3), in the wheel's client collection.Cache: onEvict no
   longer calls RemoveTimer but queues the key; SetWithExpire removes the queued timers
   AFTER its own SetTimer.  Cache.Del reaches onEvict too (size-limited cache), so
   Del k; Set k removes the timer that was just set: the entry never expires.
   Expressed over the composed model C16/ModelW.v (cache + this wheel). *)
From GZ Require C16.ModelW.
Module CW := GZ.C16.ModelW.
Module CM := GZ.C16.Model.

Definition seed3_state := (CW.cachew * list Z)%type.   (* + the queue c.evicted *)

Definition seed3_queued (c : CM.cache) (k : Z) : list Z :=
  if (0 <? CM.climit c) && CM.smem k (CM.clru c) then [k] else [].

Definition seed3_del (s : seed3_state) (k : Z) : seed3_state :=
  let '(cw, q) := s in
  (CW.mkCW (CM.c_del (CW.cwc cw) k) (remove_task (CW.cww cw) k) false,
   q ++ seed3_queued (CW.cwc cw) k).

Definition seed3_step (s : seed3_state) (o : CW.xop) : seed3_state :=
  let '(cw, q) := s in
  match o with
  | CW.XSet k v d =>
    let (c1, ev) := CM.c_set (CW.cwc cw) k v in
    let w1 := set_task (CW.cww cw) k v d in
    (CW.mkCW c1 (CW.tw_removes w1 (q ++ ev)) false, [])
  | CW.XDel k => seed3_del s k
  | CW.XTick =>
    let (w1, f) := on_tick (CW.cww cw) in
    fold_left (fun s kv => seed3_del s (fst kv)) f (CW.mkCW (CW.cwc cw) w1 false, q)
  | _ => s
  end.

Definition seed3_history : list CW.xop :=
  [CW.XSet 1 10 2500; CW.XDel 1; CW.XSet 1 11 2500; CW.XTick; CW.XTick; CW.XTick].

(* after the history the seeded cache still holds key 1 and its wheel holds no timer at
   all, while the cache as it stands has expired the entry at the second tick *)
Theorem seed_c12_3_refuted :
  exists limit ops k,
    let s := fold_left seed3_step ops (CW.cw_new limit 300 1000 false, []) in
    let t := CW.cw_final (CW.cw_new limit 300 1000 false) ops in
    CM.alookup k (CM.cdata (CW.cwc (fst s))) <> None /\ sents (CW.cww (fst s)) = [] /\
    CM.alookup k (CM.cdata (CW.cwc t)) = None.
Proof.
  exists 10, seed3_history, 1. vm_compute. repeat split; discriminate.
Qed.

(* ------------------------------------------------------------------ *)
(* Seeded change C12-4 (seeded/C12-4): scanAndRunTasks collects the due timers into a
   buffer that is kept between ticks (tasks := tw.dueTasks[:0] ... tw.dueTasks = tasks),
   and runTasks hands that slice to the goroutine that delivers it.  A later tick with due
   timers overwrites the backing array under a batch that is still being delivered.
   The delivery layer of Deliver.v with one shared backing array:
   - [sbuf]: the array behind tw.dueTasks (its length is the capacity);
   - a batch in flight is (private copy?, index of the blocked callback, length): a batch
     reads its tasks from the shared array when it goes on, unless the array was
     reallocated meanwhile (append beyond the capacity), in which case it keeps the old
     one. *)
From GZ Require Import C12.Api C12.Deliver.

Record sb_batch := mkSB { sb_arr : option fired;  (* Some a: detached old array; None: the shared one *)
                          sb_gate : Z;           (* the value whose gate the running callback waits on *)
                          sb_next : nat; sb_len : nat }.

Record sb_state := mkSBS
  { sb_wheel : acstate; sb_buf : fired; sb_flight : list sb_batch; sb_released : list Z }.

Definition sb_held (hold rel : list Z) (v : Z) : bool := zmem v hold && negb (zmem v rel).

(* deliver elements j, j+1, ... < len of array a until one blocks *)
Fixpoint sb_run (fuel : nat) (hold rel : list Z) (a : fired) (j len : nat) : fired * option nat :=
  match fuel with
  | O => ([], None)
  | S fuel' =>
    if Nat.ltb j len then
      let x := nth j a (0, 0) in
      if sb_held hold rel (snd x) then ([x], Some j)
      else let '(d, r) := sb_run fuel' hold rel a (S j) len in (x :: d, r)
    else ([], None)
  end.

(* append f to buf[:0]: in place while the capacity lasts, else a new array (doubling) *)
Definition sb_write (buf f : fired) : fired * bool (* reallocated? *) :=
  if Nat.leb (length f) (length buf)
  then (f ++ skipn (length f) buf, false)
  else (f ++ repeat (0, 0) (Nat.max (2 * length buf) (length f) - length f), true).

Definition sb_step (hold : list Z) (s : sb_state) (o : gop) : sb_state * fired :=
  match o with
  | GCall a =>
    let '(w', f, _) := acstep (sb_wheel s) a in
    match a with
    | ATick =>
      (* the in-place part of the append damages the shared array even when it then grows *)
      let damaged := firstn (length (sb_buf s)) f ++ skipn (length f) (sb_buf s) in
      let '(buf', realloc) := sb_write (sb_buf s) f in
      let flight := if realloc
                    then map (fun b => match sb_arr b with
                                       | None => mkSB (Some damaged) (sb_gate b) (sb_next b) (sb_len b)
                                       | _ => b end) (sb_flight s)
                    else sb_flight s in
      let '(d, r) := sb_run (S (length f)) hold (sb_released s) buf' 0 (length f) in
      (mkSBS w' buf' (flight ++ match r with Some j => [mkSB None (snd (nth j buf' (0, 0))) j (length f)] | None => [] end)
             (sb_released s), d)
    | _ => (mkSBS w' (sb_buf s) (sb_flight s) (sb_released s), f)   (* Move at once / Drain: not through the buffer *)
    end
  | GRelease v =>
    let rel := v :: sb_released s in
    let rs := map (fun b =>
                let a := match sb_arr b with Some a => a | None => sb_buf s end in
                if sb_gate b =? v
                then let '(d, r) := sb_run (S (sb_len b)) hold rel a (S (sb_next b)) (sb_len b) in
                     (d, match r with Some j => [mkSB (sb_arr b) (snd (nth j a (0, 0))) j (sb_len b)] | None => [] end)
                else ([], [b])) (sb_flight s) in
    (mkSBS (sb_wheel s) (sb_buf s) (flat_map snd rs) rel, concat (map fst rs))
  end.

Fixpoint sb_runs (hold : list Z) (s : sb_state) (ops : list gop) : list fired :=
  match ops with
  | [] => []
  | o :: ops' => let '(s', d) := sb_step hold s o in d :: sb_runs hold s' ops'
  end.

(* a, b due at tick 1 (a's callback held open), c, d due at tick 2: b is never delivered
   and d is delivered twice, although every gate has been opened at the end *)
Definition seed4_history : list gop :=
  [GCall (ASet (Some 1) 900 10); GCall (ASet (Some 2) 2 10); GCall (ASet (Some 3) 3 20);
   GCall (ASet (Some 4) 4 20); GCall ATick; GCall ATick] ++ map GRelease [900].

Theorem seed_c12_4_refuted :
  exists n i hold ops,
    let h := ops ++ map GRelease hold in
    ~ Permutation (concat (sb_runs hold (mkSBS (acinit n i) [] [] []) h))
                  (concat (gfired (asp_step i) (false, []) h)).
Proof.
  exists 8, 10, [900], (firstn 6 seed4_history). intros h H.
  apply Permutation_sym in H. apply (Permutation_in (2, 2)) in H.
  - vm_compute in H. repeat (destruct H as [H|H]; [discriminate H|]). exact H.
  - vm_compute. right. left. reflexivity.
Qed.

Example seed4_lost_and_doubled :
  sb_runs [900] (mkSBS (acinit 8 10) [] [] []) seed4_history =
  [[]; []; []; []; [(1, 900)]; [(3, 3); (4, 4)]; [(4, 4)]].
Proof. vm_compute. reflexivity. Qed.

(* ------------------------------------------------------------------ *)
(* Seeded change C12-10 (seeded/C12-10, "make up for ticks the ticker dropped"): the run loop
   keeps the VALUE of the last tick; a tick stamped two or more intervals later than the
   previous one (than the wheel's creation for the first) advances the wheel
   int(elapsed/interval) positions at once. *)
From GZ Require Import C12.Ticker.
From Coq Require Import Lia.

Record s10_state := mkS10 { s10_last : Z; s10_wheel : astate }.

Definition s10_catchup (i last now : Z) : Z :=
  if 2 * i <=? now - last then (now - last) / i else 1.

Fixpoint ticks_n (k : nat) (s : state) : state * fired :=
  match k with
  | O => (s, [])
  | S k' => let '(s1, f1) := on_tick s in let '(s2, f2) := ticks_n k' s1 in (s2, f1 ++ f2)
  end.

Definition s10_step (p : s10_state) (o : sop) : s10_state * fired * res :=
  match o with
  | STick now =>
    if aclosed (s10_wheel p) then (mkS10 now (s10_wheel p), [], RErrClosed)   (* not received *)
    else let s := ast (s10_wheel p) in
         let '(s', f) := ticks_n (Z.to_nat (s10_catchup (sint s) (s10_last p) now)) s in
         (mkS10 now (mkA false s'), f, ROk)
  | SCall a => let '(a', f, r) := astep (s10_wheel p) a in (mkS10 (s10_last p) a', f, r)
  end.

Fixpoint s10_run (p : s10_state) (ops : list sop) : list (fired * res) :=
  match ops with
  | [] => []
  | o :: ops' => let '(p', f, r) := s10_step p o in (f, r) :: s10_run p' ops'
  end.

(* 4 slots, interval 1000, built at time 0.  A timer set for 3 intervals, then ONE tick stamped
   5 intervals after the wheel was built: the timer fires at that first tick. *)
Definition seed10_history : list sop :=
  [SCall (ASet (Some 1) 5 3000); STick 5000; STick 6000; STick 7000].

Theorem seed_c12_10_refuted :
  exists n i created ops,
    forallb (fun o => match erase o with ASet _ _ d | AMove _ d => i <=? d | _ => true end) ops = true /\
    s10_run (mkS10 created (ainit n i)) ops <> srun (ainit n i) ops.
Proof. exists 4, 1000, 0, seed10_history. split; [reflexivity|]. vm_compute. discriminate. Qed.

Example seed10_fires_early :
  map fst (s10_run (mkS10 0 (ainit 4 1000)) seed10_history) = [[]; [(1, 5)]; []; []] /\
  map fst (srun (ainit 4 1000) seed10_history) = [[]; []; []; [(1, 5)]].
Proof. vm_compute. split; reflexivity. Qed.

(* why no test noticed: as long as consecutive stamps are less than two intervals apart
   the seeded loop does exactly what the real one does *)
Fixpoint stamps_close (i last : Z) (ops : list sop) : Prop :=
  match ops with
  | [] => True
  | STick now :: ops' => now - last < 2 * i /\ stamps_close i now ops'
  | SCall _ :: ops' => stamps_close i last ops'
  end.

Lemma move_far_sint s e d : sint (move_far s e d) = sint s.
Proof. unfold move_far. destruct (_ <=? _); reflexivity. Qed.

Lemma step_sint s o : sint (fst (step s o)) = sint s.
Proof.
  destruct o as [k v d|k d|k| |]; cbn [step fst].
  - unfold set_task. destruct (lookup k (sents s)); [|reflexivity]. now rewrite move_far_sint.
  - unfold move_task. destruct (lookup k (sents s)); [|reflexivity].
    destruct (d <? sint s); cbn [fst]; [reflexivity|apply move_far_sint].
  - reflexivity.
  - unfold on_tick. destruct (scan _ _ _). reflexivity.
  - reflexivity.
Qed.

Lemma astep_sint a c : sint (ast (fst (fst (astep a c)))) = sint (ast a).
Proof.
  assert (H : forall r, sint (ast (fst (fst (let '(s', f) := step (ast a) r in (mkA false s', f, ROk))))) = sint (ast a)).
  { intros r. pose proof (step_sint (ast a) r) as H. destruct (step (ast a) r). exact H. }
  destruct c as [k v d|k d|k| | |]; cbn [astep request].
  - destruct k; [destruct (0 <? d)|]; try reflexivity; destruct (aclosed a); try reflexivity; apply H.
  - destruct k; [destruct (0 <? d)|]; try reflexivity; destruct (aclosed a); try reflexivity; apply H.
  - destruct k; try reflexivity; destruct (aclosed a); try reflexivity; apply H.
  - destruct (aclosed a); try reflexivity; apply H.
  - destruct (aclosed a); try reflexivity; apply H.
  - destruct (aclosed a); reflexivity.
Qed.

Lemma s10_invisible_when_stamps_close ops : forall last a,
  stamps_close (sint (ast a)) last ops ->
  s10_run (mkS10 last a) ops = srun a ops.
Proof.
  induction ops as [|o ops IH]; intros last a H; [reflexivity|].
  destruct o as [c|now]; cbn [s10_run s10_step srun erase stamps_close s10_wheel s10_last] in *; unfold sstep; cbn [erase].
  - pose proof (astep_sint a c) as Hi. destruct (astep a c) as [[a' f] r]. cbn [fst] in Hi.
    f_equal. apply IH. now rewrite Hi.
  - destruct H as [Hc H]. destruct a as [cl s]. cbn [aclosed ast] in *.
    unfold astep. cbn [request aclosed ast]. destruct cl.
    + cbn [s10_wheel]. f_equal. now apply IH.
    + unfold s10_catchup. destruct (Z.leb_spec (2 * sint s) (now - last)) as [Hle|_]; [lia|].
      change (Z.to_nat 1) with 1%nat. cbn [ticks_n step].
      pose proof (step_sint s OTick) as Hs. cbn [step] in Hs.
      destruct (on_tick s) as [s1 f1]. cbn [fst] in Hs. rewrite app_nil_r. f_equal. apply IH.
      cbn [ast]. now rewrite Hs.
Qed.

(* ------------------------------------------------------------------ *)
(* Seeded change C12-6 (seeded/C12-6): SetTimer on a pending key that takes moveTask's
   re-slotting branch (new delay shorter than the wait for the current slot) writes the new
   value into the entry that has just been flagged removed: the timer fires once, at the
   right tick, with the value set BEFORE. *)

Definition seed6_step (s : state) (o : op) : state * fired :=
  match o with
  | OSet k v d =>
    match lookup k (sents s) with
    | Some e =>
      let d' := Z.max d (sint s) in
      if wait (sn s) (spos s) (epos e) <=? d' / sint s then step s o
      else (move_far s e d', [])          (* re-slotted with the OLD value *)
    | None => step s o
    end
  | _ => step s o
  end.

Fixpoint seed6_run (s : state) (ops : list op) : list fired :=
  match ops with
  | [] => []
  | o :: ops' => let '(s', f) := seed6_step s o in f :: seed6_run s' ops'
  end.

Theorem seed_c12_6_refuted :
  exists n i ops, seed6_run (init n i) ops <> sp_run i [] ops.
Proof. exists 3, 10, [OSet 1 5 30; OSet 1 6 10; OTick]. vm_compute. discriminate. Qed.

Example seed6_stale_value :
  seed6_run (init 3 10) [OSet 1 5 30; OSet 1 6 10; OTick] = [[]; []; [(1, 5)]] /\
  run (init 3 10) [OSet 1 5 30; OSet 1 6 10; OTick] = [[]; []; [(1, 6)]].
Proof. vm_compute. split; reflexivity. Qed.

(* ------------------------------------------------------------------ *)
(* Seeded change C12-9 (seeded/C12-9): ONE recover around the whole batch of a tick instead of
   one per timer: when the callback of a timer panics, the timers after it in that tick's
   batch are never delivered.  (Values congruent to 999 modulo 1000 are the callbacks that
   panic in the correspondence run.) *)

Definition panics (v : Z) : bool := v mod 1000 =? 999.

Fixpoint seed9_batch (b : fired) : fired :=
  match b with
  | [] => []
  | x :: b' => if panics (snd x) then [x] else x :: seed9_batch b'
  end.

Fixpoint seed9_run (a : acstate) (ops : list aop) : list fired :=
  match ops with
  | [] => []
  | o :: ops' =>
    let '(a', f, _) := acstep a o in
    (match o with ATick => seed9_batch f | _ => f end) :: seed9_run a' ops'
  end.

Theorem seed_c12_9_refuted :
  exists n i ops,
    ~ Permutation (concat (seed9_run (acinit n i) ops))
                  (concat (map fst (asp_run i (false, []) ops))).
Proof.
  exists 4, 10, [ASet (Some 1) 999 20; ASet (Some 2) 7 20; ATick; ATick; ATick; ADrain]. intros H.
  apply Permutation_sym in H. apply (Permutation_in (2, 7)) in H.
  - vm_compute in H. repeat (destruct H as [H|H]; [discriminate H|]). exact H.
  - vm_compute. right. left. reflexivity.
Qed.

(* ------------------------------------------------------------------ *)
(* Drain and the wheel goroutine.  drainAll runs ON the wheel goroutine and hands the drained
   timers to a runner of [width] workers.  While the wheel goroutine is inside drainAll it takes no
   request and no tick.  Two variants of "when does it leave drainAll":
     - the tree before pending/C12-drain-off-wheel-goroutine.diff: when every task has been handed
       to a worker ([wait_all = false]; Schedule blocks while [width] callbacks are running);
     - seeded change C12-11: when every callback has RETURNED ([wait_all = true], runner.Wait()).
   A callback that calls back into the wheel ([react x = Some a]) returns only after the wheel
   goroutine has taken its call.  The model of Deliver.v (the repaired code: drainAll only collects,
   delivery happens off the wheel goroutine) has no such state: every call is taken. *)

From GZ Require Import Lib.CheckLib.

Record dr_state := mkDR
  { dr_queue : fired;        (* drained tasks not yet handed to a worker *)
    dr_running : fired;      (* callbacks running on workers *)
    dr_wheel : astate }.

Section DrainOnLoop.
Variable width : nat.
Variable wait_all : bool.
Variable react : Z * Z -> option aop.

(* hand tasks to free workers *)
Fixpoint dr_fill (fuel : nat) (q run : fired) : fired * fired :=
  match fuel, q with
  | S fuel', x :: q' => if Nat.ltb (length run) width then dr_fill fuel' q' (run ++ [x]) else (q, run)
  | _, _ => (q, run)
  end.

(* is the wheel goroutine still inside drainAll? *)
Definition dr_busy (s : dr_state) : bool :=
  match dr_queue s with
  | _ :: _ => true
  | [] => if wait_all then match dr_running s with [] => false | _ => true end else false
  end.

Inductive dr_ev :=
| DCall (o : aop)            (* some goroutine calls the API / the ticker offers a tick *)
| DReturn (x : Z * Z).       (* the callback of x (running on a worker) finishes *)

(* None: the event cannot happen in this state (the caller stays blocked) *)
Definition dr_step (s : dr_state) (e : dr_ev) : option dr_state :=
  match e with
  | DCall o =>
    if dr_busy s then None
    else let '(a', f, _) := astep (dr_wheel s) o in
         match o with
         | ADrain => let '(q, run) := dr_fill (length f) f (dr_running s) in Some (mkDR q run a')
         | _ => Some (mkDR (dr_queue s) (dr_running s) a')   (* tick callbacks run off the wheel goroutine *)
         end
  | DReturn x =>
    if existsb (pair_eqb x) (dr_running s) then
      match react x with
      | Some a =>
        (* it must get its call through first *)
        if dr_busy s then None
        else let '(a', _, _) := astep (dr_wheel s) a in
             Some (mkDR (dr_queue s) (filter (fun y => negb (pair_eqb x y)) (dr_running s)) a')
      | None =>
        let run := filter (fun y => negb (pair_eqb x y)) (dr_running s) in
        let '(q, run') := dr_fill (length (dr_queue s)) (dr_queue s) run in
        Some (mkDR q run' (dr_wheel s))
      end
    else None
  end.

Fixpoint dr_run (s : dr_state) (es : list dr_ev) : option dr_state :=
  match es with
  | [] => Some s
  | e :: es' => match dr_step s e with Some s' => dr_run s' es' | None => None end
  end.

(* dead: callbacks are running, none of them can finish, and no call or tick is ever taken again *)
Definition dr_dead (s : dr_state) : Prop :=
  dr_running s <> [] /\ (forall x, dr_step s (DReturn x) = None) /\ (forall o, dr_step s (DCall o) = None).
End DrainOnLoop.

Lemma dr_dead_intro width wait_all react s :
  dr_running s <> [] -> dr_busy wait_all s = true ->
  forallb (fun x => match react x with Some _ => true | None => false end) (dr_running s) = true ->
  dr_dead width wait_all react s.
Proof.
  intros Hr Hb Hall. split; [exact Hr|]. split.
  - intros x. unfold dr_step. destruct (existsb (pair_eqb x) (dr_running s)) eqn:E; [|reflexivity].
    apply existsb_exists in E. destruct E as (y & Hy & Hxy).
    rewrite forallb_forall in Hall. specialize (Hall y Hy).
    assert (x = y) as ->.
    { unfold pair_eqb in Hxy. apply andb_true_iff in Hxy. destruct Hxy as [H1 H2].
      apply Z.eqb_eq in H1. apply Z.eqb_eq in H2. destruct x, y; cbn in *; congruence. }
    destruct (react y); [|discriminate]. now rewrite Hb.
  - intros o. unfold dr_step. now rewrite Hb.
Qed.

(* seed C12-11: ONE pending timer whose drain callback re-sets its key: the wheel is dead, the
   re-set is never accepted (while the model of the repaired code takes it and fires it) *)
Theorem seed_c12_11_refuted :
  exists n i react es s,
    dr_run 8 true react (mkDR [] [] (ainit n i)) es = Some s /\ dr_dead 8 true react s.
Proof.
  exists 4, 10, (fun x => if snd x =? 700 then Some (ASet (Some (fst x)) 6 20) else None),
         [DCall (ASet (Some 1) 700 30); DCall ADrain].
  eexists. split; [vm_compute; reflexivity|]. apply dr_dead_intro; vm_compute; [discriminate|reflexivity|reflexivity].
Qed.

(* the tree before the repair: 9 pending timers with re-entrant drain callbacks (8 fill the runner,
   Schedule blocks on the 9th): dead as well; with 8 the wheel goroutine leaves drainAll *)
Definition nine_sets : list dr_ev :=
  map (fun k => DCall (ASet (Some k) 700 30)) [1; 2; 3; 4; 5; 6; 7; 8; 9].

Theorem drain_on_wheel_goroutine_refuted :
  exists n i react es s,
    dr_run 8 false react (mkDR [] [] (ainit n i)) es = Some s /\ dr_dead 8 false react s.
Proof.
  exists 10, 10, (fun x => if snd x =? 700 then Some (ASet (Some (fst x)) 6 20) else None),
         (nine_sets ++ [DCall ADrain]).
  eexists. split; [vm_compute; reflexivity|]. apply dr_dead_intro; vm_compute; [discriminate|reflexivity|reflexivity].
Qed.

Example eight_reentrant_callbacks_are_fine :
  let react := fun x : Z * Z => if snd x =? 700 then Some (ASet (Some (fst x)) 6 20) else None in
  match dr_run 8 false react (mkDR [] [] (ainit 10 10)) (firstn 8 nine_sets ++ [DCall ADrain; DReturn (1, 700); DCall ATick]) with
  | Some s => dr_busy false s = false /\ length (dr_running s) = 7%nat
  | None => False
  end.
Proof. vm_compute. split; reflexivity. Qed.
