(* C12 — the algorithms as they were at the pinned commit, kept to document the two
   defects repaired by `fix:` commits (DESIGN.md §5, F1 and F12).  Each is refuted by
   a concrete history evaluated with vm_compute. *)
From Coq Require Import List ZArith Bool.
From GZ Require Import C12.Model.
Import ListNotations.
Open Scope Z_scope.

(* F1: moveTask compared absolute slot numbers *)
Definition pinned_move_far (s : state) (e : entry) (d : Z) : state :=
  let steps := d / sint s in
  let pos := pos_of s steps in
  let circle := circle_of s steps in
  if epos e <=? pos then
    mkState (sn s) (sint s) (spos s)
      (upd (ekey e) (fun e' => mkEntry (ekey e') (evalue e') (epos e') circle (pos - epos e')) (sents s))
  else if 0 <? circle then
    mkState (sn s) (sint s) (spos s)
      (upd (ekey e) (fun e' => mkEntry (ekey e') (evalue e') (epos e') (circle - 1)
                                       (sn s + pos - epos e')) (sents s))
  else
    mkState (sn s) (sint s) (spos s)
      (upd (ekey e) (fun e' => mkEntry (ekey e') (evalue e') pos 0 0) (sents s)).

Definition pinned_step (s : state) (o : op) : state * fired :=
  match o with
  | OMove k d =>
    match lookup k (sents s) with
    | None => (s, [])
    | Some e => if d <? sint s then (s, [(k, evalue e)]) else (pinned_move_far s e d, [])
    end
  | _ => step s o
  end.

Fixpoint pinned_run (s : state) (ops : list op) : list fired :=
  match ops with
  | [] => []
  | o :: ops' => let '(s', f) := pinned_step s o in f :: pinned_run s' ops'
  end.

(* 10 slots, six ticks, a timer set behind the wheel position and moved to 2
   intervals: the pinned algorithm fires it one revolution late (12th tick). *)
Definition f1_history : list op :=
  repeat OTick 6 ++ [OSet 7 70 6000; OMove 7 2000] ++ repeat OTick 12.

Theorem move_wrap_refuted :
  exists ops, pinned_run (init 10 1000) ops <> sp_run 1000 [] ops.
Proof. exists f1_history. vm_compute. discriminate. Qed.

Example f1_late :
  nth 19 (pinned_run (init 10 1000) f1_history) [] = [(7, 70)] /\
  nth 9 (sp_run 1000 [] f1_history) [] = [(7, 70)].
Proof. vm_compute. split; reflexivity. Qed.
