(* C12 — a second, lower-level executable model of core/collection/timingwheel.go
   that keeps the data structures of the Go code:

   - a heap of timingEntry objects (index = identity of the *timingEntry pointer),
     each with its [removed] flag;
   - [slots]: numSlots lists of pointers, in list order (PushBack = append);
   - [timers]: key |-> positionEntry{pos, item pointer}.

   ConcreteProofs.v shows that, under the representation invariant, this model
   refines the flat model of Model.v (same state under the abstraction function,
   same callbacks up to the order inside one operation).  No proofs here. *)
From Coq Require Import List ZArith Bool.
From GZ Require Import C12.Model.
Import ListNotations.
Open Scope Z_scope.

Record cell := mkCell
  { ckey : Z; cval : Z; ccircle : Z; cdiff : Z; cremoved : bool }.

Record cstate := mkC
  { cn : Z; cint : Z; cpos : Z;
    cheap : list cell;                 (* all entries ever allocated *)
    cslots : list (list nat);          (* numSlots lists of pointers *)
    ctimers : list (Z * (Z * nat)) }.  (* key |-> (pos, item) *)

Definition cinit (n interval : Z) : cstate :=
  mkC n interval (n - 1) [] (repeat [] (Z.to_nat n)) [].

Definition dummy : cell := mkCell 0 0 0 0 true.
Definition hget (h : list cell) (id : nat) : cell := nth id h dummy.

Fixpoint upd_nth {A} (i : nat) (f : A -> A) (l : list A) : list A :=
  match l, i with
  | [], _ => []
  | x :: l', O => f x :: l'
  | x :: l', S i' => x :: upd_nth i' f l'
  end.

Definition tget (k : Z) (t : list (Z * (Z * nat))) : option (Z * nat) :=
  match find (fun kv => fst kv =? k) t with
  | Some kv => Some (snd kv)
  | None => None
  end.
Definition tdel (k : Z) (t : list (Z * (Z * nat))) := filter (fun kv => negb (fst kv =? k)) t.
(* setTimerPosition: update in place when the key is known, else add *)
Definition tput (k : Z) (pi : Z * nat) (t : list (Z * (Z * nat))) :=
  match tget k t with
  | Some _ => map (fun kv => if fst kv =? k then (k, pi) else kv) t
  | None => t ++ [(k, pi)]
  end.

Definition push (p : Z) (id : nat) (sl : list (list nat)) : list (list nat) :=
  upd_nth (Z.to_nat p) (fun l => l ++ [id]) sl.

(* moveTask for delay >= interval, timer = (p, id) *)
Definition cmove_far (s : cstate) (k : Z) (p : Z) (id : nat) (d : Z) : cstate :=
  let steps := d / cint s in
  let w := wait (cn s) (cpos s) p in
  if w <=? steps then
    mkC (cn s) (cint s) (cpos s)
        (upd_nth id (fun c => mkCell (ckey c) (cval c) ((steps - w) / cn s) ((steps - w) mod cn s) (cremoved c))
                 (cheap s))
        (cslots s) (ctimers s)
  else
    let np := (cpos s + steps) mod cn s in
    let nid := length (cheap s) in
    let old := hget (cheap s) id in
    mkC (cn s) (cint s) (cpos s)
        (upd_nth id (fun c => mkCell (ckey c) (cval c) (ccircle c) (cdiff c) true) (cheap s)
         ++ [mkCell k (cval old) 0 0 false])
        (push np nid (cslots s))
        (tput k (np, nid) (ctimers s)).

Definition cmove_task (s : cstate) (k d : Z) : cstate * fired :=
  match tget k (ctimers s) with
  | None => (s, [])
  | Some (p, id) =>
    if d <? cint s then (s, [(ckey (hget (cheap s) id), cval (hget (cheap s) id))])
    else (cmove_far s k p id d, [])
  end.

Definition cset_task (s : cstate) (k v d : Z) : cstate :=
  let d := Z.max d (cint s) in
  match tget k (ctimers s) with
  | Some (p, id) =>
    let s1 := mkC (cn s) (cint s) (cpos s)
                  (upd_nth id (fun c => mkCell (ckey c) v (ccircle c) (cdiff c) (cremoved c)) (cheap s))
                  (cslots s) (ctimers s) in
    cmove_far s1 k p id d
  | None =>
    let steps := d / cint s in
    let np := (cpos s + steps) mod cn s in
    let nid := length (cheap s) in
    mkC (cn s) (cint s) (cpos s)
        (cheap s ++ [mkCell k v ((steps - 1) / cn s) 0 false])
        (push np nid (cslots s))
        (tput k (np, nid) (ctimers s))
  end.

Definition cremove_task (s : cstate) (k : Z) : cstate :=
  match tget k (ctimers s) with
  | None => s
  | Some (_, id) =>
    mkC (cn s) (cint s) (cpos s)
        (upd_nth id (fun c => mkCell (ckey c) (cval c) (ccircle c) (cdiff c) true) (cheap s))
        (cslots s) (tdel k (ctimers s))
  end.

(* scanAndRunTasks: one iteration of the walk over the ticked slot [p], for the
   list element [id].  l.Remove(e) = dropping the pointer from slot p. *)
Definition drop_id (p : Z) (id : nat) (sl : list (list nat)) : list (list nat) :=
  upd_nth (Z.to_nat p) (filter (fun x => negb (Nat.eqb x id))) sl.

Definition cscan1 (p : Z) (sf : cstate * fired) (id : nat) : cstate * fired :=
  let '(s, f) := sf in
  let c := hget (cheap s) id in
  if cremoved c then
    (mkC (cn s) (cint s) (cpos s) (cheap s) (drop_id p id (cslots s)) (ctimers s), f)
  else if 0 <? ccircle c then
    (mkC (cn s) (cint s) (cpos s)
         (upd_nth id (fun c => mkCell (ckey c) (cval c) (ccircle c - 1) (cdiff c) (cremoved c)) (cheap s))
         (cslots s) (ctimers s), f)
  else if 0 <? cdiff c then
    let np := (p + cdiff c) mod cn s in
    (mkC (cn s) (cint s) (cpos s)
         (upd_nth id (fun c => mkCell (ckey c) (cval c) (ccircle c) 0 (cremoved c)) (cheap s))
         (push np id (drop_id p id (cslots s)))
         (tput (ckey c) (np, id) (ctimers s)), f)
  else
    (mkC (cn s) (cint s) (cpos s) (cheap s) (drop_id p id (cslots s)) (tdel (ckey c) (ctimers s)),
     f ++ [(ckey c, cval c)]).

(* onTick: advance, then walk the elements the slot holds at that moment *)
Definition con_tick (s : cstate) : cstate * fired :=
  let p := (cpos s + 1) mod cn s in
  let s0 := mkC (cn s) (cint s) p (cheap s) (cslots s) (ctimers s) in
  fold_left (cscan1 p) (nth (Z.to_nat p) (cslots s) []) (s0, []).

(* drainAll: every slot emptied; live entries are delivered and forgotten *)
Definition cdrain (s : cstate) : cstate * fired :=
  let ids := concat (cslots s) in
  let live := filter (fun id => negb (cremoved (hget (cheap s) id))) ids in
  (mkC (cn s) (cint s) (cpos s) (cheap s) (map (fun _ => []) (cslots s))
       (fold_left (fun t id => tdel (ckey (hget (cheap s) id)) t) live (ctimers s)),
   map (fun id => (ckey (hget (cheap s) id), cval (hget (cheap s) id))) live).

Definition cstep (s : cstate) (o : op) : cstate * fired :=
  match o with
  | OSet k v d => (cset_task s k v d, [])
  | OMove k d => cmove_task s k d
  | ORemove k => (cremove_task s k, [])
  | OTick => con_tick s
  | ODrain => cdrain s
  end.

Fixpoint crun (s : cstate) (ops : list op) : list fired :=
  match ops with
  | [] => []
  | o :: ops' => let '(s', f) := cstep s o in f :: crun s' ops'
  end.

(* abstraction to the flat model: one entry per key of the timers map, in map order *)
Definition cabs (s : cstate) : state :=
  mkState (cn s) (cint s) (cpos s)
    (map (fun kv => let c := hget (cheap s) (snd (snd kv)) in
                    mkEntry (fst kv) (cval c) (fst (snd kv)) (ccircle c) (cdiff c))
         (ctimers s)).
