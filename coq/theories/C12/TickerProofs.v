(* C12 — proofs about Ticker.v: the values carried by ticks are irrelevant to the wheel;
   the fake ticker delivers every accepted tick exactly once and in order; the real ticker
   may drop ticks but never invents, doubles or reorders them. *)
From Coq Require Import List ZArith Bool Lia.
From GZ Require Import Lib.CheckLib C12.Model C12.Proofs C12.Api C12.ApiProofs C12.Ticker.
Import ListNotations.
Open Scope Z_scope.

(* ------------------------------------------------------------------ *)
(* 1. stamped histories *)

Lemma srun_erase a ops : srun a ops = arun a (map erase ops).
Proof.
  revert a. induction ops as [|o ops IH]; intros a; [reflexivity|].
  cbn [srun map arun]. unfold sstep. destruct (astep a (erase o)) as [[a' f] r]. now rewrite IH.
Qed.

Lemma sfinal_erase a ops : sfinal a ops = afinal a (map erase ops).
Proof.
  revert a. induction ops as [|o ops IH]; intros a; [reflexivity|].
  cbn [sfinal map afinal]. unfold sstep. apply IH.
Qed.

(* two histories that differ only in the values delivered by the ticker: same callbacks, same
   results, same state, from every state of the wheel *)
Lemma stamps_irrelevant a h1 h2 :
  map erase h1 = map erase h2 -> srun a h1 = srun a h2 /\ sfinal a h1 = sfinal a h2.
Proof. intros H. now rewrite !srun_erase, !sfinal_erase, H. Qed.

Lemma erase_restamp f j ops : map erase (restamp f j ops) = map erase ops.
Proof.
  revert j. induction ops as [|o ops IH]; intros j; [reflexivity|].
  destruct o as [a|s]; cbn [restamp map erase]; now rewrite IH.
Qed.

Lemma restamp_irrelevant a f ops :
  srun a (restamp f 0 ops) = srun a ops /\ sfinal a (restamp f 0 ops) = sfinal a ops.
Proof. apply stamps_irrelevant, erase_restamp. Qed.

(* the stamped run is the run over the due-map *)
Lemma stamped_refines_spec n i ops :
  1 <= n -> 1 <= i -> srun (ainit n i) ops = asp_run i (false, []) (map erase ops).
Proof. intros Hn Hi. rewrite srun_erase. now apply api_refines_spec. Qed.

(* exactness, whatever the ticker sends *)
Lemma stamped_set_fires_at_due n i pre k v d a o v' :
  1 <= n -> 1 <= i -> i <= d ->
  has_stop (map erase (pre ++ SCall (ASet (Some k) v d) :: a)) = false ->
  forallb (fun o => negb (atouches k (erase o))) a = true -> atouches k (erase o) = false ->
  In (k, v') (snd (fst (sstep (sfinal (ainit n i) (pre ++ SCall (ASet (Some k) v d) :: a)) o))) <->
  (erase o = ATick /\ aticks (map erase a) + 1 = d / i /\ v' = v).
Proof.
  intros Hn Hi Hd Hs Ha Ho. unfold sstep. rewrite sfinal_erase.
  rewrite map_app in *. cbn [map erase] in *.
  apply api_set_fires_at_due; try assumption.
  clear -Ha. induction a as [|x a IH]; [reflexivity|]. cbn [map forallb] in *.
  apply andb_true_iff in Ha. destruct Ha as [H1 H2]. now rewrite H1, IH.
Qed.

(* ------------------------------------------------------------------ *)
(* 2. the fake ticker: conservation *)

Definition fwf (s : fstate) : Prop :=
  (length (fbuf s) <= 1)%nat /\ (frecvq s = [] \/ fbuf s = []) /\ (fsendq s = [] \/ fbuf s <> []).

Lemma fwf_init : fwf finit.
Proof. repeat split; cbn; auto. Qed.

Lemma accepted_app a b : accepted_of (a ++ b) = accepted_of a ++ accepted_of b.
Proof. apply flat_map_app. Qed.
Lemma received_app a b : received_of (a ++ b) = received_of a ++ received_of b.
Proof. apply flat_map_app. Qed.

Lemma accepted_closed l : accepted_of (map (fun r : Z => (r, FClosed)) l) = [].
Proof. induction l; cbn; auto. Qed.
Lemma accepted_panicked l : accepted_of (map (fun r : Z => (r, FPanicked)) l) = [].
Proof. induction l; cbn; auto. Qed.
Lemma received_closed l : received_of (map (fun r : Z => (r, FClosed)) l) = [].
Proof. induction l; cbn; auto. Qed.
Lemma received_panicked l : received_of (map (fun r : Z => (r, FPanicked)) l) = [].
Proof. induction l; cbn; auto. Qed.

Lemma fstep_conserves s j o :
  fwf s ->
  let '(s', d) := fstep s j o in
  fwf s' /\ fbuf s ++ accepted_of d = received_of d ++ fbuf s'.
Proof.
  intros (Hl & Hr & Hs). destruct s as [buf sq rq cl dn dq]. cbn [fbuf fsendq frecvq] in *.
  destruct o; cbn [fstep fbuf fsendq frecvq fclosed fdone fdoneq].
  - (* Tick *)
    destruct cl.
    { split; [repeat split; cbn; auto|]. cbn. now rewrite app_nil_r. }
    destruct rq as [|r rq].
    + destruct buf as [|t buf].
      * split; [repeat split; cbn; auto; right; discriminate|]. reflexivity.
      * split; [repeat split; cbn [fbuf fsendq frecvq]; auto; right; discriminate|].
        cbn. now rewrite app_nil_r.
    + destruct Hr as [Hr|Hr]; [discriminate|]. subst buf.
      split; [repeat split; cbn [fbuf fsendq frecvq]; auto|]. reflexivity.
  - (* Recv *)
    destruct buf as [|t buf].
    + destruct cl.
      * split; [repeat split; cbn; auto|]. reflexivity.
      * split; [repeat split; cbn [fbuf fsendq frecvq]; auto|]. reflexivity.
    + destruct buf as [|t2 buf]; [|cbn in Hl; lia].
      destruct Hr as [Hr|Hr]; [|discriminate]. subst rq.
      destruct sq as [|t' sq].
      * split; [repeat split; cbn [fbuf fsendq frecvq]; auto|]. reflexivity.
      * split; [repeat split; cbn [fbuf fsendq frecvq]; auto; right; discriminate|]. reflexivity.
  - (* Stop *)
    destruct cl.
    { split; [repeat split; cbn; auto|]. cbn. now rewrite app_nil_r. }
    split; [repeat split; cbn [fbuf fsendq frecvq]; auto|].
    rewrite !accepted_app, !received_app, accepted_closed, accepted_panicked,
      received_closed, received_panicked. cbn. now rewrite app_nil_r.
  - (* Done *)
    destruct dn; (split; [repeat split; cbn [fbuf fsendq frecvq]; auto|]); cbn; now rewrite app_nil_r.
  - (* Wait *)
    destruct dn; [destruct dq|]; (split; [repeat split; cbn [fbuf fsendq frecvq]; auto|]);
      cbn; now rewrite app_nil_r.
Qed.

(* every history of Tick / receive / Stop / Done / Wait operations, from every well-formed state:
   the ticks the channel accepted (in order of acceptance), preceded by what was buffered before,
   are the ticks received (in order of the receives) followed by what is buffered at the end *)
Lemma frun_conserves ops : forall s j,
  fwf s ->
  fwf (ffinal s j ops) /\
  fbuf s ++ accepted_of (concat (frun s j ops)) =
  received_of (concat (frun s j ops)) ++ fbuf (ffinal s j ops).
Proof.
  induction ops as [|o ops IH]; intros s j Hw.
  - cbn. split; [assumption|]. now rewrite app_nil_r.
  - cbn [frun ffinal]. pose proof (fstep_conserves s j o Hw) as H1.
    destruct (fstep s j o) as [s' d] eqn:E. destruct H1 as [Hw' H1].
    cbn [fst concat]. destruct (IH s' (j + 1) Hw') as [Hw'' H2]. split; [assumption|].
    rewrite accepted_app, received_app, app_assoc, H1, <- app_assoc, H2, app_assoc. reflexivity.
Qed.

Lemma fake_ticker_exactly_once ops :
  let d := concat (frun finit 0 ops) in
  accepted_of d = received_of d ++ fbuf (ffinal finit 0 ops) /\
  (length (fbuf (ffinal finit 0 ops)) <= 1)%nat.
Proof.
  destruct (frun_conserves ops finit 0 fwf_init) as [(Hl & _) H]. split; [exact H|exact Hl].
Qed.

(* ------------------------------------------------------------------ *)
(* the real ticker: received ++ buffered is a subsequence of buffered-before ++ fired *)

Inductive subseq {A} : list A -> list A -> Prop :=
| sub_nil l : subseq [] l
| sub_take x l1 l2 : subseq l1 l2 -> subseq (x :: l1) (x :: l2)
| sub_skip x l1 l2 : subseq l1 l2 -> subseq l1 (x :: l2).

Lemma subseq_refl {A} (l : list A) : subseq l l.
Proof. induction l; constructor; auto. Qed.

Lemma subseq_insert {A} (x : A) l1 : forall L l2, subseq L (l1 ++ l2) -> subseq L (l1 ++ x :: l2).
Proof.
  induction l1 as [|b l1 IH]; intros L l2 H; cbn in *.
  - now constructor.
  - inversion H; subst; constructor; auto.
Qed.

Lemma real_conserves ops : forall s,
  (length (rbuf s) <= 1)%nat ->
  subseq (rrecvd s ops ++ rbuf (rfinal s ops)) (rbuf s ++ rfired ops).
Proof.
  induction ops as [|o ops IH]; intros s Hl.
  - cbn. rewrite app_nil_r. apply subseq_refl.
  - destruct s as [buf st]. cbn [rbuf] in Hl.
    destruct o as [t| |]; cbn [rrecvd rfinal rstep rfired flat_map rbuf rstopped fst].
    + destruct st.
      * change ([t] ++ flat_map (fun o => match o with RFire t => [t] | _ => [] end) ops) with (t :: rfired ops).
        apply subseq_insert. apply (IH (mkR buf true)). exact Hl.
      * change ([t] ++ flat_map (fun o => match o with RFire t => [t] | _ => [] end) ops) with (t :: rfired ops).
        destruct buf as [|b buf].
        -- cbn [app]. apply (IH (mkR [t] false)). cbn. lia.
        -- apply subseq_insert. apply (IH (mkR (b :: buf) false)). exact Hl.
    + change ([] ++ flat_map (fun o => match o with RFire t => [t] | _ => [] end) ops) with (rfired ops).
      destruct buf as [|b buf].
      * apply (IH (mkR [] st)). cbn. lia.
      * destruct buf; [|cbn in Hl; lia]. cbn [app]. constructor.
        apply (IH (mkR [] st)). cbn. lia.
    + change ([] ++ flat_map (fun o => match o with RFire t => [t] | _ => [] end) ops) with (rfired ops).
      apply (IH (mkR buf true)). exact Hl.
Qed.

Lemma real_ticker_never_invents ops :
  subseq (rrecvd (mkR [] false) ops) (rfired ops).
Proof.
  pose proof (real_conserves ops (mkR [] false)) as H. cbn [rbuf app] in H.
  specialize (H ltac:(cbn; lia)).
  remember (rrecvd _ ops) as L. remember (rbuf _) as B. clear -H.
  revert H. generalize (rfired ops) as F. induction L as [|x L IH]; intros F H; [constructor|].
  cbn in H. induction F as [|y F IHF]; inversion H; subst.
  - constructor. now apply IH.
  - constructor. now apply IHF.
Qed.

(* ------------------------------------------------------------------ *)
(* the executable judge [ticker_ok] (used by prop_ok on OBSERVED completions) accepts what the
   channel machine does, on every history: it cannot alarm on an implementation that agrees
   with the model *)

Fixpoint incr_list (last : Z) (l : list Z) : Prop :=
  match l with
  | [] => True
  | t :: l' => last < t /\ incr_list t l'
  end.

Lemma incr_list_snoc l : forall last j,
  incr_list last l -> last < j -> Forall (fun t => t < j) l -> incr_list last (l ++ [j]).
Proof.
  induction l as [|t l IH]; intros last j Hi Hl Hf; cbn in *; [auto|].
  destruct Hi as [H1 H2]. inversion Hf; subst. split; [assumption|]. apply IH; auto.
Qed.

Definition tick_at (o : option tkop) : bool := match o with Some TkTick => true | _ => false end.

Record tinv (ops : list tkop) (j last ret got : Z) (s : fstate) : Prop := mkTinv
  { ti_wf : fwf s;
    ti_last : last < j;
    ti_incr : incr_list last (fbuf s ++ fsendq s);
    ti_ids : Forall (fun t => t < j /\ nth_is_tick ops t = true) (fbuf s ++ fsendq s);
    ti_cnt : ret = got + Z.of_nat (length (fbuf s)) }.

Lemma forall_weaken ops j l :
  Forall (fun t => t < j /\ nth_is_tick ops t = true) l ->
  Forall (fun t => t < j + 1 /\ nth_is_tick ops t = true) l.
Proof. intros H. eapply Forall_impl; [|exact H]. cbn. intros a [H1 H2]. split; [lia|assumption]. Qed.

Lemma forall_lt ops j l :
  Forall (fun t => t < j /\ nth_is_tick ops t = true) l -> Forall (fun t => t < j) l.
Proof. intros H. eapply Forall_impl; [|exact H]. cbn. intros a [H1 _]. exact H1. Qed.

Lemma ticker_ok_step ops j last ret got d obs last' :
  incr_from ops j last (received_of d) = Some last' ->
  got + Z.of_nat (length (received_of d)) <= ret + Z.of_nat (length (accepted_of d)) ->
  ret + Z.of_nat (length (accepted_of d)) <= got + Z.of_nat (length (received_of d)) + 1 ->
  ticker_ok_from ops (j + 1) last' (ret + Z.of_nat (length (accepted_of d)))
                 (got + Z.of_nat (length (received_of d))) obs = true ->
  ticker_ok_from ops j last ret got (d :: obs) = true.
Proof.
  intros H1 H2 H3 H4. cbn [ticker_ok_from]. rewrite H1.
  apply Z.leb_le in H2. apply Z.leb_le in H3. rewrite H2, H3. exact H4.
Qed.

Lemma incr_from_one ops j last t :
  last < t -> t <= j -> nth_is_tick ops t = true -> incr_from ops j last [t] = Some t.
Proof.
  intros H1 H2 H3. cbn [incr_from]. apply Z.ltb_lt in H1. apply Z.leb_le in H2. now rewrite H1, H2, H3.
Qed.

Lemma stop_received rq sq j :
  received_of (map (fun r : Z => (r, FClosed)) rq ++ map (fun t : Z => (t, FPanicked)) sq ++ [(j, FReturned)]) = [].
Proof. now rewrite !received_app, received_closed, received_panicked. Qed.
Lemma stop_accepted rq sq j :
  accepted_of (map (fun r : Z => (r, FClosed)) rq ++ map (fun t : Z => (t, FPanicked)) sq ++ [(j, FReturned)]) = [].
Proof. now rewrite !accepted_app, accepted_closed, accepted_panicked. Qed.

Lemma incr_list_prefix buf sq last : incr_list last (buf ++ sq) -> incr_list last buf.
Proof.
  revert last. induction buf as [|b buf IH]; intros last H; cbn in *; [exact I|].
  destruct H as [H1 H2]. split; auto.
Qed.

Lemma buf_len (buf : list Z) : (length buf <= 1)%nat -> 0 <= Z.of_nat (length buf) <= 1.
Proof. lia. Qed.

Lemma ticker_ok_from_model ops : forall rest j last ret got s,
  (forall m, nth_is_tick ops (j + Z.of_nat m) = tick_at (nth_error rest m)) ->
  tinv ops j last ret got s ->
  ticker_ok_from ops j last ret got (frun s j rest) = true.
Proof.
  induction rest as [|o rest IH]; intros j last ret got s Hops Hinv; [reflexivity|].
  assert (Hops' : forall m, nth_is_tick ops (j + 1 + Z.of_nat m) = tick_at (nth_error rest m)).
  { intros m. specialize (Hops (S m)). cbn [nth_error] in Hops. rewrite <- Hops. f_equal. lia. }
  assert (Hj : nth_is_tick ops j = tick_at (Some o)).
  { specialize (Hops 0%nat). cbn [nth_error] in Hops. rewrite <- Hops. f_equal. cbn. lia. }
  destruct Hinv as [(Hl & Hr & Hs) Hlast Hincr Hids Hcnt].
  pose proof (buf_len _ Hl) as Hbl.
  destruct s as [buf sq rq cl dn dq]. cbn [fbuf fsendq frecvq] in *.
  (* the steps that neither send nor receive keep everything *)
  assert (Hsame : forall d cl' rq' dn' dq',
            received_of d = [] -> accepted_of d = [] -> (rq' = [] \/ buf = []) ->
            ticker_ok_from ops j last ret got (d :: frun (mkF buf sq rq' cl' dn' dq') (j + 1) rest) = true).
  { intros d cl' rq' dn' dq' Hd1 Hd2 Hrq. apply (ticker_ok_step ops j last ret got d _ last);
      rewrite ?Hd1, ?Hd2; cbn [length Z.of_nat incr_from]; try reflexivity; try lia.
    apply IH; [assumption|]. constructor; cbn [fbuf fsendq frecvq]; auto; try lia.
    - repeat split; auto.
    - now apply forall_weaken. }
  cbn [frun]. destruct o; cbn [fstep fbuf fsendq frecvq fclosed fdone fdoneq].
  - (* Tick *)
    destruct cl; [now apply Hsame|].
    destruct rq as [|r rq].
    + destruct buf as [|t buf].
      * destruct Hs as [Hs|Hs]; [subst sq|congruence].
        apply (ticker_ok_step ops j last ret got _ _ last); cbn [received_of accepted_of flat_map snd fst app length Z.of_nat incr_from];
          try reflexivity; try (cbn in Hcnt; lia).
        apply IH; [assumption|]. constructor; cbn [fbuf fsendq frecvq app length]; try lia.
        -- repeat split; cbn; auto; try (right; discriminate).
        -- cbn. auto.
        -- constructor; [|constructor]. split; [lia|]. rewrite Hj. reflexivity.
        -- cbn in *. lia.
      * destruct buf as [|? ?]; [|cbn in Hl; lia].
        apply (ticker_ok_step ops j last ret got _ _ last); cbn [received_of accepted_of flat_map snd fst app length Z.of_nat incr_from];
          try reflexivity; try (cbn in Hcnt; lia).
        apply IH; [assumption|]. constructor; cbn [fbuf fsendq frecvq]; try lia.
        -- repeat split; cbn; auto; try (right; discriminate).
        -- rewrite app_assoc. apply incr_list_snoc; [assumption|lia|].
           now apply (forall_lt ops).
        -- rewrite app_assoc. apply Forall_app. split.
           ++ now apply forall_weaken.
           ++ constructor; [|constructor]. split; [lia|]. rewrite Hj. reflexivity.
    + destruct Hr as [Hr|Hr]; [discriminate|]. subst buf.
      destruct Hs as [Hs|Hs]; [subst sq|congruence].
      apply (ticker_ok_step ops j last ret got _ _ j); cbn [received_of accepted_of flat_map snd fst app length Z.of_nat];
        try (cbn in Hcnt; lia).
      { apply incr_from_one; [lia|lia|]. rewrite Hj. reflexivity. }
      apply IH; [assumption|]. constructor; cbn [fbuf fsendq frecvq app length]; try lia; cbn; auto.
      * repeat split; cbn; auto.
      * cbn in Hcnt. lia.
  - (* Recv *)
    destruct buf as [|t buf].
    + destruct cl; [now apply Hsame|].
      apply Hsame; auto.
    + destruct buf as [|t2 buf]; [|cbn in Hl; lia]. cbn in Hcnt.
      destruct Hr as [Hr|Hr]; [|discriminate]. subst rq.
      cbn [app] in Hincr, Hids. destruct Hincr as [Hlt Hincr]. inversion Hids as [|? ? [Htj Htt] Hids']; subst.
      destruct sq as [|t' sq].
      * apply (ticker_ok_step ops j last (got + 1) got _ _ t); cbn [received_of accepted_of flat_map snd fst app length Z.of_nat];
          try lia.
        { apply incr_from_one; [lia|lia|assumption]. }
        apply IH; [assumption|]. constructor; cbn [fbuf fsendq frecvq app length]; try lia; cbn; auto.
        repeat split; cbn; auto.
      * apply (ticker_ok_step ops j last (got + 1) got _ _ t); cbn [received_of accepted_of flat_map snd fst app length Z.of_nat];
          try lia.
        { apply incr_from_one; [lia|lia|assumption]. }
        apply IH; [assumption|]. constructor; cbn [fbuf fsendq frecvq app length]; try lia.
        -- repeat split; cbn; auto; try (right; discriminate).
        -- exact Hincr.
        -- now apply forall_weaken.
  - (* Stop *)
    destruct cl; [now apply Hsame|].
    apply (ticker_ok_step ops j last ret got _ _ last); rewrite ?stop_received, ?stop_accepted;
      cbn [length Z.of_nat incr_from]; try reflexivity; try lia.
    apply IH; [assumption|]. constructor; cbn [fbuf fsendq frecvq]; auto; try lia.
    + repeat split; auto.
    + rewrite app_nil_r. now apply incr_list_prefix in Hincr.
    + rewrite app_nil_r. apply Forall_app in Hids. destruct Hids as [Hb _]. now apply forall_weaken.
  - (* Done *)
    destruct dn; now apply Hsame.
  - (* Wait *)
    destruct dn; [destruct dq|]; now apply Hsame.
Qed.

Lemma nth_is_tick_spec ops : forall m, nth_is_tick ops (Z.of_nat m) = tick_at (nth_error ops m).
Proof.
  induction ops as [|o ops IH]; intros m; [destruct m; reflexivity|].
  destruct m as [|m].
  - cbn. destruct o; reflexivity.
  - cbn [nth_is_tick nth_error]. replace (Z.of_nat (S m) =? 0) with false by (symmetry; apply Z.eqb_neq; lia).
    replace (Z.of_nat (S m) - 1) with (Z.of_nat m) by lia. apply IH.
Qed.

Lemma ticker_judge_accepts_model ops : ticker_ok ops (frun finit 0 ops) = true.
Proof.
  unfold ticker_ok. apply ticker_ok_from_model.
  - intros m. cbn. apply nth_is_tick_spec.
  - constructor; cbn; auto; try lia. apply fwf_init.
Qed.
