(* C12 — refinement of the timing-wheel model to the "key |-> remaining ticks"
   specification, and the trace theorems about the specification. *)
From Coq Require Import List ZArith Bool Lia Permutation.
From GZ Require Import C12.Model.
Import ListNotations.
Open Scope Z_scope.

(* ------------------------------------------------------------------ *)
(* arithmetic of slot positions                                         *)

Lemma mod_pred n a : 0 < n ->
  (a - 1) mod n = if a mod n =? 0 then n - 1 else a mod n - 1.
Proof.
  intros Hn. destruct (Z.eqb_spec (a mod n) 0) as [E|E].
  - symmetry. apply (Z.mod_unique_pos _ _ (a / n - 1)); [lia|].
    pose proof (Z.div_mod a n ltac:(lia)). lia.
  - symmetry. apply (Z.mod_unique_pos _ _ (a / n)).
    + pose proof (Z.mod_pos_bound a n Hn). lia.
    + pose proof (Z.div_mod a n ltac:(lia)). lia.
Qed.

Lemma wait_range n p q : 0 < n -> 1 <= wait n p q <= n.
Proof. intros Hn. unfold wait. pose proof (Z.mod_pos_bound (q - p - 1) n Hn). lia. Qed.

Lemma wait_add n p t : 0 < n -> wait n p ((p + t) mod n) = (t - 1) mod n + 1.
Proof.
  intros Hn. unfold wait. f_equal.
  replace ((p + t) mod n - p - 1) with ((p + t) mod n - (p + 1)) by lia.
  rewrite Zminus_mod_idemp_l. f_equal. lia.
Qed.

(* after one tick the wheel stands at (p+1) mod n *)
Lemma wait_tick n p q : 0 < n -> 0 <= p < n -> 0 <= q < n ->
  wait n ((p + 1) mod n) q =
  if q =? (p + 1) mod n then n else wait n p q - 1.
Proof.
  intros Hn Hp Hq. unfold wait.
  replace (q - (p + 1) mod n - 1) with (q - 1 - (p + 1) mod n) by lia.
  rewrite Zminus_mod_idemp_r.
  replace (q - 1 - (p + 1)) with (q - p - 1 - 1) by lia.
  rewrite mod_pred by lia.
  assert (Hiff : (q - p - 1) mod n = 0 <-> q = (p + 1) mod n).
  { split; intros H.
    - apply Z.mod_divide in H; [|lia]. destruct H as [c Hc].
      assert (c = 0 \/ c = -1) as [-> | ->] by nia.
      + rewrite Z.mod_small; lia.
      + assert (p + 1 = n) as -> by lia. rewrite Z.mod_same by lia. lia.
    - subst q. replace ((p + 1) mod n - p - 1) with ((p + 1) mod n - (p + 1)) by lia.
      rewrite Zminus_mod_idemp_l. replace (p + 1 - (p + 1)) with 0 by lia.
      apply Z.mod_0_l. lia. }
  destruct (Z.eqb_spec ((q - p - 1) mod n) 0) as [E|E];
  destruct (Z.eqb_spec q ((p + 1) mod n)) as [E'|E']; try lia;
  exfalso; tauto.
Qed.

Lemma wait_at_next n p : 0 < n -> 0 <= p < n -> wait n p ((p + 1) mod n) = 1.
Proof.
  intros Hn Hp. rewrite wait_add by lia. replace (1 - 1) with 0 by lia.
  rewrite Z.mod_0_l; lia.
Qed.

(* ------------------------------------------------------------------ *)
(* invariant and abstraction                                            *)

Definition rem (n p : Z) (e : entry) : Z :=
  wait n p (epos e) + n * ecircle e + ediff e.

Definition abs_entry (n p : Z) (e : entry) : Z * (Z * Z) :=
  (ekey e, (rem n p e, evalue e)).

Definition abs (s : state) : spec := map (abs_entry (sn s) (spos s)) (sents s).

Definition ewf (n : Z) (e : entry) : Prop :=
  0 <= epos e < n /\ 0 <= ecircle e /\ 0 <= ediff e < n.

Definition Inv (s : state) : Prop :=
  1 <= sn s /\ 1 <= sint s /\ 0 <= spos s < sn s /\
  NoDup (map ekey (sents s)) /\ Forall (ewf (sn s)) (sents s).

Lemma rem_pos n p e : 0 < n -> ewf n e -> 1 <= rem n p e.
Proof.
  intros Hn (Hp & Hc & Hd). unfold rem.
  pose proof (wait_range n p (epos e) Hn). nia.
Qed.

Lemma inv_init n i : 1 <= n -> 1 <= i -> Inv (init n i).
Proof.
  intros Hn Hi. unfold Inv, init; cbn. repeat split; try lia; constructor.
Qed.

(* ---- list lemmas ---- *)

Lemma lookup_abs n p k l :
  sp_lookup k (map (abs_entry n p) l) =
  option_map (fun e => (rem n p e, evalue e)) (lookup k l).
Proof.
  unfold sp_lookup, lookup. induction l as [|e l IH]; cbn; [reflexivity|].
  destruct (ekey e =? k); cbn; [reflexivity|exact IH].
Qed.

Lemma lookup_in k l e : lookup k l = Some e -> In e l /\ ekey e = k.
Proof.
  unfold lookup. intros H. apply find_some in H. destruct H as [H1 H2].
  split; [exact H1|]. apply Z.eqb_eq, H2.
Qed.

Lemma lookup_none k l : lookup k l = None -> ~ In k (map ekey l).
Proof.
  unfold lookup. intros H Hin. apply in_map_iff in Hin. destruct Hin as (e & He & Hl).
  pose proof (find_none _ _ H e Hl) as Hf. cbn in Hf. rewrite He, Z.eqb_refl in Hf. discriminate.
Qed.

Lemma lookup_unique k l e e' :
  NoDup (map ekey l) -> lookup k l = Some e -> In e' l -> ekey e' = k -> e' = e.
Proof.
  unfold lookup. induction l as [|a l IH]; cbn; intros Hnd Hf Hin Hk; [contradiction|].
  inversion Hnd as [|? ? Hna Hnd']; subst.
  destruct (Z.eqb_spec (ekey a) (ekey e')) as [E|E].
  - inversion Hf; subst. destruct Hin as [->|Hin]; [reflexivity|].
    exfalso. apply Hna. rewrite E. apply in_map. exact Hin.
  - destruct Hin as [->|Hin]; [congruence|]. apply IH; auto.
Qed.

Lemma upd_keys k f l : (forall e, ekey (f e) = ekey e) -> map ekey (upd k f l) = map ekey l.
Proof.
  intros Hf. unfold upd. rewrite map_map. apply map_ext. intros e.
  destruct (ekey e =? k); [apply Hf|reflexivity].
Qed.

Lemma upd_forall (P : entry -> Prop) k f l :
  Forall P l -> (forall e, In e l -> ekey e = k -> P (f e)) -> Forall P (upd k f l).
Proof.
  intros Hl Hf. unfold upd. apply Forall_forall. intros x Hx.
  apply in_map_iff in Hx. destruct Hx as (e & <- & He).
  destruct (Z.eqb_spec (ekey e) k) as [E|E].
  - apply Hf; assumption.
  - rewrite Forall_forall in Hl. apply Hl, He.
Qed.

(* updating the (unique) entry of key k is sp_put on the abstraction *)
Lemma abs_upd n p k f l e rv :
  NoDup (map ekey l) -> lookup k l = Some e ->
  ekey (f e) = k -> (rem n p (f e), evalue (f e)) = rv ->
  map (abs_entry n p) (upd k f l) = sp_put k rv (map (abs_entry n p) l).
Proof.
  intros Hnd Hl Hk Hrv. unfold sp_put. rewrite lookup_abs, Hl. cbn.
  unfold upd. rewrite !map_map. apply map_ext_in. intros e' He'. cbn.
  destruct (Z.eqb_spec (ekey e') k) as [E|E]; [|reflexivity].
  rewrite (lookup_unique k l e e' Hnd Hl He' E).
  unfold abs_entry. rewrite Hk, <- Hrv. reflexivity.
Qed.

Lemma abs_drop n p k l :
  map (abs_entry n p) (drop k l) = sp_drop k (map (abs_entry n p) l).
Proof.
  unfold drop, sp_drop. induction l as [|e l IH]; cbn; [reflexivity|].
  destruct (ekey e =? k); cbn; [exact IH|]. f_equal. exact IH.
Qed.

Lemma drop_keys_nodup k l : NoDup (map ekey l) -> NoDup (map ekey (drop k l)).
Proof.
  unfold drop. induction l as [|e l IH]; cbn; intros H; [constructor|].
  inversion H as [|? ? Hn Hd]; subst.
  destruct (ekey e =? k); cbn; [apply IH, Hd|].
  constructor; [|apply IH, Hd].
  intros Hin. apply Hn. apply in_map_iff in Hin. destruct Hin as (x & Hx & Hxl).
  apply filter_In in Hxl. apply in_map_iff. exists x. tauto.
Qed.

Lemma drop_forall (P : entry -> Prop) k l : Forall P l -> Forall P (drop k l).
Proof.
  unfold drop. intros H. apply Forall_forall. intros x Hx. apply filter_In in Hx.
  rewrite Forall_forall in H. apply H. tauto.
Qed.

Lemma NoDup_app_one (l : list Z) (k : Z) : NoDup l -> ~ In k l -> NoDup (l ++ [k]).
Proof.
  induction l as [|a l IH]; cbn; intros Hnd Hk; [constructor; [tauto|constructor]|].
  inversion Hnd as [|? ? Ha Hl]; subst. constructor.
  - rewrite in_app_iff; cbn. intuition congruence.
  - apply IH; tauto.
Qed.

(* ---- move / set ---- *)

Lemma steps_ge_1 d i : 1 <= i -> i <= d -> 1 <= d / i.
Proof. intros Hi Hd. apply Z.div_le_lower_bound; lia. Qed.

Lemma move_far_ok s e d :
  Inv s -> lookup (ekey e) (sents s) = Some e -> sint s <= d ->
  Inv (move_far s e d) /\
  abs (move_far s e d) = sp_put (ekey e) (d / sint s, evalue e) (abs s).
Proof.
  intros (Hn & Hi & Hp & Hnd & Hwf) Hl Hd.
  pose proof (steps_ge_1 d (sint s) Hi Hd) as Hst.
  pose proof (wait_range (sn s) (spos s) (epos e) ltac:(lia)) as Hw.
  destruct (lookup_in _ _ _ Hl) as [Hin _].
  unfold move_far.
  destruct (Z.leb_spec (wait (sn s) (spos s) (epos e)) (d / sint s)) as [Hle|Hgt].
  - split.
    + unfold Inv; cbn. repeat split; try lia.
      * rewrite upd_keys; [exact Hnd|reflexivity].
      * apply upd_forall; [exact Hwf|]. intros e' He' Hk.
        rewrite Forall_forall in Hwf. destruct (Hwf e' He') as (H1 & H2 & H3).
        unfold ewf; cbn. repeat split; try lia.
        -- apply Z.div_pos; lia.
        -- apply Z.mod_pos_bound; lia.
        -- apply Z.mod_pos_bound; lia.
    + unfold abs; cbn. apply (abs_upd _ _ _ _ _ e); auto.
      unfold rem; cbn. f_equal.
      pose proof (Z.div_mod (d / sint s - wait (sn s) (spos s) (epos e)) (sn s) ltac:(lia)).
      lia.
  - split.
    + unfold Inv; cbn. repeat split; try lia.
      * rewrite upd_keys; [exact Hnd|reflexivity].
      * apply upd_forall; [exact Hwf|]. intros e' He' Hk.
        unfold ewf, pos_of; cbn. repeat split; try lia;
        apply Z.mod_pos_bound; lia.
    + unfold abs; cbn. apply (abs_upd _ _ _ _ _ e); auto.
      unfold rem, pos_of; cbn. f_equal.
      rewrite wait_add by lia. rewrite Z.mod_small by lia. lia.
Qed.

Lemma set_new_ok s k v d :
  Inv s -> lookup k (sents s) = None ->
  let d' := Z.max d (sint s) in
  let s' := mkState (sn s) (sint s) (spos s)
     (sents s ++ [mkEntry k v (pos_of s (d' / sint s)) (circle_of s (d' / sint s)) 0]) in
  Inv s' /\ abs s' = sp_put k (d' / sint s, v) (abs s).
Proof.
  intros (Hn & Hi & Hp & Hnd & Hwf) Hl d' s'.
  assert (Hst : 1 <= d' / sint s) by (apply steps_ge_1; lia).
  split.
  - unfold Inv, s'; cbn. repeat split; try lia.
    + rewrite map_app; cbn. apply NoDup_app_one; auto. apply lookup_none; exact Hl.
    + apply Forall_app; split; [exact Hwf|]. constructor; [|constructor].
      unfold ewf, pos_of, circle_of; cbn. repeat split; try lia.
      * apply Z.mod_pos_bound; lia.
      * apply Z.mod_pos_bound; lia.
      * apply Z.div_pos; lia.
  - unfold abs, s', sp_put; cbn. rewrite lookup_abs, Hl; cbn.
    rewrite map_app; cbn. do 2 f_equal. unfold abs_entry; cbn. f_equal. f_equal.
    unfold rem, pos_of, circle_of; cbn. rewrite wait_add by lia.
    pose proof (Z.div_mod (d' / sint s - 1) (sn s) ltac:(lia)). lia.
Qed.

(* ---- tick ---- *)

Lemma scan_entry_ok n p e :
  0 < n -> 0 <= p < n -> ewf n e ->
  match scan_entry n ((p + 1) mod n) e with
  | Some e' => ewf n e' /\ ekey e' = ekey e /\ evalue e' = evalue e /\
               rem n ((p + 1) mod n) e' = rem n p e - 1 /\ rem n p e <> 1
  | None => rem n p e = 1
  end.
Proof.
  intros Hn Hp (Hq & Hc & Hd). unfold scan_entry.
  pose proof (Z.mod_pos_bound (p + 1) n Hn) as Hp'.
  pose proof (wait_tick n p (epos e) Hn Hp Hq) as Hwt.
  pose proof (wait_range n p (epos e) Hn) as Hwr.
  pose proof (wait_range n ((p + 1) mod n) (epos e) Hn) as Hwr'.
  destruct (Z.eqb_spec (epos e) ((p + 1) mod n)) as [E|E].
  - assert (Hw1 : wait n p (epos e) = 1) by (rewrite E; apply wait_at_next; lia).
    destruct (Z.ltb_spec 0 (ecircle e)) as [C|C].
    + unfold ewf, rem; cbn [epos ecircle ediff ekey evalue]. rewrite Hwt, Hw1.
      repeat split; try lia; nia.
    + assert (Hc0 : ecircle e = 0) by lia.
      destruct (Z.ltb_spec 0 (ediff e)) as [D|D].
      * unfold ewf, rem; cbn [epos ecircle ediff ekey evalue]. rewrite wait_add by lia.
        rewrite (Z.mod_small (ediff e - 1)) by lia.
        pose proof (Z.mod_pos_bound ((p + 1) mod n + ediff e) n Hn).
        rewrite Hc0, Hw1. repeat split; lia.
      * unfold rem. rewrite Hc0, Hw1. lia.
  - unfold rem. rewrite Hwt. repeat split; try lia; nia.
Qed.

Definition sp_tick_keep (m : spec) : spec :=
  map (fun kv => (fst kv, (fst (snd kv) - 1, snd (snd kv))))
      (filter (fun kv => negb (fst (snd kv) =? 1)) m).
Definition sp_tick_fire (m : spec) : fired :=
  map (fun kv => (fst kv, snd (snd kv))) (filter (fun kv => fst (snd kv) =? 1) m).

Lemma scan_ok n p l :
  0 < n -> 0 <= p < n -> Forall (ewf n) l ->
  let p' := (p + 1) mod n in
  Forall (ewf n) (fst (scan n p' l)) /\
  (forall k, In k (map ekey (fst (scan n p' l))) -> In k (map ekey l)) /\
  map (abs_entry n p') (fst (scan n p' l)) = sp_tick_keep (map (abs_entry n p) l) /\
  snd (scan n p' l) = sp_tick_fire (map (abs_entry n p) l).
Proof.
  intros Hn Hp Hwf p'. induction l as [|e l IH].
  - cbn. repeat split; auto. 
  - inversion Hwf as [|? ? He Hl]; subst. specialize (IH Hl).
    destruct IH as (IH1 & IH2 & IH3 & IH4).
    pose proof (scan_entry_ok n p e Hn Hp He) as Hse. fold p' in Hse.
    cbn [scan]. destruct (scan n p' l) as [keep f] eqn:Hsc. cbn [fst snd] in *.
    unfold sp_tick_keep, sp_tick_fire in *. cbn [map filter abs_entry fst snd].
    destruct (scan_entry n p' e) as [e'|].
    + destruct Hse as (W & K & V & R & N1).
      apply Z.eqb_neq in N1. rewrite N1. cbn [negb map fst snd].
      repeat split.
      * constructor; assumption.
      * intros k [Hk|Hk]; [left; congruence|right; apply IH2; exact Hk].
      * unfold abs_entry at 1. rewrite K, V, R. f_equal. exact IH3.
      * exact IH4.
    + rewrite Hse. cbn [negb map fst snd Z.eqb Pos.eqb].
      repeat split; auto.
      * intros k Hk. right. apply IH2. exact Hk.
      * f_equal. exact IH4.
Qed.

Lemma scan_nodup n p l :
  NoDup (map ekey l) ->
  (forall e, In e l -> forall e', scan_entry n p e = Some e' -> ekey e' = ekey e) ->
  NoDup (map ekey (fst (scan n p l))).
Proof.
  induction l as [|e l IH]; cbn [scan]; intros Hnd Hk; [constructor|].
  inversion Hnd as [|? ? Hna Hnd']; subst.
  assert (IH' := IH Hnd' (fun x Hx => Hk x (or_intror Hx))).
  assert (Hsub : forall k, In k (map ekey (fst (scan n p l))) -> In k (map ekey l)).
  { clear -Hk. induction l as [|a l IHl]; cbn [scan]; [auto|].
    intros k. destruct (scan n p l) as [keep f] eqn:E. cbn [fst] in *.
    assert (IHl' := IHl (fun e He => match He with or_introl H => Hk e (or_introl H)
                                      | or_intror H => Hk e (or_intror (or_intror H)) end)).
    destruct (scan_entry n p a) as [a'|] eqn:Ea; cbn [fst map].
    - intros [H|H]; [left|right; auto].
      rewrite <- H. symmetry. apply (Hk a); [right; left; reflexivity|exact Ea].
    - intros H. right. auto. }
  destruct (scan n p l) as [keep f] eqn:E. cbn [fst] in *.
  destruct (scan_entry n p e) as [e'|] eqn:Ee; cbn [fst map]; [|exact IH'].
  constructor; [|exact IH'].
  rewrite (Hk e (or_introl eq_refl) e' Ee). intros Hin. apply Hna. apply Hsub, Hin.
Qed.

Lemma scan_entry_key n p e e' : scan_entry n p e = Some e' -> ekey e' = ekey e.
Proof.
  unfold scan_entry. destruct (epos e =? p); [|intros [= <-]; reflexivity].
  destruct (0 <? ecircle e); [intros [= <-]; reflexivity|].
  destruct (0 <? ediff e); [intros [= <-]; reflexivity|discriminate].
Qed.

Lemma sp_lookup_put k rv m : sp_lookup k (sp_put k rv m) = Some rv.
Proof.
  unfold sp_put. destruct (sp_lookup k m) eqn:E.
  - unfold sp_lookup in *. induction m as [|a m IH]; cbn in *; [discriminate|].
    destruct (Z.eqb_spec (fst a) k); cbn.
    + rewrite Z.eqb_refl. reflexivity.
    + destruct (Z.eqb_spec (fst a) k); [contradiction|]. apply IH, E.
  - unfold sp_lookup in *. induction m as [|a m IH]; cbn in *.
    + rewrite Z.eqb_refl. reflexivity.
    + destruct (Z.eqb_spec (fst a) k); [discriminate|]. apply IH, E.
Qed.

Lemma sp_put_put k rv rv' m : sp_put k rv (sp_put k rv' m) = sp_put k rv m.
Proof.
  unfold sp_put at 1. rewrite sp_lookup_put.
  unfold sp_put. destruct (sp_lookup k m) eqn:E.
  - rewrite map_map. apply map_ext. intros a.
    destruct (Z.eqb_spec (fst a) k) as [Ea|Ea]; cbn.
    + rewrite Z.eqb_refl. reflexivity.
    + destruct (Z.eqb_spec (fst a) k); [contradiction|reflexivity].
  - rewrite map_app. cbn. rewrite Z.eqb_refl. f_equal.
    unfold sp_lookup in E. induction m as [|a m IH]; cbn in *; [reflexivity|].
    destruct (Z.eqb_spec (fst a) k); [discriminate|]. f_equal. apply IH, E.
Qed.

(* ---- the one-step refinement ---- *)

Lemma step_refines s o :
  Inv s ->
  Inv (fst (step s o)) /\
  sp_step (sint s) (abs s) o = (abs (fst (step s o)), snd (step s o)) /\
  sint (fst (step s o)) = sint s.
Proof.
  intros HI. pose proof HI as (Hn & Hi & Hp & Hnd & Hwf).
  destruct o as [k v d|k d|k| |]; cbn [step fst snd sp_step].
  - (* Set *)
    unfold set_task. destruct (lookup k (sents s)) as [e|] eqn:Hl.
    + destruct (lookup_in _ _ _ Hl) as [Hin Hk].
      set (s1 := mkState (sn s) (sint s) (spos s) _).
      set (e1 := mkEntry (ekey e) v (epos e) (ecircle e) (ediff e)).
      assert (HI1 : Inv s1).
      { unfold Inv, s1; cbn. repeat split; try lia.
        - rewrite upd_keys; [exact Hnd|reflexivity].
        - apply upd_forall; [exact Hwf|]. intros e' He' _.
          rewrite Forall_forall in Hwf. exact (Hwf e' He'). }
      assert (Hl1 : lookup (ekey e1) (sents s1) = Some e1).
      { unfold s1, e1; cbn. rewrite Hk. clear -Hl. unfold lookup, upd in *.
        induction (sents s) as [|a l IH]; cbn in *; [discriminate|].
        destruct (Z.eqb_spec (ekey a) k) as [E|E]; cbn.
        - rewrite E, Z.eqb_refl. inversion Hl; subst. reflexivity.
        - destruct (Z.eqb_spec (ekey a) k); [contradiction|]. apply IH, Hl. }
      destruct (move_far_ok s1 e1 (Z.max d (sint s)) HI1 Hl1 ltac:(cbn; lia)) as [HI2 Habs].
      split; [exact HI2|]. split.
      * rewrite Habs. cbn [sint s1 evalue e1 ekey e1]. rewrite Hk.
        f_equal. (* sp_put twice on the same key = once *)
        unfold abs, s1; cbn [sn spos sents].
        rewrite (abs_upd _ _ _ _ _ e (rem (sn s) (spos s) e, v) Hnd Hl); [|cbn; exact Hk|reflexivity].
        symmetry. apply sp_put_put.
      * unfold move_far. destruct (_ <=? _); reflexivity.
    + destruct (set_new_ok s k v d HI Hl) as [HI2 Habs]. cbn zeta in *.
      split; [exact HI2|]. split; [|reflexivity]. rewrite Habs. reflexivity.
  - (* Move *)
    unfold move_task. unfold abs at 1. rewrite lookup_abs.
    destruct (lookup k (sents s)) as [e|] eqn:Hl; cbn [option_map].
    + destruct (lookup_in _ _ _ Hl) as [Hin Hk].
      destruct (Z.ltb_spec d (sint s)) as [Hlt|Hge]; cbn [fst snd].
      * split; [exact HI|]. split; reflexivity.
      * rewrite <- Hk in Hl. destruct (move_far_ok s e d HI Hl Hge) as [HI2 Habs].
        split; [exact HI2|]. split.
        -- rewrite Habs, Hk. reflexivity.
        -- unfold move_far. destruct (_ <=? _); reflexivity.
    + cbn [fst snd]. split; [exact HI|]. split; reflexivity.
  - (* Remove *)
    unfold remove_task. split; [|split; [|reflexivity]].
    + unfold Inv; cbn. repeat split; try lia.
      * apply drop_keys_nodup, Hnd.
      * apply drop_forall, Hwf.
    + unfold abs; cbn. rewrite abs_drop. reflexivity.
  - (* Tick *)
    unfold on_tick.
    destruct (scan_ok (sn s) (spos s) (sents s) ltac:(lia) Hp Hwf) as (S1 & S2 & S3 & S4).
    destruct (scan (sn s) ((spos s + 1) mod sn s) (sents s)) as [keep f] eqn:Hsc.
    cbn [fst snd] in *. split; [|split; [|reflexivity]].
    + unfold Inv; cbn. repeat split; try lia.
      * apply Z.mod_pos_bound; lia.
      * apply Z.mod_pos_bound; lia.
      * pose proof (scan_nodup (sn s) ((spos s + 1) mod sn s) (sents s) Hnd
                      (fun e _ e' H => scan_entry_key _ _ _ _ H)) as H.
        rewrite Hsc in H. exact H.
      * exact S1.
    + unfold abs; cbn [sn spos sents]. rewrite S3, S4. reflexivity.
  - (* Drain *)
    unfold drain_all; cbn [fst snd]. split; [|split; [|reflexivity]].
    + unfold Inv; cbn. repeat split; try lia; constructor.
    + unfold abs; cbn. rewrite map_map. reflexivity.
Qed.

(* ---- refinement over whole histories ---- *)

Lemma run_refines s ops : Inv s -> run s ops = sp_run (sint s) (abs s) ops.
Proof.
  revert s. induction ops as [|o ops IH]; intros s HI; [reflexivity|].
  cbn [run sp_run]. destruct (step_refines s o HI) as (HI' & Hst & Hint).
  rewrite Hst. destruct (step s o) as [s' f]. cbn [fst snd] in *.
  rewrite (IH s' HI'), Hint. reflexivity.
Qed.

Theorem wheel_refines_spec n i ops :
  1 <= n -> 1 <= i -> run (init n i) ops = sp_run i [] ops.
Proof.
  intros Hn Hi. rewrite run_refines by (apply inv_init; assumption). reflexivity.
Qed.

(* ------------------------------------------------------------------ *)
(* final states                                                         *)

Fixpoint sp_final (interval : Z) (m : spec) (ops : list op) : spec :=
  match ops with
  | [] => m
  | o :: ops' => sp_final interval (fst (sp_step interval m o)) ops'
  end.

Lemma final_inv s ops : Inv s -> Inv (final s ops).
Proof.
  revert s. induction ops as [|o ops IH]; intros s HI; [exact HI|].
  cbn [final]. apply IH. apply (step_refines s o HI).
Qed.

Lemma final_sint s ops : Inv s -> sint (final s ops) = sint s.
Proof.
  revert s. induction ops as [|o ops IH]; intros s HI; [reflexivity|].
  cbn [final]. destruct (step_refines s o HI) as (HI' & _ & Hi). rewrite IH; auto.
Qed.

Lemma final_refines s ops : Inv s -> abs (final s ops) = sp_final (sint s) (abs s) ops.
Proof.
  revert s. induction ops as [|o ops IH]; intros s HI; [reflexivity|].
  cbn [final sp_final]. destruct (step_refines s o HI) as (HI' & Hst & Hi).
  rewrite Hst. cbn [fst]. rewrite IH by exact HI'. rewrite Hi. reflexivity.
Qed.

Lemma sp_final_app i m a b : sp_final i m (a ++ b) = sp_final i (sp_final i m a) b.
Proof. revert m. induction a as [|o a IH]; intros m; cbn; [reflexivity|apply IH]. Qed.

Lemma final_app s a b : final s (a ++ b) = final (final s a) b.
Proof. revert s. induction a as [|o a IH]; intros s; cbn; [reflexivity|apply IH]. Qed.

(* ------------------------------------------------------------------ *)
(* trace theorems about the specification                               *)

Definition touches (k : Z) (o : op) : bool :=
  match o with
  | OSet k' _ _ | OMove k' _ | ORemove k' => k' =? k
  | ODrain => true
  | OTick => false
  end.

Definition sets (k : Z) (o : op) : bool :=
  match o with OSet k' _ _ => k' =? k | _ => false end.

Fixpoint ticks (ops : list op) : Z :=
  match ops with
  | [] => 0
  | OTick :: ops' => 1 + ticks ops'
  | _ :: ops' => ticks ops'
  end.

Lemma ticks_nonneg a : 0 <= ticks a.
Proof. induction a as [|x a IH]; cbn [ticks]; [lia|destruct x; lia]. Qed.

Definition spwf (m : spec) : Prop :=
  NoDup (map fst m) /\ Forall (fun kv => 1 <= fst (snd kv)) m.

Lemma abs_spwf s : Inv s -> spwf (abs s).
Proof.
  intros (Hn & Hi & Hp & Hnd & Hwf). split.
  - unfold abs. rewrite map_map. cbn. exact Hnd.
  - unfold abs. apply Forall_forall. intros kv Hkv. apply in_map_iff in Hkv.
    destruct Hkv as (e & <- & He). cbn. rewrite Forall_forall in Hwf.
    apply rem_pos; [lia|auto].
Qed.

Lemma sp_lookup_in k m rv : sp_lookup k m = Some rv -> In (k, rv) m.
Proof.
  unfold sp_lookup. destruct (find _ m) as [kv|] eqn:E; [|discriminate].
  intros [= <-]. apply find_some in E. destruct E as [E1 E2]. apply Z.eqb_eq in E2.
  destruct kv; cbn in *; subst; exact E1.
Qed.

Lemma sp_lookup_none k m : sp_lookup k m = None -> ~ In k (map fst m).
Proof.
  unfold sp_lookup. destruct (find _ m) as [kv|] eqn:E; [discriminate|]. intros _ Hin.
  apply in_map_iff in Hin. destruct Hin as (kv & Hk & Hkv).
  pose proof (find_none _ _ E kv Hkv) as H. cbn in H. rewrite Hk, Z.eqb_refl in H. discriminate.
Qed.

Lemma nodup_fst_unique (m : spec) k rv rv' :
  NoDup (map fst m) -> In (k, rv) m -> In (k, rv') m -> rv = rv'.
Proof.
  induction m as [|a m IH]; cbn; intros Hnd H1 H2; [contradiction|].
  inversion Hnd as [|? ? Hna Hnd']; subst.
  destruct H1 as [->|H1], H2 as [H2|H2].
  - congruence.
  - exfalso. apply Hna. cbn. apply (in_map fst) in H2. exact H2.
  - subst a. exfalso. apply Hna. cbn. apply (in_map fst) in H1. exact H1.
  - apply IH; auto.
Qed.

Lemma sp_lookup_iff (m : spec) k rv :
  NoDup (map fst m) -> (sp_lookup k m = Some rv <-> In (k, rv) m).
Proof.
  intros Hnd. split; [apply sp_lookup_in|]. intros Hin.
  destruct (sp_lookup k m) as [rv'|] eqn:E.
  - f_equal. apply sp_lookup_in in E. eapply nodup_fst_unique; eauto.
  - exfalso. apply (sp_lookup_none _ _ E). apply (in_map fst) in Hin. exact Hin.
Qed.

Lemma sp_put_keys k rv m :
  map fst (sp_put k rv m) =
  match sp_lookup k m with Some _ => map fst m | None => map fst m ++ [k] end.
Proof.
  unfold sp_put. destruct (sp_lookup k m).
  - rewrite map_map. apply map_ext. intros a.
    destruct (Z.eqb_spec (fst a) k); cbn; congruence.
  - rewrite map_app. reflexivity.
Qed.

Lemma sp_put_spwf k r v m : spwf m -> 1 <= r -> spwf (sp_put k (r, v) m).
Proof.
  intros [Hnd Hr] H1. split.
  - rewrite sp_put_keys. destruct (sp_lookup k m) eqn:E; [exact Hnd|].
    apply NoDup_app_one; [exact Hnd|]. apply sp_lookup_none, E.
  - unfold sp_put. destruct (sp_lookup k m).
    + apply Forall_forall. intros kv Hkv. apply in_map_iff in Hkv.
      destruct Hkv as (a & <- & Ha). rewrite Forall_forall in Hr.
      destruct (fst a =? k); cbn; [exact H1|apply Hr, Ha].
    + apply Forall_app. split; [exact Hr|]. constructor; [exact H1|constructor].
Qed.

Lemma sp_put_lookup_other k k' rv m :
  k' <> k -> sp_lookup k (sp_put k' rv m) = sp_lookup k m.
Proof.
  intros Hne. unfold sp_put. destruct (sp_lookup k' m) eqn:E; unfold sp_lookup; clear E.
  - induction m as [|a m IH]; cbn; [reflexivity|].
    destruct (Z.eqb_spec (fst a) k') as [Ea|Ea]; cbn.
    + destruct (Z.eqb_spec k' k); [contradiction|].
      destruct (Z.eqb_spec (fst a) k); [congruence|]. exact IH.
    + destruct (fst a =? k); [reflexivity|exact IH].
  - induction m as [|a m IH]; cbn.
    + destruct (Z.eqb_spec k' k); [contradiction|reflexivity].
    + destruct (fst a =? k); [reflexivity|exact IH].
Qed.

Lemma sp_drop_spwf k m : spwf m -> spwf (sp_drop k m).
Proof.
  intros [Hnd Hr]. unfold sp_drop. split.
  - clear Hr. induction m as [|a m IH]; cbn; [constructor|].
    inversion Hnd as [|? ? Hna Hnd']; subst.
    destruct (fst a =? k); cbn; [apply IH, Hnd'|]. constructor; [|apply IH, Hnd'].
    intros Hin. apply Hna. apply in_map_iff in Hin. destruct Hin as (x & Hx & Hxl).
    apply filter_In in Hxl. apply in_map_iff. exists x. tauto.
  - apply Forall_forall. intros x Hx. apply filter_In in Hx.
    rewrite Forall_forall in Hr. apply Hr. tauto.
Qed.

Lemma sp_drop_lookup k k' m :
  sp_lookup k (sp_drop k' m) = if k' =? k then None else sp_lookup k m.
Proof.
  unfold sp_lookup, sp_drop. induction m as [|a m IH]; cbn.
  - destruct (k' =? k); reflexivity.
  - destruct (Z.eqb_spec (fst a) k'); cbn.
    + rewrite IH. destruct (Z.eqb_spec k' k); [reflexivity|].
      destruct (Z.eqb_spec (fst a) k); [congruence|reflexivity].
    + destruct (Z.eqb_spec (fst a) k); cbn.
      * destruct (Z.eqb_spec k' k); [congruence|reflexivity].
      * exact IH.
Qed.

Lemma sp_tick_keep_lookup k m :
  NoDup (map fst m) ->
  sp_lookup k (sp_tick_keep m) =
  match sp_lookup k m with
  | Some (r, v) => if r =? 1 then None else Some (r - 1, v)
  | None => None
  end.
Proof.
  intros Hnd. unfold sp_lookup, sp_tick_keep. induction m as [|a m IH]; cbn; [reflexivity|].
  inversion Hnd as [|? ? Hna Hnd']; subst. specialize (IH Hnd').
  destruct a as [ka [ra va]]; cbn in *.
  destruct (Z.eqb_spec ka k) as [E|E].
  - subst ka. cbn. destruct (Z.eqb_spec ra 1); cbn.
    + (* fires: k is not in the rest *)
      destruct (find (fun kv => fst kv =? k) (map _ (filter _ m))) as [kv|] eqn:F; [|reflexivity].
      exfalso. apply find_some in F. destruct F as [F1 F2]. apply Z.eqb_eq in F2.
      apply in_map_iff in F1. destruct F1 as (x & Hx & Hxl). apply filter_In in Hxl.
      apply Hna. apply in_map_iff. exists x. subst kv. cbn in F2. tauto.
    + rewrite Z.eqb_refl. reflexivity.
  - destruct (ra =? 1); cbn; [exact IH|].
    destruct (Z.eqb_spec ka k); [contradiction|exact IH].
Qed.

Lemma sp_tick_keep_spwf m : spwf m -> spwf (sp_tick_keep m).
Proof.
  intros [Hnd Hr]. unfold sp_tick_keep. split.
  - rewrite map_map. cbn. clear Hr. induction m as [|a m IH]; cbn; [constructor|].
    inversion Hnd as [|? ? Hna Hnd']; subst.
    destruct (negb _); cbn; [|apply IH, Hnd']. constructor; [|apply IH, Hnd'].
    intros Hin. apply Hna. apply in_map_iff in Hin. destruct Hin as (x & Hx & Hxl).
    apply filter_In in Hxl. apply in_map_iff. exists x. tauto.
  - apply Forall_forall. intros x Hx. apply in_map_iff in Hx. destruct Hx as (a & <- & Ha).
    apply filter_In in Ha. destruct Ha as [Ha Hne]. rewrite Forall_forall in Hr.
    specialize (Hr a Ha). cbn. apply negb_true_iff, Z.eqb_neq in Hne. lia.
Qed.

Lemma sp_step_spwf i m o : 1 <= i -> spwf m -> spwf (fst (sp_step i m o)).
Proof.
  intros Hi Hm. destruct o as [k v d|k d|k| |]; cbn [sp_step fst].
  - apply sp_put_spwf; [exact Hm|]. apply steps_ge_1; lia.
  - destruct (sp_lookup k m) as [[r v]|]; [|exact Hm].
    destruct (Z.ltb_spec d i); cbn [fst]; [exact Hm|].
    apply sp_put_spwf; [exact Hm|]. apply steps_ge_1; lia.
  - apply sp_drop_spwf, Hm.
  - apply sp_tick_keep_spwf, Hm.
  - split; constructor.
Qed.

Lemma sp_tick_fire_in k v m :
  NoDup (map fst m) ->
  (In (k, v) (sp_tick_fire m) <-> sp_lookup k m = Some (1, v)).
Proof.
  intros Hnd. rewrite (sp_lookup_iff m k (1, v) Hnd). unfold sp_tick_fire. split.
  - intros H. apply in_map_iff in H. destruct H as ([k' [r v']] & [= -> ->] & Hx).
    apply filter_In in Hx. destruct Hx as [Hx Hr]. cbn in Hr. apply Z.eqb_eq in Hr. subst r.
    exact Hx.
  - intros H. apply in_map_iff. exists (k, (1, v)). split; [reflexivity|].
    apply filter_In. split; [exact H|reflexivity].
Qed.

(* a key that is not pending does not fire, whatever happens, until it is set *)
Lemma sp_absent_step i m k o :
  spwf m -> sp_lookup k m = None -> sets k o = false ->
  sp_lookup k (fst (sp_step i m o)) = None /\
  forall v, ~ In (k, v) (snd (sp_step i m o)).
Proof.
  intros [Hnd Hr] Hk Hs. destruct o as [k' v' d|k' d|k'| |]; cbn [sp_step fst snd sets] in *.
  - apply Z.eqb_neq in Hs. rewrite sp_put_lookup_other by exact Hs. split; [exact Hk|auto].
  - destruct (sp_lookup k' m) as [[r v']|] eqn:E; [|split; [exact Hk|auto]].
    destruct (d <? i); cbn [fst snd].
    + split; [exact Hk|]. intros v [H|[]]. inversion H; subst. congruence.
    + assert (k' <> k) by congruence. rewrite sp_put_lookup_other by assumption.
      split; [exact Hk|auto].
  - rewrite sp_drop_lookup. destruct (k' =? k); [auto|]. split; [exact Hk|auto].
  - fold (sp_tick_keep m). fold (sp_tick_fire m).
    rewrite sp_tick_keep_lookup by exact Hnd. rewrite Hk. split; [reflexivity|].
    intros v H. apply sp_tick_fire_in in H; [|exact Hnd]. congruence.
  - split; [reflexivity|]. intros v H. apply in_map_iff in H.
    destruct H as ([k0 [r0 v0]] & [= -> ->] & Hx).
    apply (sp_lookup_none _ _ Hk). apply (in_map fst) in Hx. exact Hx.
Qed.

Lemma sp_absent_never_fires i m k a o :
  1 <= i -> spwf m -> sp_lookup k m = None ->
  forallb (fun o => negb (sets k o)) a = true -> sets k o = false ->
  forall v, ~ In (k, v) (snd (sp_step i (sp_final i m a) o)).
Proof.
  intros Hi. revert m. induction a as [|o' a IH]; intros m Hm Hk Ha Ho; cbn [sp_final].
  - apply sp_absent_step; assumption.
  - cbn in Ha. apply andb_true_iff in Ha. destruct Ha as [Ho' Ha].
    apply negb_true_iff in Ho'.
    apply IH; auto.
    + apply sp_step_spwf; assumption.
    + apply sp_absent_step; assumption.
Qed.

(* a pending key fires exactly at the r-th tick, with its value *)
Lemma sp_pending_fires i m k r v a o :
  1 <= i -> spwf m -> sp_lookup k m = Some (r, v) ->
  forallb (fun o => negb (touches k o)) a = true -> touches k o = false ->
  forall v', In (k, v') (snd (sp_step i (sp_final i m a) o)) <->
             (o = OTick /\ ticks a + 1 = r /\ v' = v).
Proof.
  intros Hi. revert m r. induction a as [|o' a IH]; intros m r Hm Hk Ha Ho v'; cbn [sp_final ticks].
  - destruct Hm as [Hnd Hr].
    destruct o as [k' v0 d|k' d|k'| |]; cbn [sp_step snd touches] in *; try discriminate.
    + split; [intros []|intros (H & _); discriminate].
    + apply Z.eqb_neq in Ho. split; [|intros (H & _); discriminate].
      destruct (sp_lookup k' m) as [[r0 v0]|]; [|intros []].
      destruct (d <? i); cbn; [|intros []]. intros [H|[]]. congruence.
    + split; [intros []|intros (H & _); discriminate].
    + fold (sp_tick_fire m). rewrite sp_tick_fire_in by exact Hnd. rewrite Hk. split.
      * intros [= -> ->]. auto.
      * intros (_ & <- & ->). reflexivity.
  - cbn in Ha. apply andb_true_iff in Ha. destruct Ha as [Ho' Ha].
    apply negb_true_iff in Ho'.
    assert (Hm' : spwf (fst (sp_step i m o'))) by (apply sp_step_spwf; assumption).
    destruct Hm as [Hnd Hr].
    destruct o' as [k' v0 d|k' d|k'| |]; cbn [touches] in Ho'; try discriminate.
    + apply Z.eqb_neq in Ho'. rewrite (IH _ r Hm'); [tauto| |exact Ha|exact Ho].
      cbn [sp_step fst]. rewrite sp_put_lookup_other by exact Ho'. exact Hk.
    + apply Z.eqb_neq in Ho'. rewrite (IH _ r Hm'); [tauto| |exact Ha|exact Ho].
      cbn [sp_step fst]. destruct (sp_lookup k' m) as [[r0 v0]|]; [|exact Hk].
      destruct (d <? i); cbn [fst]; [exact Hk|].
      rewrite sp_put_lookup_other by exact Ho'. exact Hk.
    + apply Z.eqb_neq in Ho'. rewrite (IH _ r Hm'); [tauto| |exact Ha|exact Ho].
      cbn [sp_step fst]. rewrite sp_drop_lookup.
      destruct (Z.eqb_spec k' k); [contradiction|exact Hk].
    + (* a tick passes *)
      assert (Hr1 : 1 <= r).
      { apply sp_lookup_in in Hk. rewrite Forall_forall in Hr. apply (Hr _ Hk). }
      destruct (Z.eqb_spec r 1) as [E|E].
      * (* it fired at this tick: afterwards it is absent *)
        split.
        -- intros H. exfalso.
           apply (sp_absent_never_fires i (fst (sp_step i m OTick)) k a o Hi Hm') in H; auto.
           ++ cbn [sp_step fst]. fold (sp_tick_keep m).
              rewrite sp_tick_keep_lookup by exact Hnd. rewrite Hk, E. reflexivity.
           ++ clear -Ha. induction a as [|x a IHa]; cbn in *; [reflexivity|].
              apply andb_true_iff in Ha. destruct Ha as [Hx Ha]. rewrite IHa by exact Ha.
              rewrite andb_true_r. destruct x; cbn in *; auto.
           ++ destruct o; cbn in *; auto; discriminate.
        -- intros (_ & Ht & _). exfalso.
           pose proof (ticks_nonneg a).
           lia.
      * rewrite (IH _ (r - 1) Hm'); [| |exact Ha|exact Ho].
        -- split; intros (H1 & H2 & H3); repeat split; auto; lia.
        -- cbn [sp_step fst]. fold (sp_tick_keep m).
           rewrite sp_tick_keep_lookup by exact Hnd. rewrite Hk.
           destruct (Z.eqb_spec r 1); [contradiction|reflexivity].
Qed.

(* ------------------------------------------------------------------ *)
(* the same facts about the wheel model itself                          *)

Definition pending (s : state) (k : Z) : option Z :=
  option_map evalue (lookup k (sents s)).

Lemma step_fired_refines s o : Inv s -> snd (step s o) = snd (sp_step (sint s) (abs s) o).
Proof. intros HI. destruct (step_refines s o HI) as (_ & H & _). rewrite H. reflexivity. Qed.

Lemma pending_abs s k v :
  pending s k = Some v <-> exists r, sp_lookup k (abs s) = Some (r, v).
Proof.
  unfold pending, abs. rewrite lookup_abs. destruct (lookup k (sents s)) as [e|]; cbn.
  - split; [intros [= <-]; eauto|intros [r [= _ <-]]; reflexivity].
  - split; [discriminate|intros [r H]; discriminate].
Qed.

Lemma reach_inv n i ops : 1 <= n -> 1 <= i -> Inv (final (init n i) ops).
Proof. intros. apply final_inv, inv_init; assumption. Qed.

Lemma reach_abs n i ops : 1 <= n -> 1 <= i ->
  abs (final (init n i) ops) = sp_final i [] ops.
Proof. intros Hn Hi. rewrite final_refines by (apply inv_init; assumption). reflexivity. Qed.

Lemma reach_sint n i ops : 1 <= n -> 1 <= i -> sint (final (init n i) ops) = i.
Proof. intros Hn Hi. rewrite final_sint by (apply inv_init; assumption). reflexivity. Qed.

Lemma sp_final_spwf i m ops : 1 <= i -> spwf m -> spwf (sp_final i m ops).
Proof.
  intros Hi. revert m. induction ops as [|o ops IH]; intros m Hm; cbn; [exact Hm|].
  apply IH, sp_step_spwf; assumption.
Qed.

Lemma spwf_nil : spwf [].
Proof. split; constructor. Qed.

Lemma set_fires_at_due n i pre k v d a o v' :
  1 <= n -> 1 <= i -> i <= d ->
  forallb (fun o => negb (touches k o)) a = true -> touches k o = false ->
  In (k, v') (snd (step (final (init n i) (pre ++ OSet k v d :: a)) o)) <->
  (o = OTick /\ ticks a + 1 = d / i /\ v' = v).
Proof.
  intros Hn Hi Hd Ha Ho.
  rewrite step_fired_refines by (apply reach_inv; assumption).
  rewrite reach_sint, reach_abs by assumption.
  rewrite sp_final_app. cbn [sp_final].
  apply sp_pending_fires; auto.
  - apply sp_step_spwf; [exact Hi|]. apply sp_final_spwf; [exact Hi|apply spwf_nil].
  - cbn [sp_step fst]. rewrite sp_lookup_put. rewrite Z.max_l by lia. reflexivity.
Qed.

Lemma move_fires_at_due n i pre k v d a o v' :
  1 <= n -> 1 <= i -> i <= d ->
  pending (final (init n i) pre) k = Some v ->
  forallb (fun o => negb (touches k o)) a = true -> touches k o = false ->
  In (k, v') (snd (step (final (init n i) (pre ++ OMove k d :: a)) o)) <->
  (o = OTick /\ ticks a + 1 = d / i /\ v' = v).
Proof.
  intros Hn Hi Hd Hp Ha Ho.
  apply pending_abs in Hp. destruct Hp as [r Hp]. rewrite reach_abs in Hp by assumption.
  rewrite step_fired_refines by (apply reach_inv; assumption).
  rewrite reach_sint, reach_abs by assumption.
  rewrite sp_final_app. cbn [sp_final].
  apply sp_pending_fires; auto.
  - apply sp_step_spwf; [exact Hi|]. apply sp_final_spwf; [exact Hi|apply spwf_nil].
  - cbn [sp_step fst]. rewrite Hp.
    destruct (Z.ltb_spec d i); [lia|]. cbn [fst]. apply sp_lookup_put.
Qed.

Lemma remove_never_fires n i pre k a o v :
  1 <= n -> 1 <= i ->
  forallb (fun o => negb (sets k o)) a = true -> sets k o = false ->
  ~ In (k, v) (snd (step (final (init n i) (pre ++ ORemove k :: a)) o)).
Proof.
  intros Hn Hi Ha Ho.
  rewrite step_fired_refines by (apply reach_inv; assumption).
  rewrite reach_sint, reach_abs by assumption.
  rewrite sp_final_app. cbn [sp_final].
  apply sp_absent_never_fires; auto.
  - apply sp_step_spwf; [exact Hi|]. apply sp_final_spwf; [exact Hi|apply spwf_nil].
  - cbn [sp_step fst]. rewrite sp_drop_lookup, Z.eqb_refl. reflexivity.
Qed.

Lemma unset_never_fires n i a o k v :
  1 <= n -> 1 <= i ->
  forallb (fun o => negb (sets k o)) a = true -> sets k o = false ->
  ~ In (k, v) (snd (step (final (init n i) a) o)).
Proof.
  intros Hn Hi Ha Ho.
  rewrite step_fired_refines by (apply reach_inv; assumption).
  rewrite reach_sint, reach_abs by assumption.
  apply sp_absent_never_fires; auto. apply spwf_nil.
Qed.

Lemma NoDup_map_filter {A B} (f : A -> B) (p : A -> bool) l :
  NoDup (map f l) -> NoDup (map f (filter p l)).
Proof.
  induction l as [|a l IH]; cbn; intros H; [constructor|].
  inversion H as [|? ? Hna Hnd]; subst.
  destruct (p a); cbn; [|apply IH, Hnd]. constructor; [|apply IH, Hnd].
  intros Hin. apply Hna. apply in_map_iff in Hin. destruct Hin as (x & Hx & Hxl).
  apply filter_In in Hxl. apply in_map_iff. exists x. tauto.
Qed.

(* no operation runs the callback twice for one key *)
Lemma fired_keys_nodup n i ops o :
  1 <= n -> 1 <= i -> NoDup (map fst (snd (step (final (init n i) ops) o))).
Proof.
  intros Hn Hi. pose proof (reach_inv n i ops Hn Hi) as HI.
  rewrite step_fired_refines by exact HI.
  destruct (abs_spwf _ HI) as [Hnd _]. generalize dependent (abs (final (init n i) ops)).
  intros m Hnd. destruct o as [k v d|k d|k| |]; cbn [sp_step snd].
  - constructor.
  - destruct (sp_lookup k m) as [[r v]|]; [|constructor].
    destruct (d <? _); cbn; [|constructor]. constructor; [intros []|constructor].
  - constructor.
  - rewrite map_map. cbn. apply NoDup_map_filter. exact Hnd.
  - rewrite map_map. cbn. exact Hnd.
Qed.

Lemma drain_delivers_pending n i ops :
  1 <= n -> 1 <= i ->
  let s := final (init n i) ops in
  (forall k v, In (k, v) (snd (step s ODrain)) <-> pending s k = Some v) /\
  NoDup (map fst (snd (step s ODrain))) /\
  (forall k, pending (fst (step s ODrain)) k = None).
Proof.
  intros Hn Hi s. pose proof (reach_inv n i ops Hn Hi) as HI. fold s in HI.
  split; [|split].
  - intros k v. cbn [step drain_all snd]. unfold pending.
    destruct HI as (_ & _ & _ & Hnd & _). split.
    + intros H. apply in_map_iff in H. destruct H as (e & [= <- <-] & He).
      destruct (lookup (ekey e) (sents s)) as [e0|] eqn:E.
      * cbn. f_equal. f_equal. symmetry. eapply lookup_unique; eauto.
      * exfalso. apply (lookup_none _ _ E). apply in_map, He.
    + destruct (lookup k (sents s)) as [e|] eqn:E; cbn; [|discriminate].
      intros [= <-]. destruct (lookup_in _ _ _ E) as [He <-].
      apply in_map_iff. exists e. split; [reflexivity|exact He].
  - apply fired_keys_nodup; assumption.
  - intros k. reflexivity.
Qed.
