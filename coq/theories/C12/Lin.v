(* C12 — free-running histories: is there an order of the calls, consistent with what
   is known about their real-time order, under which the due-map specification runs
   exactly the observed callbacks at every tick?  Executable only.

   Every call (SetTimer / MoveTimer / RemoveTimer, issued concurrently by several
   goroutines) and every tick carries two stamps of a global counter, taken before it
   started and after it returned: x precedes y for sure iff end x < start y.  The wheel
   serialises all requests through one goroutine; the point at which a request takes
   effect (the channel receive) lies between its two stamps.  The callbacks are
   attributed exactly to ticks by the executor.

   Drain takes effect at one point between its stamps and delivers exactly the timers
   pending at that point.  Stop closes stopChannel (FStop, between Stop's stamps); the run
   loop notices it later (FExit, no upper bound: it may still receive requests that were
   ready at the same moment, even after Stop has returned).

   The search is done key by key: the calls on one key together with all ticks.  A
   history whose calls can be ordered globally can be ordered for every key, so the
   check never rejects a linearisable history (it may accept a non-linearisable one
   whose keys are individually fine). *)
From Coq Require Import List ZArith Bool.
From GZ Require Import Lib.CheckLib C12.Model C12.Api.
Import ListNotations.
Open Scope Z_scope.

Inductive fop := FReq (o : op) | FDrain (f : fired) | FStop | FExit.
Definition ev := (Z * Z * fop * res)%type.     (* start, end, call, result *)
Definition tk := (Z * Z * fired)%type.         (* start, end, callbacks of this tick *)

Definition ev_start (x : ev) : Z := fst (fst (fst x)).
Definition ev_end (x : ev) : Z := snd (fst (fst x)).
Definition ev_op (x : ev) : fop := snd (fst x).
Definition ev_res (x : ev) : res := snd x.

Definition min_opt (a : option Z) (b : Z) : option Z :=
  match a with Some x => Some (Z.min x b) | None => Some b end.

(* smallest end stamp among the remaining calls and ticks *)
Definition min_end (ops : list ev) (ticks : list tk) : option Z :=
  fold_left (fun a (t : tk) => min_opt a (snd (fst t))) ticks
    (fold_left (fun a x => min_opt a (ev_end x)) ops None).

(* x may come next iff no remaining event ended before x started *)
Definition may_be_next (s : Z) (me : option Z) : bool :=
  match me with Some m => s <? m | None => true end.

(* [if] rather than [||] / [&&]: vm_compute evaluates the arguments of a function
   before the call, and the search must stop at the first order that works *)
Fixpoint pick {A} (pre rest : list A) (f : A -> list A -> bool) : bool :=
  match rest with
  | [] => false
  | x :: r => if f x (rev_append pre r) then true else pick (x :: pre) r f
  end.

Definition kfilt (k : Z) (f : fired) : fired := filter (fun kv => fst kv =? k) f.

(* one call on the per-key state ((stopChannel closed?, loop returned?), due-map restricted
   to k); None = impossible.  FStop = close(stopChannel), inside Stop's stamps; FExit = the
   run loop notices it, any time later.  A call may return ErrClosed as soon as the channel
   is closed; a call that returned nil, and a tick, were received before the loop returned. *)
Definition lin_call (i k : Z) (c : bool * bool) (m : spec) (x : ev) : option ((bool * bool) * spec) :=
  match ev_op x, ev_res x with
  | FStop, _ => Some ((true, snd c), m)
  | FExit, _ => if fst c then Some ((true, true), m) else None
  | _, RErrClosed => if fst c then Some (c, m) else None
  | FReq o, ROk => if snd c then None else Some (c, fst (sp_step i m o))
  | FDrain f, ROk =>
    if snd c then None
    else let '(m1, f1) := sp_step i m ODrain in
         if pairs_eqb (sort_pairs f1) (sort_pairs (kfilt k f)) then Some (c, m1) else None
  | _, _ => None
  end.

Fixpoint lin (fuel : nat) (i k : Z) (c : bool * bool) (m : spec) (ops : list ev) (ticks : list tk) : bool :=
  match ops, ticks with
  | [], [] => true
  | _, _ =>
    match fuel with
    | O => false
    | S fuel' =>
      let me := min_end ops ticks in
      if match ticks with
         | t :: ticks' =>
           (* a tick that was received: the loop had not returned yet *)
           if negb (snd c) && may_be_next (fst (fst t)) me then
             let '(m1, f1) := sp_step i m OTick in
             if pairs_eqb (sort_pairs f1) (sort_pairs (kfilt k (snd t)))
             then lin fuel' i k c m1 ops ticks' else false
           else false
         | [] => false
         end
      then true
      else pick [] ops (fun x others =>
             if may_be_next (ev_start x) me
             then match lin_call i k c m x with
                  | Some (c1, m1) => lin fuel' i k c1 m1 others ticks
                  | None => false
                  end
             else false)
    end
  end.

Definition op_key (o : op) : option Z :=
  match o with
  | OSet k _ _ | OMove k _ | ORemove k => Some k
  | _ => None
  end.

(* the calls that matter for key k: those on k, every Drain, Stop *)
Definition fop_key (o : fop) : option Z := match o with FReq r => op_key r | _ => None end.
Definition on_key (k : Z) (x : ev) : bool :=
  match ev_op x with
  | FReq r => match op_key r with Some k' => k' =? k | None => false end
  | _ => true
  end.

Fixpoint dedup (l : list Z) : list Z :=
  match l with
  | [] => []
  | x :: l' => if existsb (Z.eqb x) l' then dedup l' else x :: dedup l'
  end.

Definition free_keys (ops : list ev) (ticks : list tk) : list Z :=
  dedup (flat_map (fun x => match ev_op x with
                            | FReq r => match op_key r with Some k => [k] | None => [] end
                            | FDrain f => map fst f
                            | _ => []
                            end) ops
         ++ flat_map (fun t : tk => map fst (snd t)) ticks).

Definition free_in_scope (i : Z) (ops : list ev) : bool :=
  forallb (fun x => match ev_op x with FReq (OSet _ _ d) | FReq (OMove _ d) => i <=? d | _ => true end) ops.

Definition free_ok (i : Z) (ops : list ev) (ticks : list tk) : bool :=
  forallb (fun k =>
    let ok := filter (on_key k) ops in
    lin (length ok + length ticks) i k (false, false) [] ok ticks) (free_keys ops ticks).
