(* C12 — the timing wheel seen through a client (collection.Cache, the cache cleaner).
   Executable definitions only, no proofs.

   The executor observes, for every operation of the client, the requests the wheel
   received (in the order in which it received them, with the delays actually passed),
   the callbacks the wheel ran, and the keys the cache holds afterwards.  Two judges,
   both over the due-map specification (key |-> ticks remaining, value) of Model.v and
   independent of the wheel models:

   - [trace_ok]: the wheel-level property on the requests actually received: the
     callbacks observed during each client operation are those of the due-map.
   - [client_ok]: the client-level property, from the wheel's point of view: every
     entry stored by Set / SetWithExpire / a loading Take has a timer that fires
     exactly once, at its due tick, with the stored value, unless the entry is deleted,
     evicted or overwritten first; the timer of a deleted or evicted key never fires;
     at every quiescent point the wheel holds exactly one timer per cache entry and
     none for anything else (so no removal requested before a Set can hit the timer
     of that Set); Drain delivers exactly the timers of the entries still stored.
     Which key the LRU evicts is C16's property: evictions are taken from the observed
     key sets. *)
From Coq Require Import List ZArith Bool.
From GZ Require Import Lib.CheckLib C12.Model.
Import ListNotations.
Open Scope Z_scope.

Inductive kop :=
| KSet (k v d : Z)                       (* SetWithExpire(k, v, d) / Set (d = the cache's expiry) *)
| KGet (k : Z)
| KDel (k : Z)
| KTake (k : Z) (fetch : option Z) (d : Z)   (* d = the cache's expiry *)
| KTick
| KDrain.

Inductive kret :=
| RetNone
| RetGet (r : option Z)
| RetTake (r : option Z) (loader_called : bool).

Record kobs := mkKobs
  { otrace : list op;     (* requests received by the wheel; a tick comes first for KTick *)
    ofired : fired;       (* callbacks run by the wheel *)
    okeys : list Z;       (* keys of the cache afterwards (a Go map: no duplicates) *)
    oret : kret }.

(* run a segment of requests on the due-map, collecting the callbacks *)
Fixpoint seg_run (i : Z) (m : spec) (t : list op) : spec * fired :=
  match t with
  | [] => (m, [])
  | o :: t' =>
    let '(m1, f1) := sp_step i m o in
    let '(m2, f2) := seg_run i m1 t' in
    (m2, f1 ++ f2)
  end.

Definition spec_entry_eqb (a b : Z * (Z * Z)) : bool :=
  (fst a =? fst b) && (fst (snd a) =? fst (snd b)) && (snd (snd a) =? snd (snd b)).

Fixpoint insert_entry (x : Z * (Z * Z)) (l : spec) : spec :=
  match l with
  | [] => [x]
  | y :: l' => if fst x <=? fst y then x :: l else y :: insert_entry x l'
  end.
Definition sort_spec (m : spec) : spec := fold_right insert_entry [] m.
Definition spec_eqb (a b : spec) : bool := list_eqb spec_entry_eqb (sort_spec a) (sort_spec b).

Definition mem_z (k : Z) (l : list Z) : bool := existsb (Z.eqb k) l.

Definition same_keys (a b : list Z) : bool :=
  forallb (fun x => mem_z x b) a && forallb (fun x => mem_z x a) b.

Definition keep_keys (ks : list Z) (m : spec) : spec :=
  filter (fun kv => mem_z (fst kv) ks) m.

(* value and delay of the last SetTimer for k among the requests *)
Fixpoint last_set (k : Z) (t : list op) (acc : option (Z * Z)) : option (Z * Z) :=
  match t with
  | [] => acc
  | OSet k' v d :: t' => last_set k t' (if k' =? k then Some (v, d) else acc)
  | _ :: t' => last_set k t' acc
  end.

(* does the operation store an entry, and which value? *)
Definition stores (o : kop) (b : kobs) : option (Z * Z) :=
  match o with
  | KSet k v _ => Some (k, v)
  | KTake k _ _ =>
    match oret b with
    | RetTake (Some v) true => Some (k, v)
    | _ => None
    end
  | _ => None
  end.

(* one client operation on the client-level due-map; None = impossible observation *)
Definition cl_step (i : Z) (m : spec) (o : kop) (b : kobs) : option (spec * fired) :=
  match stores o b with
  | Some (k, v) =>
    match last_set k (otrace b) None with
    | Some (v', d') =>
      if v' =? v
      then Some (fst (sp_step i (keep_keys (k :: okeys b) m) (OSet k v d')), [])
      else None
    | None => None     (* an entry was stored and no timer was set for it *)
    end
  | None =>
    match o with
    | KDel k => Some (keep_keys (okeys b) (fst (sp_step i m (ORemove k))), [])
    | KTick => let '(m1, f) := sp_step i m OTick in Some (keep_keys (okeys b) m1, f)
    | KDrain => Some (sp_step i m ODrain)
    | _ => Some (keep_keys (okeys b) m, [])
    end
  end.

Definition trace_in_scope (i : Z) (t : list op) : bool :=
  forallb (fun o => match o with OSet _ _ d | OMove _ d => i <=? d | _ => true end) t.

(* both judges at once: [m] the client-level due-map, [w] the due-map of the requests *)
Fixpoint client_ok (i : Z) (m w : spec) (h : list (kop * kobs)) : bool :=
  match h with
  | [] => true
  | (o, b) :: h' =>
    let '(w1, fw) := seg_run i w (otrace b) in
    match cl_step i m o b with
    | None => false
    | Some (m1, fm) =>
      pairs_eqb (sort_pairs fw) (sort_pairs (ofired b))     (* wheel-level *)
      && pairs_eqb (sort_pairs fm) (sort_pairs (ofired b))  (* client-level *)
      && spec_eqb m1 w1                                     (* the wheel holds the client's timers *)
      && match o with
         | KDrain => true      (* the entries stay, their timers are gone: the history ends here *)
         | _ => same_keys (map fst m1) (okeys b)   (* one timer per entry, none besides *)
                && client_ok i m1 w1 h'
         end
    end
  end.

Definition history_in_scope (i : Z) (h : list (kop * kobs)) : bool :=
  forallb (fun ob => trace_in_scope i (otrace (snd ob))) h.

(* wheel-level judge alone, for clients without a client-level specification here *)
Fixpoint trace_ok (i : Z) (w : spec) (segs : list (list op * fired)) : bool :=
  match segs with
  | [] => true
  | (t, f) :: segs' =>
    let '(w1, fw) := seg_run i w t in
    pairs_eqb (sort_pairs fw) (sort_pairs f) && trace_ok i w1 segs'
  end.

(* a client that relies on fresh timer keys (the cache cleaner draws a random key for every
   clean task): during the segments in which it registers a task, its SetTimer must not
   land on a key that is pending, because SetTimer on a live key REPLACES the stored
   value (for the cleaner: the closure to retry) and re-arms the timer *)
Fixpoint fresh_ok (i : Z) (w : spec) (segs : list (list op * fired)) (adds : list bool) : bool :=
  match segs, adds with
  | (t, f) :: segs', a :: adds' =>
    (if a then forallb (fun o => match o with
                                 | OSet k _ _ => match sp_lookup k w with None => true | Some _ => false end
                                 | _ => true
                                 end) t
     else true)
    && fresh_ok i (fst (seg_run i w t)) segs' adds'
  | _, _ => true
  end.
