(* C12 — the client-level judge of Client.v ([client_ok], used by prop_ok for the
   cache histories) accepts, on EVERY history, what the composed model of C16/ModelW.v
   (collection.Cache + LRU + this wheel model, SetWithExpire always using SetTimer)
   does: the requests it sends to its wheel, the callbacks the wheel runs and the keys
   it holds afterwards.  So prop_ok is not an unproved oracle: relative to the model it
   raises no alarm, and whenever the implementation agrees with the model on a history
   ([agrees]) the judge's verdict is the model's.  Along the way: in every reachable state
   the wheel holds exactly one timer per cache entry and none besides. *)
From Coq Require Import List ZArith Bool Lia.
From GZ Require Import Lib.CheckLib C12.Model C12.Proofs C12.Client.
From GZ Require C16.Model C16.ProofsCache C16.ModelW C16.ProofsW.
Import ListNotations.
Open Scope Z_scope.

Module CM := GZ.C16.Model.
Module CP := GZ.C16.ProofsCache.
Module CW := GZ.C16.ModelW.
Module CWP := GZ.C16.ProofsW.

(* ------------------------------------------------------------------ *)
(* small facts about the executable helpers                             *)

Lemma pairs_eqb_refl l : pairs_eqb l l = true.
Proof.
  induction l as [|a l IH]; [reflexivity|]. cbn. unfold pair_eqb. rewrite !Z.eqb_refl. exact IH.
Qed.

Lemma spec_eqb_refl m : spec_eqb m m = true.
Proof.
  unfold spec_eqb. induction (sort_spec m) as [|a l IH]; [reflexivity|].
  cbn. unfold spec_entry_eqb. rewrite !Z.eqb_refl. exact IH.
Qed.

Lemma mem_z_In k l : mem_z k l = true <-> In k l.
Proof.
  unfold mem_z. rewrite existsb_exists. split.
  - intros (x & Hx & E). apply Z.eqb_eq in E. subst. exact Hx.
  - intros H. exists k. split; [exact H|apply Z.eqb_refl].
Qed.

Lemma same_keys_iff a b : (forall x, In x a <-> In x b) -> same_keys a b = true.
Proof.
  intros H. unfold same_keys. apply andb_true_iff. split; apply forallb_forall; intros x Hx;
    apply mem_z_In, H, Hx.
Qed.

Lemma filter_all {A} (p : A -> bool) l : (forall x, In x l -> p x = true) -> filter p l = l.
Proof.
  induction l as [|a l IH]; intros H; [reflexivity|]. cbn.
  rewrite (H a (or_introl eq_refl)). f_equal. apply IH. intros x Hx. apply H. right. exact Hx.
Qed.

Definition drops (ks : list Z) (m : spec) : spec := fold_left (fun m k => sp_drop k m) ks m.

Lemma drops_filter ks m :
  drops ks m = filter (fun kv => negb (mem_z (fst kv) ks)) m.
Proof.
  revert m. induction ks as [|k ks IH]; intros m.
  - cbn. symmetry. apply filter_all. reflexivity.
  - cbn [drops fold_left]. fold (drops ks (sp_drop k m)). rewrite IH. unfold sp_drop.
    induction m as [|a m IHm]; [reflexivity|]. cbn [filter].
    unfold mem_z at 2. cbn [existsb]. fold (mem_z (fst a) ks).
    rewrite (Z.eqb_sym (fst a) k).
    destruct (k =? fst a) eqn:E; cbn [negb orb filter].
    + exact IHm.
    + destruct (mem_z (fst a) ks); cbn [negb]; [exact IHm|f_equal; exact IHm].
Qed.

Lemma seg_run_app i m a b :
  seg_run i m (a ++ b) =
  (fst (seg_run i (fst (seg_run i m a)) b), snd (seg_run i m a) ++ snd (seg_run i (fst (seg_run i m a)) b)).
Proof.
  revert m. induction a as [|o a IH]; intros m.
  - cbn. destruct (seg_run i m b). reflexivity.
  - cbn [app seg_run]. destruct (sp_step i m o) as [m1 f1]. rewrite IH.
    destruct (seg_run i m1 a) as [m2 f2]. cbn [fst snd].
    destruct (seg_run i m2 b) as [m3 f3]. cbn [fst snd]. rewrite app_assoc. reflexivity.
Qed.

Lemma seg_run_removes i m ks : seg_run i m (map ORemove ks) = (drops ks m, []).
Proof.
  revert m. induction ks as [|k ks IH]; intros m; [reflexivity|].
  cbn [map seg_run sp_step]. rewrite IH. reflexivity.
Qed.

Lemma last_set_removes k ks t acc :
  last_set k (map ORemove ks ++ t) acc = last_set k t acc.
Proof. induction ks as [|x ks IH]; [reflexivity|exact IH]. Qed.

(* lookups and key lists *)
Lemma sp_lookup_keys (m : spec) x : In x (map fst m) <-> sp_lookup x m <> None.
Proof.
  split.
  - intros Hin E. apply (sp_lookup_none _ _ E Hin).
  - intros H. destruct (sp_lookup x m) as [rv|] eqn:E; [|contradiction].
    apply sp_lookup_in in E. apply (in_map fst) in E. exact E.
Qed.

Lemma alookup_keys (m : CM.amap) x : In x (map fst m) <-> CM.alookup x m <> None.
Proof.
  split.
  - intros Hin E. apply (CP.alookup_None_notin _ _ E Hin).
  - intros H. destruct (CM.alookup x m) as [v|] eqn:E; [|contradiction].
    apply (CP.alookup_In _ _ _ E).
Qed.

Lemma sp_lookup_filter (p : Z -> bool) (m : spec) x :
  sp_lookup x (filter (fun kv => p (fst kv)) m) = if p x then sp_lookup x m else None.
Proof.
  unfold sp_lookup. induction m as [|a m IH]; cbn; [destruct (p x); reflexivity|].
  destruct (p (fst a)) eqn:Ep; cbn.
  - destruct (Z.eqb_spec (fst a) x) as [E|E]; [subst; rewrite Ep; reflexivity|exact IH].
  - destruct (Z.eqb_spec (fst a) x) as [E|E]; [|exact IH].
    subst x. rewrite Ep in IH |- *. exact IH.
Qed.

Lemma smem_mem k l : CM.smem k l = mem_z k l.
Proof. reflexivity. Qed.

(* the wheel after a list of RemoveTimer *)
Lemma abs_removes ks w : Inv w ->
  Inv (CW.tw_removes w ks) /\ sint (CW.tw_removes w ks) = sint w /\
  abs (CW.tw_removes w ks) = drops ks (abs w).
Proof.
  revert w. induction ks as [|k ks IH]; intros w HI; [auto|].
  destruct (CWP.wheel_remove w k HI) as (H1 & H2 & H3).
  destruct (IH (remove_task w k) H1) as (I1 & I2 & I3).
  unfold CW.tw_removes in *. cbn [fold_left drops]. fold (drops ks (sp_drop k (abs w))).
  split; [exact I1|]. split; [rewrite I2; exact H2|]. rewrite I3, H3. reflexivity.
Qed.

(* ------------------------------------------------------------------ *)
(* what the composed model does during one cache operation, as an observation *)

Definition req_set (c : CM.cache) (k v d : Z) : list op :=
  map ORemove (snd (CM.c_set c k v)) ++ [OSet k v d].

Definition next (s : CW.cachew) (x : CW.xop) : CW.cachew := fst (fst (CW.cw_step s x)).

Definition model_obs (s : CW.cachew) (x : CW.xop) : kop * kobs :=
  let keys := map fst (CM.cdata (CW.cwc (next s x))) in
  match x with
  | CW.XSet k v d => (KSet k v d, mkKobs (req_set (CW.cwc s) k v d) [] keys RetNone)
  | CW.XGet k => (KGet k, mkKobs [] [] keys (RetGet (CM.alookup k (CM.cdata (CW.cwc s)))))
  | CW.XDel k => (KDel k, mkKobs [ORemove k] [] keys RetNone)
  | CW.XTake k f d =>
    (KTake k f d,
     match CM.alookup k (CM.cdata (CW.cwc s)), f with
     | Some v, _ => mkKobs [] [] keys (RetTake (Some v) false)
     | None, Some v => mkKobs (req_set (CW.cwc s) k v d) [] keys (RetTake (Some v) true)
     | None, None => mkKobs [] [] keys (RetTake None true)
     end)
  | CW.XTick =>
    let f := snd (on_tick (CW.cww s)) in
    (KTick, mkKobs (OTick :: map ORemove (map fst f)) f keys RetNone)
  end.

Fixpoint observe (s : CW.cachew) (ops : list CW.xop) : list (kop * kobs) :=
  match ops with
  | [] => []
  | x :: ops' => model_obs s x :: observe (next s x) ops'
  end.

(* the invariant: m is the wheel's due-map, and it has exactly the cache's keys *)
Definition J (i : Z) (s : CW.cachew) (m : spec) : Prop :=
  CP.Inv (CW.cwc s) /\ Inv (CW.cww s) /\ sint (CW.cww s) = i /\ CW.cwmv s = false /\
  m = abs (CW.cww s) /\
  (forall x, CM.alookup x (CM.cdata (CW.cwc s)) <> None <-> sp_lookup x m <> None).

Lemma J_new limit n i : 1 <= n -> 1 <= i -> J i (CW.cw_new limit n i false) [].
Proof.
  intros Hn Hi. unfold J, CW.cw_new. cbn [CW.cwc CW.cww CW.cwmv].
  split; [apply CP.Inv_new|]. split; [apply inv_init; assumption|].
  repeat split; try reflexivity; intros H; exfalso; apply H; reflexivity.
Qed.

Lemma sp_lookup_drops ks m x :
  sp_lookup x (drops ks m) = if mem_z x ks then None else sp_lookup x m.
Proof.
  rewrite drops_filter.
  rewrite (sp_lookup_filter (fun y => negb (mem_z y ks)) m x).
  destruct (mem_z x ks); reflexivity.
Qed.

Lemma sp_lookup_put_any k rv m x :
  sp_lookup x (sp_put k rv m) = if k =? x then Some rv else sp_lookup x m.
Proof.
  destruct (Z.eqb_spec k x) as [E|E].
  - subst. apply sp_lookup_put.
  - apply sp_put_lookup_other. exact E.
Qed.

Lemma cw_set_nomv s k v d : CW.cwmv s = false ->
  CW.cw_set s k v d =
  (CW.mkCW (fst (CM.c_set (CW.cwc s) k v))
           (set_task (CW.tw_removes (CW.cww s) (snd (CM.c_set (CW.cwc s) k v))) k v d) false,
   snd (CM.c_set (CW.cwc s) k v), []).
Proof.
  intros Hmv. unfold CW.cw_set. rewrite Hmv, andb_false_r.
  destruct (CM.c_set (CW.cwc s) k v) as [c1 ev]. reflexivity.
Qed.

Lemma set_case i s m k v d :
  J i s m ->
  let c1 := fst (CM.c_set (CW.cwc s) k v) in
  let ev := snd (CM.c_set (CW.cwc s) k v) in
  let s1 := CW.mkCW c1 (set_task (CW.tw_removes (CW.cww s) ev) k v d) false in
  let m1 := sp_put k (Z.max d i / i, v) (drops ev m) in
  keep_keys (k :: map fst (CM.cdata c1)) m = drops ev m /\
  J i s1 m1 /\
  same_keys (map fst m1) (map fst (CM.cdata c1)) = true.
Proof.
  intros (HIc & HIw & Hsi & Hmv & Hm & Hk) c1 ev s1 m1.
  pose proof (CWP.c_set_data (CW.cwc s) k v) as Hd. fold c1 ev in Hd.
  pose proof (CWP.set_ev_not_self (CW.cwc s) k v HIc) as Hnk. fold ev in Hnk.
  destruct (abs_removes ev (CW.cww s) HIw) as (HIw1 & Hs1 & Ha1).
  destruct (CWP.wheel_set (CW.tw_removes (CW.cww s) ev) k v d HIw1) as (HIw2 & Hs2 & Ha2).
  assert (Hkeys : forall x, CM.alookup x (CM.cdata c1) <> None <-> sp_lookup x m1 <> None).
  { intros x. unfold m1. rewrite sp_lookup_put_any, sp_lookup_drops.
    rewrite Hd. change (CM.smem x ev) with (mem_z x ev).
    destruct (mem_z x ev) eqn:Ev.
    - destruct (Z.eqb_spec k x) as [E|E].
      + subst x. exfalso. apply Hnk. apply mem_z_In. exact Ev.
      + tauto.
    - destruct (Z.eqb_spec k x) as [E|E]; [split; discriminate|]. apply Hk. }
  split; [|split].
  - unfold keep_keys. rewrite drops_filter. apply filter_ext_in. intros kv Hin.
    assert (Hx : sp_lookup (fst kv) m <> None).
    { apply sp_lookup_keys. apply in_map. exact Hin. }
    apply Hk in Hx. unfold mem_z at 1. cbn [existsb]. fold (mem_z (fst kv) (map fst (CM.cdata c1))).
    destruct (mem_z (fst kv) ev) eqn:Ev; cbn [negb].
    + apply orb_false_iff. split.
      * apply Z.eqb_neq. intros E. apply Hnk. rewrite <- E. apply mem_z_In. exact Ev.
      * destruct (mem_z (fst kv) (map fst (CM.cdata c1))) eqn:Em; [|reflexivity].
        apply mem_z_In, alookup_keys in Em. rewrite Hd in Em.
        change (CM.smem (fst kv) ev) with (mem_z (fst kv) ev) in Em. rewrite Ev in Em. contradiction.
    + rewrite (Z.eqb_sym (fst kv) k). destruct (Z.eqb_spec k (fst kv)) as [E|E]; [reflexivity|].
      cbn [orb]. apply mem_z_In, alookup_keys. rewrite Hd.
      change (CM.smem (fst kv) ev) with (mem_z (fst kv) ev). rewrite Ev.
      destruct (Z.eqb_spec k (fst kv)); [contradiction|exact Hx].
  - unfold J, s1. cbn [CW.cwc CW.cww CW.cwmv].
    split; [apply CP.Inv_set, HIc|]. split; [exact HIw2|].
    split; [rewrite Hs2, Hs1; exact Hsi|]. split; [reflexivity|].
    split; [|exact Hkeys].
    unfold m1. rewrite Ha2, Ha1, Hs1, Hsi, Hm. reflexivity.
  - apply same_keys_iff. intros x. rewrite sp_lookup_keys, alookup_keys. symmetry. apply Hkeys.
Qed.

Lemma del_case i s m k :
  J i s m ->
  let s1 := CW.mkCW (CM.c_del (CW.cwc s) k) (remove_task (CW.cww s) k) (CW.cwmv s) in
  let m1 := sp_drop k m in
  keep_keys (map fst (CM.cdata (CW.cwc s1))) m1 = m1 /\ J i s1 m1 /\
  same_keys (map fst m1) (map fst (CM.cdata (CW.cwc s1))) = true.
Proof.
  intros (HIc & HIw & Hsi & Hmv & Hm & Hk) s1 m1.
  destruct (CWP.wheel_remove (CW.cww s) k HIw) as (H1 & H2 & H3).
  assert (Hd : forall x, CM.alookup x (CM.cdata (CM.c_del (CW.cwc s) k)) =
                         if x =? k then None else CM.alookup x (CM.cdata (CW.cwc s))).
  { intros x. pose proof (CWP.alookup_dels [k] (CW.cwc s) x) as H. cbn in H.
    rewrite orb_false_r in H. exact H. }
  assert (Hkeys : forall x, CM.alookup x (CM.cdata (CM.c_del (CW.cwc s) k)) <> None <->
                            sp_lookup x m1 <> None).
  { intros x. unfold m1. rewrite Hd, sp_drop_lookup, (Z.eqb_sym k x).
    destruct (x =? k); [tauto|apply Hk]. }
  split; [|split].
  - unfold keep_keys. apply filter_all. intros kv Hin. cbn [CW.cwc s1].
    apply mem_z_In, alookup_keys, Hkeys, sp_lookup_keys, in_map, Hin.
  - unfold J, s1. cbn [CW.cwc CW.cww CW.cwmv].
    split; [apply CP.Inv_del, HIc|]. split; [exact H1|]. split; [rewrite H2; exact Hsi|].
    split; [exact Hmv|]. split; [|exact Hkeys]. unfold m1. rewrite H3, Hm. reflexivity.
  - apply same_keys_iff. intros x. cbn [CW.cwc s1]. rewrite sp_lookup_keys, alookup_keys.
    symmetry. apply Hkeys.
Qed.

Lemma same_case i s m c' :
  J i s m -> CP.Inv c' -> CM.cdata c' = CM.cdata (CW.cwc s) ->
  let s1 := CW.mkCW c' (CW.cww s) (CW.cwmv s) in
  keep_keys (map fst (CM.cdata c')) m = m /\ J i s1 m /\
  same_keys (map fst m) (map fst (CM.cdata c')) = true.
Proof.
  intros (HIc & HIw & Hsi & Hmv & Hm & Hk) HI' Hd s1.
  split; [|split].
  - unfold keep_keys. apply filter_all. intros kv Hin. rewrite Hd.
    apply mem_z_In, alookup_keys, Hk, sp_lookup_keys, in_map, Hin.
  - unfold J, s1. cbn [CW.cwc CW.cww CW.cwmv]. rewrite Hd. auto 10.
  - apply same_keys_iff. intros x. rewrite Hd, sp_lookup_keys, alookup_keys. symmetry. apply Hk.
Qed.

Lemma tick_case i s m :
  J i s m ->
  let f := snd (on_tick (CW.cww s)) in
  let fks := map fst f in
  let s1 := CW.mkCW (CWP.c_dels (CW.cwc s) fks) (CW.tw_removes (fst (on_tick (CW.cww s))) fks) (CW.cwmv s) in
  let m1 := sp_tick_keep m in
  sp_step i m OTick = (m1, f) /\
  drops fks m1 = m1 /\
  keep_keys (map fst (CM.cdata (CW.cwc s1))) m1 = m1 /\ J i s1 m1 /\
  same_keys (map fst m1) (map fst (CM.cdata (CW.cwc s1))) = true.
Proof.
  intros (HIc & HIw & Hsi & Hmv & Hm & Hk) f fks s1 m1.
  destruct (CWP.wheel_tick (CW.cww s) HIw) as (H1 & H2 & H3 & H4).
  rewrite <- Hm in H3, H4. fold f in H4.
  assert (Hnd : NoDup (map fst m)).
  { rewrite Hm. apply (abs_spwf _ HIw). }
  assert (Hf : forall x, In x fks <-> exists v, sp_lookup x m = Some (1, v)).
  { intros x. unfold fks. rewrite in_map_iff. split.
    - intros ([x0 v] & E & Hin). cbn in E. subst x0. exists v.
      rewrite H4 in Hin. apply sp_tick_fire_in in Hin; assumption.
    - intros (v & E). exists (x, v). split; [reflexivity|]. rewrite H4.
      apply sp_tick_fire_in; assumption. }
  assert (Hl : forall x, sp_lookup x m1 =
                         match sp_lookup x m with
                         | Some (r, v) => if r =? 1 then None else Some (r - 1, v)
                         | None => None
                         end).
  { intros x. apply sp_tick_keep_lookup. exact Hnd. }
  assert (Hnf : forall kv, In kv m1 -> mem_z (fst kv) fks = false).
  { intros kv Hin. destruct (mem_z (fst kv) fks) eqn:E; [|reflexivity]. exfalso.
    apply mem_z_In, Hf in E. destruct E as (v & E).
    assert (Hx : sp_lookup (fst kv) m1 <> None) by (apply sp_lookup_keys, in_map, Hin).
    rewrite Hl, E in Hx. cbn in Hx. contradiction. }
  assert (Hd : forall x, CM.alookup x (CM.cdata (CWP.c_dels (CW.cwc s) fks)) =
                         if mem_z x fks then None else CM.alookup x (CM.cdata (CW.cwc s))).
  { intros x. apply CWP.alookup_dels. }
  assert (Hkeys : forall x, CM.alookup x (CM.cdata (CWP.c_dels (CW.cwc s) fks)) <> None <->
                            sp_lookup x m1 <> None).
  { intros x. rewrite Hd, Hl. specialize (Hk x). specialize (Hf x).
    destruct (sp_lookup x m) as [[r v]|] eqn:E.
    - destruct (Z.eqb_spec r 1) as [E1|E1].
      + subst r. assert (Hin : In x fks) by (apply Hf; eauto).
        apply mem_z_In in Hin. rewrite Hin. tauto.
      + destruct (mem_z x fks) eqn:Em.
        * apply mem_z_In, Hf in Em. destruct Em as (v' & Em). congruence.
        * split; [discriminate|]. intros _. apply Hk. discriminate.
    - destruct (mem_z x fks); [tauto|]. split; [|tauto]. intros H. apply Hk in H. contradiction. }
  split; [|split; [|split; [|split]]].
  - cbn [sp_step]. fold (sp_tick_keep m). fold (sp_tick_fire m). rewrite <- H4. reflexivity.
  - rewrite drops_filter. apply filter_all. intros kv Hin. rewrite (Hnf kv Hin). reflexivity.
  - unfold keep_keys. apply filter_all. intros kv Hin. cbn [CW.cwc s1].
    apply mem_z_In, alookup_keys, Hkeys, sp_lookup_keys, in_map, Hin.
  - destruct (abs_removes fks (fst (on_tick (CW.cww s))) H1) as (I1 & I2 & I3).
    unfold J, s1. cbn [CW.cwc CW.cww CW.cwmv].
    split; [apply CWP.Inv_dels, HIc|]. split; [exact I1|]. split; [rewrite I2, H2; exact Hsi|].
    split; [exact Hmv|]. split; [|exact Hkeys].
    rewrite I3, H3. fold m1. symmetry. rewrite drops_filter. apply filter_all.
    intros kv Hin. rewrite (Hnf kv Hin). reflexivity.
  - apply same_keys_iff. intros x. cbn [CW.cwc s1]. rewrite sp_lookup_keys, alookup_keys.
    symmetry. apply Hkeys.
Qed.

(* ------------------------------------------------------------------ *)
(* one operation: the judge's two due-maps follow the model              *)

Lemma nochange_step i s m o b c' :
  J i s m -> CP.Inv c' -> CM.cdata c' = CM.cdata (CW.cwc s) ->
  stores o b = None -> match o with KGet _ | KTake _ _ _ => True | _ => False end ->
  otrace b = [] -> ofired b = [] -> okeys b = map fst (CM.cdata c') ->
  exists m1,
    cl_step i m o b = Some (m1, ofired b) /\ seg_run i m (otrace b) = (m1, ofired b) /\
    same_keys (map fst m1) (okeys b) = true /\ J i (CW.mkCW c' (CW.cww s) (CW.cwmv s)) m1.
Proof.
  intros HJ HI' Hd Hst Ho Ht Hf Hok.
  destruct (same_case i s m c' HJ HI' Hd) as (H1 & H2 & H3).
  exists m. rewrite Ht, Hf, Hok. split; [|split; [|split]].
  - unfold cl_step. rewrite Hst, Hok, H1. destruct o; try contradiction; reflexivity.
  - reflexivity.
  - exact H3.
  - exact H2.
Qed.


Lemma judge_step i s m x :
  J i s m ->
  exists m1,
    cl_step i m (fst (model_obs s x)) (snd (model_obs s x)) = Some (m1, ofired (snd (model_obs s x))) /\
    seg_run i m (otrace (snd (model_obs s x))) = (m1, ofired (snd (model_obs s x))) /\
    same_keys (map fst m1) (okeys (snd (model_obs s x))) = true /\
    J i (next s x) m1.
Proof.
  intros HJ. pose proof HJ as (HIc & HIw & Hsi & Hmv & Hm & Hk).
  assert (Hset : forall k v d (b : kobs) (o : kop),
            next s x = fst (fst (CW.cw_set s k v d)) ->
            stores o b = Some (k, v) -> otrace b = req_set (CW.cwc s) k v d -> ofired b = [] ->
            okeys b = map fst (CM.cdata (CW.cwc (next s x))) ->
            exists m1, cl_step i m o b = Some (m1, ofired b) /\
                       seg_run i m (otrace b) = (m1, ofired b) /\
                       same_keys (map fst m1) (okeys b) = true /\ J i (next s x) m1).
  { intros k v d b o Hn Hst Ht Hf Hok.
    rewrite (cw_set_nomv s k v d Hmv) in Hn. cbn [fst] in Hn.
    destruct (set_case i s m k v d HJ) as (Hkeep & HJ1 & Hsame).
    rewrite <- Hn in HJ1. rewrite Hn in Hok. cbn [CW.cwc] in Hok.
    exists (sp_put k (Z.max d i / i, v) (drops (snd (CM.c_set (CW.cwc s) k v)) m)).
    split; [|split; [|split]].
    - unfold cl_step. rewrite Hst, Ht. unfold req_set. rewrite last_set_removes.
      cbn [last_set]. rewrite !Z.eqb_refl, Hok, Hkeep, Hf. reflexivity.
    - rewrite Ht. unfold req_set. rewrite seg_run_app, seg_run_removes. cbn [fst snd seg_run sp_step app].
      rewrite Hf. reflexivity.
    - rewrite Hok. exact Hsame.
    - exact HJ1. }
  destruct x as [k v d|k|k|k f d|].
  - (* Set *)
    apply (Hset k v d); try reflexivity. unfold next. rewrite CWP.cw_step_set. reflexivity.
  - (* Get *)
    unfold next, model_obs. unfold next. rewrite CWP.cw_step_get. cbn [fst snd CW.cwc].
    apply (nochange_step i s m _ _ (fst (CM.c_doget (CW.cwc s) k)) HJ
             (CP.Inv_doget _ k HIc) (CP.c_doget_data _ k HIc)); try reflexivity; try exact I.
  - (* Del *)
    unfold next, model_obs. unfold next. cbn [CW.cw_step fst snd].
    destruct (del_case i s m k HJ) as (H1 & H2 & H3). cbn [CW.cwc] in H1, H3.
    exists (sp_drop k m). cbn [otrace ofired okeys CW.cwc]. split; [|split; [|split]].
    + unfold cl_step. cbn [stores okeys sp_step fst]. rewrite H1. reflexivity.
    + reflexivity.
    + exact H3.
    + exact H2.
  - (* Take *)
    destruct (CM.alookup k (CM.cdata (CW.cwc s))) as [v0|] eqn:Ea.
    + (* hit *)
      unfold next, model_obs. unfold next. rewrite (CWP.cw_step_take_hit s k f d v0 Ea), Ea.
      cbn [fst snd CW.cwc].
      assert (HI' : CP.Inv (fst (CM.c_lru_add (CW.cwc s) k))).
      { pose proof (CP.Inv_doget _ k HIc) as H. rewrite (CP.c_doget_hit _ k v0 Ea) in H. exact H. }
      apply (nochange_step i s m _ _ (fst (CM.c_lru_add (CW.cwc s) k)) HJ HI'
               (proj1 (CP.lru_add_hit_data _ k v0 HIc Ea))); try reflexivity; try exact I.
    + destruct f as [v|].
      * (* miss, loaded *)
        apply (Hset k v d).
        -- unfold next. rewrite (CWP.cw_step_take_miss_some s k v d Ea). reflexivity.
        -- unfold model_obs. rewrite Ea. reflexivity.
        -- unfold model_obs. rewrite Ea. reflexivity.
        -- unfold model_obs. rewrite Ea. reflexivity.
        -- unfold model_obs. rewrite Ea. reflexivity.
      * (* miss, loader failed *)
        unfold next, model_obs. unfold next. rewrite (CWP.cw_step_take_miss_none s k d Ea), Ea.
        cbn [fst snd].
        destruct (nochange_step i s m (KTake k None d)
                    (mkKobs [] [] (map fst (CM.cdata (CW.cwc s))) (RetTake None true))
                    (CW.cwc s) HJ HIc eq_refl eq_refl I eq_refl eq_refl eq_refl) as (m1 & A & B & C & D).
        rewrite CWP.cw_eta in D. exists m1. auto.
  - (* Tick *)
    unfold next, model_obs. unfold next. rewrite CWP.cw_step_tick. cbn [fst snd].
    destruct (tick_case i s m HJ) as (H0 & Hdr & H1 & H2 & H3). cbn [CW.cwc] in H1, H3.
    exists (sp_tick_keep m). cbn [otrace ofired okeys CW.cwc].
    split; [|split; [|split]].
    + unfold cl_step. cbn [stores okeys]. rewrite H0, H1. reflexivity.
    + cbn [seg_run]. rewrite H0, seg_run_removes, Hdr, app_nil_r. reflexivity.
    + exact H3.
    + exact H2.
Qed.

Lemma client_ok_observe i ops : forall s m,
  J i s m -> client_ok i m m (observe s ops) = true.
Proof.
  induction ops as [|x ops IH]; intros s m HJ; [reflexivity|].
  cbn [observe client_ok].
  destruct (judge_step i s m x HJ) as (m1 & Hc & Hs & Hk & HJ1).
  destruct (model_obs s x) as [o b]. cbn [fst snd] in *.
  rewrite Hs, Hc. rewrite !pairs_eqb_refl, spec_eqb_refl, (IH _ _ HJ1). cbn [andb].
  destruct o; try (rewrite Hk; reflexivity). reflexivity.
Qed.

(* the client-level judge raises no alarm on the composed model, on any history *)
Theorem client_judge_accepts_model limit n i ops :
  1 <= n -> 1 <= i ->
  client_ok i [] [] (observe (CW.cw_new limit n i false) ops) = true.
Proof. intros Hn Hi. apply client_ok_observe. apply J_new; assumption. Qed.

(* in every reachable state the wheel holds exactly one timer per cache entry *)
Fixpoint reach (s : CW.cachew) (ops : list CW.xop) : CW.cachew :=
  match ops with [] => s | x :: ops' => reach (next s x) ops' end.

Lemma J_reach i ops : forall s m, J i s m -> exists m', J i (reach s ops) m'.
Proof.
  induction ops as [|x ops IH]; intros s m HJ; [eauto|].
  destruct (judge_step i s m x HJ) as (m1 & _ & _ & _ & HJ1). apply (IH _ _ HJ1).
Qed.

Theorem one_timer_per_cache_entry limit n i ops x :
  1 <= n -> 1 <= i ->
  let s := reach (CW.cw_new limit n i false) ops in
  CM.alookup x (CM.cdata (CW.cwc s)) <> None <-> pending (CW.cww s) x <> None.
Proof.
  intros Hn Hi s.
  destruct (J_reach i ops _ _ (J_new limit n i Hn Hi)) as (m & HJ). fold s in HJ.
  destruct HJ as (_ & _ & _ & _ & Hm & Hk). rewrite (Hk x), Hm. split.
  - intros H. destruct (sp_lookup x (abs (CW.cww s))) as [[r v]|] eqn:E; [|contradiction].
    assert (Hp : pending (CW.cww s) x = Some v) by (apply pending_abs; eauto).
    rewrite Hp. discriminate.
  - intros H. destruct (pending (CW.cww s) x) as [v|] eqn:E; [|contradiction].
    apply pending_abs in E. destruct E as (r & E). rewrite E. discriminate.
Qed.
