(* C12 — obligations about the constants regenerated from the source tree on every run
   (coq/gen/C12Consts.v): the in-tree clients of the timing wheel stay inside the property's
   quantifier with today's values, and the property theorems instantiate to them.  A changed
   constant that takes a client out of the quantifier (a slot count or interval below one, a
   retry delay shorter than the cleaner's tick interval - SetTimer would silently stretch it to
   one interval) breaks a proof here instead of passing silently. *)
From Coq Require Import List ZArith Bool Lia.
From GZ Require Import C12.Model C12.Proofs C12.Api C12.ApiProofs.
From GZgen Require Import C12Consts.
Import ListNotations.
Open Scope Z_scope.

Theorem cache_wheel_in_scope : 1 <= cache_wheel_slots /\ 1 <= cache_wheel_interval_ns.
Proof. unfold cache_wheel_slots, cache_wheel_interval_ns. lia. Qed.

Theorem cleaner_wheel_in_scope : 1 <= cleaner_wheel_slots /\ 1 <= cleaner_wheel_interval_ns.
Proof. unfold cleaner_wheel_slots, cleaner_wheel_interval_ns. lia. Qed.

(* the cleaner retries at all, and every retry delay is at least one tick interval *)
Theorem cleaner_schedule_in_scope :
  cleaner_retry_schedule_ns <> [] /\
  Forall (fun d => cleaner_wheel_interval_ns <= d) cleaner_retry_schedule_ns.
Proof.
  split; [discriminate|]. apply Forall_forall. intros d Hd.
  assert (H : forallb (fun d => cleaner_wheel_interval_ns <=? d) cleaner_retry_schedule_ns = true)
    by (vm_compute; reflexivity).
  rewrite forallb_forall in H. apply Z.leb_le. now apply H.
Qed.

(* hence: on the cleaner's wheel, whatever happened before and wherever the wheel stands, the
   retry timer set with a delay of the schedule runs the clean task exactly once, at the
   floor(d / interval)-th tick, with the task it was set with *)
Theorem cleaner_retry_fires_exactly_once : forall pre k v d a,
  In d cleaner_retry_schedule_ns ->
  forallb (fun o => negb (touches k o)) a = true ->
  kfilter k (concat (run (final (init cleaner_wheel_slots cleaner_wheel_interval_ns) (pre ++ [OSet k v d])) a)) =
  if d / cleaner_wheel_interval_ns <=? ticks a then [(k, v)] else [].
Proof.
  intros pre k v d a Hd Ha. destruct cleaner_wheel_in_scope as [Hn Hi].
  destruct cleaner_schedule_in_scope as [_ Hs]. rewrite Forall_forall in Hs.
  apply set_fires_once; auto.
Qed.

(* and an entry of collection.Cache set with an expiry of at least one interval of its wheel *)
Theorem cache_expiry_fires_exactly_once : forall pre k v d a,
  cache_wheel_interval_ns <= d ->
  forallb (fun o => negb (touches k o)) a = true ->
  kfilter k (concat (run (final (init cache_wheel_slots cache_wheel_interval_ns) (pre ++ [OSet k v d])) a)) =
  if d / cache_wheel_interval_ns <=? ticks a then [(k, v)] else [].
Proof.
  intros pre k v d a Hd Ha. destruct cache_wheel_in_scope as [Hn Hi]. apply set_fires_once; auto.
Qed.

(* The delivery layer of the model (Deliver.v: a Drain is one atomic step of the wheel, its callbacks
   run off the wheel goroutine and may call back into it) describes the code since fix 1b06186.  The
   flag is observed on the running code on every run (9 pending timers, re-entrant drain callbacks,
   then a call from another goroutine); the tree before the fix - Pinned.drain_on_wheel_goroutine_refuted -
   and seeded change C12-11 - Pinned.seed_c12_11_refuted - make it false. *)
Theorem drain_does_not_wait_on_the_wheel_goroutine : drain_delivers_off_wheel_goroutine = true.
Proof. reflexivity. Qed.

(* the whole schedule in ticks of the cleaner's wheel (what the 3970-tick corpus case walks through) *)
Definition schedule_ticks : Z :=
  fold_right Z.add 0 (map (fun d => d / cleaner_wheel_interval_ns) cleaner_retry_schedule_ns).
