(* C12 — the delivery layer on top of the wheel (runTasks of timingwheel.go), with
   callbacks that do not return before later ticks.  Executable only, no proofs.

   scanAndRunTasks collects the timers due at a tick into a FRESH slice and runTasks
   starts ONE goroutine per tick that calls execute for the elements of that slice, in
   order, each under RunSafe (a panic does not stop the batch).  execute is user code:
   it may block for as long as it likes.  While a callback of an earlier tick is
   blocked, later ticks are scanned and their batches are delivered by their own
   goroutines.  (moveTask with a delay below one interval delivers one callback on a
   goroutine of its own; drainAll hands its callbacks to a bounded runner.)

   Here the controller decides how long a callback runs: the callback of a value in
   [hold] blocks until [GRelease v].  A batch in flight is the list of its tasks from the
   one whose callback is blocked (already started, hence already counted as delivered)
   onwards.  The layer is generic in the wheel underneath ([stepf]). *)
From Coq Require Import List ZArith Bool.
From GZ Require Import Lib.CheckLib C12.Model C12.Api.
Import ListNotations.
Open Scope Z_scope.

Inductive gop :=
| GCall (o : aop)        (* a call of the wheel's API / a tick *)
| GRelease (v : Z).      (* the controller lets the callbacks of value v return *)

Definition zmem (k : Z) (l : list Z) : bool := existsb (Z.eqb k) l.

Section Deliver.
Context {W : Type}.
Variable stepf : W -> aop -> W * fired * res.
Variable hold : list Z.

Record dstate := mkD
  { dwheel : W;
    dflight : list fired;      (* batches in flight; the head of each is a blocked callback *)
    dreleased : list Z }.

Definition held (rel : list Z) (v : Z) : bool := zmem v hold && negb (zmem v rel).

(* the goroutine of a batch: deliver in order until a callback blocks *)
Fixpoint run_batch (rel : list Z) (b : fired) : fired * option fired :=
  match b with
  | [] => ([], None)
  | x :: b' =>
    if held rel (snd x) then ([x], Some b)
    else let '(d, r) := run_batch rel b' in (x :: d, r)
  end.

Definition opt_list {A} (o : option A) : list A := match o with Some x => [x] | None => [] end.

(* a batch in flight when v is released: it goes on iff it is blocked on v *)
Definition resume (rel : list Z) (v : Z) (b : fired) : fired * option fired :=
  match b with
  | [] => ([], None)
  | x :: b' => if snd x =? v then run_batch rel b' else ([], Some b)
  end.

Definition gstep (s : dstate) (o : gop) : dstate * fired * res :=
  match o with
  | GCall a =>
    let '(w', f, r) := stepf (dwheel s) a in
    match a with
    | ADrain =>
      (* drainAll hands every task to a runner of its own goroutines: all of them start;
         a held one stays parked as a batch of one *)
      (mkD w' (dflight s ++ map (fun x => [x]) (filter (fun x => held (dreleased s) (snd x)) f))
           (dreleased s), f, r)
    | _ =>
      let '(d, rest) := run_batch (dreleased s) f in
      (mkD w' (dflight s ++ opt_list rest) (dreleased s), d, r)
    end
  | GRelease v =>
    let rel := v :: dreleased s in
    let rs := map (resume rel v) (dflight s) in
    (mkD (dwheel s) (flat_map (fun dr => opt_list (snd dr)) rs) rel, concat (map fst rs), ROk)
  end.

Fixpoint grun (s : dstate) (ops : list gop) : list (fired * res) :=
  match ops with
  | [] => []
  | o :: ops' => let '(s', d, r) := gstep s o in (d, r) :: grun s' ops'
  end.

Fixpoint gfinal (s : dstate) (ops : list gop) : dstate :=
  match ops with
  | [] => s
  | o :: ops' => gfinal (fst (fst (gstep s o))) ops'
  end.

(* what the wheel underneath fires, per operation (nothing at a release) *)
Fixpoint gfired (w : W) (ops : list gop) : list fired :=
  match ops with
  | [] => []
  | GCall a :: ops' => let '(w', f, _) := stepf w a in f :: gfired w' ops'
  | GRelease _ :: ops' => [] :: gfired w ops'
  end.

(* Re-entrancy: a callback may call back into the wheel.  [react] maps a delivered
   (key, value) to the call its callback makes when it runs (values that react are not
   held; callbacks run by Drain do not react).  The calls of one step are made one after
   the other, in the order of the deliveries; each is an ordinary step of the layer. *)
Variable react : Z * Z -> option aop.

Fixpoint react_all (s : dstate) (d : fired) : dstate * fired * list aop :=
  match d with
  | [] => (s, [], [])
  | x :: d' =>
    match react x with
    | Some a =>
      let '(s1, d1, _) := gstep s (GCall a) in
      let '(s2, d2, e) := react_all s1 d' in
      (s2, d1 ++ d2, a :: e)
    | None => react_all s d'
    end
  end.

Definition is_drain (o : gop) : bool := match o with GCall ADrain => true | _ => false end.

(* one step with the calls made by its callbacks: deliveries, result, the calls made *)
Definition rstep (s : dstate) (o : gop) : dstate * fired * res * list aop :=
  let '(s1, d, r) := gstep s o in
  if is_drain o then (s1, d, r, [])
  else let '(s2, d2, e) := react_all s1 d in (s2, d ++ d2, r, e).

Fixpoint rrun (s : dstate) (ops : list gop) : list (fired * res * list aop) :=
  match ops with
  | [] => []
  | o :: ops' => let '(s', d, r, e) := rstep s o in (d, r, e) :: rrun s' ops'
  end.

(* the history as the wheel saw it: every operation followed by the calls its callbacks made *)
Fixpoint effective (s : dstate) (ops : list gop) : list gop :=
  match ops with
  | [] => []
  | o :: ops' => let '(s', _, _, e) := rstep s o in o :: map GCall e ++ effective s' ops'
  end.

(* tasks of the batches in flight that have not been started yet *)
Definition undelivered (s : dstate) : fired := concat (map (@tl (Z * Z)) (dflight s)).

End Deliver.

Arguments mkD {W} _ _ _.
Arguments dwheel {W} _.
Arguments dflight {W} _.
Arguments dreleased {W} _.

Definition calls (ops : list gop) : list aop :=
  flat_map (fun o => match o with GCall a => [a] | GRelease _ => [] end) ops.

(* the pointer-level wheel under the API (for the order of the callbacks inside a batch) *)
From GZ Require Import C12.Concrete.
Record acstate := mkAC { acclosed : bool; acst : cstate }.
Definition acinit (n i : Z) : acstate := mkAC false (cinit n i).
Definition acstep (a : acstate) (o : aop) : acstate * fired * res :=
  match o with
  | AStop => if acclosed a then (a, [], RPanic) else (mkAC true (acst a), [], ROk)
  | _ =>
    match request o with
    | None => (a, [], RErrArgument)
    | Some r =>
      if acclosed a then (a, [], RErrClosed)
      else let '(s', f) := cstep (acst a) r in (mkAC false s', f, ROk)
    end
  end.

(* multiset inclusion of sorted lists of pairs *)
Fixpoint sub_sorted (fuel : nat) (a b : list (Z * Z)) : bool :=
  match fuel with
  | O => match a with [] => true | _ => false end
  | S fuel' =>
    match a, b with
    | [], _ => true
    | _, [] => false
    | x :: a', y :: b' =>
      if pair_eqb x y then sub_sorted fuel' a' b'
      else if pair_leb y x then sub_sorted fuel' a b' else false
    end
  end.

Definition sub_pairs (a b : list (Z * Z)) : bool :=
  sub_sorted (length a + length b) (sort_pairs a) (sort_pairs b).

(* the property on observed deliveries [obs] against what the due-map fires [fs], per
   operation: nothing is delivered before it fired, and once every gate is open and
   nothing is held any more, everything that fired has been delivered exactly once *)
Fixpoint never_early (dacc facc : fired) (obs fs : list fired) : bool :=
  match obs, fs with
  | d :: obs', f :: fs' =>
    let dacc' := d ++ dacc in
    let facc' := f ++ facc in
    if sub_pairs dacc' facc' then never_early dacc' facc' obs' fs' else false
  | [], [] => true
  | _, _ => false
  end.

Definition released_all (hold : list Z) (ops : list gop) : bool :=
  forallb (fun v => existsb (fun o => match o with GRelease v' => v' =? v | _ => false end) ops) hold.
