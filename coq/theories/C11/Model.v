(* C11 — interleaving model (LTS) of core/executors/periodicalexecutor.go, with the
   bulk/chunk containers (bulkexecutor.go, chunkexecutor.go) abstracted as "a list of
   tasks plus an accumulated weight compared with a threshold".
   Executable definitions only; no proofs in this file.

   Threads: clients (goroutines calling Add/Flush/Wait), flushers (the goroutine
   started by backgroundFlush; a flusher that went idle keeps running its deferred
   Flush while a new one may already have been started).  Every mutex section,
   channel operation, atomic counter update and callback run is ONE atomic action.
   A schedule is a [list ev]; events that are not enabled are skipped (stutter).

   This is the protocol after the fix of finding F6 (go-zero commit "fix: periodical
   executor Wait returned before a batch handed over by a concurrent Add had run"):
   the flusher enters the execution BEFORE giving up inflight, and Wait blocks until
   inflight = 0 between its Flush and Guard(waitGroup.Wait).  The pre-fix protocol is
   kept in Pinned.v with its refutations. *)
From Coq Require Import List ZArith Bool.
Import ListNotations.
Open Scope Z_scope.

Definition task := Z.
Definition batch := list task.

(* ---- what RemoveAll hands out, as far as executeTasks looks at it --------------------
   TaskContainer is an exported interface: the value RemoveAll returns ("the batch") is an
   [any] of whatever type the container likes - a slice for the Bulk/Chunk executors and the
   sqlx/mon bulk inserters, an aggregate (struct, number, string, flag, pointer ...) for
   containers that coalesce their tasks (stat.Metrics).  executeTasks hands the batch to
   Execute iff hasTasks says so, and hasTasks looks at nothing but the reflect kind of the
   value and, for the four collection kinds, its length. *)
Inductive rkind :=
| KNil                                   (* the untyped nil interface: tasks == nil *)
| KArray | KChan | KMap | KSlice         (* the kinds hasTasks measures with Len() *)
| KStruct | KInt | KString | KBool | KPtr | KOther.   (* "unknown type" (default branch) *)

Record bval := mkBV
  { bv_kind : rkind;
    bv_len : Z;        (* reflect.Value.Len() for the collection kinds (0 otherwise) *)
    bv_zero : bool }.  (* reflect.Value.IsZero(): hasTasks does NOT look at it *)

Definition is_coll (k : rkind) : bool :=
  match k with KArray | KChan | KMap | KSlice => true | _ => false end.

(* (pe *PeriodicalExecutor).hasTasks *)
Definition has_tasks (v : bval) : bool :=
  match bv_kind v with
  | KNil => false
  | KArray | KChan | KMap | KSlice => 0 <? bv_len v
  | _ => true          (* unknown type, let caller execute it *)
  end.

Record config := mkCfg
  { maxw : Z;          (* bulk: maxTasks (every weight 1); chunk: maxChunkSize *)
    interval : Z;      (* flush interval, in clock units *)
    bad : list task;   (* a callback whose batch contains one of these tasks panics *)
    runs : batch -> bool
      (* does executeTasks call Execute for the batch that holds exactly these tasks?
         For a container that renders a task list h as the Go value [sh h] this is
         [has_tasks (sh h)] ([container_cfg]); the slice containers give [nonempty]. *) }.

Definition nonempty (h : batch) : bool := match h with [] => false | _ => true end.

(* a container described by how its RemoveAll renders the tasks it removes *)
Definition container_cfg (mw iv : Z) (bd : list task) (sh : batch -> bval) : config :=
  mkCfg mw iv bd (fun h => has_tasks (sh h)).

(* bulkContainer / chunkContainer / dbInserter: a slice of the tasks (nil when nothing was added) *)
Definition slice_shape (h : batch) : bval :=
  mkBV KSlice (Z.of_nat (length h)) (negb (nonempty h)).

Definition idleRound : Z := 10.

(* CSync: Sync(fn) — fn runs under the executor's lock; it is the caller's code (it may look at
   the container, e.g. BulkInserter sets fields of its dbInserter) and changes nothing here *)
Inductive call := CAdd (t : task) (w : Z) | CFlush | CWait | CSync.

(* program counter inside (pe *PeriodicalExecutor).Flush, whoever runs it *)
Inductive fpc :=
| FEnter                 (* before enterExecution (barrier; waitGroup.Add(1)) *)
| FRemove                (* before lock; RemoveAll; unlock *)
| FExec (h : batch)      (* before executeTasks' callback on h (skipped if h empty) *)
| FDone (ok : bool)      (* before waitGroup.Done *)
| FRet (ok : bool).      (* returned *)

Inductive cpc :=
| CIdle
| CAddLock (t : task) (w : Z)    (* before addAndCheck *)
| CAddSend (h : batch)           (* removed the batch, before commander <- h *)
| CAddConfirm                    (* before <-confirmChan *)
| CFl (f : fpc) (w : bool)       (* inside Flush; w: called from Wait *)
| CWSpin                         (* Wait: blocked on inflightCond until inflight = 0 *)
| CWGuard                        (* before wgBarrier lock *)
| CWWait                         (* holds the barrier, inside waitGroup.Wait *)
| CSyncRun.                      (* Sync: before lock; fn(); unlock *)

Inductive bpc :=
| BStart                                  (* goroutine created; before newTicker *)
| BSelect (commanded : bool) (last : Z)
| BGot (h : batch) (last : Z)             (* received h; before enterExecution *)
| BDec (h : batch)                        (* entered; before lock, inflight--, Broadcast, unlock *)
| BConfirm (h : batch)                    (* before confirmChan <- *)
| BExec (h : batch)                       (* before the callback on h *)
| BDone                                   (* before waitGroup.Done *)
| BTick (f : fpc) (last : Z)              (* Flush on a tick *)
| BQuit (last : Z)                        (* before shallQuit *)
| BStop                                   (* decided to quit (guarded cleared); before/inside ticker.Stop() *)
| BExit (f : fpc)                         (* ticker stopped; deferred Flush *)
| BDead.

Record state := mkSt
  { cont : batch; csize : Z;              (* container *)
    cmd : option batch;                   (* commander channel, capacity 1 *)
    inflight : Z; guarded : bool;
    wg : Z;                               (* waitGroup counter *)
    barrier : bool;                       (* wgBarrier held (by a Wait caller) *)
    tick : bool;                          (* a tick is pending in the live ticker's channel *)
    now : Z;
    cl : list cpc; fl : list bpc;
    executed : list batch;                (* batches whose callback returned normally *)
    lost : list batch;                    (* batches whose callback panicked *)
    accepted : list task }.               (* tasks that went through addAndCheck *)

Definition init (nclients : nat) : state :=
  mkSt [] 0 None 0 false 0 false false 1000000 (repeat CIdle nclients) [] [] [] [].

Inductive ev :=
| EvCall (c : nat) (k : call)    (* client c (idle) starts a call *)
| EvC (c : nat)                  (* client c performs its next atomic action *)
| EvB (b : nat) (alt : bool)     (* flusher b performs its next action; in select, alt = take the tick *)
| EvTick                         (* the ticker fires *)
| EvClock (d : Z).               (* time passes *)

(* ---- field updates ---- *)
Definition set_cl (s : state) (x : list cpc) : state :=
  mkSt (cont s) (csize s) (cmd s) (inflight s) (guarded s) (wg s) (barrier s) (tick s) (now s)
       x (fl s) (executed s) (lost s) (accepted s).
Definition set_fl (s : state) (x : list bpc) : state :=
  mkSt (cont s) (csize s) (cmd s) (inflight s) (guarded s) (wg s) (barrier s) (tick s) (now s)
       (cl s) x (executed s) (lost s) (accepted s).
Definition set_cont (s : state) (c : batch) (z : Z) : state :=
  mkSt c z (cmd s) (inflight s) (guarded s) (wg s) (barrier s) (tick s) (now s)
       (cl s) (fl s) (executed s) (lost s) (accepted s).
Definition set_cmd (s : state) (x : option batch) : state :=
  mkSt (cont s) (csize s) x (inflight s) (guarded s) (wg s) (barrier s) (tick s) (now s)
       (cl s) (fl s) (executed s) (lost s) (accepted s).
Definition set_inflight (s : state) (x : Z) : state :=
  mkSt (cont s) (csize s) (cmd s) x (guarded s) (wg s) (barrier s) (tick s) (now s)
       (cl s) (fl s) (executed s) (lost s) (accepted s).
Definition set_guarded (s : state) (x : bool) : state :=
  mkSt (cont s) (csize s) (cmd s) (inflight s) x (wg s) (barrier s) (tick s) (now s)
       (cl s) (fl s) (executed s) (lost s) (accepted s).
Definition set_wg (s : state) (x : Z) : state :=
  mkSt (cont s) (csize s) (cmd s) (inflight s) (guarded s) x (barrier s) (tick s) (now s)
       (cl s) (fl s) (executed s) (lost s) (accepted s).
Definition set_barrier (s : state) (x : bool) : state :=
  mkSt (cont s) (csize s) (cmd s) (inflight s) (guarded s) (wg s) x (tick s) (now s)
       (cl s) (fl s) (executed s) (lost s) (accepted s).
Definition set_tick (s : state) (x : bool) : state :=
  mkSt (cont s) (csize s) (cmd s) (inflight s) (guarded s) (wg s) (barrier s) x (now s)
       (cl s) (fl s) (executed s) (lost s) (accepted s).
Definition set_now (s : state) (x : Z) : state :=
  mkSt (cont s) (csize s) (cmd s) (inflight s) (guarded s) (wg s) (barrier s) (tick s) x
       (cl s) (fl s) (executed s) (lost s) (accepted s).
Definition add_executed (s : state) (h : batch) : state :=
  mkSt (cont s) (csize s) (cmd s) (inflight s) (guarded s) (wg s) (barrier s) (tick s) (now s)
       (cl s) (fl s) (executed s ++ [h]) (lost s) (accepted s).
Definition add_lost (s : state) (h : batch) : state :=
  mkSt (cont s) (csize s) (cmd s) (inflight s) (guarded s) (wg s) (barrier s) (tick s) (now s)
       (cl s) (fl s) (executed s) (lost s ++ [h]) (accepted s).
Definition add_accepted (s : state) (t : task) : state :=
  mkSt (cont s) (csize s) (cmd s) (inflight s) (guarded s) (wg s) (barrier s) (tick s) (now s)
       (cl s) (fl s) (executed s) (lost s) (accepted s ++ [t]).

Fixpoint upd {A} (l : list A) (n : nat) (x : A) : list A :=
  match l, n with
  | [], _ => []
  | _ :: l', O => x :: l'
  | y :: l', S n' => y :: upd l' n' x
  end.

Definition panics (cfg : config) (h : batch) : bool :=
  existsb (fun t => existsb (Z.eqb t) (bad cfg)) h.

(* the callback (container.Execute under threading.RunSafe) *)
Definition callback (cfg : config) (s : state) (h : batch) : state :=
  if panics cfg h then add_lost s h else add_executed s h.

(* one atomic action of Flush at program counter f *)
Definition fstep (cfg : config) (s : state) (f : fpc) : option (state * fpc) :=
  match f with
  | FEnter => if barrier s then None else Some (set_wg s (wg s + 1), FRemove)
  | FRemove => Some (set_cont s [] 0, FExec (cont s))
  | FExec h => (* executeTasks: ok := hasTasks(batch); if ok { RunSafe(Execute(batch)) } *)
               if runs cfg h then Some (callback cfg s h, FDone true)
               else Some (s, FDone false)
  | FDone ok => Some (set_wg s (wg s - 1), FRet ok)
  | FRet _ => None
  end.

(* index of the flusher that is at `confirmChan <-` *)
Fixpoint find_confirm (l : list bpc) (i : nat) : option (nat * batch) :=
  match l with
  | [] => None
  | BConfirm h :: _ => Some (i, h)
  | _ :: l' => find_confirm l' (S i)
  end.

Definition cstep (cfg : config) (s : state) (c : nat) : option state :=
  match nth_error (cl s) c with
  | None => None
  | Some pc =>
    let goto (s' : state) (pc' : cpc) := Some (set_cl s' (upd (cl s') c pc')) in
    match pc with
    | CIdle => None
    | CAddLock t w =>
      (* addAndCheck: lock; AddTask; maybe RemoveAll + inflight++; start the flusher if unguarded *)
      let s1 := add_accepted s t in
      let s2 := if guarded s1 then s1 else set_fl (set_guarded s1 true) (fl s1 ++ [BStart]) in
      let c' := cont s2 ++ [t] in
      let z' := csize s2 + w in
      if maxw cfg <=? z'
      then goto (set_inflight (set_cont s2 [] 0) (inflight s2 + 1)) (CAddSend c')
      else goto (set_cont s2 c' z') CIdle
    | CAddSend h =>
      match cmd s with
      | None => goto (set_cmd s (Some h)) CAddConfirm
      | Some _ => None
      end
    | CAddConfirm =>
      match find_confirm (fl s) 0 with
      | Some (b, h) => goto (set_fl s (upd (fl s) b (BExec h))) CIdle
      | None => None
      end
    | CFl f w =>
      match fstep cfg s f with
      | None => None
      | Some (s', FRet _) =>
        if w then goto s' CWSpin else goto s' CIdle
      | Some (s', f') => goto s' (CFl f' w)
      end
    | CWSpin => if inflight s =? 0 then goto s CWGuard else None
    | CWGuard => if barrier s then None else goto (set_barrier s true) CWWait
    | CWWait => if wg s =? 0 then goto (set_barrier s false) CIdle else None
    | CSyncRun => goto s CIdle
    end
  end.

Definition call_step (s : state) (c : nat) (k : call) : option state :=
  match nth_error (cl s) c with
  | Some CIdle =>
    Some (set_cl s (upd (cl s) c
      match k with
      | CAdd t w => CAddLock t w
      | CFlush => CFl FEnter false
      | CWait => CFl FEnter true
      | CSync => CSyncRun
      end))
  | _ => None
  end.

Definition bstep (cfg : config) (s : state) (b : nat) (alt : bool) : option state :=
  match nth_error (fl s) b with
  | None => None
  | Some pc =>
    let goto (s' : state) (pc' : bpc) := Some (set_fl s' (upd (fl s') b pc')) in
    match pc with
    | BStart => goto (set_tick s false) (BSelect false (now s))
    | BSelect commanded last =>
      if alt then
        if tick s then
          let s1 := set_tick s false in
          if commanded then goto s1 (BSelect false last) else goto s1 (BTick FEnter last)
        else None
      else
        match cmd s with
        | Some h => goto (set_cmd s None) (BGot h last)
        | None => None
        end
    | BGot h last =>
      if barrier s then None else goto (set_wg s (wg s + 1)) (BDec h)
    | BDec h => goto (set_inflight s (inflight s - 1)) (BConfirm h)
    | BConfirm _ => None      (* rendezvous: performed by the receiving client's action *)
    | BExec h => if runs cfg h then goto (callback cfg s h) BDone else goto s BDone
    | BDone => goto (set_wg s (wg s - 1)) (BSelect true (now s))
    | BTick f last =>
      match fstep cfg s f with
      | None => None
      | Some (s', FRet ok) => if ok then goto s' (BSelect false (now s')) else goto s' (BQuit last)
      | Some (s', f') => goto s' (BTick f' last)
      end
    | BQuit last =>
      if now s - last <=? interval cfg * idleRound then goto s (BSelect false last)
      else if inflight s =? 0 then goto (set_guarded s false) BStop
      else goto s (BSelect false last)
    | BStop => goto s (BExit FEnter)
    | BExit f =>
      match fstep cfg s f with
      | None => None
      | Some (s', FRet _) => goto s' BDead
      | Some (s', f') => goto s' (BExit f')
      end
    | BDead => None
    end
  end.

(* the flusher whose ticker is live (created and not stopped) *)
Definition ticker_live (p : bpc) : bool :=
  match p with
  | BStart | BExit _ | BDead => false
  | _ => true
  end.

Definition step (cfg : config) (s : state) (e : ev) : option state :=
  match e with
  | EvCall c k => call_step s c k
  | EvC c => cstep cfg s c
  | EvB b alt => bstep cfg s b alt
  | EvTick => if existsb ticker_live (fl s) then Some (set_tick s true) else None
  | EvClock d => if 0 <=? d then Some (set_now s (now s + d)) else None
  end.

(* disabled events stutter, so every [list ev] is a schedule *)
Definition exec (cfg : config) (s : state) (e : ev) : state :=
  match step cfg s e with Some s' => s' | None => s end.

Definition run (cfg : config) (s : state) (sched : list ev) : state :=
  fold_left (exec cfg) sched s.

(* ---- where tasks are ---- *)
Definition fhand (f : fpc) : batch := match f with FExec h => h | _ => [] end.

(* hands that are not yet covered by the waitGroup (threshold batch handed over) *)
Definition chand_un (p : cpc) : batch := match p with CAddSend h => h | _ => [] end.
Definition bhand_un (p : bpc) : batch := match p with BGot h _ => h | _ => [] end.
(* hands covered by the waitGroup (the holder did waitGroup.Add and not yet Done) *)
Definition chand_en (p : cpc) : batch := match p with CFl f _ => fhand f | _ => [] end.
Definition bhand_en (p : bpc) : batch :=
  match p with
  | BDec h | BConfirm h | BExec h => h
  | BTick f _ | BExit f => fhand f
  | _ => []
  end.

Definition cmd_l (s : state) : batch := match cmd s with Some h => h | None => [] end.

Definition unentered (s : state) : batch :=
  flat_map chand_un (cl s) ++ cmd_l s ++ flat_map bhand_un (fl s).
Definition entered (s : state) : batch :=
  flat_map chand_en (cl s) ++ flat_map bhand_en (fl s).
Definition places (s : state) : batch := cont s ++ unentered s ++ entered s.
Definition done_tasks (s : state) : batch := concat (executed s) ++ concat (lost s).

(* ------------------------------------------------------------------ *)
(* The buffers of the containers (bulkContainer.tasks, chunkContainer.tasks, dbInserter.values):
   Go slices over backing arrays.  A heap is the list of all backing arrays ever allocated (a
   cell's length is its capacity, unused capacity holds garbage); a slice is (array, length);
   nil is None.  append writes in place while there is capacity and otherwise copies into a
   NEW array (gr: how much spare capacity the runtime adds — any function). *)
Record slice := mkSl { sl_arr : nat; sl_len : nat }.
Definition heap := list (list task).

Definition view (hp : heap) (sl : slice) : list task :=
  firstn (sl_len sl) (nth (sl_arr sl) hp []).

Definition append (gr : nat -> nat) (hp : heap) (o : option slice) (t : task) : heap * slice :=
  match o with
  | Some sl =>
    let a := nth (sl_arr sl) hp [] in
    if Nat.ltb (sl_len sl) (length a)
    then (upd hp (sl_arr sl) (upd a (sl_len sl) t), mkSl (sl_arr sl) (S (sl_len sl)))
    else (hp ++ [firstn (sl_len sl) a ++ t :: repeat 0 (gr (sl_len sl))], mkSl (length hp) (S (sl_len sl)))
  | None => (hp ++ [t :: repeat 0 (gr O)], mkSl (length hp) 1%nat)
  end.

Record bufc := mkBuf
  { b_heap : heap;
    b_cur : option slice;      (* the container's collecting slice *)
    b_spare : option slice;    (* used by the pinned buffer-swapping variant only *)
    b_out : list slice }.      (* the batches RemoveAll has returned, oldest first *)

Definition buf_init : bufc := mkBuf [] None None [].

Inductive bop := BAdd (t : task) | BRemoveAll.

(* AddTask: tasks = append(tasks, task);  RemoveAll: tasks := bc.tasks; bc.tasks = nil; return tasks *)
Definition buf_step (gr : nat -> nat) (st : bufc) (o : bop) : bufc :=
  match o with
  | BAdd t => let '(hp, sl) := append gr (b_heap st) (b_cur st) t in
              mkBuf hp (Some sl) (b_spare st) (b_out st)
  | BRemoveAll => match b_cur st with
                  | Some sl => mkBuf (b_heap st) None (b_spare st) (b_out st ++ [sl])
                  | None => st
                  end
  end.

Definition buf_run (gr : nat -> nat) (st : bufc) (ops : list bop) : bufc :=
  fold_left (buf_step gr) ops st.

Definition cur_view (st : bufc) : list task :=
  match b_cur st with Some sl => view (b_heap st) sl | None => [] end.
Fixpoint added (ops : list bop) : list task :=
  match ops with [] => [] | BAdd t :: r => t :: added r | BRemoveAll :: r => added r end.
