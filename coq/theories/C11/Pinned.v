(* C11 — refutations (finding F6, DESIGN.md §5): for the code as it is, "Wait returns
   only after the callbacks for all tasks added before it have returned" is false.
   Witness schedules are evaluated with vm_compute; the first one is replayed on the
   real BulkExecutor / ChunkExecutor / PeriodicalExecutor by the correspondence run
   (corpus of tools/props/c11.py). *)
From Coq Require Import List ZArith Bool.
From GZ Require Import C11.Model C11.ProofsA C11.Proofs.
Import ListNotations.
Open Scope Z_scope.

Definition cfg2 (p : bool) : config := mkCfg 2 1000 [] p.

(* Add 1, Add 2 (threshold: handed over, confirmed, flusher about to run the callback
   on [1;2]); Add 3 returns (container = [3]); client 1: Add 4 removes [3;4] under the
   lock, puts it into the commander channel and waits for the confirmation. *)
Definition f6_pre : list ev :=
  [EvCall 0 (CAdd 1 1); EvC 0; EvB 0 false;
   EvCall 0 (CAdd 2 1); EvC 0; EvC 0; EvB 0 false; EvB 0 false; EvC 0;
   EvCall 0 (CAdd 3 1); EvC 0;
   EvCall 1 (CAdd 4 1); EvC 1; EvC 1].
(* client 2 calls Wait: its Flush finds the container empty; it takes the barrier and
   waits for the waitGroup; the flusher's callback on [1;2] returns; Wait returns. *)
Definition f6_mid : list ev :=
  [EvC 2; EvC 2; EvC 2; EvC 2; EvC 2; EvB 0 false; EvB 0 false; EvC 2].

Lemma no_call_of_evc w l :
  forallb (fun e => match e with EvCall c _ => negb (Nat.eqb c w) | _ => true end) l = true ->
  no_call_of w l.
Proof.
  intros H. apply Forall_forall. intros e He kk ->.
  rewrite forallb_forall in H. specialize (H _ He). cbn in H. rewrite Nat.eqb_refl in H. discriminate.
Qed.

Theorem wait_covers_prior_adds_refuted :
  exists cfg n pre w mid,
    patched cfg = false /\
    let s0 := run cfg (init n) pre in
    let s1 := run cfg s0 (EvCall w CWait :: mid) in
    nth_error (cl s0) w = Some CIdle /\ no_call_of w mid /\
    nth_error (cl s1) w = Some CIdle /\
    exists a, In a (accepted s0) /\
              nth_error (cl s0) 0%nat = Some CIdle (* the Add of a had returned *) /\
              ~ In a (done_tasks s1).
Proof.
  exists (cfg2 false), 3%nat, f6_pre, 2%nat, f6_mid. split; [reflexivity|].
  cbv zeta. split; [vm_compute; reflexivity|]. split; [apply no_call_of_evc; reflexivity|].
  split; [vm_compute; reflexivity|].
  exists 3. split; [vm_compute; tauto|]. split; [vm_compute; reflexivity|].
  vm_compute. intros [H|[H|[]]]; discriminate.
Qed.

Example f6_state_at_wait_start :
  let s0 := run (cfg2 false) (init 3) f6_pre in
  cont s0 = [] /\ cmd s0 = Some [3; 4] /\ inflight s0 = 1 /\ unentered s0 = [3; 4] /\
  fl s0 = [BExec [1; 2]].
Proof. vm_compute. repeat split; reflexivity. Qed.

(* with the candidate repair the same schedule (one more flusher action: inflight-- is
   now separate) does not let Wait return: it waits for inflight = 0 *)
Definition f6_pre_p : list ev :=
  [EvCall 0 (CAdd 1 1); EvC 0; EvB 0 false;
   EvCall 0 (CAdd 2 1); EvC 0; EvC 0; EvB 0 false; EvB 0 false; EvB 0 false; EvC 0;
   EvCall 0 (CAdd 3 1); EvC 0;
   EvCall 1 (CAdd 4 1); EvC 1; EvC 1].
Example f6_schedule_patched_blocks :
  let s1 := run (cfg2 true) (init 3) (f6_pre_p ++ EvCall 2 CWait :: f6_mid) in
  nth_error (cl s1) 2%nat = Some CWSpin /\ inflight s1 = 1 /\ executed s1 = [[1; 2]].
Proof. vm_compute. repeat split; reflexivity. Qed.

(* Requiring the hand-over hypothesis only at the moment the Wait starts is not enough:
   client 3 is inside a Flush callback, client 1's Wait holds the barrier; Add 2 returns;
   client 2 starts Wait (blocked at enterExecution, nothing handed over at that moment);
   then Add 3 removes [2;3] and hands it over; the callbacks finish, Wait 1 returns, and
   Wait 2 flushes an empty container and returns while [2;3] is still in the flusher's
   hand. *)
Definition f6b_pre : list ev :=
  [EvCall 0 (CAdd 1 1); EvC 0; EvB 0 false;
   EvCall 3 CFlush; EvC 3; EvC 3;
   EvCall 1 CWait; EvC 1; EvC 1; EvC 1; EvC 1; EvC 1;
   EvCall 0 (CAdd 2 1); EvC 0].
Definition f6b_mid : list ev :=
  [EvCall 0 (CAdd 3 1); EvC 0; EvC 0; EvB 0 false;
   EvC 3; EvC 3; EvC 1;
   EvC 2; EvC 2; EvC 2; EvC 2; EvC 2; EvC 2].

Theorem wait_start_hypothesis_insufficient :
  exists cfg n pre w mid,
    patched cfg = false /\
    let s0 := run cfg (init n) pre in
    let s1 := run cfg s0 (EvCall w CWait :: mid) in
    nth_error (cl s0) w = Some CIdle /\ no_call_of w mid /\
    unentered s0 = [] /\
    nth_error (cl s1) w = Some CIdle /\
    exists a, In a (accepted s0) /\ nth_error (cl s0) 0%nat = Some CIdle /\
              ~ In a (done_tasks s1).
Proof.
  exists (cfg2 false), 4%nat, f6b_pre, 2%nat, f6b_mid. split; [reflexivity|].
  cbv zeta. split; [vm_compute; reflexivity|]. split; [apply no_call_of_evc; reflexivity|].
  split; [vm_compute; reflexivity|]. split; [vm_compute; reflexivity|].
  exists 2. split; [vm_compute; tauto|]. split; [vm_compute; reflexivity|].
  vm_compute. intros [H|[]]; discriminate.
Qed.
