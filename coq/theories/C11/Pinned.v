(* C11 — the protocol as it was before the fix of finding F6 (DESIGN.md §5; go-zero commit
   "fix: periodical executor Wait returned before a batch handed over by a concurrent Add
   had run"), kept to document the defect.  It differs from Model.v in three actions:
   the flusher decrements inflight when it RECEIVES the batch (before enterExecution), goes
   from enterExecution straight to the confirmation, and Wait goes from its Flush straight to
   the barrier (no wait for inflight = 0).  For this protocol "Wait returns only after the
   callbacks for all tasks added before it have returned" is refuted by concrete schedules
   (vm_compute); the first one was replayed on the real BulkExecutor / ChunkExecutor /
   PeriodicalExecutor before the fix and is now a regression case of the correspondence run
   (corpus of tools/props/c11.py: reverting the fix makes ./check C11 fail on it). *)
From Coq Require Import List ZArith Bool.
From GZ Require Import C11.Model C11.ProofsA C11.Proofs C11.Containers C11.ProofsC.
Import ListNotations.
Open Scope Z_scope.

Definition pinned_cstep (cfg : config) (s : state) (c : nat) : option state :=
  match nth_error (cl s) c with
  | Some (CFl (FDone ok) true) =>
    (* waitGroup.Done of Wait's Flush, then directly to the barrier *)
    Some (set_cl (set_wg s (wg s - 1)) (upd (cl s) c CWGuard))
  | _ => cstep cfg s c
  end.

Definition pinned_bstep (cfg : config) (s : state) (b : nat) (alt : bool) : option state :=
  match nth_error (fl s) b with
  | Some (BSelect commanded last) =>
    if alt then bstep cfg s b alt
    else match cmd s with
         | Some h => Some (set_fl (set_inflight (set_cmd s None) (inflight s - 1))
                                  (upd (fl s) b (BGot h last)))
         | None => None
         end
  | Some (BGot h last) =>
    if barrier s then None
    else Some (set_fl (set_wg s (wg s + 1)) (upd (fl s) b (BConfirm h)))
  | _ => bstep cfg s b alt
  end.

Definition pinned_step (cfg : config) (s : state) (e : ev) : option state :=
  match e with
  | EvC c => pinned_cstep cfg s c
  | EvB b alt => pinned_bstep cfg s b alt
  | _ => step cfg s e
  end.

Definition pinned_exec (cfg : config) (s : state) (e : ev) : state :=
  match pinned_step cfg s e with Some s' => s' | None => s end.
Definition pinned_run (cfg : config) (s : state) (sched : list ev) : state :=
  fold_left (pinned_exec cfg) sched s.

Definition cfg2 : config := mkCfg 2 1000 [] nonempty.

(* Add 1, Add 2 (threshold: handed over, confirmed, flusher about to run the callback
   on [1;2]); Add 3 returns (container = [3]); client 1: Add 4 removes [3;4] under the
   lock, puts it into the commander channel and waits for the confirmation. *)
Definition f6_pre : list ev :=
  [EvCall 0 (CAdd 1 1); EvC 0; EvB 0 false;
   EvCall 0 (CAdd 2 1); EvC 0; EvC 0; EvB 0 false; EvB 0 false; EvC 0;
   EvCall 0 (CAdd 3 1); EvC 0;
   EvCall 1 (CAdd 4 1); EvC 1; EvC 1].
(* client 2 calls Wait: its Flush finds the container empty; it takes the barrier and
   waits for the waitGroup; the flusher's callback on [1;2] returns; Wait returns. *)
Definition f6_mid : list ev :=
  [EvC 2; EvC 2; EvC 2; EvC 2; EvC 2; EvB 0 false; EvB 0 false; EvC 2].

Lemma no_call_of_evc w l :
  forallb (fun e => match e with EvCall c _ => negb (Nat.eqb c w) | _ => true end) l = true ->
  no_call_of w l.
Proof.
  intros H. apply Forall_forall. intros e He kk ->.
  rewrite forallb_forall in H. specialize (H _ He). cbn in H. rewrite Nat.eqb_refl in H. discriminate.
Qed.

Theorem wait_covers_prior_adds_refuted :
  exists cfg n pre w mid,
    let s0 := pinned_run cfg (init n) pre in
    let s1 := pinned_run cfg s0 (EvCall w CWait :: mid) in
    nth_error (cl s0) w = Some CIdle /\ no_call_of w mid /\
    nth_error (cl s1) w = Some CIdle /\
    exists a, In a (accepted s0) /\
              nth_error (cl s0) 0%nat = Some CIdle (* the Add of a had returned *) /\
              ~ In a (done_tasks s1).
Proof.
  exists cfg2, 3%nat, f6_pre, 2%nat, f6_mid.
  cbv zeta. split; [vm_compute; reflexivity|]. split; [apply no_call_of_evc; reflexivity|].
  split; [vm_compute; reflexivity|].
  exists 3. split; [vm_compute; tauto|]. split; [vm_compute; reflexivity|].
  vm_compute. intros [H|[H|[]]]; discriminate.
Qed.

Example f6_state_at_wait_start :
  let s0 := pinned_run cfg2 (init 3) f6_pre in
  cont s0 = [] /\ cmd s0 = Some [3; 4] /\ inflight s0 = 1 /\ unentered s0 = [3; 4] /\
  fl s0 = [BExec [1; 2]].
Proof. vm_compute. repeat split; reflexivity. Qed.

(* in the fixed protocol the same schedule (one more flusher action: inflight-- is now a
   separate action after enterExecution) does not let Wait return: it waits for inflight = 0 *)
Definition f6_pre_fixed : list ev :=
  [EvCall 0 (CAdd 1 1); EvC 0; EvB 0 false;
   EvCall 0 (CAdd 2 1); EvC 0; EvC 0; EvB 0 false; EvB 0 false; EvB 0 false; EvC 0;
   EvCall 0 (CAdd 3 1); EvC 0;
   EvCall 1 (CAdd 4 1); EvC 1; EvC 1].
Example f6_schedule_fixed_blocks :
  let s1 := run cfg2 (init 3) (f6_pre_fixed ++ EvCall 2 CWait :: f6_mid) in
  nth_error (cl s1) 2%nat = Some CWSpin /\ inflight s1 = 1 /\ executed s1 = [[1; 2]].
Proof. vm_compute. repeat split; reflexivity. Qed.

(* Before the fix, requiring that nothing is handed over at the moment the Wait starts was
   not enough either: client 3 is inside a Flush callback, client 1's Wait holds the barrier;
   Add 2 returns; client 2 starts Wait (blocked at enterExecution, nothing handed over at
   that moment); then Add 3 removes [2;3] and hands it over; the callbacks finish, Wait 1
   returns, and Wait 2 flushes an empty container and returns while [2;3] is still in the
   flusher's hand. *)
Definition f6b_pre : list ev :=
  [EvCall 0 (CAdd 1 1); EvC 0; EvB 0 false;
   EvCall 3 CFlush; EvC 3; EvC 3;
   EvCall 1 CWait; EvC 1; EvC 1; EvC 1; EvC 1; EvC 1;
   EvCall 0 (CAdd 2 1); EvC 0].
Definition f6b_mid : list ev :=
  [EvCall 0 (CAdd 3 1); EvC 0; EvC 0; EvB 0 false;
   EvC 3; EvC 3; EvC 1;
   EvC 2; EvC 2; EvC 2; EvC 2; EvC 2; EvC 2].

Theorem wait_start_hypothesis_insufficient :
  exists cfg n pre w mid,
    let s0 := pinned_run cfg (init n) pre in
    let s1 := pinned_run cfg s0 (EvCall w CWait :: mid) in
    nth_error (cl s0) w = Some CIdle /\ no_call_of w mid /\
    unentered s0 = [] /\
    nth_error (cl s1) w = Some CIdle /\
    exists a, In a (accepted s0) /\ nth_error (cl s0) 0%nat = Some CIdle /\
              ~ In a (done_tasks s1).
Proof.
  exists cfg2, 4%nat, f6b_pre, 2%nat, f6b_mid.
  cbv zeta. split; [vm_compute; reflexivity|]. split; [apply no_call_of_evc; reflexivity|].
  split; [vm_compute; reflexivity|]. split; [vm_compute; reflexivity|].
  exists 2. split; [vm_compute; tauto|]. split; [vm_compute; reflexivity|].
  vm_compute. intros [H|[]]; discriminate.
Qed.

(* ------------------------------------------------------------------ *)
(* Seeded changes C11-1 / C11-2: the flusher does NOT clear [guarded] in the critical section in
   which it decides to quit (shallQuit only reports inflight = 0); guarded is cleared by a later,
   separate lock section — right after ticker.Stop() returns (C11-1: deferred unguard()) or after
   the deferred Flush (C11-2).  An Add that reaches the threshold between the decision and that
   later section still sees guarded = true, starts no flusher and hands its batch to a commander
   channel that nobody reads any more. *)

Definition quit_keep_guard (cfg : config) (s : state) (b : nat) (last : Z) : option state :=
  if now s - last <=? interval cfg * idleRound then Some (set_fl s (upd (fl s) b (BSelect false last)))
  else if inflight s =? 0 then Some (set_fl s (upd (fl s) b BStop))      (* guarded stays true *)
  else Some (set_fl s (upd (fl s) b (BSelect false last))).

(* C11-1: ticker.Stop() returns, then the deferred unguard() (one lock section), then the deferred Flush *)
Definition late1_bstep (cfg : config) (s : state) (b : nat) (alt : bool) : option state :=
  match nth_error (fl s) b with
  | Some (BQuit last) => quit_keep_guard cfg s b last
  | Some BStop => Some (set_fl (set_guarded s false) (upd (fl s) b (BExit FEnter)))
  | _ => bstep cfg s b alt
  end.

(* C11-2: guarded is cleared after the deferred Flush has returned *)
Definition late2_bstep (cfg : config) (s : state) (b : nat) (alt : bool) : option state :=
  match nth_error (fl s) b with
  | Some (BQuit last) => quit_keep_guard cfg s b last
  | Some (BExit (FDone ok)) =>
    Some (set_fl (set_guarded (set_wg s (wg s - 1)) false) (upd (fl s) b BDead))
  | _ => bstep cfg s b alt
  end.

Section Variant.
Variable bs : config -> state -> nat -> bool -> option state.
Definition vstep (cfg : config) (s : state) (e : ev) : option state :=
  match e with
  | EvB b alt => bs cfg s b alt
  | _ => step cfg s e
  end.
Definition vexec (cfg : config) (s : state) (e : ev) : state :=
  match vstep cfg s e with Some s' => s' | None => s end.
Definition vrun (cfg : config) (s : state) (sched : list ev) : state :=
  fold_left (vexec cfg) sched s.
End Variant.

(* Add 1 starts the flusher; a tick flushes [1]; more than idleRound intervals later a tick finds
   nothing to flush and the flusher decides to quit (it is inside ticker.Stop(), guarded still
   true); client 1 adds 2 (returns) and 3 (threshold: [2;3] goes to the commander channel, the
   client waits for the confirmation); the flusher finishes its exit. *)
Definition late_sched : list ev :=
  [EvCall 0 (CAdd 1 1); EvC 0; EvB 0 false;
   EvTick; EvB 0 true; EvB 0 false; EvB 0 false; EvB 0 false; EvB 0 false;
   EvClock 20000; EvTick; EvB 0 true; EvB 0 false; EvB 0 false; EvB 0 false; EvB 0 false;
   EvB 0 false;                                           (* the quit decision *)
   EvCall 1 (CAdd 2 1); EvC 1;
   EvCall 1 (CAdd 3 1); EvC 1; EvC 1;
   EvB 0 false; EvB 0 false; EvB 0 false; EvB 0 false; EvB 0 false].

(* where both variants end up (t: the clock) *)
Definition stranded (t : Z) : state :=
  mkSt [] 0 (Some [2; 3]) 1 false 0 false false t [CIdle; CAddConfirm] [BDead] [[1]] [] [1; 2; 3].

Definition not_call (e : ev) : Prop := forall c k, e <> EvCall c k.

Lemma stranded_frozen bs : bs = late1_bstep \/ bs = late2_bstep ->
  forall t e, not_call e -> exists t', vexec bs cfg2 (stranded t) e = stranded t'.
Proof.
  intros Hbs t e Hnc. destruct e as [c k|c|b alt| |d].
  - exfalso. exact (Hnc c k eq_refl).
  - exists t. destruct c as [|[|[|c]]]; reflexivity.
  - exists t. destruct Hbs as [-> | ->]; destruct b as [|[|b]]; reflexivity.
  - exists t. reflexivity.
  - unfold vexec, vstep, step. destruct (0 <=? d); [exists (t + d) | exists t]; reflexivity.
Qed.

Lemma stranded_forever bs : bs = late1_bstep \/ bs = late2_bstep ->
  forall mid t, Forall not_call mid -> exists t', vrun bs cfg2 (stranded t) mid = stranded t'.
Proof.
  intros Hbs mid. induction mid as [|e mid IH]; intros t Hf; [exists t; reflexivity|].
  inversion Hf as [|? ? He Hf']; subst.
  destruct (stranded_frozen bs Hbs t e He) as [t1 H1].
  destruct (IH t1 Hf') as [t2 H2]. exists t2. cbn [vrun fold_left]. fold (vrun bs cfg2). rewrite H1. exact H2.
Qed.

(* With either variant: tasks 2 and 3 were accepted (the Add of 2 has returned), no flusher is
   alive, guarded is false, the batch [2;3] sits in the commander channel and — whatever happens
   afterwards short of a new call (ticks, clock, any thread's actions) — it is never executed and
   the Add of 3 never returns.  In particular [restart_safe] and the drain of the correspondence
   run fail for these variants. *)
Theorem late_unguard_refuted : forall bs, bs = late1_bstep \/ bs = late2_bstep ->
  exists sched,
    let s := vrun bs cfg2 (init 2) sched in
    guarded s = false /\ cmd s = Some [2; 3] /\ inflight s = 1 /\ fl s = [BDead] /\
    In 2 (accepted s) /\ In 3 (accepted s) /\
    forall mid, Forall not_call mid ->
      let s' := vrun bs cfg2 s mid in
      nth_error (cl s') 1%nat = Some CAddConfirm /\ cmd s' = Some [2; 3] /\
      ~ In 2 (done_tasks s') /\ ~ In 3 (done_tasks s').
Proof.
  intros bs Hbs. exists late_sched.
  assert (Hs : vrun bs cfg2 (init 2) late_sched = stranded 1020000)
    by (destruct Hbs as [-> | ->]; vm_compute; reflexivity).
  cbv zeta. rewrite Hs. repeat split; try reflexivity; try (cbn; tauto).
  all: destruct (stranded_forever bs Hbs mid 1020000 H) as [t' ->]; cbn; try reflexivity.
  all: intros [Hx|[]]; discriminate.
Qed.

(* the real protocol on the same schedule: the Add of 3 finds guarded = false (cleared together
   with the quit decision), starts a second flusher, which takes the batch *)
Example late_sched_real_protocol :
  let s := run cfg2 (init 2) (late_sched ++ [EvB 1 false; EvB 1 false; EvB 1 false; EvB 1 false; EvC 1; EvB 1 false]) in
  guarded s = true /\ cmd s = None /\ nth_error (cl s) 1%nat = Some CIdle /\ executed s = [[1]; [2; 3]].
Proof. vm_compute. repeat split; reflexivity. Qed.

(* ------------------------------------------------------------------ *)
(* Seeded change C11-3: bulkContainer.RemoveAll keeps two buffers and swaps them ("one batch is
   collected while the previous one is executed"): the removed batch becomes the spare, the
   previous spare, cut to length 0, becomes the collecting slice; empty removals do nothing. *)
Definition swap_step (gr : nat -> nat) (st : bufc) (o : bop) : bufc :=
  match o with
  | BAdd _ => buf_step gr st o
  | BRemoveAll =>
    match b_cur st with
    | Some sl =>
      match sl_len sl with
      | O => st
      | _ => mkBuf (b_heap st)
                   (match b_spare st with Some sp => Some (mkSl (sl_arr sp) 0) | None => None end)
                   (Some sl) (b_out st ++ [sl])
      end
    | None => st
    end
  end.
Definition swap_run (gr : nat -> nat) (st : bufc) (ops : list bop) : bufc := fold_left (swap_step gr) ops st.

(* a batch that is still in the hands of its callback is overwritten by a later Add, as soon as
   two more removals have happened: [batch_content_stable] fails for this variant *)
Theorem buffer_swap_refuted : forall gr,
  exists ops1 ops2 sl,
    let st1 := swap_run gr buf_init ops1 in
    let st2 := swap_run gr st1 ops2 in
    In sl (b_out st1) /\ view (b_heap st1) sl = [1] /\ view (b_heap st2) sl = [3].
Proof.
  intros gr. exists [BAdd 1; BRemoveAll], [BAdd 2; BRemoveAll; BAdd 3], (mkSl 0 1).
  cbv zeta. split; [left; reflexivity|]. split; reflexivity.
Qed.

(* ------------------------------------------------------------------ *)
(* Seeded change C11-9: the default branch of hasTasks answers !val.IsZero() instead of true
   ("a zero-valued batch of an aggregating container is not a flush").  Bulk/Chunk executors and
   the bulk inserters hand out slices and cannot tell the difference
   (ProofsC.iszero_same_on_measured_kinds); a container that coalesces its tasks into a struct /
   number / string / flag / pointer can hand out the zero value of that type for a batch that holds
   tasks - [shape_of SStruct EMark]: struct{First int64; Rest []int64}, {-1, nil} when nothing was
   added, {0, nil} for the batch that holds only task 0.  It keeps the contract hasTasks states
   ([family_honest]), so with the real hasTasks every theorem of Props.v holds for it; with the
   seeded one task 0 is accepted, removed and never passed to Execute, on every path. *)
Definition zcfg (mw : Z) : config := iszero_cfg mw 1000 [] (shape_of SStruct EMark).
Definition rcfg (mw : Z) : config := container_cfg mw 1000 [] (shape_of SStruct EMark).

(* by Wait / by an explicit Flush (which also answers false) *)
Definition z_wait : list ev := [EvCall 0 (CAdd 0 0); EvC 0; EvCall 0 CWait; EvC 0; EvC 0; EvC 0; EvC 0; EvC 0; EvC 0; EvC 0].
Definition z_flush : list ev := [EvCall 0 (CAdd 0 0); EvC 0; EvCall 0 CFlush; EvC 0; EvC 0; EvC 0; EvC 0].
(* on reaching the threshold (1): handed over to the flusher, confirmed, dropped there *)
Definition z_threshold : list ev :=
  [EvCall 0 (CAdd 0 1); EvC 0; EvB 0 false; EvC 0; EvB 0 false; EvB 0 false; EvB 0 false; EvC 0; EvB 0 false; EvB 0 false].
(* on the periodic flush *)
Definition z_tick : list ev :=
  [EvCall 0 (CAdd 0 0); EvC 0; EvB 0 false; EvTick; EvB 0 true; EvB 0 false; EvB 0 false; EvB 0 false; EvB 0 false].

Definition all_returned (s : state) : Prop := Forall (fun p => p = CIdle) (cl s).
Definition dropped0 (s : state) : Prop :=
  all_returned s /\ accepted s = [0] /\ done_tasks s = [] /\ places s = [].
Definition ran0 (s : state) : Prop :=
  all_returned s /\ accepted s = [0] /\ executed s = [[0]] /\ places s = [].

Theorem iszero_variant_refuted :
  honest (shape_of SStruct EMark) /\
  Forall (fun p : Z * list ev =>
            dropped0 (run (zcfg (fst p)) (init 1) (snd p)) /\ ran0 (run (rcfg (fst p)) (init 1) (snd p)))
         [(100, z_wait); (100, z_flush); (1, z_threshold); (100, z_tick)].
Proof.
  split; [apply family_honest|].
  repeat constructor; vm_compute; try reflexivity; repeat constructor.
Qed.

(* ... and in general: with the seeded hasTasks the run of every batch [h] that the container renders
   as a zero value of an unknown kind loses h (ProofsC.unfaithful_loses_tasks_l), for EVERY container
   shape - while the same container is served exactly once by the real hasTasks *)
Theorem iszero_variant_loses_every_zero_batch : forall mw iv bd sh h,
  0 < mw -> h <> [] ->
  bv_kind (sh h) <> KNil -> is_coll (bv_kind (sh h)) = false -> bv_zero (sh h) = true ->
  has_tasks (sh h) = true /\
  let s := run (iszero_cfg mw iv bd sh) (init 1) (adds0 h ++ flush0) in
  cl s = [CIdle] /\ accepted s = h /\ done_tasks s = [] /\ places s = [].
Proof.
  intros mw iv bd sh h Hm Hne Hk Hc Hz. split; [apply unknown_kinds_always_run; assumption|].
  assert (Hr : runs (iszero_cfg mw iv bd sh) h = false).
  { cbn [runs iszero_cfg]. unfold has_tasks_iszero. rewrite Hz.
    destruct (bv_kind (sh h)); try reflexivity; discriminate. }
  destruct (unfaithful_loses_tasks_l (iszero_cfg mw iv bd sh) h Hm Hne Hr) as (H1 & H2 & H3 & H4 & _).
  cbv zeta. auto.
Qed.

(* ------------------------------------------------------------------ *)
(* Seeded change C11-4: inflight is a flag (set by addAndCheck, cleared by the flusher's take-over)
   instead of a counter. *)
Definition flag_cstep (cfg : config) (s : state) (c : nat) : option state :=
  option_map (fun s' => set_inflight s' (Z.min 1 (inflight s'))) (cstep cfg s c).
Definition flag_bstep (cfg : config) (s : state) (b : nat) (alt : bool) : option state :=
  match nth_error (fl s) b with
  | Some (BDec h) => Some (set_fl (set_inflight s 0) (upd (fl s) b (BConfirm h)))
  | _ => bstep cfg s b alt
  end.
Definition flag_step (cfg : config) (s : state) (e : ev) : option state :=
  match e with
  | EvC c => flag_cstep cfg s c
  | EvB b alt => flag_bstep cfg s b alt
  | _ => step cfg s e
  end.
Definition flag_run (cfg : config) (s : state) (sched : list ev) : state :=
  fold_left (fun s e => match flag_step cfg s e with Some s' => s' | None => s end) sched s.

(* [1;2] is with the flusher (parked before its callback); [3;4] sits in the commander channel, its
   producer waits for the confirmation; [5;6] is in the hands of a third producer blocked on the send
   (5 was added by an Add that has returned) *)
Definition flag_pre : list ev :=
  [EvCall 0 (CAdd 1 1); EvC 0; EvB 0 false; EvCall 0 (CAdd 2 1); EvC 0; EvC 0;
   EvB 0 false; EvB 0 false; EvB 0 false; EvC 0;
   EvCall 0 (CAdd 3 1); EvC 0; EvCall 1 (CAdd 4 1); EvC 1; EvC 1;
   EvCall 0 (CAdd 5 1); EvC 0; EvCall 2 (CAdd 6 1); EvC 2].
(* Wait: Flush (nothing), waits for inflight; the flusher finishes [1;2], takes [3;4] over (clears the
   flag), the third producer's send goes through; Wait passes, waits for the callback on [3;4], returns *)
Definition flag_mid : list ev :=
  [EvC 3; EvC 3; EvC 3; EvC 3; EvB 0 false; EvB 0 false; EvB 0 false; EvB 0 false; EvB 0 false; EvC 1; EvC 2;
   EvC 3; EvC 3; EvB 0 false; EvB 0 false; EvC 3].

Theorem inflight_flag_refuted :
  let s0 := flag_run cfg2 (init 4) flag_pre in
  let s1 := flag_run cfg2 s0 (EvCall 3 CWait :: flag_mid) in
  nth_error (cl s0) 3%nat = Some CIdle /\ nth_error (cl s0) 0%nat = Some CIdle /\ In 5 (accepted s0) /\
  nth_error (cl s1) 3%nat = Some CIdle /\ ~ In 5 (done_tasks s1) /\ cmd s1 = Some [5; 6].
Proof. vm_compute. repeat split; try reflexivity; try tauto. intros H; repeat destruct H as [H|H]; try discriminate; exact H. Qed.

(* the counter: the same schedule leaves the Wait waiting for inflight = 0 *)
Example flag_sched_real_protocol :
  let s1 := run cfg2 (init 4) (flag_pre ++ EvCall 3 CWait :: flag_mid) in
  nth_error (cl s1) 3%nat = Some CWSpin /\ inflight s1 = 1.
Proof. vm_compute. split; reflexivity. Qed.

(* ------------------------------------------------------------------ *)
(* Seeded change C11-8: Wait flushes inline, outside the waitGroup (no enterExecution / Done around
   the Flush of a Wait).  A second Wait does not see the first one's callback. *)
Definition inline_cstep (cfg : config) (s : state) (c : nat) : option state :=
  match nth_error (cl s) c with
  | Some (CFl FEnter true) => Some (set_cl s (upd (cl s) c (CFl FRemove true)))
  | Some (CFl (FDone ok) true) => Some (set_cl s (upd (cl s) c CWSpin))
  | _ => cstep cfg s c
  end.
Definition inline_run (cfg : config) (s : state) (sched : list ev) : state :=
  fold_left (fun s e => match (match e with EvC c => inline_cstep cfg s c | _ => step cfg s e end) with
                        | Some s' => s' | None => s end) sched s.

Definition cfg3 : config := mkCfg 3 1000 [] nonempty.
(* Add 1 returns; client 1's Wait has removed [1] and is about to run the callback *)
Definition inline_pre : list ev := [EvCall 0 (CAdd 1 1); EvC 0; EvCall 1 CWait; EvC 1; EvC 1].

Theorem wait_inline_flush_refuted :
  let s0 := inline_run cfg3 (init 3) inline_pre in
  let s1 := inline_run cfg3 s0 (EvCall 2 CWait :: [EvC 2; EvC 2; EvC 2; EvC 2; EvC 2; EvC 2; EvC 2]) in
  nth_error (cl s0) 2%nat = Some CIdle /\ nth_error (cl s0) 0%nat = Some CIdle /\ accepted s0 = [1] /\
  nth_error (cl s1) 2%nat = Some CIdle /\ done_tasks s1 = [] /\ nth_error (cl s1) 1%nat = Some (CFl (FExec [1]) true).
Proof. vm_compute. repeat split; reflexivity. Qed.

Example wait_inline_sched_real_protocol :
  let s1 := run cfg3 (init 3) (inline_pre ++ EvCall 2 CWait :: [EvC 2; EvC 2; EvC 2; EvC 2; EvC 2; EvC 2; EvC 2]) in
  nth_error (cl s1) 2%nat = Some CWWait /\ wg s1 = 1.
Proof. vm_compute. split; reflexivity. Qed.

(* ------------------------------------------------------------------ *)
(* Seeded change C11-5: chunkContainer.RemoveAll answers nil without touching the tasks while the
   accumulated size is 0 - tasks of declared size 0 stay in the container whoever flushes. *)
Definition lazy_cstep (cfg : config) (s : state) (c : nat) : option state :=
  match nth_error (cl s) c with
  | Some (CFl FRemove w) => Some (set_cl s (upd (cl s) c (CFl (FExec (if csize s =? 0 then [] else cont s)) w)))
  | _ => cstep cfg s c
  end.
Definition lazy_run (cfg : config) (s : state) (sched : list ev) : state :=
  fold_left (fun s e => match (match e with EvC c => lazy_cstep cfg s c | _ => step cfg s e end) with
                        | Some s' => s' | None => s end) sched s.

Theorem remove_nothing_at_size_zero_refuted :
  let s0 := lazy_run cfg3 (init 2) [EvCall 0 (CAdd 1 0); EvC 0; EvCall 0 (CAdd 2 0); EvC 0] in
  let s1 := lazy_run cfg3 s0 (EvCall 1 CWait :: [EvC 1; EvC 1; EvC 1; EvC 1; EvC 1; EvC 1; EvC 1]) in
  nth_error (cl s0) 1%nat = Some CIdle /\ accepted s0 = [1; 2] /\
  nth_error (cl s1) 1%nat = Some CIdle /\ done_tasks s1 = [] /\ cont s1 = [1; 2].
Proof. vm_compute. repeat split; reflexivity. Qed.

(* ------------------------------------------------------------------ *)
(* Seeded change C11-6: Flush goes through a SingleFlight - a caller that arrives while another
   client's flush is past its start waits for that flush and returns ITS result without flushing.
   (A waiting follower is parked in [CFl (FRet false) w], a program counter the real protocol never
   rests in.) *)
Definition f_running (f : fpc) : bool := match f with FRemove | FExec _ | FDone _ => true | _ => false end.
Definition in_flight (s : state) : bool :=
  existsb (fun p => match p with CFl f _ => f_running f | _ => false end) (cl s) ||
  existsb (fun p => match p with BTick f _ | BExit f => f_running f | _ => false end) (fl s).
Definition sf_cstep (cfg : config) (s : state) (c : nat) : option state :=
  match nth_error (cl s) c with
  | Some (CFl FEnter w) =>
    if in_flight s then Some (set_cl s (upd (cl s) c (CFl (FRet false) w))) else cstep cfg s c
  | Some (CFl (FRet _) w) =>
    if in_flight s then None else Some (set_cl s (upd (cl s) c (if w then CWSpin else CIdle)))
  | _ => cstep cfg s c
  end.
Definition sf_run (cfg : config) (s : state) (sched : list ev) : state :=
  fold_left (fun s e => match (match e with EvC c => sf_cstep cfg s c | _ => step cfg s e end) with
                        | Some s' => s' | None => s end) sched s.

(* client 1's Flush has removed [1] and is about to run the callback; Add 2 returns (2 in the container) *)
Definition sf_pre : list ev :=
  [EvCall 0 (CAdd 1 1); EvC 0; EvCall 1 CFlush; EvC 1; EvC 1; EvCall 0 (CAdd 2 1); EvC 0].
(* client 2's Wait joins the flight; the callback on [1] returns; the Wait returns *)
Definition sf_mid : list ev := [EvC 2; EvC 1; EvC 1; EvC 2; EvC 2; EvC 2; EvC 2].

Theorem shared_flush_refuted :
  let s0 := sf_run cfg3 (init 3) sf_pre in
  let s1 := sf_run cfg3 s0 (EvCall 2 CWait :: sf_mid) in
  nth_error (cl s0) 2%nat = Some CIdle /\ nth_error (cl s0) 0%nat = Some CIdle /\ accepted s0 = [1; 2] /\
  nth_error (cl s1) 2%nat = Some CIdle /\ done_tasks s1 = [1] /\ cont s1 = [2].
Proof. vm_compute. repeat split; reflexivity. Qed.

Example shared_flush_sched_real_protocol :
  let s1 := run cfg3 (init 3) (sf_pre ++ EvCall 2 CWait :: sf_mid) in
  nth_error (cl s1) 2%nat = Some CWGuard /\ executed s1 = [[1]; [2]].
Proof. vm_compute. split; reflexivity. Qed.

(* ------------------------------------------------------------------ *)
(* Seeded change C11-10: Wait's "idle shortcut" - after its Flush and the wait for inflight = 0 it
   reads guarded under the lock and, when no background flusher is alive, returns without taking the
   barrier / waitGroup.Wait().  A batch in the hands of ANOTHER client's Flush is covered by the
   waitGroup only. *)
Definition shortcut_cstep (cfg : config) (s : state) (c : nat) : option state :=
  match nth_error (cl s) c with
  | Some CWSpin =>
    if inflight s =? 0
    then Some (set_cl s (upd (cl s) c (if guarded s then CWGuard else CIdle)))
    else None
  | _ => cstep cfg s c
  end.
Definition shortcut_run (cfg : config) (s : state) (sched : list ev) : state :=
  fold_left (fun s e => match (match e with EvC c => shortcut_cstep cfg s c | _ => step cfg s e end) with
                        | Some s' => s' | None => s end) sched s.

(* Add 1 starts the flusher; client 1's Flush removes [1] and is about to run the callback; more than
   idleRound intervals later a tick finds nothing to flush: the flusher quits (guarded = false), stops
   its ticker, runs its deferred Flush on nothing and is gone *)
Definition shortcut_pre : list ev :=
  [EvCall 0 (CAdd 1 1); EvC 0; EvB 0 false; EvCall 1 CFlush; EvC 1; EvC 1;
   EvClock 10001; EvTick; EvB 0 true; EvB 0 false; EvB 0 false; EvB 0 false; EvB 0 false;
   EvB 0 false; EvB 0 false; EvB 0 false; EvB 0 false; EvB 0 false; EvB 0 false].
Definition shortcut_mid : list ev := [EvC 2; EvC 2; EvC 2; EvC 2; EvC 2; EvC 2; EvC 2].

Theorem wait_idle_shortcut_refuted :
  let s0 := shortcut_run cfg3 (init 3) shortcut_pre in
  let s1 := shortcut_run cfg3 s0 (EvCall 2 CWait :: shortcut_mid) in
  guarded s0 = false /\ fl s0 = [BDead] /\ nth_error (cl s0) 1%nat = Some (CFl (FExec [1]) false) /\
  nth_error (cl s0) 2%nat = Some CIdle /\ nth_error (cl s0) 0%nat = Some CIdle /\ accepted s0 = [1] /\
  nth_error (cl s1) 2%nat = Some CIdle /\ done_tasks s1 = [].
Proof. vm_compute. repeat split; reflexivity. Qed.

(* the real protocol in that phase ("flusher gone, foreign Flush executing"): the Wait holds the barrier
   and waits for the waitGroup; [Props.wait_covers_prior_adds] has no hypothesis on the flusher's phase *)
Example wait_idle_sched_real_protocol :
  let s1 := run cfg3 (init 3) (shortcut_pre ++ EvCall 2 CWait :: shortcut_mid) in
  guarded s1 = false /\ fl s1 = [BDead] /\ nth_error (cl s1) 2%nat = Some CWWait /\ wg s1 = 1 /\
  let s2 := run cfg3 s1 [EvC 1; EvC 1; EvC 2] in
  nth_error (cl s2) 2%nat = Some CIdle /\ executed s2 = [[1]].
Proof. vm_compute. repeat split; reflexivity. Qed.

(* ------------------------------------------------------------------ *)
(* Seeded change C11-11: ONE ticker per executor, created by the first flusher and reused by every
   restarted one - although a flusher that idle-quits still stops it.  A stopped ticker never fires
   again: once some flusher has been through ticker.Stop(), no tick is delivered any more. *)
Definition ticker_stopped (p : bpc) : bool := match p with BExit _ | BDead => true | _ => false end.
Definition onetick_step (cfg : config) (s : state) (e : ev) : option state :=
  match e with
  | EvTick => if existsb ticker_stopped (fl s) then None else step cfg s e
  | _ => step cfg s e
  end.
Definition onetick_run (cfg : config) (s : state) (sched : list ev) : state :=
  fold_left (fun s e => match onetick_step cfg s e with Some s' => s' | None => s end) sched s.

(* use (Add 1, flushed by a tick), idle quit, Add 2 below the threshold restarts the flusher; two ticks *)
Definition onetick_sched : list ev :=
  [EvCall 0 (CAdd 1 1); EvC 0; EvB 0 false;
   EvTick; EvB 0 true; EvB 0 false; EvB 0 false; EvB 0 false; EvB 0 false;
   EvClock 20000; EvTick; EvB 0 true; EvB 0 false; EvB 0 false; EvB 0 false; EvB 0 false;
   EvB 0 false; EvB 0 false; EvB 0 false; EvB 0 false; EvB 0 false; EvB 0 false;
   EvCall 0 (CAdd 2 1); EvC 0; EvB 1 false;
   EvTick; EvB 1 true; EvB 1 false; EvB 1 false; EvB 1 false; EvB 1 false;
   EvTick; EvB 1 true; EvB 1 false; EvB 1 false; EvB 1 false; EvB 1 false].

Theorem reused_stopped_ticker_refuted :
  let s := onetick_run cfg3 (init 1) onetick_sched in
  cl s = [CIdle] /\ guarded s = true /\ fl s = [BDead; BSelect false 1020000] /\
  accepted s = [1; 2] /\ executed s = [[1]] /\ cont s = [2] /\ tick s = false /\
  (* ... and no tick will ever come: EvTick is disabled from here on *)
  onetick_step cfg3 s EvTick = None.
Proof. vm_compute. repeat split; reflexivity. Qed.

(* the real protocol (a new ticker for every flusher) on the same schedule: the first tick after the
   restart flushes task 2 *)
Example onetick_sched_real_protocol :
  let s := run cfg3 (init 1) onetick_sched in
  cl s = [CIdle] /\ executed s = [[1]; [2]] /\ cont s = [].
Proof. vm_compute. repeat split; reflexivity. Qed.
