(* C11 — the protocol as it was before the fix of finding F6 (DESIGN.md §5; go-zero commit
   "fix: periodical executor Wait returned before a batch handed over by a concurrent Add
   had run"), kept to document the defect.  It differs from Model.v in three actions:
   the flusher decrements inflight when it RECEIVES the batch (before enterExecution), goes
   from enterExecution straight to the confirmation, and Wait goes from its Flush straight to
   the barrier (no wait for inflight = 0).  For this protocol "Wait returns only after the
   callbacks for all tasks added before it have returned" is refuted by concrete schedules
   (vm_compute); the first one was replayed on the real BulkExecutor / ChunkExecutor /
   PeriodicalExecutor before the fix and is now a regression case of the correspondence run
   (corpus of tools/props/c11.py: reverting the fix makes ./check C11 fail on it). *)
From Coq Require Import List ZArith Bool.
From GZ Require Import C11.Model C11.ProofsA C11.Proofs.
Import ListNotations.
Open Scope Z_scope.

Definition pinned_cstep (cfg : config) (s : state) (c : nat) : option state :=
  match nth_error (cl s) c with
  | Some (CFl (FDone ok) true) =>
    (* waitGroup.Done of Wait's Flush, then directly to the barrier *)
    Some (set_cl (set_wg s (wg s - 1)) (upd (cl s) c CWGuard))
  | _ => cstep cfg s c
  end.

Definition pinned_bstep (cfg : config) (s : state) (b : nat) (alt : bool) : option state :=
  match nth_error (fl s) b with
  | Some (BSelect commanded last) =>
    if alt then bstep cfg s b alt
    else match cmd s with
         | Some h => Some (set_fl (set_inflight (set_cmd s None) (inflight s - 1))
                                  (upd (fl s) b (BGot h last)))
         | None => None
         end
  | Some (BGot h last) =>
    if barrier s then None
    else Some (set_fl (set_wg s (wg s + 1)) (upd (fl s) b (BConfirm h)))
  | _ => bstep cfg s b alt
  end.

Definition pinned_step (cfg : config) (s : state) (e : ev) : option state :=
  match e with
  | EvC c => pinned_cstep cfg s c
  | EvB b alt => pinned_bstep cfg s b alt
  | _ => step cfg s e
  end.

Definition pinned_exec (cfg : config) (s : state) (e : ev) : state :=
  match pinned_step cfg s e with Some s' => s' | None => s end.
Definition pinned_run (cfg : config) (s : state) (sched : list ev) : state :=
  fold_left (pinned_exec cfg) sched s.

Definition cfg2 : config := mkCfg 2 1000 [].

(* Add 1, Add 2 (threshold: handed over, confirmed, flusher about to run the callback
   on [1;2]); Add 3 returns (container = [3]); client 1: Add 4 removes [3;4] under the
   lock, puts it into the commander channel and waits for the confirmation. *)
Definition f6_pre : list ev :=
  [EvCall 0 (CAdd 1 1); EvC 0; EvB 0 false;
   EvCall 0 (CAdd 2 1); EvC 0; EvC 0; EvB 0 false; EvB 0 false; EvC 0;
   EvCall 0 (CAdd 3 1); EvC 0;
   EvCall 1 (CAdd 4 1); EvC 1; EvC 1].
(* client 2 calls Wait: its Flush finds the container empty; it takes the barrier and
   waits for the waitGroup; the flusher's callback on [1;2] returns; Wait returns. *)
Definition f6_mid : list ev :=
  [EvC 2; EvC 2; EvC 2; EvC 2; EvC 2; EvB 0 false; EvB 0 false; EvC 2].

Lemma no_call_of_evc w l :
  forallb (fun e => match e with EvCall c _ => negb (Nat.eqb c w) | _ => true end) l = true ->
  no_call_of w l.
Proof.
  intros H. apply Forall_forall. intros e He kk ->.
  rewrite forallb_forall in H. specialize (H _ He). cbn in H. rewrite Nat.eqb_refl in H. discriminate.
Qed.

Theorem wait_covers_prior_adds_refuted :
  exists cfg n pre w mid,
    let s0 := pinned_run cfg (init n) pre in
    let s1 := pinned_run cfg s0 (EvCall w CWait :: mid) in
    nth_error (cl s0) w = Some CIdle /\ no_call_of w mid /\
    nth_error (cl s1) w = Some CIdle /\
    exists a, In a (accepted s0) /\
              nth_error (cl s0) 0%nat = Some CIdle (* the Add of a had returned *) /\
              ~ In a (done_tasks s1).
Proof.
  exists cfg2, 3%nat, f6_pre, 2%nat, f6_mid.
  cbv zeta. split; [vm_compute; reflexivity|]. split; [apply no_call_of_evc; reflexivity|].
  split; [vm_compute; reflexivity|].
  exists 3. split; [vm_compute; tauto|]. split; [vm_compute; reflexivity|].
  vm_compute. intros [H|[H|[]]]; discriminate.
Qed.

Example f6_state_at_wait_start :
  let s0 := pinned_run cfg2 (init 3) f6_pre in
  cont s0 = [] /\ cmd s0 = Some [3; 4] /\ inflight s0 = 1 /\ unentered s0 = [3; 4] /\
  fl s0 = [BExec [1; 2]].
Proof. vm_compute. repeat split; reflexivity. Qed.

(* in the fixed protocol the same schedule (one more flusher action: inflight-- is now a
   separate action after enterExecution) does not let Wait return: it waits for inflight = 0 *)
Definition f6_pre_fixed : list ev :=
  [EvCall 0 (CAdd 1 1); EvC 0; EvB 0 false;
   EvCall 0 (CAdd 2 1); EvC 0; EvC 0; EvB 0 false; EvB 0 false; EvB 0 false; EvC 0;
   EvCall 0 (CAdd 3 1); EvC 0;
   EvCall 1 (CAdd 4 1); EvC 1; EvC 1].
Example f6_schedule_fixed_blocks :
  let s1 := run cfg2 (init 3) (f6_pre_fixed ++ EvCall 2 CWait :: f6_mid) in
  nth_error (cl s1) 2%nat = Some CWSpin /\ inflight s1 = 1 /\ executed s1 = [[1; 2]].
Proof. vm_compute. repeat split; reflexivity. Qed.

(* Before the fix, requiring that nothing is handed over at the moment the Wait starts was
   not enough either: client 3 is inside a Flush callback, client 1's Wait holds the barrier;
   Add 2 returns; client 2 starts Wait (blocked at enterExecution, nothing handed over at
   that moment); then Add 3 removes [2;3] and hands it over; the callbacks finish, Wait 1
   returns, and Wait 2 flushes an empty container and returns while [2;3] is still in the
   flusher's hand. *)
Definition f6b_pre : list ev :=
  [EvCall 0 (CAdd 1 1); EvC 0; EvB 0 false;
   EvCall 3 CFlush; EvC 3; EvC 3;
   EvCall 1 CWait; EvC 1; EvC 1; EvC 1; EvC 1; EvC 1;
   EvCall 0 (CAdd 2 1); EvC 0].
Definition f6b_mid : list ev :=
  [EvCall 0 (CAdd 3 1); EvC 0; EvC 0; EvB 0 false;
   EvC 3; EvC 3; EvC 1;
   EvC 2; EvC 2; EvC 2; EvC 2; EvC 2; EvC 2].

Theorem wait_start_hypothesis_insufficient :
  exists cfg n pre w mid,
    let s0 := pinned_run cfg (init n) pre in
    let s1 := pinned_run cfg s0 (EvCall w CWait :: mid) in
    nth_error (cl s0) w = Some CIdle /\ no_call_of w mid /\
    unentered s0 = [] /\
    nth_error (cl s1) w = Some CIdle /\
    exists a, In a (accepted s0) /\ nth_error (cl s0) 0%nat = Some CIdle /\
              ~ In a (done_tasks s1).
Proof.
  exists cfg2, 4%nat, f6b_pre, 2%nat, f6b_mid.
  cbv zeta. split; [vm_compute; reflexivity|]. split; [apply no_call_of_evc; reflexivity|].
  split; [vm_compute; reflexivity|]. split; [vm_compute; reflexivity|].
  exists 2. split; [vm_compute; tauto|]. split; [vm_compute; reflexivity|].
  vm_compute. intros [H|[]]; discriminate.
Qed.
