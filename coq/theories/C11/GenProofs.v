(* C11 — facts about the constants of the source as they are TODAY (coq/gen/C11Consts.v is
   regenerated from core/executors/periodicalexecutor.go and core/stores/sqlx/bulkinserter.go
   on every run): what the model and the generator take for granted. *)
From Coq Require Import ZArith Lia.
From GZgen Require Import C11Consts.
From GZ Require Import C11.Model.
Open Scope Z_scope.

(* the model's idle-quit rule (Model.bstep, BQuit) multiplies the interval by the literal 10 *)
Lemma model_idle_round_is_todays : idle_round = idleRound.
Proof. reflexivity. Qed.

(* dbInserter.AddTask asks for a flush at maxBulkRows rows: a positive threshold, as the
   bulk/chunk thresholds of the generated cases (a threshold <= 0 would hand over every row) *)
Lemma max_bulk_rows_positive : 1 <= max_bulk_rows.
Proof. unfold max_bulk_rows. lia. Qed.

(* the BulkInserter's flush interval is positive (a ticker with a non-positive period panics) *)
Lemma sqlx_flush_interval_positive : 0 < sqlx_flush_interval.
Proof. unfold sqlx_flush_interval. lia. Qed.
