(* C11 — more property lemmas: what an explicit Flush guarantees, and the buffers of the
   containers (a batch handed out by RemoveAll is never written again). *)
From Coq Require Import List ZArith Bool Lia Permutation.
From GZ Require Import C11.Model C11.ProofsA C11.Proofs.
Import ListNotations.
Open Scope Z_scope.

(* ------------------------------------------------------------------ *)
(* Flush *)

Section FlushTrack.
Variables (cfg : config) (w : nat) (mu : batch -> Z) (k : Z).
Hypothesis Hmu : additive mu.
Hypothesis Hf : faithful cfg.

(* what is known about the tasks accepted before the Flush of client w started, by the
   program counter of w: once its RemoveAll is done they are all out of the container *)
Definition GF (s : state) : Prop :=
  match nth_error (cl s) w with
  | Some (CFl FEnter false) | Some (CFl FRemove false) => True
  | Some (CFl (FExec _) false) | Some (CFl (FDone _) false) | Some CIdle =>
      k <= M_done mu s + M_en mu s + M_un mu s
  | _ => False
  end.

Lemma flush_step s e : Inv cfg s -> k <= M_acc mu s -> GF s ->
  (forall kk, e <> EvCall w kk) ->
  GF (exec cfg s e).
Proof.
  intros HI Hk HG Hnc. unfold exec in *. destruct (step cfg s e) as [s'|] eqn:Hs; [|exact HG].
  destruct (step_facts _ _ _ _ Hf HI Hs) as [HI' HM]. specialize (HM mu Hmu).
  pose proof (i_cons _ _ HI' mu Hmu) as Hc'.
  pose proof Hmu as (Hmu0 & Hmuapp & Hmunn).
  destruct HM as [Ma Md M2 M3 _ _].
  assert (Hcase : e = EvC w \/ e <> EvC w).
  { destruct e as [c kk|c|b alt| |d]; try (right; discriminate).
    destruct (Nat.eq_dec c w); [left; congruence | right; congruence]. }
  destruct Hcase as [->|Hne].
  - (* the Flush caller's own action *)
    cbn [step] in Hs. unfold GF in HG. unfold cstep in Hs.
    destruct (nth_error (cl s) w) as [p|] eqn:Hn; [|contradiction].
    destruct p as [|t wt|h| |f wt| | | |]; try contradiction.
    + discriminate.
    + destruct f as [| |h|ok|ok]; destruct wt; try contradiction; cbn [fstep] in Hs;
        unfold callback in Hs; brk2 Hs; inversion Hs; subst s'; clear Hs;
        unfold GF; fields; rewrite (nth_upd_eq _ _ _ _ Hn); try exact I.
      all: try lia.
      (* RemoveAll: the container is empty afterwards *)
      all: unfold M_cont in Hc'; fields; rewrite Hmu0 in Hc'; lia.
  - (* somebody else's action *)
    unfold GF in *. rewrite (step_other_pc _ _ _ _ w Hs Hne Hnc).
    destruct (nth_error (cl s) w) as [p|]; [|contradiction].
    destruct p as [|t wt|h| |f wt| | | |]; try contradiction; try lia.
    destruct f as [| |h|ok|ok]; destruct wt; try contradiction; try exact I; lia.
Qed.

Lemma flush_track : forall evs s, Inv cfg s -> k <= M_acc mu s -> GF s ->
  Forall (fun e => forall kk, e <> EvCall w kk) evs ->
  GF (run cfg s evs).
Proof.
  induction evs as [|e evs IH]; intros s HI Hk HG Hev; cbn; [exact HG|].
  inversion Hev as [|? ? He Hev']; subst.
  destruct (exec_facts cfg s e Hf HI) as [HI' HM]. pose proof (m_acc _ _ _ _ (HM mu Hmu)).
  apply IH; auto.
  - lia.
  - apply flush_step; auto.
Qed.
End FlushTrack.

Lemma exec_call_flush cfg s w : nth_error (cl s) w = Some CIdle ->
  nth_error (cl (exec cfg s (EvCall w CFlush))) w = Some (CFl FEnter false).
Proof.
  intros H. unfold exec. cbn [step]. unfold call_step. rewrite H. fields.
  apply (nth_upd_eq _ _ _ _ H).
Qed.

Lemma flush_covers_gen cfg s0 w mid mu :
  additive mu -> faithful cfg -> Inv cfg s0 ->
  nth_error (cl s0) w = Some CIdle ->
  no_call_of w mid ->
  nth_error (cl (run cfg s0 (EvCall w CFlush :: mid))) w = Some CIdle ->
  let s1 := run cfg s0 (EvCall w CFlush :: mid) in
  M_acc mu s0 <= M_done mu s1 + M_en mu s1 + M_un mu s1.
Proof.
  intros Hmu Hf HI Hidle Hnc Hret s1.
  destruct (exec_facts cfg s0 (EvCall w CFlush) Hf HI) as [HI' HM].
  pose proof (m_acc _ _ _ _ (HM mu Hmu)) as Hacc.
  pose proof (flush_track cfg w mu (M_acc mu s0) Hmu Hf mid (exec cfg s0 (EvCall w CFlush)) HI' Hacc) as HT.
  unfold s1. rewrite run_cons in Hret |- *.
  unfold GF in HT at 2. rewrite Hret in HT. apply HT; auto.
  unfold GF. rewrite (exec_call_flush cfg s0 w Hidle). exact I.
Qed.

Definition out_of_container (s : state) : batch := done_tasks s ++ unentered s ++ entered s.

Lemma mu_entered mu s : additive mu -> mu (entered s) = M_en mu s.
Proof.
  intros Ha. pose proof Ha as (H0 & Happ & _). unfold entered, M_en, mc_en, mb_en.
  rewrite !Happ, !mu_flat_map by exact Ha. ring.
Qed.

Lemma flush_covers_l cfg n pre w mid : faithful cfg ->
  let s0 := run cfg (init n) pre in
  let s1 := run cfg s0 (EvCall w CFlush :: mid) in
  nth_error (cl s0) w = Some CIdle ->
  no_call_of w mid ->
  nth_error (cl s1) w = Some CIdle ->
  forall a, (count_occ Z.eq_dec (accepted s0) a <= count_occ Z.eq_dec (out_of_container s1) a)%nat.
Proof.
  intros Hf s0 s1 Hidle Hnc Hret a.
  pose proof (flush_covers_gen cfg s0 w mid (cntz a) (cntz_additive a) Hf (run_inv cfg n pre Hf)
                Hidle Hnc Hret) as H.
  cbv zeta in H. fold s1 in H.
  pose proof (cntz_additive a) as Ha. pose proof Ha as (_ & Happ & _).
  rewrite <- (mu_done _ _ Ha), <- (mu_entered _ _ Ha), <- (mu_unentered _ _ Ha) in H.
  unfold out_of_container. unfold M_acc, cntz in H. rewrite !count_occ_app.
  clear - H. clearbody s0 s1. unfold task in *. lia.
Qed.

(* with distinct tasks: no task accepted before the Flush is still in the container when it returns *)
Lemma flush_empties_l cfg n pre w mid : faithful cfg ->
  let s0 := run cfg (init n) pre in
  let s1 := run cfg s0 (EvCall w CFlush :: mid) in
  nth_error (cl s0) w = Some CIdle ->
  no_call_of w mid ->
  nth_error (cl s1) w = Some CIdle ->
  NoDup (accepted s1) ->
  forall a, In a (accepted s0) -> In a (out_of_container s1) /\ ~ In a (cont s1).
Proof.
  intros Hf s0 s1 Hidle Hnc Hret Hnd a Ha.
  pose proof (flush_covers_l cfg n pre w mid Hf Hidle Hnc Hret a) as H. fold s0 s1 in H.
  assert (Hin : In a (out_of_container s1)).
  { apply (count_occ_In Z.eq_dec). apply (count_occ_In Z.eq_dec) in Ha. lia. }
  split; [exact Hin|]. intros Hc.
  assert (HI1 : Inv cfg s1) by (apply run_inv_from; [exact Hf | apply run_inv, Hf]).
  pose proof (conservation_perm cfg s1 HI1) as HP.
  assert (Hnd' : NoDup (done_tasks s1 ++ places s1)) by (eapply Permutation_NoDup; eauto).
  (* a occurs in the container and outside it: twice in a duplicate-free list *)
  assert (Hp : Permutation (done_tasks s1 ++ places s1) (cont s1 ++ out_of_container s1)).
  { unfold places, out_of_container.
    rewrite (Permutation_app_comm (cont s1) (unentered s1 ++ entered s1)).
    rewrite app_assoc. rewrite Permutation_app_comm. rewrite app_assoc. reflexivity. }
  pose proof (Permutation_NoDup Hp Hnd') as Hnd2.
  revert Hnd2 Hc Hin. generalize (out_of_container s1) as o. generalize (cont s1) as c.
  induction c as [|x c IH]; intros o Hnd2 Hc Hin; [destruct Hc|].
  cbn in Hnd2. inversion Hnd2 as [|? ? Hnx Hnd3]; subst.
  destruct Hc as [->|Hc].
  - apply Hnx. apply in_or_app. now right.
  - eapply IH; eauto.
Qed.

(* ------------------------------------------------------------------ *)
(* buffers: a batch handed out by RemoveAll is never written again *)

Section Buffers.
Variable gr : nat -> nat.

Definition sl_ok (hp : heap) (sl : slice) : Prop :=
  (sl_arr sl < length hp)%nat /\ (sl_len sl <= length (nth (sl_arr sl) hp []))%nat.

(* the collecting slice lives in an array of its own *)
Definition BInv (st : bufc) : Prop :=
  Forall (sl_ok (b_heap st)) (b_out st) /\
  match b_cur st with
  | Some c => sl_ok (b_heap st) c /\ Forall (fun sl => sl_arr sl <> sl_arr c) (b_out st)
  | None => True
  end.

Lemma nth_upd_same {A} (l : list A) n x d : (n < length l)%nat -> nth n (upd l n x) d = x.
Proof. revert n; induction l; intros [|n] H; cbn in *; try lia; auto. apply IHl; lia. Qed.
Lemma nth_upd_other {A} (l : list A) n m x d : n <> m -> nth m (upd l n x) d = nth m l d.
Proof. revert n m; induction l; intros [|n] [|m] H; cbn; auto; try congruence. Qed.
Lemma length_upd {A} (l : list A) n x : length (upd l n x) = length l.
Proof. revert n; induction l; intros [|n]; cbn; auto. Qed.
Lemma firstn_upd_ge {A} (l : list A) n k x : (k <= n)%nat -> firstn k (upd l n x) = firstn k l.
Proof.
  revert n k; induction l; intros [|n] [|k] H; cbn; auto; try lia. f_equal. apply IHl; lia.
Qed.

Lemma view_app hp x sl : sl_ok hp sl -> view (hp ++ [x]) sl = view hp sl.
Proof. intros [H _]. unfold view. rewrite app_nth1 by exact H. reflexivity. Qed.

Lemma sl_ok_app hp x sl : sl_ok hp sl -> sl_ok (hp ++ [x]) sl.
Proof.
  intros [H1 H2]. unfold sl_ok. rewrite app_length, app_nth1 by exact H1. cbn. split; lia.
Qed.

(* one step keeps the invariant and the content of every batch handed out before *)
Lemma buf_step_inv st o : BInv st ->
  BInv (buf_step gr st o) /\
  (forall sl, In sl (b_out st) -> view (b_heap (buf_step gr st o)) sl = view (b_heap st) sl) /\
  (exists more, b_out (buf_step gr st o) = b_out st ++ more).
Proof.
  intros [Hout Hcur]. destruct o as [t|]; cbn [buf_step].
  - (* AddTask *)
    unfold append. destruct (b_cur st) as [c|] eqn:Hc.
    + destruct Hcur as [[Hc1 Hc2] Hne].
      destruct (Nat.ltb (sl_len c) (length (nth (sl_arr c) (b_heap st) []))) eqn:Hlt;
        unfold BInv; cbn [b_heap b_cur b_out b_spare].
      * (* in place: only the collecting array changes *)
        apply Nat.ltb_lt in Hlt. split; [|split].
        -- split.
           ++ rewrite Forall_forall in *. intros sl Hin. specialize (Hout sl Hin). specialize (Hne sl Hin).
              destruct Hout as [H1 H2]. unfold sl_ok. rewrite length_upd, nth_upd_other by congruence. split; assumption.
           ++ split; [|exact Hne]. unfold sl_ok; cbn. rewrite length_upd, nth_upd_same, length_upd by exact Hc1.
              split; lia.
        -- intros sl Hin. rewrite Forall_forall in Hne. specialize (Hne sl Hin).
           unfold view. rewrite nth_upd_other by congruence. reflexivity.
        -- exists []. now rewrite app_nil_r.
      * (* reallocation: a new array *)
        split; [|split].
        -- split.
           ++ eapply Forall_impl; [|exact Hout]. intros sl. apply sl_ok_app.
           ++ split.
              ** unfold sl_ok; cbn. rewrite app_length, nth_middle. cbn. rewrite app_length. cbn.
                 split; [lia|]. rewrite firstn_length. apply Nat.ltb_ge in Hlt. lia.
              ** rewrite Forall_forall in *. intros sl Hin. destruct (Hout sl Hin) as [H1 _]. cbn. lia.
        -- intros sl Hin. rewrite Forall_forall in Hout. apply view_app, Hout, Hin.
        -- exists []. now rewrite app_nil_r.
    + unfold BInv; cbn [b_heap b_cur b_out b_spare]. split; [|split].
      * split.
        -- eapply Forall_impl; [|exact Hout]. intros sl. apply sl_ok_app.
        -- split.
           ++ unfold sl_ok; cbn. rewrite app_length, nth_middle. cbn. split; lia.
           ++ rewrite Forall_forall in *. intros sl Hin. destruct (Hout sl Hin) as [H1 _]. cbn. lia.
      * intros sl Hin. rewrite Forall_forall in Hout. apply view_app, Hout, Hin.
      * exists []. now rewrite app_nil_r.
  - (* RemoveAll *)
    destruct (b_cur st) as [c|] eqn:Hc; unfold BInv; cbn [b_heap b_cur b_out b_spare].
    + destruct Hcur as [Hc1 Hne]. split; [|split].
      * split; [|exact I]. apply Forall_app. split; [exact Hout | constructor; [exact Hc1 | constructor]].
      * reflexivity.
      * exists [c]. reflexivity.
    + split; [|split].
      * split; [exact Hout | rewrite Hc; exact I].
      * reflexivity.
      * exists []. now rewrite app_nil_r.
Qed.

Lemma buf_run_inv : forall ops st, BInv st ->
  BInv (buf_run gr st ops) /\
  (forall sl, In sl (b_out st) -> view (b_heap (buf_run gr st ops)) sl = view (b_heap st) sl) /\
  (exists more, b_out (buf_run gr st ops) = b_out st ++ more).
Proof.
  induction ops as [|o ops IH]; intros st HI.
  - cbn. split; [exact HI | split; [reflexivity | exists []; now rewrite app_nil_r]].
  - change (buf_run gr st (o :: ops)) with (buf_run gr (buf_step gr st o) ops).
    destruct (buf_step_inv st o HI) as (HI' & Hv & (m1 & Hm1)).
    destruct (IH _ HI') as (HI'' & Hv' & (m2 & Hm2)).
    split; [exact HI''|]. split.
    + intros sl Hin. rewrite Hv'; [apply Hv, Hin|]. rewrite Hm1. apply in_or_app. now left.
    + exists (m1 ++ m2). rewrite Hm2, Hm1, app_assoc. reflexivity.
Qed.

Lemma buf_init_inv : BInv buf_init.
Proof. split; [constructor | exact I]. Qed.

(* for every history of the container: a batch returned by RemoveAll reads the same at any
   later time, whatever is added and removed afterwards *)
Lemma batch_stable_l ops1 ops2 :
  let st1 := buf_run gr buf_init ops1 in
  let st2 := buf_run gr st1 ops2 in
  forall sl, In sl (b_out st1) -> In sl (b_out st2) /\ view (b_heap st2) sl = view (b_heap st1) sl.
Proof.
  intros st1 st2 sl Hin.
  destruct (buf_run_inv ops1 buf_init buf_init_inv) as (HI1 & _ & _). fold st1 in HI1.
  destruct (buf_run_inv ops2 st1 HI1) as (_ & Hv & (m & Hm)). fold st2 in Hv, Hm.
  split; [rewrite Hm; apply in_or_app; now left | apply Hv, Hin].
Qed.

(* ... and the batches together with what is still collected are exactly the tasks added, in order *)
Lemma view_snoc_inplace (hp : heap) c t :
  sl_ok hp c -> (sl_len c < length (nth (sl_arr c) hp []))%nat ->
  view (upd hp (sl_arr c) (upd (nth (sl_arr c) hp []) (sl_len c) t)) (mkSl (sl_arr c) (S (sl_len c))) =
  view hp c ++ [t].
Proof.
  intros [H1 H2] Hlt. unfold view; cbn [sl_arr sl_len]. rewrite nth_upd_same by exact H1.
  generalize (nth (sl_arr c) hp []) as a, (sl_len c) as n, Hlt. clear.
  intros a n; revert a. induction n; intros [|x a] H; cbn in *; try lia; auto.
  f_equal. apply IHn. lia.
Qed.

Lemma buf_contents_from : forall ops st, BInv st ->
  let st' := buf_run gr st ops in
  concat (map (view (b_heap st')) (b_out st')) ++ cur_view st' =
  concat (map (view (b_heap st)) (b_out st)) ++ cur_view st ++ added ops.
Proof.
  induction ops as [|o ops IH]; intros st HI st'; subst st'.
  - cbn. now rewrite app_nil_r.
  - change (buf_run gr st (o :: ops)) with (buf_run gr (buf_step gr st o) ops).
    destruct (buf_step_inv st o HI) as (HI' & Hv & _).
    specialize (IH _ HI'). cbv zeta in IH. rewrite IH. clear IH.
    destruct HI as [Hout Hcur]. destruct o as [t|]; cbn [buf_step added].
    + (* AddTask: the batches keep their content, the collected view grows by t *)
      assert (Hmap : forall hp', (forall sl, In sl (b_out st) -> view hp' sl = view (b_heap st) sl) ->
                 map (view hp') (b_out st) = map (view (b_heap st)) (b_out st)).
      { intros hp' H. apply map_ext_in. exact H. }
      cbn [buf_step] in Hv.
      unfold append in *. destruct (b_cur st) as [c|] eqn:Hc.
      * destruct Hcur as [Hc1 Hne].
        destruct (Nat.ltb (sl_len c) (length (nth (sl_arr c) (b_heap st) []))) eqn:Hlt;
          cbn [b_heap b_cur b_out b_spare] in *.
        -- rewrite (Hmap _ Hv). unfold cur_view; cbn [b_heap b_cur b_out b_spare]. rewrite Hc.
           apply Nat.ltb_lt in Hlt. rewrite (view_snoc_inplace _ _ _ Hc1 Hlt). now rewrite <- !app_assoc.
        -- rewrite (Hmap _ Hv). unfold cur_view; cbn [b_heap b_cur b_out b_spare]. rewrite Hc.
           unfold view at 2; cbn [sl_arr sl_len]. rewrite nth_middle.
           assert (Hf : firstn (S (sl_len c)) (firstn (sl_len c) (nth (sl_arr c) (b_heap st) []) ++ t :: repeat 0 (gr (sl_len c))) =
                        view (b_heap st) c ++ [t]).
           { destruct Hc1 as [_ Hle]. unfold view.
             set (a := firstn (sl_len c) (nth (sl_arr c) (b_heap st) [])).
             assert (Hla : length a = sl_len c) by (unfold a; rewrite firstn_length; lia).
             rewrite <- Hla at 1. replace (S (length a)) with (length a + 1)%nat by lia.
             rewrite firstn_app_2. reflexivity. }
           rewrite Hf. now rewrite <- !app_assoc.
      * cbn [b_heap b_cur b_out b_spare] in *. rewrite (Hmap _ Hv).
        unfold cur_view; cbn [b_heap b_cur b_out b_spare]. rewrite Hc.
        unfold view; cbn [sl_arr sl_len]. rewrite nth_middle. reflexivity.
    + destruct (b_cur st) as [c|] eqn:Hc; cbn [b_heap b_cur b_out b_spare].
      * unfold cur_view; cbn [b_heap b_cur b_out b_spare]. rewrite Hc. rewrite map_app, concat_app.
        cbn [map concat]. now rewrite app_nil_r, <- app_assoc.
      * reflexivity.
Qed.

Lemma buf_contents_l ops :
  let st := buf_run gr buf_init ops in
  concat (map (view (b_heap st)) (b_out st)) ++ cur_view st = added ops.
Proof. intros st. unfold st. rewrite (buf_contents_from ops buf_init buf_init_inv). reflexivity. Qed.
End Buffers.
