(* C11 — invariants of the executor LTS: definitions and the per-action lemmas. *)
From Coq Require Import List ZArith Bool Lia Permutation.
From GZ Require Import C11.Model.
Import ListNotations.
Open Scope Z_scope.

(* ------------------------------------------------------------------ *)
(* sums over thread lists                                              *)

Fixpoint sumz {A} (f : A -> Z) (l : list A) : Z :=
  match l with [] => 0 | x :: l' => f x + sumz f l' end.

Lemma sumz_app {A} (f : A -> Z) l1 l2 : sumz f (l1 ++ l2) = sumz f l1 + sumz f l2.
Proof. induction l1; cbn; lia. Qed.

Lemma sumz_snoc {A} (f : A -> Z) l x : sumz f (l ++ [x]) = sumz f l + f x.
Proof. rewrite sumz_app. cbn. lia. Qed.

Lemma sumz_upd {A} (f : A -> Z) l n y x :
  nth_error l n = Some y -> sumz f (upd l n x) = sumz f l - f y + f x.
Proof.
  revert n; induction l as [|z l IH]; intros [|n] H; cbn in *; try discriminate.
  - inversion H; subst; lia.
  - rewrite (IH _ H); lia.
Qed.

Lemma sumz_nonneg {A} (f : A -> Z) l : (forall x, 0 <= f x) -> 0 <= sumz f l.
Proof. intros H; induction l; cbn; [lia | specialize (H a); lia]. Qed.

Lemma sumz_zero_each {A} (f : A -> Z) l :
  (forall x, 0 <= f x) -> sumz f l = 0 -> forall x, In x l -> f x = 0.
Proof.
  intros Hn; induction l as [|y l IH]; cbn; intros H x Hin; [tauto|].
  pose proof (Hn y). pose proof (sumz_nonneg f l Hn).
  destruct Hin as [->|Hin]; [lia | apply IH; [lia | exact Hin]].
Qed.

Lemma sumz_repeat {A} (f : A -> Z) x n : f x = 0 -> sumz f (repeat x n) = 0.
Proof. intros H; induction n; cbn; lia. Qed.

Lemma sumz_ext_zero {A} (f : A -> Z) l : (forall x, In x l -> f x = 0) -> sumz f l = 0.
Proof.
  induction l as [|y l IH]; cbn; intros H; [reflexivity|].
  rewrite (H y (or_introl eq_refl)), IH; [reflexivity | intros; apply H; now right].
Qed.

Lemma nth_upd_eq {A} (l : list A) n y x :
  nth_error l n = Some y -> nth_error (upd l n x) n = Some x.
Proof. revert n; induction l; intros [|n] H; cbn in *; try discriminate; auto. Qed.

Lemma nth_upd_neq {A} (l : list A) n m x : n <> m -> nth_error (upd l n x) m = nth_error l m.
Proof.
  revert n m; induction l; intros [|n] [|m] H; cbn; auto; try congruence.
Qed.

Lemma nth_app_l {A} (l : list A) x n y : nth_error l n = Some y -> nth_error (l ++ [x]) n = Some y.
Proof. intros H. rewrite nth_error_app1; [exact H | apply nth_error_Some; congruence]. Qed.

(* ------------------------------------------------------------------ *)
(* additive measures on batches (instances: number of occurrences of a task, length) *)

Definition additive (mu : batch -> Z) : Prop :=
  mu [] = 0 /\ (forall a b, mu (a ++ b) = mu a + mu b) /\ (forall a, 0 <= mu a).

Section Measures.
Variable mu : batch -> Z.

Definition mc_un (p : cpc) : Z := mu (chand_un p).
Definition mb_un (p : bpc) : Z := mu (bhand_un p).
Definition mc_en (p : cpc) : Z := mu (chand_en p).
Definition mb_en (p : bpc) : Z := mu (bhand_en p).

Definition M_cont (s : state) : Z := mu (cont s).
Definition M_un (s : state) : Z := sumz mc_un (cl s) + mu (cmd_l s) + sumz mb_un (fl s).
Definition M_en (s : state) : Z := sumz mc_en (cl s) + sumz mb_en (fl s).
Definition M_done (s : state) : Z := mu (concat (executed s)) + mu (concat (lost s)).
Definition M_acc (s : state) : Z := mu (accepted s).
End Measures.

(* ------------------------------------------------------------------ *)
(* indicator functions *)

Definition f_in (f : fpc) : Z := match f with FEnter => 0 | FRet _ => 0 | _ => 1 end.
(* threads between waitGroup.Add and waitGroup.Done *)
Definition c_in (p : cpc) : Z := match p with CFl f _ => f_in f | _ => 0 end.
Definition b_in (p : bpc) : Z :=
  match p with
  | BDec _ | BConfirm _ | BExec _ | BDone => 1
  | BTick f _ | BExit f => f_in f
  | _ => 0
  end.
Definition c_send (p : cpc) : Z := match p with CAddSend _ => 1 | _ => 0 end.
Definition c_conf (p : cpc) : Z := match p with CAddConfirm => 1 | _ => 0 end.
Definition c_adding (p : cpc) : Z :=
  match p with CAddLock _ _ | CAddSend _ | CAddConfirm => 1 | _ => 0 end.
Definition b_pre (p : bpc) : Z := match p with BGot _ _ | BDec _ | BConfirm _ => 1 | _ => 0 end.
Definition b_gd (p : bpc) : Z := match p with BGot _ _ | BDec _ => 1 | _ => 0 end.
Definition b_dec (p : bpc) : Z := match p with BDec _ => 1 | _ => 0 end.
Definition b_live (p : bpc) : Z := match p with BStop | BExit _ | BDead => 0 | _ => 1 end.
Definition b_exitpre (p : bpc) : Z :=
  match p with BStop | BExit FEnter | BExit FRemove => 1 | _ => 0 end.
Definition cmdn (s : state) : Z := match cmd s with Some _ => 1 | None => 0 end.
Definition zb (b : bool) : Z := if b then 1 else 0.
Definition lenz (h : batch) : Z := Z.of_nat (length h).

Record Inv (cfg : config) (s : state) : Prop := mkInv
  { (* conservation, for every additive measure *)
    i_cons : forall mu, additive mu ->
      M_acc mu s = M_done mu s + M_cont mu s + M_un mu s + M_en mu s;
    (* the waitGroup counter counts the threads inside an execution *)
    i_wg : wg s = sumz c_in (cl s) + sumz b_in (fl s);
    (* inflight counts the threshold batches removed and not yet taken over *)
    i_infl : inflight s = sumz c_send (cl s) + cmdn s +
                          sumz b_gd (fl s);
    (* producers waiting for a confirmation = batches on their way to a confirmation *)
    i_conf : sumz c_conf (cl s) = cmdn s + sumz b_pre (fl s);
    (* guarded <-> exactly one flusher with a (future) live loop *)
    i_guard : zb (guarded s) = sumz b_live (fl s);
    (* pending tasks in the container always have a flusher responsible for them *)
    (* no flusher (loop) alive -> no threshold batch is waiting to be taken over *)
    i_idle : zb (guarded s) = 1 \/ inflight s = 0;
    i_owner : lenz (cont s) = 0 \/ zb (guarded s) = 1 \/ 0 < sumz b_exitpre (fl s) }.

Lemma c_in_nonneg p : 0 <= c_in p. Proof. destruct p as [| | | |[]| | | |]; cbn; lia. Qed.
Lemma b_in_nonneg p : 0 <= b_in p.
Proof. destruct p as [| | | | | | |[]| | |[]|]; cbn; lia. Qed.
Lemma c_send_nonneg p : 0 <= c_send p. Proof. destruct p; cbn; lia. Qed.
Lemma c_conf_nonneg p : 0 <= c_conf p. Proof. destruct p; cbn; lia. Qed.
Lemma c_adding_nonneg p : 0 <= c_adding p. Proof. destruct p; cbn; lia. Qed.
Lemma b_pre_nonneg p : 0 <= b_pre p. Proof. destruct p; cbn; lia. Qed.
Lemma b_gd_nonneg p : 0 <= b_gd p. Proof. destruct p; cbn; lia. Qed.
Lemma b_dec_nonneg p : 0 <= b_dec p. Proof. destruct p; cbn; lia. Qed.
Lemma b_live_nonneg p : 0 <= b_live p. Proof. destruct p; cbn; lia. Qed.
Lemma b_exitpre_nonneg p : 0 <= b_exitpre p.
Proof. destruct p as [| | | | | | | | | |[]|]; cbn; lia. Qed.

Lemma init_inv cfg n : Inv cfg (init n).
Proof.
  constructor; cbn.
  - intros mu (H0 & _ & _). unfold M_acc, M_done, M_cont, M_un, M_en; cbn.
    rewrite !sumz_repeat by (cbn; exact H0). rewrite H0. lia.
  - rewrite sumz_repeat; reflexivity.
  - rewrite sumz_repeat by reflexivity. reflexivity.
  - rewrite sumz_repeat; reflexivity.
  - reflexivity.
  - now right.
  - now left.
Qed.

(* ------------------------------------------------------------------ *)
(* what one step can do to the measures *)

Record Mono (mu : batch -> Z) (e : ev) (s s' : state) : Prop := mkMono
  { m_acc : M_acc mu s <= M_acc mu s';
    m_done : M_done mu s <= M_done mu s';
    m_q2 : M_done mu s + M_en mu s <= M_done mu s' + M_en mu s';
    m_q3 : M_done mu s + M_en mu s + M_un mu s <= M_done mu s' + M_en mu s' + M_un mu s';
    m_adding : (forall c t w, e <> EvCall c (CAdd t w)) ->
               sumz c_adding (cl s') <= sumz c_adding (cl s);
    m_quiet : sumz c_adding (cl s) = 0 -> (forall c t w, e <> EvCall c (CAdd t w)) ->
              M_acc mu s' = M_acc mu s /\ M_cont mu s' <= M_cont mu s }.

Lemma sumz_ge_nth {A} (f : A -> Z) l n y :
  (forall x, 0 <= f x) -> nth_error l n = Some y -> f y <= sumz f l.
Proof.
  intros Hn; revert n; induction l as [|z l IH]; intros [|n] H; cbn in *; try discriminate.
  - inversion H; subst. pose proof (sumz_nonneg f l Hn). lia.
  - specialize (IH _ H). specialize (Hn z). lia.
Qed.

Lemma find_confirm_nth l : forall i b h,
  find_confirm l i = Some (b, h) -> exists k, b = (i + k)%nat /\ nth_error l k = Some (BConfirm h).
Proof.
  induction l as [|p l IH]; intros i b h H; cbn in H; [discriminate|].
  destruct p; try (destruct (IH _ _ _ H) as (k & -> & Hk); exists (S k); split; [lia | exact Hk]).
  inversion H; subst. exists 0%nat. split; [lia | reflexivity].
Qed.

Lemma lenz_app a b : lenz (a ++ b) = lenz a + lenz b.
Proof. unfold lenz. rewrite app_length. lia. Qed.
Lemma lenz_nonneg a : 0 <= lenz a. Proof. unfold lenz; lia. Qed.

Ltac fields :=
  cbn [cont csize cmd inflight guarded wg barrier tick now cl fl executed lost accepted
       set_cl set_fl set_cont set_cmd set_inflight set_guarded set_wg set_barrier set_tick
       set_now add_executed add_lost add_accepted] in *.

Ltac indic :=
  cbn [mc_un mb_un mc_en mb_en chand_un bhand_un chand_en bhand_en fhand c_in b_in f_in
       c_send c_conf c_adding b_pre b_gd b_dec b_live b_exitpre zb] in *.

Ltac sums :=
  repeat match goal with
  | Hn : nth_error ?l ?n = Some ?y |- context [sumz ?f (upd ?l ?n ?x)] =>
      rewrite (sumz_upd f l n y x Hn)
  | |- context [sumz ?f (?l ++ [?x])] => rewrite (sumz_snoc f l x)
  end.

Ltac brk H :=
  repeat match type of H with
  | context [match ?x with _ => _ end] => destruct x eqn:?; try discriminate
  end.

Ltac prep HI :=
  try match goal with
  | Hadd : additive ?mu |- _ =>
    pose proof (i_cons _ _ HI mu Hadd) as Hcons;
    destruct Hadd as (Hmu0 & Hmuapp & Hmunn)
  end;
  pose proof (i_wg _ _ HI) as Hwg; pose proof (i_infl _ _ HI) as Hinfl;
  pose proof (i_conf _ _ HI) as Hconf;
  pose proof (i_guard _ _ HI) as Hguard; pose proof (i_owner _ _ HI) as Howner;
  pose proof (i_idle _ _ HI) as Hidle;
  repeat match goal with Hq : (_ =? _) = true |- _ => apply Z.eqb_eq in Hq end;
  unfold M_acc, M_done, M_cont, M_un, M_en, cmd_l, cmdn in *.

Ltac norm :=
  fields; sums; unfold mc_un, mb_un, mc_en, mb_en in *; indic;
  rewrite ?concat_app; cbn [concat]; rewrite ?app_nil_r;
  try match goal with
  | Happ : forall a b, ?mu (a ++ b) = ?mu a + ?mu b |- _ => rewrite ?Happ
  end;
  try match goal with
  | H0 : ?mu [] = 0 |- _ => rewrite ?H0
  end;
  rewrite ?lenz_app.

Ltac nn :=
  repeat match goal with
  | Hnn : forall a, 0 <= ?mu a |- context [?mu ?x] =>
    lazymatch goal with
    | _ : 0 <= mu x |- _ => fail
    | _ => pose proof (Hnn x)
    end
  end.

Ltac brk2 H :=
  cbv beta iota zeta in H;
  repeat match type of H with
  | context [match ?x with _ => _ end] =>
    lazymatch x with
    | context [match _ with _ => _ end] => fail
    | _ => destruct x eqn:?; try discriminate; cbv beta iota zeta in H
    end
  end.

Ltac rw_eqs :=
  repeat match goal with
  | Heq : guarded _ = _ |- _ => try rewrite Heq in *; clear Heq
  | Heq : cmd _ = _ |- _ => try rewrite Heq in *; clear Heq
  end.

Ltac solve_case HI :=
  split; [constructor; [intros mu Hadd| | | | | | ] | intros mu Hadd; constructor];
  intros; prep HI; norm; rw_eqs; indic; cbn [lenz length] in *; nn; try lia; try (left; reflexivity).

Ltac conf_nth :=
  try match goal with
  | Hf : find_confirm _ _ = Some _ |- _ =>
    let k := fresh "k" in let Hk := fresh "Hk" in
    apply find_confirm_nth in Hf as (k & -> & Hk); cbn [Nat.add] in *
  end.

(* The container keeps its side of the contract: a batch that executeTasks does not hand to
   Execute holds no task.  (For which containers this is so: ProofsC.faithful_iff_honest; that
   nothing weaker will do: ProofsC.unfaithful_loses_tasks.) *)
Definition faithful (cfg : config) : Prop := forall h, runs cfg h = false -> h = [].

Ltac unfaith Hf :=
  repeat match goal with
  | Hr : runs _ ?h = false |- _ => apply Hf in Hr; subst h
  end.

Lemma cstep_facts cfg s c s' : faithful cfg -> Inv cfg s -> cstep cfg s c = Some s' ->
  Inv cfg s' /\ forall mu, additive mu -> Mono mu (EvC c) s s'.
Proof.
  intros Hf HI H. unfold cstep in H.
  destruct (nth_error (cl s) c) as [pc|] eqn:Hn; [|discriminate].
  pose proof (sumz_ge_nth c_adding _ _ _ c_adding_nonneg Hn) as Hadding.
  destruct pc as [|t w|h| |f wt| | | |]; try discriminate.
  all: try (destruct f as [| |h|ok|ok]); try destruct wt; cbn [fstep] in H; unfold callback in H;
    brk2 H; inversion H; subst s'; clear H; conf_nth; unfaith Hf.
  all: solve_case HI.
Qed.

Lemma bstep_facts cfg s b alt s' : faithful cfg -> Inv cfg s -> bstep cfg s b alt = Some s' ->
  Inv cfg s' /\ forall mu, additive mu -> Mono mu (EvB b alt) s s'.
Proof.
  intros Hf HI H. unfold bstep in H.
  destruct (nth_error (fl s) b) as [pc|] eqn:Hn; [|discriminate].
  pose proof (sumz_ge_nth b_live _ _ _ b_live_nonneg Hn) as Hlive.
  pose proof (sumz_nonneg b_exitpre (fl s) b_exitpre_nonneg) as Hexn.
  destruct pc as [|cm last|h last|h|h|h| |f last|last| |f|]; try discriminate.
  all: try (destruct f as [| |h|ok|ok]); cbn [fstep] in H; unfold callback in H;
    brk2 H; inversion H; subst s'; clear H; unfaith Hf.
  all: destruct (guarded s) eqn:?.
  all: solve_case HI.
Qed.

