(* C11 — property theorems only.  The model (Model.v) is an interleaving semantics of
   core/executors/periodicalexecutor.go (+ bulk/chunk containers): clients calling
   Add/Flush/Wait, flusher goroutines, ticks, clock, panicking callbacks; a schedule
   is any [list ev] (events that are not enabled are skipped).  All theorems quantify
   over every configuration (threshold, interval, panicking tasks, container), every number
   of clients and every schedule.

   The container enters through [runs cfg h]: does executeTasks hand the batch that holds the
   tasks h to Execute?  For a container that renders h as the Go value [sh h] that is
   [has_tasks (sh h)] (Model.has_tasks = hasTasks: nil -> no; array/chan/map/slice -> Len() > 0;
   any other kind -> yes).  [faithful cfg]: a batch that is not executed holds no task.
   [faithful_iff_honest] says which containers that covers, [contract_is_necessary] that no
   theorem below survives without it. *)
From Coq Require Import List ZArith Bool Permutation.
From GZ Require Import C11.Model C11.ProofsA C11.Proofs C11.ProofsB C11.Containers C11.ProofsC.
Import ListNotations.
Open Scope Z_scope.

(* Conservation, at EVERY step of EVERY schedule: the tasks accepted by Add are exactly
   (as a multiset) the tasks passed to callbacks that returned or panicked, plus the
   tasks still in the container, in the commander channel, in a producer's hand or in
   a flusher's / Flush caller's hand.  Nothing is lost, nothing is duplicated. *)
Theorem exactly_once : forall cfg n sched, faithful cfg ->
  let s := run cfg (init n) sched in
  Permutation (accepted s) (done_tasks s ++ places s).
Proof. intros cfg n sched Hf. apply (conservation_perm cfg), run_inv, Hf. Qed.
Print Assumptions exactly_once.

(* ... hence with distinct tasks no task is ever passed to a callback twice, nor is
   it executed while still pending somewhere *)
Theorem exactly_once_no_duplicates : forall cfg n sched, faithful cfg ->
  let s := run cfg (init n) sched in
  NoDup (accepted s) -> NoDup (done_tasks s ++ places s).
Proof.
  intros cfg n sched Hf s H. eapply Permutation_NoDup; [|exact H].
  apply (conservation_perm cfg), run_inv, Hf.
Qed.
Print Assumptions exactly_once_no_duplicates.

(* When a Wait returns and nobody was adding (no client inside Add when the Wait
   started, no Add started meanwhile), every place but "executed" is empty: every
   accepted task has been passed to a callback exactly once. *)
Theorem exactly_once_after_wait : forall cfg n pre w mid, faithful cfg ->
  let s0 := run cfg (init n) pre in
  let s1 := run cfg s0 (EvCall w CWait :: mid) in
  nth_error (cl s0) w = Some CIdle ->
  no_call_of w mid -> no_add_calls mid -> quiet s0 ->
  nth_error (cl s1) w = Some CIdle ->
  places s1 = [] /\ Permutation (accepted s1) (done_tasks s1).
Proof. exact wait_quiescent_l. Qed.
Print Assumptions exactly_once_after_wait.

(* Idle quit and restart lose nothing: in every reachable state (i) tasks in the
   container have an owner — a flusher loop is alive (guarded) or a quitting flusher
   (in ticker.Stop, or in its deferred Flush) has not yet done the RemoveAll of that Flush; (ii) guarded means a flusher
   with a live loop exists; (iii) while no loop is alive, no threshold batch waits to
   be taken over and no producer waits for a confirmation (so the next Add, which
   restarts the flusher, finds a consistent protocol state).  Together with
   [exactly_once] (which holds across quits and restarts). *)
Theorem restart_safe : forall cfg n sched, faithful cfg ->
  let s := run cfg (init n) sched in
  (cont s <> [] ->
     guarded s = true \/
     exists b p, nth_error (fl s) b = Some p /\ (p = BStop \/ p = BExit FEnter \/ p = BExit FRemove)) /\
  (guarded s = true -> exists b p, nth_error (fl s) b = Some p /\ loop_alive p) /\
  (guarded s = false ->
     inflight s = 0 /\ cmd s = None /\
     (forall c h, nth_error (cl s) c <> Some (CAddSend h)) /\
     (forall c, nth_error (cl s) c <> Some CAddConfirm)).
Proof. exact restart_safe_l. Qed.
Print Assumptions restart_safe.

(* A panicking callback loses only its own batch — over whole runs: for every schedule,
   the run with panicking callbacks and the run in which the same callbacks return
   normally ([no_panic cfg]: same threshold and interval, no panicking task) have the
   same core state (container, size, commander, inflight, guarded, waitGroup, barrier,
   ticker, clock, every client's and every flusher's program counter and hand, accepted
   tasks) — at every step, since the statement is for every schedule, hence for every
   prefix — and the logs differ only in that exactly the batches containing a panicking
   task are in [lost] instead of [executed], in the same order. *)
Theorem panic_loses_own_batch_only : forall cfg n sched,
  let s := run cfg (init n) sched in
  let s0 := run (no_panic cfg) (init n) sched in
  core s = core s0 /\ lost s0 = [] /\
  executed s = filter (fun h => negb (panics cfg h)) (executed s0) /\
  lost s = filter (panics cfg) (executed s0).
Proof. exact panic_simulation. Qed.
Print Assumptions panic_loses_own_batch_only.

(* Wait returns only after the callbacks for all tasks added before it have returned:
   for every schedule, if client w (idle) calls Wait in state s0 and the call has returned
   in s1, every task accepted by Add before the call — with multiplicity — has been passed
   to a callback that returned or panicked.  No hypothesis on what other clients do
   meanwhile (concurrent Adds, Flushes, Waits, ticks, flusher quitting and restarting).
   For the protocol before the fix of F6 this is false: Pinned.wait_covers_prior_adds_refuted,
   Pinned.wait_start_hypothesis_insufficient. *)
Theorem wait_covers_prior_adds : forall cfg n pre w mid, faithful cfg ->
  let s0 := run cfg (init n) pre in
  let s1 := run cfg s0 (EvCall w CWait :: mid) in
  nth_error (cl s0) w = Some CIdle ->
  no_call_of w mid ->
  nth_error (cl s1) w = Some CIdle ->
  forall a, In a (accepted s0) -> In a (done_tasks s1).
Proof. exact wait_covers_in. Qed.
Print Assumptions wait_covers_prior_adds.

Theorem wait_covers_prior_adds_with_multiplicity : forall cfg n pre w mid, faithful cfg ->
  let s0 := run cfg (init n) pre in
  let s1 := run cfg s0 (EvCall w CWait :: mid) in
  nth_error (cl s0) w = Some CIdle ->
  no_call_of w mid ->
  nth_error (cl s1) w = Some CIdle ->
  forall a, (count_occ Z.eq_dec (accepted s0) a <= count_occ Z.eq_dec (done_tasks s1) a)%nat.
Proof. exact wait_covers_l. Qed.
Print Assumptions wait_covers_prior_adds_with_multiplicity.

(* An explicit Flush: for every schedule, if client w (idle) calls Flush in state s0 and the call
   has returned in s1, every task accepted by Add before the call — with multiplicity — is out of
   the container: passed to a callback that returned or panicked (in particular everything the
   Flush itself removed: its caller is idle again), or in the hands of ANOTHER thread that removed
   it earlier (a producer that reached the threshold, the flusher, another Flush/Wait caller).
   No hypothesis on what the other threads do meanwhile.  (That the Flush need not wait for those
   other hands is the difference between Flush and Wait: [ex_flush_leaves_other_hands].) *)
Theorem flush_covers_prior_adds : forall cfg n pre w mid, faithful cfg ->
  let s0 := run cfg (init n) pre in
  let s1 := run cfg s0 (EvCall w CFlush :: mid) in
  nth_error (cl s0) w = Some CIdle ->
  no_call_of w mid ->
  nth_error (cl s1) w = Some CIdle ->
  forall a, (count_occ Z.eq_dec (accepted s0) a <= count_occ Z.eq_dec (out_of_container s1) a)%nat.
Proof. exact flush_covers_l. Qed.
Print Assumptions flush_covers_prior_adds.

(* ... with distinct tasks: none of them is still in the container *)
Theorem flush_leaves_no_prior_task_in_container : forall cfg n pre w mid, faithful cfg ->
  let s0 := run cfg (init n) pre in
  let s1 := run cfg s0 (EvCall w CFlush :: mid) in
  nth_error (cl s0) w = Some CIdle ->
  no_call_of w mid ->
  nth_error (cl s1) w = Some CIdle ->
  NoDup (accepted s1) ->
  forall a, In a (accepted s0) -> In a (out_of_container s1) /\ ~ In a (cont s1).
Proof. exact flush_empties_l. Qed.
Print Assumptions flush_leaves_no_prior_task_in_container.

(* The buffers of bulkContainer / chunkContainer / dbInserter (Model.buf_step: AddTask appends to
   the collecting slice — in place while the backing array has room, else into a new array, with
   any growth policy gr; RemoveAll returns the slice and continues with nil): for every history of
   the container, a batch returned by RemoveAll reads the same at any later time — whatever is
   added and removed afterwards, however long its callback holds it.  (The LTS above moves task
   lists by value; this is what justifies it for the Go slices.  Refuted for the buffer-swapping
   variant of seeded change C11-3: Pinned.buffer_swap_refuted.) *)
Theorem batch_content_stable : forall gr ops1 ops2,
  let st1 := buf_run gr buf_init ops1 in
  let st2 := buf_run gr st1 ops2 in
  forall sl, In sl (b_out st1) -> In sl (b_out st2) /\ view (b_heap st2) sl = view (b_heap st1) sl.
Proof. exact batch_stable_l. Qed.
Print Assumptions batch_content_stable.

(* ... and the batches handed out, in order, followed by what is still being collected, are exactly
   the tasks added, in order: every task in exactly one batch *)
Theorem batches_partition_added_tasks : forall gr ops,
  let st := buf_run gr buf_init ops in
  concat (map (view (b_heap st)) (b_out st)) ++ cur_view st = added ops.
Proof. exact buf_contents_l. Qed.
Print Assumptions batches_partition_added_tasks.


(* ---- the container ---------------------------------------------------------------- *)

(* Which containers are covered: exactly those that keep what hasTasks asks for - a batch that
   holds tasks is not the untyped nil and, if it is an array / chan / map / slice, is not empty.
   Nothing is asked of batches of any other kind: they are ALWAYS executed, be they the zero
   value of their type ([unknown_kinds_always_run]; an offset range {0,0}, a gauge set to 0, a
   flag set to false ...). *)
Theorem faithful_iff_honest : forall mw iv bd sh,
  faithful (container_cfg mw iv bd sh) <-> honest sh.
Proof. exact ProofsC.faithful_iff_honest. Qed.
Print Assumptions faithful_iff_honest.

Theorem unknown_kinds_always_run : forall v,
  bv_kind v <> KNil -> is_coll (bv_kind v) = false -> has_tasks v = true.
Proof. exact ProofsC.unknown_kinds_always_run. Qed.
Print Assumptions unknown_kinds_always_run.

(* [exactly_once] for a PeriodicalExecutor over any such container, whatever the kind of its
   batches and whether or not they are zero values *)
Theorem exactly_once_for_every_honest_container : forall mw iv bd sh n sched, honest sh ->
  let s := run (container_cfg mw iv bd sh) (init n) sched in
  Permutation (accepted s) (done_tasks s ++ places s).
Proof. exact honest_exactly_once. Qed.
Print Assumptions exactly_once_for_every_honest_container.

(* the Bulk / Chunk executors and the sqlx bulk inserter: slices, nil when nothing was added *)
Theorem slice_containers_faithful : forall mw iv bd,
  faithful (container_cfg mw iv bd slice_shape) /\ (forall h, has_tasks (slice_shape h) = nonempty h).
Proof. exact slice_faithful. Qed.
Print Assumptions slice_containers_faithful.

(* every container of the family the correspondence run drives the executor with
   (Containers.shape_of: 11 batch types x 3 renderings of "nothing added"); seven of the types
   hand out their zero value for the batch that holds only task 0 *)
Theorem checked_containers_faithful : forall mw iv bd k e,
  faithful (container_cfg mw iv bd (shape_of k e)).
Proof. exact family_faithful. Qed.
Print Assumptions checked_containers_faithful.

Theorem checked_containers_have_zero_batches :
  forall k, In k [SStruct; SInt; SString; SBool; SPtr; SIface; SArray] ->
  forall e, bv_zero (shape_of k e [0]) = true /\ has_tasks (shape_of k e [0]) = true.
Proof. exact family_has_zero_batches. Qed.
Print Assumptions checked_containers_have_zero_batches.

(* The hypothesis cannot be weakened: if executeTasks skips ONE batch h that holds tasks, then on
   the schedule "one client adds the tasks of h (weight 0) and calls Flush" every call has
   returned, the tasks of h were accepted, none was passed to a callback and none is pending
   anywhere: [exactly_once] fails.  (The seeded hasTasks of C11-9 - default branch !IsZero - is
   such a decision for every zero-valued batch of an unknown kind:
   Pinned.iszero_variant_refuted, Pinned.iszero_variant_loses_every_zero_batch.) *)
Theorem contract_is_necessary : forall cfg h,
  0 < maxw cfg -> h <> [] -> runs cfg h = false ->
  let s := run cfg (init 1) (adds0 h ++ flush0) in
  cl s = [CIdle] /\ accepted s = h /\ done_tasks s = [] /\ places s = [] /\
  ~ Permutation (accepted s) (done_tasks s ++ places s).
Proof. exact unfaithful_loses_tasks_l. Qed.
Print Assumptions contract_is_necessary.

(* ---- non-vacuity: concrete schedules meeting the hypotheses ---- *)
Definition ex_cfg : config := mkCfg 2 1000 [] nonempty.
(* Add 1 (starts the flusher), Add 2 reaches the threshold and is handed over and
   confirmed, flusher parked before the callback; Add 3 stays in the container *)
Definition ex_pre : list ev :=
  [EvCall 0 (CAdd 1 1); EvC 0; EvB 0 false; EvCall 0 (CAdd 2 1); EvC 0; EvC 0;
   EvB 0 false; EvB 0 false; EvB 0 false; EvC 0; EvCall 0 (CAdd 3 1); EvC 0].
(* Wait by client 1: Flush takes [3] and runs it; the flusher's callback on [1;2]
   runs; Wait returns *)
Definition ex_mid : list ev :=
  [EvC 1; EvC 1; EvC 1; EvC 1; EvC 1; EvC 1; EvB 0 false; EvB 0 false; EvC 1].

Example ex_wait_hypotheses :
  let s0 := run ex_cfg (init 2) ex_pre in
  let s1 := run ex_cfg s0 (EvCall 1 CWait :: ex_mid) in
  nth_error (cl s0) 1%nat = Some CIdle /\ accepted s0 = [1; 2; 3] /\ quiet s0 /\
  nth_error (cl s1) 1%nat = Some CIdle /\
  executed s1 = [[3]; [1; 2]] /\ places s1 = [] /\
  (* one action earlier the Wait had not returned: it was waiting for the flusher's callback *)
  nth_error (cl (run ex_cfg s0 (EvCall 1 CWait :: removelast ex_mid))) 1%nat = Some CWWait.
Proof. vm_compute. repeat split; reflexivity. Qed.

(* the same schedule when task 2 makes its callback panic: same core state, [1;2] lost, [3] executed *)
Example ex_panic :
  let cfgp := mkCfg 2 1000 [2] nonempty in
  let s := run cfgp (init 2) (ex_pre ++ EvCall 1 CWait :: ex_mid) in
  let s0 := run (no_panic cfgp) (init 2) (ex_pre ++ EvCall 1 CWait :: ex_mid) in
  executed s = [[3]] /\ lost s = [[1; 2]] /\ executed s0 = [[3]; [1; 2]] /\ core s = core s0.
Proof. vm_compute. repeat split; reflexivity. Qed.

(* idle quit with a pending restart: the flusher decides to quit (guarded = false, one
   atomic action) and is still inside ticker.Stop; an Add in that window starts a second
   flusher; the first one then goes on to its deferred Flush *)
Example ex_quit_restart :
  let s := run ex_cfg (init 1)
             [EvCall 0 (CAdd 1 1); EvC 0; EvB 0 false; EvTick; EvB 0 true; EvB 0 false; EvB 0 false;
              EvB 0 false; EvB 0 false; EvClock 20000; EvTick; EvB 0 true; EvB 0 false; EvB 0 false;
              EvB 0 false; EvB 0 false; EvB 0 false;
              EvCall 0 (CAdd 2 1); EvC 0] in
  guarded s = true /\ fl s = [BStop; BStart] /\ cont s = [2] /\ executed s = [[1]] /\
  fl (exec ex_cfg s (EvB 0 false)) = [BExit FEnter; BStart].
Proof. vm_compute. repeat split; reflexivity. Qed.

(* Flush vs Wait: in the state of [ex_wait_hypotheses] (flusher parked before the callback on
   [1;2], 3 in the container) client 1 calls Flush: it runs [3] and returns while [1;2] is still
   in the flusher's hands — out of the container, not yet executed *)
Example ex_flush_leaves_other_hands :
  let s0 := run ex_cfg (init 2) ex_pre in
  let s1 := run ex_cfg s0 (EvCall 1 CFlush :: [EvC 1; EvC 1; EvC 1; EvC 1]) in
  nth_error (cl s0) 1%nat = Some CIdle /\ cont s0 = [3] /\
  nth_error (cl s1) 1%nat = Some CIdle /\ executed s1 = [[3]] /\ cont s1 = [] /\ entered s1 = [1; 2] /\
  out_of_container s1 = [3; 1; 2].
Proof. vm_compute. repeat split; reflexivity. Qed.

(* Sync is a call like the others; it changes nothing but the caller's program counter *)
Example ex_sync :
  let s0 := run ex_cfg (init 2) ex_pre in
  let s1 := run ex_cfg s0 [EvCall 1 CSync] in
  let s2 := run ex_cfg s1 [EvC 1] in
  nth_error (cl s1) 1%nat = Some CSyncRun /\ core s2 = core s0 /\ executed s2 = executed s0.
Proof. vm_compute. repeat split; reflexivity. Qed.

(* buffers: the runtime gives every new array room for two more tasks; the first batch [1;2] is
   handed out with spare capacity behind it, the container goes on in a new array; later adds,
   an in-place append and a second removal do not touch it *)
Example ex_buffers :
  let gr := fun _ : nat => 2%nat in
  let st1 := buf_run gr buf_init [BAdd 1; BAdd 2; BRemoveAll; BAdd 3] in
  let st2 := buf_run gr st1 [BAdd 4; BRemoveAll; BAdd 5] in
  b_out st1 = [mkSl 0 2] /\ b_heap st1 = [[1; 2; 0]; [3; 0; 0]] /\
  b_out st2 = [mkSl 0 2; mkSl 1 2] /\ b_heap st2 = [[1; 2; 0]; [3; 4; 0]; [5; 0; 0]] /\
  map (view (b_heap st2)) (b_out st2) = [[1; 2]; [3; 4]] /\ cur_view st2 = [5].
Proof. vm_compute. repeat split; reflexivity. Qed.

(* a container whose batches are structs, {0, nil} for the batch that holds only task 0: the zero
   value is executed (Wait; threshold 1; periodic flush), the idle value {-1, nil} as well (it is of
   an unknown kind too: Flush answers true although nothing was added, which is why the flusher of
   such an executor never goes idle - outside C11's statement) *)
Example ex_zero_valued_batch :
  let cfg := container_cfg 100 1000 [] (shape_of SStruct EMark) in
  faithful cfg /\ bv_zero (shape_of SStruct EMark [0]) = true /\
  let s := run cfg (init 1)
             [EvCall 0 (CAdd 0 0); EvC 0; EvCall 0 CWait; EvC 0; EvC 0; EvC 0; EvC 0; EvC 0; EvC 0; EvC 0] in
  cl s = [CIdle] /\ accepted s = [0] /\ executed s = [[0]] /\ places s = [] /\
  let s' := run cfg s [EvCall 0 CFlush; EvC 0; EvC 0; EvC 0; EvC 0] in
  cl s' = [CIdle] /\ executed s' = [[0]; []].
Proof. split; [apply family_faithful|]. vm_compute. repeat split; reflexivity. Qed.
