(* C11 — property theorems only.  The model (Model.v) is an interleaving semantics of
   core/executors/periodicalexecutor.go (+ bulk/chunk containers): clients calling
   Add/Flush/Wait, flusher goroutines, ticks, clock, panicking callbacks; a schedule
   is any [list ev] (events that are not enabled are skipped).  All theorems quantify
   over every configuration (threshold, interval, panicking tasks), every number of
   clients and every schedule. *)
From Coq Require Import List ZArith Bool Permutation.
From GZ Require Import C11.Model C11.ProofsA C11.Proofs.
Import ListNotations.
Open Scope Z_scope.

(* Conservation, at EVERY step of EVERY schedule: the tasks accepted by Add are exactly
   (as a multiset) the tasks passed to callbacks that returned or panicked, plus the
   tasks still in the container, in the commander channel, in a producer's hand or in
   a flusher's / Flush caller's hand.  Nothing is lost, nothing is duplicated. *)
Theorem exactly_once : forall cfg n sched,
  let s := run cfg (init n) sched in
  Permutation (accepted s) (done_tasks s ++ places s).
Proof. intros. apply (conservation_perm cfg), run_inv. Qed.
Print Assumptions exactly_once.

(* ... hence with distinct tasks no task is ever passed to a callback twice, nor is
   it executed while still pending somewhere *)
Theorem exactly_once_no_duplicates : forall cfg n sched,
  let s := run cfg (init n) sched in
  NoDup (accepted s) -> NoDup (done_tasks s ++ places s).
Proof.
  intros cfg n sched s H. eapply Permutation_NoDup; [|exact H].
  apply (conservation_perm cfg), run_inv.
Qed.
Print Assumptions exactly_once_no_duplicates.

(* When a Wait returns and nobody was adding (no client inside Add when the Wait
   started, no Add started meanwhile), every place but "executed" is empty: every
   accepted task has been passed to a callback exactly once. *)
Theorem exactly_once_after_wait : forall cfg n pre w mid,
  let s0 := run cfg (init n) pre in
  let s1 := run cfg s0 (EvCall w CWait :: mid) in
  nth_error (cl s0) w = Some CIdle ->
  no_call_of w mid -> no_add_calls mid -> quiet s0 ->
  nth_error (cl s1) w = Some CIdle ->
  places s1 = [] /\ Permutation (accepted s1) (done_tasks s1).
Proof. exact wait_quiescent_l. Qed.
Print Assumptions exactly_once_after_wait.

(* Idle quit and restart lose nothing: in every reachable state (i) tasks in the
   container have an owner — a flusher loop is alive (guarded) or a quitting flusher
   has not yet done the RemoveAll of its deferred Flush; (ii) guarded means a flusher
   with a live loop exists; (iii) while no loop is alive, no threshold batch waits to
   be taken over and no producer waits for a confirmation (so the next Add, which
   restarts the flusher, finds a consistent protocol state).  Together with
   [exactly_once] (which holds across quits and restarts). *)
Theorem restart_safe : forall cfg n sched,
  let s := run cfg (init n) sched in
  (cont s <> [] ->
     guarded s = true \/
     exists b f, nth_error (fl s) b = Some (BExit f) /\ (f = FEnter \/ f = FRemove)) /\
  (guarded s = true -> exists b p, nth_error (fl s) b = Some p /\ loop_alive p) /\
  (guarded s = false ->
     inflight s = 0 /\ cmd s = None /\
     (forall c h, nth_error (cl s) c <> Some (CAddSend h)) /\
     (forall c, nth_error (cl s) c <> Some CAddConfirm)).
Proof. exact restart_safe_l. Qed.
Print Assumptions restart_safe.

(* A panicking callback loses only its own batch: running the callback on h changes
   nothing but the log — h goes to [lost] instead of [executed]; container, channels,
   counters, every thread (including the one that ran the callback, which goes on to
   waitGroup.Done and, for the flusher, back to its loop) are as after a normal return.
   All other tasks stay accounted for by [exactly_once]. *)
Theorem panic_loses_own_batch_only : forall cfg s h,
  core (callback cfg s h) = core s /\
  (if panics cfg h
   then lost (callback cfg s h) = lost s ++ [h] /\ executed (callback cfg s h) = executed s
   else executed (callback cfg s h) = executed s ++ [h] /\ lost (callback cfg s h) = lost s).
Proof. exact callback_effect. Qed.
Print Assumptions panic_loses_own_batch_only.

(* Wait covers earlier Adds — for the code as it is, under the explicit hypothesis
   that, while the Wait is in progress, no task accepted before it sits in a threshold
   batch that a producer removed from the container and the flusher has not yet entered
   execution for (producer's hand, commander channel, flusher before enterExecution).
   Without the hypothesis the statement is false: Pinned.wait_covers_prior_adds_refuted
   (finding F6); requiring it only when the Wait starts is not enough either:
   Pinned.wait_start_hypothesis_insufficient. *)
Theorem wait_covers_prior_adds : forall cfg n pre w mid,
  patched cfg = false ->
  let s0 := run cfg (init n) pre in
  let s1 := run cfg s0 (EvCall w CWait :: mid) in
  nth_error (cl s0) w = Some CIdle ->
  no_call_of w mid ->
  (forall j a, In a (accepted s0) ->
     ~ In a (unentered (run cfg s0 (firstn j (EvCall w CWait :: mid))))) ->
  nth_error (cl s1) w = Some CIdle ->
  forall a, In a (accepted s0) -> In a (done_tasks s1).
Proof. exact wait_covers_l. Qed.
Print Assumptions wait_covers_prior_adds.

(* The candidate repair (flusher: enterExecution before inflight--; Wait: after Flush,
   wait until inflight = 0, then Guard(waitGroup.Wait)) makes the statement hold with
   no hypothesis, over all schedules. *)
Theorem wait_covers_prior_adds_patched : forall cfg n pre w mid,
  patched cfg = true ->
  let s0 := run cfg (init n) pre in
  let s1 := run cfg s0 (EvCall w CWait :: mid) in
  nth_error (cl s0) w = Some CIdle ->
  no_call_of w mid ->
  nth_error (cl s1) w = Some CIdle ->
  forall a, In a (accepted s0) -> In a (done_tasks s1).
Proof. exact wait_covers_patched_l. Qed.
Print Assumptions wait_covers_prior_adds_patched.

(* ---- non-vacuity: concrete schedules meeting the hypotheses ---- *)
Definition ex_cfg : config := mkCfg 2 1000 [] false.
(* Add 1 (starts the flusher), Add 2 reaches the threshold and is handed over and
   confirmed, flusher parked before the callback; Add 3 stays in the container *)
Definition ex_pre : list ev :=
  [EvCall 0 (CAdd 1 1); EvC 0; EvB 0 false; EvCall 0 (CAdd 2 1); EvC 0; EvC 0;
   EvB 0 false; EvB 0 false; EvC 0; EvCall 0 (CAdd 3 1); EvC 0].
(* Wait by client 1: Flush takes [3] and runs it; the flusher's callback on [1;2]
   runs; Wait returns *)
Definition ex_mid : list ev :=
  [EvC 1; EvC 1; EvC 1; EvC 1; EvC 1; EvB 0 false; EvB 0 false; EvC 1].

Example ex_wait_hypotheses :
  let s0 := run ex_cfg (init 2) ex_pre in
  let s1 := run ex_cfg s0 (EvCall 1 CWait :: ex_mid) in
  nth_error (cl s0) 1%nat = Some CIdle /\ accepted s0 = [1; 2; 3] /\ quiet s0 /\
  nth_error (cl s1) 1%nat = Some CIdle /\
  executed s1 = [[3]; [1; 2]] /\ places s1 = [] /\
  forallb (fun j => match unentered (run ex_cfg s0 (firstn j (EvCall 1 CWait :: ex_mid))) with
                    | [] => true | _ => false end) (seq 0 10) = true.
Proof. vm_compute. repeat split; reflexivity. Qed.

(* idle quit with a pending restart: the flusher quits (guarded = false) while its
   deferred Flush has not yet removed the tasks; the next Add starts a second flusher *)
Example ex_quit_restart :
  let s := run ex_cfg (init 1)
             [EvCall 0 (CAdd 1 1); EvC 0; EvB 0 false; EvTick; EvB 0 true; EvB 0 false; EvB 0 false;
              EvB 0 false; EvB 0 false; EvClock 20000; EvTick; EvB 0 true; EvB 0 false; EvB 0 false;
              EvB 0 false; EvB 0 false; EvB 0 false;
              EvCall 0 (CAdd 2 1); EvC 0] in
  guarded s = true /\ fl s = [BExit FEnter; BStart] /\ cont s = [2] /\ executed s = [[1]].
Proof. vm_compute. repeat split; reflexivity. Qed.
