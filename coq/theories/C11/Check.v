(* C11 — correspondence and property evaluation on logs observed on the
   implementation under forced schedules.  Executable only.

   The controller of the Go executor performs one action at a time (start a call on
   an idle client, release one parked callback, deliver a tick, advance the clock)
   and then waits until every goroutine is blocked.  What the goroutines do in
   between is not controlled, so the model side follows ALL interleavings of the
   uncontrolled ("internal") atomic actions: [agrees] keeps the set of quiescent
   model states compatible with everything observed so far and demands that it never
   becomes empty (the observed log is a trace of the LTS). *)
From Coq Require Import List ZArith Bool.
From GZ Require Export Lib.CheckLib C11.Model.
Import ListNotations.
Open Scope Z_scope.

Inductive act :=
| AAdd (c : nat) (t : task) (w : Z) | AFlush (c : nat) | AWait (c : nat)
| ARel (m : Z)            (* release the parked callback whose smallest task is m; -1: none parked *)
| ATick | AClock (d : Z)
| AQuitGo                 (* let the flusher parked before shallQuit go on *)
| AStopGo.                (* let the quitting flusher parked inside ticker.Stop() go on *)

Record obs := mkObs
  { oidle : list bool; oparked : list batch; ocont : batch; oinfl : Z;
    oguard : bool; ocmd : bool; otick : bool; obenter : bool;
    obflush : bool;   (* a flusher is blocked in the enterExecution of a Flush (tick or deferred) *)
    oqpark : bool;    (* a flusher is parked before shallQuit *)
    ospark : bool     (* a flusher that decided to quit is parked inside ticker.Stop() *) }.

Record case := mkCase
  { cmaxw : Z; cinterval : Z; cbad : list task; cdrained : bool; cgateq : bool; cgates : bool; cn : nat;
    csteps : list (act * obs) }.

Definition cfg_of (c : case) : config := mkCfg (cmaxw c) (cinterval c) (cbad c).

(* ---------- serialisation (state equality for de-duplication) ---------- *)
Definition zb (b : bool) : Z := if b then 1 else 0.
Definition ser_batch (h : batch) : list Z := Z.of_nat (length h) :: h.
Definition ser_f (f : fpc) : list Z :=
  match f with
  | FEnter => [0] | FRemove => [1] | FExec h => 2 :: ser_batch h
  | FDone ok => [3; zb ok] | FRet ok => [4; zb ok]
  end.
Definition ser_c (p : cpc) : list Z :=
  match p with
  | CIdle => [10] | CAddLock t w => [11; t; w] | CAddSend h => 12 :: ser_batch h
  | CAddConfirm => [13] | CFl f w => 14 :: zb w :: ser_f f
  | CWSpin => [15] | CWGuard => [16] | CWWait => [17]
  end.
Definition ser_b (p : bpc) : list Z :=
  match p with
  | BStart => [20] | BSelect c l => [21; zb c; l] | BGot h l => 22 :: l :: ser_batch h
  | BDec h => 23 :: ser_batch h | BConfirm h => 24 :: ser_batch h | BExec h => 25 :: ser_batch h
  | BDone => [26] | BTick f l => 27 :: l :: ser_f f | BQuit l => [28; l]
  | BExit f => 29 :: ser_f f | BDead => [30] | BStop => [31]
  end.
Definition ser (s : state) : list Z :=
  ser_batch (cont s) ++ [csize s] ++
  match cmd s with Some h => 1 :: ser_batch h | None => [0] end ++
  [inflight s; zb (guarded s); wg s; zb (barrier s); zb (tick s); now s;
   Z.of_nat (length (cl s)); Z.of_nat (length (fl s))] ++
  flat_map ser_c (cl s) ++ flat_map ser_b (fl s) ++
  [Z.of_nat (length (executed s)); Z.of_nat (length (lost s)); Z.of_nat (length (accepted s))].

Definition mem_ser (x : list Z) (l : list (list Z)) : bool := existsb (zs_eqb x) l.

(* ---------- controlled vs internal actions ---------- *)
Definition gated_f (f : fpc) : option batch :=
  match f with FExec (t :: h) => Some (t :: h) | _ => None end.
Definition gated_c (p : cpc) : option batch :=
  match p with CFl f _ => gated_f f | _ => None end.
Definition gated_b (p : bpc) : option batch :=
  match p with
  | BExec (t :: h) => Some (t :: h)
  | BTick f _ | BExit f => gated_f f
  | _ => None
  end.

Definition bmin (h : batch) : Z :=
  match h with [] => -1 | t :: h' => fold_left Z.min h' t end.

Definition is_quit (p : bpc) : bool := match p with BQuit _ => true | _ => false end.
Definition is_stop (p : bpc) : bool := match p with BStop => true | _ => false end.
(* which optional gates the executor uses in this case: before shallQuit, inside ticker.Stop *)
Definition gates := (bool * bool)%type.

Definition internal_succs (cfg : config) (gq : gates) (s : state) : list state :=
  flat_map (fun c =>
    match nth_error (cl s) c with
    | Some p => match gated_c p with
                | Some _ => []
                | None => match cstep cfg s c with Some s' => [s'] | None => [] end
                end
    | None => []
    end) (seq 0 (length (cl s))) ++
  flat_map (fun b =>
    match nth_error (fl s) b with
    | Some p => match gated_b p with
                | Some _ => []
                | None =>
                  if (fst gq && is_quit p) || (snd gq && is_stop p) then [] else
                  match bstep cfg s b false with Some s' => [s'] | None => [] end ++
                  match p with
                  | BSelect _ _ => match bstep cfg s b true with Some s' => [s'] | None => [] end
                  | _ => []
                  end
                end
    | None => []
    end) (seq 0 (length (fl s))).

(* all quiescent states reachable by internal actions; None = out of fuel *)
Fixpoint explore (cfg : config) (gq : gates) (fuel : nat) (todo : list state) (seen : list (list Z))
         (stable : list state) : option (list state) :=
  match fuel with
  | O => match todo with [] => Some stable | _ => None end
  | S f =>
    match todo with
    | [] => Some stable
    | s :: rest =>
      let k := ser s in
      if mem_ser k seen then explore cfg gq f rest seen stable
      else match internal_succs cfg gq s with
           | [] => explore cfg gq f rest (k :: seen) (s :: stable)
           | succ => explore cfg gq f (succ ++ rest) (k :: seen) stable
           end
    end
  end.

(* release the parked callback whose batch has minimum m *)
Definition release (cfg : config) (s : state) (m : Z) : state :=
  let cs := filter (fun c => match nth_error (cl s) c with
                             | Some p => match gated_c p with Some h => bmin h =? m | None => false end
                             | None => false end) (seq 0 (length (cl s))) in
  let bs := filter (fun b => match nth_error (fl s) b with
                             | Some p => match gated_b p with Some h => bmin h =? m | None => false end
                             | None => false end) (seq 0 (length (fl s))) in
  match cs, bs with
  | c :: _, _ => exec cfg s (EvC c)
  | [], b :: _ => exec cfg s (EvB b false)
  | [], [] => s
  end.

Definition apply_act (cfg : config) (s : state) (a : act) : state :=
  match a with
  | AAdd c t w => exec cfg s (EvCall c (CAdd t w))
  | AFlush c => exec cfg s (EvCall c CFlush)
  | AWait c => exec cfg s (EvCall c CWait)
  | ARel m => release cfg s m
  | ATick => exec cfg s EvTick
  | AClock d => exec cfg s (EvClock d)
  | AQuitGo =>
    match filter (fun b => match nth_error (fl s) b with Some p => is_quit p | None => false end)
                 (seq 0 (length (fl s))) with
    | b :: _ => exec cfg s (EvB b false)
    | [] => s
    end
  | AStopGo =>
    match filter (fun b => match nth_error (fl s) b with Some p => is_stop p | None => false end)
                 (seq 0 (length (fl s))) with
    | b :: _ => exec cfg s (EvB b false)
    | [] => s
    end
  end.

(* ---------- projection ---------- *)
Fixpoint insert_batch (x : batch) (l : list batch) : list batch :=
  match l with
  | [] => [x]
  | y :: l' => if bmin x <=? bmin y then x :: l else y :: insert_batch x l'
  end.
Definition sort_batches (l : list batch) : list batch := fold_right insert_batch [] l.

Definition opt_list {A} (o : option A) : list A := match o with Some x => [x] | None => [] end.

Definition parked_of (s : state) : list batch :=
  sort_batches (flat_map (fun p => opt_list (gated_c p)) (cl s) ++
                flat_map (fun p => opt_list (gated_b p)) (fl s)).

Definition is_idle (p : cpc) : bool := match p with CIdle => true | _ => false end.
Definition is_got (p : bpc) : bool := match p with BGot _ _ => true | _ => false end.

Definition is_bflush (p : bpc) : bool :=
  match p with BTick FEnter _ | BExit FEnter => true | _ => false end.

Definition project (gq : gates) (s : state) : obs :=
  mkObs (map is_idle (cl s)) (parked_of s) (cont s) (inflight s) (guarded s)
        (match cmd s with Some _ => true | None => false end)
        (tick s && existsb ticker_live (fl s)) (existsb is_got (fl s))
        (existsb is_bflush (fl s)) (fst gq && existsb is_quit (fl s))
        (snd gq && existsb is_stop (fl s)).

Definition obs_eqb (a b : obs) : bool :=
  list_eqb Bool.eqb (oidle a) (oidle b) && list_eqb zs_eqb (oparked a) (oparked b) &&
  zs_eqb (ocont a) (ocont b) && (oinfl a =? oinfl b) && Bool.eqb (oguard a) (oguard b) &&
  Bool.eqb (ocmd a) (ocmd b) && Bool.eqb (otick a) (otick b) && Bool.eqb (obenter a) (obenter b) &&
  Bool.eqb (obflush a) (obflush b) && Bool.eqb (oqpark a) (oqpark b) &&
  Bool.eqb (ospark a) (ospark b).

Definition FUEL : nat := 4000.

Fixpoint dedup (l : list state) (seen : list (list Z)) : list state :=
  match l with
  | [] => []
  | s :: l' => if mem_ser (ser s) seen then dedup l' seen else s :: dedup l' (ser s :: seen)
  end.

(* one controller step on a set of candidate states *)
Definition macro (cfg : config) (gq : gates) (S : list state) (a : act) (o : obs) : option (list state) :=
  match explore cfg gq FUEL (map (fun s => apply_act cfg s a) S) [] [] with
  | None => None
  | Some st => Some (dedup (filter (fun s => obs_eqb (project gq s) o) st) [])
  end.

Fixpoint follow (cfg : config) (gq : gates) (S : list state) (steps : list (act * obs)) : bool :=
  match steps with
  | [] => true
  | (a, o) :: rest =>
    match macro cfg gq S a o with
    | Some (s :: S') => follow cfg gq (s :: S') rest
    | _ => false
    end
  end.

(* the observed log is a trace of the model *)
Definition agrees (c : case) : bool := follow (cfg_of c) (cgateq c, cgates c) [init (cn c)] (csteps c).

(* what the model allows after the longest prefix it can follow (diagnostics) *)
Fixpoint follow_diag (cfg : config) (gq : gates) (S : list state) (steps : list (act * obs)) (i : Z)
  : Z * list obs :=
  match steps with
  | [] => (-1, [])
  | (a, o) :: rest =>
    match macro cfg gq S a o with
    | Some (s :: S') => follow_diag cfg gq (s :: S') rest (i + 1)
    | _ => (i, match explore cfg gq FUEL (map (fun s => apply_act cfg s a) S) [] [] with
               | Some st => map (project gq) st | None => [] end)
    end
  end.
Definition model_obs (c : case) : Z * list obs := follow_diag (cfg_of c) (cgateq c, cgates c) [init (cn c)] (csteps c) 0.

(* ---------- the property on the observed log (independent of the model) ---------- *)
Definition nth_idle (o : obs) (c : nat) : bool := nth c (oidle o) false.

Definition obs0 (n : nat) : obs := mkObs (repeat true n) [] [] 0 false false false false false false false.

Definition zmem (x : Z) (l : list Z) : bool := existsb (Z.eqb x) l.
Fixpoint nodup_z (l : list Z) : bool :=
  match l with [] => true | x :: l' => negb (zmem x l') && nodup_z l' end.
Definition subset_z (a b : list Z) : bool := forallb (fun x => zmem x b) a.
Definition perm_z (a b : list Z) : bool := zs_eqb (sort_z a) (sort_z b).

(* log analysis state *)
Record an := mkAn
  { a_prev : obs;                       (* observation before the current step *)
    a_started : list task;              (* tasks whose Add has been started *)
    a_returned : list task;             (* tasks whose Add has returned *)
    a_pending : list (nat * task);      (* Add calls in progress: client, task *)
    a_completed : list task;            (* tasks whose callback was released (returned or panicked) *)
    a_waits : list (nat * list task);   (* Wait calls in progress: client, tasks added before it started *)
    a_ok : bool }.

Definition find_parked (o : obs) (m : Z) : batch :=
  match filter (fun h => bmin h =? m) (oparked o) with h :: _ => h | [] => [] end.

Definition an_step (a : an) (st : act * obs) : an :=
  let '(ac, o) := st in
  let prev := a_prev a in
  (* 1. the controller action *)
  let started := match ac with
                 | AAdd c t _ => if nth_idle prev c then a_started a ++ [t] else a_started a
                 | _ => a_started a end in
  let pending := match ac with
                 | AAdd c t _ => if nth_idle prev c then a_pending a ++ [(c, t)] else a_pending a
                 | _ => a_pending a end in
  let waits := match ac with
               | AWait c => if nth_idle prev c then a_waits a ++ [(c, a_returned a)] else a_waits a
               | _ => a_waits a end in
  let released := match ac with ARel m => find_parked prev m | _ => [] end in
  let completed := a_completed a ++ released in
  (* 2. calls that returned during this step *)
  let ret_now := filter (fun ct => nth_idle o (fst ct)) pending in
  let returned := a_returned a ++ map snd ret_now in
  let pending' := filter (fun ct => negb (nth_idle o (fst ct))) pending in
  let waits_done := filter (fun cw => nth_idle o (fst cw)) waits in
  let waits' := filter (fun cw => negb (nth_idle o (fst cw))) waits in
  (* Wait returns only after the callbacks for all tasks added before it have returned *)
  let wait_ok := forallb (fun cw => subset_z (snd cw) completed) waits_done in
  (* conservation: what is visible is duplicate-free and was accepted; when no Add is
     in progress, everything accepted is visible *)
  let visible := completed ++ concat (oparked o) ++ ocont o in
  let cons_ok := nodup_z visible && subset_z visible started &&
                 (match pending' with [] => perm_z visible started | _ => true end) &&
                 (* pending tasks have an owner: a live flusher loop, or a flusher about to flush *)
                 (match ocont o with [] => true | _ => oguard o || obflush o || ospark o end) in
  mkAn o started returned pending' completed waits' (a_ok a && wait_ok && cons_ok).

Definition analyse (c : case) : an :=
  fold_left an_step (csteps c) (mkAn (obs0 (cn c)) [] [] [] [] [] true).

(* at the end of a log that ends with a drain (releases, a Wait, releases) every call
   has returned, nothing is parked, and every accepted task has been executed *)
Definition final_ok (a : an) : bool :=
  forallb (fun b => b) (oidle (a_prev a)) &&
  match oparked (a_prev a) with [] => true | _ => false end &&
  perm_z (a_completed a) (a_started a).

Definition prop_ok (c : case) : bool :=
  let a := analyse c in
  a_ok a && (if cdrained c then final_ok a else true).
