(* C11 — correspondence and property evaluation on logs observed on the
   implementation under forced schedules.  Executable only.

   The controller of the Go executor runs SEVERAL executor instances at once and performs one
   action at a time (start a call on an idle client of one instance, release one parked callback,
   deliver a tick, advance the shared clock, proc.Shutdown()) and then waits until every goroutine
   is blocked; it then records every instance.  A [case] is the list of the per-instance logs
   (an action on another instance appears as [ANop]: nothing may change here).  What the
   goroutines do in between is not controlled, so the model side follows ALL interleavings of the
   uncontrolled ("internal") atomic actions: [agrees] keeps, per instance, the set of quiescent
   model states compatible with everything observed so far and demands that it never becomes
   empty (the observed log is a trace of the LTS).  [prop_ok] judges the property on the log
   alone; it includes that a batch reads the same when its callback returns as when it started. *)
From Coq Require Import List ZArith Bool Orders Sorting.Mergesort FMapPositive.
From GZ Require Export Lib.CheckLib C11.Model C11.Containers.
Import ListNotations.
Open Scope Z_scope.

(* long lists of consecutive task ids are written as runs (first, length) in the case terms *)
Fixpoint zseq (t : Z) (n : nat) : list Z :=
  match n with O => [] | S n' => t :: zseq (t + 1) n' end.
Definition zruns (l : list (Z * nat)) : list Z := flat_map (fun p => zseq (fst p) (snd p)) l.

Inductive act :=
| AAdd (c : nat) (t : task) (w : Z)
| AAddS (c : nat) (t : task) (w : Z)
     (* Add by a producer that is parked between addAndCheck and the send on commander (if it
        removed a threshold batch) until [ASendGo]; all Adds of the clients in [csplit] are such *)
| ASendGo (c : nat)       (* let that producer go on; done only while the commander channel is empty *)
| AAddN (c : nat) (first : Z) (n : nat)   (* n Adds of weight 1 in a row by client c: first, first+1, ... *)
| AFlush (c : nat) | AWait (c : nat)
| ASync (c : nat) (snap : option batch)   (* Sync(fn); snap: the container as fn saw it (if fn looked) *)
| ARel (m : Z) (endb : batch)
     (* release the parked callback whose smallest task is m (-1: none parked); endb: the content
        of its batch as the callback read it again just before it returned *)
| ATick | AClock (d : Z)
| AQuitGo                 (* let the flusher parked before shallQuit go on *)
| AStopGo                 (* let the quitting flusher parked inside ticker.Stop() go on *)
| AShutdown               (* proc.Shutdown(): the executor's shutdown listener calls Flush on a goroutine of its own *)
| ANop.                   (* the controller acted on ANOTHER executor instance: nothing may change here *)

Record obs := mkObs
  { oidle : list bool; oparked : list batch; ocont : batch; osize : Z; oinfl : Z;
    oguard : bool; ocmd : bool; otick : bool; obenter : bool;
    obflush : bool;   (* a flusher is blocked in the enterExecution of a Flush (tick or deferred) *)
    oqpark : bool;    (* a flusher is parked before shallQuit *)
    ospark : bool;    (* a flusher that decided to quit is parked inside ticker.Stop() *)
    osplit : list bool (* per client: parked between addAndCheck and the send on commander *) }.

(* the log of ONE executor instance; a case is the list of the instances that ran at once *)
Record icase := mkCase
  { cmaxw : Z; cinterval : Z; cbad : list task; cdrained : bool;
    cerr : bool;       (* the executor could not finish the history (no quiescence, shutdown never returned) *)
    cgateq : bool; cgates : bool; cn : nat;
    csplit : list nat;   (* clients whose Adds are parked before the send on commander (AAddS) *)
    ckd : ckind; cemp : cempty;   (* the instance's container (Containers.shape_of) *)
    cremoved : list (batch * bval);
       (* every value RemoveAll handed out during the history: the tasks the container put into it
          and what reflect says about the value (kind, Len() of collections, IsZero()) *)
    csteps : list (act * obs) }.
Definition case := list icase.

Definition cfg_of (c : icase) : config :=
  container_cfg (cmaxw c) (cinterval c) (cbad c) (shape_of (ckd c) (cemp c)).

Definition rkind_code (k : rkind) : Z :=
  match k with
  | KNil => 0 | KArray => 1 | KChan => 2 | KMap => 3 | KSlice => 4 | KStruct => 5 | KInt => 6
  | KString => 7 | KBool => 8 | KPtr => 9 | KOther => 10
  end.
Definition bval_eqb (a b : bval) : bool :=
  (rkind_code (bv_kind a) =? rkind_code (bv_kind b)) && (bv_len a =? bv_len b) &&
  Bool.eqb (bv_zero a) (bv_zero b).
(* the model's rendering of every batch handed out is what the executor saw *)
Definition removed_ok (c : icase) : bool :=
  forallb (fun r => bval_eqb (shape_of (ckd c) (cemp c) (fst r)) (snd r)) (cremoved c).

(* ---------- serialisation (state equality for de-duplication) ---------- *)
Definition zb (b : bool) : Z := if b then 1 else 0.
Definition ser_batch (h : batch) : list Z := Z.of_nat (length h) :: h.
(* a short digest of a batch (for hashing only) *)
Definition dig_batch (h : batch) : list Z :=
  [Z.of_nat (length h); match h with [] => 0 | t :: _ => t end].
Section Ser.
Variable sb : batch -> list Z.
Definition ser_f (f : fpc) : list Z :=
  match f with
  | FEnter => [0] | FRemove => [1] | FExec h => 2 :: sb h
  | FDone ok => [3; zb ok] | FRet ok => [4; zb ok]
  end.
Definition ser_c (p : cpc) : list Z :=
  match p with
  | CIdle => [10] | CAddLock t w => [11; t; w] | CAddSend h => 12 :: sb h
  | CAddConfirm => [13] | CFl f w => 14 :: zb w :: ser_f f
  | CWSpin => [15] | CWGuard => [16] | CWWait => [17] | CSyncRun => [18]
  end.
Definition ser_b (p : bpc) : list Z :=
  match p with
  | BStart => [20] | BSelect c l => [21; zb c; l] | BGot h l => 22 :: l :: sb h
  | BDec h => 23 :: sb h | BConfirm h => 24 :: sb h | BExec h => 25 :: sb h
  | BDone => [26] | BTick f l => 27 :: l :: ser_f f | BQuit l => [28; l]
  | BExit f => 29 :: ser_f f | BDead => [30] | BStop => [31]
  end.
Definition ser_gen (s : state) : list Z :=
  sb (cont s) ++ [csize s] ++
  match cmd s with Some h => 1 :: sb h | None => [0] end ++
  [inflight s; zb (guarded s); wg s; zb (barrier s); zb (tick s); now s;
   Z.of_nat (length (cl s)); Z.of_nat (length (fl s))] ++
  flat_map ser_c (cl s) ++ flat_map ser_b (fl s) ++
  [Z.of_nat (length (executed s)); Z.of_nat (length (lost s)); Z.of_nat (length (accepted s))].
End Ser.
Definition ser : state -> list Z := ser_gen ser_batch.
Definition digest : state -> list Z := ser_gen dig_batch.

Definition mem_ser (x : list Z) (l : list (list Z)) : bool := existsb (zs_eqb x) l.

(* ---------- controlled vs internal actions ---------- *)
(* a callback parks iff Execute is called (hasTasks) and the batch holds tasks; Execute on a batch
   without tasks (an idle aggregate of an unknown kind) returns at once: an internal action *)
Definition gated_h (cfg : config) (h : batch) : option batch :=
  match h with
  | t :: h' => if runs cfg h then Some h else None
  | [] => None
  end.
Definition gated_f (cfg : config) (f : fpc) : option batch :=
  match f with FExec h => gated_h cfg h | _ => None end.
Definition gated_c (cfg : config) (p : cpc) : option batch :=
  match p with CFl f _ => gated_f cfg f | _ => None end.
Definition gated_b (cfg : config) (p : bpc) : option batch :=
  match p with
  | BExec h => gated_h cfg h
  | BTick f _ | BExit f => gated_f cfg f
  | _ => None
  end.

Definition bmin (h : batch) : Z :=
  match h with [] => -1 | t :: h' => fold_left Z.min h' t end.

Definition is_quit (p : bpc) : bool := match p with BQuit _ => true | _ => false end.
Definition is_stop (p : bpc) : bool := match p with BStop => true | _ => false end.
(* which optional gates the executor uses in this case: before shallQuit, inside ticker.Stop, and the
   clients whose Adds are parked before the send on commander *)
Definition gates := (bool * bool * list nat)%type.
Definition gq_quit (g : gates) : bool := fst (fst g).
Definition gq_stop (g : gates) : bool := snd (fst g).
Definition gq_split (g : gates) : list nat := snd g.
Definition split_parked (g : gates) (c : nat) (p : cpc) : bool :=
  match p with CAddSend _ => existsb (Nat.eqb c) (gq_split g) | _ => false end.

Definition internal_succs (cfg : config) (gq : gates) (s : state) : list state :=
  flat_map (fun c =>
    match nth_error (cl s) c with
    | Some p => match gated_c cfg p with
                | Some _ => []
                | None => if split_parked gq c p then [] else
                          match cstep cfg s c with Some s' => [s'] | None => [] end
                end
    | None => []
    end) (seq 0 (length (cl s))) ++
  flat_map (fun b =>
    match nth_error (fl s) b with
    | Some p => match gated_b cfg p with
                | Some _ => []
                | None =>
                  if (gq_quit gq && is_quit p) || (gq_stop gq && is_stop p) then [] else
                  match bstep cfg s b false with Some s' => [s'] | None => [] end ++
                  match p with
                  | BSelect _ _ => match bstep cfg s b true with Some s' => [s'] | None => [] end
                  | _ => []
                  end
                end
    | None => []
    end) (seq 0 (length (fl s))).

(* the set of serialised states already expanded: buckets by a hash of the serialisation
   (exact: equality is decided on the serialisations inside a bucket) *)
Definition hash_ser (k : list Z) : positive :=
  Z.to_pos (1 + fold_left (fun h x => (h * 31 + x mod 1000003 + 7) mod 1000003) k 7).
Definition seen_t := PositiveMap.t (list (list Z)).
Definition seen_mem (k : list Z) (h : positive) (m : seen_t) : bool :=
  match PositiveMap.find h m with Some b => mem_ser k b | None => false end.
Definition seen_add (k : list Z) (h : positive) (m : seen_t) : seen_t :=
  PositiveMap.add h (k :: match PositiveMap.find h m with Some b => b | None => [] end) m.

(* all quiescent states reachable by internal actions; None = out of fuel.  Small explorations
   (nearly all) keep the expanded states in a plain list; only when that runs out of fuel is the
   exploration redone with the hashed set *)
Fixpoint explore_small (cfg : config) (gq : gates) (fuel : nat) (todo : list state) (seen : list (list Z))
         (stable : list state) : option (list state) :=
  match fuel with
  | O => match todo with [] => Some stable | _ => None end
  | S f =>
    match todo with
    | [] => Some stable
    | s :: rest =>
      let k := ser s in
      if mem_ser k seen then explore_small cfg gq f rest seen stable
      else match internal_succs cfg gq s with
           | [] => explore_small cfg gq f rest (k :: seen) (s :: stable)
           | succ => explore_small cfg gq f (succ ++ rest) (k :: seen) stable
           end
    end
  end.

Fixpoint explore_big (cfg : config) (gq : gates) (fuel : nat) (todo : list state) (seen : seen_t)
         (stable : list state) : option (list state) :=
  match fuel with
  | O => match todo with [] => Some stable | _ => None end
  | S f =>
    match todo with
    | [] => Some stable
    | s :: rest =>
      let k := ser s in
      let h := hash_ser (digest s) in
      if seen_mem k h seen then explore_big cfg gq f rest seen stable
      else match internal_succs cfg gq s with
           | [] => explore_big cfg gq f rest (seen_add k h seen) (s :: stable)
           | succ => explore_big cfg gq f (succ ++ rest) (seen_add k h seen) stable
           end
    end
  end.

Definition explore (cfg : config) (gq : gates) (fuel : nat) (todo : list state) : option (list state) :=
  match explore_small cfg gq 400 todo [] [] with
  | Some st => Some st
  | None => explore_big cfg gq fuel todo (PositiveMap.empty _) []
  end.

(* release the parked callback whose batch has minimum m; its batch must still be what the
   implementation's callback read on return *)
Definition release (cfg : config) (s : state) (m : Z) (endb : batch) : option state :=
  let cs := filter (fun c => match nth_error (cl s) c with
                             | Some p => match gated_c cfg p with Some h => bmin h =? m | None => false end
                             | None => false end) (seq 0 (length (cl s))) in
  let bs := filter (fun b => match nth_error (fl s) b with
                             | Some p => match gated_b cfg p with Some h => bmin h =? m | None => false end
                             | None => false end) (seq 0 (length (fl s))) in
  match cs, bs with
  | c :: _, _ =>
    match nth_error (cl s) c with
    | Some p => match gated_c cfg p with
                | Some h => if zs_eqb h endb then Some (exec cfg s (EvC c)) else None
                | None => None end
    | None => None
    end
  | [], b :: _ =>
    match nth_error (fl s) b with
    | Some p => match gated_b cfg p with
                | Some h => if zs_eqb h endb then Some (exec cfg s (EvB b false)) else None
                | None => None end
    | None => None
    end
  | [], [] => match endb with [] => Some s | _ => None end
  end.

Fixpoint add_n (cfg : config) (s : state) (c : nat) (t : Z) (n : nat) : state :=
  match n with
  | O => s
  | S n' => add_n cfg (exec cfg (exec cfg s (EvCall c (CAdd t 1))) (EvC c)) c (t + 1) n'
  end.

(* n: number of real clients; client n of the model is the goroutine of the shutdown listener.
   None: what the implementation reported is impossible in this model state *)
Definition apply_act (cfg : config) (n : nat) (s : state) (a : act) : option state :=
  match a with
  | AAdd c t w => Some (exec cfg s (EvCall c (CAdd t w)))
  | AAddS c t w => Some (exec cfg s (EvCall c (CAdd t w)))
  | ASendGo c =>
    match nth_error (cl s) c, cmd s with
    | Some (CAddSend _), None => Some (exec cfg s (EvC c))
    | _, _ => None
    end
  | AAddN c t k =>
    match nth_error (cl s) c with
    | Some CIdle => Some (add_n cfg s c t k)
    | _ => Some s          (* the client is inside a call: the controller did not start anything *)
    end
  | AFlush c => Some (exec cfg s (EvCall c CFlush))
  | AWait c => Some (exec cfg s (EvCall c CWait))
  | ASync c snap =>
    match snap with
    | Some h => if zs_eqb h (cont s) then Some (exec cfg s (EvCall c CSync)) else None
    | None => Some (exec cfg s (EvCall c CSync))
    end
  | ARel m e => release cfg s m e
  | ATick => Some (exec cfg s EvTick)
  | AClock d => Some (exec cfg s (EvClock d))
  | AQuitGo =>
    match filter (fun b => match nth_error (fl s) b with Some p => is_quit p | None => false end)
                 (seq 0 (length (fl s))) with
    | b :: _ => Some (exec cfg s (EvB b false))
    | [] => Some s
    end
  | AStopGo =>
    match filter (fun b => match nth_error (fl s) b with Some p => is_stop p | None => false end)
                 (seq 0 (length (fl s))) with
    | b :: _ => Some (exec cfg s (EvB b false))
    | [] => Some s
    end
  | AShutdown => Some (exec cfg s (EvCall n CFlush))
  | ANop => Some s
  end.

(* ---------- projection ---------- *)
Fixpoint insert_batch (x : batch) (l : list batch) : list batch :=
  match l with
  | [] => [x]
  | y :: l' => if bmin x <=? bmin y then x :: l else y :: insert_batch x l'
  end.
Definition sort_batches (l : list batch) : list batch := fold_right insert_batch [] l.

Definition opt_list {A} (o : option A) : list A := match o with Some x => [x] | None => [] end.

Definition parked_of (cfg : config) (s : state) : list batch :=
  sort_batches (flat_map (fun p => opt_list (gated_c cfg p)) (cl s) ++
                flat_map (fun p => opt_list (gated_b cfg p)) (fl s)).

Definition is_idle (p : cpc) : bool := match p with CIdle => true | _ => false end.
Definition is_got (p : bpc) : bool := match p with BGot _ _ => true | _ => false end.

Definition is_bflush (p : bpc) : bool :=
  match p with BTick FEnter _ | BExit FEnter => true | _ => false end.

Fixpoint split_flags (gq : gates) (i : nat) (l : list cpc) : list bool :=
  match l with [] => [] | p :: l' => split_parked gq i p :: split_flags gq (S i) l' end.

Definition project (cfg : config) (gq : gates) (n : nat) (s : state) : obs :=
  mkObs (firstn n (map is_idle (cl s))) (parked_of cfg s) (cont s) (csize s) (inflight s) (guarded s)
        (match cmd s with Some _ => true | None => false end)
        (tick s && existsb ticker_live (fl s)) (existsb is_got (fl s))
        (existsb is_bflush (fl s)) (gq_quit gq && existsb is_quit (fl s))
        (gq_stop gq && existsb is_stop (fl s)) (firstn n (split_flags gq 0 (cl s))).

Definition obs_eqb (a b : obs) : bool :=
  list_eqb Bool.eqb (oidle a) (oidle b) && list_eqb zs_eqb (oparked a) (oparked b) &&
  zs_eqb (ocont a) (ocont b) && (osize a =? osize b) && (oinfl a =? oinfl b) && Bool.eqb (oguard a) (oguard b) &&
  Bool.eqb (ocmd a) (ocmd b) && Bool.eqb (otick a) (otick b) && Bool.eqb (obenter a) (obenter b) &&
  Bool.eqb (obflush a) (obflush b) && Bool.eqb (oqpark a) (oqpark b) &&
  Bool.eqb (ospark a) (ospark b) && list_eqb Bool.eqb (osplit a) (osplit b).

Definition FUEL : nat := Nat.mul 400 500.

Fixpoint dedup (l : list state) (seen : list (list Z)) : list state :=
  match l with
  | [] => []
  | s :: l' => if mem_ser (ser s) seen then dedup l' seen else s :: dedup l' (ser s :: seen)
  end.

(* one controller step on a set of candidate states *)
Definition after_act (cfg : config) (n : nat) (S : list state) (a : act) : list state :=
  flat_map (fun s => opt_list (apply_act cfg n s a)) S.

Definition macro (cfg : config) (gq : gates) (n : nat) (S : list state) (a : act) (o : obs) : option (list state) :=
  match a with
  | ANop => (* the candidates are quiescent already and nothing was done to this instance *)
    Some (filter (fun s => obs_eqb (project cfg gq n s) o) S)
  | _ =>
    match explore cfg gq FUEL (after_act cfg n S a) with
    | None => None
    | Some st => Some (dedup (filter (fun s => obs_eqb (project cfg gq n s) o) st) [])
    end
  end.

Fixpoint follow (cfg : config) (gq : gates) (n : nat) (S : list state) (steps : list (act * obs)) : bool :=
  match steps with
  | [] => true
  | (a, o) :: rest =>
    match macro cfg gq n S a o with
    | Some (s :: S') => follow cfg gq n (s :: S') rest
    | _ => false
    end
  end.

(* the observed log of one instance is a trace of the model (n real clients + the shutdown listener) *)
Definition agrees_i (c : icase) : bool :=
  removed_ok c &&
  follow (cfg_of c) (cgateq c, cgates c, csplit c) (cn c) [init (S (cn c))] (csteps c).
Definition agrees (cs : case) : bool := forallb agrees_i cs.

(* what the model allows after the longest prefix it can follow (diagnostics) *)
Fixpoint follow_diag (cfg : config) (gq : gates) (n : nat) (S : list state) (steps : list (act * obs)) (i : Z)
  : Z * list obs :=
  match steps with
  | [] => (-1, [])
  | (a, o) :: rest =>
    match macro cfg gq n S a o with
    | Some (s :: S') => follow_diag cfg gq n (s :: S') rest (i + 1)
    | _ => (i, match explore cfg gq FUEL (after_act cfg n S a) with
               | Some st => map (project cfg gq n) st | None => [] end)
    end
  end.
Definition model_obs_i (c : icase) : Z * list obs :=
  follow_diag (cfg_of c) (cgateq c, cgates c, csplit c) (cn c) [init (S (cn c))] (csteps c) 0.
(* per instance: index of the first step the model cannot follow (-1: none) and what it allows there *)
Definition model_obs (cs : case) : list (Z * list obs) :=
  map (fun c => let r := model_obs_i c in if fst r =? -1 then (-1, []) else r) cs.

(* ---------- the property on the observed log (independent of the model) ---------- *)
Definition nth_idle (o : obs) (c : nat) : bool := nth c (oidle o) false.

Definition obs0 (n : nat) : obs := mkObs (repeat true n) [] [] 0 0 false false false false false false false (repeat false n).

(* sets of tasks as sorted lists (merge sort: the BulkInserter cases carry thousands of rows) *)
Module ZOrder <: TotalLeBool.
  Definition t := Z.
  Definition leb := Z.leb.
  Theorem leb_total : forall a1 a2, leb a1 a2 = true \/ leb a2 a1 = true.
  Proof.
    intros a1 a2. unfold leb. destruct (Z.leb_spec a1 a2); [now left|right].
    apply Z.leb_le, Z.lt_le_incl; assumption.
  Qed.
End ZOrder.
Module ZSort := Sort ZOrder.
Definition msort (l : list Z) : list Z := ZSort.sort l.

Fixpoint sorted_nodup (l : list Z) : bool :=
  match l with
  | x :: (y :: _) as t => negb (x =? y) && sorted_nodup t
  | _ => true
  end.
(* a, b sorted: every element of a occurs in b *)
Fixpoint sub_sorted (fuel : nat) (a b : list Z) : bool :=
  match fuel with
  | O => match a with [] => true | _ => false end
  | S f =>
    match a, b with
    | [], _ => true
    | _ :: _, [] => false
    | x :: a', y :: b' =>
      if x =? y then sub_sorted f a' b
      else if y <? x then sub_sorted f a b' else false
    end
  end.
Definition nodup_z (l : list Z) : bool := sorted_nodup (msort l).
Definition subset_z (a b : list Z) : bool :=
  sub_sorted (S (length a + length b)) (msort a) (msort b).
Definition perm_z (a b : list Z) : bool := zs_eqb (msort a) (msort b).

(* log analysis state *)
Record an := mkAn
  { a_prev : obs;                       (* observation before the current step *)
    a_started : list task;              (* tasks whose Add has been started *)
    a_returned : list task;             (* tasks whose Add has returned *)
    a_pending : list (nat * task);      (* Add calls in progress: client, task *)
    a_completed : list task;            (* tasks whose callback was released (returned or panicked) *)
    a_waits : list (nat * list task);   (* Wait calls in progress: client, tasks added before it started *)
    a_flushes : list (nat * list task); (* Flush calls in progress: client, tasks added before it started *)
    a_tick1 : option batch;
       (* Some C: the previous step was a tick delivered while a flusher was alive (guarded), no call was in
          progress, no callback parked, no flusher held at a gate, and C was in the container *)
    a_ok : bool }.

Definition find_parked (o : obs) (m : Z) : batch :=
  match filter (fun h => bmin h =? m) (oparked o) with h :: _ => h | [] => [] end.

Definition an_step (a : an) (st : act * obs) : an :=
  let '(ac, o) := st in
  let prev := a_prev a in
  (* 1. the controller action *)
  let new_tasks := match ac with
                   | AAdd c t _ | AAddS c t _ => if nth_idle prev c then [(c, t)] else []
                   | AAddN c t n => if nth_idle prev c then map (fun x => (c, x)) (zseq t n) else []
                   | _ => [] end in
  let started := a_started a ++ map snd new_tasks in
  let pending := a_pending a ++ new_tasks in
  let waits := match ac with
               | AWait c => if nth_idle prev c then a_waits a ++ [(c, a_returned a)] else a_waits a
               | _ => a_waits a end in
  let flushes := match ac with
                 | AFlush c => if nth_idle prev c then a_flushes a ++ [(c, a_returned a)] else a_flushes a
                 | _ => a_flushes a end in
  (* the periodic flush: the second of two ticks in a row (the first one may only reset `commanded`) has
     taken everything that was pending out of the container - also for a flusher restarted after an idle quit *)
  let calm := forallb (fun b => b) (oidle prev) && match oparked prev with [] => true | _ => false end &&
              oguard prev && negb (oqpark prev) && negb (ospark prev) && negb (obenter prev) in
  let tick1 := match ac with
               | ATick => if calm then match ocont prev with [] => None | C => Some C end else None
               | _ => None end in
  let tick_ok := match ac, a_tick1 a with
                 | ATick, Some C => forallb (fun t => negb (existsb (Z.eqb t) (ocont o))) C
                 | _, _ => true end in
  let released := match ac with ARel m _ => find_parked prev m | _ => [] end in
  (* the batch a callback holds is the same when the callback returns as when it started, and
     Sync's fn sees the container as it is *)
  let content_ok := match ac with
                    | ARel _ e => zs_eqb e released
                    | ASync c (Some h) => if nth_idle prev c then zs_eqb h (ocont prev) else true
                    | _ => true end in
  let completed := a_completed a ++ released in
  (* 2. calls that returned during this step *)
  let ret_now := filter (fun ct => nth_idle o (fst ct)) pending in
  let returned := a_returned a ++ map snd ret_now in
  let pending' := filter (fun ct => negb (nth_idle o (fst ct))) pending in
  let waits_done := filter (fun cw => nth_idle o (fst cw)) waits in
  let waits' := filter (fun cw => negb (nth_idle o (fst cw))) waits in
  (* Wait returns only after the callbacks for all tasks added before it have returned *)
  let wait_ok := forallb (fun cw => subset_z (snd cw) completed) waits_done in
  (* an explicit Flush returns only when nothing added before it is left in the container *)
  let flushes_done := filter (fun cw => nth_idle o (fst cw)) flushes in
  let flushes' := filter (fun cw => negb (nth_idle o (fst cw))) flushes in
  let flush_ok := forallb (fun cw => forallb (fun t => negb (existsb (Z.eqb t) (ocont o))) (snd cw)) flushes_done in
  (* conservation: what is visible is duplicate-free and was accepted; when no Add is
     in progress, everything accepted is visible *)
  let visible := completed ++ concat (oparked o) ++ ocont o in
  let cons_ok := nodup_z visible && subset_z visible started &&
                 (match pending' with [] => perm_z visible started | _ => true end) &&
                 (* pending tasks have an owner: a live flusher loop, or a flusher about to flush *)
                 (match ocont o with [] => true | _ => oguard o || obflush o || ospark o end) in
  mkAn o started returned pending' completed waits' flushes' tick1
       (a_ok a && wait_ok && flush_ok && tick_ok && cons_ok && content_ok).

Definition analyse (c : icase) : an :=
  fold_left an_step (csteps c) (mkAn (obs0 (cn c)) [] [] [] [] [] [] None true).

(* at the end of a log that ends with a drain (releases, a Wait, releases) every call
   has returned, nothing is parked, and every accepted task has been executed *)
Definition final_ok (a : an) : bool :=
  forallb (fun b => b) (oidle (a_prev a)) &&
  match oparked (a_prev a) with [] => true | _ => false end &&
  perm_z (a_completed a) (a_started a).

Definition prop_ok_i (c : icase) : bool :=
  let a := analyse c in
  a_ok a && negb (cerr c) && (if cdrained c then final_ok a else true).

(* tasks of different instances are different (harness), so "nothing unknown is visible" per
   instance also says that no instance shows a task of another one *)
Definition prop_ok (cs : case) : bool := forallb prop_ok_i cs.

(* diagnostics: number of candidate model states after each step of an instance's log *)
Fixpoint follow_sizes (cfg : config) (gq : gates) (n : nat) (S : list state) (steps : list (act * obs)) : list nat :=
  match steps with
  | [] => []
  | (a, o) :: rest =>
    match macro cfg gq n S a o with
    | Some S' => length S' :: follow_sizes cfg gq n S' rest
    | None => [0%nat]
    end
  end.
Definition model_sizes (cs : case) : list (list nat) :=
  map (fun c => follow_sizes (cfg_of c) (cgateq c, cgates c, csplit c) (cn c) [init (S (cn c))] (csteps c)) cs.
