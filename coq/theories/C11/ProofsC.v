(* C11 — the container's side of the contract: for which batch renderings "every accepted task
   is passed to Execute exactly once" holds, why (unknown kinds are ALWAYS executed), and that
   nothing weaker will do. *)
From Coq Require Import List ZArith Bool Lia Permutation.
From GZ Require Import C11.Model C11.ProofsA C11.Proofs C11.Containers.
Import ListNotations.
Open Scope Z_scope.

(* what hasTasks asks of a container: a batch that holds tasks is not the untyped nil and, when it
   is an array / chan / map / slice, has Len() > 0.  NOTHING is asked about the value otherwise:
   it may be the zero value of its type. *)
Definition honest (sh : batch -> bval) : Prop :=
  forall h, h <> [] ->
    bv_kind (sh h) <> KNil /\ (is_coll (bv_kind (sh h)) = true -> 0 < bv_len (sh h)).

Lemma has_tasks_spec v :
  has_tasks v = true <-> bv_kind v <> KNil /\ (is_coll (bv_kind v) = true -> 0 < bv_len v).
Proof.
  unfold has_tasks. destruct (bv_kind v) eqn:Hk; cbn; rewrite ?Z.ltb_lt;
    (split; [intros H; split; [discriminate | intros; try exact H; try discriminate]
            | intros [H1 H2]; try reflexivity; try (apply H2; reflexivity); try (exfalso; apply H1; reflexivity)]).
Qed.

(* hasTasks does not look at IsZero() *)
Lemma has_tasks_ignores_zero k l z z' : has_tasks (mkBV k l z) = has_tasks (mkBV k l z').
Proof. reflexivity. Qed.

(* the default branch: every value of a kind hasTasks cannot measure is executed *)
Lemma unknown_kinds_always_run v :
  bv_kind v <> KNil -> is_coll (bv_kind v) = false -> has_tasks v = true.
Proof. intros H1 H2. apply has_tasks_spec. split; [exact H1 | rewrite H2; discriminate]. Qed.

Lemma faithful_iff_honest mw iv bd sh : faithful (container_cfg mw iv bd sh) <-> honest sh.
Proof.
  unfold faithful, honest, container_cfg; cbn [runs]. split.
  - intros H h Hne. apply has_tasks_spec. destruct (has_tasks (sh h)) eqn:E; [reflexivity|].
    exfalso. apply Hne, H, E.
  - intros H h E. destruct h as [|t h]; [reflexivity|]. exfalso.
    assert (Hne : t :: h <> []) by discriminate.
    apply H, has_tasks_spec in Hne. congruence.
Qed.

Lemma slice_runs h : has_tasks (slice_shape h) = nonempty h.
Proof. destruct h; reflexivity. Qed.

Lemma slice_honest : honest slice_shape.
Proof. intros h Hne. apply has_tasks_spec. rewrite slice_runs. destruct h; [congruence | reflexivity]. Qed.

Lemma nonempty_faithful mw iv bd : faithful (mkCfg mw iv bd nonempty).
Proof. intros [|t h] H; [reflexivity | discriminate]. Qed.

Lemma honest_exactly_once mw iv bd sh n sched : honest sh ->
  let s := run (container_cfg mw iv bd sh) (init n) sched in
  Permutation (accepted s) (done_tasks s ++ places s).
Proof. intros H. apply (conservation_perm (container_cfg mw iv bd sh)), run_inv, faithful_iff_honest, H. Qed.

Lemma slice_faithful mw iv bd :
  faithful (container_cfg mw iv bd slice_shape) /\ (forall h, has_tasks (slice_shape h) = nonempty h).
Proof. split; [apply faithful_iff_honest, slice_honest | exact slice_runs]. Qed.

(* every container of the family the correspondence run uses keeps the contract - whatever it
   returns for "nothing added", and although some of its batches are zero values *)
Lemma family_honest k e : honest (shape_of k e).
Proof.
  intros [|t h] Hne; [congruence|]. unfold shape_of, lenz_b.
  destruct k; cbn [bv_kind bv_len is_coll]; (split; [discriminate | intros; try discriminate; cbn [length]; lia]).
Qed.

Lemma family_faithful mw iv bd k e : faithful (container_cfg mw iv bd (shape_of k e)).
Proof. apply faithful_iff_honest, family_honest. Qed.

(* ... and some of them do hand out zero values for batches with tasks *)
Lemma family_has_zero_batches :
  forall k, In k [SStruct; SInt; SString; SBool; SPtr; SIface; SArray] ->
  forall e, bv_zero (shape_of k e [0]) = true /\ has_tasks (shape_of k e [0]) = true.
Proof. intros k Hk e. cbn in Hk. decompose [or] Hk; subst; try contradiction; split; reflexivity. Qed.

(* ------------------------------------------------------------------ *)
(* Necessity: if executeTasks skips ONE batch that holds tasks, those tasks are lost on the
   simplest of schedules: one client adds them (weight 0: the threshold is not reached) and calls
   Flush.  Everything has returned, the tasks were accepted, and they are nowhere. *)

Fixpoint adds0 (h : batch) : list ev :=
  match h with
  | [] => []
  | t :: r => EvCall 0 (CAdd t 0) :: EvC 0 :: adds0 r
  end.
Definition flush0 : list ev := [EvCall 0 CFlush; EvC 0; EvC 0; EvC 0; EvC 0].

Record Q (s : state) : Prop := mkQ
  { q_cl : cl s = [CIdle]; q_sz : csize s = 0; q_ex : executed s = []; q_lo : lost s = [];
    q_cmd : cmd s = None; q_bar : barrier s = false;
    q_fl : Forall (fun p => p = BStart) (fl s) }.

Lemma add0_step cfg s t : 0 < maxw cfg -> Q s ->
  let s' := run cfg s [EvCall 0 (CAdd t 0); EvC 0] in
  Q s' /\ cont s' = cont s ++ [t] /\ accepted s' = accepted s ++ [t].
Proof.
  intros Hm [Hcl Hsz Hex Hlo Hcmd Hbar Hfl].
  destruct s as [co cs cm inf gd wgc ba ti nw cls fls ex lo ac]; cbn in *; subst.
  assert (Hle : (maxw cfg <=? 0 + 0) = false) by (apply Z.leb_gt; lia).
  unfold run, exec, step, call_step, cstep; cbn -[Z.add Z.sub Z.leb Z.eqb Z.mul Z.ltb].
  destruct gd; cbn -[Z.add Z.sub Z.leb Z.eqb Z.mul Z.ltb]; rewrite Hle;
    cbn -[Z.add Z.sub Z.leb Z.eqb Z.mul Z.ltb];
    (split; [constructor; cbn; auto | split; reflexivity]).
  apply Forall_app. split; [exact Hfl | constructor; [reflexivity | constructor]].
Qed.

Lemma adds0_run cfg : 0 < maxw cfg -> forall h s, Q s ->
  let s' := run cfg s (adds0 h) in
  Q s' /\ cont s' = cont s ++ h /\ accepted s' = accepted s ++ h.
Proof.
  intros Hm. induction h as [|t h IH]; intros s HQ.
  - cbn. rewrite !app_nil_r. auto.
  - cbn [adds0].
    change (run cfg s (EvCall 0 (CAdd t 0) :: EvC 0 :: adds0 h))
      with (run cfg (run cfg s [EvCall 0 (CAdd t 0); EvC 0]) (adds0 h)).
    destruct (add0_step cfg s t Hm HQ) as (HQ1 & Hc1 & Ha1).
    destruct (IH _ HQ1) as (HQ2 & Hc2 & Ha2). cbv zeta in *.
    split; [exact HQ2|]. rewrite Hc2, Ha2, Hc1, Ha1, <- !app_assoc. split; reflexivity.
Qed.

Lemma flat_map_bstart {A} (f : bpc -> list A) l :
  f BStart = [] -> Forall (fun p => p = BStart) l -> flat_map f l = [].
Proof.
  intros Hf H. induction H as [|p l Hp _ IH]; [reflexivity|]. cbn. subst p. rewrite Hf, IH. reflexivity.
Qed.

Lemma flush0_skips cfg s : Q s -> runs cfg (cont s) = false ->
  let s' := run cfg s flush0 in
  cl s' = [CIdle] /\ accepted s' = accepted s /\ done_tasks s' = [] /\ places s' = [].
Proof.
  intros [Hcl Hsz Hex Hlo Hcmd Hbar Hfl] Hr.
  destruct s as [co cs cm inf gd wgc ba ti nw cls fls ex lo ac];
    cbn [cl csize executed lost cmd barrier fl cont accepted] in *; subst; cbv zeta.
  set (s0 := mkSt co 0 None inf gd wgc false ti nw [CIdle] fls [] [] ac).
  set (s3 := mkSt [] 0 None inf gd (wgc + 1) false ti nw [CFl (FExec co) false] fls [] [] ac).
  assert (H3 : run cfg s0 [EvCall 0 CFlush; EvC 0; EvC 0] = s3) by reflexivity.
  assert (H4 : exec cfg s3 (EvC 0) = set_cl s3 [CFl (FDone false) false]).
  { unfold exec, step, cstep. cbn [cl s3 nth_error fstep]. rewrite Hr. reflexivity. }
  change (run cfg s0 flush0)
    with (exec cfg (exec cfg (run cfg s0 [EvCall 0 CFlush; EvC 0; EvC 0]) (EvC 0)) (EvC 0)).
  rewrite H3, H4. unfold s3. cbn -[Z.add Z.sub].
  repeat split.
  unfold places, unentered, entered, cmd_l; cbn -[Z.add Z.sub].
  rewrite !flat_map_bstart by (try exact Hfl; reflexivity). reflexivity.
Qed.

Lemma init_Q : Q (init 1).
Proof. constructor; cbn; auto. Qed.

Lemma unfaithful_loses_tasks_l cfg h : 0 < maxw cfg -> h <> [] -> runs cfg h = false ->
  let s := run cfg (init 1) (adds0 h ++ flush0) in
  cl s = [CIdle] /\ accepted s = h /\ done_tasks s = [] /\ places s = [] /\
  ~ Permutation (accepted s) (done_tasks s ++ places s).
Proof.
  intros Hm Hne Hr s. unfold s. rewrite run_app.
  destruct (adds0_run cfg Hm h (init 1) init_Q) as (HQ & Hc & Ha). cbv zeta in *. cbn in Hc, Ha.
  rewrite <- Hc in Hr.
  destruct (flush0_skips cfg _ HQ Hr) as (H1 & H2 & H3 & H4). cbv zeta in *.
  rewrite Ha in H2.
  repeat split; try assumption.
  rewrite H2, H3, H4. cbn. intros HP. apply Permutation_sym, Permutation_nil in HP. congruence.
Qed.

(* ------------------------------------------------------------------ *)
(* the seeded hasTasks (default branch: !IsZero) *)

Lemma iszero_same_on_measured_kinds v :
  bv_kind v = KNil \/ is_coll (bv_kind v) = true -> has_tasks_iszero v = has_tasks v.
Proof. unfold has_tasks_iszero, has_tasks. destruct (bv_kind v); cbn; intros [H|H]; congruence. Qed.

Lemma iszero_differs_exactly v :
  has_tasks_iszero v <> has_tasks v <->
  bv_kind v <> KNil /\ is_coll (bv_kind v) = false /\ bv_zero v = true.
Proof.
  unfold has_tasks_iszero, has_tasks. destruct (bv_kind v); cbn; destruct (bv_zero v); cbn;
    (split; [intros H; try (exfalso; apply H; reflexivity); repeat split; discriminate
            | intros (H1 & H2 & H3); try discriminate; try (exfalso; apply H1; reflexivity)]).
Qed.

(* the slice containers cannot tell the two apart *)
Lemma iszero_slice h : has_tasks_iszero (slice_shape h) = has_tasks (slice_shape h).
Proof. apply iszero_same_on_measured_kinds. right. reflexivity. Qed.
