(* C11 — invariants of the executor LTS over all schedules, and the property lemmas. *)
From Coq Require Import List ZArith Bool Lia Permutation.
From GZ Require Import C11.Model C11.ProofsA.
Import ListNotations.
Open Scope Z_scope.

(* ------------------------------------------------------------------ *)
(* all events, all schedules *)

Lemma mono_refl mu e s : Mono mu e s s.
Proof. constructor; intros; try split; lia. Qed.

Lemma step_facts cfg s e s' : Inv cfg s -> step cfg s e = Some s' ->
  Inv cfg s' /\ forall mu, additive mu -> Mono mu e s s'.
Proof.
  intros HI H. destruct e as [c k|c|b alt| |d]; cbn [step] in H.
  - unfold call_step in H. destruct (nth_error (cl s) c) as [pc|] eqn:Hn; [|discriminate].
    destruct pc; try discriminate. inversion H; subst s'; clear H.
    destruct k; solve_case HI.
    all: match goal with Hne : forall c t w, _ <> _ |- _ => exfalso; exact (Hne _ _ _ eq_refl) end.
  - now apply cstep_facts.
  - now apply bstep_facts.
  - destruct (existsb ticker_live (fl s)); [|discriminate]. inversion H; subst s'; clear H.
    solve_case HI.
  - destruct (0 <=? d); [|discriminate]. inversion H; subst s'; clear H.
    solve_case HI.
Qed.

Lemma exec_facts cfg s e : Inv cfg s ->
  Inv cfg (exec cfg s e) /\ forall mu, additive mu -> Mono mu e s (exec cfg s e).
Proof.
  intros HI. unfold exec. destruct (step cfg s e) eqn:H.
  - eapply step_facts; eauto.
  - split; [exact HI | intros; apply mono_refl].
Qed.

Lemma run_inv_from cfg sched : forall s, Inv cfg s -> Inv cfg (run cfg s sched).
Proof.
  induction sched as [|e sched IH]; intros s HI; cbn; [exact HI|].
  apply IH. now apply exec_facts.
Qed.

Lemma run_inv cfg n sched : Inv cfg (run cfg (init n) sched).
Proof. apply run_inv_from, init_inv. Qed.

Lemma run_app cfg s a b : run cfg s (a ++ b) = run cfg (run cfg s a) b.
Proof. unfold run. apply fold_left_app. Qed.

(* ------------------------------------------------------------------ *)
(* from measures back to lists *)

Lemma mu_flat_map {A} mu (f : A -> batch) l : additive mu ->
  mu (flat_map f l) = sumz (fun p => mu (f p)) l.
Proof.
  intros (H0 & Happ & _). induction l; cbn; [exact H0 | rewrite Happ, IHl; reflexivity].
Qed.

Lemma mu_places mu s : additive mu ->
  mu (places s) = M_cont mu s + M_un mu s + M_en mu s.
Proof.
  intros Ha. pose proof Ha as (H0 & Happ & _).
  unfold places, unentered, entered, M_cont, M_un, M_en, mc_un, mb_un, mc_en, mb_en.
  rewrite !Happ, !mu_flat_map by exact Ha. ring.
Qed.

Lemma mu_done mu s : additive mu -> mu (done_tasks s) = M_done mu s.
Proof. intros (H0 & Happ & _). unfold done_tasks, M_done. apply Happ. Qed.

Definition cntz (a : task) (l : batch) : Z := Z.of_nat (count_occ Z.eq_dec l a).

Lemma cntz_additive a : additive (cntz a).
Proof.
  unfold cntz; split; [|split]; intros.
  - reflexivity.
  - rewrite count_occ_app. apply Nat2Z.inj_add.
  - apply Nat2Z.is_nonneg.
Qed.


Lemma lenz_additive : additive lenz.
Proof. split; [|split]; intros; [reflexivity | apply lenz_app | apply lenz_nonneg]. Qed.

Lemma cntz_pos_in a l : 0 < cntz a l <-> In a l.
Proof. unfold cntz. rewrite (count_occ_In Z.eq_dec). lia. Qed.

Lemma conservation_perm cfg s : Inv cfg s ->
  Permutation (accepted s) (done_tasks s ++ places s).
Proof.
  intros HI. apply (Permutation_count_occ Z.eq_dec). intros a.
  pose proof (i_cons _ _ HI (cntz a) (cntz_additive a)) as H.
  pose proof (mu_places (cntz a) s (cntz_additive a)).
  pose proof (mu_done (cntz a) s (cntz_additive a)).
  unfold M_acc in H. rewrite count_occ_app. apply Nat2Z.inj. rewrite Nat2Z.inj_add.
  change (cntz a (accepted s) = cntz a (done_tasks s) + cntz a (places s)). lia.
Qed.

(* ------------------------------------------------------------------ *)
(* Wait *)

Lemma step_other_pc cfg s e s' w : step cfg s e = Some s' ->
  e <> EvC w -> (forall k, e <> EvCall w k) ->
  nth_error (cl s') w = nth_error (cl s) w.
Proof.
  intros H Hne Hnc. destruct e as [c k|c|b alt| |d]; cbn [step] in H.
  - assert (c <> w) by (intros ->; eapply Hnc; reflexivity).
    unfold call_step in H. brk2 H. all: inversion H; subst s'; fields; now apply nth_upd_neq.
  - assert (c <> w) by congruence.
    unfold cstep in H. destruct (nth_error (cl s) c) as [pc|] eqn:Hn; [|discriminate].
    destruct pc as [|t wt|h| |f wt| | |]; try discriminate.
    all: try (destruct f as [| |h|ok|ok]); cbn [fstep] in H; unfold callback in H;
      brk2 H; inversion H; subst s'; fields; now apply nth_upd_neq.
  - unfold bstep in H. destruct (nth_error (fl s) b) as [pc|] eqn:Hn; [|discriminate].
    destruct pc as [|cm last|h last|h|h|h| |f last|last|f|]; try discriminate.
    all: try (destruct f as [| |h|ok|ok]); cbn [fstep] in H; unfold callback in H;
      brk2 H; inversion H; subst s'; fields; reflexivity.
  - brk2 H. inversion H; reflexivity.
  - brk2 H. inversion H; reflexivity.
Qed.

Lemma c_in_zero_hand p : c_in p = 0 -> chand_en p = [].
Proof. destruct p as [| | | |[]| | |]; cbn; intros; try reflexivity; lia. Qed.
Lemma b_in_zero_hand p : b_in p = 0 -> bhand_en p = [].
Proof. destruct p as [| | | | | | |[]| |[]|]; cbn; intros; try reflexivity; lia. Qed.
Lemma c_send_zero_hand p : c_send p = 0 -> chand_un p = [].
Proof. destruct p; cbn; intros; try reflexivity; lia. Qed.
Lemma b_gd_zero_hand p : b_gd p = 0 -> bhand_un p = [].
Proof. destruct p; cbn; intros; try reflexivity; lia. Qed.

Lemma en_zero cfg mu s : additive mu -> Inv cfg s -> wg s = 0 -> M_en mu s = 0.
Proof.
  intros (H0 & _ & _) HI Hw. pose proof (i_wg _ _ HI) as H.
  pose proof (sumz_nonneg c_in (cl s) c_in_nonneg). pose proof (sumz_nonneg b_in (fl s) b_in_nonneg).
  unfold M_en. rewrite !sumz_ext_zero; [reflexivity| |].
  - intros p Hp. unfold mb_en. rewrite b_in_zero_hand; [exact H0|].
    apply (sumz_zero_each b_in (fl s) b_in_nonneg); [lia | exact Hp].
  - intros p Hp. unfold mc_en. rewrite c_in_zero_hand; [exact H0|].
    apply (sumz_zero_each c_in (cl s) c_in_nonneg); [lia | exact Hp].
Qed.

Lemma entered_nil cfg s : Inv cfg s -> wg s = 0 -> entered s = [].
Proof.
  intros HI Hw. pose proof (en_zero cfg lenz s lenz_additive HI Hw) as H.
  assert (lenz (entered s) = 0).
  { unfold entered. rewrite lenz_app, !mu_flat_map by exact lenz_additive. exact H. }
  destruct (entered s); [reflexivity | cbn in *; lia].
Qed.

Lemma un_zero cfg mu s : additive mu -> Inv cfg s -> patched cfg = true -> inflight s = 0 ->
  M_un mu s = 0.
Proof.
  intros (H0 & _ & _) HI Hp Hi. pose proof (i_infl _ _ HI) as H. rewrite Hp in H.
  pose proof (sumz_nonneg c_send (cl s) c_send_nonneg). pose proof (sumz_nonneg b_gd (fl s) b_gd_nonneg).
  unfold cmdn in H. unfold M_un, cmd_l. destruct (cmd s); [lia|].
  rewrite H0, !sumz_ext_zero; [reflexivity| |].
  - intros p Hin. unfold mb_un. rewrite b_gd_zero_hand; [exact H0|].
    apply (sumz_zero_each b_gd (fl s) b_gd_nonneg); [lia | exact Hin].
  - intros p Hin. unfold mc_un. rewrite c_send_zero_hand; [exact H0|].
    apply (sumz_zero_each c_send (cl s) c_send_nonneg); [lia | exact Hin].
Qed.

Lemma mu_unentered mu s : additive mu -> mu (unentered s) = M_un mu s.
Proof.
  intros Ha. pose proof Ha as (H0 & Happ & _). unfold unentered, M_un, mc_un, mb_un.
  rewrite !Happ, !mu_flat_map by exact Ha. ring.
Qed.

Section WaitTrack.
Variables (cfg : config) (w : nat) (mu : batch -> Z) (k : Z).
Hypothesis Hmu : additive mu.

(* what is known about the tasks accepted before the Wait of client w started, by
   the program counter of w *)
Definition G (s : state) : Prop :=
  match nth_error (cl s) w with
  | Some (CFl FEnter true) | Some (CFl FRemove true) => True
  | Some (CFl (FExec _) true) | Some (CFl (FDone _) true) | Some CWSpin =>
      k <= M_done mu s + M_en mu s + (if patched cfg then M_un mu s else 0)
  | Some CWGuard | Some CWWait => k <= M_done mu s + M_en mu s
  | Some CIdle => k <= M_done mu s
  | _ => False
  end.

Lemma wait_step s e : Inv cfg s -> k <= M_acc mu s -> G s ->
  (forall kk, e <> EvCall w kk) ->
  (patched cfg = false -> M_un mu (exec cfg s e) = 0) ->
  G (exec cfg s e).
Proof.
  intros HI Hk HG Hnc Hun. unfold exec in *. destruct (step cfg s e) as [s'|] eqn:Hs; [|exact HG].
  destruct (step_facts _ _ _ _ HI Hs) as [HI' HM]. specialize (HM mu Hmu).
  pose proof (i_cons _ _ HI' mu Hmu) as Hc'.
  pose proof Hmu as (Hmu0 & Hmuapp & Hmunn).
  pose proof (Hmunn (unentered s')) as Hun'. rewrite (mu_unentered mu s' Hmu) in Hun'.
  pose proof (Hmunn (unentered s)) as Hun0. rewrite (mu_unentered mu s Hmu) in Hun0.
  destruct HM as [Ma Md M2 M3 _ _].
  assert (Hcase : e = EvC w \/ e <> EvC w).
  { destruct e as [c kk|c|b alt| |d]; try (right; discriminate).
    destruct (Nat.eq_dec c w); [left; congruence | right; congruence]. }
  destruct Hcase as [->|Hne].
  - (* the waiter's own action *)
    cbn [step] in Hs. unfold G in HG. unfold cstep in Hs.
    destruct (nth_error (cl s) w) as [p|] eqn:Hn; [|contradiction].
    destruct p as [|t wt|h| |f wt| | |]; try contradiction.
    + discriminate.
    + destruct f as [| |h|ok|ok]; destruct wt; try contradiction; cbn [fstep] in Hs;
        unfold callback in Hs; brk2 Hs; inversion Hs; subst s'; clear Hs;
        unfold G; fields; rewrite (nth_upd_eq _ _ _ _ Hn); try exact I.
      all: try (destruct (patched cfg) eqn:Hp; try discriminate; try specialize (Hun eq_refl); lia).
      (* RemoveAll: the container is empty afterwards *)
      all: unfold M_cont in Hc'; fields; rewrite Hmu0 in Hc';
        destruct (patched cfg) eqn:Hp; try specialize (Hun eq_refl); lia.
    + brk2 Hs. inversion Hs; subst s'; clear Hs. unfold G; fields; rewrite (nth_upd_eq _ _ _ _ Hn).
      destruct (patched cfg) eqn:Hp; [|lia].
      rewrite (un_zero cfg mu s Hmu HI Hp) in HG by lia. lia.
    + brk2 Hs. inversion Hs; subst s'; clear Hs. unfold G; fields; rewrite (nth_upd_eq _ _ _ _ Hn). lia.
    + brk2 Hs. inversion Hs; subst s'; clear Hs. unfold G; fields; rewrite (nth_upd_eq _ _ _ _ Hn).
      rewrite (en_zero cfg mu s Hmu HI) in HG by lia. lia.
  - (* somebody else's action *)
    unfold G in *. rewrite (step_other_pc _ _ _ _ w Hs Hne Hnc).
    destruct (nth_error (cl s) w) as [p|]; [|contradiction].
    destruct p as [|t wt|h| |f wt| | |]; try contradiction; try (destruct (patched cfg); lia).
    destruct f as [| |h|ok|ok]; destruct wt; try contradiction; try exact I;
      destruct (patched cfg); lia.
Qed.

Lemma wait_track : forall evs s, Inv cfg s -> k <= M_acc mu s -> G s ->
  Forall (fun e => forall kk, e <> EvCall w kk) evs ->
  (patched cfg = false -> forall j, M_un mu (run cfg s (firstn j evs)) = 0) ->
  G (run cfg s evs).
Proof.
  induction evs as [|e evs IH]; intros s HI Hk HG Hev Hun; cbn; [exact HG|].
  inversion Hev as [|? ? He Hev']; subst.
  destruct (exec_facts cfg s e HI) as [HI' HM]. pose proof (m_acc _ _ _ _ (HM mu Hmu)).
  apply IH; auto.
  - lia.
  - apply wait_step; auto. intros Hp. exact (Hun Hp 1%nat).
  - intros Hp j. exact (Hun Hp (S j)).
Qed.
End WaitTrack.

Definition no_call_of (w : nat) (evs : list ev) : Prop :=
  Forall (fun e => forall kk, e <> EvCall w kk) evs.
Definition no_add_calls (evs : list ev) : Prop :=
  Forall (fun e => forall c t wt, e <> EvCall c (CAdd t wt)) evs.

Lemma run_cons cfg s e evs : run cfg s (e :: evs) = run cfg (exec cfg s e) evs.
Proof. reflexivity. Qed.

Lemma exec_call_wait cfg s w : nth_error (cl s) w = Some CIdle ->
  nth_error (cl (exec cfg s (EvCall w CWait))) w = Some (CFl FEnter true).
Proof.
  intros H. unfold exec. cbn [step]. unfold call_step. rewrite H. fields.
  apply (nth_upd_eq _ _ _ _ H).
Qed.

(* the generic statement behind both Wait theorems *)
Lemma wait_covers_gen cfg s0 w mid mu :
  additive mu -> Inv cfg s0 ->
  nth_error (cl s0) w = Some CIdle ->
  no_call_of w mid ->
  (patched cfg = false ->
   forall j, M_un mu (run cfg s0 (firstn j (EvCall w CWait :: mid))) = 0) ->
  nth_error (cl (run cfg s0 (EvCall w CWait :: mid))) w = Some CIdle ->
  M_acc mu s0 <= M_done mu (run cfg s0 (EvCall w CWait :: mid)).
Proof.
  intros Hmu HI Hidle Hnc Hun Hret.
  destruct (exec_facts cfg s0 (EvCall w CWait) HI) as [HI' HM].
  pose proof (m_acc _ _ _ _ (HM mu Hmu)) as Hacc.
  pose proof (wait_track cfg w mu (M_acc mu s0) Hmu mid (exec cfg s0 (EvCall w CWait)) HI' Hacc) as HT.
  rewrite run_cons in Hret |- *.
  unfold G in HT at 2. rewrite Hret in HT. apply HT; auto.
  - unfold G. rewrite (exec_call_wait cfg s0 w Hidle). exact I.
  - intros Hp j. exact (Hun Hp (S j)).
Qed.

Lemma wait_covers_l cfg n pre w mid :
  patched cfg = false ->
  let s0 := run cfg (init n) pre in
  let s1 := run cfg s0 (EvCall w CWait :: mid) in
  nth_error (cl s0) w = Some CIdle ->
  no_call_of w mid ->
  (forall j a, In a (accepted s0) ->
     ~ In a (unentered (run cfg s0 (firstn j (EvCall w CWait :: mid))))) ->
  nth_error (cl s1) w = Some CIdle ->
  forall a, In a (accepted s0) -> In a (done_tasks s1).
Proof.
  intros Hp s0 s1 Hidle Hnc Hun Hret a Ha.
  pose proof (wait_covers_gen cfg s0 w mid (cntz a) (cntz_additive a) (run_inv cfg n pre)
                Hidle Hnc) as H.
  apply cntz_pos_in. rewrite (mu_done _ _ (cntz_additive a)).
  apply cntz_pos_in in Ha. unfold M_acc in H. fold s1 in H.
  assert (cntz a (accepted s0) <= M_done (cntz a) s1); [|lia].
  apply H; auto. intros _ j.
  rewrite <- (mu_unentered _ _ (cntz_additive a)).
  specialize (Hun j a (proj1 (cntz_pos_in _ _) Ha)).
  pose proof (proj1 (cntz_pos_in a (unentered (run cfg s0 (firstn j (EvCall w CWait :: mid)))))).
  destruct (cntz_additive a) as (_ & _ & Hn). specialize (Hn (unentered (run cfg s0 (firstn j (EvCall w CWait :: mid))))).
  destruct (Z_lt_le_dec 0 (cntz a (unentered (run cfg s0 (firstn j (EvCall w CWait :: mid))))))
    as [Hpos|Hle]; [exfalso; apply Hun, H0, Hpos | lia].
Qed.

Lemma wait_covers_patched_l cfg n pre w mid :
  patched cfg = true ->
  let s0 := run cfg (init n) pre in
  let s1 := run cfg s0 (EvCall w CWait :: mid) in
  nth_error (cl s0) w = Some CIdle ->
  no_call_of w mid ->
  nth_error (cl s1) w = Some CIdle ->
  forall a, In a (accepted s0) -> In a (done_tasks s1).
Proof.
  intros Hp s0 s1 Hidle Hnc Hret a Ha.
  pose proof (wait_covers_gen cfg s0 w mid (cntz a) (cntz_additive a) (run_inv cfg n pre)
                Hidle Hnc) as H.
  apply cntz_pos_in. rewrite (mu_done _ _ (cntz_additive a)).
  apply cntz_pos_in in Ha. unfold M_acc in H. fold s1 in H.
  assert (cntz a (accepted s0) <= M_done (cntz a) s1); [|lia].
  apply H; auto. intros Hf. congruence.
Qed.

(* ------------------------------------------------------------------ *)
(* quiescence after Wait when nobody is adding *)

Definition quiet (s : state) : Prop := sumz c_adding (cl s) = 0.

Lemma c_adding_zero_un p : c_adding p = 0 -> chand_un p = [] /\ c_conf p = 0 /\ c_send p = 0.
Proof. destruct p; cbn; intros; repeat split; try reflexivity; lia. Qed.
Lemma b_pre_zero_hand p : b_pre p = 0 -> bhand_un p = [].
Proof. destruct p; cbn; intros; try reflexivity; lia. Qed.

Lemma quiet_unentered cfg mu s : additive mu -> Inv cfg s -> quiet s -> M_un mu s = 0.
Proof.
  intros (H0 & _ & _) HI Hq. unfold quiet in Hq.
  pose proof (sumz_zero_each c_adding (cl s) c_adding_nonneg Hq) as Hz.
  assert (Hc : sumz c_conf (cl s) = 0).
  { apply sumz_ext_zero. intros p Hp. apply c_adding_zero_un, Hz, Hp. }
  pose proof (i_conf _ _ HI) as H. rewrite Hc in H.
  pose proof (sumz_nonneg b_pre (fl s) b_pre_nonneg).
  unfold cmdn in H. unfold M_un, cmd_l. destruct (cmd s); [lia|].
  rewrite H0, !sumz_ext_zero; [reflexivity| |].
  - intros p Hin. unfold mb_un. rewrite b_pre_zero_hand; [exact H0|].
    apply (sumz_zero_each b_pre (fl s) b_pre_nonneg); [lia | exact Hin].
  - intros p Hin. unfold mc_un. destruct (c_adding_zero_un p (Hz p Hin)) as (-> & _). exact H0.
Qed.

Lemma quiet_run cfg : forall evs s, Inv cfg s -> quiet s -> no_add_calls evs ->
  quiet (run cfg s evs) /\ forall mu, additive mu -> M_acc mu (run cfg s evs) = M_acc mu s.
Proof.
  induction evs as [|e evs IH]; intros s HI Hq Hn; [cbn; split; auto|]. rewrite run_cons.
  inversion Hn as [|? ? He Hn']; subst.
  destruct (exec_facts cfg s e HI) as [HI' HM].
  pose proof (m_adding _ _ _ _ (HM lenz lenz_additive) He) as Hadd.
  pose proof (sumz_nonneg c_adding (cl (exec cfg s e)) c_adding_nonneg).
  assert (Hq' : quiet (exec cfg s e)) by (unfold quiet in *; lia).
  destruct (IH _ HI' Hq' Hn') as [Hq'' Hacc]. split; [exact Hq''|].
  intros mu Hmu. rewrite (Hacc mu Hmu).
  exact (proj1 (m_quiet _ _ _ _ (HM mu Hmu) Hq He)).
Qed.

Lemma forall_firstn {A} (P : A -> Prop) l j : Forall P l -> Forall P (firstn j l).
Proof.
  intros H. rewrite <- (firstn_skipn j l) in H. apply Forall_app in H. tauto.
Qed.

Lemma wait_quiescent_l cfg n pre w mid :
  let s0 := run cfg (init n) pre in
  let s1 := run cfg s0 (EvCall w CWait :: mid) in
  nth_error (cl s0) w = Some CIdle ->
  no_call_of w mid -> no_add_calls mid -> quiet s0 ->
  nth_error (cl s1) w = Some CIdle ->
  places s1 = [] /\ Permutation (accepted s1) (done_tasks s1).
Proof.
  intros s0 s1 Hidle Hnc Hna Hq Hret.
  pose proof (run_inv cfg n pre) as HI0. fold s0 in HI0.
  assert (Hna' : no_add_calls (EvCall w CWait :: mid)) by (constructor; [discriminate | exact Hna]).
  pose proof (wait_covers_gen cfg s0 w mid lenz lenz_additive HI0 Hidle Hnc) as H.
  assert (Hd : M_acc lenz s0 <= M_done lenz s1).
  { apply H; auto. intros _ j.
    destruct (quiet_run cfg _ s0 HI0 Hq (forall_firstn _ _ j Hna')) as [Hqj _].
    apply (quiet_unentered cfg); auto using lenz_additive. apply run_inv_from, HI0. }
  destruct (quiet_run cfg _ s0 HI0 Hq Hna') as [_ Hacc]. specialize (Hacc lenz lenz_additive).
  fold s1 in Hacc.
  assert (HI1 : Inv cfg s1) by (apply run_inv_from, HI0).
  pose proof (i_cons _ _ HI1 lenz lenz_additive) as Hc.
  pose proof (mu_places lenz s1 lenz_additive) as Hp.
  pose proof (lenz_nonneg (places s1)).
  assert (Hnil : places s1 = []).
  { destruct (places s1); [reflexivity | cbn in *; lia]. }
  split; [exact Hnil|].
  pose proof (conservation_perm cfg s1 HI1) as HP. rewrite Hnil, app_nil_r in HP. exact HP.
Qed.

(* ------------------------------------------------------------------ *)
(* idle quit and restart *)

Lemma sumz_pos_ex {A} (f : A -> Z) l : 0 < sumz f l -> exists n p, nth_error l n = Some p /\ 0 < f p.
Proof.
  induction l as [|x l IH]; cbn; intros H; [lia|].
  destruct (Z_lt_le_dec 0 (f x)) as [Hx|Hx].
  - exists 0%nat, x. split; [reflexivity | exact Hx].
  - destruct IH as (n & p & Hn & Hp); [lia|]. exists (S n), p. split; assumption.
Qed.

Lemma sumz_le {A} (f g : A -> Z) l : (forall x, f x <= g x) -> sumz f l <= sumz g l.
Proof. intros H; induction l as [|x l IH]; cbn; [lia | specialize (H x); lia]. Qed.

Definition loop_alive (p : bpc) : Prop := p <> BDead /\ forall f, p <> BExit f.

Lemma restart_safe_l cfg n sched :
  let s := run cfg (init n) sched in
  (cont s <> [] ->
     guarded s = true \/
     exists b f, nth_error (fl s) b = Some (BExit f) /\ (f = FEnter \/ f = FRemove)) /\
  (guarded s = true -> exists b p, nth_error (fl s) b = Some p /\ loop_alive p) /\
  (guarded s = false ->
     inflight s = 0 /\ cmd s = None /\
     (forall c h, nth_error (cl s) c <> Some (CAddSend h)) /\
     (forall c, nth_error (cl s) c <> Some CAddConfirm)).
Proof.
  intros s. pose proof (run_inv cfg n sched) as HI. fold s in HI.
  split; [|split].
  - intros Hc. destruct (i_owner _ _ HI) as [H|[H|H]].
    + destruct (cont s); [congruence | cbn in H; lia].
    + left. destruct (guarded s); [reflexivity | cbn in H; lia].
    + right. destruct (sumz_pos_ex _ _ H) as (b & p & Hb & Hp). exists b.
      destruct p as [| | | | | | | | |[]|]; cbn in Hp; try lia; eauto.
  - intros Hg. pose proof (i_guard _ _ HI) as H. rewrite Hg in H. cbn in H.
    destruct (sumz_pos_ex b_live (fl s)) as (b & p & Hb & Hp); [lia|].
    exists b, p. split; [exact Hb|]. destruct p; cbn in Hp; try lia; split; intros; discriminate.
  - intros Hg. pose proof (i_idle _ _ HI) as Hi. rewrite Hg in Hi. cbn in Hi.
    assert (Hinf : inflight s = 0) by lia.
    pose proof (i_infl _ _ HI) as H1. pose proof (i_conf _ _ HI) as H2.
    pose proof (i_guard _ _ HI) as H3. rewrite Hg in H3. cbn in H3.
    pose proof (sumz_nonneg c_send (cl s) c_send_nonneg).
    pose proof (sumz_nonneg b_gd (fl s) b_gd_nonneg). pose proof (sumz_nonneg b_dec (fl s) b_dec_nonneg).
    pose proof (sumz_nonneg b_pre (fl s) b_pre_nonneg).
    assert (sumz b_pre (fl s) <= sumz b_live (fl s)) by (apply sumz_le; intros []; cbn; lia).
    unfold cmdn in *. destruct (cmd s) eqn:Hcmd; [destruct (patched cfg); lia|].
    repeat split; auto.
    + intros c h Hc. pose proof (sumz_ge_nth c_send _ _ _ c_send_nonneg Hc). cbn in *.
      destruct (patched cfg); lia.
    + intros c Hc. pose proof (sumz_ge_nth c_conf _ _ _ c_conf_nonneg Hc). cbn in *. lia.
Qed.

(* ------------------------------------------------------------------ *)
(* a panicking callback *)

Definition core (s : state) :=
  (cont s, csize s, cmd s, inflight s, guarded s, wg s, barrier s, tick s, now s, cl s, fl s, accepted s).

Lemma callback_effect cfg s h :
  core (callback cfg s h) = core s /\
  (if panics cfg h
   then lost (callback cfg s h) = lost s ++ [h] /\ executed (callback cfg s h) = executed s
   else executed (callback cfg s h) = executed s ++ [h] /\ lost (callback cfg s h) = lost s).
Proof. unfold callback. destruct (panics cfg h); cbn; auto. Qed.
