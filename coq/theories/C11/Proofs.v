(* C11 — invariants of the executor LTS over all schedules, and the property lemmas. *)
From Coq Require Import List ZArith Bool Lia Permutation.
From GZ Require Import C11.Model C11.ProofsA.
Import ListNotations.
Open Scope Z_scope.

(* ------------------------------------------------------------------ *)
(* all events, all schedules *)

Lemma mono_refl mu e s : Mono mu e s s.
Proof. constructor; intros; try split; lia. Qed.

Lemma step_facts cfg s e s' : faithful cfg -> Inv cfg s -> step cfg s e = Some s' ->
  Inv cfg s' /\ forall mu, additive mu -> Mono mu e s s'.
Proof.
  intros Hf HI H. destruct e as [c k|c|b alt| |d]; cbn [step] in H.
  - unfold call_step in H. destruct (nth_error (cl s) c) as [pc|] eqn:Hn; [|discriminate].
    destruct pc; try discriminate. inversion H; subst s'; clear H.
    destruct k; solve_case HI.
    all: match goal with Hne : forall c t w, _ <> _ |- _ => exfalso; exact (Hne _ _ _ eq_refl) end.
  - now apply cstep_facts.
  - now apply bstep_facts.
  - destruct (existsb ticker_live (fl s)); [|discriminate]. inversion H; subst s'; clear H.
    solve_case HI.
  - destruct (0 <=? d); [|discriminate]. inversion H; subst s'; clear H.
    solve_case HI.
Qed.

Lemma exec_facts cfg s e : faithful cfg -> Inv cfg s ->
  Inv cfg (exec cfg s e) /\ forall mu, additive mu -> Mono mu e s (exec cfg s e).
Proof.
  intros Hf HI. unfold exec. destruct (step cfg s e) eqn:H.
  - eapply step_facts; eauto.
  - split; [exact HI | intros; apply mono_refl].
Qed.

Lemma run_inv_from cfg sched : faithful cfg -> forall s, Inv cfg s -> Inv cfg (run cfg s sched).
Proof.
  intros Hf. induction sched as [|e sched IH]; intros s HI; cbn; [exact HI|].
  apply IH. now apply exec_facts.
Qed.

Lemma run_inv cfg n sched : faithful cfg -> Inv cfg (run cfg (init n) sched).
Proof. intros Hf. apply run_inv_from; [exact Hf | apply init_inv]. Qed.

Lemma run_app cfg s a b : run cfg s (a ++ b) = run cfg (run cfg s a) b.
Proof. unfold run. apply fold_left_app. Qed.

(* ------------------------------------------------------------------ *)
(* from measures back to lists *)

Lemma mu_flat_map {A} mu (f : A -> batch) l : additive mu ->
  mu (flat_map f l) = sumz (fun p => mu (f p)) l.
Proof.
  intros (H0 & Happ & _). induction l; cbn; [exact H0 | rewrite Happ, IHl; reflexivity].
Qed.

Lemma mu_places mu s : additive mu ->
  mu (places s) = M_cont mu s + M_un mu s + M_en mu s.
Proof.
  intros Ha. pose proof Ha as (H0 & Happ & _).
  unfold places, unentered, entered, M_cont, M_un, M_en, mc_un, mb_un, mc_en, mb_en.
  rewrite !Happ, !mu_flat_map by exact Ha. ring.
Qed.

Lemma mu_done mu s : additive mu -> mu (done_tasks s) = M_done mu s.
Proof. intros (H0 & Happ & _). unfold done_tasks, M_done. apply Happ. Qed.

Definition cntz (a : task) (l : batch) : Z := Z.of_nat (count_occ Z.eq_dec l a).

Lemma cntz_additive a : additive (cntz a).
Proof.
  unfold cntz; split; [|split]; intros.
  - reflexivity.
  - rewrite count_occ_app. apply Nat2Z.inj_add.
  - apply Nat2Z.is_nonneg.
Qed.


Lemma lenz_additive : additive lenz.
Proof. split; [|split]; intros; [reflexivity | apply lenz_app | apply lenz_nonneg]. Qed.

Lemma cntz_pos_in a l : 0 < cntz a l <-> In a l.
Proof. unfold cntz. rewrite (count_occ_In Z.eq_dec). lia. Qed.

Lemma conservation_perm cfg s : Inv cfg s ->
  Permutation (accepted s) (done_tasks s ++ places s).
Proof.
  intros HI. apply (Permutation_count_occ Z.eq_dec). intros a.
  pose proof (i_cons _ _ HI (cntz a) (cntz_additive a)) as H.
  pose proof (mu_places (cntz a) s (cntz_additive a)).
  pose proof (mu_done (cntz a) s (cntz_additive a)).
  unfold M_acc in H. rewrite count_occ_app. apply Nat2Z.inj. rewrite Nat2Z.inj_add.
  change (cntz a (accepted s) = cntz a (done_tasks s) + cntz a (places s)). lia.
Qed.

(* ------------------------------------------------------------------ *)
(* Wait *)

Lemma step_other_pc cfg s e s' w : step cfg s e = Some s' ->
  e <> EvC w -> (forall k, e <> EvCall w k) ->
  nth_error (cl s') w = nth_error (cl s) w.
Proof.
  intros H Hne Hnc. destruct e as [c k|c|b alt| |d]; cbn [step] in H.
  - assert (c <> w) by (intros ->; eapply Hnc; reflexivity).
    unfold call_step in H. brk2 H. all: inversion H; subst s'; fields; now apply nth_upd_neq.
  - assert (c <> w) by congruence.
    unfold cstep in H. destruct (nth_error (cl s) c) as [pc|] eqn:Hn; [|discriminate].
    destruct pc as [|t wt|h| |f wt| | | |]; try discriminate.
    all: try (destruct f as [| |h|ok|ok]); cbn [fstep] in H; unfold callback in H;
      brk2 H; inversion H; subst s'; fields; now apply nth_upd_neq.
  - unfold bstep in H. destruct (nth_error (fl s) b) as [pc|] eqn:Hn; [|discriminate].
    destruct pc as [|cm last|h last|h|h|h| |f last|last| |f|]; try discriminate.
    all: try (destruct f as [| |h|ok|ok]); cbn [fstep] in H; unfold callback in H;
      brk2 H; inversion H; subst s'; fields; reflexivity.
  - brk2 H. inversion H; reflexivity.
  - brk2 H. inversion H; reflexivity.
Qed.

Lemma c_in_zero_hand p : c_in p = 0 -> chand_en p = [].
Proof. destruct p as [| | | |[]| | | |]; cbn; intros; try reflexivity; lia. Qed.
Lemma b_in_zero_hand p : b_in p = 0 -> bhand_en p = [].
Proof. destruct p as [| | | | | | |[]| | |[]|]; cbn; intros; try reflexivity; lia. Qed.
Lemma c_send_zero_hand p : c_send p = 0 -> chand_un p = [].
Proof. destruct p; cbn; intros; try reflexivity; lia. Qed.
Lemma b_gd_zero_hand p : b_gd p = 0 -> bhand_un p = [].
Proof. destruct p; cbn; intros; try reflexivity; lia. Qed.

Lemma en_zero cfg mu s : additive mu -> Inv cfg s -> wg s = 0 -> M_en mu s = 0.
Proof.
  intros (H0 & _ & _) HI Hw. pose proof (i_wg _ _ HI) as H.
  pose proof (sumz_nonneg c_in (cl s) c_in_nonneg). pose proof (sumz_nonneg b_in (fl s) b_in_nonneg).
  unfold M_en. rewrite !sumz_ext_zero; [reflexivity| |].
  - intros p Hp. unfold mb_en. rewrite b_in_zero_hand; [exact H0|].
    apply (sumz_zero_each b_in (fl s) b_in_nonneg); [lia | exact Hp].
  - intros p Hp. unfold mc_en. rewrite c_in_zero_hand; [exact H0|].
    apply (sumz_zero_each c_in (cl s) c_in_nonneg); [lia | exact Hp].
Qed.

Lemma entered_nil cfg s : Inv cfg s -> wg s = 0 -> entered s = [].
Proof.
  intros HI Hw. pose proof (en_zero cfg lenz s lenz_additive HI Hw) as H.
  assert (lenz (entered s) = 0).
  { unfold entered. rewrite lenz_app, !mu_flat_map by exact lenz_additive. exact H. }
  destruct (entered s); [reflexivity | cbn in *; lia].
Qed.

Lemma un_zero cfg mu s : additive mu -> Inv cfg s -> inflight s = 0 ->
  M_un mu s = 0.
Proof.
  intros (H0 & _ & _) HI Hi. pose proof (i_infl _ _ HI) as H.
  pose proof (sumz_nonneg c_send (cl s) c_send_nonneg). pose proof (sumz_nonneg b_gd (fl s) b_gd_nonneg).
  unfold cmdn in H. unfold M_un, cmd_l. destruct (cmd s); [lia|].
  rewrite H0, !sumz_ext_zero; [reflexivity| |].
  - intros p Hin. unfold mb_un. rewrite b_gd_zero_hand; [exact H0|].
    apply (sumz_zero_each b_gd (fl s) b_gd_nonneg); [lia | exact Hin].
  - intros p Hin. unfold mc_un. rewrite c_send_zero_hand; [exact H0|].
    apply (sumz_zero_each c_send (cl s) c_send_nonneg); [lia | exact Hin].
Qed.

Lemma mu_unentered mu s : additive mu -> mu (unentered s) = M_un mu s.
Proof.
  intros Ha. pose proof Ha as (H0 & Happ & _). unfold unentered, M_un, mc_un, mb_un.
  rewrite !Happ, !mu_flat_map by exact Ha. ring.
Qed.

Section WaitTrack.
Variables (cfg : config) (w : nat) (mu : batch -> Z) (k : Z).
Hypothesis Hmu : additive mu.
Hypothesis Hf : faithful cfg.

(* what is known about the tasks accepted before the Wait of client w started, by
   the program counter of w *)
Definition G (s : state) : Prop :=
  match nth_error (cl s) w with
  | Some (CFl FEnter true) | Some (CFl FRemove true) => True
  | Some (CFl (FExec _) true) | Some (CFl (FDone _) true) | Some CWSpin =>
      k <= M_done mu s + M_en mu s + M_un mu s
  | Some CWGuard | Some CWWait => k <= M_done mu s + M_en mu s
  | Some CIdle => k <= M_done mu s
  | _ => False
  end.

Lemma wait_step s e : Inv cfg s -> k <= M_acc mu s -> G s ->
  (forall kk, e <> EvCall w kk) ->
  G (exec cfg s e).
Proof.
  intros HI Hk HG Hnc. unfold exec in *. destruct (step cfg s e) as [s'|] eqn:Hs; [|exact HG].
  destruct (step_facts _ _ _ _ Hf HI Hs) as [HI' HM]. specialize (HM mu Hmu).
  pose proof (i_cons _ _ HI' mu Hmu) as Hc'.
  pose proof Hmu as (Hmu0 & Hmuapp & Hmunn).
  pose proof (Hmunn (unentered s')) as Hun'. rewrite (mu_unentered mu s' Hmu) in Hun'.
  pose proof (Hmunn (unentered s)) as Hun0. rewrite (mu_unentered mu s Hmu) in Hun0.
  destruct HM as [Ma Md M2 M3 _ _].
  assert (Hcase : e = EvC w \/ e <> EvC w).
  { destruct e as [c kk|c|b alt| |d]; try (right; discriminate).
    destruct (Nat.eq_dec c w); [left; congruence | right; congruence]. }
  destruct Hcase as [->|Hne].
  - (* the waiter's own action *)
    cbn [step] in Hs. unfold G in HG. unfold cstep in Hs.
    destruct (nth_error (cl s) w) as [p|] eqn:Hn; [|contradiction].
    destruct p as [|t wt|h| |f wt| | | |]; try contradiction.
    + discriminate.
    + destruct f as [| |h|ok|ok]; destruct wt; try contradiction; cbn [fstep] in Hs;
        unfold callback in Hs; brk2 Hs; inversion Hs; subst s'; clear Hs;
        unfold G; fields; rewrite (nth_upd_eq _ _ _ _ Hn); try exact I.
      all: try lia.
      (* RemoveAll: the container is empty afterwards *)
      all: unfold M_cont in Hc'; fields; rewrite Hmu0 in Hc'; lia.
    + brk2 Hs. inversion Hs; subst s'; clear Hs. unfold G; fields; rewrite (nth_upd_eq _ _ _ _ Hn).
      rewrite (un_zero cfg mu s Hmu HI) in HG by lia. lia.
    + brk2 Hs. inversion Hs; subst s'; clear Hs. unfold G; fields; rewrite (nth_upd_eq _ _ _ _ Hn). lia.
    + brk2 Hs. inversion Hs; subst s'; clear Hs. unfold G; fields; rewrite (nth_upd_eq _ _ _ _ Hn).
      rewrite (en_zero cfg mu s Hmu HI) in HG by lia. lia.
  - (* somebody else's action *)
    unfold G in *. rewrite (step_other_pc _ _ _ _ w Hs Hne Hnc).
    destruct (nth_error (cl s) w) as [p|]; [|contradiction].
    destruct p as [|t wt|h| |f wt| | | |]; try contradiction; try lia.
    destruct f as [| |h|ok|ok]; destruct wt; try contradiction; try exact I; lia.
Qed.

Lemma wait_track : forall evs s, Inv cfg s -> k <= M_acc mu s -> G s ->
  Forall (fun e => forall kk, e <> EvCall w kk) evs ->
  G (run cfg s evs).
Proof.
  induction evs as [|e evs IH]; intros s HI Hk HG Hev; cbn; [exact HG|].
  inversion Hev as [|? ? He Hev']; subst.
  destruct (exec_facts cfg s e Hf HI) as [HI' HM]. pose proof (m_acc _ _ _ _ (HM mu Hmu)).
  apply IH; auto.
  - lia.
  - apply wait_step; auto.
Qed.
End WaitTrack.

Definition no_call_of (w : nat) (evs : list ev) : Prop :=
  Forall (fun e => forall kk, e <> EvCall w kk) evs.
Definition no_add_calls (evs : list ev) : Prop :=
  Forall (fun e => forall c t wt, e <> EvCall c (CAdd t wt)) evs.

Lemma run_cons cfg s e evs : run cfg s (e :: evs) = run cfg (exec cfg s e) evs.
Proof. reflexivity. Qed.

Lemma exec_call_wait cfg s w : nth_error (cl s) w = Some CIdle ->
  nth_error (cl (exec cfg s (EvCall w CWait))) w = Some (CFl FEnter true).
Proof.
  intros H. unfold exec. cbn [step]. unfold call_step. rewrite H. fields.
  apply (nth_upd_eq _ _ _ _ H).
Qed.

(* the generic statement behind the Wait theorems, for any additive measure *)
Lemma wait_covers_gen cfg s0 w mid mu :
  additive mu -> faithful cfg -> Inv cfg s0 ->
  nth_error (cl s0) w = Some CIdle ->
  no_call_of w mid ->
  nth_error (cl (run cfg s0 (EvCall w CWait :: mid))) w = Some CIdle ->
  M_acc mu s0 <= M_done mu (run cfg s0 (EvCall w CWait :: mid)).
Proof.
  intros Hmu Hf HI Hidle Hnc Hret.
  destruct (exec_facts cfg s0 (EvCall w CWait) Hf HI) as [HI' HM].
  pose proof (m_acc _ _ _ _ (HM mu Hmu)) as Hacc.
  pose proof (wait_track cfg w mu (M_acc mu s0) Hmu Hf mid (exec cfg s0 (EvCall w CWait)) HI' Hacc) as HT.
  rewrite run_cons in Hret |- *.
  unfold G in HT at 2. rewrite Hret in HT. apply HT; auto.
  unfold G. rewrite (exec_call_wait cfg s0 w Hidle). exact I.
Qed.

Lemma wait_covers_l cfg n pre w mid : faithful cfg ->
  let s0 := run cfg (init n) pre in
  let s1 := run cfg s0 (EvCall w CWait :: mid) in
  nth_error (cl s0) w = Some CIdle ->
  no_call_of w mid ->
  nth_error (cl s1) w = Some CIdle ->
  forall a, (count_occ Z.eq_dec (accepted s0) a <= count_occ Z.eq_dec (done_tasks s1) a)%nat.
Proof.
  intros Hf s0 s1 Hidle Hnc Hret a.
  pose proof (wait_covers_gen cfg s0 w mid (cntz a) (cntz_additive a) Hf (run_inv cfg n pre Hf)
                Hidle Hnc Hret) as H.
  fold s1 in H. rewrite <- (mu_done _ _ (cntz_additive a)) in H. unfold M_acc, cntz in H. lia.
Qed.

Lemma wait_covers_in cfg n pre w mid : faithful cfg ->
  let s0 := run cfg (init n) pre in
  let s1 := run cfg s0 (EvCall w CWait :: mid) in
  nth_error (cl s0) w = Some CIdle ->
  no_call_of w mid ->
  nth_error (cl s1) w = Some CIdle ->
  forall a, In a (accepted s0) -> In a (done_tasks s1).
Proof.
  intros Hf s0 s1 Hidle Hnc Hret a Ha.
  pose proof (wait_covers_l cfg n pre w mid Hf Hidle Hnc Hret a) as H. fold s0 s1 in H.
  apply (count_occ_In Z.eq_dec). apply (count_occ_In Z.eq_dec) in Ha. lia.
Qed.

(* ------------------------------------------------------------------ *)
(* quiescence after Wait when nobody is adding *)

Definition quiet (s : state) : Prop := sumz c_adding (cl s) = 0.

Lemma c_adding_zero_un p : c_adding p = 0 -> chand_un p = [] /\ c_conf p = 0 /\ c_send p = 0.
Proof. destruct p; cbn; intros; repeat split; try reflexivity; lia. Qed.
Lemma b_pre_zero_hand p : b_pre p = 0 -> bhand_un p = [].
Proof. destruct p; cbn; intros; try reflexivity; lia. Qed.

Lemma quiet_unentered cfg mu s : additive mu -> Inv cfg s -> quiet s -> M_un mu s = 0.
Proof.
  intros (H0 & _ & _) HI Hq. unfold quiet in Hq.
  pose proof (sumz_zero_each c_adding (cl s) c_adding_nonneg Hq) as Hz.
  assert (Hc : sumz c_conf (cl s) = 0).
  { apply sumz_ext_zero. intros p Hp. apply c_adding_zero_un, Hz, Hp. }
  pose proof (i_conf _ _ HI) as H. rewrite Hc in H.
  pose proof (sumz_nonneg b_pre (fl s) b_pre_nonneg).
  unfold cmdn in H. unfold M_un, cmd_l. destruct (cmd s); [lia|].
  rewrite H0, !sumz_ext_zero; [reflexivity| |].
  - intros p Hin. unfold mb_un. rewrite b_pre_zero_hand; [exact H0|].
    apply (sumz_zero_each b_pre (fl s) b_pre_nonneg); [lia | exact Hin].
  - intros p Hin. unfold mc_un. destruct (c_adding_zero_un p (Hz p Hin)) as (-> & _). exact H0.
Qed.

Lemma quiet_run cfg : faithful cfg -> forall evs s, Inv cfg s -> quiet s -> no_add_calls evs ->
  quiet (run cfg s evs) /\ forall mu, additive mu -> M_acc mu (run cfg s evs) = M_acc mu s.
Proof.
  intros Hf. induction evs as [|e evs IH]; intros s HI Hq Hn; [cbn; split; auto|]. rewrite run_cons.
  inversion Hn as [|? ? He Hn']; subst.
  destruct (exec_facts cfg s e Hf HI) as [HI' HM].
  pose proof (m_adding _ _ _ _ (HM lenz lenz_additive) He) as Hadd.
  pose proof (sumz_nonneg c_adding (cl (exec cfg s e)) c_adding_nonneg).
  assert (Hq' : quiet (exec cfg s e)) by (unfold quiet in *; lia).
  destruct (IH _ HI' Hq' Hn') as [Hq'' Hacc]. split; [exact Hq''|].
  intros mu Hmu. rewrite (Hacc mu Hmu).
  exact (proj1 (m_quiet _ _ _ _ (HM mu Hmu) Hq He)).
Qed.

Lemma forall_firstn {A} (P : A -> Prop) l j : Forall P l -> Forall P (firstn j l).
Proof.
  intros H. rewrite <- (firstn_skipn j l) in H. apply Forall_app in H. tauto.
Qed.

Lemma wait_quiescent_l cfg n pre w mid : faithful cfg ->
  let s0 := run cfg (init n) pre in
  let s1 := run cfg s0 (EvCall w CWait :: mid) in
  nth_error (cl s0) w = Some CIdle ->
  no_call_of w mid -> no_add_calls mid -> quiet s0 ->
  nth_error (cl s1) w = Some CIdle ->
  places s1 = [] /\ Permutation (accepted s1) (done_tasks s1).
Proof.
  intros Hf s0 s1 Hidle Hnc Hna Hq Hret.
  pose proof (run_inv cfg n pre Hf) as HI0. fold s0 in HI0.
  assert (Hna' : no_add_calls (EvCall w CWait :: mid)) by (constructor; [discriminate | exact Hna]).
  pose proof (wait_covers_gen cfg s0 w mid lenz lenz_additive Hf HI0 Hidle Hnc) as H.
  assert (Hd : M_acc lenz s0 <= M_done lenz s1).
  { apply H; auto. }
  destruct (quiet_run cfg Hf _ s0 HI0 Hq Hna') as [_ Hacc]. specialize (Hacc lenz lenz_additive).
  fold s1 in Hacc.
  assert (HI1 : Inv cfg s1) by (apply run_inv_from; [exact Hf | exact HI0]).
  pose proof (i_cons _ _ HI1 lenz lenz_additive) as Hc.
  pose proof (mu_places lenz s1 lenz_additive) as Hp.
  pose proof (lenz_nonneg (places s1)).
  assert (Hnil : places s1 = []).
  { destruct (places s1); [reflexivity | cbn in *; lia]. }
  split; [exact Hnil|].
  pose proof (conservation_perm cfg s1 HI1) as HP. rewrite Hnil, app_nil_r in HP. exact HP.
Qed.

(* ------------------------------------------------------------------ *)
(* idle quit and restart *)

Lemma sumz_pos_ex {A} (f : A -> Z) l : 0 < sumz f l -> exists n p, nth_error l n = Some p /\ 0 < f p.
Proof.
  induction l as [|x l IH]; cbn; intros H; [lia|].
  destruct (Z_lt_le_dec 0 (f x)) as [Hx|Hx].
  - exists 0%nat, x. split; [reflexivity | exact Hx].
  - destruct IH as (n & p & Hn & Hp); [lia|]. exists (S n), p. split; assumption.
Qed.

Lemma sumz_le {A} (f g : A -> Z) l : (forall x, f x <= g x) -> sumz f l <= sumz g l.
Proof. intros H; induction l as [|x l IH]; cbn; [lia | specialize (H x); lia]. Qed.

Definition loop_alive (p : bpc) : Prop := p <> BDead /\ p <> BStop /\ forall f, p <> BExit f.

Lemma restart_safe_l cfg n sched : faithful cfg ->
  let s := run cfg (init n) sched in
  (cont s <> [] ->
     guarded s = true \/
     exists b p, nth_error (fl s) b = Some p /\ (p = BStop \/ p = BExit FEnter \/ p = BExit FRemove)) /\
  (guarded s = true -> exists b p, nth_error (fl s) b = Some p /\ loop_alive p) /\
  (guarded s = false ->
     inflight s = 0 /\ cmd s = None /\
     (forall c h, nth_error (cl s) c <> Some (CAddSend h)) /\
     (forall c, nth_error (cl s) c <> Some CAddConfirm)).
Proof.
  intros Hf s. pose proof (run_inv cfg n sched Hf) as HI. fold s in HI.
  split; [|split].
  - intros Hc. destruct (i_owner _ _ HI) as [H|[H|H]].
    + destruct (cont s); [congruence | cbn in H; lia].
    + left. destruct (guarded s); [reflexivity | cbn in H; lia].
    + right. destruct (sumz_pos_ex _ _ H) as (b & p & Hb & Hp). exists b, p. split; [exact Hb|].
      destruct p as [| | | | | | | | | |[]|]; cbn in Hp; try lia; auto.
  - intros Hg. pose proof (i_guard _ _ HI) as H. rewrite Hg in H. cbn in H.
    destruct (sumz_pos_ex b_live (fl s)) as (b & p & Hb & Hp); [lia|].
    exists b, p. split; [exact Hb|]. destruct p; cbn in Hp; try lia; repeat split; intros; discriminate.
  - intros Hg. pose proof (i_idle _ _ HI) as Hi. rewrite Hg in Hi. cbn in Hi.
    assert (Hinf : inflight s = 0) by lia.
    pose proof (i_infl _ _ HI) as H1. pose proof (i_conf _ _ HI) as H2.
    pose proof (i_guard _ _ HI) as H3. rewrite Hg in H3. cbn in H3.
    pose proof (sumz_nonneg c_send (cl s) c_send_nonneg).
    pose proof (sumz_nonneg b_gd (fl s) b_gd_nonneg). pose proof (sumz_nonneg b_dec (fl s) b_dec_nonneg).
    pose proof (sumz_nonneg b_pre (fl s) b_pre_nonneg).
    assert (sumz b_pre (fl s) <= sumz b_live (fl s)) by (apply sumz_le; intros []; cbn; lia).
    unfold cmdn in *. destruct (cmd s) eqn:Hcmd; [lia|].
    repeat split; auto.
    + intros c h Hc. pose proof (sumz_ge_nth c_send _ _ _ c_send_nonneg Hc). cbn in *. lia.
    + intros c Hc. pose proof (sumz_ge_nth c_conf _ _ _ c_conf_nonneg Hc). cbn in *. lia.
Qed.

(* ------------------------------------------------------------------ *)
(* a panicking callback *)

Definition core (s : state) :=
  (cont s, csize s, cmd s, inflight s, guarded s, wg s, barrier s, tick s, now s, cl s, fl s, accepted s).

Lemma callback_effect cfg s h :
  core (callback cfg s h) = core s /\
  (if panics cfg h
   then lost (callback cfg s h) = lost s ++ [h] /\ executed (callback cfg s h) = executed s
   else executed (callback cfg s h) = executed s ++ [h] /\ lost (callback cfg s h) = lost s).
Proof. unfold callback. destruct (panics cfg h); cbn; auto. Qed.

(* ------------------------------------------------------------------ *)
(* panicking callbacks, whole runs: simulation by the run in which they return normally *)

Definition no_panic (cfg : config) : config := mkCfg (maxw cfg) (interval cfg) [] (runs cfg).

(* the state reached with panicking callbacks, computed from the state reached when the
   same callbacks return normally: same core, the log split by "would have panicked" *)
Definition relog (cfg : config) (s : state) : state :=
  mkSt (cont s) (csize s) (cmd s) (inflight s) (guarded s) (wg s) (barrier s) (tick s) (now s)
       (cl s) (fl s)
       (filter (fun h => negb (panics cfg h)) (executed s)) (filter (panics cfg) (executed s))
       (accepted s).

Lemma panics_no_panic cfg h : panics (no_panic cfg) h = false.
Proof. unfold panics, no_panic; cbn. induction h; cbn; auto. Qed.

Ltac dm :=
  repeat (match goal with
  | |- context [match ?x with _ => _ end] =>
    lazymatch x with
    | context [match _ with _ => _ end] => fail
    | _ => destruct x eqn:?
    end
  end; cbn -[panics filter Z.add Z.sub Z.leb Z.eqb Z.mul Z.ltb] in *).

Lemma step_relog cfg s e :
  step cfg (relog cfg s) e = option_map (relog cfg) (step (no_panic cfg) s e).
Proof.
  destruct s as [co cs cm inf gd wgc ba ti nw cls fls ex lo ac].
  destruct e as [c k|c|b alt| |d]; unfold step, call_step, cstep, bstep, fstep, callback, relog;
    cbn -[panics filter Z.add Z.sub Z.leb Z.eqb Z.mul Z.ltb]; rewrite ?panics_no_panic.
  all: dm; rewrite ?panics_no_panic in *; try reflexivity; try discriminate.
  all: unfold relog; cbn -[panics filter]; rewrite ?filter_app; cbn -[panics];
    repeat match goal with H : panics _ _ = _ |- _ => rewrite ?H; clear H end; cbn; rewrite ?app_nil_r; try reflexivity.
Qed.

Lemma exec_relog cfg s e : exec cfg (relog cfg s) e = relog cfg (exec (no_panic cfg) s e).
Proof. unfold exec. rewrite step_relog. destruct (step (no_panic cfg) s e); reflexivity. Qed.

Lemma run_relog cfg sched : forall s,
  run cfg (relog cfg s) sched = relog cfg (run (no_panic cfg) s sched).
Proof.
  induction sched as [|e sched IH]; intros s; [reflexivity|].
  rewrite !run_cons, exec_relog. apply IH.
Qed.

Lemma no_panic_never_loses cfg sched : forall s, lost s = [] -> lost (run (no_panic cfg) s sched) = [].
Proof.
  induction sched as [|e sched IH]; intros s H; [exact H|]. rewrite run_cons. apply IH.
  pose proof (exec_relog (no_panic cfg) s e) as Hr.
  (* with no panicking task the relogged state has lost = filter (fun _ => false) *)
  assert (Hl : forall s', lost (relog (no_panic cfg) s') = []).
  { intros s'. unfold relog; cbn. induction (executed s'); cbn; [reflexivity|].
    rewrite panics_no_panic. exact IHl. }
  assert (He : forall s', lost s' = [] -> relog (no_panic cfg) s' = s').
  { intros [co cs cm inf gd wgc ba ti nw cls fls ex lo ac] Hs; cbn in Hs; subst lo. unfold relog; cbn.
    f_equal.
    - induction ex; cbn; [reflexivity|]. rewrite panics_no_panic; cbn. now f_equal.
    - induction ex; cbn; [reflexivity|]. rewrite panics_no_panic; exact IHex. }
  rewrite (He s H) in Hr. assert (Hnn : no_panic (no_panic cfg) = no_panic cfg) by reflexivity.
  rewrite Hnn in Hr. rewrite Hr. apply Hl.
Qed.

Lemma panic_simulation cfg n sched :
  let s := run cfg (init n) sched in
  let s0 := run (no_panic cfg) (init n) sched in
  core s = core s0 /\ lost s0 = [] /\
  executed s = filter (fun h => negb (panics cfg h)) (executed s0) /\
  lost s = filter (panics cfg) (executed s0).
Proof.
  intros s s0. assert (Hi : relog cfg (init n) = init n) by reflexivity.
  assert (Hs : s = relog cfg s0) by (unfold s, s0; rewrite <- run_relog, Hi; reflexivity).
  split; [rewrite Hs; reflexivity|]. split; [apply no_panic_never_loses; reflexivity|].
  rewrite Hs. split; reflexivity.
Qed.
