(* C11 — the family of custom TaskContainers the correspondence run drives a bare
   PeriodicalExecutor with (harness/overlay/executors/verif_c11_agg.go), described by how their
   RemoveAll renders the list of the tasks it removes.  Executable definitions only.

   [ckind]: the Go type of a batch that holds tasks; [cempty]: what RemoveAll returns when
   nothing was added (the untyped nil / the zero value of the batch type / a non-zero "idle"
   value or an empty non-nil collection).  The aggregating shapes render the batch that holds
   only task 0 (payload 0: offset 0, a gauge set to 0, a flag set to false, an empty string ...)
   as the ZERO VALUE of their type although a task was added.  The kind, Len() and IsZero() of
   every value a container hands out are reported by the executor (reflect) and compared with
   [shape_of] by Check.agrees. *)
From Coq Require Import List ZArith Bool.
From GZ Require Import C11.Model.
Import ListNotations.
Open Scope Z_scope.

Inductive ckind :=
| SSlice      (* []any of the tasks: bulkContainer, chunkContainer, dbInserter, the harness' vContainer *)
| SMap        (* map[int64]int: task -> position *)
| SChan       (* a buffered channel holding the tasks *)
| SArray      (* [n]int64, n = number of tasks (reflect.ArrayOf) *)
| SStruct     (* struct{First int64; Rest []int64}: {0, nil} for the batch [0] *)
| SInt        (* int64: the task itself (single-task batches) *)
| SString     (* payloads joined by ",", the payload of task 0 is "" *)
| SBool       (* a flag: false for the batch [0], true for [1] *)
| SPtr        (* *struct: the typed nil pointer for the batch [0] *)
| SIface      (* the struct shape handed out through a named interface type *)
| SBag.       (* *struct with the tasks, never nil for a batch with tasks (kind "bag") *)

Inductive cempty := ENil | EZero | EMark.

Definition is_zero_task (h : batch) : bool :=
  match h with [t] => t =? 0 | _ => false end.

Definition lenz_b (h : batch) : Z := Z.of_nat (length h).

Definition empty_shape (k : ckind) (e : cempty) : bval :=
  match e with
  | ENil => mkBV KNil 0 true
  | EZero =>
    match k with
    | SSlice => mkBV KSlice 0 true | SMap => mkBV KMap 0 true | SChan => mkBV KChan 0 true
    | SArray => mkBV KArray 0 true
    | SStruct | SIface => mkBV KStruct 0 true
    | SInt => mkBV KInt 0 true | SString => mkBV KString 0 true | SBool => mkBV KBool 0 true
    | SPtr | SBag => mkBV KPtr 0 true
    end
  | EMark =>
    match k with
    | SSlice => mkBV KSlice 0 false | SMap => mkBV KMap 0 false | SChan => mkBV KChan 0 false
    | SArray => mkBV KArray 0 true          (* [0]int64{}: an array without elements is its zero value *)
    | SStruct | SIface => mkBV KStruct 0 false
    | SInt => mkBV KInt 0 false | SString => mkBV KString 0 false
    | SBool => mkBV KBool 0 true            (* not used: a flag has no third value *)
    | SPtr | SBag => mkBV KPtr 0 false
    end
  end.

Definition shape_of (k : ckind) (e : cempty) (h : batch) : bval :=
  match h with
  | [] => empty_shape k e
  | _ =>
    match k with
    | SSlice => mkBV KSlice (lenz_b h) false
    | SMap => mkBV KMap (lenz_b h) false
    | SChan => mkBV KChan (lenz_b h) false
    | SArray => mkBV KArray (lenz_b h) (forallb (Z.eqb 0) h)
    | SStruct | SIface => mkBV KStruct 0 (is_zero_task h)
    | SInt => mkBV KInt 0 (is_zero_task h)
    | SString => mkBV KString 0 (is_zero_task h)
    | SBool => mkBV KBool 0 (is_zero_task h)
    | SPtr => mkBV KPtr 0 (is_zero_task h)
    | SBag => mkBV KPtr 0 false
    end
  end.

(* ---- the seeded variant of hasTasks (C11-9): the default branch answers !val.IsZero() ---- *)
Definition has_tasks_iszero (v : bval) : bool :=
  match bv_kind v with
  | KNil => false
  | KArray | KChan | KMap | KSlice => 0 <? bv_len v
  | _ => negb (bv_zero v)
  end.

Definition iszero_cfg (mw iv : Z) (bd : list task) (sh : batch -> bval) : config :=
  mkCfg mw iv bd (fun h => has_tasks_iszero (sh h)).
