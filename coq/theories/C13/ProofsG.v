(* C13 — what the cluster's own machinery (monitor / load / watch / watchStream / reload)
   obtains from etcd, in ANY interleaving: loads at arbitrary revisions (also OLDER than what
   the registry has already seen), watch streams restarted from an earlier revision (the code
   restarts a closed / cancelled stream from the revision of the last load, so everything
   since then is delivered again), responses carrying several events.

   [consistent h pos hi ds] — the only thing asked of etcd and of the requests made to it:
   - a load's snapshot is the store after r mutations, for some r (NOT necessarily >= hi);
   - a response of the current stream carries exactly the mutations pos, pos+1, ...;
   - a stream is (re)started at a position p <= pos (never skipping ahead).
   [pos] = next mutation of the current stream, [hi] = how far the registry has ever been told.

   THEOREM (truth_consistent): whenever pos = hi (the current stream has caught up with
   everything ever delivered) the registry's truth is the store after hi mutations — after
   any number of stale snapshots and replays in between.  Before that point it need not be
   (stale_snapshot_refuted); a stream that starts beyond pos loses events for good
   (restart_forward_refuted). *)
From Coq Require Import List ZArith Bool Lia Permutation Arith.
From GZ Require Import C13.Model C13.Proofs C13.ProofsB C13.ProofsC C13.ProofsF.
Import ListNotations.
Open Scope Z_scope.

Definition bkey (b : bev) : Z := match b with BPut k _ => k | BDel k => k end.

Lemma bapply_at : forall m m' b k,
  (bkey b = k \/ mget k m = mget k m') -> mget k (bapply m b) = mget k (bapply m' b).
Proof.
  intros m m' [k0 v|k0] k H; cbn -[mset] in *.
  - rewrite !mget_mset. destruct (k0 =? k) eqn:E; [reflexivity|].
    destruct H as [H|H]; [apply Z.eqb_neq in E; contradiction | exact H].
  - rewrite !mget_mdel. destruct (k0 =? k) eqn:E; [reflexivity|].
    destruct H as [H|H]; [apply Z.eqb_neq in E; contradiction | exact H].
Qed.

(* the result of replaying [es] at key k depends on the start only if no event touches k *)
Lemma fold_dep : forall es m m' k,
  (In k (map bkey es) \/ mget k m = mget k m') ->
  mget k (fold_left bapply es m) = mget k (fold_left bapply es m').
Proof.
  induction es as [|b es IH]; intros m m' k H; cbn [fold_left map] in *.
  - destruct H as [[]|H]. exact H.
  - apply IH. destruct H as [[H|H]|H].
    + right. apply bapply_at. left. exact H.
    + left. exact H.
    + right. apply bapply_at. right. exact H.
Qed.

Lemma fold_untouched : forall es m k,
  ~ In k (map bkey es) -> mget k (fold_left bapply es m) = mget k m.
Proof.
  induction es as [|b es IH]; intros m k H; cbn [fold_left map] in *; [reflexivity|].
  rewrite IH by (intros Hin; apply H; right; exact Hin).
  destruct b as [k0 v|k0]; cbn -[mset] in *.
  - rewrite mget_mset. destruct (k0 =? k) eqn:E; [|reflexivity].
    apply Z.eqb_eq in E. exfalso. apply H. left. exact E.
  - rewrite mget_mdel. destruct (k0 =? k) eqn:E; [|reflexivity].
    apply Z.eqb_eq in E. exfalso. apply H. left. exact E.
Qed.

Lemma fold_pointwise : forall es m m',
  (forall k, mget k m = mget k m') ->
  forall k, mget k (fold_left bapply es m) = mget k (fold_left bapply es m').
Proof. intros es m m' H k. apply fold_dep. right. apply H. Qed.

(* ------------------------------------------------------------------ segments of the history *)
Lemma seg_nil : forall a h, seg a a h = [].
Proof.
  intros a h. unfold seg. apply length_zero_iff_nil.
  rewrite skipn_length, firstn_length. lia.
Qed.

Lemma firstn_split : forall (h : list bev) b c, (b <= c)%nat -> firstn c h = firstn b h ++ seg b c h.
Proof.
  intros h b c H. unfold seg.
  rewrite <- (firstn_skipn b (firstn c h)) at 1.
  rewrite firstn_firstn. replace (Nat.min b c) with b by lia. reflexivity.
Qed.

Lemma seg_split : forall (h : list bev) a b c, (a <= b)%nat -> (b <= c)%nat -> (b <= length h)%nat ->
  seg a c h = seg a b h ++ seg b c h.
Proof.
  intros h a b c Hab Hbc Hb. unfold seg at 1. rewrite (firstn_split h b c Hbc).
  rewrite skipn_app. rewrite firstn_length. replace (Nat.min b (length h)) with b by lia.
  replace (a - b)%nat with 0%nat by lia. reflexivity.
Qed.

Lemma etcd_state_seg : forall h a b, (a <= b)%nat ->
  etcd_state h b = fold_left bapply (seg a b h) (etcd_state h a).
Proof.
  intros h a b H. unfold etcd_state. rewrite (firstn_split h a b H), fold_left_app. reflexivity.
Qed.

(* ------------------------------------------------------------------ consistency *)
Fixpoint consistent (h : list bev) (pos hi : nat) (ds : list gdl) : Prop :=
  match ds with
  | [] => True
  | GLoad r snap _ :: ds' =>
    (r <= length h)%nat /\ (forall k, mget k (snap_map snap) = mget k (etcd_state h r)) /\
    consistent h r (Nat.max hi r) ds'
  | GRestart p :: ds' => (p <= pos)%nat /\ consistent h p hi ds'
  | GResp i evs :: ds' =>
    i = pos /\ (i + length evs <= length h)%nat /\ evs = seg i (i + length evs) h /\
    consistent h (i + length evs) (Nat.max hi (i + length evs)) ds'
  | GJoin _ _ :: ds' => consistent h pos hi ds'
  end.

(* the invariant: replaying what the current stream still has to deliver, up to hi, on the
   registry's truth gives the store after hi mutations *)
Definition tracks (h : list bev) (pos hi : nat) (t : amap Z) : Prop :=
  (pos <= hi)%nat /\ (hi <= length h)%nat /\
  forall k, mget k (fold_left bapply (seg pos hi h) t) = mget k (etcd_state h hi).

Lemma tracks_init : forall h, tracks h 0 0 [].
Proof.
  intros h. split; [lia|]. split; [lia|]. intros k. rewrite seg_nil. reflexivity.
Qed.

Lemma tracks_load : forall h pos hi t r t',
  tracks h pos hi t -> (r <= length h)%nat ->
  (forall k, mget k t' = mget k (etcd_state h r)) ->
  tracks h r (Nat.max hi r) t'.
Proof.
  intros h pos hi t r t' [Hp [Hh Ht]] Hr Hs.
  split; [lia|]. split; [lia|]. intros k.
  destruct (le_lt_dec hi r) as [Hle|Hlt].
  - replace (Nat.max hi r) with r by lia. rewrite seg_nil. apply Hs.
  - replace (Nat.max hi r) with hi by lia.
    rewrite (etcd_state_seg h r hi) by lia. apply fold_pointwise. exact Hs.
Qed.

Lemma tracks_restart : forall h pos hi t p,
  tracks h pos hi t -> (p <= pos)%nat -> tracks h p hi t.
Proof.
  intros h pos hi t p [Hp [Hh Ht]] Hpp.
  split; [lia|]. split; [exact Hh|]. intros k.
  rewrite (seg_split h p pos hi) by lia. rewrite fold_left_app.
  destruct (in_dec Z.eq_dec k (map bkey (seg pos hi h))) as [Hin|Hout].
  - rewrite <- (Ht k). apply fold_dep. left. exact Hin.
  - rewrite fold_untouched by exact Hout.
    destruct (in_dec Z.eq_dec k (map bkey (seg p pos h))) as [Hin2|Hout2].
    + (* the replayed part sets k to what it was after pos mutations; nothing touches it later *)
      rewrite (fold_dep _ t (etcd_state h p) k) by (left; exact Hin2).
      rewrite <- (etcd_state_seg h p pos) by lia.
      rewrite (etcd_state_seg h pos hi) by lia.
      rewrite fold_untouched by exact Hout. reflexivity.
    + rewrite fold_untouched by exact Hout2.
      rewrite <- (Ht k). rewrite fold_untouched by exact Hout. reflexivity.
Qed.

Lemma tracks_resp : forall h pos hi t n,
  tracks h pos hi t -> (pos + n <= length h)%nat ->
  tracks h (pos + n) (Nat.max hi (pos + n)) (fold_left bapply (seg pos (pos + n) h) t).
Proof.
  intros h pos hi t n [Hp [Hh Ht]] Hn.
  split; [lia|]. split; [lia|]. intros k.
  destruct (le_lt_dec (pos + n) hi) as [Hle|Hlt].
  - replace (Nat.max hi (pos + n)) with hi by lia.
    rewrite <- fold_left_app. rewrite <- (seg_split h pos (pos + n) hi) by lia. apply Ht.
  - replace (Nat.max hi (pos + n)) with (pos + n)%nat by lia.
    rewrite seg_nil. cbn [fold_left].
    rewrite (seg_split h pos hi (pos + n)) by lia. rewrite fold_left_app.
    rewrite (etcd_state_seg h hi (pos + n)) by lia.
    apply fold_pointwise. exact Ht.
Qed.

Lemma truth_tracks_gen : forall h ds pos hi t,
  consistent h pos hi ds -> tracks h pos hi t ->
  tracks h (fst (final_pos_g pos hi ds)) (snd (final_pos_g pos hi ds))
         (fold_left truth_step (map ev_of_g ds) t).
Proof.
  intros h ds. induction ds as [|d ds IH]; intros pos hi t Hc Ht; cbn [map fold_left final_pos_g fst snd].
  - exact Ht.
  - destruct d as [r snap calls|p|i evs|x order]; cbn [consistent] in Hc; cbn [ev_of_g truth_step].
    + destruct Hc as [Hr [Hs Hc]]. apply IH; [exact Hc|]. eapply tracks_load; eauto.
    + destruct Hc as [Hp Hc]. apply IH; [exact Hc|]. cbn [fold_left]. eapply tracks_restart; eauto.
    + destruct Hc as [-> [Hn [He Hc]]]. apply IH; [exact Hc|].
      rewrite He at 3. apply tracks_resp; assumption.
    + apply IH; assumption.
Qed.

(* caught up: the store after hi mutations, whatever happened in between *)
Lemma truth_consistent : forall h ds,
  consistent h 0 0 ds ->
  let pos := fst (final_pos_g 0 0 ds) in
  let hi := snd (final_pos_g 0 0 ds) in
  pos = hi ->
  forall k, mget k (truth (map ev_of_g ds)) = mget k (etcd_state h hi).
Proof.
  intros h ds Hc pos hi Heq k.
  destruct (truth_tracks_gen h ds 0%nat 0%nat [] Hc (tracks_init h)) as [_ [_ Ht]].
  fold pos in Ht. fold hi in Ht. rewrite Heq, seg_nil in Ht. apply Ht.
Qed.

(* ... and in general: what is still missing is exactly the rest of the replay *)
Lemma truth_consistent_lagging : forall h ds,
  consistent h 0 0 ds ->
  let pos := fst (final_pos_g 0 0 ds) in
  let hi := snd (final_pos_g 0 0 ds) in
  (pos <= hi)%nat /\
  forall k, mget k (fold_left bapply (seg pos hi h) (truth (map ev_of_g ds))) = mget k (etcd_state h hi).
Proof.
  intros h ds Hc pos hi.
  destruct (truth_tracks_gen h ds 0%nat 0%nat [] Hc (tracks_init h)) as [Hp [_ Ht]].
  split; [exact Hp | exact Ht].
Qed.

Lemma views_consistent : forall h ds xs c,
  consistent h 0 0 ds ->
  wf_run (init xs) (map ev_of_g ds) ->
  In c (conts (run (init xs) (map ev_of_g ds))) ->
  fst (final_pos_g 0 0 ds) = snd (final_pos_g 0 0 ds) ->
  let now := etcd_state h (snd (final_pos_g 0 0 ds)) in
  NoDup (c_values c) /\
  (cexcl c = false -> forall v, In v (c_values c) <-> registered now v) /\
  (cexcl c = true -> forall v, In v (c_values c) -> registered now v).
Proof.
  intros h ds xs c Hc W Hin Heq. cbn zeta.
  rewrite (sys_snapshot_current xs _ c Hin).
  destruct (sys_views xs _ c W Hin) as [A [B C]].
  pose proof (truth_consistent h ds Hc Heq) as T. cbn zeta in T.
  split; [exact A|]. split; intros Hx v.
  - rewrite (B Hx v). apply registered_pointwise. exact T.
  - intros Hv. apply (registered_pointwise _ _ v T). apply (C Hx v Hv).
Qed.

(* ------------------------------------------------------------------ the executable checker is sound *)
Lemma mget_none_notin : forall (m : amap Z) k, ~ In k (mkeys m) -> mget k m = None.
Proof.
  intros m k H. destruct (mget k m) eqn:E; [|reflexivity].
  exfalso. apply H. apply mkeys_in_iff. rewrite E. discriminate.
Qed.

Lemma oz_eqb_eq : forall a b, oz_eqb a b = true -> a = b.
Proof.
  intros [x|] [y|] H; cbn in H; try discriminate; [|reflexivity].
  apply Z.eqb_eq in H. subst. reflexivity.
Qed.

Lemma amap_eqb_sound : forall a b, amap_eqb a b = true -> forall k, mget k a = mget k b.
Proof.
  intros a b H k. unfold amap_eqb in H. rewrite forallb_forall in H.
  destruct (in_dec Z.eq_dec k (mkeys a ++ mkeys b)) as [Hin|Hout].
  - apply oz_eqb_eq. apply H. exact Hin.
  - rewrite !mget_none_notin; [reflexivity| |]; intros Hk; apply Hout; apply in_or_app; [right|left]; exact Hk.
Qed.

Lemma bevs_eqb_eq : forall a b, bevs_eqb a b = true -> a = b.
Proof.
  induction a as [|x a IH]; intros [|y b] H; cbn in H; try discriminate; [reflexivity|].
  apply andb_true_iff in H. destruct H as [Hx Hl]. f_equal; [|apply IH; exact Hl].
  destruct x as [k v|k], y as [k' v'|k']; cbn in Hx; try discriminate.
  - apply andb_true_iff in Hx. destruct Hx as [Hk Hv].
    apply Z.eqb_eq in Hk. apply Z.eqb_eq in Hv. subst. reflexivity.
  - apply Z.eqb_eq in Hx. subst. reflexivity.
Qed.

Lemma consistent_b_sound : forall h ds pos hi, consistent_b h pos hi ds = true -> consistent h pos hi ds.
Proof.
  intros h ds. induction ds as [|d ds IH]; intros pos hi H; cbn [consistent_b consistent] in *; [exact I|].
  destruct d as [r snap calls|p|i evs|x order].
  - apply andb_true_iff in H. destruct H as [H H3]. apply andb_true_iff in H. destruct H as [H1 H2].
    split; [apply Nat.leb_le; exact H1|]. split; [apply amap_eqb_sound; exact H2 | apply IH; exact H3].
  - apply andb_true_iff in H. destruct H as [H1 H2].
    split; [apply Nat.leb_le; exact H1 | apply IH; exact H2].
  - apply andb_true_iff in H. destruct H as [H H4]. apply andb_true_iff in H. destruct H as [H H3].
    apply andb_true_iff in H. destruct H as [H1 H2].
    split; [apply Nat.eqb_eq; exact H1|]. split; [apply Nat.leb_le; exact H2|].
    split; [apply bevs_eqb_eq; exact H3 | apply IH; exact H4].
  - apply IH. exact H.
Qed.
