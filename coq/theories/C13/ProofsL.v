(* C13 — cluster.reload (what the connection-state listener runs when the etcd connection comes
   back) over ANY set of watched keys.

   A cluster watches several keys; each has its own range of etcd ([hs k]: the mutations inside
   the range of key k) and its own deliveries.  [reload_all]: the code - for EVERY watched key a
   goroutine loads the key (a linearizable Get: the store now) and watches from that revision.
   [reload_last_key]: the variant whose goroutines all read the loop variable after the loop
   (seeded change C13-10: `k := key` dropped, go 1.21 semantics): every goroutine loads and
   watches the LAST key, the other keys get nothing.

   THEOREM (reload_restores_every_key): whatever consistent deliveries each key had before
   (stale snapshots, replays under way, registrations made during the outage and not yet seen),
   after reload_all EVERY watched key's delivery is consistent, caught up with etcd's present
   store (pos = hi = |hs k|) and its registry copy is that store; hence (views_consistent) every
   subscriber of every key shows the registrations.  The last-key variant is refuted in
   Pinned.reload_last_key_refuted. *)
From Coq Require Import List ZArith Bool Lia Permutation Arith.
From GZ Require Import C13.Model C13.Proofs C13.ProofsB C13.ProofsC C13.ProofsF C13.ProofsG.
Import ListNotations.
Open Scope Z_scope.

(* watched key -> what its machinery has obtained from etcd so far *)
Definition wcluster := list (Z * list gdl).

(* the load + watch of one key at reload time: [snaps k] / [calls k] = the Get's answer and the
   diff handleChanges dispatched *)
Definition reload_of (hs : Z -> list bev) (snaps : Z -> list (Z * Z)) (calls : Z -> list lev) (k : Z) : list gdl :=
  [GLoad (length (hs k)) (snaps k) (calls k); GRestart (length (hs k))].

Definition reload_all (hs : Z -> list bev) snaps calls (c : wcluster) : wcluster :=
  map (fun kd => (fst kd, snd kd ++ reload_of hs snaps calls (fst kd))) c.

Definition reload_last_key (hs : Z -> list bev) snaps calls (c : wcluster) : wcluster :=
  match rev c with
  | [] => c
  | (kl, _) :: _ =>
    map (fun kd => if fst kd =? kl
                   then (fst kd, snd kd ++ concat (map (fun _ => reload_of hs snaps calls kl) c))
                   else kd) c
  end.

Lemma consistent_app : forall h a b pos hi,
  consistent h pos hi a ->
  consistent h (fst (final_pos_g pos hi a)) (snd (final_pos_g pos hi a)) b ->
  consistent h pos hi (a ++ b).
Proof.
  intros h a. induction a as [|d a IH]; intros b pos hi Ha Hb; cbn [app final_pos_g] in *; [exact Hb|].
  destruct d as [r snap cl|p|i evs|x order]; cbn [consistent final_pos_g] in *.
  - destruct Ha as [H1 [H2 H3]]. split; [exact H1|]. split; [exact H2|]. apply IH; assumption.
  - destruct Ha as [H1 H2]. split; [exact H1|]. apply IH; assumption.
  - destruct Ha as [H1 [H2 [H3 H4]]]. split; [exact H1|]. split; [exact H2|]. split; [exact H3|]. apply IH; assumption.
  - apply IH; assumption.
Qed.

Lemma final_pos_app : forall a b pos hi,
  final_pos_g pos hi (a ++ b) = final_pos_g (fst (final_pos_g pos hi a)) (snd (final_pos_g pos hi a)) b.
Proof.
  induction a as [|d a IH]; intros b pos hi; cbn [app final_pos_g]; [destruct (final_pos_g pos hi []); reflexivity|].
  destruct d; cbn [final_pos_g]; apply IH.
Qed.

(* one key *)
Lemma reload_one_key : forall h ds snap cl,
  consistent h 0 0 ds ->
  (forall key, mget key (snap_map snap) = mget key (etcd_state h (length h))) ->
  let ds' := ds ++ [GLoad (length h) snap cl; GRestart (length h)] in
  consistent h 0 0 ds' /\
  final_pos_g 0 0 ds' = (length h, length h) /\
  forall key, mget key (truth (map ev_of_g ds')) = mget key (etcd_state h (length h)).
Proof.
  intros h ds snap cl Hc Hs ds'.
  destruct (truth_tracks_gen h ds 0%nat 0%nat [] Hc (tracks_init h)) as [_ [Hhi _]].
  assert (Hf : final_pos_g 0 0 ds' = (length h, length h)).
  { unfold ds'. rewrite final_pos_app. cbn [final_pos_g]. f_equal. lia. }
  assert (Hc' : consistent h 0 0 ds').
  { unfold ds'. apply consistent_app; [exact Hc|]. cbn [consistent].
    split; [lia|]. split; [exact Hs|]. split; [lia|exact I]. }
  split; [exact Hc'|]. split; [exact Hf|].
  intros key. pose proof (truth_consistent h ds' Hc') as T. cbn zeta in T.
  rewrite Hf in T. cbn [fst snd] in T. apply T. reflexivity.
Qed.

(* every key of the cluster *)
Lemma reload_restores_every_key : forall hs snaps calls (c : wcluster),
  (forall k ds, In (k, ds) c -> consistent (hs k) 0 0 ds) ->
  (forall k key, mget key (snap_map (snaps k)) = mget key (etcd_state (hs k) (length (hs k)))) ->
  forall k ds', In (k, ds') (reload_all hs snaps calls c) ->
  consistent (hs k) 0 0 ds' /\
  final_pos_g 0 0 ds' = (length (hs k), length (hs k)) /\
  forall key, mget key (truth (map ev_of_g ds')) = mget key (etcd_state (hs k) (length (hs k))).
Proof.
  intros hs snaps calls c Hc Hs k ds' Hin. unfold reload_all in Hin.
  apply in_map_iff in Hin. destruct Hin as [[k0 ds] [E Hin]]. cbn [fst snd] in E. inversion E; subst k0 ds'.
  apply (reload_one_key (hs k) ds (snaps k) (calls k)); [apply (Hc k ds Hin)|apply Hs].
Qed.

(* ... and no key is lost or invented by the reload *)
Lemma reload_all_keys : forall hs snaps calls c, map fst (reload_all hs snaps calls c) = map fst c.
Proof. intros. unfold reload_all. rewrite map_map. reflexivity. Qed.

(* hence the subscribers of every watched key show the registrations *)
Lemma reload_views_every_key : forall hs snaps calls (c : wcluster),
  (forall k ds, In (k, ds) c -> consistent (hs k) 0 0 ds) ->
  (forall k key, mget key (snap_map (snaps k)) = mget key (etcd_state (hs k) (length (hs k)))) ->
  forall k ds' xs cn, In (k, ds') (reload_all hs snaps calls c) ->
  wf_run (init xs) (map ev_of_g ds') ->
  In cn (conts (run (init xs) (map ev_of_g ds'))) ->
  let now := etcd_state (hs k) (length (hs k)) in
  NoDup (c_values cn) /\
  (cexcl cn = false -> forall v, In v (c_values cn) <-> registered now v) /\
  (cexcl cn = true -> forall v, In v (c_values cn) -> registered now v).
Proof.
  intros hs snaps calls c Hc Hs k ds' xs cn Hin W Hcn.
  destruct (reload_restores_every_key hs snaps calls c Hc Hs k ds' Hin) as [C [F _]].
  pose proof (views_consistent (hs k) ds' xs cn C W Hcn) as V. rewrite F in V. cbn [fst snd] in V.
  apply V. reflexivity.
Qed.
