(* C13 — the resolver on top of the system: what discovBuilder's update() publishes. *)
From Coq Require Import List ZArith Bool Lia Permutation.
From GZ Require Import C13.Model C13.Proofs C13.ProofsB C13.ProofsC C13.ProofsD.
Import ListNotations.
Open Scope Z_scope.

Lemma subset_spec : forall sh view n,
  Permutation sh view -> 0 <= n ->
  (Z.of_nat (length view) <= n -> Permutation (subset sh n) view) /\
  (n < Z.of_nat (length view) ->
   Z.of_nat (length (subset sh n)) = n /\ exists rest, Permutation (subset sh n ++ rest) view).
Proof.
  intros sh view n P Hn. split.
  - apply subset_small. exact P.
  - intros H. apply subset_large; [exact P | lia].
Qed.

Lemma nodup_app_l : forall (a b : list Z), NoDup (a ++ b) -> NoDup a.
Proof.
  induction a as [|x a IH]; intros b H; [constructor|].
  cbn in H. inversion H as [|? ? Hn Hd]; subst. constructor.
  - intros Hin. apply Hn. apply in_or_app. left. exact Hin.
  - eapply IH. exact Hd.
Qed.

(* update() = subset(sub.Values(), 32) -> cc.UpdateState, called by notifyChange: the
   listener sees [clast c]; [sh] is what rand.Shuffle made of it *)
Lemma resolver_publishes : forall n xs evs c sh, 0 <= n ->
  wf_run (init xs) evs -> In c (conts (run (init xs) evs)) -> cexcl c = false ->
  Permutation sh (clast c) ->
  let pub := subset sh n in
  NoDup pub /\
  (forall v, In v pub -> registered (truth evs) v) /\
  (Z.of_nat (length (c_view c)) <= n -> forall v, registered (truth evs) v -> In v pub) /\
  (n < Z.of_nat (length (c_view c)) -> Z.of_nat (length pub) = n).
Proof.
  intros n xs evs c sh Hn W Hin Hx P. cbn zeta.
  rewrite (listeners_saw_current_view xs evs c Hin) in P.
  destruct (sys_views xs evs c W Hin) as [Hnd [Hne _]]. specialize (Hne Hx).
  destruct (subset_spec sh (c_view c) n P Hn) as [Hs Hl].
  destruct (Z_le_gt_dec (Z.of_nat (length (c_view c))) n) as [Hle|Hgt].
  - specialize (Hs Hle). split; [|split; [|split]].
    + eapply Permutation_NoDup; [apply Permutation_sym; exact Hs | exact Hnd].
    + intros v Hv. apply Hne. eapply Permutation_in; eauto.
    + intros _ v Hv. apply Hne in Hv. eapply Permutation_in; [apply Permutation_sym; exact Hs | exact Hv].
    + lia.
  - destruct (Hl ltac:(lia)) as [Hlen [rest Hr]]. split; [|split; [|split]].
    + apply (nodup_app_l _ rest). eapply Permutation_NoDup; [apply Permutation_sym; exact Hr | exact Hnd].
    + intros v Hv. apply Hne. eapply Permutation_in; [exact Hr|]. apply in_or_app. left. exact Hv.
    + lia.
    + intros _. exact Hlen.
Qed.

Lemma one_key_reachable : forall x log, one_key (c_run (new_container x) log).
Proof.
  intros x log. apply one_key_run; [apply cinv_new|].
  intros _ v ks H. cbn in H. discriminate.
Qed.
