(* C13 — property theorems only.  Every theorem is closed by [exact] of a lemma proved in
   Proofs*.v and followed by [Print Assumptions].

   Vocabulary (Model.v / ProofsB.v / ProofsC.v):
   - [ev]: registry events — EPut / EDelete (watch events fed to handleWatchEvents),
     EReload snap calls (a Get response fed to handleChanges; [calls] = the OnAdd / OnDelete
     calls in the order in which they were made),
     EJoin x order (Registry.Monitor of a new, possibly exclusive, listener on the existing
     watcher; [order] = the order of the replay of getCurrent);
   - [wf_run s evs]: every oracle is an allowed choice (for a reload: the adds and removes
     computed by calculateChanges in any order and interleaving; for a join: the current
     values in any order) — the theorems hold for EVERY such order;
   - [truth evs]: key -> value as implied by the event history (PUT sets, DELETE removes,
     a reload replaces everything by the snapshot, later duplicates winning);
   - [registered t v]: some key of t carries value v;
   - [c_view c]: container.getValues() of listener c;  [clast c]: the Values() the listener
     funcs saw at their last call;  [cnotes c]: number of calls of each listener func;
   - [lev]: the UpdateListener calls (LAdd k v = OnAdd, LDel k = OnDelete);
     [live x log v]: in the call log, some key k registered v and since then k was neither
     deleted nor registered again and — when x (exclusive) — nobody registered v again. *)
From Coq Require Import List ZArith Bool Permutation Lia.
From GZgen Require Import C13Consts.
From GZ Require Import C13.Model C13.Proofs C13.ProofsB C13.ProofsC C13.ProofsD C13.ProofsE C13.ProofsF C13.ProofsG C13.ProofsH C13.ProofsI C13.ProofsJ C13.ProofsK C13.ProofsL C13.CheckProofs C13.GenProofs.
Import ListNotations.
Open Scope Z_scope.

(* The container alone, for EVERY sequence of OnAdd / OnDelete calls (a key changing its
   value, several keys sharing a value, deletes of absent keys, replays ...): Values() is
   exactly the set of live values.  For an exclusive container this pins down what
   "only the most recently registered key of each value counts" means in the code: the
   value is shown iff its most recent registrant is still registered with it. *)
Theorem container_view_is_live_values : forall x log v,
  In v (c_view (c_run (new_container x) log)) <-> live x log v.
Proof. exact container_view_live_values. Qed.
Print Assumptions container_view_is_live_values.

(* The registry's own copy (watchValue.values) is the registered key -> value relation. *)
Theorem registry_copy_is_truth : forall xs evs, rvals (run (init xs) evs) = truth evs.
Proof. exact rvals_truth. Qed.
Print Assumptions registry_copy_is_truth.

(* After any history of put / update / delete / delete-of-absent / reload snapshots that
   replay, change or omit registrations / late joins, and whatever order the map
   iterations chose: every subscriber's Values() has no duplicates; a non-exclusive
   subscriber shows exactly the values of the registered keys; an exclusive subscriber
   never shows a value that is not registered. *)
Theorem view_equals_registrations : forall xs evs c,
  wf_run (init xs) evs -> In c (conts (run (init xs) evs)) ->
  NoDup (c_view c) /\
  (cexcl c = false -> forall v, In v (c_view c) <-> registered (truth evs) v) /\
  (cexcl c = true -> forall v, In v (c_view c) -> registered (truth evs) v).
Proof. exact sys_views. Qed.
Print Assumptions view_equals_registrations.

(* The same against etcd itself.  [h]: etcd's mutation history (mutation i makes revision
   i+1); the registry receives loads (a Get answered at some revision, handleChanges) and
   watch events (handleWatchEvents).  Under the delivery hypothesis
   [events_after_snapshot] (ProofsF.v: a snapshot is the etcd state of its revision; after
   a load at revision r the watch continues with revision r+1, in order, no gaps, no
   repetitions — what WithRev(rev+1) in cluster.setupWatch asks etcd for), Values() of
   every subscriber is / is within the values registered in etcd at the last delivered
   revision. *)
Theorem view_equals_etcd_registrations : forall h ds xs c,
  events_after_snapshot h 0 ds ->
  wf_run (init xs) (map (ev_of h) ds) ->
  In c (conts (run (init xs) (map (ev_of h) ds))) ->
  let now := etcd_state h (final_pos 0 ds) in
  NoDup (c_values c) /\
  (cexcl c = false -> forall v, In v (c_values c) <-> registered now v) /\
  (cexcl c = true -> forall v, In v (c_values c) -> registered now v).
Proof. exact views_are_etcd_state. Qed.
Print Assumptions view_equals_etcd_registrations.

(* The same for what the cluster's OWN machinery (monitor / load / watch / watchStream /
   reload on an etcd client) can obtain, in any interleaving.  [gdl]: GLoad r (a Get answered
   with the store after r mutations), GRestart p (setupWatch opens a stream that starts with
   mutation p), GResp i evs (one response carrying mutations i, i+1, ...), GJoin (a further
   listener).  [consistent h pos hi ds] asks only:
     - a snapshot is the store at SOME revision r — not necessarily the newest one the
       registry has seen (no monotonicity of load revisions);
     - a response of the current stream carries exactly the next mutations;
     - a stream (re)starts at p <= the position reached (the code restarts a closed or
       cancelled stream at the revision of the last load: everything since is delivered again).
   [final_pos_g] = (pos, hi): next mutation of the current stream, highest position ever
   delivered.  Whenever pos = hi — the current stream has caught up — Values() of every
   subscriber is / is within the registrations after hi mutations, however many stale
   snapshots and replays happened before.  Boundary: Pinned.stale_snapshot_before_catch_up_refuted,
   partial_replay_refuted (pos < hi), restart_forward_refuted (p > pos). *)
Theorem view_equals_etcd_after_any_consistent_delivery : forall h ds xs c,
  consistent h 0 0 ds ->
  wf_run (init xs) (map ev_of_g ds) ->
  In c (conts (run (init xs) (map ev_of_g ds))) ->
  fst (final_pos_g 0 0 ds) = snd (final_pos_g 0 0 ds) ->
  let now := etcd_state h (snd (final_pos_g 0 0 ds)) in
  NoDup (c_values c) /\
  (cexcl c = false -> forall v, In v (c_values c) <-> registered now v) /\
  (cexcl c = true -> forall v, In v (c_values c) -> registered now v).
Proof. exact views_consistent. Qed.
Print Assumptions view_equals_etcd_after_any_consistent_delivery.

(* ... and in between: the registry's copy differs from the store after hi mutations by
   exactly the part of the replay that is still to come. *)
Theorem registry_copy_while_replaying : forall h ds xs,
  consistent h 0 0 ds ->
  let pos := fst (final_pos_g 0 0 ds) in
  let hi := snd (final_pos_g 0 0 ds) in
  (pos <= hi)%nat /\
  forall k, mget k (fold_left bapply (seg pos hi h) (rvals (run (init xs) (map ev_of_g ds)))) =
            mget k (etcd_state h hi).
Proof. exact rvals_consistent_lagging. Qed.
Print Assumptions registry_copy_while_replaying.

(* Check.consistent_b (evaluated on what the fake etcd logged in every "cluster" case of the
   correspondence run) implies the hypothesis of the two theorems above. *)
Theorem consistency_checker_is_sound : forall h ds pos hi,
  consistent_b h pos hi ds = true -> consistent h pos hi ds.
Proof. exact consistent_b_sound. Qed.
Print Assumptions consistency_checker_is_sound.

(* cluster.reload (reconnect) over ANY set of watched keys.  [wcluster]: watched key -> the
   deliveries its machinery has obtained so far; [hs k]: etcd's mutations inside the range of key
   k; [reload_all]: the code - for EVERY watched key a goroutine loads the key (linearizable Get:
   the store now) and watches from that revision.  Whatever consistent deliveries the keys had
   before (stale snapshots, replays under way, registrations made during the outage and never
   delivered), afterwards EVERY watched key is consistent, caught up with etcd's present store and
   its registry copy IS that store ... *)
Theorem reload_restores_every_watched_key : forall hs snaps calls (c : wcluster),
  (forall k ds, In (k, ds) c -> consistent (hs k) 0 0 ds) ->
  (forall k key, mget key (snap_map (snaps k)) = mget key (etcd_state (hs k) (length (hs k)))) ->
  forall k ds', In (k, ds') (reload_all hs snaps calls c) ->
  consistent (hs k) 0 0 ds' /\
  final_pos_g 0 0 ds' = (length (hs k), length (hs k)) /\
  forall key, mget key (truth (map ev_of_g ds')) = mget key (etcd_state (hs k) (length (hs k))).
Proof. exact reload_restores_every_key. Qed.
Print Assumptions reload_restores_every_watched_key.

(* ... so the subscribers of every watched key show the registrations (no key is lost:
   ProofsL.reload_all_keys).  The variant whose goroutines all take the LAST key (seeded change
   C13-10) is refuted in Pinned.reload_last_key_refuted. *)
Theorem reload_views_of_every_watched_key : forall hs snaps calls (c : wcluster),
  (forall k ds, In (k, ds) c -> consistent (hs k) 0 0 ds) ->
  (forall k key, mget key (snap_map (snaps k)) = mget key (etcd_state (hs k) (length (hs k)))) ->
  forall k ds' xs cn, In (k, ds') (reload_all hs snaps calls c) ->
  wf_run (init xs) (map ev_of_g ds') ->
  In cn (conts (run (init xs) (map ev_of_g ds'))) ->
  let now := etcd_state (hs k) (length (hs k)) in
  NoDup (c_values cn) /\
  (cexcl cn = false -> forall v, In v (c_values cn) <-> registered now v) /\
  (cexcl cn = true -> forall v, In v (c_values cn) -> registered now v).
Proof. exact reload_views_every_key. Qed.
Print Assumptions reload_views_of_every_watched_key.

(* non-vacuity: keys 1 and 2; key 1 has seen put 11=10 and missed put 12=20 during the outage,
   key 2 has seen nothing of put 21=30 *)
Example ex_reload_two_keys :
  let hs := fun k => if k =? 1 then [BPut 11 10; BPut 12 20] else [BPut 21 30] in
  let snaps := fun k => if k =? 1 then [(11, 10); (12, 20)] else [(21, 30)] in
  let calls := fun k => if k =? 1 then [LAdd 12 20] else [LAdd 21 30] in
  let c := [(1, [GLoad 0 [] []; GRestart 0; GResp 0 [BPut 11 10]]); (2, [GLoad 0 [] []; GRestart 0])] in
  map (fun kd => (fst kd, final_pos_g 0 0 (snd kd), truth (map ev_of_g (snd kd)))) (reload_all hs snaps calls c) =
    [(1, (2%nat, 2%nat), [(12, 20); (11, 10)]); (2, (1%nat, 1%nat), [(21, 30)])].
Proof. reflexivity. Qed.

(* The executable judgement that prop_ok applies to what the REAL cluster showed
   (Check.prop_thread, at a quiescent point at which etcd is not withholding deliveries: [t] = the
   truth implied by the deliveries, [prev] / [tr] = the judgement's record of the subscribers at the
   previous point and now, [cs] = the observed (Values(), notifications) per subscriber) is sound
   against the statement of the property: when it accepts, [t] is etcd's store after the n
   mutations made so far, the i-th subscriber's Values() is within the registered values - exactly
   those for a non-exclusive subscriber -, a changed view was notified and the last notification
   carried the final view.  (prop_ok is therefore not an unproved oracle for this clause.) *)
Theorem quiescent_point_judgement_is_sound : forall h t tr prev n rv cs l i x m pv x' m' pv' vals notes,
  NoDup (mkeys t) ->
  Check.prop_thread h t tr prev (Check.WObs n false rv cs :: l) = true ->
  nth_error prev i = Some (x, m, pv) -> nth_error tr i = Some (x', m', pv') ->
  nth_error cs i = Some (vals, notes) ->
  let now := etcd_state h n in
  (forall k, mget k t = mget k now) /\
  (forall v, In v vals -> registered now v) /\
  (x = false -> forall v, In v vals <-> registered now v) /\
  (vals <> pv -> notes <> []) /\
  (notes <> [] -> last notes [] = vals).
Proof. exact prop_thread_observation_sound. Qed.
Print Assumptions quiescent_point_judgement_is_sound.

(* ... and for an EXCLUSIVE subscriber the judgement compares Values() with the values of the
   key -> value relation implied by the calls it must have received ([sp_run true log]; the record
   is extended by [track_step] with the calls of every delivery): accepted means exactly the live
   values of that call log - only the most recently registered key of each value counts. *)
Theorem exclusive_judgement_is_live_values : forall m prev log pv tv vals notes,
  Check.cont_ok (true, m, prev) (true, sp_run true log, pv) tv (vals, notes) = true ->
  forall v, In v vals <-> live true log v.
Proof. exact exclusive_judgement_sound. Qed.
Print Assumptions exclusive_judgement_is_live_values.

Theorem judgement_record_is_the_call_log : forall x log pv lv,
  Check.track_step lv (x, sp_run x log, pv) = (x, sp_run x (log ++ lv), Check.vals_of (sp_run x (log ++ lv))).
Proof. exact track_step_log. Qed.
Print Assumptions judgement_record_is_the_call_log.

(* ... and the resolver: what Check.prop_resolver accepts as the most recent cc.UpdateState
   (Check.pub_ok, with the property's own 32, against the truth [t] of the event history) consists
   of registered values, of ALL of them when there are at most 32, and of exactly 32 otherwise. *)
Theorem resolver_judgement_is_sound : forall pub t, NoDup (mkeys t) ->
  Check.pub_ok pub (Check.vals_of t) = true ->
  (forall a, In a pub -> registered t a) /\
  (Z.of_nat (length (Check.vals_of t)) <= 32 -> forall a, registered t a -> In a pub) /\
  (32 < Z.of_nat (length (Check.vals_of t)) -> Z.of_nat (length pub) = 32).
Proof. exact resolver_judgement_sound. Qed.
Print Assumptions resolver_judgement_is_sound.

(* ... and the kube EventHandler: one accepted step of Check.prop_kube inside the event alphabet
   ([t] = the addresses of the Endpoints object as last reported): the most recent publication and
   h.endpoints are exactly the current addresses; a changed address set was published. *)
Theorem kube_judgement_is_sound : forall t lastpub e pubs eps evs' obs',
  Check.prop_kube t lastpub (e :: evs') ((pubs, eps) :: obs') = true -> Check.kwf_b t e = true ->
  let t' := ktruth_step t e in
  let lp := last pubs lastpub in
  (forall ip, In ip lp <-> In ip t') /\
  (forall ip, In ip eps <-> In ip t') /\
  ((exists ip, ~ (In ip t <-> In ip t')) -> pubs <> []) /\
  Check.prop_kube t' lp evs' obs' = true.
Proof. exact kube_step_judgement_sound. Qed.
Print Assumptions kube_judgement_is_sound.

(* non-vacuity: etcd: put 1=10, put 2=20; a non-exclusive subscriber that showed [10] before and
   shows [10; 20] now, notified once with the final view *)
Example ex_judgement :
  Check.prop_thread [BPut 1 10; BPut 2 20] [(2, 20); (1, 10)] [(false, [(2, 20); (1, 10)], [10; 20])] [(false, [(1, 10)], [10])]
                    [Check.WObs 2 false [(1, 10); (2, 20)] [([10; 20], [[10; 20]])]] = true.
Proof. reflexivity. Qed.

(* The watch loop itself (watchUntil / watchStream / setupWatch) against etcd's stream protocol,
   with the response HEADERS in the picture.  [sact]: SBatch n hd = one watch response with the
   next n mutations of the stream and header position hd - etcd catches a watcher that is behind
   up in batches and stamps every batch with the CURRENT store revision, so pos + n <= hd and the
   mutations in between are still to come (n = 0: progress notification); SBreak = the stream ends
   without compaction (closed channel, Canceled response, other errors); SLoad = compaction error
   or reconnect: load + new stream; SJoin = a further listener.  [wf_script] = what etcd
   guarantees, nothing else: ANY batching, ANY headers within those bounds, errors / compactions /
   reconnects after ANY batch.  [watch_loop pol] = the deliveries the loop obtains when it resumes
   a broken stream from the revision of the last load (RLoadRev: the code) or from the last
   handled event (RLastEvent).  Every such run is a consistent delivery ... *)
Theorem watch_loop_delivery_is_consistent : forall pol h script,
  pol <> RHeader -> wf_script pol h 0 0 script ->
  consistent h 0 0 (watch_loop pol h 0 0 script).
Proof. exact watch_loop_consistent. Qed.
Print Assumptions watch_loop_delivery_is_consistent.

(* ... hence, whenever the current stream has caught up, Values() of every subscriber is / is
   within the registrations - whatever was batched, stamped, broken and replayed before.
   Resuming from the last HEADER revision instead (RHeader, seeded change C13-9) is refuted in
   Pinned.resume_from_header_refuted; it is consistent only while no header is ever ahead of the
   events delivered (next theorem), which is why no test with an in-sync watcher notices. *)
Theorem view_equals_etcd_under_any_batching_and_stream_errors : forall pol h script xs c,
  pol <> RHeader -> wf_script pol h 0 0 script ->
  let ds := watch_loop pol h 0 0 script in
  wf_run (init xs) (map ev_of_g ds) ->
  In c (conts (run (init xs) (map ev_of_g ds))) ->
  fst (final_pos_g 0 0 ds) = snd (final_pos_g 0 0 ds) ->
  let now := etcd_state h (snd (final_pos_g 0 0 ds)) in
  NoDup (c_values c) /\
  (cexcl c = false -> forall v, In v (c_values c) <-> registered now v) /\
  (cexcl c = true -> forall v, In v (c_values c) -> registered now v).
Proof. exact watch_loop_views. Qed.
Print Assumptions view_equals_etcd_under_any_batching_and_stream_errors.

Theorem resume_from_header_is_consistent_only_in_sync : forall h script,
  wf_script RHeader h 0 0 script -> headers_in_sync RHeader 0 0 script ->
  consistent h 0 0 (watch_loop RHeader h 0 0 script).
Proof. exact watch_loop_header_consistent_in_sync. Qed.
Print Assumptions resume_from_header_is_consistent_only_in_sync.

(* non-vacuity: etcd: put 1=10, put 2=20, delete 1, put 3=30, put 4=40.  Load after the first
   mutation; the watcher is behind: a partial batch [put 2=20] stamped with the revision of the
   4th mutation; the stream breaks; the code resumes from the load revision: [put 2, delete 1]
   and [put 3, put 4] (header = store) arrive: caught up, the view is the store. *)
Definition ex_bh : list bev := [BPut 1 10; BPut 2 20; BDel 1; BPut 3 30; BPut 4 40].
Definition ex_bscript : list sact :=
  [SLoad 1 [(1, 10)] [LAdd 1 10]; SBatch 1 4; SBreak; SBatch 2 5; SJoin false [(2, 20)]; SBatch 2 5; SBatch 0 5].
Example ex_batched_catch_up :
  wf_script RLoadRev ex_bh 0 0 ex_bscript /\
  watch_loop RLoadRev ex_bh 0 0 ex_bscript =
    [GLoad 1 [(1, 10)] [LAdd 1 10]; GRestart 1; GResp 1 [BPut 2 20]; GRestart 1; GResp 1 [BPut 2 20; BDel 1];
     GJoin false [(2, 20)]; GResp 3 [BPut 3 30; BPut 4 40]; GResp 5 []] /\
  final_pos_g 0 0 (watch_loop RLoadRev ex_bh 0 0 ex_bscript) = (5%nat, 5%nat) /\
  map c_values (conts (run (init [false]) (map ev_of_g (watch_loop RLoadRev ex_bh 0 0 ex_bscript)))) = [[40; 30; 20]; [40; 30; 20]] /\
  etcd_state ex_bh 5 = [(4, 40); (3, 30); (2, 20)].
Proof.
  split; [|repeat split; reflexivity].
  cbn. repeat split; lia.
Qed.

(* ... and every subscriber (in particular the exclusive ones) shows exactly the live
   values of the calls it received ([logs]: the i-th listener's flag and call log). *)
Theorem subscriber_view_is_live_values_of_its_calls : forall xs evs i x log,
  nth_error (logs xs evs) i = Some (x, log) ->
  exists c, nth_error (conts (run (init xs) evs)) i = Some c /\ cexcl c = x /\
            forall v, In v (c_view c) <-> live x log v.
Proof. exact listener_views_live. Qed.
Print Assumptions subscriber_view_is_live_values_of_its_calls.

(* The listener set of a watcher changing WHILE the watcher dispatches a call (handleWatchEvents
   / handleChanges range over a snapshot of watcher.listeners; [acts i] = the Unmonitor / Monitor
   calls made while the i-th callback runs: re-entrantly from inside it - Subscriber.Close in
   one's own change listener - or by other goroutines): every listener that is registered for
   the whole duration of the dispatch is called exactly once and is still registered afterwards,
   whatever joins or leaves meanwhile; a listener that was not registered at the start is not
   called by this dispatch (a joiner is served by Monitor's replay). *)
Theorem dispatch_reaches_every_staying_listener_once : forall ls acts l, NoDup ls -> In l ls ->
  (forall i, forallb (fun a => negb (leaves l a)) (acts i) = true) ->
  count_occ Z.eq_dec (fst (dispatch_copy ls acts)) l = 1%nat /\ In l (snd (dispatch_copy ls acts)).
Proof. exact dispatch_copy_stayers. Qed.
Print Assumptions dispatch_reaches_every_staying_listener_once.

Theorem dispatch_calls_exactly_the_listeners_of_its_start : forall ls acts l, NoDup ls ->
  (In l ls -> count_occ Z.eq_dec (fst (dispatch_copy ls acts)) l = 1%nat) /\
  (~ In l ls -> count_occ Z.eq_dec (fst (dispatch_copy ls acts)) l = 0%nat).
Proof. exact dispatch_copy_exactly_once. Qed.
Print Assumptions dispatch_calls_exactly_the_listeners_of_its_start.

(* non-vacuity: listeners 1 2 3; during the callback of 1, listener 1 closes itself and 4 joins *)
Example ex_dispatch :
  dispatch_copy [1; 2; 3] (fun i => match i with O => [MLeave 1; MJoin 4] | _ => [] end) = ([1; 2; 3], [2; 3; 4]).
Proof. reflexivity. Qed.

(* A subscriber joining a watched key WHILE the watch goroutine handles events
   (Registry.Monitor: the joiner is attached to watcher.listeners, then the known values are
   replayed to it; [jstep] = the replay calls and the events, in the order in which they
   happen): the joiner is called for every event handled after its join began ... *)
Theorem joiner_never_misses_an_event : forall sched b,
  In (JEvent b) sched -> In (blev b) (jcalls_attached sched).
Proof. exact joiner_never_misses. Qed.
Print Assumptions joiner_never_misses_an_event.

(* ... and when those events are registrations of keys that are not in the replayed snapshot,
   it ends up tied to the registry's values whatever the interleaving (non-exclusive: exactly
   those bindings, hence Values() = their values; exclusive: no stale binding).  For events
   about keys OF the snapshot see Pinned.join_replay_overtakes_event_refuted. *)
Theorem join_overlapping_registrations_is_complete : forall x (snap regs : amap Z) l,
  NoDup (mkeys (snap ++ regs)) ->
  Permutation l (ladds snap ++ ladds regs) ->
  cont_ok (snap ++ regs) (c_run (new_container x) l).
Proof. exact join_overlapping_new_registrations. Qed.
Print Assumptions join_overlapping_registrations_is_complete.

Example ex_join_overlap :
  c_view (c_run (new_container false) (jcalls_attached [JReplay 1 10; JEvent (BPut 3 30); JReplay 2 20])) = [20; 30; 10].
Proof. reflexivity. Qed.

(* Generations of a watcher.  A key whose last subscriber closes loses its watchValue; monitored
   again it gets a NEW one (load + watch), while the watch goroutine of the old generation may
   still be in the middle of a watch response ([gens]: the values of every watchValue ever
   created for the key; [apply_bound g evs]: handleWatchEvents of generation g's goroutine, bound
   to the watchValue it looked up once per response).  Whatever work older generations still do,
   in any order, they never write the values of another generation ... *)
Theorem old_generation_never_writes_new : forall (work : list (nat * list bev)) gs g' d,
  (forall g evs, In (g, evs) work -> g <> g') ->
  nth g' (fold_left (fun gs w => apply_bound (fst w) (snd w) gs) work gs) d = nth g' gs d.
Proof. exact old_generations_never_write_new. Qed.
Print Assumptions old_generation_never_writes_new.

(* ... so the view of the newest generation's subscribers is decided by what ITS machinery
   obtained from etcd (view_equals_etcd_after_any_consistent_delivery), over histories with
   close-and-monitor-again during held multi-event responses. *)
Theorem new_generation_view_is_etcd : forall h ds xs c (work : list (nat * list bev)) (gs : gens) g',
  (forall g evs, In (g, evs) work -> g <> g') ->
  nth g' gs [] = rvals (run (init xs) (map ev_of_g ds)) ->
  consistent h 0 0 ds ->
  wf_run (init xs) (map ev_of_g ds) ->
  In c (conts (run (init xs) (map ev_of_g ds))) ->
  fst (final_pos_g 0 0 ds) = snd (final_pos_g 0 0 ds) ->
  let now := etcd_state h (snd (final_pos_g 0 0 ds)) in
  (forall k, mget k (nth g' (fold_left (fun gs w => apply_bound (fst w) (snd w) gs) work gs) []) = mget k now) /\
  NoDup (c_values c) /\
  (cexcl c = false -> forall v, In v (c_values c) <-> registered now v) /\
  (cexcl c = true -> forall v, In v (c_values c) -> registered now v).
Proof. exact new_generation_view. Qed.
Print Assumptions new_generation_view_is_etcd.

(* generation 0 holds {1 -> 10}; generation 1 was created after key 2 came and went; the old
   goroutine still applies PUT 2 20 of its response: generation 1 is untouched *)
Example ex_generations :
  apply_bound 0 [BPut 2 20] [[(1, 10)]; [(1, 10)]] = [[(2, 20); (1, 10)]; [(1, 10)]].
Proof. reflexivity. Qed.

(* Notifications.  Each event makes exactly one round of listener calls per UpdateListener
   call it emits (PUT / DELETE: always one, also when nothing changes — harmless
   re-publication; reload: one per new, changed or vanished key); so a listener whose view
   changed has been notified ... *)
Theorem every_change_notifies : forall s e i c,
  nth_error (conts s) i = Some c ->
  exists c', nth_error (conts (step s e)) i = Some c' /\
             cnotes c' = cnotes c + Z.of_nat (length (emitted e)) /\
             (c_view c' <> c_view c -> cnotes c < cnotes c').
Proof. exact change_notifies. Qed.
Print Assumptions every_change_notifies.

(* ... and the notification comes after the state change: at all times the view the
   listener funcs saw last is the current view (no lost update). *)
Theorem listeners_always_saw_current_view : forall xs evs c,
  In c (conts (run (init xs) evs)) -> clast c = c_view c.
Proof. exact listeners_saw_current_view. Qed.
Print Assumptions listeners_always_saw_current_view.

(* No-op events: a reload that finds the registrations unchanged (a pure replay) calls
   nobody. *)
Theorem unchanged_reload_is_silent : forall s snap calls,
  NoDup (mkeys (rvals s)) -> wf_ev s (EReload snap calls) ->
  (forall k, mget k (snap_map snap) = mget k (rvals s)) ->
  emitted (EReload snap calls) = [].
Proof. exact reload_same_is_silent. Qed.
Print Assumptions unchanged_reload_is_silent.

(* subset(set, n): whatever the shuffle, all of the set when it has at most n elements,
   else n of its elements. *)
Theorem subset_all_when_small : forall sh view n,
  Permutation sh view -> 0 <= n ->
  (Z.of_nat (length view) <= n -> Permutation (subset sh n) view) /\
  (n < Z.of_nat (length view) ->
   Z.of_nat (length (subset sh n)) = n /\ exists rest, Permutation (subset sh n ++ rest) view).
Proof. exact subset_spec. Qed.
Print Assumptions subset_all_when_small.

(* The resolver (discovBuilder: a non-exclusive subscriber whose listener publishes
   subset(Values(), subsetSize)): after any history and whatever the shuffle, the published
   list has no duplicates, contains only registered values, contains ALL registered values
   when there are at most subsetSize, and has exactly subsetSize entries otherwise.
   [gen_subsetSize] is re-extracted from zrpc/resolver/internal/resolver.go at every run
   (coq/gen/C13Consts.v); the property text fixes it to 32. *)
Theorem resolver_publishes_all_when_small : forall xs evs c sh,
  wf_run (init xs) evs -> In c (conts (run (init xs) evs)) -> cexcl c = false ->
  Permutation sh (clast c) ->
  let pub := subset sh gen_subsetSize in
  NoDup pub /\
  (forall v, In v pub -> registered (truth evs) v) /\
  (Z.of_nat (length (c_view c)) <= gen_subsetSize -> forall v, registered (truth evs) v -> In v pub) /\
  (gen_subsetSize < Z.of_nat (length (c_view c)) -> Z.of_nat (length pub) = gen_subsetSize).
Proof. exact resolver_publishes_gen. Qed.
Print Assumptions resolver_publishes_all_when_small.

Theorem subset_size_is_32 : gen_subsetSize = 32.
Proof. exact subsetSize_is_32. Qed.
Print Assumptions subset_size_is_32.

(* The getValues cache (dirty bit + snapshot): for every sequence of OnAdd / OnDelete calls,
   with listener funcs that read Values() or not, and Values() read by anybody at any time
   in between: what Values() returns through the cache is the freshly computed view. *)
Theorem snapshot_is_current : forall x c, creach x c -> c_values c = c_view c.
Proof. exact snapshot_current. Qed.
Print Assumptions snapshot_is_current.

(* ... in particular for every subscriber of the system after any event history; so all
   theorems about [c_view] are theorems about Subscriber.Values(). *)
Theorem subscriber_values_are_the_view : forall xs evs c,
  In c (conts (run (init xs) evs)) -> c_values c = c_view c.
Proof. exact sys_snapshot_current. Qed.
Print Assumptions subscriber_values_are_the_view.

(* The kube EventHandler, after any informer-ordered history of OnAdd / OnUpdate /
   OnDelete / Update about the selected Endpoints object ([kwf_run], see ProofsD.v):
   the last published list (and h.endpoints) is exactly the current set of IPs, without
   duplicates. *)
Theorem kube_view_exact : forall l, kwf_run [] l ->
  let s := krun kinit l in
  NoDup (klast s) /\
  (forall ip, In ip (klast s) <-> In ip (ktruth l)) /\
  (forall ip, In ip (kend s) <-> In ip (ktruth l)).
Proof. exact kube_exact. Qed.
Print Assumptions kube_view_exact.

(* With the source as it stands (OnAdd replaces, GenProofs.kubeOnAddReplaces_today) the
   condition on OnAdd disappears: whatever object the informer adds - also one that lost
   addresses since kubeBuilder.Build's Get+Update - the published list is exactly its IPs. *)
Theorem kube_view_exact_any_add : forall l, kwf_free_run [] l ->
  let s := krun kinit l in
  NoDup (klast s) /\
  (forall ip, In ip (klast s) <-> In ip (ktruth l)) /\
  (forall ip, In ip (kend s) <-> In ip (ktruth l)).
Proof. exact kube_exact_free. Qed.
Print Assumptions kube_view_exact_any_add.

Example ex_kube_shrunk_add :
  kwf_free_run [] [KUpdate (mkObj 1 [[1; 2]]); KAdd (mkObj 2 [[1]])] /\
  klast (krun kinit [KUpdate (mkObj 1 [[1; 2]]); KAdd (mkObj 2 [[1]])]) = [1].
Proof. vm_compute. tauto. Qed.

(* ... and for ANY history: a handler call either leaves the endpoint set as it was and
   publishes nothing, or publishes exactly once, the new set. *)
Theorem kube_change_publishes_once : forall l e,
  let s := krun kinit l in
  let s' := kstep s e in
  (kcount s' = kcount s /\ forall ip, In ip (kend s') <-> In ip (kend s)) \/
  (kcount s' = kcount s + 1 /\ klast s' = kend s').
Proof. exact kube_change_publishes. Qed.
Print Assumptions kube_change_publishes_once.

(* Model adequacy: an exclusive container never holds two keys for one value, so addKv's
   loop over the slice that doRemoveKey rewrites in place sees at most one element. *)
Theorem exclusive_one_key_per_value : forall x log, one_key (c_run (new_container x) log).
Proof. exact one_key_reachable. Qed.
Print Assumptions exclusive_one_key_per_value.

(* ------------------------------------------------------------------ non-vacuity *)
(* two initial listeners (one exclusive); keys 1 and 2 share value 10; a reload changes
   the value of key 1, adds key 3, drops key 4, replays key 2 — the remove delivered between
   the adds, calls made in an order
   different from the model's own; an exclusive listener joins; key 5 takes value 30 over
   from key 3 and is deleted; a never-registered key is deleted. *)
Definition ex_evs : list ev :=
  [EPut 1 10; EPut 2 10; EPut 4 40;
   EReload [(1, 20); (3, 30); (2, 10)] [LAdd 1 20; LDel 4; LAdd 3 30];
   EJoin true [(3, 30); (2, 10); (1, 20)]; EPut 5 30; EDelete 5; EDelete 9].

Example ex_wf : wf_run (init [false; true]) ex_evs.
Proof.
  vm_compute. repeat split; try apply Permutation_refl.
  - apply (Permutation_app_comm [LAdd 1 20; LDel 4] [LAdd 3 30]).
  - apply perm_swap.
Qed.

Example ex_views :
  map (fun c => (cexcl c, c_view c, cnotes c)) (conts (run (init [false; true]) ex_evs)) =
  [(false, [30; 20; 10], 9); (true, [20; 10], 9); (true, [20; 10], 6)] /\
  truth ex_evs = [(2, 10); (3, 30); (1, 20)].
Proof. vm_compute. split; reflexivity. Qed.

Example ex_live : live false (snd (nth 0 (logs [false; true] ex_evs) (false, []))) 30 /\
                  ~ live true (snd (nth 1 (logs [false; true] ex_evs) (false, []))) 30.
Proof.
  split.
  - apply (container_view_live_values false). vm_compute. left. reflexivity.
  - intros H. apply (container_view_live_values true) in H. vm_compute in H.
    destruct H as [H|[H|[]]]; discriminate.
Qed.

Definition ex_kube : list kev :=
  [KUpdate (mkObj 1 [[1; 2]]); KAdd (mkObj 1 [[1; 2]]);
   KOnUpdate (mkObj 1 [[1; 2]]) (mkObj 2 [[2]; [3; 2]]);
   KOnUpdate (mkObj 2 [[2]; [3; 2]]) (mkObj 2 [[2]; [3; 2]]);
   KDelete (mkObj 2 [[2]; [3; 2]]); KAdd (mkObj 3 [[4]])].

Example ex_kube_wf : kwf_run [] ex_kube.
Proof.
  cbn. repeat split; try (intros ? ?; cbn in *; tauto); try tauto; try discriminate;
    try (left; reflexivity); right; intros ? ?; cbn in *; tauto.
Qed.

Example ex_kube_obs :
  (klast (krun kinit ex_kube), kcount (krun kinit ex_kube)) = ([4], 4) /\
  klast (krun kinit (firstn 4 ex_kube)) = [2; 3].
Proof. vm_compute. split; reflexivity. Qed.

(* etcd: put 1=10, put 2=10, del 1, put 3=30.  The registry loads at revision 2, watches
   revisions 3 and 4, reloads at revision 4 (a pure replay: no call), ... *)
Definition ex_h : list bev := [BPut 1 10; BPut 2 10; BDel 1; BPut 3 30].
Definition ex_ds : list dlv :=
  [DLoad 2 [(1, 10); (2, 10)] [LAdd 2 10; LAdd 1 10]; DWatch 2; DWatch 3; DLoad 4 [(2, 10); (3, 30)] []].
Example ex_delivery :
  events_after_snapshot ex_h 0 ex_ds /\ wf_run (init [false]) (map (ev_of ex_h) ex_ds) /\
  map c_values (conts (run (init [false]) (map (ev_of ex_h) ex_ds))) = [[30; 10]] /\
  etcd_state ex_h (final_pos 0 ex_ds) = [(3, 30); (2, 10)].
Proof.
  split; [|split; [|split; reflexivity]].
  - cbn [events_after_snapshot ex_ds]. repeat split; try (cbn; lia); intros k; f_equal; reflexivity.
  - vm_compute. repeat split; apply Permutation_refl.
Qed.

Example ex_subset : subset [5; 4; 3; 2; 1] 3 = [5; 4; 3] /\ subset [2; 1] 3 = [2; 1].
Proof. vm_compute. split; reflexivity. Qed.

(* etcd: put 1=10, put 2=20, delete 1, put 3=30.  The registry loads at revision 1, watches
   1..3, its stream is closed and restarted at the revision of the load (1, 2 replayed in one
   response: the deleted registration of key 1 is NOT resurrected in the end), a compaction
   error makes it load again - answered by a lagging member at revision 2 (stale) -, the new
   stream delivers 2, 3 again. *)
Definition ex_gh : list bev := [BPut 1 10; BPut 2 20; BDel 1; BPut 3 30].
Definition ex_gds : list gdl :=
  [GLoad 1 [(1, 10)] [LAdd 1 10]; GRestart 1; GResp 1 [BPut 2 20]; GResp 2 [BDel 1]; GResp 3 [BPut 3 30];
   GRestart 1; GResp 1 [BPut 2 20; BDel 1];
   GJoin true [(2, 20); (3, 30)];
   GLoad 2 [(1, 10); (2, 20)] [LDel 3; LAdd 1 10]; GRestart 2; GResp 2 [BDel 1; BPut 3 30]].
Example ex_consistent_delivery :
  consistent ex_gh 0 0 ex_gds /\ wf_run (init [false]) (map ev_of_g ex_gds) /\
  final_pos_g 0 0 ex_gds = (4%nat, 4%nat) /\
  map c_values (conts (run (init [false]) (map ev_of_g ex_gds))) = [[30; 20]; [30; 20]] /\
  etcd_state ex_gh 4 = [(3, 30); (2, 20)].
Proof.
  split; [apply consistent_b_sound; reflexivity|]. split; [|repeat split; reflexivity].
  vm_compute. repeat split; try apply Permutation_refl. apply perm_swap.
Qed.
