(* C13 — subset (resolver) and the kube EventHandler. *)
From Coq Require Import List ZArith Bool Lia Permutation.
From GZgen Require Import C13Consts.
From GZ Require Import C13.Model C13.Proofs.
Import ListNotations.
Open Scope Z_scope.

(* ------------------------------------------------------------------ subset *)
Lemma subset_small : forall sh view n,
  Permutation sh view -> Z.of_nat (length view) <= n -> Permutation (subset sh n) view.
Proof.
  intros sh view n P H. unfold subset. rewrite (Permutation_length P).
  destruct (Z.of_nat (length view) <=? n) eqn:E; [exact P|]. apply Z.leb_gt in E. lia.
Qed.

Lemma subset_large : forall sh view n,
  Permutation sh view -> 0 <= n < Z.of_nat (length view) ->
  Z.of_nat (length (subset sh n)) = n /\
  exists rest, Permutation (subset sh n ++ rest) view.
Proof.
  intros sh view n P H. unfold subset. rewrite (Permutation_length P).
  destruct (Z.of_nat (length view) <=? n) eqn:E; [apply Z.leb_le in E; lia|].
  split.
  - rewrite firstn_length_le; [lia|]. rewrite (Permutation_length P). lia.
  - exists (skipn (Z.to_nat n) sh). rewrite firstn_skipn. exact P.
Qed.

(* ------------------------------------------------------------------ kube: the set operations *)
Lemma zrem_in : forall x y l, In y (zrem x l) <-> In y l /\ y <> x.
Proof.
  intros x y l. unfold zrem. rewrite filter_In, negb_true_iff, Z.eqb_neq. tauto.
Qed.

Lemma zrem_nodup : forall x l, NoDup l -> NoDup (zrem x l).
Proof. intros. apply NoDup_filter. assumption. Qed.

Lemma zmem_false : forall x l, zmem x l = false <-> ~ In x l.
Proof.
  intros x l. rewrite <- zmem_in. destruct (zmem x l); split; congruence.
Qed.

Lemma nodup_snoc : forall (x : Z) l, NoDup l -> ~ In x l -> NoDup (l ++ [x]).
Proof.
  induction l as [|y l IH]; intros Hd Hn; cbn.
  - constructor; [intros []|constructor].
  - inversion Hd as [|? ? Hy Hd']; subst. constructor.
    + rewrite in_app_iff. cbn. intros [H|[H|[]]]; [contradiction|]. subst. apply Hn. left. reflexivity.
    + apply IH; [exact Hd'|]. intros H. apply Hn. right. exact H.
Qed.

Lemma kadd_all_true : forall l e, snd (kadd_all l e true) = true.
Proof. induction l as [|x l IH]; intros e; cbn; [reflexivity|]. destruct (zmem x e); apply IH. Qed.

Lemma kdel_all_true : forall l e, snd (kdel_all l e true) = true.
Proof. induction l as [|x l IH]; intros e; cbn; [reflexivity|]. destruct (zmem x e); apply IH. Qed.

Lemma kadd_all_spec : forall l e ch,
  NoDup e ->
  NoDup (fst (kadd_all l e ch)) /\
  (forall ip, In ip (fst (kadd_all l e ch)) <-> In ip e \/ In ip l) /\
  (snd (kadd_all l e ch) = false -> fst (kadd_all l e ch) = e).
Proof.
  induction l as [|x l IH]; intros e ch Hd; cbn.
  - split; [exact Hd|]. split; [tauto | reflexivity].
  - destruct (zmem x e) eqn:Em.
    + destruct (IH e ch Hd) as [A [B C]]. split; [exact A|]. split; [|exact C].
      intros ip. rewrite B. apply zmem_in in Em. split; [tauto|].
      intros [H|[H|H]]; [tauto | subst; tauto | tauto].
    + apply zmem_false in Em.
      destruct (IH (e ++ [x]) true (nodup_snoc x e Hd Em)) as [A [B C]]. split; [exact A|]. split.
      * intros ip. rewrite B, in_app_iff. cbn. tauto.
      * rewrite kadd_all_true. discriminate.
Qed.

Lemma kdel_all_spec : forall l e ch,
  NoDup e ->
  NoDup (fst (kdel_all l e ch)) /\
  (forall ip, In ip (fst (kdel_all l e ch)) <-> In ip e /\ ~ In ip l) /\
  (snd (kdel_all l e ch) = false -> fst (kdel_all l e ch) = e).
Proof.
  induction l as [|x l IH]; intros e ch Hd; cbn.
  - split; [exact Hd|]. split; [tauto | reflexivity].
  - destruct (zmem x e) eqn:Em.
    + destruct (IH (zrem x e) true (zrem_nodup x e Hd)) as [A [B C]]. split; [exact A|]. split.
      * intros ip. rewrite B, zrem_in. split; [intros [[H1 H2] H3]; split; [exact H1|]; intros [H|H]; [congruence | contradiction]|].
        intros [H1 H2]. split; [split; [exact H1|]; intros ->; apply H2; left; reflexivity|].
        intros H. apply H2. right. exact H.
      * rewrite kdel_all_true. discriminate.
    + apply zmem_false in Em.
      destruct (IH e ch Hd) as [A [B C]]. split; [exact A|]. split; [|exact C].
      intros ip. rewrite B. split; [intros [H1 H2]; split; [exact H1|]; intros [H|H]; [subst; contradiction | contradiction]|].
      intros [H1 H2]. split; [exact H1|]. intros H. apply H2. right. exact H.
Qed.

Lemma kdiff_false : forall o n, NoDup o -> NoDup n -> kdiff o n = false ->
  forall ip, In ip o <-> In ip n.
Proof.
  intros o n Ho Hn H. unfold kdiff in H. apply orb_false_iff in H. destruct H as [Hl He].
  apply negb_false_iff, Nat.eqb_eq in Hl.
  assert (Hincl : incl o n).
  { intros k Hk. destruct (zmem k n) eqn:Em; [apply zmem_in; exact Em|].
    exfalso. assert (Hx : existsb (fun k => negb (zmem k n)) o = true).
    { apply existsb_exists. exists k. split; [exact Hk | rewrite Em; reflexivity]. }
    congruence. }
  intros ip. split; [apply Hincl|].
  apply (NoDup_length_incl Ho); [lia | exact Hincl].
Qed.

(* ------------------------------------------------------------------ kube: invariants *)
Record kinv (s : kstate) : Prop := mkKinv
  { ki_end : NoDup (kend s);
    ki_last : NoDup (klast s);
    ki_same : forall ip, In ip (klast s) <-> In ip (kend s) }.

Lemma kinv_init : kinv kinit.
Proof. constructor; cbn; [constructor | constructor | tauto]. Qed.

(* the effect of one handler call on the endpoint set, and when it publishes *)
Definition kset_after (e : kev) (old : list Z) (ip : Z) : Prop :=
  match e with
  | KAdd o => if gen_kubeOnAddReplaces then In ip (ips o) else In ip old \/ In ip (ips o)
  | KDelete o => In ip old /\ ~ In ip (ips o)
  | KOnUpdate o1 o2 => if orv o1 =? orv o2 then In ip old else In ip (ips o2)
  | KUpdate o => In ip (ips o)
  | KOther => In ip old
  | KTombstone _ => In ip old
  end.

Lemma k_update_spec : forall o s, kinv s ->
  kinv (k_update o s) /\
  (forall ip, In ip (kend (k_update o s)) <-> In ip (ips o)) /\
  ((kcount (k_update o s) = kcount s /\ forall ip, In ip (kend (k_update o s)) <-> In ip (kend s)) \/
   (kcount (k_update o s) = kcount s + 1 /\ klast (k_update o s) = kend (k_update o s))).
Proof.
  intros o s [He Hl Hs]. unfold k_update.
  destruct (kadd_all_spec (ips o) [] false (NoDup_nil Z)) as [A [B _]].
  set (n := fst (kadd_all (ips o) [] false)) in *.
  assert (Bn : forall ip, In ip n <-> In ip (ips o)).
  { intros ip. rewrite B. cbn. tauto. }
  destruct (kdiff (kend s) n) eqn:Ed; cbn.
  - split; [constructor; cbn; [exact A | exact A | tauto]|]. split; [exact Bn|]. right. split; reflexivity.
  - pose proof (kdiff_false _ _ He A Ed) as Hsame.
    split; [constructor; cbn; [exact A | exact Hl |]|].
    + intros ip. rewrite Hs. apply Hsame.
    + split; [exact Bn|]. left. split; [reflexivity|]. intros ip. symmetry. apply Hsame.
Qed.

Lemma kstep_spec : forall s e, kinv s ->
  kinv (kstep s e) /\
  (forall ip, In ip (kend (kstep s e)) <-> kset_after e (kend s) ip) /\
  ((kcount (kstep s e) = kcount s /\ forall ip, In ip (kend (kstep s e)) <-> In ip (kend s)) \/
   (kcount (kstep s e) = kcount s + 1 /\ klast (kstep s e) = kend (kstep s e))).
Proof.
  intros s e I. pose proof I as [He Hl Hs]. destruct e as [o|o|o1 o2|o| |o]; cbn [kstep kset_after].
  - destruct gen_kubeOnAddReplaces; [apply k_update_spec; exact I|].
    destruct (kadd_all_spec (ips o) (kend s) false He) as [A [B C]].
    destruct (kadd_all (ips o) (kend s) false) as [n ch] eqn:E. cbn [fst snd] in *.
    destruct ch; cbn.
    + split; [constructor; cbn; [exact A | exact A | tauto]|]. split; [exact B|]. right. split; reflexivity.
    + rewrite (C eq_refl) in *. split; [constructor; cbn; assumption|]. split; [exact B|].
      left. split; [reflexivity | tauto].
  - destruct (kdel_all_spec (ips o) (kend s) false He) as [A [B C]].
    destruct (kdel_all (ips o) (kend s) false) as [n ch] eqn:E. cbn [fst snd] in *.
    destruct ch; cbn.
    + split; [constructor; cbn; [exact A | exact A | tauto]|]. split; [exact B|]. right. split; reflexivity.
    + rewrite (C eq_refl) in *. split; [constructor; cbn; assumption|]. split; [exact B|].
      left. split; [reflexivity | tauto].
  - destruct (orv o1 =? orv o2).
    + split; [exact I|]. split; [tauto|]. left. split; [reflexivity | tauto].
    + apply k_update_spec. exact I.
  - apply k_update_spec. exact I.
  - split; [exact I|]. split; [tauto|]. left. split; [reflexivity | tauto].
  - split; [exact I|]. split; [tauto|]. left. split; [reflexivity | tauto].
Qed.

(* ------------------------------------------------------------------ kube: well-formed histories *)
(* events about the one selected Endpoints object, in informer order: OnDelete carries an
   object that covers the current addresses (its last known state); OnAdd likewise (the
   object appears, or is listed again, possibly grown) UNLESS OnAdd replaces the set
   ([gen_kubeOnAddReplaces], read off the source: then any OnAdd is fine); an OnUpdate with equal
   resource versions (resync) carries the same addresses *)
Definition kwf (t : list Z) (e : kev) : Prop :=
  match e with
  | KAdd o => gen_kubeOnAddReplaces = true \/ incl t (ips o)
  | KDelete o => incl t (ips o)
  | KOnUpdate o1 o2 => orv o1 = orv o2 -> forall ip, In ip (ips o2) <-> In ip t
  | KUpdate _ => True
  | KOther => True            (* says nothing about the endpoints *)
  | KTombstone _ => False     (* a delete the handler does not see: outside the alphabet *)
  end.

Fixpoint kwf_run (t : list Z) (l : list kev) : Prop :=
  match l with
  | [] => True
  | e :: l' => kwf t e /\ kwf_run (ktruth_step t e) l'
  end.

Lemma kstep_truth : forall s t e, kinv s -> kwf t e ->
  (forall ip, In ip (kend s) <-> In ip t) ->
  forall ip, In ip (kend (kstep s e)) <-> In ip (ktruth_step t e).
Proof.
  intros s t e I W H ip. destruct (kstep_spec s e I) as [_ [B _]]. rewrite B.
  destruct e as [o|o|o1 o2|o| |o]; cbn [kset_after ktruth_step kwf] in *.
  - destruct gen_kubeOnAddReplaces; [tauto|].
    destruct W as [W|W]; [discriminate|].
    rewrite H. split; [intros [H1|H1]; [apply W; exact H1 | exact H1] | tauto].
  - rewrite H. split; [intros [H1 H2]; apply H2, W, H1 | intros []].
  - destruct (orv o1 =? orv o2) eqn:E; [|tauto].
    apply Z.eqb_eq in E. rewrite H. symmetry. apply W. exact E.
  - tauto.
  - apply H.
  - destruct W.
Qed.

Lemma krun_gen : forall l s t, kinv s -> kwf_run t l ->
  (forall ip, In ip (kend s) <-> In ip t) ->
  kinv (krun s l) /\ forall ip, In ip (kend (krun s l)) <-> In ip (fold_left ktruth_step l t).
Proof.
  induction l as [|e l IH]; intros s t I W H; cbn [krun fold_left]; [split; assumption|].
  destruct W as [We Wl]. apply IH.
  - apply kstep_spec. exact I.
  - exact Wl.
  - apply kstep_truth; assumption.
Qed.

Lemma kube_exact : forall l, kwf_run [] l ->
  let s := krun kinit l in
  NoDup (klast s) /\
  (forall ip, In ip (klast s) <-> In ip (ktruth l)) /\
  (forall ip, In ip (kend s) <-> In ip (ktruth l)).
Proof.
  intros l W. destruct (krun_gen l kinit [] kinv_init W) as [I H]; [cbn; tauto|].
  cbn zeta. split; [apply (ki_last _ I)|]. split; [|exact H].
  intros ip. rewrite (ki_same _ I). apply H.
Qed.

Lemma kinv_run : forall l s, kinv s -> kinv (krun s l).
Proof.
  induction l as [|e l IH]; intros s I; cbn; [exact I|]. apply IH. apply kstep_spec. exact I.
Qed.

(* whatever the history (well-formed or not): a call that changes the endpoint set
   publishes, once, and what it publishes is the new set *)
Lemma kube_change_publishes : forall l e,
  let s := krun kinit l in
  let s' := kstep s e in
  (kcount s' = kcount s /\ forall ip, In ip (kend s') <-> In ip (kend s)) \/
  (kcount s' = kcount s + 1 /\ klast s' = kend s').
Proof.
  intros l e. cbn zeta. apply kstep_spec. apply kinv_run. apply kinv_init.
Qed.
