(* C13 — correspondence / property evaluation on histories observed on the
   implementation.  Executable only. *)
From Coq Require Import List ZArith Bool.
From GZgen Require Export C13Consts.
From GZ Require Export Lib.CheckLib C13.Model.
Import ListNotations.
Open Scope Z_scope.

(* ------------------------------------------------------------ helpers *)
Fixpoint dedup_sorted (l : list Z) : list Z :=
  match l with
  | [] => []
  | x :: l' => match l' with
               | [] => [x]
               | y :: _ => if x =? y then dedup_sorted l' else x :: dedup_sorted l'
               end
  end.
Definition canon_set (l : list Z) : list Z := dedup_sorted (sort_z l).
Definition zss_eqb := list_eqb zs_eqb.

Fixpoint remove_one (x : Z) (l : list Z) : option (list Z) :=
  match l with
  | [] => None
  | y :: l' => if x =? y then Some l'
               else match remove_one x l' with Some r => Some (y :: r) | None => None end
  end.
(* view minus pub as multisets; None when pub is not a sub-multiset *)
Fixpoint msub (view pub : list Z) : option (list Z) :=
  match pub with
  | [] => Some view
  | x :: pub' => match remove_one x view with Some r => msub r pub' | None => None end
  end.
Definition perm_b (a b : list Z) : bool := zs_eqb (sort_z a) (sort_z b).
Definition pperm_b (a b : list (Z * Z)) : bool := pairs_eqb (sort_pairs a) (sort_pairs b).

(* [pub] is a possible result of subset(view, n): some shuffle of view starts with it *)
Definition valid_pub (n : Z) (pub view : list Z) : bool :=
  match msub view pub with
  | Some rest => perm_b (pub ++ rest) view && zs_eqb (subset (pub ++ rest) n) pub
  | None => false
  end.

(* the statement of the property for a published list, with the property's own 32 *)
Definition pub_ok (pub vals : list Z) : bool :=
  if Z.of_nat (length vals) <=? 32 then perm_b pub vals
  else (Z.of_nat (length pub) =? 32) && match msub vals pub with Some _ => true | None => false end.

(* the oracle of an event is an allowed choice *)
Definition wf_ev_b (s : sys) (e : ev) : bool :=
  match e with
  | EReload snap calls =>
    (* any interleaving of the computed adds and removes *)
    pperm_b (flat_map (fun e => match e with LAdd k v => [(k, v)] | LDel _ => [] end) calls)
            (calc_add (rvals s) (snap_map snap)) &&
    perm_b (flat_map (fun e => match e with LAdd _ _ => [] | LDel k => [k] end) calls)
           (calc_rem (rvals s) (snap_map snap))
  | EJoin _ order => pperm_b order (rvals s)
  | _ => true
  end.

(* notifications (views, sorted) each container of the new state received during the event *)
Definition ev_notes (s : sys) (e : ev) : list (list (list Z)) :=
  match e with
  | EJoin x order => map (fun _ => []) (conts s) ++ [map sort_z (c_trace (new_container x) (ladds order))]
  | _ => map (fun c => map sort_z (c_trace c (emitted e))) (conts s)
  end.

(* ------------------------------------------------------------ cases *)
Definition cobs := (list Z * list (list Z))%type.       (* Values() sorted, views at the listener calls *)
Definition dobs := (list (Z * Z) * list cobs)%type.     (* watchValue.values sorted, per container *)
Definition robs := (list (list Z) * list Z)%type.       (* lists given to UpdateState, Values() sorted *)
Definition kobs := (list (list Z) * list Z)%type.       (* lists given to update (sorted), h.endpoints sorted *)

(* cluster: the real Registry / cluster machinery on a fake etcd.  One thread per watcher
   (watched key x exactMatch, from its creation to its removal): [h] = etcd's mutations inside
   the watched range, in order; the ops are what the fake etcd was asked / answered for this
   watcher (as logged by the fake), the listeners that came and went, and the quiescent points
   ([n] = number of mutations of [h] etcd has made so far; [lag]: etcd was told to withhold
   deliveries at that moment). *)
Inductive wop :=
| WD (d : gdl)
| WRespCalls (calls : list lev)      (* the listener calls the spy saw for the preceding GResp *)
| WJoinNotes (jn : Z)                (* how the preceding GJoin's listener func was attached:
                                        0 = before Monitor (sees the replay), 1 = after it (sees
                                        nothing), 2 = after it, then called once (discovBuilder) *)
| WLeave (i : nat)
| WNoStream                          (* the executor's watchdog: etcd is reachable, the key is monitored, but the
                                        watcher has NO live watch stream and no goroutine of the cluster is loading
                                        or setting one up - the expected load / watch was never issued *)
| WObs (n : nat) (lag : bool) (rv : list (Z * Z)) (cs : list cobs).
Definition wthread := (list bev * list wop)%type.

Inductive case :=
| CContainer (x : bool) (levs : list lev) (obs : list cobs)
| CDiscov (xs : list bool) (evs : list ev) (obs : list dobs)
| CResolver (n : Z) (pre evs : list ev) (build : robs) (obs : list robs)
| CSubset (set : list Z) (sub : Z) (sh out : list Z)
| CKube (evs : list kev) (obs : list kobs)
| CCluster (ths : list wthread).

(* ------------------------------------------------------------ agrees: model = implementation *)
Definition cobs_eqb (a b : cobs) : bool := zs_eqb (fst a) (fst b) && zss_eqb (snd a) (snd b).

Fixpoint agrees_container (c : container) (levs : list lev) (obs : list cobs) : bool :=
  match levs, obs with
  | [], [] => true
  | e :: levs', o :: obs' =>
    let c' := c_apply c e in
    cobs_eqb (sort_z (c_values c'), [sort_z (clast c')]) o && agrees_container c' levs' obs'
  | _, _ => false
  end.

Fixpoint agrees_discov (s : sys) (evs : list ev) (obs : list dobs) : bool :=
  match evs, obs with
  | [], [] => true
  | e :: evs', (rv, cs) :: obs' =>
    let s' := step s e in
    wf_ev_b s e &&
    pairs_eqb (sort_pairs (rvals s')) rv &&
    list_eqb cobs_eqb (combine (map (fun c => sort_z (c_values c)) (conts s')) (ev_notes s e)) cs &&
    (Nat.eqb (length (conts s')) (length (ev_notes s e))) &&
    agrees_discov s' evs' obs'
  | _, _ => false
  end.

Fixpoint all_valid_pub (n : Z) (pubs views : list (list Z)) : bool :=
  match pubs, views with
  | [], [] => true
  | p :: pubs', v :: views' => valid_pub n p v && all_valid_pub n pubs' views'
  | _, _ => false
  end.

Definition the_cont (s : sys) : container :=
  match conts s with c :: _ => c | [] => new_container false end.

Fixpoint agrees_resolver (n : Z) (s : sys) (evs : list ev) (obs : list robs) : bool :=
  match evs, obs with
  | [], [] => true
  | e :: evs', (pubs, vals) :: obs' =>
    let s' := step s e in
    wf_ev_b s e &&
    all_valid_pub n pubs (c_trace (the_cont s) (emitted e)) &&
    zs_eqb (sort_z (c_values (the_cont s'))) vals &&
    agrees_resolver n s' evs' obs'
  | _, _ => false
  end.

Fixpoint wf_run_b (s : sys) (evs : list ev) : bool :=
  match evs with
  | [] => true
  | e :: evs' => wf_ev_b s e && wf_run_b (step s e) evs'
  end.

Fixpoint agrees_kube (s : kstate) (evs : list kev) (obs : list kobs) : bool :=
  match evs, obs with
  | [], [] => true
  | e :: evs', (pubs, eps) :: obs' =>
    let s' := kstep s e in
    zss_eqb (if kcount s' =? kcount s then [] else [sort_z (klast s')]) pubs &&
    zs_eqb (sort_z (kend s')) eps &&
    agrees_kube s' evs' obs'
  | _, _ => false
  end.

(* ---- cluster *)
Fixpoint remove_nth {A} (i : nat) (l : list A) : list A :=
  match l, i with
  | [], _ => []
  | _ :: l', O => l'
  | x :: l', S i' => x :: remove_nth i' l'
  end.

Fixpoint dlvs_of (ops : list wop) : list gdl :=
  match ops with
  | [] => []
  | WD d :: l => d :: dlvs_of l
  | _ :: l => dlvs_of l
  end.

Definition lev_eqb (a b : lev) : bool :=
  match a, b with
  | LAdd k v, LAdd k' v' => (k =? k') && (v =? v')
  | LDel k, LDel k' => k =? k'
  | _, _ => false
  end.

Definition app_notes (acc new : list (list (list Z))) : list (list (list Z)) :=
  map (fun p => fst p ++ snd p) (combine acc new).

(* [acc]: per container, the views its listener func has seen since the last quiescent point;
   [lastev]: the previous delivery (for WRespCalls / WJoinNotes) *)
Fixpoint agrees_thread (s : sys) (acc : list (list (list Z))) (lastev : option ev) (ops : list wop) : bool :=
  match ops with
  | [] => true
  | WD d :: l =>
    let e := ev_of_g d in
    let s' := step s e in
    let acc' := match d with
                | GJoin _ _ => acc ++ [last (ev_notes s e) []]
                | _ => app_notes acc (ev_notes s e)
                end in
    wf_ev_b s e && agrees_thread s' acc' (Some e) l
  | WRespCalls calls :: l =>
    match lastev with
    | Some e => list_eqb lev_eqb (emitted e) calls
    | None => false
    end && agrees_thread s acc lastev l
  | WJoinNotes jn :: l =>
    let acc' := match rev acc with
                | [] => acc
                | _ :: racc =>
                  rev racc ++ [if jn =? 0 then last acc []
                               else if jn =? 1 then []
                               else [sort_z (c_values (last (conts s) (new_container false)))]]
                end in
    agrees_thread s acc' lastev l
  | WLeave i :: l =>
    agrees_thread (mkSys (rvals s) (remove_nth i (conts s))) (remove_nth i acc) lastev l
  | WNoStream :: l => agrees_thread s acc lastev l
  | WObs _ _ rv cs :: l =>
    pairs_eqb (sort_pairs (rvals s)) rv &&
    Nat.eqb (length (conts s)) (length acc) &&
    list_eqb cobs_eqb (combine (map (fun c => sort_z (c_values c)) (conts s)) acc) cs &&
    agrees_thread s (map (fun _ => []) acc) lastev l
  end.

Definition agrees (c : case) : bool :=
  match c with
  | CContainer x levs obs => agrees_container (new_container x) levs obs
  | CDiscov xs evs obs => agrees_discov (init xs) evs obs
  | CResolver n pre evs (bpubs, bvals) obs =>
    let s0 := run (init []) pre in
    (* the subscriber of discovBuilder.Build joins the watcher: non-exclusive; the replay
       order is not observable and does not matter for a non-exclusive container *)
    let s1 := step s0 (EJoin false (rvals s0)) in
    wf_run_b (init []) pre &&
    match bpubs with [p] => valid_pub n p (c_view (the_cont s1)) | _ => false end &&
    zs_eqb (sort_z (c_values (the_cont s1))) bvals &&
    agrees_resolver n s1 evs obs
  | CSubset set sub sh out => perm_b sh set && zs_eqb (subset sh sub) out
  | CKube evs obs => agrees_kube kinit evs obs
  | CCluster ths =>
    (* what the fake etcd delivered is consistent in the sense of ProofsG.consistent (the
       hypothesis of view_equals_etcd_after_any_consistent_delivery held in this run), and
       the model reproduces every observation *)
    forallb (fun th => consistent_b (fst th) 0 0 (dlvs_of (snd th)) &&
                       agrees_thread (init []) [] None (snd th)) ths
  end.

(* ------------------------------------------------------------ prop_ok: the property on the observations *)
Definition vals_of (m : amap Z) : list Z := canon_set (map snd m).

(* "v is live": some key registered v and has since neither been deleted nor
   re-registered, and (exclusive) no key registered v since *)
Fixpoint live_b (x : bool) (log : list lev) (v : Z) : bool :=
  match log with
  | [] => false
  | e :: l =>
    live_b x l v ||
    match e with
    | LAdd k v' => (v' =? v) && forallb (fun e' => negb (touches k e') && negb (x && adds_val v e')) l
    | LDel _ => false
    end
  end.
Definition log_vals (log : list lev) : list Z :=
  flat_map (fun e => match e with LAdd _ v => [v] | LDel _ => [] end) log.
Definition live_view (x : bool) (log : list lev) : list Z :=
  canon_set (filter (live_b x log) (log_vals log)).

(* one listener call after the other: the view after each call is the set of values of
   the key->value relation implied by the calls; exactly one notification per call and
   it shows that view *)
Fixpoint prop_container (x : bool) (m : amap Z) (levs : list lev) (obs : list cobs) : bool :=
  match levs, obs with
  | [], [] => true
  | e :: levs', (vals, notes) :: obs' =>
    let m' := sp_apply x m e in
    zs_eqb vals (vals_of m') && zss_eqb notes [vals] && prop_container x m' levs' obs'
  | _, _ => false
  end.

(* per container: exclusive flag, key->value implied by the calls it received, previous Values() *)
Definition ctrack := (bool * amap Z * list Z)%type.

Definition track_step (lv : list lev) (t : ctrack) : ctrack :=
  let '(x, m, _) := t in (x, fold_left (sp_apply x) lv m, vals_of (fold_left (sp_apply x) lv m)).

(* a container's observation is right: Values() is the expected set; if the view changed
   the listeners were called; the last call saw the final view *)
Definition cont_ok (t_old t_new : ctrack) (truthvals : list Z) (o : cobs) : bool :=
  let '(x, m, prev) := t_old in
  let '(_, m', _) := t_new in
  let '(vals, notes) := o in
  zs_eqb vals (if x then vals_of m' else truthvals) &&
  forallb (fun v => zmem v truthvals) vals &&      (* never a stale value, exclusive or not *)
  (zs_eqb vals prev || negb (is_nil notes)) &&
  (is_nil notes || zs_eqb (last notes []) vals).

Fixpoint conts_ok (old new : list ctrack) (tv : list Z) (os : list cobs) : bool :=
  match old, new, os with
  | [], [], [] => true
  | a :: old', b :: new', o :: os' => cont_ok a b tv o && conts_ok old' new' tv os'
  | _, _, _ => false
  end.

(* the calls an event must produce are taken from the oracle ([emitted]); for a
   non-exclusive container the expected view does not depend on them at all *)
Fixpoint prop_discov (t : amap Z) (tr : list ctrack) (evs : list ev) (obs : list dobs) : bool :=
  match evs, obs with
  | [], [] => true
  | e :: evs', (rv, cs) :: obs' =>
    let t' := truth_step t e in
    let tv := vals_of t' in
    let '(old, new) :=
      match e with
      | EJoin x order => (tr ++ [(x, [], [])], tr ++ [track_step (ladds order) (x, [], [])])
      | _ => (tr, map (track_step (emitted e)) tr)
      end in
    pairs_eqb (sort_pairs t') rv && conts_ok old new tv cs && prop_discov t' new evs' obs'
  | _, _ => false
  end.

(* the resolver: the most recent UpdateState carries the registered values (all when <= 32) *)
Fixpoint prop_resolver (t : amap Z) (lastpub : list Z) (evs : list ev) (obs : list robs) : bool :=
  match evs, obs with
  | [], [] => true
  | e :: evs', (pubs, vals) :: obs' =>
    let t' := truth_step t e in
    let lp := last pubs lastpub in
    zs_eqb vals (vals_of t') && pub_ok lp (vals_of t') && prop_resolver t' lp evs' obs'
  | _, _ => false
  end.

(* kube: well-formed informer histories about the one selected Endpoints object *)
Definition incl_b (a b : list Z) : bool := forallb (fun x => zmem x b) a.
Definition kwf_b (t : list Z) (e : kev) : bool :=
  match e with
  | KAdd o => true   (* the added object is the full state, whatever was published before *)
  | KDelete o => incl_b t (ips o)
  | KOnUpdate old new => negb (orv old =? orv new) || (incl_b t (ips new) && incl_b (ips new) t)
  | KUpdate _ => true
  | KOther => true
  | KTombstone _ => false
  end.

Fixpoint prop_kube (t lastpub : list Z) (evs : list kev) (obs : list kobs) : bool :=
  match evs, obs with
  | [], [] => true
  | e :: evs', (pubs, eps) :: obs' =>
    if kwf_b t e then
      let t' := ktruth_step t e in
      let lp := last pubs lastpub in
      zs_eqb (canon_set lp) (canon_set t') && zs_eqb lp (canon_set lp) &&
      zs_eqb eps (canon_set t') &&
      (zs_eqb (canon_set t) (canon_set t') || negb (is_nil pubs)) &&
      prop_kube t' lp evs' obs'
    else true   (* outside the event alphabet of the property from here on *)
  | _, _ => false
  end.

(* cluster: [t] = the registrations the deliveries imply (PUT sets, DELETE removes, a load
   replaces); [tr] = per listener (exclusive?, key -> value implied by the calls it must have
   received, Values() at the last quiescent point).  At a quiescent point: the registry's copy
   is [t]; unless etcd withholds deliveries, [t] is etcd's store NOW (the cluster caught up,
   whatever closed streams, compactions, failed Gets, reloads happened); every listener shows
   the registered values (exclusive: those of its calls, never a stale one), was notified if
   its view changed and saw the final view last. *)
Fixpoint prop_thread (h : list bev) (t : amap Z) (tr : list ctrack) (prev : list ctrack) (ops : list wop) : bool :=
  match ops with
  | [] => true
  | WD d :: l =>
    let e := ev_of_g d in
    match d with
    | GJoin x order =>
      prop_thread h t (tr ++ [track_step (ladds order) (x, [], [])]) (prev ++ [(x, [], [])]) l
    | GResp _ evs => prop_thread h (truth_step t e) (map (track_step (map blev evs)) tr) prev l
    | _ => prop_thread h (truth_step t e) (map (track_step (emitted e)) tr) prev l
    end
  | WRespCalls _ :: l => prop_thread h t tr prev l
  | WJoinNotes jn :: l =>
    (* a listener func attached after Monitor has not seen the replay: nothing to demand of
       its notifications for the join itself *)
    let prev' := if jn =? 1 then match rev prev, rev tr with
                                | _ :: rp, x :: _ => rev rp ++ [x]
                                | _, _ => prev
                                end else prev in
    prop_thread h t tr prev' l
  | WLeave i :: l => prop_thread h t (remove_nth i tr) (remove_nth i prev) l
  | WNoStream :: _ => false    (* a monitored key that is not watched: no later registration can reach its subscribers *)
  | WObs n lag rv cs :: l =>
    pairs_eqb (sort_pairs t) rv &&
    (lag || amap_eqb t (etcd_state h n)) &&
    conts_ok prev tr (vals_of t) cs &&
    prop_thread h t tr tr l
  end.

Definition prop_ok (c : case) : bool :=
  match c with
  | CContainer x levs obs =>
    prop_container x [] levs obs &&
    match rev obs with (vals, _) :: _ => zs_eqb vals (live_view x levs) | [] => true end
  | CDiscov xs evs obs => prop_discov [] (map (fun x => (x, [], [])) xs) evs obs
  | CResolver _ pre evs (bpubs, bvals) obs =>
    let t := truth pre in
    zs_eqb bvals (vals_of t) &&
    match bpubs with [p] => pub_ok p (vals_of t) && prop_resolver t p evs obs | _ => false end
  | CSubset set sub _ out =>
    if Z.of_nat (length set) <=? sub then perm_b out set
    else (Z.of_nat (length out) =? sub) && match msub set out with Some _ => true | None => false end
  | CKube evs obs => prop_kube [] [] evs obs
  | CCluster ths => forallb (fun th => prop_thread (fst th) [] [] [] (snd th)) ths
  end.

(* ------------------------------------------------------------ diagnostics *)
Inductive mobs :=
| MCont (l : list cobs)
| MDiscov (l : list dobs)
| MViews (l : list (list Z))
| MSubset (l : list Z)
| MKube (l : list kobs)
| MCluster (l : list (list dobs)).

Fixpoint mo_container (c : container) (levs : list lev) : list cobs :=
  match levs with
  | [] => []
  | e :: l => let c' := c_apply c e in (sort_z (c_values c'), [sort_z (clast c')]) :: mo_container c' l
  end.
Fixpoint mo_discov (s : sys) (evs : list ev) : list dobs :=
  match evs with
  | [] => []
  | e :: l => let s' := step s e in
              (sort_pairs (rvals s'), combine (map (fun c => sort_z (c_values c)) (conts s')) (ev_notes s e))
              :: mo_discov s' l
  end.
Fixpoint mo_kube (s : kstate) (evs : list kev) : list kobs :=
  match evs with
  | [] => []
  | e :: l => let s' := kstep s e in
              ((if kcount s' =? kcount s then [] else [sort_z (klast s')]), sort_z (kend s')) :: mo_kube s' l
  end.
Fixpoint mo_views (s : sys) (evs : list ev) : list (list Z) :=
  match evs with
  | [] => []
  | e :: l => let s' := step s e in sort_z (c_values (the_cont s')) :: mo_views s' l
  end.

Fixpoint mo_thread (s : sys) (acc : list (list (list Z))) (ops : list wop) : list dobs :=
  match ops with
  | [] => []
  | WD d :: l =>
    let e := ev_of_g d in
    mo_thread (step s e) (match d with GJoin _ _ => acc ++ [last (ev_notes s e) []]
                                   | _ => app_notes acc (ev_notes s e) end) l
  | WRespCalls _ :: l => mo_thread s acc l
  | WJoinNotes jn :: l =>
    mo_thread s (match rev acc with
                 | [] => acc
                 | _ :: racc => rev racc ++ [if jn =? 0 then last acc [] else if jn =? 1 then []
                                             else [sort_z (c_values (last (conts s) (new_container false)))]]
                 end) l
  | WLeave i :: l => mo_thread (mkSys (rvals s) (remove_nth i (conts s))) (remove_nth i acc) l
  | WNoStream :: l => mo_thread s acc l
  | WObs _ _ _ _ :: l =>
    (sort_pairs (rvals s), combine (map (fun c => sort_z (c_values c)) (conts s)) acc)
    :: mo_thread s (map (fun _ => []) acc) l
  end.

Definition model_obs (c : case) : mobs :=
  match c with
  | CContainer x levs _ => MCont (mo_container (new_container x) levs)
  | CDiscov xs evs _ => MDiscov (mo_discov (init xs) evs)
  | CResolver _ pre evs _ _ =>
    let s0 := run (init []) pre in
    MViews (mo_views (step s0 (EJoin false (rvals s0))) evs)
  | CSubset _ sub sh _ => MSubset (subset sh sub)
  | CKube evs _ => MKube (mo_kube kinit evs)
  | CCluster ths => MCluster (map (fun th => mo_thread (init []) [] (snd th)) ths)
  end.
