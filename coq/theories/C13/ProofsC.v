(* C13 — the system: every event keeps every listener tied to the registrations;
   per-listener call logs; notifications. *)
From Coq Require Import List ZArith Bool Lia Permutation.
From GZ Require Import C13.Model C13.Proofs C13.ProofsB.
Import ListNotations.
Open Scope Z_scope.

Lemma perm_in_iff : forall A (a b : list A) x, Permutation a b -> (In x a <-> In x b).
Proof.
  intros A a b x P. split; intros H; [eapply Permutation_in; eauto|].
  eapply Permutation_in; [apply Permutation_sym; exact P | exact H].
Qed.

Lemma tied_empty : forall x, tied x [] [].
Proof. intros [|]; cbn; [intros k v H; discriminate | reflexivity]. Qed.

Lemma in_emitted_reload_add : forall adds rems k v,
  In (LAdd k v) (ladds adds ++ ldels rems) <-> In (k, v) adds.
Proof.
  intros. rewrite in_app_iff, in_ladds. split; [|tauto].
  intros [H|H]; [exact H | exfalso; eapply ldels_no_add; eauto].
Qed.

Lemma in_emitted_reload_del : forall adds rems k,
  In (LDel k) (ladds adds ++ ldels rems) <-> In k rems.
Proof.
  intros. rewrite in_app_iff, in_ldels. split; [|tauto].
  intros [H|H]; [exfalso; eapply ladds_no_del; eauto | exact H].
Qed.

(* what an event makes of the registry's map *)
Lemma rvals_step : forall s e, rvals (step s e) = truth_step (rvals s) e.
Proof. intros s [k v|k|snap calls|x order]; reflexivity. Qed.

Lemma truth_step_nodup : forall t e, NoDup (mkeys t) -> NoDup (mkeys (truth_step t e)).
Proof.
  intros t [k v|k|snap calls|x order] H; cbn -[mset].
  - apply nodup_mset. exact H.
  - apply nodup_mdel. exact H.
  - apply snap_map_nodup.
  - exact H.
Qed.

(* an already present listener through one event *)
Lemma present_cont_step : forall s e c,
  NoDup (mkeys (rvals s)) -> wf_ev s e -> cont_ok (rvals s) c ->
  cont_ok (rvals (step s e)) (c_run c (emitted e)).
Proof.
  intros s e c Hd Hwf [m [R Ht]].
  destruct e as [k v|k|snap calls|x order].
  - (* PUT *)
    apply (batch_tied (cexcl c) c m (rvals s)); try assumption; try reflexivity; cbn -[mset].
    + intros k' v' [H|[]]. inversion H; subst. rewrite mget_mset, Z.eqb_refl. reflexivity.
    + intros k' v'. rewrite mget_mset. destruct (k =? k') eqn:Ek.
      * apply Z.eqb_eq in Ek. intros H _. inversion H; subst. left. reflexivity.
      * intros H Hn. congruence.
    + intros k' [H|[]]. discriminate.
    + intros k'. rewrite mget_mset. destruct (k =? k'); [discriminate | congruence].
  - (* DELETE *)
    apply (batch_tied (cexcl c) c m (rvals s)); try assumption; try reflexivity; cbn.
    + intros k' v' [H|[]]. discriminate.
    + intros k' v'. rewrite mget_mdel. destruct (k =? k'); [discriminate | congruence].
    + intros k' [H|[]]. inversion H; subst. rewrite mget_mdel, Z.eqb_refl. reflexivity.
    + intros k'. rewrite mget_mdel. destruct (k =? k') eqn:Ek.
      * apply Z.eqb_eq in Ek. subst. intros _ _. left. reflexivity.
      * congruence.
  - (* reload *)
    cbn [wf_ev] in Hwf.
    apply (batch_tied (cexcl c) c m (rvals s)); try assumption; try reflexivity;
      cbn [emitted rvals step].
    + intros k v. rewrite (perm_in_iff _ _ _ _ Hwf), in_emitted_reload_add.
      rewrite calc_add_in by apply snap_map_nodup. tauto.
    + intros k v H1 H2. rewrite (perm_in_iff _ _ _ _ Hwf), in_emitted_reload_add.
      rewrite calc_add_in by apply snap_map_nodup. tauto.
    + intros k. rewrite (perm_in_iff _ _ _ _ Hwf), in_emitted_reload_del.
      rewrite calc_rem_in by exact Hd. tauto.
    + intros k H1 H2. rewrite (perm_in_iff _ _ _ _ Hwf), in_emitted_reload_del.
      rewrite calc_rem_in by exact Hd. tauto.
  - (* somebody else joins: no call *)
    cbn. exists m. split; assumption.
Qed.

Lemma joining_cont : forall r x order,
  NoDup (mkeys r) -> Permutation order r ->
  cont_ok r (c_run (new_container x) (ladds order)).
Proof.
  intros r x order Hd P.
  apply (batch_tied x (new_container x) [] []); try reflexivity.
  - apply refines_new.
  - apply tied_empty.
  - intros k v H. apply in_ladds in H. apply in_mget; [exact Hd|].
    eapply Permutation_in; eauto.
  - intros k v H _. apply in_ladds. apply mget_in in H.
    eapply Permutation_in; [apply Permutation_sym; exact P | exact H].
  - intros k H. exfalso. eapply ladds_no_del; eauto.
  - intros k H. cbn in H. congruence.
Qed.

Lemma conts_step : forall s e,
  conts (step s e) =
  map (fun c => c_run c (emitted e)) (conts s) ++
  match e with EJoin x order => [c_run (new_container x) (ladds order)] | _ => [] end.
Proof.
  intros s [k v|k|snap calls|x order]; cbn [step conts]; rewrite ?app_nil_r; try reflexivity.
  f_equal. cbn. symmetry. rewrite <- (map_id (conts s)) at 2. apply map_ext. reflexivity.
Qed.

Lemma step_inv : forall s e, sys_inv s -> wf_ev s e -> sys_inv (step s e).
Proof.
  intros s e [Hd Hc] Hwf. split.
  - rewrite rvals_step. apply truth_step_nodup. exact Hd.
  - rewrite conts_step. apply Forall_app. split.
    + apply Forall_forall. intros c' Hin. apply in_map_iff in Hin. destruct Hin as [c [<- Hin]].
      apply present_cont_step; try assumption.
      rewrite Forall_forall in Hc. apply Hc. exact Hin.
    + destruct e as [k v|k|snap calls|x order]; try constructor; [|constructor].
      cbn [step rvals]. apply joining_cont; assumption.
Qed.

Lemma init_inv : forall xs, sys_inv (init xs).
Proof.
  intros xs. split; [constructor|]. cbn. apply Forall_forall. intros c Hin.
  apply in_map_iff in Hin. destruct Hin as [x [<- _]].
  exists []. split; [apply refines_new | apply tied_empty].
Qed.

Lemma run_inv : forall l s, sys_inv s -> wf_run s l -> sys_inv (run s l).
Proof.
  induction l as [|e l IH]; intros s I W; cbn; [exact I|].
  destruct W as [We Wl]. apply IH; [apply step_inv; assumption | exact Wl].
Qed.

Lemma rvals_run : forall l s, rvals (run s l) = fold_left truth_step l (rvals s).
Proof.
  unfold run. induction l as [|e l IH]; intros s; cbn [fold_left]; [reflexivity|].
  rewrite IH, rvals_step. reflexivity.
Qed.

Lemma rvals_truth : forall xs l, rvals (run (init xs) l) = truth l.
Proof. intros. rewrite rvals_run. reflexivity. Qed.

(* some key is registered with value v *)
Definition registered (t : amap Z) (v : Z) : Prop := exists k, mget k t = Some v.

Lemma sys_views : forall xs evs c,
  wf_run (init xs) evs -> In c (conts (run (init xs) evs)) ->
  NoDup (c_view c) /\
  (cexcl c = false -> forall v, In v (c_view c) <-> registered (truth evs) v) /\
  (cexcl c = true -> forall v, In v (c_view c) -> registered (truth evs) v).
Proof.
  intros xs evs c W Hin.
  destruct (run_inv evs _ (init_inv xs) W) as [_ Hc].
  rewrite Forall_forall in Hc. destruct (Hc c Hin) as [m [R Ht]].
  rewrite rvals_truth in Ht. split; [apply view_nodup; apply (rf_inv _ _ R)|].
  split; intros Hx v; rewrite (refines_view c m v R); rewrite Hx in Ht; unfold tied in Ht.
  - split; intros [k H]; exists k; [rewrite <- Ht | rewrite Ht]; exact H.
  - intros [k H]. exists k. apply Ht. exact H.
Qed.

(* ------------------------------------------------------------------ per-listener call logs *)
(* the calls each listener received: flag and log, in order of joining *)
Definition logs_step (ls : list (bool * list lev)) (e : ev) : list (bool * list lev) :=
  map (fun p => (fst p, snd p ++ emitted e)) ls ++
  match e with EJoin x order => [(x, ladds order)] | _ => [] end.

Definition logs (xs : list bool) (evs : list ev) : list (bool * list lev) :=
  fold_left logs_step evs (map (fun x => (x, [])) xs).

Definition of_log (p : bool * list lev) : container := c_run (new_container (fst p)) (snd p).

Lemma conts_logs_gen : forall evs s ls,
  conts s = map of_log ls -> conts (run s evs) = map of_log (fold_left logs_step evs ls).
Proof.
  induction evs as [|e evs IH]; intros s ls H; cbn; [exact H|].
  apply IH. rewrite conts_step, H. unfold logs_step. rewrite map_app, !map_map. f_equal.
  - apply map_ext. intros [x l]. unfold of_log. cbn. unfold c_run. rewrite fold_left_app. reflexivity.
  - destruct e; reflexivity.
Qed.

Lemma conts_logs : forall xs evs, conts (run (init xs) evs) = map of_log (logs xs evs).
Proof.
  intros. apply conts_logs_gen. cbn. rewrite map_map. apply map_ext. reflexivity.
Qed.

Lemma listener_views_live : forall xs evs i x log,
  nth_error (logs xs evs) i = Some (x, log) ->
  exists c, nth_error (conts (run (init xs) evs)) i = Some c /\ cexcl c = x /\
            forall v, In v (c_view c) <-> live x log v.
Proof.
  intros xs evs i x log H. exists (of_log (x, log)). split; [|split].
  - rewrite conts_logs. apply map_nth_error. exact H.
  - unfold of_log. apply c_run_excl.
  - intros v. apply container_view_live_values.
Qed.

(* ------------------------------------------------------------------ notifications *)
Lemma c_apply_notes : forall c e, cnotes (c_apply c e) = cnotes c + 1.
Proof.
  intros c [k v|k]; cbn [c_apply on_add on_delete notify cnotes].
  - rewrite add_kv_unfold. cbn [cnotes]. unfold clear_excl.
    destruct (cexcl _ && _).
    + rewrite (proj1 (drk_all_notes _ _)). unfold detach.
      destruct (mget k (cmap c)) as [old|]; [|reflexivity].
      destruct (old =? v); [reflexivity | rewrite (proj1 (drk_notes _ _)); reflexivity].
    + unfold detach. destruct (mget k (cmap c)) as [old|]; [|reflexivity].
      destruct (old =? v); [reflexivity | rewrite (proj1 (drk_notes _ _)); reflexivity].
  - rewrite (proj1 (drk_notes _ _)). reflexivity.
Qed.

Lemma c_apply_last : forall c e, clast (c_apply c e) = c_view (c_apply c e).
Proof. intros c [k v|k]; reflexivity. Qed.

Lemma c_run_notes : forall l c, cnotes (c_run c l) = cnotes c + Z.of_nat (length l).
Proof.
  induction l as [|e l IH]; intros c; cbn [c_run fold_left length]; [cbn; lia|].
  unfold c_run in IH. rewrite IH, c_apply_notes. lia.
Qed.

Lemma c_run_last : forall l c, clast c = c_view c -> clast (c_run c l) = c_view (c_run c l).
Proof.
  induction l as [|e l IH]; intros c H; cbn; [exact H|].
  apply IH. apply c_apply_last.
Qed.

Lemma step_nth : forall s e i c,
  nth_error (conts s) i = Some c ->
  nth_error (conts (step s e)) i = Some (c_run c (emitted e)).
Proof.
  intros s e i c H. rewrite conts_step.
  rewrite nth_error_app1.
  - apply map_nth_error. exact H.
  - rewrite map_length. apply nth_error_Some. congruence.
Qed.

Lemma seen_current_inv : forall evs s,
  Forall (fun c => clast c = c_view c) (conts s) ->
  Forall (fun c => clast c = c_view c) (conts (run s evs)).
Proof.
  induction evs as [|e evs IH]; intros s H; cbn; [exact H|].
  apply IH. rewrite conts_step. apply Forall_app. split.
  - apply Forall_forall. intros c' Hin. apply in_map_iff in Hin. destruct Hin as [c [<- Hin]].
    apply c_run_last. rewrite Forall_forall in H. apply H. exact Hin.
  - destruct e; try constructor; [|constructor]. apply c_run_last. reflexivity.
Qed.

Lemma listeners_saw_current_view : forall xs evs c,
  In c (conts (run (init xs) evs)) -> clast c = c_view c.
Proof.
  intros xs evs c Hin.
  assert (H : Forall (fun c => clast c = c_view c) (conts (run (init xs) evs))).
  { apply seen_current_inv. cbn. apply Forall_forall. intros c0 H0.
    apply in_map_iff in H0. destruct H0 as [x [<- _]]. reflexivity. }
  rewrite Forall_forall in H. apply H. exact Hin.
Qed.

Lemma change_notifies : forall s e i c,
  nth_error (conts s) i = Some c ->
  exists c', nth_error (conts (step s e)) i = Some c' /\
             cnotes c' = cnotes c + Z.of_nat (length (emitted e)) /\
             (c_view c' <> c_view c -> cnotes c < cnotes c').
Proof.
  intros s e i c H. exists (c_run c (emitted e)). split; [apply step_nth; exact H|].
  split; [apply c_run_notes|].
  intros Hne. rewrite c_run_notes. destruct (emitted e) as [|e0 l]; [exfalso; apply Hne; reflexivity|].
  cbn [length]. lia.
Qed.

(* a reload that finds the registrations unchanged calls nobody *)
Lemma reload_same_is_silent : forall s snap calls,
  NoDup (mkeys (rvals s)) -> wf_ev s (EReload snap calls) ->
  (forall k, mget k (snap_map snap) = mget k (rvals s)) ->
  emitted (EReload snap calls) = [].
Proof.
  intros s snap calls Hd P Hsame. cbn [wf_ev] in P.
  assert (Ha : calc_add (rvals s) (snap_map snap) = []).
  { destruct (calc_add (rvals s) (snap_map snap)) as [|[k v] l] eqn:E; [reflexivity|].
    assert (Hin : In (k, v) (calc_add (rvals s) (snap_map snap))) by (rewrite E; left; reflexivity).
    apply calc_add_in in Hin; [|apply snap_map_nodup]. rewrite Hsame in Hin. tauto. }
  assert (Hr : calc_rem (rvals s) (snap_map snap) = []).
  { destruct (calc_rem (rvals s) (snap_map snap)) as [|k l] eqn:E; [reflexivity|].
    assert (Hin : In k (calc_rem (rvals s) (snap_map snap))) by (rewrite E; left; reflexivity).
    apply calc_rem_in in Hin; [|exact Hd]. rewrite Hsame in Hin. tauto. }
  rewrite Ha, Hr in P. cbn in P.
  apply Permutation_sym, Permutation_nil in P. subst. reflexivity.
Qed.
