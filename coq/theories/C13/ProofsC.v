(* C13 — the system: every event keeps every listener tied to the registrations;
   per-listener call logs; notifications. *)
From Coq Require Import List ZArith Bool Lia Permutation.
From GZ Require Import C13.Model C13.Proofs C13.ProofsB.
Import ListNotations.
Open Scope Z_scope.

Lemma perm_in_iff : forall A (a b : list A) x, Permutation a b -> (In x a <-> In x b).
Proof.
  intros A a b x P. split; intros H; [eapply Permutation_in; eauto|].
  eapply Permutation_in; [apply Permutation_sym; exact P | exact H].
Qed.

Lemma tied_empty : forall x, tied x [] [].
Proof. intros [|]; cbn; [intros k v H; discriminate | reflexivity]. Qed.

Lemma in_emitted_reload_add : forall adds rems k v,
  In (LAdd k v) (ladds adds ++ ldels rems) <-> In (k, v) adds.
Proof.
  intros. rewrite in_app_iff, in_ladds. split; [|tauto].
  intros [H|H]; [exact H | exfalso; eapply ldels_no_add; eauto].
Qed.

Lemma in_emitted_reload_del : forall adds rems k,
  In (LDel k) (ladds adds ++ ldels rems) <-> In k rems.
Proof.
  intros. rewrite in_app_iff, in_ldels. split; [|tauto].
  intros [H|H]; [exfalso; eapply ladds_no_del; eauto | exact H].
Qed.

Lemma bapply_nodup : forall m b, NoDup (mkeys m) -> NoDup (mkeys (bapply m b)).
Proof. intros m [k v|k] H; cbn -[mset]; [apply nodup_mset | apply nodup_mdel]; exact H. Qed.

Lemma bfold_nodup : forall b m, NoDup (mkeys m) -> NoDup (mkeys (fold_left bapply b m)).
Proof.
  induction b as [|b0 b IH]; intros m H; cbn -[bapply]; [exact H|].
  apply IH. apply bapply_nodup. exact H.
Qed.

(* what an event makes of the registry's map *)
Lemma rvals_step : forall s e, rvals (step s e) = truth_step (rvals s) e.
Proof. intros s [k v|k|snap calls|x order|b]; reflexivity. Qed.

Lemma truth_step_nodup : forall t e, NoDup (mkeys t) -> NoDup (mkeys (truth_step t e)).
Proof.
  intros t [k v|k|snap calls|x order|b] H; cbn -[mset].
  - apply nodup_mset. exact H.
  - apply nodup_mdel. exact H.
  - apply snap_map_nodup.
  - exact H.
  - apply bfold_nodup. exact H.
Qed.

(* one PUT / DELETE *)
Lemma single_step : forall r b c, NoDup (mkeys r) -> cont_ok r c ->
  cont_ok (bapply r b) (c_run c [blev b]).
Proof.
  intros r b c Hd [m [R Ht]]. destruct b as [k v|k]; cbn [bapply blev].
  - apply (batch_tied (cexcl c) c m r); try assumption; try reflexivity; cbn -[mset].
    + intros k' v' [H|[]]. inversion H; subst. rewrite mget_mset, Z.eqb_refl. reflexivity.
    + intros k' v'. rewrite mget_mset. destruct (k =? k') eqn:Ek.
      * apply Z.eqb_eq in Ek. intros H _. inversion H; subst. left. reflexivity.
      * intros H Hn. congruence.
    + intros k' [H|[]]. discriminate.
    + intros k'. rewrite mget_mset. destruct (k =? k'); [discriminate | congruence].
  - apply (batch_tied (cexcl c) c m r); try assumption; try reflexivity; cbn.
    + intros k' v' [H|[]]. discriminate.
    + intros k' v'. rewrite mget_mdel. destruct (k =? k'); [discriminate | congruence].
    + intros k' [H|[]]. inversion H; subst. rewrite mget_mdel, Z.eqb_refl. reflexivity.
    + intros k'. rewrite mget_mdel. destruct (k =? k') eqn:Ek.
      * apply Z.eqb_eq in Ek. subst. intros _ _. left. reflexivity.
      * congruence.
Qed.

(* several events in one handleWatchEvents call: one after the other *)
Lemma batch_seq : forall b r c, NoDup (mkeys r) -> cont_ok r c ->
  cont_ok (fold_left bapply b r) (c_run c (map blev b)).
Proof.
  induction b as [|b0 b IH]; intros r c Hd H; cbn -[bapply]; [exact H|].
  apply IH; [apply bapply_nodup; exact Hd|].
  apply (single_step r b0 c Hd H).
Qed.

(* an already present listener through one event *)
Lemma present_cont_step : forall s e c,
  NoDup (mkeys (rvals s)) -> wf_ev s e -> cont_ok (rvals s) c ->
  cont_ok (rvals (step s e)) (c_run c (emitted e)).
Proof.
  intros s e c Hd Hwf [m [R Ht]].
  destruct e as [k v|k|snap calls|x order|b].
  - (* PUT *)
    apply (single_step (rvals s) (BPut k v) c Hd). exists m. split; assumption.
  - (* DELETE *)
    apply (single_step (rvals s) (BDel k) c Hd). exists m. split; assumption.
  - (* reload *)
    cbn [wf_ev] in Hwf.
    apply (batch_tied (cexcl c) c m (rvals s)); try assumption; try reflexivity;
      cbn [emitted rvals step].
    + intros k v. rewrite (perm_in_iff _ _ _ _ Hwf), in_emitted_reload_add.
      rewrite calc_add_in by apply snap_map_nodup. tauto.
    + intros k v H1 H2. rewrite (perm_in_iff _ _ _ _ Hwf), in_emitted_reload_add.
      rewrite calc_add_in by apply snap_map_nodup. tauto.
    + intros k. rewrite (perm_in_iff _ _ _ _ Hwf), in_emitted_reload_del.
      rewrite calc_rem_in by exact Hd. tauto.
    + intros k H1 H2. rewrite (perm_in_iff _ _ _ _ Hwf), in_emitted_reload_del.
      rewrite calc_rem_in by exact Hd. tauto.
  - (* somebody else joins: no call *)
    cbn. exists m. split; assumption.
  - (* one call with a batch of events *)
    apply batch_seq; [exact Hd | exists m; split; assumption].
Qed.

Lemma joining_cont : forall r x order,
  NoDup (mkeys r) -> Permutation order r ->
  cont_ok r (c_run (new_container x) (ladds order)).
Proof.
  intros r x order Hd P.
  apply (batch_tied x (new_container x) [] []); try reflexivity.
  - apply refines_new.
  - apply tied_empty.
  - intros k v H. apply in_ladds in H. apply in_mget; [exact Hd|].
    eapply Permutation_in; eauto.
  - intros k v H _. apply in_ladds. apply mget_in in H.
    eapply Permutation_in; [apply Permutation_sym; exact P | exact H].
  - intros k H. exfalso. eapply ladds_no_del; eauto.
  - intros k H. cbn in H. congruence.
Qed.

Lemma conts_step : forall s e,
  conts (step s e) =
  map (fun c => c_run c (emitted e)) (conts s) ++
  match e with EJoin x order => [c_run (new_container x) (ladds order)] | _ => [] end.
Proof.
  intros s [k v|k|snap calls|x order|b]; cbn [step conts]; rewrite ?app_nil_r; try reflexivity.
  f_equal. cbn. symmetry. rewrite <- (map_id (conts s)) at 2. apply map_ext. reflexivity.
Qed.

Lemma step_inv : forall s e, sys_inv s -> wf_ev s e -> sys_inv (step s e).
Proof.
  intros s e [Hd Hc] Hwf. split.
  - rewrite rvals_step. apply truth_step_nodup. exact Hd.
  - rewrite conts_step. apply Forall_app. split.
    + apply Forall_forall. intros c' Hin. apply in_map_iff in Hin. destruct Hin as [c [<- Hin]].
      apply present_cont_step; try assumption.
      rewrite Forall_forall in Hc. apply Hc. exact Hin.
    + destruct e as [k v|k|snap calls|x order|b]; try constructor; [|constructor].
      cbn [step rvals]. apply joining_cont; assumption.
Qed.

Lemma init_inv : forall xs, sys_inv (init xs).
Proof.
  intros xs. split; [constructor|]. cbn. apply Forall_forall. intros c Hin.
  apply in_map_iff in Hin. destruct Hin as [x [<- _]].
  exists []. split; [apply refines_new | apply tied_empty].
Qed.

Lemma run_inv : forall l s, sys_inv s -> wf_run s l -> sys_inv (run s l).
Proof.
  induction l as [|e l IH]; intros s I W; cbn; [exact I|].
  destruct W as [We Wl]. apply IH; [apply step_inv; assumption | exact Wl].
Qed.

Lemma rvals_run : forall l s, rvals (run s l) = fold_left truth_step l (rvals s).
Proof.
  unfold run. induction l as [|e l IH]; intros s; cbn [fold_left]; [reflexivity|].
  rewrite IH, rvals_step. reflexivity.
Qed.

Lemma rvals_truth : forall xs l, rvals (run (init xs) l) = truth l.
Proof. intros. rewrite rvals_run. reflexivity. Qed.

(* some key is registered with value v *)
Definition registered (t : amap Z) (v : Z) : Prop := exists k, mget k t = Some v.

Lemma sys_views : forall xs evs c,
  wf_run (init xs) evs -> In c (conts (run (init xs) evs)) ->
  NoDup (c_view c) /\
  (cexcl c = false -> forall v, In v (c_view c) <-> registered (truth evs) v) /\
  (cexcl c = true -> forall v, In v (c_view c) -> registered (truth evs) v).
Proof.
  intros xs evs c W Hin.
  destruct (run_inv evs _ (init_inv xs) W) as [_ Hc].
  rewrite Forall_forall in Hc. destruct (Hc c Hin) as [m [R Ht]].
  rewrite rvals_truth in Ht. split; [apply view_nodup; apply (rf_inv _ _ R)|].
  split; intros Hx v; rewrite (refines_view c m v R); rewrite Hx in Ht; unfold tied in Ht.
  - split; intros [k H]; exists k; [rewrite <- Ht | rewrite Ht]; exact H.
  - intros [k H]. exists k. apply Ht. exact H.
Qed.

(* ------------------------------------------------------------------ per-listener call logs *)
(* the calls each listener received: flag and log, in order of joining *)
Definition logs_step (ls : list (bool * list lev)) (e : ev) : list (bool * list lev) :=
  map (fun p => (fst p, snd p ++ emitted e)) ls ++
  match e with EJoin x order => [(x, ladds order)] | _ => [] end.

Definition logs (xs : list bool) (evs : list ev) : list (bool * list lev) :=
  fold_left logs_step evs (map (fun x => (x, [])) xs).

Definition of_log (p : bool * list lev) : container := c_run (new_container (fst p)) (snd p).

Lemma conts_logs_gen : forall evs s ls,
  conts s = map of_log ls -> conts (run s evs) = map of_log (fold_left logs_step evs ls).
Proof.
  induction evs as [|e evs IH]; intros s ls H; cbn; [exact H|].
  apply IH. rewrite conts_step, H. unfold logs_step. rewrite map_app, !map_map. f_equal.
  - apply map_ext. intros [x l]. unfold of_log. cbn. unfold c_run. rewrite fold_left_app. reflexivity.
  - destruct e; reflexivity.
Qed.

Lemma conts_logs : forall xs evs, conts (run (init xs) evs) = map of_log (logs xs evs).
Proof.
  intros. apply conts_logs_gen. cbn. rewrite map_map. apply map_ext. reflexivity.
Qed.

Lemma listener_views_live : forall xs evs i x log,
  nth_error (logs xs evs) i = Some (x, log) ->
  exists c, nth_error (conts (run (init xs) evs)) i = Some c /\ cexcl c = x /\
            forall v, In v (c_view c) <-> live x log v.
Proof.
  intros xs evs i x log H. exists (of_log (x, log)). split; [|split].
  - rewrite conts_logs. apply map_nth_error. exact H.
  - unfold of_log. apply c_run_excl.
  - intros v. apply container_view_live_values.
Qed.

(* ------------------------------------------------------------------ notifications *)
Lemma add_kv_notes : forall k v c, cnotes (add_kv k v c) = cnotes c.
Proof.
  intros k v c. rewrite add_kv_unfold. cbn [cnotes]. unfold clear_excl.
  destruct (cexcl _ && _).
  - rewrite (proj1 (drk_all_notes _ _)). unfold detach.
    destruct (mget k (cmap c)) as [old|]; [|reflexivity].
    destruct (old =? v); [reflexivity | rewrite (proj1 (drk_notes _ _)); reflexivity].
  - unfold detach. destruct (mget k (cmap c)) as [old|]; [|reflexivity].
    destruct (old =? v); [reflexivity | rewrite (proj1 (drk_notes _ _)); reflexivity].
Qed.

Lemma add_kv_dirty : forall k v c, cdirty (add_kv k v c) = true.
Proof. intros. rewrite add_kv_unfold. reflexivity. Qed.

Lemma remove_key_dirty : forall k c, cdirty (remove_key k c) = true.
Proof. reflexivity. Qed.

Lemma remove_key_notes : forall k c, cnotes (remove_key k c) = cnotes c.
Proof. intros. unfold remove_key, set_dirty. cbn. apply drk_notes. Qed.

(* a notification right after a mutation rebuilds the snapshot: the listener funcs see
   the fresh view *)
Lemma notify_dirty : forall c, cdirty c = true ->
  cnotes (notify c) = cnotes c + 1 /\ clast (notify c) = c_view c /\
  c_view (notify c) = c_view c /\ cdirty (notify c) = false /\ csnap (notify c) = c_view c.
Proof.
  intros c H. unfold notify, notify_gen, get_values. rewrite H. cbn. repeat split; reflexivity.
Qed.

Lemma c_apply_mut : forall c e, exists c0,
  c_apply c e = notify c0 /\ cdirty c0 = true /\ cnotes c0 = cnotes c.
Proof.
  intros c [k v|k].
  - exists (add_kv k v c). split; [reflexivity|]. split; [apply add_kv_dirty | apply add_kv_notes].
  - exists (remove_key k c). split; [reflexivity|]. split; [apply remove_key_dirty | apply remove_key_notes].
Qed.

Lemma c_apply_notes : forall c e, cnotes (c_apply c e) = cnotes c + 1.
Proof.
  intros c e. destruct (c_apply_mut c e) as [c0 [-> [Hd Hn]]].
  rewrite (proj1 (notify_dirty c0 Hd)). lia.
Qed.

Lemma c_apply_last : forall c e, clast (c_apply c e) = c_view (c_apply c e).
Proof.
  intros c e. destruct (c_apply_mut c e) as [c0 [-> [Hd Hn]]].
  destruct (notify_dirty c0 Hd) as [_ [H1 [H2 _]]]. congruence.
Qed.

Lemma c_run_notes : forall l c, cnotes (c_run c l) = cnotes c + Z.of_nat (length l).
Proof.
  induction l as [|e l IH]; intros c; cbn [c_run fold_left length]; [cbn; lia|].
  unfold c_run in IH. rewrite IH, c_apply_notes. lia.
Qed.

Lemma c_run_last : forall l c, clast c = c_view c -> clast (c_run c l) = c_view (c_run c l).
Proof.
  induction l as [|e l IH]; intros c H; cbn; [exact H|].
  apply IH. apply c_apply_last.
Qed.

Lemma step_nth : forall s e i c,
  nth_error (conts s) i = Some c ->
  nth_error (conts (step s e)) i = Some (c_run c (emitted e)).
Proof.
  intros s e i c H. rewrite conts_step.
  rewrite nth_error_app1.
  - apply map_nth_error. exact H.
  - rewrite map_length. apply nth_error_Some. congruence.
Qed.

Lemma seen_current_inv : forall evs s,
  Forall (fun c => clast c = c_view c) (conts s) ->
  Forall (fun c => clast c = c_view c) (conts (run s evs)).
Proof.
  induction evs as [|e evs IH]; intros s H; cbn; [exact H|].
  apply IH. rewrite conts_step. apply Forall_app. split.
  - apply Forall_forall. intros c' Hin. apply in_map_iff in Hin. destruct Hin as [c [<- Hin]].
    apply c_run_last. rewrite Forall_forall in H. apply H. exact Hin.
  - destruct e; try constructor; [|constructor]. apply c_run_last. reflexivity.
Qed.

Lemma listeners_saw_current_view : forall xs evs c,
  In c (conts (run (init xs) evs)) -> clast c = c_view c.
Proof.
  intros xs evs c Hin.
  assert (H : Forall (fun c => clast c = c_view c) (conts (run (init xs) evs))).
  { apply seen_current_inv. cbn. apply Forall_forall. intros c0 H0.
    apply in_map_iff in H0. destruct H0 as [x [<- _]]. reflexivity. }
  rewrite Forall_forall in H. apply H. exact Hin.
Qed.

Lemma change_notifies : forall s e i c,
  nth_error (conts s) i = Some c ->
  exists c', nth_error (conts (step s e)) i = Some c' /\
             cnotes c' = cnotes c + Z.of_nat (length (emitted e)) /\
             (c_view c' <> c_view c -> cnotes c < cnotes c').
Proof.
  intros s e i c H. exists (c_run c (emitted e)). split; [apply step_nth; exact H|].
  split; [apply c_run_notes|].
  intros Hne. rewrite c_run_notes. destruct (emitted e) as [|e0 l]; [exfalso; apply Hne; reflexivity|].
  cbn [length]. lia.
Qed.

(* a reload that finds the registrations unchanged calls nobody *)
Lemma reload_same_is_silent : forall s snap calls,
  NoDup (mkeys (rvals s)) -> wf_ev s (EReload snap calls) ->
  (forall k, mget k (snap_map snap) = mget k (rvals s)) ->
  emitted (EReload snap calls) = [].
Proof.
  intros s snap calls Hd P Hsame. cbn [wf_ev] in P.
  assert (Ha : calc_add (rvals s) (snap_map snap) = []).
  { destruct (calc_add (rvals s) (snap_map snap)) as [|[k v] l] eqn:E; [reflexivity|].
    assert (Hin : In (k, v) (calc_add (rvals s) (snap_map snap))) by (rewrite E; left; reflexivity).
    apply calc_add_in in Hin; [|apply snap_map_nodup]. rewrite Hsame in Hin. tauto. }
  assert (Hr : calc_rem (rvals s) (snap_map snap) = []).
  { destruct (calc_rem (rvals s) (snap_map snap)) as [|k l] eqn:E; [reflexivity|].
    assert (Hin : In k (calc_rem (rvals s) (snap_map snap))) by (rewrite E; left; reflexivity).
    apply calc_rem_in in Hin; [|exact Hd]. rewrite Hsame in Hin. tauto. }
  rewrite Ha, Hr in P. cbn in P.
  apply Permutation_sym, Permutation_nil in P. subst. reflexivity.
Qed.

(* ------------------------------------------------------------------ the getValues cache *)
Definition snap_ok (c : container) : Prop := cdirty c = false -> csnap c = c_view c.

(* every state a container can be in: any calls, with listener funcs that read Values()
   or not, and Values() read by anybody at any time in between *)
Inductive creach (x : bool) : container -> Prop :=
| cr_new : creach x (new_container x)
| cr_call : forall c e r, creach x c -> creach x (c_apply_gen r c e)
| cr_read : forall c, creach x c -> creach x (fst (get_values c)).

Lemma c_apply_gen_mut : forall r c e, exists c0,
  c_apply_gen r c e = notify_gen r c0 /\ cdirty c0 = true.
Proof.
  intros r c [k v|k].
  - exists (add_kv k v c). split; [reflexivity | apply add_kv_dirty].
  - exists (remove_key k c). split; [reflexivity | apply remove_key_dirty].
Qed.

Lemma creach_snap_ok : forall x c, creach x c -> snap_ok c.
Proof.
  intros x c H. induction H as [|c e r H IH|c H IH].
  - intros Hd. discriminate.
  - destruct (c_apply_gen_mut r c e) as [c0 [-> Hd]]. destruct r.
    + destruct (notify_dirty c0 Hd) as [_ [_ [H2 [_ H4]]]]. intros _.
      change (notify_gen true c0) with (notify c0). congruence.
    + intros Hf. cbn in Hf. congruence.
  - unfold get_values. destruct (cdirty c) eqn:Ed; cbn.
    + intros _. reflexivity.
    + intros _. apply IH. exact Ed.
Qed.

Lemma snapshot_current : forall x c, creach x c -> c_values c = c_view c.
Proof.
  intros x c H. pose proof (creach_snap_ok x c H) as S.
  unfold c_values, get_values. destruct (cdirty c) eqn:Ed; cbn; [reflexivity | apply S; exact Ed].
Qed.

Lemma c_run_reach : forall l x c, creach x c -> creach x (c_run c l).
Proof.
  induction l as [|e l IH]; intros x c H; cbn; [exact H|].
  apply IH. change (c_apply c e) with (c_apply_gen true c e). apply cr_call. exact H.
Qed.

Lemma sys_snapshot_current : forall xs evs c,
  In c (conts (run (init xs) evs)) -> c_values c = c_view c.
Proof.
  intros xs evs c Hin. rewrite conts_logs in Hin. apply in_map_iff in Hin.
  destruct Hin as [[x l] [<- _]]. apply (snapshot_current x). unfold of_log. cbn.
  apply c_run_reach. apply cr_new.
Qed.
