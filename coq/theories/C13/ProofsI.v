(* C13 — a subscriber joining a watched key WHILE events are handled (Registry.Monitor's
   replay of the known values overlapping the watch goroutine).

   - attach, then replay (the joiner is in watcher.listeners before the snapshot is taken):
     the joiner never misses an event ([joiner_never_misses]); when the events handled during
     the replay are registrations of keys that are not in the snapshot, the joiner ends up
     tied to the registry's values whatever the interleaving
     ([join_overlapping_new_registrations]).  An event about a key of the snapshot that has
     not been replayed yet is overwritten by the older replayed value
     (Pinned.join_replay_overtakes_event_refuted - the race the repair
     pending/C13-join-atomic.diff closes by replaying under the cluster lock: then a join is
     atomic with respect to dispatches, which is Model.step (EJoin ...)).
   - replay, then attach (seeded change C13-6): Pinned.join_replay_then_attach_refuted. *)
From Coq Require Import List ZArith Bool Lia Permutation.
From GZ Require Import C13.Model C13.Proofs C13.ProofsB C13.ProofsC.
Import ListNotations.
Open Scope Z_scope.

Lemma joiner_never_misses : forall sched b,
  In (JEvent b) sched -> In (blev b) (jcalls_attached sched).
Proof.
  intros sched b H. unfold jcalls_attached.
  apply (in_map (fun s => match s with JReplay k v => LAdd k v | JEvent b => blev b end)) in H. exact H.
Qed.

(* ... and is called for nothing else: its calls are the replay and the events, in order *)
Lemma joiner_calls_events_in_order : forall sched,
  flat_map (fun s => match s with JReplay _ _ => [] | JEvent b => [blev b] end) sched = map blev (jevents sched).
Proof.
  induction sched as [|[k v|b] sched IH]; cbn; [reflexivity | exact IH | f_equal; exact IH].
Qed.

Lemma in_mget_nodup : forall (m : amap Z) k v, NoDup (mkeys m) -> In (k, v) m -> mget k m = Some v.
Proof.
  induction m as [|[k0 v0] m IH]; intros k v Hn Hin; [destruct Hin|].
  cbn in Hn. inversion Hn as [|? ? Hni Hn']; subst. cbn.
  destruct Hin as [He|Hin].
  - inversion He; subst. rewrite Z.eqb_refl. reflexivity.
  - destruct (k0 =? k) eqn:E.
    + apply Z.eqb_eq in E. subst k0. exfalso. apply Hni.
      change (In k (map fst m)). apply (in_map fst) in Hin. exact Hin.
    + apply IH; assumption.
Qed.

Lemma mget_some_in : forall (m : amap Z) k v, mget k m = Some v -> In (k, v) m.
Proof.
  induction m as [|[k0 v0] m IH]; intros k v H; cbn in H; [discriminate|].
  destruct (k0 =? k) eqn:E.
  - apply Z.eqb_eq in E. inversion H; subst. left. reflexivity.
  - right. apply IH. exact H.
Qed.

(* Whatever the interleaving of the replay of the snapshot [snap] with the calls for the
   registrations [regs] of keys that are not in the snapshot (each registered once): the
   joiner is tied to the registry's values afterwards - non-exclusive: exactly those
   bindings; exclusive: no stale binding. *)
Lemma join_overlapping_new_registrations : forall x (snap regs : amap Z) l,
  NoDup (mkeys (snap ++ regs)) ->
  Permutation l (ladds snap ++ ladds regs) ->
  cont_ok (snap ++ regs) (c_run (new_container x) l).
Proof.
  intros x snap regs l Hn P.
  assert (Hl : forall e, In e l <-> In e (ladds (snap ++ regs))).
  { intros e. unfold ladds. rewrite map_app. split; intros H.
    - eapply Permutation_in; [exact P | exact H].
    - eapply Permutation_in; [apply Permutation_sym; exact P | exact H]. }
  apply (batch_tied x (new_container x) [] [] (snap ++ regs) l).
  - apply refines_new.
  - reflexivity.
  - destruct x; cbn; [intros k v H; discriminate | intros k; reflexivity].
  - intros k v H. apply Hl in H. apply in_ladds in H. apply in_mget_nodup; assumption.
  - intros k v H _. apply Hl. apply in_ladds. apply mget_some_in. exact H.
  - intros k H. apply Hl in H. exfalso. eapply ladds_no_del. exact H.
  - intros k H. cbn in H. congruence.
Qed.
