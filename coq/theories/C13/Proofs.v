(* C13 — invariants and refinement lemmas: finite maps, the container against the
   key->value relation implied by the listener calls, the declarative "live value"
   characterisation. *)
From Coq Require Import List ZArith Bool Lia Permutation.
From GZ Require Import C13.Model.
Import ListNotations.
Open Scope Z_scope.

(* ------------------------------------------------------------------ finite maps *)
Section AMapFacts.
  Context {A : Type}.
  Implicit Types m : amap A.

  Lemma mget_mdel : forall m k k', mget k (mdel k' m) = if k' =? k then None else mget k m.
  Proof.
    induction m as [|[k0 a] m IH]; intros k k'; cbn.
    - destruct (k' =? k); reflexivity.
    - destruct (k0 =? k') eqn:E0.
      + apply Z.eqb_eq in E0. subst k0. rewrite IH.
        destruct (k' =? k) eqn:E; reflexivity.
      + cbn. destruct (k0 =? k) eqn:E1.
        * apply Z.eqb_eq in E1. subst k0. rewrite Z.eqb_sym in E0. rewrite E0. reflexivity.
        * apply IH.
  Qed.

  Lemma mget_mset : forall m k k' a, mget k (mset k' a m) = if k' =? k then Some a else mget k m.
  Proof.
    intros m k k' a. unfold mset. cbn. destruct (k' =? k) eqn:E; [reflexivity|].
    rewrite mget_mdel, E. reflexivity.
  Qed.

  Lemma mkeys_in_iff : forall m k, In k (mkeys m) <-> mget k m <> None.
  Proof.
    induction m as [|[k0 a] m IH]; intros k; cbn.
    - split; [intros []| intros H; congruence].
    - destruct (k0 =? k) eqn:E.
      + apply Z.eqb_eq in E. split; [intros _; discriminate | intros _; left; exact E].
      + apply Z.eqb_neq in E. rewrite <- IH. split; [intros [H|H]; [contradiction|exact H] | intros H; right; exact H].
  Qed.

  Lemma mkeys_mdel : forall m k k', In k (mkeys (mdel k' m)) <-> In k (mkeys m) /\ k <> k'.
  Proof.
    intros m k k'. rewrite !mkeys_in_iff, mget_mdel.
    destruct (k' =? k) eqn:E.
    - apply Z.eqb_eq in E. split; [intros H; congruence | intros [_ H]; congruence].
    - apply Z.eqb_neq in E. split; [intros H; split; [exact H | congruence] | intros [H _]; exact H].
  Qed.

  Lemma nodup_mdel : forall m k, NoDup (mkeys m) -> NoDup (mkeys (mdel k m)).
  Proof.
    induction m as [|[k0 a] m IH]; intros k H; cbn; [constructor|].
    cbn in H. inversion H as [|? ? Hn Hd]; subst.
    destruct (k0 =? k); [apply IH; exact Hd|].
    cbn. constructor; [|apply IH; exact Hd].
    intros Hin. apply (mkeys_mdel m k0 k) in Hin. destruct Hin as [Hin _]. contradiction.
  Qed.

  Lemma nodup_mset : forall m k a, NoDup (mkeys m) -> NoDup (mkeys (mset k a m)).
  Proof.
    intros m k a H. unfold mset. cbn. constructor; [|apply nodup_mdel; exact H].
    intros Hin. apply mkeys_mdel in Hin. destruct Hin as [_ Hn]. congruence.
  Qed.

  Lemma mget_in : forall m k a, mget k m = Some a -> In (k, a) m.
  Proof.
    induction m as [|[k0 a0] m IH]; intros k a; cbn; [discriminate|].
    destruct (k0 =? k) eqn:E.
    - apply Z.eqb_eq in E. intros H. inversion H; subst. left. reflexivity.
    - intros H. right. apply IH. exact H.
  Qed.

  Lemma in_mget : forall m k a, NoDup (mkeys m) -> In (k, a) m -> mget k m = Some a.
  Proof.
    induction m as [|[k0 a0] m IH]; intros k a Hd Hin; cbn; [destruct Hin|].
    cbn in Hd. inversion Hd as [|? ? Hn Hd']; subst.
    destruct Hin as [Heq|Hin].
    - inversion Heq; subst. rewrite Z.eqb_refl. reflexivity.
    - destruct (k0 =? k) eqn:E.
      + apply Z.eqb_eq in E. subst k0. exfalso. apply Hn.
        change (In (fst (k, a)) (map fst m)). apply in_map. exact Hin.
      + apply IH; assumption.
  Qed.
End AMapFacts.

Lemma getl_mdel : forall m s v, getl v (mdel s m) = if s =? v then [] else getl v m.
Proof. intros. unfold getl. rewrite mget_mdel. destruct (s =? v); reflexivity. Qed.

Lemma getl_mset : forall m s ks v, getl v (mset s ks m) = if s =? v then ks else getl v m.
Proof. intros. unfold getl. rewrite mget_mset. destruct (s =? v); reflexivity. Qed.

Lemma is_nil_true : forall A (l : list A), is_nil l = true <-> l = [].
Proof. intros A [|x l]; cbn; split; congruence. Qed.

Lemma oz_eqb_spec : forall a v, oz_eqb a (Some v) = true <-> a = Some v.
Proof.
  intros [x|] v; cbn; [|split; congruence].
  rewrite Z.eqb_eq. split; congruence.
Qed.

(* ------------------------------------------------------------------ the container *)
Record cinv (c : container) : Prop := mkCinv
  { ci_nonempty : forall v ks, mget v (cvals c) = Some ks -> ks <> [];
    ci_link : forall k v, mget k (cmap c) = Some v <-> In k (getl v (cvals c));
    ci_nodup : NoDup (mkeys (cvals c)) }.

Lemma cinv_new : forall x, cinv (new_container x).
Proof.
  intros x. constructor; cbn.
  - discriminate.
  - intros k v. unfold getl. cbn. split; [discriminate | intros []].
  - constructor.
Qed.

Lemma drk_excl : forall key c, cexcl (do_remove_key key c) = cexcl c.
Proof. intros. unfold do_remove_key. destruct (mget key (cmap c)); reflexivity. Qed.

Lemma drk_notes : forall key c, cnotes (do_remove_key key c) = cnotes c /\ clast (do_remove_key key c) = clast c.
Proof. intros. unfold do_remove_key. destruct (mget key (cmap c)); split; reflexivity. Qed.

Lemma drk_cache : forall key c, cdirty (do_remove_key key c) = cdirty c /\ csnap (do_remove_key key c) = csnap c.
Proof. intros. unfold do_remove_key. destruct (mget key (cmap c)); split; reflexivity. Qed.

(* doRemoveKey on the mapping is "delete key", whatever the state *)
Lemma drk_map : forall key c k,
  mget k (cmap (do_remove_key key c)) = if key =? k then None else mget k (cmap c).
Proof.
  intros key c k. unfold do_remove_key.
  destruct (mget key (cmap c)) as [server|] eqn:E; cbn.
  - apply mget_mdel.
  - destruct (key =? k) eqn:Ek; [|reflexivity]. apply Z.eqb_eq in Ek. subst. exact E.
Qed.

Lemma drk_getl : forall key c server,
  mget key (cmap c) = Some server ->
  forall v, getl v (cvals (do_remove_key key c)) =
            if server =? v then filter (fun k => negb (k =? key)) (getl server (cvals c))
            else getl v (cvals c).
Proof.
  intros key c server E v. unfold do_remove_key. rewrite E. cbn.
  destruct (is_nil (filter (fun k => negb (k =? key)) (getl server (cvals c)))) eqn:En.
  - rewrite getl_mdel. apply is_nil_true in En. rewrite En. reflexivity.
  - rewrite getl_mset. reflexivity.
Qed.

Lemma drk_inv : forall key c, cinv c -> cinv (do_remove_key key c).
Proof.
  intros key c I.
  destruct (mget key (cmap c)) as [server|] eqn:E.
  2:{ unfold do_remove_key. rewrite E. exact I. }
  constructor.
  - intros v ks H. unfold do_remove_key in H. rewrite E in H. cbn in H.
    destruct (is_nil (filter (fun k => negb (k =? key)) (getl server (cvals c)))) eqn:En.
    + rewrite mget_mdel in H. destruct (server =? v); [discriminate|].
      eapply ci_nonempty; eauto.
    + rewrite mget_mset in H. destruct (server =? v).
      * inversion H; subst. intros Hnil. rewrite Hnil in En. discriminate.
      * eapply ci_nonempty; eauto.
  - intros k v. rewrite drk_map, (drk_getl key c server E).
    destruct (key =? k) eqn:Ek.
    + apply Z.eqb_eq in Ek. subst k. split; [discriminate|].
      destruct (server =? v) eqn:Es.
      * rewrite filter_In, Z.eqb_refl. cbn. intros [_ H]. discriminate.
      * intros H. apply (ci_link c I) in H. rewrite E in H. inversion H; subst.
        rewrite Z.eqb_refl in Es. discriminate.
    + rewrite (ci_link c I). destruct (server =? v) eqn:Es.
      * apply Z.eqb_eq in Es. subst v. rewrite filter_In.
        rewrite Z.eqb_sym in Ek. rewrite Ek. cbn. tauto.
      * tauto.
  - unfold do_remove_key. rewrite E. cbn.
    destruct (is_nil _); [apply nodup_mdel | apply nodup_mset]; apply (ci_nodup c I).
Qed.

Definition drk_all (keys : list Z) (c : container) : container :=
  fold_left (fun c' k => do_remove_key k c') keys c.

Lemma drk_all_excl : forall keys c, cexcl (drk_all keys c) = cexcl c.
Proof.
  induction keys as [|k keys IH]; intros c; cbn; [reflexivity|].
  unfold drk_all in IH. rewrite IH. apply drk_excl.
Qed.

Lemma drk_all_notes : forall keys c, cnotes (drk_all keys c) = cnotes c /\ clast (drk_all keys c) = clast c.
Proof.
  induction keys as [|k keys IH]; intros c; cbn; [split; reflexivity|].
  unfold drk_all in IH. destruct (IH (do_remove_key k c)) as [H1 H2].
  destruct (drk_notes k c) as [H3 H4]. split; congruence.
Qed.

Lemma drk_all_inv : forall keys c, cinv c -> cinv (drk_all keys c).
Proof.
  induction keys as [|k keys IH]; intros c I; cbn; [exact I|].
  apply IH. apply drk_inv. exact I.
Qed.

Lemma drk_all_map : forall keys c k,
  mget k (cmap (drk_all keys c)) = if zmem k keys then None else mget k (cmap c).
Proof.
  induction keys as [|k0 keys IH]; intros c k; cbn; [reflexivity|].
  unfold drk_all in IH. rewrite IH, drk_map.
  rewrite (Z.eqb_sym k k0).
  destruct (k0 =? k); cbn; [destruct (zmem k keys); reflexivity | reflexivity].
Qed.

Lemma zmem_in : forall x l, zmem x l = true <-> In x l.
Proof.
  intros x l. unfold zmem. rewrite existsb_exists. split.
  - intros [y [Hin He]]. apply Z.eqb_eq in He. subst. exact Hin.
  - intros H. exists x. split; [exact H | apply Z.eqb_refl].
Qed.

(* the state after the "detach the key from its previous value" step of addKv *)
Definition detach (key value : Z) (c : container) : container :=
  match mget key (cmap c) with
  | Some old => if old =? value then c else do_remove_key key c
  | None => c
  end.

Lemma detach_inv : forall key value c, cinv c -> cinv (detach key value c).
Proof.
  intros key value c I. unfold detach. destruct (mget key (cmap c)) as [old|]; [|exact I].
  destruct (old =? value); [exact I | apply drk_inv; exact I].
Qed.

Lemma detach_excl : forall key value c, cexcl (detach key value c) = cexcl c.
Proof.
  intros. unfold detach. destruct (mget key (cmap c)) as [old|]; [|reflexivity].
  destruct (old =? value); [reflexivity | apply drk_excl].
Qed.

Lemma detach_map : forall key value c k,
  mget k (cmap (detach key value c)) =
  if (key =? k) && negb (oz_eqb (mget key (cmap c)) (Some value)) then None else mget k (cmap c).
Proof.
  intros key value c k. unfold detach.
  destruct (mget key (cmap c)) as [old|] eqn:E; cbn.
  - destruct (old =? value) eqn:Eo; cbn.
    + rewrite andb_false_r. reflexivity.
    + rewrite andb_true_r. apply drk_map.
  - rewrite andb_true_r. destruct (key =? k) eqn:Ek; [|reflexivity].
    apply Z.eqb_eq in Ek. subst. exact E.
Qed.

(* after detaching, the key is unbound or already bound to the value *)
Lemma detach_key : forall key value c,
  mget key (cmap (detach key value c)) = None \/ mget key (cmap (detach key value c)) = Some value.
Proof.
  intros key value c. rewrite detach_map, Z.eqb_refl. cbn.
  destruct (mget key (cmap c)) as [old|] eqn:E; cbn; [|left; reflexivity].
  destruct (old =? value) eqn:Eo; cbn; [|left; reflexivity].
  apply Z.eqb_eq in Eo. subst. right. reflexivity.
Qed.

Definition clear_excl (value : Z) (c : container) : container :=
  if cexcl c && negb (is_nil (getl value (cvals c))) then drk_all (getl value (cvals c)) c else c.

Lemma add_kv_unfold : forall key value c,
  add_kv key value c =
  let c2 := clear_excl value (detach key value c) in
  mkC (cexcl c2) (mset value (getl value (cvals c2) ++ [key]) (cvals c2))
      (mset key value (cmap c2)) (cnotes c2) (clast c2) true (csnap c2).
Proof. reflexivity. Qed.

Lemma clear_excl_inv : forall value c, cinv c -> cinv (clear_excl value c).
Proof.
  intros value c I. unfold clear_excl.
  destruct (cexcl c && negb (is_nil (getl value (cvals c)))); [apply drk_all_inv; exact I | exact I].
Qed.

Lemma clear_excl_excl : forall value c, cexcl (clear_excl value c) = cexcl c.
Proof.
  intros. unfold clear_excl.
  destruct (cexcl c && negb (is_nil (getl value (cvals c)))); [apply drk_all_excl | reflexivity].
Qed.

Lemma clear_excl_map : forall value c k, cinv c ->
  mget k (cmap (clear_excl value c)) =
  if cexcl c && oz_eqb (mget k (cmap c)) (Some value) then None else mget k (cmap c).
Proof.
  intros value c k I. unfold clear_excl.
  destruct (cexcl c) eqn:Ex; cbn; [|reflexivity].
  assert (Hk : zmem k (getl value (cvals c)) = oz_eqb (mget k (cmap c)) (Some value)).
  { apply eq_true_iff_eq. rewrite zmem_in, oz_eqb_spec. symmetry. apply (ci_link c I). }
  destruct (is_nil (getl value (cvals c))) eqn:En; cbn.
  - apply is_nil_true in En. rewrite En in Hk. cbn in Hk. rewrite <- Hk. reflexivity.
  - rewrite drk_all_map, Hk. reflexivity.
Qed.

Lemma add_kv_excl : forall key value c, cexcl (add_kv key value c) = cexcl c.
Proof. intros. rewrite add_kv_unfold. cbn. rewrite clear_excl_excl, detach_excl. reflexivity. Qed.

(* addKv on the mapping: the key gets the value; exclusive: every other key that had
   the value loses it; nothing else changes *)
Lemma add_kv_map : forall key value c k, cinv c ->
  mget k (cmap (add_kv key value c)) =
  if key =? k then Some value
  else if cexcl c && oz_eqb (mget k (cmap c)) (Some value) then None else mget k (cmap c).
Proof.
  intros key value c k I. rewrite add_kv_unfold. cbv zeta. cbn [cmap]. rewrite mget_mset.
  destruct (key =? k) eqn:Ek; [reflexivity|].
  rewrite clear_excl_map by (apply detach_inv; exact I).
  rewrite detach_excl, detach_map, Ek. cbn. reflexivity.
Qed.

Lemma add_kv_inv : forall key value c, cinv c -> cinv (add_kv key value c).
Proof.
  intros key value c I. rewrite add_kv_unfold.
  set (c1 := detach key value c).
  assert (I1 : cinv c1) by (apply detach_inv; exact I).
  set (c2 := clear_excl value c1).
  assert (I2 : cinv c2) by (apply clear_excl_inv; exact I1).
  assert (Hkey : mget key (cmap c2) = None \/ mget key (cmap c2) = Some value).
  { unfold c2. rewrite clear_excl_map by exact I1.
    destruct (detach_key key value c) as [H|H]; fold c1 in H; rewrite H; cbn.
    - rewrite andb_false_r. left. reflexivity.
    - destruct (cexcl c1); cbn; [rewrite Z.eqb_refl; left | right]; reflexivity. }
  cbv zeta. constructor; cbn [cvals cmap].
  - intros v ks H. rewrite mget_mset in H. destruct (value =? v).
    + inversion H; subst. intros Hn. apply app_eq_nil in Hn. destruct Hn as [_ Hn]. discriminate.
    + eapply ci_nonempty; eauto.
  - intros k v. rewrite mget_mset, getl_mset.
    destruct (key =? k) eqn:Ek.
    + apply Z.eqb_eq in Ek. subst k. destruct (value =? v) eqn:Ev.
      * apply Z.eqb_eq in Ev. subst v. split; [intros _; apply in_or_app; right; left; reflexivity | reflexivity].
      * apply Z.eqb_neq in Ev. split; [intros H; congruence|].
        intros H. apply (ci_link c2 I2) in H. destruct Hkey as [Hk|Hk]; congruence.
    + apply Z.eqb_neq in Ek. rewrite (ci_link c2 I2). destruct (value =? v) eqn:Ev.
      * apply Z.eqb_eq in Ev. subst v. rewrite in_app_iff. cbn. split; [tauto|].
        intros [H|[H|[]]]; [exact H | congruence].
      * tauto.
  - apply nodup_mset. apply (ci_nodup c2 I2).
Qed.

(* F-discarded suspicion made precise: an exclusive container never holds two keys for
   a value, so ranging over the slice that doRemoveKey rewrites in place is harmless *)
Definition one_key (c : container) : Prop :=
  cexcl c = true -> forall v ks, mget v (cvals c) = Some ks -> exists k, ks = [k].

Lemma drk_one_key : forall key c, one_key c -> one_key (do_remove_key key c).
Proof.
  intros key c O Hx v ks H. rewrite drk_excl in Hx.
  unfold do_remove_key in H. destruct (mget key (cmap c)) as [server|] eqn:E; [|eapply O; eauto].
  cbn in H.
  destruct (is_nil (filter (fun k => negb (k =? key)) (getl server (cvals c)))) eqn:En.
  - rewrite mget_mdel in H. destruct (server =? v); [discriminate | eapply O; eauto].
  - rewrite mget_mset in H. destruct (server =? v); [|eapply O; eauto].
    inversion H; subst ks. unfold getl in *.
    destruct (mget server (cvals c)) as [ks0|] eqn:E0; [|discriminate].
    destruct (O Hx server ks0 E0) as [k0 Hk0]. subst ks0. cbn in *.
    destruct (negb (k0 =? key)); [exists k0; reflexivity | discriminate].
Qed.

Lemma drk_all_one_key : forall keys c, one_key c -> one_key (drk_all keys c).
Proof.
  induction keys as [|k keys IH]; intros c O; cbn; [exact O|].
  apply IH. apply drk_one_key. exact O.
Qed.

Lemma add_kv_one_key : forall key value c, cinv c -> one_key c -> one_key (add_kv key value c).
Proof.
  intros key value c I O Hx v ks H. rewrite add_kv_excl in Hx.
  rewrite add_kv_unfold in H. cbv zeta in H. cbn [cvals] in H.
  set (c1 := detach key value c) in *.
  assert (I1 : cinv c1) by (apply detach_inv; exact I).
  assert (O1 : one_key c1).
  { unfold c1, detach. destruct (mget key (cmap c)) as [old|]; [|exact O].
    destruct (old =? value); [exact O | apply drk_one_key; exact O]. }
  assert (Hx1 : cexcl c1 = true) by (unfold c1; rewrite detach_excl; exact Hx).
  set (c2 := clear_excl value c1) in *.
  assert (O2 : one_key c2).
  { unfold c2, clear_excl. destruct (cexcl c1 && negb (is_nil (getl value (cvals c1)))); [apply drk_all_one_key|]; exact O1. }
  assert (I2 : cinv c2) by (apply clear_excl_inv; exact I1).
  assert (Hx2 : cexcl c2 = true) by (unfold c2; rewrite clear_excl_excl; exact Hx1).
  rewrite mget_mset in H. destruct (value =? v) eqn:Ev; [|eapply O2; eauto].
  inversion H; subst ks.
  (* no key is left for [value] in c2 *)
  assert (Hnil : getl value (cvals c2) = []).
  { destruct (getl value (cvals c2)) as [|k0 l] eqn:Eg; [reflexivity|].
    assert (Hin : In k0 (getl value (cvals c2))) by (rewrite Eg; left; reflexivity).
    apply (ci_link c2 I2) in Hin. unfold c2 in Hin.
    rewrite clear_excl_map in Hin by exact I1. rewrite Hx1 in Hin. cbn in Hin.
    destruct (oz_eqb (mget k0 (cmap c1)) (Some value)) eqn:Eo; [discriminate|].
    apply oz_eqb_spec in Hin. congruence. }
  rewrite Hnil. exists key. reflexivity.
Qed.

(* ------------------------------------------------------------------ views *)
Lemma view_iff : forall c v, cinv c -> (In v (c_view c) <-> exists k, mget k (cmap c) = Some v).
Proof.
  intros c v I. unfold c_view. rewrite mkeys_in_iff. split.
  - intros H. destruct (mget v (cvals c)) as [ks|] eqn:E; [|congruence].
    destruct ks as [|k ks]; [exfalso; eapply ci_nonempty; eauto|].
    exists k. apply (ci_link c I). unfold getl. rewrite E. left. reflexivity.
  - intros [k H]. apply (ci_link c I) in H. unfold getl in H.
    destruct (mget v (cvals c)); [discriminate | destruct H].
Qed.

Lemma view_nodup : forall c, cinv c -> NoDup (c_view c).
Proof. intros c I. apply (ci_nodup c I). Qed.

(* ------------------------------------------------------------------ spec side, pointwise *)
Lemma nodup_drop_val : forall v m, NoDup (mkeys m) -> NoDup (mkeys (drop_val v m)).
Proof.
  induction m as [|[k a] m IH]; intros H; cbn; [constructor|].
  cbn in H. inversion H as [|? ? Hn Hd]; subst.
  destruct (negb (a =? v)); cbn; [|apply IH; exact Hd].
  constructor; [|apply IH; exact Hd].
  intros Hin. apply Hn. unfold mkeys, drop_val in Hin. apply in_map_iff in Hin.
  destruct Hin as [[k' a'] [Hk Hin]]. cbn in Hk. subst k'. apply filter_In in Hin.
  destruct Hin as [Hin _]. change (In (fst (k, a')) (map fst m)). apply in_map. exact Hin.
Qed.

Lemma mget_drop_val : forall v m k, NoDup (mkeys m) ->
  mget k (drop_val v m) = if oz_eqb (mget k m) (Some v) then None else mget k m.
Proof.
  induction m as [|[k0 a] m IH]; intros k H; cbn; [reflexivity|].
  cbn in H. inversion H as [|? ? Hn Hd]; subst.
  destruct (a =? v) eqn:Ea; cbn.
  - destruct (k0 =? k) eqn:Ek; cbn.
    + rewrite Ea. rewrite IH by exact Hd.
      apply Z.eqb_eq in Ek. subst k0.
      assert (Hnone : mget k m = None).
      { destruct (mget k m) eqn:E; [|reflexivity]. exfalso. apply Hn. apply mkeys_in_iff. congruence. }
      rewrite Hnone. reflexivity.
    + apply IH. exact Hd.
  - destruct (k0 =? k) eqn:Ek; cbn.
    + rewrite Ea. reflexivity.
    + apply IH. exact Hd.
Qed.

Lemma sp_apply_nodup : forall x m e, NoDup (mkeys m) -> NoDup (mkeys (sp_apply x m e)).
Proof.
  intros x m [k v|k] H; cbn -[mset].
  - apply nodup_mset. destruct x; [apply nodup_drop_val|]; exact H.
  - apply nodup_mdel. exact H.
Qed.

Lemma sp_apply_get : forall x m e k, NoDup (mkeys m) ->
  mget k (sp_apply x m e) =
  match e with
  | LAdd k' v => if k' =? k then Some v
                 else if x && oz_eqb (mget k m) (Some v) then None else mget k m
  | LDel k' => if k' =? k then None else mget k m
  end.
Proof.
  intros x m [k' v|k'] k H; cbn -[mset].
  - rewrite mget_mset. destruct (k' =? k); [reflexivity|].
    destruct x; cbn; [apply mget_drop_val; exact H | reflexivity].
  - apply mget_mdel.
Qed.

(* ------------------------------------------------------------------ refinement *)
Record refines (c : container) (m : amap Z) : Prop := mkRef
  { rf_inv : cinv c;
    rf_nodup : NoDup (mkeys m);
    rf_map : forall k, mget k (cmap c) = mget k m }.

Lemma refines_new : forall x, refines (new_container x) [].
Proof. intros x. constructor; [apply cinv_new | constructor | reflexivity]. Qed.

Lemma c_apply_excl : forall c e, cexcl (c_apply c e) = cexcl c.
Proof. intros c [k v|k]; cbn; [apply add_kv_excl | apply drk_excl]. Qed.

Lemma refines_apply : forall c m e, refines c m -> refines (c_apply c e) (sp_apply (cexcl c) m e).
Proof.
  intros c m e [I Hd Hm]. constructor.
  - destruct e as [k v|k]; cbn.
    + destruct (add_kv_inv k v c I) as [A B C]. constructor; assumption.
    + destruct (drk_inv k c I) as [A B C]. constructor; assumption.
  - apply sp_apply_nodup. exact Hd.
  - intros k0. rewrite sp_apply_get by exact Hd. destruct e as [k v|k].
    + change (cmap (c_apply c (LAdd k v))) with (cmap (add_kv k v c)).
      rewrite add_kv_map by exact I. rewrite Hm. reflexivity.
    + change (cmap (c_apply c (LDel k))) with (cmap (do_remove_key k c)).
      rewrite drk_map. rewrite Hm. reflexivity.
Qed.

Lemma c_run_excl : forall l c, cexcl (c_run c l) = cexcl c.
Proof.
  induction l as [|e l IH]; intros c; cbn; [reflexivity|].
  unfold c_run in IH. rewrite IH. apply c_apply_excl.
Qed.

Lemma refines_run : forall l c m, refines c m ->
  refines (c_run c l) (fold_left (sp_apply (cexcl c)) l m).
Proof.
  induction l as [|e l IH]; intros c m R; cbn; [exact R|].
  pose proof (IH _ _ (refines_apply c m e R)) as H. rewrite c_apply_excl in H. exact H.
Qed.

Lemma refines_view : forall c m v, refines c m ->
  (In v (c_view c) <-> exists k, mget k m = Some v).
Proof.
  intros c m v [I _ Hm]. rewrite view_iff by exact I.
  split; intros [k H]; exists k; [rewrite <- Hm | rewrite Hm]; exact H.
Qed.

Lemma one_key_run : forall l c, cinv c -> one_key c -> one_key (c_run c l).
Proof.
  induction l as [|e l IH]; intros c I O; cbn; [exact O|].
  apply IH.
  - destruct e as [k v|k]; cbn.
    + destruct (add_kv_inv k v c I) as [A B C]. constructor; assumption.
    + destruct (drk_inv k c I) as [A B C]. constructor; assumption.
  - destruct e as [k v|k]; cbn.
    + intros Hx. apply (add_kv_one_key k v c I O). exact Hx.
    + intros Hx. apply (drk_one_key k c O). exact Hx.
Qed.
