(* C13 — the algorithms as they were at the pinned commit (before `fix: discovery
   subscriber kept the stale value when a key changed its value`), kept to document
   defect F3 (DESIGN.md §5).  Each is refuted by a concrete history evaluated with
   vm_compute; the same histories are the first corpus entries of the check and were
   replayed on the real pre-fix code (notes/C13.md).  Also: witnesses showing that the
   hypotheses of kube_view_exact are needed. *)
From Coq Require Import List ZArith Bool Lia.
From GZ Require Import C13.Model C13.Proofs C13.ProofsB C13.ProofsC C13.ProofsD C13.ProofsF C13.ProofsG C13.ProofsH C13.ProofsI C13.ProofsK C13.ProofsL.
Import ListNotations.
Open Scope Z_scope.

(* addKv without the "detach the key from its previous value" step *)
Definition pinned_add_kv (key value : Z) (c : container) : container :=
  let keys := getl value (cvals c) in
  let c2 := if cexcl c && negb (is_nil keys)
            then fold_left (fun c' k => do_remove_key k c') keys c else c in
  mkC (cexcl c2) (mset value (getl value (cvals c2) ++ [key]) (cvals c2))
      (mset key value (cmap c2)) (cnotes c2) (clast c2) true (csnap c2).

Definition pinned_c_apply (c : container) (e : lev) : container :=
  match e with
  | LAdd k v => notify (pinned_add_kv k v c)
  | LDel k => on_delete k c
  end.
Definition pinned_c_run (c : container) (l : list lev) : container := fold_left pinned_c_apply l c.

(* calculateChanges reporting a key whose value changed as add AND remove *)
Definition pinned_calc_rem (old new : amap Z) : list Z :=
  map fst (filter (fun kv => negb (oz_eqb (mget (fst kv) new) (Some (snd kv)))) old).

Definition pinned_reload_calls (old : amap Z) (snap : list (Z * Z)) : list lev :=
  ladds (calc_add old (snap_map snap)) ++ ldels (pinned_calc_rem old (snap_map snap)).

(* F3a: OnAdd(k1,v1); OnAdd(k1,v2): the pinned container shows v1 although no key is
   registered with it any more — for both modes *)
Theorem addkv_update_refuted :
  exists log v, forall x, In v (c_view (pinned_c_run (new_container x) log)) /\ ~ live x log v.
Proof.
  exists [LAdd 1 1; LAdd 1 2], 1. intros x. split.
  - destruct x; vm_compute; right; left; reflexivity.
  - intros H. apply container_view_live_values in H. destruct x; vm_compute in H;
      destruct H as [H|[]]; discriminate.
Qed.

(* F3a continued: ... and v1 survives OnDelete(k1): a value is shown while nothing at
   all is registered *)
Theorem stale_value_survives_delete_refuted :
  exists log, forall x,
    c_view (pinned_c_run (new_container x) log) = [1] /\ sp_run x log = [] /\
    c_view (c_run (new_container x) log) = [].
Proof.
  exists [LAdd 1 1; LAdd 1 2; LDel 1]. intros x. destruct x; vm_compute; repeat split; reflexivity.
Qed.

(* F3b: PUT k1=v1, then a reload that finds k1=v2.  The pinned calculateChanges emits
   OnAdd(k1,v2) then OnDelete(k1): the listener (pinned container) ends with the OLD value
   v1 and without the new one; even the repaired container loses the new value *)
Theorem reload_changed_value_refuted :
  let old := [(1, 1)] in
  let snap := [(1, 2)] in
  let calls := [LAdd 1 1] ++ pinned_reload_calls old snap in
  calls = [LAdd 1 1; LAdd 1 2; LDel 1] /\
  truth [EPut 1 1; EReload snap []] = [(1, 2)] /\
  c_view (pinned_c_run (new_container false) calls) = [1] /\
  c_view (c_run (new_container false) calls) = [].
Proof. vm_compute. repeat split; reflexivity. Qed.

(* the repaired calculateChanges on the same input: one OnAdd, no OnDelete *)
Example reload_changed_value_fixed :
  ladds (calc_add [(1, 1)] (snap_map [(1, 2)])) ++ ldels (calc_rem [(1, 1)] (snap_map [(1, 2)]))
  = [LAdd 1 2] /\
  c_view (c_run (new_container false) [LAdd 1 1; LAdd 1 2]) = [2].
Proof. vm_compute. split; reflexivity. Qed.

(* ------------------------------------------------------------------ the getValues cache *)
(* a plausible "optimisation" (seeded regression / mutation M5): addKv marks the snapshot
   dirty only when the value is not served yet.  Wrong since F3's fix: a key that MOVES to
   an already served value may take its old value out of the view *)
Definition lazy_add_kv (key value : Z) (c : container) : container :=
  let r := add_kv key value c in
  mkC (cexcl r) (cvals r) (cmap r) (cnotes r) (clast r)
      (if is_nil (getl value (cvals c)) then true else cdirty c) (csnap r).

Definition lazy_c_apply (c : container) (e : lev) : container :=
  match e with
  | LAdd k v => notify (lazy_add_kv k v c)
  | LDel k => on_delete k c
  end.

Theorem lazy_dirty_snapshot_refuted :
  exists log, let c := fold_left lazy_c_apply log (new_container false) in
              c_values c = [2; 1] /\ c_view c = [2] /\ clast c = [2; 1].
Proof. exists [LAdd 1 1; LAdd 2 2; LAdd 1 2]. vm_compute. repeat split; reflexivity. Qed.

(* ------------------------------------------------------------------ boundary of events_after_snapshot *)
(* Watch events with a revision <= the snapshot's are NOT idempotent: etcd did
   put k1=v1 (rev 1), delete k1 (rev 2); the registry loads at revision 2 (empty) and is
   then delivered the watch event of revision 1 again: the deleted registration is
   resurrected and shown although etcd has nothing.  (The code avoids this by watching
   from rev+1.) *)
Theorem stale_replay_after_snapshot_refuted :
  exists h ds, ~ events_after_snapshot h 0 ds /\
    etcd_state h 2 = [] /\
    map c_values (conts (run (init [false]) (map (ev_of h) ds))) = [[1]].
Proof.
  exists [BPut 1 1; BDel 1], [DLoad 2 [] []; DWatch 0]. split; [|split; reflexivity].
  cbn. intros [_ [H _]]. discriminate.
Qed.

(* ... and a gap loses a registration (what would happen with a response header revision
   of 0: no WithRev, the watch starts after mutations made since the Get) *)
Theorem gap_after_snapshot_refuted :
  exists h ds, ~ events_after_snapshot h 0 ds /\
    etcd_state h 2 = [(2, 2); (1, 1)] /\
    map c_values (conts (run (init [false]) (map (ev_of h) ds))) = [[2]].
Proof.
  exists [BPut 1 1; BPut 2 2], [DLoad 0 [] []; DWatch 1]. split; [|split; reflexivity].
  cbn. intros [_ [H _]]. discriminate.
Qed.

(* ------------------------------------------------------------------ boundary of view_equals_etcd_after_any_consistent_delivery *)
(* A STALE snapshot (a load answered at a revision older than what the watch has already
   delivered; every single delivery is consistent) puts the view back: until the stream that
   follows it has caught up, Values() is NOT etcd's registrations.  etcd: put 1=10.  The
   registry: load at 0, watch event 0 (view [10]), load answered at revision 0 again. *)
Theorem stale_snapshot_before_catch_up_refuted :
  exists h ds, consistent h 0 0 ds /\ wf_run (init [false]) (map ev_of_g ds) /\
    final_pos_g 0 0 ds = (0%nat, 1%nat) /\
    etcd_state h 1 = [(1, 10)] /\
    map c_values (conts (run (init [false]) (map ev_of_g ds))) = [[]].
Proof.
  exists [BPut 1 10], [GLoad 0 [] []; GRestart 0; GResp 0 [BPut 1 10]; GLoad 0 [] [LDel 1]].
  split; [|split; [|split; [|split]]]; try reflexivity.
  - cbn. repeat split; try lia; intros k; reflexivity.
  - cbn. repeat split; apply Permutation.Permutation_refl.
Qed.

(* ... and the stream the code then opens (WithRev(revision of that snapshot + 1)) repairs it *)
Example stale_snapshot_then_replay_catches_up :
  let h := [BPut 1 10] in
  let ds := [GLoad 0 [] []; GRestart 0; GResp 0 [BPut 1 10]; GLoad 0 [] [LDel 1]; GRestart 0; GResp 0 [BPut 1 10]] in
  consistent_b h 0 0 ds = true /\ final_pos_g 0 0 ds = (1%nat, 1%nat) /\
  map c_values (conts (run (init [false]) (map ev_of_g ds))) = [[10]].
Proof. vm_compute. repeat split. Qed.

(* A stream that starts BEYOND the position reached (p > pos: e.g. WithRev(rev+2), or no
   WithRev at all after mutations were made) loses a registration for good: etcd: put 1=10,
   put 2=20; load at 0, the stream starts with mutation 1. *)
Theorem restart_forward_refuted :
  exists h ds, ~ consistent h 0 0 ds /\
    final_pos_g 0 0 ds = (2%nat, 2%nat) /\
    etcd_state h 2 = [(2, 20); (1, 10)] /\
    map c_values (conts (run (init [false]) (map ev_of_g ds))) = [[20]].
Proof.
  exists [BPut 1 10; BPut 2 20], [GLoad 0 [] []; GRestart 1; GResp 1 [BPut 2 20]].
  split; [|split; [|split]]; try reflexivity.
  cbn. intros [_ [_ [H _]]]. lia.
Qed.

(* Seeded change C13-9: watchStream remembers the HEADER revision of the last handled response and
   watchUntil resumes a broken stream from it.  etcd stamps every catch-up batch with the CURRENT
   store revision: put 1=10, put 2=20, delete 1, put 3=30, put 4=40; load after the first
   mutation; the watcher is behind and gets the partial batch [put 2=20] with the header of the
   4th mutation; the stream breaks (closed channel / Canceled / any non-compaction error); the new
   stream starts after the header: "delete 1" and "put 3=30" are skipped for good - the stream
   catches up (pos = hi = 5), key 1 is still shown, key 3 never appears.  The script is what
   etcd may do (wf_script); the delivery is not consistent. *)
Theorem resume_from_header_refuted :
  exists h script,
    wf_script RHeader h 0 0 script /\
    let ds := watch_loop RHeader h 0 0 script in
    ~ consistent h 0 0 ds /\
    final_pos_g 0 0 ds = (5%nat, 5%nat) /\
    etcd_state h 5 = [(4, 40); (3, 30); (2, 20)] /\
    map c_values (conts (run (init [false]) (map ev_of_g ds))) = [[40; 20; 10]].
Proof.
  exists [BPut 1 10; BPut 2 20; BDel 1; BPut 3 30; BPut 4 40],
         [SLoad 1 [(1, 10)] [LAdd 1 10]; SBatch 1 4; SBreak; SBatch 1 5].
  split.
  - cbn. repeat split; lia.
  - cbn zeta. split; [|repeat split; reflexivity].
    cbn. intros [_ [_ [_ [_ [_ [_ [H _]]]]]]]. lia.
Qed.

(* the same script prefix under the code's policy (resume from the load revision) and under
   "last handled event": the stream is resumed at or before the position reached *)
Example resume_from_load_rev_or_last_event_replays :
  watch_loop RLoadRev [BPut 1 10; BPut 2 20; BDel 1; BPut 3 30; BPut 4 40] 0 0
             [SLoad 1 [(1, 10)] [LAdd 1 10]; SBatch 1 4; SBreak] =
    [GLoad 1 [(1, 10)] [LAdd 1 10]; GRestart 1; GResp 1 [BPut 2 20]; GRestart 1] /\
  watch_loop RLastEvent [BPut 1 10; BPut 2 20; BDel 1; BPut 3 30; BPut 4 40] 0 0
             [SLoad 1 [(1, 10)] [LAdd 1 10]; SBatch 1 4; SBreak] =
    [GLoad 1 [(1, 10)] [LAdd 1 10]; GRestart 1; GResp 1 [BPut 2 20]; GRestart 2].
Proof. split; reflexivity. Qed.

(* A replay that stops half way (the stream restarted at the revision of the load delivers
   only the first of the events it has to deliver again): the deleted registration is back.
   etcd: put 1=10, delete 1. *)
Theorem partial_replay_refuted :
  exists h ds, consistent h 0 0 ds /\
    final_pos_g 0 0 ds = (1%nat, 2%nat) /\
    etcd_state h 2 = [] /\
    map c_values (conts (run (init [false]) (map ev_of_g ds))) = [[10]].
Proof.
  exists [BPut 1 10; BDel 1], [GLoad 0 [] []; GRestart 0; GResp 0 [BPut 1 10; BDel 1]; GRestart 0; GResp 0 [BPut 1 10]].
  split; [|split; [|split]]; try reflexivity.
  cbn. repeat split; try lia; intros k; reflexivity.
Qed.

(* ------------------------------------------------------------------ dispatch without the copy (seeded change C13-4) *)
(* `listeners := watcher.listeners` instead of a copy: the range goes over the live backing
   array, which Unmonitor's in-place removal shifts.  Listeners 1 2 3; listener 1 closes
   itself inside its own callback: listener 2 - registered all the time - is NOT called, the
   last listener is called twice.  (Without membership changes the variant is right:
   ProofsH.dispatch_inplace_quiet; replayed on the real code by the corpus case with hooks.) *)
Theorem dispatch_without_copy_refuted :
  exists ls acts l, NoDup ls /\ In l ls /\
    (forall i, forallb (fun a => negb (leaves l a)) (acts i) = true) /\
    count_occ Z.eq_dec (fst (dispatch_inplace ls acts)) l = 0%nat /\
    count_occ Z.eq_dec (fst (dispatch_inplace ls acts)) 3 = 2%nat /\
    fst (dispatch_copy ls acts) = [1; 2; 3].
Proof.
  exists [1; 2; 3], (fun i => match i with O => [MLeave 1] | _ => [] end), 2.
  split; [repeat constructor; cbn; intuition lia|].
  split; [cbn; tauto|]. split; [intros [|i]; reflexivity|].
  repeat split; reflexivity.
Qed.

(* ... and closing a LATER listener: nobody who stays is skipped, but the last one is called twice *)
Example dispatch_without_copy_later_listener :
  fst (dispatch_inplace [1; 2; 3; 4] (fun i => match i with O => [MLeave 3] | _ => [] end)) = [1; 2; 4; 4].
Proof. reflexivity. Qed.

(* ------------------------------------------------------------------ joins that overlap events *)
(* replay, then attach (seeded change C13-6): an event handled during the replay never
   reaches the joiner.  Snapshot {1 -> 10}; while it is replayed key 2 is registered. *)
Theorem join_replay_then_attach_refuted :
  exists sched, jevents sched = [BPut 2 20] /\
    c_view (c_run (new_container false) (jcalls_detached sched)) = [10] /\
    c_view (c_run (new_container false) (jcalls_attached sched)) = [20; 10].
Proof. exists [JReplay 1 10; JEvent (BPut 2 20)]. repeat split; reflexivity. Qed.

(* attach, then replay OUTSIDE the lock (the code before pending/C13-join-atomic.diff): an
   event about a key of the snapshot that has not been replayed yet is overwritten by the older
   replayed value.  Snapshot {1 -> 10, 2 -> 20}; key 2 is deleted / changed to 21 while key 1 is
   replayed: the joiner keeps 20 for good (replayed on the real code by
   TestVerifC13JoinDuringEvent). *)
Theorem join_replay_overtakes_event_refuted :
  c_view (c_run (new_container false) (jcalls_attached [JReplay 1 10; JEvent (BDel 2); JReplay 2 20])) = [20; 10] /\
  fold_left bapply [BDel 2] [(1, 10); (2, 20)] = [(1, 10)] /\
  c_view (c_run (new_container false) (jcalls_attached [JReplay 1 10; JEvent (BPut 2 21); JReplay 2 20])) = [20; 10] /\
  fold_left bapply [BPut 2 21] [(1, 10); (2, 20)] = [(2, 21); (1, 10)].
Proof. repeat split; reflexivity. Qed.

(* ------------------------------------------------------------------ watcher looked up by key per event (seeded change C13-8) *)
(* etcd: put 1=10, put 2=20 (one response), delete 2.  Generation 0's goroutine is held in the
   listener call of the first event; the last subscriber closes, the key is monitored again:
   generation 1 loads {1 -> 10} (after the delete) and watches from there.  The old goroutine
   resumes with PUT 2 20: bound to its own watchValue it is harmless; looked up by key it lands
   in generation 1, whose values (and subscribers) now hold 20 although etcd does not, and no
   later event of generation 1's watch repairs it. *)
Theorem lookup_by_key_per_event_refuted :
  let gs := [[(1, 10)]; [(1, 10)]] in
  etcd_state [BPut 1 10; BPut 2 20; BDel 2] 3 = [(1, 10)] /\
  nth 1 (apply_bound 0 [BPut 2 20] gs) [] = [(1, 10)] /\
  nth 1 (apply_bykey [BPut 2 20] gs) [] = [(2, 20); (1, 10)].
Proof. repeat split; reflexivity. Qed.

(* ------------------------------------------------------------------ kube: boundary of kube_view_exact *)
(* Outside the informer discipline the handler is NOT exact (it unions on OnAdd and
   subtracts on OnDelete): an OnAdd carrying an object that has LOST an address since the
   explicit Update() of kubeBuilder.Build keeps the lost address until the next OnUpdate.
   (In kubeBuilder this needs an endpoint to vanish between the Get and the informer's
   first List; see notes/C13.md, "limits".) *)
Definition union_kadd (o : kobj) (s : kstate) : kstate :=
  let '(n, ch) := kadd_all (ips o) (kend s) false in
  let s' := mkK n (kcount s) (klast s) in if ch then knotify s' else s'.

(* Update({1,2}) (kubeBuilder.Build's explicit Get+Update), then the informer's first List
   delivers OnAdd({1}) because address 2 vanished in between: with the union the vanished
   address stays published; with "OnAdd replaces" (pending/C13-kube-onadd-replace.diff) not *)
Theorem kube_add_of_shrunk_object_refuted :
  klast (union_kadd (mkObj 2 [[1]]) (k_update (mkObj 1 [[1; 2]]) kinit)) = [1; 2] /\
  ktruth [KUpdate (mkObj 1 [[1; 2]]); KAdd (mkObj 2 [[1]])] = [1] /\
  klast (k_update (mkObj 2 [[1]]) (k_update (mkObj 1 [[1; 2]]) kinit)) = [1].
Proof. vm_compute. repeat split; reflexivity. Qed.

(* an OnUpdate whose two objects carry the same resource version is ignored even when
   the addresses differ (excluded by [kwf]: equal versions mean equal content) *)
Theorem kube_same_version_update_refuted :
  exists l, ~ kwf_run [] l /\ klast (krun kinit l) = [1] /\ ktruth l = [2].
Proof.
  exists [KAdd (mkObj 1 [[1]]); KOnUpdate (mkObj 1 [[1]]) (mkObj 1 [[2]])]. split; [|split; reflexivity].
  cbn. intros [_ [H _]]. destruct (H eq_refl 2) as [H1 _]. cbn in H1.
  destruct (H1 (or_introl eq_refl)) as [H2|[]]. discriminate.
Qed.

(* ---------------------------------------------------------------- further seeded classes, as pinned variants *)
(* Seeded change C13-3: handleWatchEvents records but does not FORWARD a PUT whose key already
   carries the same value in watchValue.values.  For an exclusive subscriber the order of
   registrations is state: put 1=10; put 2=10; put 1=10 again (key 1 is the most recent registrant
   of 10 again); delete 2 - the re-put never reaches the container, which still believes key 2
   owns 10 and drops the value although key 1 is registered with it. *)
Fixpoint forwarded_dedup (r : amap Z) (evs : list bev) : list lev :=
  match evs with
  | [] => []
  | BPut k v :: l => if oz_eqb (mget k r) (Some v) then forwarded_dedup r l
                     else LAdd k v :: forwarded_dedup (mset k v r) l
  | BDel k :: l => LDel k :: forwarded_dedup (mdel k r) l
  end.

Theorem identical_reput_not_forwarded_refuted :
  let evs := [BPut 1 10; BPut 2 10; BPut 1 10; BDel 2] in
  fold_left bapply evs [] = [(1, 10)] /\
  c_view (c_run (new_container true) (map blev evs)) = [10] /\
  c_view (c_run (new_container true) (forwarded_dedup [] evs)) = [] /\
  c_view (c_run (new_container false) (forwarded_dedup [] evs)) = [10].
Proof. vm_compute. repeat split. Qed.

(* Seeded change C13-5: exclusive addKv appends the new key to the slice `keys` read BEFORE the
   exclusive clean-up (doRemoveKey filtered it in place, the local slice header still sees the
   removed keys): the superseded keys are resurrected inside values[value] while mapping only
   knows the newest key; the value can never be emptied again. *)
Definition add_kv_stale_slice (key value : Z) (c : container) : container :=
  let c1 := match mget key (cmap c) with
            | Some old => if old =? value then c else do_remove_key key c
            | None => c
            end in
  let keys := getl value (cvals c1) in
  let c2 := if cexcl c1 && negb (is_nil keys)
            then fold_left (fun c' k => do_remove_key k c') keys c1 else c1 in
  mkC (cexcl c2) (mset value (keys ++ [key]) (cvals c2))
      (mset key value (cmap c2)) (cnotes c2) (clast c2) true (csnap c2).

Definition c_apply_stale_slice (c : container) (e : lev) : container :=
  match e with LAdd k v => notify (add_kv_stale_slice k v c) | LDel k => on_delete k c end.

Theorem exclusive_stale_slice_refuted :
  let log := [LAdd 1 10; LAdd 2 10; LDel 2; LDel 1] in
  c_view (fold_left c_apply_stale_slice log (new_container true)) = [10] /\
  c_view (c_run (new_container true) log) = [] /\
  c_view (fold_left c_apply_stale_slice log (new_container false)) = [].
Proof. vm_compute. repeat split. Qed.

(* Seeded change C13-2: the resolver's update callback skips cc.UpdateState when a tracker of the
   published addresses says nothing changed; the tracker prunes vanished addresses only when the
   view is SMALLER than the tracked set.  Views {1,2} -> {1,3} (same size: 2 stays tracked) ->
   {1,2,3} (= the bloated tracked set: judged unchanged): the resolver keeps publishing {1,3}.
   [tr]: None before the first resolve. *)
Definition tracker_refresh (tr : option (list Z)) (vals : list Z) : list Z * bool :=
  let t0 := match tr with None => [] | Some t => t end in
  let ch0 := match tr with None => true | Some _ => false end in
  let '(t1, ch1) := if Nat.ltb (length vals) (length t0)
                    then (filter (fun a => zmem a vals) t0, true) else (t0, ch0) in
  kadd_all vals t1 ch1.

Fixpoint tracked_publications (tr : option (list Z)) (lastpub : list Z) (views : list (list Z)) : list Z :=
  match views with
  | [] => lastpub
  | v :: l => let '(t, ch) := tracker_refresh tr v in
              tracked_publications (Some t) (if ch then v else lastpub) l
  end.

Theorem resolver_address_tracker_refuted :
  tracked_publications None [] [[1; 2]; [1; 3]; [1; 2; 3]] = [1; 3] /\
  tracked_publications None [] [[1; 2]; [1; 3]] = [1; 3] /\
  tracked_publications None [] [[1; 2]; [1]; [1; 2]] = [1; 2].
Proof. vm_compute. repeat split. Qed.

(* Seeded change C13-7: EventHandler.Update returns early unless "changed", where changed() counts
   address ENTRIES instead of distinct IPs: published {1,2,3,4}; the object becomes
   [[1,2] (port a); [1,2] (port b)] - 4 entries, all known: judged unchanged, 3 and 4 stay. *)
Definition k_changed_by_entries (o : kobj) (s : kstate) : bool :=
  existsb (fun ip => negb (zmem ip (kend s))) (ips o) || negb (Nat.eqb (length (ips o)) (length (kend s))).

Definition k_update_by_entries (o : kobj) (s : kstate) : kstate :=
  if k_changed_by_entries o s then k_update o s else s.

Theorem kube_entries_counted_refuted :
  let s := k_update_by_entries (mkObj 2 [[1; 2]; [1; 2]]) (k_update (mkObj 1 [[1; 2; 3; 4]]) kinit) in
  kend s = [1; 2; 3; 4] /\ klast s = [1; 2; 3; 4] /\
  kend (k_update (mkObj 2 [[1; 2]; [1; 2]]) (k_update (mkObj 1 [[1; 2; 3; 4]]) kinit)) = [1; 2].
Proof. vm_compute. repeat split. Qed.

(* Seeded change C13-10: cluster.reload starts one goroutine per watched key, but the closure reads
   the loop variable after the loop has moved on (`k := key` dropped, go 1.21 loop semantics):
   every goroutine loads and watches the LAST key; the other keys are neither snapshotted nor
   watched again.  Keys 1 and 2 as in Props.ex_reload_two_keys: key 2 (the last) is restored -
   twice -, key 1 never learns put 12=20 made during the outage: its stream position stays 1 of
   2 and its registry copy is not etcd's store. *)
Theorem reload_last_key_refuted :
  let hs := fun k => if k =? 1 then [BPut 11 10; BPut 12 20] else [BPut 21 30] in
  let snaps := fun k => if k =? 1 then [(11, 10); (12, 20)] else [(21, 30)] in
  let calls := fun k => if k =? 1 then [LAdd 12 20] else [LAdd 21 30] in
  let c := [(1, [GLoad 0 [] []; GRestart 0; GResp 0 [BPut 11 10]]); (2, [GLoad 0 [] []; GRestart 0])] in
  map (fun kd => (fst kd, final_pos_g 0 0 (snd kd), truth (map ev_of_g (snd kd)))) (reload_last_key hs snaps calls c) =
    [(1, (1%nat, 1%nat), [(11, 10)]); (2, (1%nat, 1%nat), [(21, 30)])] /\
  etcd_state (hs 1) 2 = [(12, 20); (11, 10)].
Proof. split; reflexivity. Qed.
