(* C13 — the listener set of a watcher changing WHILE the watcher dispatches a change.

   The code dispatches over a snapshot of the listener list (Model.dispatch_copy).  Whatever
   subscribers are closed or created meanwhile - re-entrantly from inside a callback or from
   another goroutine while a callback runs - every listener that was registered when the
   dispatch started is called exactly once, in particular every listener that stays; nobody
   else is called; the listener set afterwards is the set before with the changes applied.
   So at the level of "which listener received which call" a dispatch with membership changes
   in the middle IS the dispatch followed by the membership changes: that is how the
   correspondence (tools/props/c13.py, hooks of the cluster kind) renders it.

   The variant that ranges over the live slice (seeded change C13-4) is refuted: closing a
   listener that is not the last one makes the listener after the running one miss the call
   and the last listener receive it twice. *)
From Coq Require Import List ZArith Bool Lia Permutation Arith.
From GZ Require Import C13.Model.
Import ListNotations.
Open Scope Z_scope.

Lemma count_occ_nodup_in : forall (ls : list Z) l, NoDup ls -> In l ls -> count_occ Z.eq_dec ls l = 1%nat.
Proof.
  intros ls l Hn Hin. apply (proj1 (NoDup_count_occ' Z.eq_dec ls) Hn l Hin).
Qed.

(* exactly once for everybody registered at the start, never for anybody else *)
Lemma dispatch_copy_exactly_once : forall ls acts l, NoDup ls ->
  (In l ls -> count_occ Z.eq_dec (fst (dispatch_copy ls acts)) l = 1%nat) /\
  (~ In l ls -> count_occ Z.eq_dec (fst (dispatch_copy ls acts)) l = 0%nat).
Proof.
  intros ls acts l Hn. cbn [dispatch_copy fst]. split.
  - apply count_occ_nodup_in. exact Hn.
  - intros H. apply count_occ_not_In. exact H.
Qed.

(* the calls do not depend on what happens to the listener set meanwhile *)
Lemma dispatch_copy_calls_independent : forall ls acts acts',
  fst (dispatch_copy ls acts) = fst (dispatch_copy ls acts').
Proof. reflexivity. Qed.

(* membership: a listener that nobody removes stays, one that nobody adds does not appear *)
Definition leaves (l : Z) (a : mact) : bool := match a with MLeave x => x =? l | MJoin _ => false end.
Definition joins (l : Z) (a : mact) : bool := match a with MJoin x => x =? l | MLeave _ => false end.

Lemma zrem_in : forall x l ls, In l (zrem x ls) <-> In l ls /\ l <> x.
Proof.
  intros x l ls. unfold zrem. rewrite filter_In. split.
  - intros [H1 H2]. split; [exact H1|]. intros ->. rewrite Z.eqb_refl in H2. discriminate.
  - intros [H1 H2]. split; [exact H1|]. apply negb_true_iff. apply Z.eqb_neq. exact H2.
Qed.

Lemma mapply_keeps : forall a cur l, leaves l a = false -> In l cur -> In l (mapply cur a).
Proof.
  intros [x|x] cur l H Hin; cbn in *.
  - apply zrem_in. split; [exact Hin|]. intros ->. rewrite Z.eqb_refl in H. discriminate.
  - apply in_or_app. left. exact Hin.
Qed.

Lemma fold_mapply_keeps : forall al cur l, forallb (fun a => negb (leaves l a)) al = true ->
  In l cur -> In l (fold_left mapply al cur).
Proof.
  induction al as [|a al IH]; intros cur l H Hin; cbn [fold_left] in *; [exact Hin|].
  cbn in H. apply andb_true_iff in H. destruct H as [Ha Hl].
  apply IH; [exact Hl|]. apply mapply_keeps; [apply negb_true_iff in Ha; exact Ha | exact Hin].
Qed.

Lemma members_after_keeps : forall n acts ls l,
  (forall i, forallb (fun a => negb (leaves l a)) (acts i) = true) ->
  In l ls -> In l (members_after ls n acts).
Proof.
  intros n acts ls l H. unfold members_after. generalize (seq 0 n). intros idx. revert ls.
  induction idx as [|i idx IH]; intros ls Hin; cbn [fold_left]; [exact Hin|].
  apply IH. apply fold_mapply_keeps; [apply H | exact Hin].
Qed.

(* the theorem in one piece: a listener registered for the whole duration of the dispatch is
   called exactly once and is still registered afterwards, whatever joins / leaves meanwhile *)
Lemma dispatch_copy_stayers : forall ls acts l, NoDup ls -> In l ls ->
  (forall i, forallb (fun a => negb (leaves l a)) (acts i) = true) ->
  count_occ Z.eq_dec (fst (dispatch_copy ls acts)) l = 1%nat /\ In l (snd (dispatch_copy ls acts)).
Proof.
  intros ls acts l Hn Hin Hs. split.
  - apply (dispatch_copy_exactly_once ls acts l Hn). exact Hin.
  - cbn [dispatch_copy snd]. apply members_after_keeps; assumption.
Qed.

(* without membership changes the two variants coincide: the "optimisation" is only wrong
   because of Unmonitor *)
Lemma map_nth_seq : forall (ls : list Z), map (fun i => nth i ls 0) (seq 0 (length ls)) = ls.
Proof.
  induction ls as [|x ls IH]; [reflexivity|].
  cbn [length seq map nth]. f_equal.
  rewrite <- seq_shift, map_map. cbn [nth]. exact IH.
Qed.

Lemma dispatch_inplace_quiet_from : forall idx arr cur called,
  dispatch_inplace_from idx arr cur (fun _ => []) called = (called ++ map (fun i => nth i arr 0) idx, cur).
Proof.
  induction idx as [|i idx IH]; intros arr cur called; cbn [dispatch_inplace_from map fold_left].
  - rewrite app_nil_r. reflexivity.
  - rewrite IH. rewrite <- app_assoc. reflexivity.
Qed.

Lemma dispatch_inplace_quiet : forall ls, dispatch_inplace ls (fun _ => []) = dispatch_copy ls (fun _ => []).
Proof.
  intros ls. unfold dispatch_inplace, dispatch_copy. rewrite dispatch_inplace_quiet_from. cbn [app].
  rewrite map_nth_seq. f_equal. unfold members_after. generalize (seq 0 (length ls)). intros idx.
  revert ls. induction idx as [|i idx IH]; intros ls; cbn [fold_left]; [reflexivity | apply IH].
Qed.
