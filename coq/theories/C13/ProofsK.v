(* C13 — the watch loop against etcd's stream protocol: catch-up BATCHES whose header revision
   is ahead of the events delivered so far, stream errors after any batch.

   [wf_script]: what etcd guarantees (a batch carries the next mutations of the stream, its
   header is neither behind them nor ahead of the store; a snapshot is the store at its
   revision).  THEOREM (watch_loop_consistent): a loop that resumes a broken stream from the
   revision of the last load (the code) or from the last handled event produces a CONSISTENT
   delivery (ProofsG.consistent) under every such script - any batching, any headers, errors
   and compactions after any batch - so ProofsG.views_consistent applies.  A loop that resumes
   from the last HEADER revision does so only while every header equals the revision of the
   last event delivered (watch_loop_header_consistent_in_sync); Pinned.resume_from_header_refuted
   is the counterexample with one partial batch. *)
From Coq Require Import List ZArith Bool Lia Permutation Arith.
From GZ Require Import C13.Model C13.Proofs C13.ProofsB C13.ProofsC C13.ProofsF C13.ProofsG.
Import ListNotations.
Open Scope Z_scope.

Fixpoint wf_script (pol : resume) (h : list bev) (wrev pos : nat) (script : list sact) : Prop :=
  match script with
  | [] => True
  | SBatch n hd :: s =>
    (pos + n <= hd)%nat /\ (hd <= length h)%nat /\
    wf_script pol h (next_wrev pol wrev pos n hd) (pos + n) s
  | SBreak :: s => wf_script pol h wrev wrev s
  | SLoad r snap calls :: s =>
    (r <= length h)%nat /\ (forall k, mget k (snap_map snap) = mget k (etcd_state h r)) /\
    wf_script pol h r r s
  | SJoin _ _ :: s => wf_script pol h wrev pos s
  end.

(* every header is the revision of the last event delivered (the watcher is never behind) *)
Fixpoint headers_in_sync (pol : resume) (wrev pos : nat) (script : list sact) : Prop :=
  match script with
  | [] => True
  | SBatch n hd :: s => hd = (pos + n)%nat /\ headers_in_sync pol (next_wrev pol wrev pos n hd) (pos + n) s
  | SBreak :: s => headers_in_sync pol wrev wrev s
  | SLoad r _ _ :: s => headers_in_sync pol r r s
  | SJoin _ _ :: s => headers_in_sync pol wrev pos s
  end.

Lemma seg_length : forall (h : list bev) a n, (a + n <= length h)%nat -> length (seg a (a + n) h) = n.
Proof.
  intros h a n H. unfold seg. rewrite skipn_length, firstn_length. lia.
Qed.

(* the resume point never runs ahead of the stream *)
Definition resumes_behind (pol : resume) (script : list sact) (wrev pos : nat) : Prop :=
  pol <> RHeader \/ headers_in_sync pol wrev pos script.

Lemma watch_loop_consistent_gen : forall pol h script wrev pos hi,
  (wrev <= pos)%nat ->
  wf_script pol h wrev pos script ->
  resumes_behind pol script wrev pos ->
  consistent h pos hi (watch_loop pol h wrev pos script).
Proof.
  intros pol h script. induction script as [|a s IH]; intros wrev pos hi Hw Hwf Hb; cbn [watch_loop consistent]; [exact I|].
  destruct a as [n hd| |r snap calls|x order]; cbn [wf_script] in Hwf; cbn [watch_loop consistent].
  - destruct Hwf as [H1 [H2 Hwf]].
    assert (Hn : (pos + n <= length h)%nat) by lia.
    rewrite (seg_length h pos n Hn).
    split; [reflexivity|]. split; [exact Hn|]. split; [reflexivity|].
    apply IH; [|exact Hwf|].
    + destruct pol; cbn [next_wrev].
      * lia.
      * destruct (Nat.eqb n 0); lia.
      * destruct Hb as [Hb|Hb]; [congruence|]. cbn [headers_in_sync] in Hb. destruct Hb as [-> _]. lia.
    + destruct Hb as [Hb|Hb]; [left; exact Hb|]. right. cbn [headers_in_sync] in Hb. exact (proj2 Hb).
  - split; [exact Hw|]. apply IH; [lia|exact Hwf|].
    destruct Hb as [Hb|Hb]; [left; exact Hb|right; exact Hb].
  - destruct Hwf as [H1 [H2 Hwf]]. split; [exact H1|]. split; [exact H2|].
    split; [lia|]. apply IH; [lia|exact Hwf|].
    destruct Hb as [Hb|Hb]; [left; exact Hb|right; exact Hb].
  - apply IH; [exact Hw|exact Hwf|].
    destruct Hb as [Hb|Hb]; [left; exact Hb|right; exact Hb].
Qed.

(* the code (RLoadRev) and the last-event variant: every batching, every header, errors and
   compactions after any batch *)
Lemma watch_loop_consistent : forall pol h script,
  pol <> RHeader -> wf_script pol h 0 0 script ->
  consistent h 0 0 (watch_loop pol h 0 0 script).
Proof.
  intros pol h script Hp Hwf. apply watch_loop_consistent_gen; [lia|exact Hwf|left; exact Hp].
Qed.

(* resuming from the header revision is invisible as long as the watcher is never behind *)
Lemma watch_loop_header_consistent_in_sync : forall h script,
  wf_script RHeader h 0 0 script -> headers_in_sync RHeader 0 0 script ->
  consistent h 0 0 (watch_loop RHeader h 0 0 script).
Proof.
  intros h script Hwf Hs. apply watch_loop_consistent_gen; [lia|exact Hwf|right; exact Hs].
Qed.

(* hence: whenever the stream has caught up, every subscriber shows the registrations *)
Lemma watch_loop_views : forall pol h script xs c,
  pol <> RHeader -> wf_script pol h 0 0 script ->
  let ds := watch_loop pol h 0 0 script in
  wf_run (init xs) (map ev_of_g ds) ->
  In c (conts (run (init xs) (map ev_of_g ds))) ->
  fst (final_pos_g 0 0 ds) = snd (final_pos_g 0 0 ds) ->
  let now := etcd_state h (snd (final_pos_g 0 0 ds)) in
  NoDup (c_values c) /\
  (cexcl c = false -> forall v, In v (c_values c) <-> registered now v) /\
  (cexcl c = true -> forall v, In v (c_values c) -> registered now v).
Proof.
  intros pol h script xs c Hp Hwf ds W Hin Heq.
  apply (views_consistent h ds xs c); try assumption.
  apply watch_loop_consistent; assumption.
Qed.

(* the registry's copy while a replay is still under way (statement of Props.registry_copy_while_replaying) *)
Lemma rvals_consistent_lagging : forall h ds xs,
  consistent h 0 0 ds ->
  let pos := fst (final_pos_g 0 0 ds) in
  let hi := snd (final_pos_g 0 0 ds) in
  (pos <= hi)%nat /\
  forall k, mget k (fold_left bapply (seg pos hi h) (rvals (run (init xs) (map ev_of_g ds)))) =
            mget k (etcd_state h hi).
Proof. intros h ds xs H. rewrite rvals_truth. exact (truth_consistent_lagging h ds H). Qed.
