(* C13 — the declarative "live value" characterisation of a container's view, and the
   registry: handleWatchEvents / handleChanges / Monitor keep every listener tied to the
   registrations, for every allowed order of the calls. *)
From Coq Require Import List ZArith Bool Lia Permutation.
From GZ Require Import C13.Model C13.Proofs.
Import ListNotations.
Open Scope Z_scope.

(* ------------------------------------------------------------------ live values *)
(* the call [e] leaves the registration "k has v" alone *)
Definition quiet (x : bool) (k v : Z) (e : lev) : Prop :=
  touches k e = false /\ (x = true -> adds_val v e = false).

(* v is live after the calls [log]: some key k registered v, and since then k was
   neither deleted nor registered again, and (exclusive) nobody registered v again *)
Definition live (x : bool) (log : list lev) (v : Z) : Prop :=
  exists l1 k l2, log = l1 ++ LAdd k v :: l2 /\ Forall (quiet x k v) l2.

Lemma sp_fold_nodup : forall x l m, NoDup (mkeys m) -> NoDup (mkeys (fold_left (sp_apply x) l m)).
Proof.
  induction l as [|e l IH]; intros m H; cbn -[sp_apply]; [exact H|].
  apply IH. apply sp_apply_nodup. exact H.
Qed.

Lemma sp_run_snoc : forall x l e, sp_run x (l ++ [e]) = sp_apply x (sp_run x l) e.
Proof. intros. unfold sp_run. rewrite fold_left_app. reflexivity. Qed.

Lemma sp_run_bound : forall x log k v,
  mget k (sp_run x log) = Some v <->
  exists l1 l2, log = l1 ++ LAdd k v :: l2 /\ Forall (quiet x k v) l2.
Proof.
  intros x log. induction log as [|e log IH] using rev_ind; intros k v.
  - cbn. split; [discriminate|]. intros [l1 [l2 [H _]]]. destruct l1; discriminate.
  - rewrite sp_run_snoc.
    assert (Hd : NoDup (mkeys (sp_run x log))) by (apply sp_fold_nodup; constructor).
    rewrite sp_apply_get by exact Hd. split.
    + intros H. destruct e as [k' v'|k'].
      * destruct (k' =? k) eqn:Ek.
        { apply Z.eqb_eq in Ek. inversion H; subst. exists log, []. split; [reflexivity | constructor]. }
        destruct (x && oz_eqb (mget k (sp_run x log)) (Some v')) eqn:Ex; [discriminate|].
        destruct (proj1 (IH k v) H) as [l1 [l2 [Hl Hq]]].
        exists l1, (l2 ++ [LAdd k' v']). split; [subst log; rewrite <- app_assoc; reflexivity|].
        apply Forall_app. split; [exact Hq|]. constructor; [|constructor].
        split; [exact Ek|]. intros Hx. subst x. cbn in Ex. rewrite H in Ex. cbn in Ex.
        cbn. rewrite Z.eqb_sym. exact Ex.
      * destruct (k' =? k) eqn:Ek; [discriminate|].
        destruct (proj1 (IH k v) H) as [l1 [l2 [Hl Hq]]].
        exists l1, (l2 ++ [LDel k']). split; [subst log; rewrite <- app_assoc; reflexivity|].
        apply Forall_app. split; [exact Hq|]. constructor; [|constructor].
        split; [exact Ek | reflexivity].
    + intros [l1 [l2 [Hl Hq]]].
      destruct l2 as [|e2 l2'] using rev_ind.
      * apply app_inj_tail in Hl. destruct Hl as [_ He]. subst e. rewrite Z.eqb_refl. reflexivity.
      * clear IHl2'. rewrite app_comm_cons, app_assoc in Hl. apply app_inj_tail in Hl.
        destruct Hl as [Hlog He]. subst e2.
        apply Forall_app in Hq. destruct Hq as [Hq He]. inversion He as [|? ? [Ht Ha] _]; subst.
        assert (Hm : mget k (sp_run x (l1 ++ LAdd k v :: l2')) = Some v).
        { apply IH. exists l1, l2'. split; [reflexivity | exact Hq]. }
        destruct e as [k' v'|k']; cbn in Ht; rewrite Ht.
        { destruct x; cbn; [|exact Hm]. rewrite Hm. cbn. cbn in Ha.
          rewrite Z.eqb_sym, (Ha eq_refl). reflexivity. }
        exact Hm.
Qed.

Lemma container_view_live_values : forall x log v,
  In v (c_view (c_run (new_container x) log)) <-> live x log v.
Proof.
  intros x log v.
  pose proof (refines_run log _ _ (refines_new x)) as R. cbn [cexcl new_container] in R.
  rewrite (refines_view _ _ v R). fold (sp_run x log). unfold live. split.
  - intros [k H]. apply sp_run_bound in H. destruct H as [l1 [l2 H]]. exists l1, k, l2. exact H.
  - intros [l1 [k [l2 H]]]. exists k. apply sp_run_bound. exists l1, l2. exact H.
Qed.

(* ------------------------------------------------------------------ applying a batch of calls *)
Definition untouched (k : Z) (l : list lev) : Prop := forall e, In e l -> touches k e = false.

Lemma fold_untouched : forall l m k, NoDup (mkeys m) -> untouched k l ->
  mget k (fold_left (sp_apply false) l m) = mget k m.
Proof.
  induction l as [|e l IH]; intros m k Hd Hu; cbn -[sp_apply]; [reflexivity|].
  rewrite IH.
  - rewrite sp_apply_get by exact Hd. pose proof (Hu e (or_introl eq_refl)) as Ht.
    destruct e as [k' v'|k']; cbn in Ht; rewrite Ht; reflexivity.
  - apply sp_apply_nodup. exact Hd.
  - intros e' Hin. apply Hu. right. exact Hin.
Qed.

(* soundness, both modes: a binding present at the end was registered by one of the
   calls, or was there before and no call concerned the key *)
Lemma fold_sound : forall x l m k v, NoDup (mkeys m) ->
  mget k (fold_left (sp_apply x) l m) = Some v ->
  In (LAdd k v) l \/ (mget k m = Some v /\ untouched k l).
Proof.
  induction l as [|e l IH]; intros m k v Hd H; cbn -[sp_apply] in H.
  - right. split; [exact H | intros e []].
  - destruct (IH _ k v (sp_apply_nodup x m e Hd) H) as [Hin|[Hm Hu]]; [left; right; exact Hin|].
    rewrite sp_apply_get in Hm by exact Hd.
    destruct e as [k' v'|k'].
    + destruct (k' =? k) eqn:Ek.
      * apply Z.eqb_eq in Ek. inversion Hm; subst. left. left. reflexivity.
      * destruct (x && oz_eqb (mget k m) (Some v')); [discriminate|].
        right. split; [exact Hm|]. intros e [He|Hin]; [subst e; exact Ek | apply Hu; exact Hin].
    + destruct (k' =? k) eqn:Ek; [discriminate|].
      right. split; [exact Hm|]. intros e [He|Hin]; [subst e; exact Ek | apply Hu; exact Hin].
Qed.

(* completeness, non-exclusive *)
Lemma fold_add : forall l m k v, NoDup (mkeys m) ->
  (In (LAdd k v) l \/ mget k m = Some v) ->
  (forall e, In e l -> touches k e = true -> e = LAdd k v) ->
  mget k (fold_left (sp_apply false) l m) = Some v.
Proof.
  induction l as [|e l IH]; intros m k v Hd Hor Hall; cbn -[sp_apply].
  - destruct Hor as [[]|H]. exact H.
  - apply IH.
    + apply sp_apply_nodup. exact Hd.
    + rewrite sp_apply_get by exact Hd.
      destruct (touches k e) eqn:Et.
      * rewrite (Hall e (or_introl eq_refl) Et). rewrite Z.eqb_refl. right. reflexivity.
      * destruct Hor as [[He|Hin]|Hm].
        { subst e. cbn in Et. rewrite Z.eqb_refl in Et. discriminate. }
        { left. exact Hin. }
        right. destruct e as [k' v'|k']; cbn in Et; rewrite Et; exact Hm.
    + intros e' Hin. apply Hall. right. exact Hin.
Qed.

Lemma fold_del : forall l m k, NoDup (mkeys m) ->
  (In (LDel k) l \/ mget k m = None) ->
  (forall e, In e l -> touches k e = true -> e = LDel k) ->
  mget k (fold_left (sp_apply false) l m) = None.
Proof.
  induction l as [|e l IH]; intros m k Hd Hor Hall; cbn -[sp_apply].
  - destruct Hor as [[]|H]. exact H.
  - apply IH.
    + apply sp_apply_nodup. exact Hd.
    + rewrite sp_apply_get by exact Hd.
      destruct (touches k e) eqn:Et.
      * rewrite (Hall e (or_introl eq_refl) Et). rewrite Z.eqb_refl. right. reflexivity.
      * destruct Hor as [[He|Hin]|Hm].
        { subst e. cbn in Et. rewrite Z.eqb_refl in Et. discriminate. }
        { left. exact Hin. }
        right. destruct e as [k' v'|k']; cbn in Et; rewrite Et; exact Hm.
    + intros e' Hin. apply Hall. right. exact Hin.
Qed.

(* ------------------------------------------------------------------ calculateChanges *)
Lemma snap_fold_nodup : forall (snap : list (Z * Z)) (m : amap Z), NoDup (mkeys m) ->
  NoDup (mkeys (fold_left (fun (m : amap Z) kv => mset (fst kv) (snd kv) m) snap m)).
Proof.
  induction snap as [|kv snap IH]; intros m H; cbn -[mset]; [exact H|].
  apply IH. apply nodup_mset. exact H.
Qed.

Lemma snap_map_nodup : forall snap, NoDup (mkeys (snap_map snap)).
Proof. intros. apply snap_fold_nodup. constructor. Qed.

Lemma oz_eqb_false : forall a v, oz_eqb a (Some v) = false <-> a <> Some v.
Proof.
  intros a v. rewrite <- oz_eqb_spec. destruct (oz_eqb a (Some v)); split; congruence.
Qed.

Lemma calc_add_in : forall old new k v, NoDup (mkeys new) ->
  (In (k, v) (calc_add old new) <-> mget k new = Some v /\ mget k old <> Some v).
Proof.
  intros old new k v Hd. unfold calc_add. rewrite filter_In. cbn [fst snd].
  rewrite negb_true_iff, oz_eqb_false. split.
  - intros [Hin Hn]. split; [apply in_mget; assumption | exact Hn].
  - intros [Hm Hn]. split; [apply mget_in; exact Hm | exact Hn].
Qed.

Lemma calc_rem_in : forall old new k, NoDup (mkeys old) ->
  (In k (calc_rem old new) <-> mget k old <> None /\ mget k new = None).
Proof.
  intros old new k Hd. unfold calc_rem. rewrite in_map_iff. split.
  - intros [[k' v] [Hk Hin]]. cbn in Hk. subst k'. apply filter_In in Hin. cbn [fst] in Hin.
    destruct Hin as [Hin Hn]. split.
    + rewrite (in_mget old k v Hd Hin). discriminate.
    + destruct (mget k new); [discriminate | reflexivity].
  - intros [Ho Hn]. destruct (mget k old) as [v|] eqn:E; [|congruence].
    exists (k, v). split; [reflexivity|]. apply filter_In. cbn [fst]. rewrite Hn.
    split; [apply mget_in; exact E | reflexivity].
Qed.

(* ------------------------------------------------------------------ well-formed histories *)
(* the oracles are allowed choices: the calls of a reload are the computed adds and the
   computed removes in ANY order and interleaving; a joining listener is replayed
   the current values in some order *)
Definition wf_ev (s : sys) (e : ev) : Prop :=
  match e with
  | EReload snap calls =>
    Permutation calls (ladds (calc_add (rvals s) (snap_map snap)) ++
                       ldels (calc_rem (rvals s) (snap_map snap)))
  | EJoin _ order => Permutation order (rvals s)
  | _ => True
  end.

Fixpoint wf_run (s : sys) (l : list ev) : Prop :=
  match l with
  | [] => True
  | e :: l' => wf_ev s e /\ wf_run (step s e) l'
  end.

Lemma wf_run_app : forall l1 l2 s, wf_run s (l1 ++ l2) <-> wf_run s l1 /\ wf_run (run s l1) l2.
Proof.
  induction l1 as [|e l1 IH]; intros l2 s; cbn.
  - tauto.
  - rewrite IH. tauto.
Qed.

(* how a listener's key->value relation is tied to the registry's *)
Definition tied (x : bool) (m r : amap Z) : Prop :=
  if x then forall k v, mget k m = Some v -> mget k r = Some v
  else forall k, mget k m = mget k r.

Definition cont_ok (r : amap Z) (c : container) : Prop :=
  exists m, refines c m /\ tied (cexcl c) m r.

Definition sys_inv (s : sys) : Prop :=
  NoDup (mkeys (rvals s)) /\ Forall (cont_ok (rvals s)) (conts s).

Lemma in_ladds : forall l k v, In (LAdd k v) (ladds l) <-> In (k, v) l.
Proof.
  intros l k v. unfold ladds. rewrite in_map_iff. split.
  - intros [[k' v'] [He Hin]]. cbn in He. inversion He; subst. exact Hin.
  - intros H. exists (k, v). split; [reflexivity | exact H].
Qed.

Lemma in_ldels : forall l k, In (LDel k) (ldels l) <-> In k l.
Proof.
  intros l k. unfold ldels. rewrite in_map_iff. split.
  - intros [k' [He Hin]]. inversion He; subst. exact Hin.
  - intros H. exists k. split; [reflexivity | exact H].
Qed.

Lemma ladds_no_del : forall l k, ~ In (LDel k) (ladds l).
Proof. intros l k H. unfold ladds in H. apply in_map_iff in H. destruct H as [? [He _]]. discriminate. Qed.

Lemma ldels_no_add : forall l k v, ~ In (LAdd k v) (ldels l).
Proof. intros l k v H. unfold ldels in H. apply in_map_iff in H. destruct H as [? [He _]]. discriminate. Qed.

Lemma touches_cases : forall k e, touches k e = true -> (exists v, e = LAdd k v) \/ e = LDel k.
Proof.
  intros k [k' v|k'] H; cbn in H; apply Z.eqb_eq in H; subst; [left; exists v|right]; reflexivity.
Qed.

Lemma not_touched : forall k l, (forall e, In e l -> touches k e = true -> False) -> untouched k l.
Proof.
  intros k l H e Hin. destruct (touches k e) eqn:Et; [exfalso; eapply H; eauto | reflexivity].
Qed.

Lemma option_eq_dec_Z : forall a b : option Z, {a = b} + {a <> b}.
Proof. decide equality. apply Z.eq_dec. Qed.

(* one listener through one batch of calls that realises "old -> new": every add is a
   binding of new, every new or changed binding is added, every delete is of a key
   absent from new, every vanished key is deleted *)
Lemma batch_tied : forall x c m old new l,
  refines c m -> cexcl c = x -> tied x m old ->
  (forall k v, In (LAdd k v) l -> mget k new = Some v) ->
  (forall k v, mget k new = Some v -> mget k old <> Some v -> In (LAdd k v) l) ->
  (forall k, In (LDel k) l -> mget k new = None) ->
  (forall k, mget k old <> None -> mget k new = None -> In (LDel k) l) ->
  cont_ok new (c_run c l).
Proof.
  intros x c m old new l R Hx Ht A1 A2 D1 D2.
  exists (fold_left (sp_apply (cexcl c)) l m). split; [apply refines_run; exact R|].
  rewrite c_run_excl, Hx. destruct R as [I Hdm Hm].
  destruct x; unfold tied in *.
  - (* exclusive: no stale binding *)
    intros k v H. apply fold_sound in H; [|exact Hdm].
    destruct H as [Hin|[Hmk Hu]]; [apply A1; exact Hin|].
    pose proof (Ht k v Hmk) as Hold.
    destruct (mget k new) as [v'|] eqn:En.
    + destruct (Z.eq_dec v' v) as [->|Hne]; [reflexivity|].
      assert (Hin : In (LAdd k v') l) by (apply A2; [exact En | congruence]).
      apply Hu in Hin. cbn in Hin. rewrite Z.eqb_refl in Hin. discriminate.
    + assert (Hin : In (LDel k) l) by (apply D2; [congruence | exact En]).
      apply Hu in Hin. cbn in Hin. rewrite Z.eqb_refl in Hin. discriminate.
  - (* non-exclusive: exactly the new relation *)
    intros k. destruct (mget k new) as [v|] eqn:En.
    + apply fold_add; [exact Hdm | |].
      * destruct (option_eq_dec_Z (mget k old) (Some v)) as [Ho|Ho].
        { right. rewrite Ht. exact Ho. }
        { left. apply A2; assumption. }
      * intros e Hin Htc. apply touches_cases in Htc. destruct Htc as [[v' ->]| ->].
        { apply A1 in Hin. congruence. }
        { apply D1 in Hin. congruence. }
    + apply fold_del; [exact Hdm | |].
      * destruct (mget k old) as [vo|] eqn:Eo.
        { left. apply D2; [congruence | exact En]. }
        { right. rewrite Ht. exact Eo. }
      * intros e Hin Htc. apply touches_cases in Htc. destruct Htc as [[v' ->]| ->]; [|reflexivity].
        apply A1 in Hin. congruence.
Qed.
