(* C13 — the executable judgement of the correspondence run (Check.prop_thread, used by
   prop_ok on what the REAL cluster showed at a quiescent point) is sound against the
   model-level statement of the property:

   if, at a quiescent point at which etcd is not withholding deliveries, the judgement accepts
   a subscriber's observation (Values() = vals, notifications = notes) against the truth [t]
   implied by the deliveries, and [t] passes the comparison with etcd's store after n mutations,
   then vals is within the values registered in etcd NOW, is exactly that set for a
   non-exclusive subscriber, a changed view was notified, and the last notification carried
   the final view. *)
From Coq Require Import List ZArith Bool Lia Permutation Arith.
From GZ Require Import Lib.CheckLib C13.Check C13.Proofs C13.ProofsB C13.ProofsC C13.ProofsF C13.ProofsG.
Import ListNotations.
Open Scope Z_scope.

Lemma zs_eqb_eq : forall a b, zs_eqb a b = true -> a = b.
Proof.
  unfold zs_eqb. induction a as [|x a IH]; intros [|y b] H; cbn in H; try discriminate; [reflexivity|].
  apply andb_true_iff in H. destruct H as [Hx Hl]. apply Z.eqb_eq in Hx. subst. f_equal. apply IH. exact Hl.
Qed.

Lemma insert_z_in : forall l x y, In x (insert_z y l) <-> x = y \/ In x l.
Proof.
  induction l as [|a l IH]; intros x y; cbn [insert_z].
  - cbn. intuition.
  - destruct (y <=? a); cbn [In]; [intuition|]. rewrite IH. intuition.
Qed.

Lemma sort_z_in : forall l x, In x (sort_z l) <-> In x l.
Proof.
  unfold sort_z. induction l as [|a l IH]; intros x; cbn [fold_right In]; [reflexivity|].
  rewrite insert_z_in, IH. intuition.
Qed.

Lemma dedup_sorted_in : forall l x, In x (dedup_sorted l) <-> In x l.
Proof.
  induction l as [|a l IH]; intros x; [reflexivity|].
  destruct l as [|y l2]; [reflexivity|].
  change (dedup_sorted (a :: y :: l2)) with (if a =? y then dedup_sorted (y :: l2) else a :: dedup_sorted (y :: l2)).
  destruct (a =? y) eqn:E.
  - apply Z.eqb_eq in E. subst. rewrite IH. cbn [In]. intuition.
  - cbn [In]. rewrite IH. cbn [In]. intuition.
Qed.

Lemma canon_set_in : forall l x, In x (canon_set l) <-> In x l.
Proof. intros l x. unfold canon_set. rewrite dedup_sorted_in, sort_z_in. reflexivity. Qed.

Lemma vals_of_registered : forall t v, NoDup (mkeys t) -> (In v (vals_of t) <-> registered t v).
Proof.
  intros t v N. unfold vals_of. rewrite canon_set_in, in_map_iff. unfold registered. split.
  - intros [[k v'] [E Hin]]. cbn in E. subst. exists k. apply in_mget; assumption.
  - intros [k Hk]. exists (k, v). split; [reflexivity|]. apply mget_in. exact Hk.
Qed.

(* what Check.prop_thread demands of one subscriber at a quiescent point with lag = false *)
Lemma obs_judgement_sound : forall h n t x m prev x' m' pv vals notes,
  NoDup (mkeys t) ->
  amap_eqb t (etcd_state h n) = true ->
  Check.cont_ok (x, m, prev) (x', m', pv) (vals_of t) (vals, notes) = true ->
  let now := etcd_state h n in
  (forall v, In v vals -> registered now v) /\
  (x = false -> forall v, In v vals <-> registered now v) /\
  (vals <> prev -> notes <> []) /\
  (notes <> [] -> last notes [] = vals).
Proof.
  intros h n t x m prev x' m' pv vals notes N Heq Hok. cbn zeta.
  pose proof (amap_eqb_sound _ _ Heq) as Hp.
  unfold Check.cont_ok in Hok.
  apply andb_true_iff in Hok. destruct Hok as [Hok D].
  apply andb_true_iff in Hok. destruct Hok as [Hok C].
  apply andb_true_iff in Hok. destruct Hok as [A B].
  rewrite forallb_forall in B.
  assert (W : forall v, In v vals -> registered (etcd_state h n) v).
  { intros v Hv. apply (registered_pointwise _ _ v Hp). apply vals_of_registered; [exact N|].
    apply zmem_in. apply B. exact Hv. }
  split; [exact W|]. split; [|split].
  - intros -> v. split; [apply W|]. intros Hr.
    apply zs_eqb_eq in A. subst vals. apply vals_of_registered; [exact N|].
    apply (registered_pointwise _ _ v (fun k => eq_sym (Hp k))). exact Hr.
  - intros Hne Hnil. subst notes. cbn in C. rewrite orb_false_r in C. apply zs_eqb_eq in C. contradiction.
  - intros Hne. destruct notes as [|a notes']; [contradiction|]. cbn [is_nil orb] in D. apply zs_eqb_eq in D. exact D.
Qed.

(* the truth the judgement compares with has distinct keys, whatever was delivered *)
Lemma truth_fold_nodup : forall evs t, NoDup (mkeys t) -> NoDup (mkeys (fold_left truth_step evs t)).
Proof.
  induction evs as [|e evs IH]; intros t N; cbn [fold_left]; [exact N|].
  apply IH. apply truth_step_nodup. exact N.
Qed.

Lemma conts_ok_nth : forall old new tv os, conts_ok old new tv os = true ->
  forall i a b o, nth_error old i = Some a -> nth_error new i = Some b -> nth_error os i = Some o ->
  Check.cont_ok a b tv o = true.
Proof.
  induction old as [|a0 old IH]; intros [|b0 new] tv [|o0 os] H i a b o Ha Hb Ho; cbn in H; try discriminate;
    try (destruct i; discriminate).
  apply andb_true_iff in H. destruct H as [H0 H1].
  destruct i as [|i]; cbn in Ha, Hb, Ho.
  - inversion Ha; inversion Hb; inversion Ho; subst. exact H0.
  - eapply IH; eauto.
Qed.

(* Check.prop_thread at a quiescent point at which etcd is not withholding deliveries: for the
   i-th subscriber of the watcher ([prev] / [tr]: the judgement's record of it at the previous
   point and now) *)
Lemma prop_thread_observation_sound : forall h t tr prev n rv cs l i x m pv x' m' pv' vals notes,
  NoDup (mkeys t) ->
  prop_thread h t tr prev (WObs n false rv cs :: l) = true ->
  nth_error prev i = Some (x, m, pv) -> nth_error tr i = Some (x', m', pv') ->
  nth_error cs i = Some (vals, notes) ->
  let now := etcd_state h n in
  (forall k, mget k t = mget k now) /\
  (forall v, In v vals -> registered now v) /\
  (x = false -> forall v, In v vals <-> registered now v) /\
  (vals <> pv -> notes <> []) /\
  (notes <> [] -> last notes [] = vals).
Proof.
  intros h t tr prev n rv cs l i x m pv x' m' pv' vals notes N H Hp Ht Hc. cbn zeta.
  cbn [prop_thread orb] in H.
  apply andb_true_iff in H. destruct H as [H _].
  apply andb_true_iff in H. destruct H as [H Hcs].
  apply andb_true_iff in H. destruct H as [_ Heq].
  split; [apply amap_eqb_sound; exact Heq|].
  apply (obs_judgement_sound h n t x m pv x' m' pv' vals notes N Heq).
  exact (conts_ok_nth _ _ _ _ Hcs i _ _ _ Hp Ht Hc).
Qed.

(* ------------------------------------------------------------------ exclusive subscribers *)
(* the judgement's record of a subscriber is the key -> value relation implied by the calls it
   must have received ([sp_run]); its values are exactly the LIVE values of that call log -
   "only the most recently registered key of each value counts" *)
Lemma vals_of_sp_run_live : forall x log v, In v (vals_of (sp_run x log)) <-> live x log v.
Proof.
  intros x log v. rewrite vals_of_registered by (apply sp_fold_nodup; constructor).
  unfold registered, live. split.
  - intros [k H]. apply sp_run_bound in H. destruct H as [l1 [l2 H]]. exists l1, k, l2. exact H.
  - intros [l1 [k [l2 H]]]. exists k. apply sp_run_bound. exists l1, l2. exact H.
Qed.

Lemma track_step_log : forall x log pv lv,
  track_step lv (x, sp_run x log, pv) = (x, sp_run x (log ++ lv), vals_of (sp_run x (log ++ lv))).
Proof. intros x log pv lv. unfold track_step, sp_run. rewrite fold_left_app. reflexivity. Qed.

Lemma exclusive_judgement_sound : forall m prev log pv tv vals notes,
  Check.cont_ok (true, m, prev) (true, sp_run true log, pv) tv (vals, notes) = true ->
  forall v, In v vals <-> live true log v.
Proof.
  intros m prev log pv tv vals notes H v. unfold Check.cont_ok in H.
  apply andb_true_iff in H. destruct H as [H _].
  apply andb_true_iff in H. destruct H as [H _].
  apply andb_true_iff in H. destruct H as [A _].
  apply zs_eqb_eq in A. subst vals. apply vals_of_sp_run_live.
Qed.

(* ------------------------------------------------------------------ the resolver's judgement *)
Lemma insert_z_perm : forall l x, Permutation (insert_z x l) (x :: l).
Proof.
  induction l as [|a l IH]; intros x; cbn [insert_z]; [apply Permutation_refl|].
  destruct (x <=? a); [apply Permutation_refl|].
  eapply Permutation_trans; [apply perm_skip; apply IH|apply perm_swap].
Qed.

Lemma sort_z_perm : forall l, Permutation (sort_z l) l.
Proof.
  unfold sort_z. induction l as [|a l IH]; cbn [fold_right]; [apply perm_nil|].
  eapply Permutation_trans; [apply insert_z_perm|apply perm_skip; exact IH].
Qed.

Lemma perm_b_sound : forall a b, perm_b a b = true -> Permutation a b.
Proof.
  intros a b H. unfold perm_b in H. apply zs_eqb_eq in H.
  eapply Permutation_trans; [apply Permutation_sym; apply sort_z_perm|].
  rewrite H. apply sort_z_perm.
Qed.

Lemma remove_one_perm : forall l x r, remove_one x l = Some r -> Permutation l (x :: r).
Proof.
  induction l as [|y l IH]; intros x r H; cbn [remove_one] in H; [discriminate|].
  destruct (x =? y) eqn:E.
  - apply Z.eqb_eq in E. inversion H; subst. apply Permutation_refl.
  - destruct (remove_one x l) as [r'|] eqn:R; [|discriminate]. inversion H; subst.
    eapply Permutation_trans; [apply perm_skip; apply (IH x r' R)|apply perm_swap].
Qed.

Lemma msub_perm : forall pub view r, msub view pub = Some r -> Permutation view (pub ++ r).
Proof.
  induction pub as [|x pub IH]; intros view r H; cbn [msub] in H.
  - inversion H; subst. apply Permutation_refl.
  - destruct (remove_one x view) as [v'|] eqn:R; [|discriminate].
    eapply Permutation_trans; [apply (remove_one_perm _ _ _ R)|].
    cbn [app]. apply perm_skip. apply IH. exact H.
Qed.

(* Check.pub_ok, the statement about a published address list with the property's own 32: a
   permutation of the view when it has at most 32 values, else 32 of its values (a sub-multiset) *)
Lemma pub_ok_sound : forall pub vals, pub_ok pub vals = true ->
  (Z.of_nat (length vals) <= 32 -> Permutation pub vals) /\
  (32 < Z.of_nat (length vals) -> Z.of_nat (length pub) = 32 /\ exists rest, Permutation vals (pub ++ rest)).
Proof.
  intros pub vals H. unfold pub_ok in H. destruct (Z.of_nat (length vals) <=? 32) eqn:E.
  - apply Z.leb_le in E. split; [intros _; apply perm_b_sound; exact H | intros Hgt; lia].
  - apply Z.leb_gt in E. split; [intros Hle; lia|]. intros _.
    apply andb_true_iff in H. destruct H as [Hl Hm]. apply Z.eqb_eq in Hl. split; [exact Hl|].
    destruct (msub vals pub) as [rest|] eqn:M; [|discriminate]. exists rest. apply msub_perm. exact M.
Qed.

(* with the truth [t] of the event history: what Check.prop_resolver accepts as the most recent
   publication consists of registered values, and of all of them when there are at most 32 *)
Lemma resolver_judgement_sound : forall pub t, NoDup (mkeys t) ->
  pub_ok pub (vals_of t) = true ->
  (forall a, In a pub -> registered t a) /\
  (Z.of_nat (length (vals_of t)) <= 32 -> forall a, registered t a -> In a pub) /\
  (32 < Z.of_nat (length (vals_of t)) -> Z.of_nat (length pub) = 32).
Proof.
  intros pub t N H. destruct (pub_ok_sound _ _ H) as [A B].
  destruct (Z_le_gt_dec (Z.of_nat (length (vals_of t))) 32) as [Hle|Hgt].
  - pose proof (A Hle) as P. split; [|split].
    + intros a Ha. apply vals_of_registered; [exact N|]. eapply Permutation_in; [exact P|exact Ha].
    + intros _ a Ha. eapply Permutation_in; [apply Permutation_sym; exact P|]. apply vals_of_registered; assumption.
    + intros Hgt. lia.
  - assert (Hgt' : 32 < Z.of_nat (length (vals_of t))) by lia.
    destruct (B Hgt') as [Hl [rest P]]. split; [|split].
    + intros a Ha. apply vals_of_registered; [exact N|].
      eapply Permutation_in; [apply Permutation_sym; exact P|]. apply in_or_app. left. exact Ha.
    + intros Hle. lia.
    + intros _. exact Hl.
Qed.

(* ------------------------------------------------------------------ the kube judgement *)
(* one accepted step of Check.prop_kube inside the event alphabet: the most recent publication
   and h.endpoints are exactly the current addresses, a changed address set was published *)
Lemma kube_step_judgement_sound : forall t lastpub e pubs eps evs' obs',
  prop_kube t lastpub (e :: evs') ((pubs, eps) :: obs') = true -> kwf_b t e = true ->
  let t' := ktruth_step t e in
  let lp := last pubs lastpub in
  (forall ip, In ip lp <-> In ip t') /\
  (forall ip, In ip eps <-> In ip t') /\
  ((exists ip, ~ (In ip t <-> In ip t')) -> pubs <> []) /\
  prop_kube t' lp evs' obs' = true.
Proof.
  intros t lastpub e pubs eps evs' obs' H W. cbn zeta. cbn [prop_kube] in H. rewrite W in H.
  apply andb_true_iff in H. destruct H as [H R].
  apply andb_true_iff in H. destruct H as [H C].
  apply andb_true_iff in H. destruct H as [H E].
  apply andb_true_iff in H. destruct H as [A _].
  apply zs_eqb_eq in A. apply zs_eqb_eq in E.
  split; [|split; [|split; [|exact R]]].
  - intros ip. rewrite <- (canon_set_in (last pubs lastpub)), A, canon_set_in. reflexivity.
  - intros ip. rewrite E, canon_set_in. reflexivity.
  - intros [ip Hd] Hnil. subst pubs. cbn [is_nil negb] in C. rewrite orb_false_r in C.
    apply zs_eqb_eq in C. apply Hd. rewrite <- (canon_set_in t), C, canon_set_in. reflexivity.
Qed.
