(* C13 — proofs that mention the constants regenerated from the source tree
   (coq/gen/C13Consts.v, written by tools/props/c13.py from zrpc/resolver/internal/resolver.go
   at every run): re-checked against today's value of subsetSize. *)
From Coq Require Import List ZArith Bool Lia Permutation.
From GZgen Require Import C13Consts.
From GZ Require Import C13.Model C13.Proofs C13.ProofsB C13.ProofsC C13.ProofsD C13.ProofsE.
Import ListNotations.
Open Scope Z_scope.

Lemma subsetSize_nonneg : 0 <= gen_subsetSize.
Proof. vm_compute. discriminate. Qed.

(* the property text says 32 *)
Lemma subsetSize_is_32 : gen_subsetSize = 32.
Proof. reflexivity. Qed.

Lemma resolver_publishes_gen : forall xs evs c sh,
  wf_run (init xs) evs -> In c (conts (run (init xs) evs)) -> cexcl c = false ->
  Permutation sh (clast c) ->
  let pub := subset sh gen_subsetSize in
  NoDup pub /\
  (forall v, In v pub -> registered (truth evs) v) /\
  (Z.of_nat (length (c_view c)) <= gen_subsetSize -> forall v, registered (truth evs) v -> In v pub) /\
  (gen_subsetSize < Z.of_nat (length (c_view c)) -> Z.of_nat (length pub) = gen_subsetSize).
Proof. intros xs evs c sh. apply resolver_publishes. apply subsetSize_nonneg. Qed.
