(* C13 — proofs that mention the constants regenerated from the source tree
   (coq/gen/C13Consts.v, written by tools/props/c13.py from zrpc/resolver/internal/resolver.go
   at every run): re-checked against today's value of subsetSize. *)
From Coq Require Import List ZArith Bool Lia Permutation.
From GZgen Require Import C13Consts.
From GZ Require Import C13.Model C13.Proofs C13.ProofsB C13.ProofsC C13.ProofsD C13.ProofsE.
Import ListNotations.
Open Scope Z_scope.

Lemma subsetSize_nonneg : 0 <= gen_subsetSize.
Proof. vm_compute. discriminate. Qed.

(* the property text says 32 *)
Lemma subsetSize_is_32 : gen_subsetSize = 32.
Proof. reflexivity. Qed.

Lemma resolver_publishes_gen : forall xs evs c sh,
  wf_run (init xs) evs -> In c (conts (run (init xs) evs)) -> cexcl c = false ->
  Permutation sh (clast c) ->
  let pub := subset sh gen_subsetSize in
  NoDup pub /\
  (forall v, In v pub -> registered (truth evs) v) /\
  (Z.of_nat (length (c_view c)) <= gen_subsetSize -> forall v, registered (truth evs) v -> In v pub) /\
  (gen_subsetSize < Z.of_nat (length (c_view c)) -> Z.of_nat (length pub) = gen_subsetSize).
Proof. intros xs evs c sh. apply resolver_publishes. apply subsetSize_nonneg. Qed.

(* ------------------------------------------------------------------ kube: OnAdd replaces *)
(* the source today (repair 435b2c7): EventHandler.OnAdd replaces the endpoint set like
   Update.  If OnAdd goes back to merging, this obligation breaks (and the correspondence
   shows the stale address). *)
Lemma kubeOnAddReplaces_today : gen_kubeOnAddReplaces = true.
Proof. reflexivity. Qed.

(* informer-ordered histories with NO condition on OnAdd: the added object may have lost
   addresses since the last Update / OnUpdate *)
Definition kwf_free (t : list Z) (e : kev) : Prop :=
  match e with
  | KAdd _ => True
  | _ => kwf t e
  end.

Fixpoint kwf_free_run (t : list Z) (l : list kev) : Prop :=
  match l with
  | [] => True
  | e :: l' => kwf_free t e /\ kwf_free_run (ktruth_step t e) l'
  end.

Lemma kwf_free_run_kwf : forall l t, kwf_free_run t l -> kwf_run t l.
Proof.
  induction l as [|e l IH]; intros t H; [exact I|].
  destruct H as [He Hl]. split; [|apply IH; exact Hl].
  destruct e; try exact He. left. exact kubeOnAddReplaces_today.
Qed.

Lemma kube_exact_free : forall l, kwf_free_run [] l ->
  let s := krun kinit l in
  NoDup (klast s) /\
  (forall ip, In ip (klast s) <-> In ip (ktruth l)) /\
  (forall ip, In ip (kend s) <-> In ip (ktruth l)).
Proof. intros l H. apply kube_exact. apply kwf_free_run_kwf. exact H. Qed.

(* ------------------------------------------------------------------ cluster.reload *)
(* the source today (repair a5553bd, F26): reload waits for the previous watch goroutines
   after releasing cluster.lock.  The models are sequential (events of one watcher are handled
   one after the other) - which is only true of the code if reload cannot block the watch
   goroutine it waits for; tools/props/c13.py replays that schedule on the real code at every
   run (reload monitor 1).  If the Wait moves back under the lock, this obligation breaks. *)
Lemma reloadWaitsOutsideLock_today : gen_reloadWaitsOutsideLock = true.
Proof. reflexivity. Qed.

(* the source today (repair 6727477, F28): watchStream selects on the done channel of the
   watch generation its goroutine belongs to.  Re-reading the field c.done lets a goroutine
   that was still loading when reload ran continue as a member of the previous generation:
   reload waits for it forever and the other watchers are never restarted (reload monitor 2
   replays that schedule on the real code at every run). *)
Lemma watchDoneBoundToGeneration_today : gen_watchDoneBoundToGeneration = true.
Proof. reflexivity. Qed.

(* the source today (repair aaae2e8, F32): setupWatch never creates a watcher.  A watch
   goroutine that outlives Registry.Unmonitor of the key's last listener (it was loading or
   between two streams) used to re-create an empty watcher without listeners, which the next
   subscriber of the key joined instead of loading (unmonitor monitor replays that schedule
   on the real code at every run).  In the model a watcher epoch starts with a load
   (Check.agrees_thread from [init []]; GJoin only ever joins a watcher whose values are the
   truth): that is only true of the code with this flag. *)
Lemma setupWatchNeverCreatesWatcher_today : gen_setupWatchNeverCreatesWatcher = true.
Proof. reflexivity. Qed.
