(* C13 — generations of a watcher (close-last-then-monitor-again while the old generation's
   goroutine is in the middle of a watch response).

   [old_generation_never_writes_new]: whatever events the goroutine of generation g still
   applies, the values of every other generation are untouched.  Hence the newest generation
   is determined by ITS OWN deliveries alone (a load at the time it was created and the watch
   that follows), and ProofsG.views_consistent applies to it unchanged
   ([new_generation_view]).  The lookup-by-key variant is refuted in Pinned.v. *)
From Coq Require Import List ZArith Bool Lia Permutation Arith.
From GZ Require Import C13.Model C13.Proofs C13.ProofsB C13.ProofsC C13.ProofsF C13.ProofsG.
Import ListNotations.
Open Scope Z_scope.

Lemma nth_upd_nth_other : forall gs g g' f d, g <> g' -> nth g' (upd_nth g f gs) d = nth g' gs d.
Proof.
  induction gs as [|m gs IH]; intros g g' f d H; [destruct g; reflexivity|].
  destruct g as [|g], g' as [|g']; cbn; try reflexivity; [lia|].
  apply IH. lia.
Qed.

Lemma length_upd_nth : forall gs g f, length (upd_nth g f gs) = length gs.
Proof.
  induction gs as [|m gs IH]; intros [|g] f; cbn; try reflexivity. rewrite IH. reflexivity.
Qed.

Lemma old_generation_never_writes_new_gen : forall g g' evs gs d,
  g <> g' -> nth g' (apply_bound g evs gs) d = nth g' gs d.
Proof. intros g g' evs gs d H. unfold apply_bound. apply nth_upd_nth_other. exact H. Qed.

(* any number of responses, of any old generations, in any order *)
Lemma old_generations_never_write_new : forall (work : list (nat * list bev)) gs g' d,
  (forall g evs, In (g, evs) work -> g <> g') ->
  nth g' (fold_left (fun gs w => apply_bound (fst w) (snd w) gs) work gs) d = nth g' gs d.
Proof.
  induction work as [|[g evs] work IH]; intros gs g' d H; cbn [fold_left]; [reflexivity|].
  rewrite IH by (intros g0 e0 Hin; apply (H g0 e0); right; exact Hin).
  cbn [fst snd]. apply old_generation_never_writes_new_gen. apply (H g evs). left. reflexivity.
Qed.

(* the newest generation: what its own machinery obtained from etcd decides its view, however
   much work older generations still do meanwhile *)
Lemma new_generation_view : forall h ds xs c (work : list (nat * list bev)) (gs : gens) g',
  (forall g evs, In (g, evs) work -> g <> g') ->
  nth g' gs [] = rvals (run (init xs) (map ev_of_g ds)) ->
  consistent h 0 0 ds ->
  wf_run (init xs) (map ev_of_g ds) ->
  In c (conts (run (init xs) (map ev_of_g ds))) ->
  fst (final_pos_g 0 0 ds) = snd (final_pos_g 0 0 ds) ->
  let now := etcd_state h (snd (final_pos_g 0 0 ds)) in
  (forall k, mget k (nth g' (fold_left (fun gs w => apply_bound (fst w) (snd w) gs) work gs) []) = mget k now) /\
  NoDup (c_values c) /\
  (cexcl c = false -> forall v, In v (c_values c) <-> registered now v) /\
  (cexcl c = true -> forall v, In v (c_values c) -> registered now v).
Proof.
  intros h ds xs c work gs g' Hw Hg Hc W Hin Heq. cbn zeta. split.
  - intros k. rewrite old_generations_never_write_new by exact Hw. rewrite Hg. rewrite rvals_truth.
    apply (truth_consistent h ds Hc Heq).
  - apply (views_consistent h ds xs c); assumption.
Qed.
