(* C13 — service discovery: executable model of
     core/discov/subscriber.go            container: addKv / doRemoveKey / getValues / notifyChange
     core/discov/internal/registry.go     cluster: handleWatchEvents / handleChanges / calculateChanges,
                                          Registry.Monitor on an existing watcher (replay of getCurrent)
     zrpc/resolver/internal/subset.go     subset (shuffle + take)
     zrpc/resolver/internal/kube/eventhandler.go   EventHandler OnAdd / OnDelete / OnUpdate / Update
   No proofs in this file, so that the model still runs when a proof breaks.

   Data refinement w.r.t. the Go code (checked by the correspondence run):
   - keys, values, IPs are integers (the harness uses the strings "k<i>", "v<j>", "<ip>");
   - Go maps are association lists used only through [mget]/[mset]/[mdel] (set semantics;
     everything observable is sorted before it is compared);
   - map iteration order (calculateChanges, getCurrent) and rand.Shuffle are ORACLE
     arguments of the events, filled in by the harness with what it observed and checked
     by [wf_ev]/[valid_pub] to be an allowed choice;
   - the etcd DELETE event carries no value; container.OnDelete ignores kv.Val;
   - container.snapshot/dirty (the cache inside getValues) IS state of the model
     ([cdirty], [csnap]): addKv / removeKey set the dirty bit, [get_values] rebuilds the
     snapshot iff it is set; the listener funcs and the harness read Values() through it;
   - in exclusive mode addKv ranges over the slice [keys] while doRemoveKey rewrites that
     slice in place; the model folds over a copy.  The two coincide because an exclusive
     container never holds two keys for one value (Proofs.exclusive_one_key_per_value). *)
From Coq Require Import List ZArith Bool.
From GZgen Require Import C13Consts.
Import ListNotations.
Open Scope Z_scope.

(* ---------------------------------------------------------------- finite maps *)
Section AMap.
  Context {A : Type}.
  Definition amap := list (Z * A).

  Fixpoint mget (k : Z) (m : amap) : option A :=
    match m with
    | [] => None
    | (k', a) :: m' => if k' =? k then Some a else mget k m'
    end.

  Fixpoint mdel (k : Z) (m : amap) : amap :=
    match m with
    | [] => []
    | (k', a) :: m' => if k' =? k then mdel k m' else (k', a) :: mdel k m'
    end.

  Definition mset (k : Z) (a : A) (m : amap) : amap := (k, a) :: mdel k m.
  Definition mkeys (m : amap) : list Z := map fst m.
End AMap.
Arguments amap A : clear implicits.

Definition getl (v : Z) (m : amap (list Z)) : list Z :=
  match mget v m with Some ks => ks | None => [] end.

Definition is_nil {A} (l : list A) : bool := match l with [] => true | _ => false end.

(* ---------------------------------------------------------------- container *)
Record container := mkC
  { cexcl : bool;
    cvals : amap (list Z);   (* container.values  : value -> keys *)
    cmap : amap Z;           (* container.mapping : key -> value *)
    cnotes : Z;              (* how many times each listener func was called *)
    clast : list Z;          (* Values() as seen by the listeners at the last call *)
    cdirty : bool;           (* container.dirty *)
    csnap : list Z }.        (* container.snapshot (nil before the first getValues) *)

Definition new_container (x : bool) : container := mkC x [] [] 0 [] true [].

(* the freshly computed view: the keys of container.values *)
Definition c_view (c : container) : list Z := mkeys (cvals c).

(* getValues: through the cache *)
Definition get_values (c : container) : container * list Z :=
  if cdirty c
  then (mkC (cexcl c) (cvals c) (cmap c) (cnotes c) (clast c) false (c_view c), c_view c)
  else (c, csnap c).

(* Subscriber.Values() as a caller sees it *)
Definition c_values (c : container) : list Z := snd (get_values c).

Definition set_dirty (c : container) : container :=
  mkC (cexcl c) (cvals c) (cmap c) (cnotes c) (clast c) true (csnap c).

Definition do_remove_key (key : Z) (c : container) : container :=
  match mget key (cmap c) with
  | None => c
  | Some server =>
    let remain := filter (fun k => negb (k =? key)) (getl server (cvals c)) in
    mkC (cexcl c)
        (if is_nil remain then mdel server (cvals c) else mset server remain (cvals c))
        (mdel key (cmap c)) (cnotes c) (clast c) (cdirty c) (csnap c)
  end.

(* removeKey: dirty.Set(true); doRemoveKey *)
Definition remove_key (key : Z) (c : container) : container := set_dirty (do_remove_key key c).

Definition add_kv (key value : Z) (c : container) : container :=
  (* fix of F3: a key that comes with a new value is detached from the previous one *)
  let c1 := match mget key (cmap c) with
            | Some old => if old =? value then c else do_remove_key key c
            | None => c
            end in
  let keys := getl value (cvals c1) in
  let c2 := if cexcl c1 && negb (is_nil keys)
            then fold_left (fun c' k => do_remove_key k c') keys c1 else c1 in
  (* c.dirty.Set(true) is the first statement of addKv *)
  mkC (cexcl c2) (mset value (getl value (cvals c2) ++ [key]) (cvals c2))
      (mset key value (cmap c2)) (cnotes c2) (clast c2) true (csnap c2).

(* notifyChange: every listener func is called once; [reads]: the listener funcs call
   Values() (discovBuilder's update() and the harness listeners do) and see its result *)
Definition notify_gen (reads : bool) (c : container) : container :=
  if reads then
    let '(c', v) := get_values c in
    mkC (cexcl c') (cvals c') (cmap c') (cnotes c' + 1) v (cdirty c') (csnap c')
  else mkC (cexcl c) (cvals c) (cmap c) (cnotes c + 1) (clast c) (cdirty c) (csnap c).
Definition notify := notify_gen true.

Definition on_add (k v : Z) (c : container) : container := notify (add_kv k v c).
Definition on_delete (k : Z) (c : container) : container := notify (remove_key k c).

(* calls of the UpdateListener interface *)
Inductive lev := LAdd (k v : Z) | LDel (k : Z).

Definition c_apply (c : container) (e : lev) : container :=
  match e with LAdd k v => on_add k v c | LDel k => on_delete k c end.

Definition c_run (c : container) (l : list lev) : container := fold_left c_apply l c.

(* the same call with listener funcs that do / do not read Values() *)
Definition c_apply_gen (reads : bool) (c : container) (e : lev) : container :=
  match e with
  | LAdd k v => notify_gen reads (add_kv k v c)
  | LDel k => notify_gen reads (remove_key k c)
  end.

(* the views handed to the listener funcs, one per call *)
Fixpoint c_trace (c : container) (l : list lev) : list (list Z) :=
  match l with
  | [] => []
  | e :: l' => let c' := c_apply c e in clast c' :: c_trace c' l'
  end.

(* ---------------------------------------------------------------- specification side *)
(* key -> value as implied by the calls a listener received; exclusive: a later
   registration of a value takes the value away from the keys that had it *)
Definition drop_val (v : Z) (m : amap Z) : amap Z :=
  filter (fun p => negb (snd p =? v)) m.

Definition sp_apply (x : bool) (m : amap Z) (e : lev) : amap Z :=
  match e with
  | LAdd k v => mset k v (if x then drop_val v m else m)
  | LDel k => mdel k m
  end.

Definition sp_run (x : bool) (l : list lev) : amap Z := fold_left (sp_apply x) l [].

(* does the call concern key k / register value v *)
Definition touches (k : Z) (e : lev) : bool :=
  match e with LAdd k' _ => k' =? k | LDel k' => k' =? k end.
Definition adds_val (v : Z) (e : lev) : bool :=
  match e with LAdd _ v' => v' =? v | LDel _ => false end.

(* ---------------------------------------------------------------- registry *)
(* one watch event of a watch response *)
Inductive bev := BPut (k v : Z) | BDel (k : Z).
Definition blev (b : bev) : lev := match b with BPut k v => LAdd k v | BDel k => LDel k end.
Definition bapply (m : amap Z) (b : bev) : amap Z :=
  match b with BPut k v => mset k v m | BDel k => mdel k m end.

Inductive ev :=
| EPut (k v : Z)                 (* watch event PUT   -> handleWatchEvents *)
| EDelete (k : Z)                (* watch event DELETE-> handleWatchEvents *)
| EReload (snap : list (Z * Z))  (* Get response      -> handleChanges *)
          (calls : list lev)     (* oracle: the OnAdd / OnDelete calls in the order they were made *)
| EJoin (x : bool) (order : list (Z * Z))         (* Registry.Monitor of a new container on the
                                                     existing watcher; oracle: replay order *)
| EBatch (b : list bev).         (* ONE handleWatchEvents call with several events, in order *)

Record sys := mkSys
  { rvals : amap Z;              (* watchValue.values *)
    conts : list container }.    (* watchValue.listeners *)

Definition init (xs : list bool) : sys := mkSys [] (map new_container xs).

(* newVals of handleChanges: later entries win *)
Definition snap_map (snap : list (Z * Z)) : amap Z :=
  fold_left (fun m kv => mset (fst kv) (snd kv) m) snap [].

Definition oz_eqb (a b : option Z) : bool :=
  match a, b with
  | Some x, Some y => x =? y
  | None, None => true
  | _, _ => false
  end.

(* calculateChanges (fixed): new or changed keys are added, vanished keys removed *)
Definition calc_add (old new : amap Z) : list (Z * Z) :=
  filter (fun kv => negb (oz_eqb (mget (fst kv) old) (Some (snd kv)))) new.
Definition calc_rem (old new : amap Z) : list Z :=
  map fst (filter (fun kv => match mget (fst kv) new with None => true | Some _ => false end) old).

Definition ladds (l : list (Z * Z)) : list lev := map (fun kv => LAdd (fst kv) (snd kv)) l.
Definition ldels (l : list Z) : list lev := map LDel l.

(* the UpdateListener calls every (already present) listener receives for an event *)
Definition emitted (e : ev) : list lev :=
  match e with
  | EPut k v => [LAdd k v]
  | EDelete k => [LDel k]
  | EReload _ calls => calls
  | EJoin _ _ => []
  | EBatch b => map blev b
  end.

Definition step (s : sys) (e : ev) : sys :=
  match e with
  | EPut k v => mkSys (mset k v (rvals s)) (map (fun c => c_run c (emitted e)) (conts s))
  | EDelete k => mkSys (mdel k (rvals s)) (map (fun c => c_run c (emitted e)) (conts s))
  | EReload snap _ => mkSys (snap_map snap) (map (fun c => c_run c (emitted e)) (conts s))
  | EJoin x order => mkSys (rvals s) (conts s ++ [c_run (new_container x) (ladds order)])
  | EBatch b => mkSys (fold_left bapply b (rvals s)) (map (fun c => c_run c (emitted e)) (conts s))
  end.

Definition run (s : sys) (l : list ev) : sys := fold_left step l s.

(* the registrations implied by the event history *)
Definition truth_step (t : amap Z) (e : ev) : amap Z :=
  match e with
  | EPut k v => mset k v t
  | EDelete k => mdel k t
  | EReload snap _ => snap_map snap
  | EJoin _ _ => t
  | EBatch b => fold_left bapply b t
  end.
Definition truth (l : list ev) : amap Z := fold_left truth_step l [].

(* ---------------------------------------------------------------- etcd and what it delivers *)
(* etcd's mutation history (as far as it concerns the watched range) is a list of PUT /
   DELETE; the store after the first r mutations: *)
Definition etcd_state (h : list bev) (r : nat) : amap Z := fold_left bapply (firstn r h) [].

(* the mutations number a, a+1, ..., b-1 *)
Definition seg (a b : nat) (h : list bev) : list bev := skipn a (firstn b h).

(* What the cluster's own machinery (monitor / load / watch / watchStream / reload) obtains
   from etcd for one watched key and feeds to handleChanges / handleWatchEvents:
   - GLoad r snap calls : a Get answered with the store after r mutations (cluster.load);
   - GRestart p         : cluster.setupWatch asks for a watch that starts with mutation p
                          (WithRev): after a load, after the stream was closed or cancelled,
                          after a reload;
   - GResp i evs        : one watch response carrying the mutations i, i+1, ...;
   - GJoin x order      : Registry.Monitor of a further listener on the existing watcher. *)
Inductive gdl :=
| GLoad (r : nat) (snap : list (Z * Z)) (calls : list lev)
| GRestart (p : nat)
| GResp (i : nat) (evs : list bev)
| GJoin (x : bool) (order : list (Z * Z)).

Definition ev_of_g (d : gdl) : ev :=
  match d with
  | GLoad _ snap calls => EReload snap calls
  | GRestart _ => EBatch []
  | GResp _ evs => EBatch evs
  | GJoin x order => EJoin x order
  end.

Definition bev_eqb (a b : bev) : bool :=
  match a, b with
  | BPut k v, BPut k' v' => (k =? k') && (v =? v')
  | BDel k, BDel k' => k =? k'
  | _, _ => false
  end.

Fixpoint bevs_eqb (a b : list bev) : bool :=
  match a, b with
  | [], [] => true
  | x :: a', y :: b' => bev_eqb x y && bevs_eqb a' b'
  | _, _ => false
  end.

(* two maps agree on every key *)
Definition amap_eqb (a b : amap Z) : bool :=
  forallb (fun k => oz_eqb (mget k a) (mget k b)) (mkeys a ++ mkeys b).

(* executable form of ProofsG.consistent: [pos] = the next mutation the current stream will
   deliver, [hi] = how far the registry has ever been told *)
Fixpoint consistent_b (h : list bev) (pos hi : nat) (ds : list gdl) : bool :=
  match ds with
  | [] => true
  | GLoad r snap _ :: ds' =>
    Nat.leb r (length h) && amap_eqb (snap_map snap) (etcd_state h r) && consistent_b h r (Nat.max hi r) ds'
  | GRestart p :: ds' => Nat.leb p pos && consistent_b h p hi ds'
  | GResp i evs :: ds' =>
    Nat.eqb i pos && Nat.leb (i + length evs) (length h) && bevs_eqb evs (seg i (i + length evs) h) &&
    consistent_b h (i + length evs) (Nat.max hi (i + length evs)) ds'
  | GJoin _ _ :: ds' => consistent_b h pos hi ds'
  end.

Fixpoint final_pos_g (pos hi : nat) (ds : list gdl) : nat * nat :=
  match ds with
  | [] => (pos, hi)
  | GLoad r _ _ :: ds' => final_pos_g r (Nat.max hi r) ds'
  | GRestart p :: ds' => final_pos_g p hi ds'
  | GResp i evs :: ds' => final_pos_g (i + length evs) (Nat.max hi (i + length evs)) ds'
  | GJoin _ _ :: ds' => final_pos_g pos hi ds'
  end.

(* ---------------------------------------------------------------- the watch loop and etcd's stream protocol *)
(* cluster.watchUntil / watchStream / setupWatch on one watched range, against what etcd does step
   by step.  Positions count the mutations of [h]; a revision (of a load, of a response header)
   is represented by the number of mutations of [h] it covers.
   - SBatch n hd : one watch response carrying the next n mutations of the current stream, with
                   header position hd.  etcd (mvcc/watchable_store.go, syncWatchers) catches a
                   watcher that is behind up in BATCHES and stamps EVERY batch with the CURRENT
                   store revision: pos + n <= hd, and the mutations pos+n .. hd-1 are still to
                   come.  n = 0: a progress notification;
   - SBreak      : the stream ends without compaction (channel closed, Canceled response, any
                   other error): watchUntil opens a new stream;
   - SLoad r snap calls : the stream ends with the compaction error, or cluster.reload runs after
                   a reconnect: cluster.load (a Get answered with the store after r mutations,
                   diffed by handleChanges) and a new stream from that revision;
   - SJoin x order : Registry.Monitor of a further listener. *)
Inductive sact :=
| SBatch (n hd : nat)
| SBreak
| SLoad (r : nat) (snap : list (Z * Z)) (calls : list lev)
| SJoin (x : bool) (order : list (Z * Z)).

(* where watchUntil resumes a broken stream:
   RLoadRev   - the code: `rev` stays the revision of the last load (everything since then is
                delivered again; the listeners' calls are idempotent in the end);
   RLastEvent - the ModRevision of the last handled event (a correct optimisation);
   RHeader    - the header revision of the last handled response (seeded change C13-9). *)
Inductive resume := RLoadRev | RLastEvent | RHeader.

(* [wrev]: the position the loop would resume from; [pos]: the next mutation of the stream *)
Definition next_wrev (pol : resume) (wrev pos n hd : nat) : nat :=
  match pol with
  | RLoadRev => wrev
  | RLastEvent => if Nat.eqb n 0 then wrev else (pos + n)%nat
  | RHeader => Nat.max wrev hd
  end.

Fixpoint watch_loop (pol : resume) (h : list bev) (wrev pos : nat) (script : list sact) : list gdl :=
  match script with
  | [] => []
  | SBatch n hd :: s =>
    GResp pos (seg pos (pos + n) h) :: watch_loop pol h (next_wrev pol wrev pos n hd) (pos + n) s
  | SBreak :: s => GRestart wrev :: watch_loop pol h wrev wrev s
  | SLoad r snap calls :: s => GLoad r snap calls :: GRestart r :: watch_loop pol h r r s
  | SJoin x order :: s => GJoin x order :: watch_loop pol h wrev pos s
  end.

(* ---------------------------------------------------------------- resolver *)
(* subset(set, sub): [sh] is what rand.Shuffle made of the set *)
Definition subset (sh : list Z) (sub : Z) : list Z :=
  if Z.of_nat (length sh) <=? sub then sh else firstn (Z.to_nat sub) sh.

(* ---------------------------------------------------------------- kube EventHandler *)
Record kobj := mkObj
  { orv : Z;                       (* ResourceVersion *)
    osubsets : list (list Z) }.    (* Subsets[i].Addresses[j].IP *)

Definition ips (o : kobj) : list Z := concat (osubsets o).

Inductive kev :=
| KAdd (o : kobj)            (* OnAdd(o, _) *)
| KDelete (o : kobj)         (* OnDelete(o) *)
| KOnUpdate (old new : kobj) (* OnUpdate(old, new) *)
| KUpdate (o : kobj)         (* Update(o) *)
| KOther                     (* OnAdd / OnDelete / OnUpdate with an object that is not *v1.Endpoints: ignored *)
| KTombstone (o : kobj).     (* OnDelete(cache.DeletedFinalStateUnknown{Obj: o}): ignored by the code *)

Record kstate := mkK
  { kend : list Z;           (* h.endpoints (a set: no duplicates) *)
    kcount : Z;              (* number of calls of h.update *)
    klast : list Z }.        (* argument of the last call of h.update *)

Definition kinit : kstate := mkK [] 0 [].

Definition zmem (x : Z) (l : list Z) : bool := existsb (Z.eqb x) l.
Definition zrem (x : Z) (l : list Z) : list Z := filter (fun y => negb (y =? x)) l.

Definition knotify (s : kstate) : kstate := mkK (kend s) (kcount s + 1) (kend s).

(* returns the new set and whether anything changed *)
Fixpoint kadd_all (l : list Z) (e : list Z) (changed : bool) : list Z * bool :=
  match l with
  | [] => (e, changed)
  | ip :: l' => if zmem ip e then kadd_all l' e changed else kadd_all l' (e ++ [ip]) true
  end.

Fixpoint kdel_all (l : list Z) (e : list Z) (changed : bool) : list Z * bool :=
  match l with
  | [] => (e, changed)
  | ip :: l' => if zmem ip e then kdel_all l' (zrem ip e) true else kdel_all l' e changed
  end.

(* diff(o, n) *)
Definition kdiff (o n : list Z) : bool :=
  negb (Nat.eqb (length o) (length n)) || existsb (fun k => negb (zmem k n)) o.

Definition k_update (o : kobj) (s : kstate) : kstate :=
  let n := fst (kadd_all (ips o) [] false) in
  let s' := mkK n (kcount s) (klast s) in
  if kdiff (kend s) n then knotify s' else s'.

Definition kstep (s : kstate) (e : kev) : kstate :=
  match e with
  | KAdd o =>
    (* [gen_kubeOnAddReplaces] is read off the source at every run: OnAdd either unions the
       object's addresses into the set (pinned code) or replaces the set (h.Update) *)
    if gen_kubeOnAddReplaces then k_update o s else
    let '(n, ch) := kadd_all (ips o) (kend s) false in
    let s' := mkK n (kcount s) (klast s) in if ch then knotify s' else s'
  | KDelete o =>
    let '(n, ch) := kdel_all (ips o) (kend s) false in
    let s' := mkK n (kcount s) (klast s) in if ch then knotify s' else s'
  | KOnUpdate old new => if orv old =? orv new then s else k_update new s
  | KUpdate o => k_update o s
  | KOther => s
  | KTombstone _ => s
  end.

Definition krun (s : kstate) (l : list kev) : kstate := fold_left kstep l s.

(* the current endpoint addresses implied by the event history: the (single, selected
   by name) Endpoints object as last reported *)
Definition ktruth_step (t : list Z) (e : kev) : list Z :=
  match e with
  | KAdd o => ips o
  | KDelete _ => []
  | KOnUpdate _ new => ips new
  | KUpdate o => ips o
  | KOther => t
  | KTombstone _ => []
  end.
Definition ktruth (l : list kev) : list Z := fold_left ktruth_step l [].

(* ---------------------------------------------------------------- dispatch of one call to the listeners *)
(* handleWatchEvents / handleChanges deliver a call to the listeners of the watcher while
   listener callbacks (or other goroutines, while a callback runs) may call back into the
   registry: Registry.Unmonitor (Subscriber.Close) removes a listener, Registry.Monitor
   (NewSubscriber) appends one.  Listeners are identified by numbers; [acts i] = what happens
   to the listener set while the i-th callback of the dispatch runs. *)
Inductive mact := MLeave (l : Z) | MJoin (l : Z).

Definition mapply (ls : list Z) (a : mact) : list Z :=
  match a with MLeave l => zrem l ls | MJoin l => ls ++ [l] end.

Definition members_after (ls : list Z) (n : nat) (acts : nat -> list mact) : list Z :=
  fold_left (fun cur i => fold_left mapply (acts i) cur) (seq 0 n) ls.

(* the code: `listeners := append([]UpdateListener(nil), watcher.listeners...)` under the lock,
   then `for _, l := range listeners`: the dispatch ranges over a SNAPSHOT; result =
   (listeners called, in order; listener set afterwards) *)
Definition dispatch_copy (ls : list Z) (acts : nat -> list mact) : list Z * list Z :=
  (ls, members_after ls (length ls) acts).

(* the variant without the copy (`listeners := watcher.listeners`): the range goes over the
   slice header (pointer, length) read at the start, i.e. over the live BACKING ARRAY.
   Unmonitor's `append(s[:i], s[i+1:]...)` shifts the tail of that array one slot to the left
   (the last slot keeps its content); Monitor's append never touches the first len slots. *)
Fixpoint shift_out (l : Z) (arr : list Z) : list Z :=
  match arr with
  | [] => []
  | x :: r => if x =? l then r ++ [last r x] else x :: shift_out l r
  end.

Definition arr_apply (arr : list Z) (a : mact) : list Z :=
  match a with MLeave l => shift_out l arr | MJoin _ => arr end.

Fixpoint dispatch_inplace_from (idx : list nat) (arr cur : list Z) (acts : nat -> list mact)
         (called : list Z) : list Z * list Z :=
  match idx with
  | [] => (called, cur)
  | i :: idx' =>
    dispatch_inplace_from idx' (fold_left arr_apply (acts i) arr) (fold_left mapply (acts i) cur) acts
                          (called ++ [nth i arr 0])
  end.

Definition dispatch_inplace (ls : list Z) (acts : nat -> list mact) : list Z * list Z :=
  dispatch_inplace_from (seq 0 (length ls)) ls ls acts [].

(* ---------------------------------------------------------------- a join that overlaps events *)
(* Registry.Monitor on a watched key: the known values (a snapshot of watchValue.values) are
   replayed to the joining listener, one OnAdd per key, while the watch goroutine may handle
   events.  A schedule lists, in the order in which they happen, the replay calls and the events
   handled meanwhile. *)
Inductive jstep := JReplay (k v : Z) | JEvent (b : bev).

(* the joiner is in watcher.listeners before the snapshot is taken (attach, then replay):
   it is called for the events as well *)
Definition jcalls_attached (sched : list jstep) : list lev :=
  map (fun s => match s with JReplay k v => LAdd k v | JEvent b => blev b end) sched.

(* the joiner is attached after the replay (replay, then attach - seeded change C13-6): the
   events handled during the replay reach only the other listeners *)
Definition jcalls_detached (sched : list jstep) : list lev :=
  flat_map (fun s => match s with JReplay k v => [LAdd k v] | JEvent _ => [] end) sched.

Definition jevents (sched : list jstep) : list bev :=
  flat_map (fun s => match s with JReplay _ _ => [] | JEvent b => [b] end) sched.

(* ---------------------------------------------------------------- generations of a watcher *)
(* Every time a key that is not watched is monitored, a NEW watchValue is created (Unmonitor of
   the last listener deletes the old one and cancels its watch); the watch goroutine of an old
   generation may still be in the middle of a watch response.  [gens]: the values of every
   watchValue ever created for one key, newest last. *)
Definition gens := list (amap Z).

Fixpoint upd_nth (g : nat) (f : amap Z -> amap Z) (gs : gens) : gens :=
  match gs, g with
  | [], _ => []
  | m :: gs', O => f m :: gs'
  | m :: gs', S g' => m :: upd_nth g' f gs'
  end.

(* the code: handleWatchEvents looks the watchValue up ONCE per response and applies every
   event of the response to that object - the goroutine of generation g writes generation g *)
Definition apply_bound (g : nat) (evs : list bev) (gs : gens) : gens :=
  upd_nth g (fun m => fold_left bapply evs m) gs.

(* the variant that looks the watcher up BY KEY for every event (seeded change C13-8): the rest
   of a response goes to whatever generation is current *)
Definition apply_bykey (evs : list bev) (gs : gens) : gens :=
  upd_nth (Nat.pred (length gs)) (fun m => fold_left bapply evs m) gs.
